/-
  C09 — marching cubes yields a closed, consistently oriented surface on the isosurface,
  regardless of resolution and of where the shape sits relative to the 100³ storage blocks.

  All theorems are about `PolyVerif.Model.March`, whose data is `PolyVerif.Gen.MarchTable`
  (regenerated from /repo/modeling/marching/{table.go,canvas.go} on every check).
  Table-level theorems are `decide +kernel` over the COMPLETE 256-case table.
  Helper lemmas are `private` or named `*_aux`.
-/
import PolyVerif.Model.March
import PolyVerif.Lemmas.MarchTableFacts
import PolyVerif.Lemmas.MarchVolume
import PolyVerif.Lemmas.MarchVolumeCornersA
import PolyVerif.Lemmas.MarchVolumeCornersB
import PolyVerif.Lemmas.MarchVolumeClosedA
import PolyVerif.Lemmas.MarchVolumeClosedB
import PolyVerif.Lemmas.MarchCaps
import PolyVerif.Gen.MarchInterp
import PolyVerif.Lemmas.RealScalar
import Mathlib.Topology.Order.IntermediateValue
import Mathlib.Tactic

namespace PolyVerif
namespace C09
open PolyVerif.March PolyVerif.Gen.March

/-! ## 1. Table-level theorems (complete finite tables; kernel-evaluated in `Lemmas/MarchTableFacts.lean`,
    restated here) -/

/-- shapes of the extracted literals: 256 rows of 16; 12 + 12 edge corners, all < 8; 8 corner offsets,
    all in {0,1}³ and pairwise distinct; the offsets used for sample lookup, for vertex positions and for
    the neighbour-block selection are the same list; `lookupIndex` sets bit `i` for corner `i`;
    the triangle loop stops at -1 with stride 3. -/
theorem table_shapes :
    triangulation.length = 256 ∧ triangulation.all (fun r => r.length = 16) = true ∧
    cornerIndexAFromEdge.length = 12 ∧ cornerIndexBFromEdge.length = 12 ∧
    cornerIndexAFromEdge.all (· < 8) = true ∧ cornerIndexBFromEdge.all (· < 8) = true ∧
    cubeDataIndexIncrements.length = 8 ∧
    cubeDataIndexIncrements.all (fun r => r.length = 3 ∧ r.all (fun x => x = 0 ∨ x = 1)) = true ∧
    cubeDataIndexIncrements.Nodup ∧
    cubeCornerPositions = cubeDataIndexIncrements ∧ cubeDataBlockPositions = cubeDataIndexIncrements ∧
    lookupBits = (List.range 8).map (fun i => [Int.ofNat i, Int.ofNat (2 ^ i)]) ∧
    loopTerminator = -1 ∧ loopStride = 3 :=
  Tab.table_shapes

/-- every row reaches the terminator at a multiple of 3 (the Go loop never indexes out of range) and
    every entry before it is a cube-edge index in [0, 12) -/
theorem table_rows_wellformed :
    triangulation.all (fun r => rowTerminates r &&
      (rowTris r).all (fun t => decide (0 ≤ t.1 ∧ t.1 < 12 ∧ 0 ≤ t.2.1 ∧ t.2.1 < 12 ∧ 0 ≤ t.2.2 ∧ t.2.2 < 12))) = true :=
  Tab.table_rows_wellformed

/-- the model's case index of a sign pattern is the binary number of its bits (so every one of the
    256 rows is reached by exactly the pattern it is meant for) -/
theorem table_caseIndex : ∀ b0 b1 b2 b3 b4 b5 b6 b7 : Bool,
    caseIndex (bits8 b0 b1 b2 b3 b4 b5 b6 b7) =
      b0.toNat + 2 * b1.toNat + 4 * b2.toNat + 8 * b3.toNat + 16 * b4.toNat + 32 * b5.toNat + 64 * b6.toNat + 128 * b7.toNat :=
  Tab.table_caseIndex

/-- every cube edge joins two corners that differ by one step along exactly one axis, and distinct cube
    edges lie on distinct lattice edges -/
theorem table_edges_are_lattice_edges :
    (List.range 12).all (fun e =>
      let a := cornerOff (cA e); let b := cornerOff (cB e)
      decide ((a.1 - b.1).natAbs + (a.2.1 - b.2.1).natAbs + (a.2.2 - b.2.2).natAbs = 1)) = true ∧
    ((List.range 12).map edgeRel).Nodup ∧
    (List.range 12).all (fun e => edgeRel e = edgeRelRaw e) = true :=
  Tab.table_edges_are_lattice_edges

/-- every triangle vertex lies on a cube edge whose two corners have different inside/outside bits -/
theorem table_edges_cross : ∀ b0 b1 b2 b3 b4 b5 b6 b7 : Bool,
    (caseTris (caseIndex (bits8 b0 b1 b2 b3 b4 b5 b6 b7))).all (fun t =>
      [t.1, t.2.1, t.2.2].all fun e =>
        (bits8 b0 b1 b2 b3 b4 b5 b6 b7).getD (cA e) false != (bits8 b0 b1 b2 b3 b4 b5 b6 b7).getD (cB e) false) = true :=
  Tab.table_edges_cross

/-- no triangle uses one cube edge twice -/
theorem table_nondegenerate :
    (List.range 256).all (fun c => (caseTris c).all fun t => t.1 != t.2.1 && t.2.1 != t.2.2 && t.2.2 != t.1) = true :=
  Tab.table_nondegenerate

/-- no case draws the same directed edge twice -/
theorem table_no_duplicate_edge :
    (List.range 256).all (fun c => decide (caseSegs c).Nodup) = true :=
  Tab.table_no_duplicate_edge

/-- within each case every directed triangle edge not lying in a cube face is matched by its reverse
    (and by `table_no_duplicate_edge`, exactly once) -/
theorem table_interior_balanced :
    (List.range 256).all (fun c => balancedB (interiorSegs c)) = true :=
  Tab.table_interior_balanced

/-- the all-outside face draws nothing -/
theorem table_canon_empty : canon 0 [false, false, false, false] = [] ∧ canon 1 [false, false, false, false] = [] ∧
    canon 2 [false, false, false, false] = [] :=
  Tab.table_canon_empty

/-- canonical-face form: on its high face perpendicular to `a` a case draws exactly `canon a (bits of that face)`
    and on its low face exactly the reverses of `canon a (bits of that face)` -/
theorem table_face_canonical : ∀ b0 b1 b2 b3 b4 b5 b6 b7 : Bool,
    (List.range 3).all (fun a =>
      let bits := bits8 b0 b1 b2 b3 b4 b5 b6 b7
      (faceSegs (caseIndex bits) a 1).isPerm ((canon a (faceBits bits a 1)).map (shiftE (unit a))) &&
      (faceSegs (caseIndex bits) a 0).isPerm ((canon a (faceBits bits a 0)).map swapE)) = true :=
  Tab.table_face_canonical

/-- the cell identity used by the gluing theorem: own edges + canonical segments of the three low faces
    + reversed canonical segments of the three high faces is a balanced list, for all 256 sign patterns -/
theorem table_cell_flow : ∀ b0 b1 b2 b3 b4 b5 b6 b7 : Bool,
    balancedB (flowList (bits8 b0 b1 b2 b3 b4 b5 b6 b7)) = true :=
  Tab.table_cell_flow

/-- in lattice-edge ids, too, no case draws the same directed edge twice -/
theorem table_case_edges_nodup : ∀ b0 b1 b2 b3 b4 b5 b6 b7 : Bool,
    decide ((caseSegsRel (caseIndex (bits8 b0 b1 b2 b3 b4 b5 b6 b7))).Nodup) = true :=
  Tab.table_case_edges_nodup

/-- a face never carries a segment together with its reverse -/
theorem table_canon_no_antiparallel :
    (List.range 3).all (fun a => (List.range 16).all fun k =>
      (canon a (bits4 k)).all fun e => !((canon a (bits4 k)).contains (swapE e))) = true :=
  Tab.table_canon_no_antiparallel

/-- two cases that agree on the four shared corner bits draw opposite segments on the shared face -/
theorem table_face_consistent (a : Nat) (ha : a < 3) (b0 b1 b2 b3 b4 b5 b6 b7 c0 c1 c2 c3 c4 c5 c6 c7 : Bool)
    (h : faceBits (bits8 b0 b1 b2 b3 b4 b5 b6 b7) a 1 = faceBits (bits8 c0 c1 c2 c3 c4 c5 c6 c7) a 0) :
    (faceSegs (caseIndex (bits8 b0 b1 b2 b3 b4 b5 b6 b7)) a 1).Perm
      (((faceSegs (caseIndex (bits8 c0 c1 c2 c3 c4 c5 c6 c7)) a 0).map swapE).map (shiftE (unit a))) := by
  have hb := table_face_canonical b0 b1 b2 b3 b4 b5 b6 b7
  have hc := table_face_canonical c0 c1 c2 c3 c4 c5 c6 c7
  rw [List.all_eq_true] at hb hc
  have hb' := hb a (List.mem_range.mpr ha)
  have hc' := hc a (List.mem_range.mpr ha)
  simp only [Bool.and_eq_true, List.isPerm_iff] at hb' hc'
  refine hb'.1.trans ?_
  rw [h]
  have h2 : ((faceSegs (caseIndex (bits8 c0 c1 c2 c3 c4 c5 c6 c7)) a 0).map swapE).Perm
      (((canon a (faceBits (bits8 c0 c1 c2 c3 c4 c5 c6 c7) a 0)).map swapE).map swapE) := hc'.2.map swapE
  have h3 : ((canon a (faceBits (bits8 c0 c1 c2 c3 c4 c5 c6 c7) a 0)).map swapE).map swapE
      = canon a (faceBits (bits8 c0 c1 c2 c3 c4 c5 c6 c7) a 0) := by
    rw [List.map_map]; conv_rhs => rw [← List.map_id (canon a _)]
    congr 1
  rw [h3] at h2
  exact (h2.map (shiftE (unit a))).symm


/-! ## 2. Gluing: the surface of an arbitrary box of cells is closed (balanced) -/

/-- every directed edge occurs exactly as often as its reverse -/
def Balanced {V : Type} [DecidableEq V] (L : List (V × V)) : Prop := ∀ u v, L.count (u, v) = L.count (v, u)

theorem balancedB_sound_aux {V : Type} [DecidableEq V] (L : List (V × V)) (h : balancedB L = true) : Balanced L := by
  intro u v
  unfold balancedB at h
  rw [List.all_eq_true] at h
  by_cases h1 : (u, v) ∈ L
  · simpa using h _ h1
  · by_cases h2 : (v, u) ∈ L
    · have := h _ h2; simp at this; exact this.symm
    · rw [List.count_eq_zero_of_not_mem h1, List.count_eq_zero_of_not_mem h2]

theorem swapE_injective_aux {V : Type} : Function.Injective (swapE : V × V → V × V) := by
  intro a b h; cases a; cases b; simp [swapE] at h; simp [h.1, h.2]

theorem count_map_swap_aux {V : Type} [DecidableEq V] (L : List (V × V)) (u v : V) :
    (L.map swapE).count (u, v) = L.count (v, u) := by
  have : (u, v) = swapE (v, u) := rfl
  rw [this, List.count_map_of_injective L swapE swapE_injective_aux]

/-- balance survives any relabelling of the vertices (injective or not) -/
theorem Balanced.map_aux {V W : Type} [DecidableEq V] [DecidableEq W] {L : List (V × V)} (h : Balanced L) (f : V → W) :
    Balanced (L.map fun e => (f e.1, f e.2)) := by
  have hp : L.Perm (L.map swapE) := by
    rw [List.perm_iff_count]; intro a; cases a with | mk a b => rw [count_map_swap_aux]; exact h a b
  have hp2 := hp.map (fun e : V × V => (f e.1, f e.2))
  intro u v
  rw [hp2.count_eq, List.map_map]
  have : ((fun e : V × V => (f e.1, f e.2)) ∘ swapE) = (swapE ∘ fun e : V × V => (f e.1, f e.2)) := by
    funext e; rfl
  rw [this, ← List.map_map, count_map_swap_aux]

/-- net flow of a list of directed edges through the pair `(u, v)` -/
def fl {V : Type} [DecidableEq V] (u v : V) (L : List (V × V)) : ℤ := (L.count (u, v) : ℤ) - (L.count (v, u) : ℤ)

section flgen
variable {V : Type} [DecidableEq V] (u v : V)
theorem fl_nil_aux : fl u v [] = 0 := by simp [fl]
theorem fl_append_aux (L M : List (V × V)) : fl u v (L ++ M) = fl u v L + fl u v M := by
  simp [fl, List.count_append]; ring
theorem fl_swap_aux (L : List (V × V)) : fl u v (L.map swapE) = - fl u v L := by
  unfold fl; rw [count_map_swap_aux, count_map_swap_aux]; ring
theorem fl_balanced_aux {L : List (V × V)} (h : Balanced L) : fl u v L = 0 := by
  unfold fl; rw [h u v]; ring
theorem balanced_of_fl_aux {L : List (V × V)} (h : ∀ u v, fl u v L = 0) : Balanced L := by
  intro u v; have := h u v; unfold fl at this; omega
end flgen

section glue
variable (s : Pt → Bool) (u v : LEdge)

/-- the four sign bits of the lattice face perpendicular to `a` with lower corner `q` -/
def latticeFaceBits (q : Pt) (a : Nat) : List Bool := planePts.map fun uv => s (padd q (embed a 0 uv))

/-- flow of the canonical segments of that lattice face -/
def G (a : Nat) (q : Pt) : ℤ := fl u v ((canon a (latticeFaceBits s q a)).map (shiftE q))

theorem faceBits_low_aux (p : Pt) (a : Nat) (ha : a < 3) :
    faceBits (cellBits s p) a 0 = latticeFaceBits s p a := by
  interval_cases a <;> rfl

theorem padd_assoc_aux (p q r : Pt) : padd (padd p q) r = padd p (padd q r) := by
  simp [padd, add_assoc]

theorem faceBits_high_aux (p : Pt) (a : Nat) (ha : a < 3) :
    faceBits (cellBits s p) a 1 = latticeFaceBits s (padd p (unit a)) a := by
  interval_cases a <;>
    simp only [latticeFaceBits, planePts, List.map, padd_assoc_aux] <;> rfl

theorem shiftE_shiftE_aux (p q : Pt) (L : List DEdge) : (L.map (shiftE q)).map (shiftE p) = L.map (shiftE (padd p q)) := by
  rw [List.map_map]; congr 1; funext e
  simp [shiftE, shiftL, padd_assoc_aux]

theorem shiftE_swap_aux (p : Pt) (L : List DEdge) : (L.map swapE).map (shiftE p) = (L.map (shiftE p)).map swapE := by
  rw [List.map_map, List.map_map]; congr 1

/-- discrete divergence form of one cell: its net flow is the sum over the three axes of
    (canonical flow of its high face) − (canonical flow of its low face) -/
theorem cell_flow_aux (p : Pt) :
    fl u v (cellEdges s p) =
      (G s u v 0 (padd p (unit 0)) - G s u v 0 p) + (G s u v 1 (padd p (unit 1)) - G s u v 1 p)
        + (G s u v 2 (padd p (unit 2)) - G s u v 2 p) := by
  have hb := balancedB_sound_aux _ (table_cell_flow (s (padd p (cornerOff 0))) (s (padd p (cornerOff 1)))
    (s (padd p (cornerOff 2))) (s (padd p (cornerOff 3))) (s (padd p (cornerOff 4))) (s (padd p (cornerOff 5)))
    (s (padd p (cornerOff 6))) (s (padd p (cornerOff 7))))
  have hm := fl_balanced_aux u v (hb.map_aux (shiftL p))
  change fl u v ((flowList (cellBits s p)).map (shiftE p)) = 0 at hm
  unfold flowList at hm
  simp only [List.map_append, fl_append_aux, shiftE_swap_aux, fl_swap_aux, shiftE_shiftE_aux,
    faceBits_low_aux s p _ (by decide : (0:Nat) < 3), faceBits_low_aux s p _ (by decide : (1:Nat) < 3),
    faceBits_low_aux s p _ (by decide : (2:Nat) < 3), faceBits_high_aux s p _ (by decide : (0:Nat) < 3),
    faceBits_high_aux s p _ (by decide : (1:Nat) < 3), faceBits_high_aux s p _ (by decide : (2:Nat) < 3)] at hm
  simp only [G, cellEdges]
  linarith


/-- the sign pattern is all-outside on the boundary layer of the closed box of lattice points
    `[o, o + (nx, ny, nz)]` -/
def BoundaryOutside (o : Pt) (nx ny nz : Nat) : Prop :=
  ∀ q : Pt, o.1 ≤ q.1 → q.1 ≤ o.1 + nx → o.2.1 ≤ q.2.1 → q.2.1 ≤ o.2.1 + ny → o.2.2 ≤ q.2.2 → q.2.2 ≤ o.2.2 + nz →
    (q.1 = o.1 ∨ q.1 = o.1 + nx ∨ q.2.1 = o.2.1 ∨ q.2.1 = o.2.1 + ny ∨ q.2.2 = o.2.2 ∨ q.2.2 = o.2.2 + nz) →
    s q = false

/-- origin of cell `(i, j, k)` of the box -/
def cellAt (o : Pt) (i j k : Nat) : Pt := padd o (Int.ofNat i, Int.ofNat j, Int.ofNat k)

theorem fl_flatMap_range_aux {V : Type} [DecidableEq V] (a b : V) (n : Nat) (f : Nat → List (V × V)) :
    fl a b ((List.range n).flatMap f) = ∑ i ∈ Finset.range n, fl a b (f i) := by
  induction n with
  | zero => simp [fl]
  | succ n ih =>
    rw [List.range_succ, List.flatMap_append, fl_append_aux, ih, Finset.sum_range_succ]
    simp

theorem boxEdges_eq_aux (o : Pt) (nx ny nz : Nat) :
    boxEdges s o nx ny nz =
      (List.range nx).flatMap fun i => (List.range ny).flatMap fun j => (List.range nz).flatMap fun k =>
        cellEdges s (cellAt o i j k) := by
  simp only [boxEdges, boxCells, List.flatMap_assoc, List.flatMap_map, cellAt]

theorem fl_box_aux (o : Pt) (nx ny nz : Nat) :
    fl u v (boxEdges s o nx ny nz) =
      ∑ i ∈ Finset.range nx, ∑ j ∈ Finset.range ny, ∑ k ∈ Finset.range nz, fl u v (cellEdges s (cellAt o i j k)) := by
  rw [boxEdges_eq_aux, fl_flatMap_range_aux]
  refine Finset.sum_congr rfl fun i _ => ?_
  rw [fl_flatMap_range_aux]
  refine Finset.sum_congr rfl fun j _ => ?_
  rw [fl_flatMap_range_aux]

theorem cellAt_succ0_aux (o : Pt) (i j k : Nat) : padd (cellAt o i j k) (unit 0) = cellAt o (i+1) j k := by
  simp [cellAt, padd, unit]; omega
theorem cellAt_succ1_aux (o : Pt) (i j k : Nat) : padd (cellAt o i j k) (unit 1) = cellAt o i (j+1) k := by
  simp [cellAt, padd, unit]; omega
theorem cellAt_succ2_aux (o : Pt) (i j k : Nat) : padd (cellAt o i j k) (unit 2) = cellAt o i j (k+1) := by
  simp [cellAt, padd, unit]; omega

theorem G_zero_of_bits_aux (a : Nat) (ha : a < 3) (q : Pt)
    (h : latticeFaceBits s q a = [false, false, false, false]) : G s u v a q = 0 := by
  have hc := table_canon_empty
  unfold G; rw [h]
  interval_cases a
  · rw [hc.1]; simp [fl]
  · rw [hc.2.1]; simp [fl]
  · rw [hc.2.2]; simp [fl]


variable {s}

theorem G0_boundary_aux {o : Pt} {nx ny nz : Nat} (hbd : BoundaryOutside s o nx ny nz) (i j k : Nat)
    (hi : i = 0 ∨ i = nx) (hj : j < ny) (hk : k < nz) : G s u v 0 (cellAt o i j k) = 0 := by
  apply G_zero_of_bits_aux s u v 0 (by decide)
  simp only [latticeFaceBits, planePts, List.map, embed, cellAt, padd]
  have e : ∀ q, _ := hbd
  simp only [List.cons.injEq, and_true]
  refine ⟨?_, ?_, ?_, ?_⟩ <;> (apply hbd <;> simp <;> omega)

theorem G1_boundary_aux {o : Pt} {nx ny nz : Nat} (hbd : BoundaryOutside s o nx ny nz) (i j k : Nat)
    (hi : i < nx) (hj : j = 0 ∨ j = ny) (hk : k < nz) : G s u v 1 (cellAt o i j k) = 0 := by
  apply G_zero_of_bits_aux s u v 1 (by decide)
  simp only [latticeFaceBits, planePts, List.map, embed, cellAt, padd]
  simp only [List.cons.injEq, and_true]
  refine ⟨?_, ?_, ?_, ?_⟩ <;> (apply hbd <;> simp <;> omega)

theorem G2_boundary_aux {o : Pt} {nx ny nz : Nat} (hbd : BoundaryOutside s o nx ny nz) (i j k : Nat)
    (hi : i < nx) (hj : j < ny) (hk : k = 0 ∨ k = nz) : G s u v 2 (cellAt o i j k) = 0 := by
  apply G_zero_of_bits_aux s u v 2 (by decide)
  simp only [latticeFaceBits, planePts, List.map, embed, cellAt, padd]
  simp only [List.cons.injEq, and_true]
  refine ⟨?_, ?_, ?_, ?_⟩ <;> (apply hbd <;> simp <;> omega)

/-- net flow through any pair of lattice edges over the whole box is zero -/
theorem fl_box_zero_aux {o : Pt} {nx ny nz : Nat} (hbd : BoundaryOutside s o nx ny nz) :
    fl u v (boxEdges s o nx ny nz) = 0 := by
  rw [fl_box_aux]
  simp only [cell_flow_aux, cellAt_succ0_aux, cellAt_succ1_aux, cellAt_succ2_aux, Finset.sum_add_distrib]
  have h0 : ∑ i ∈ Finset.range nx, ∑ j ∈ Finset.range ny, ∑ k ∈ Finset.range nz,
      (G s u v 0 (cellAt o (i+1) j k) - G s u v 0 (cellAt o i j k)) = 0 := by
    rw [Finset.sum_comm]
    refine Finset.sum_eq_zero fun j hj => ?_
    rw [Finset.sum_comm]
    refine Finset.sum_eq_zero fun k hk => ?_
    rw [Finset.sum_range_sub (fun i => G s u v 0 (cellAt o i j k))]
    rw [G0_boundary_aux u v hbd nx j k (Or.inr rfl) (Finset.mem_range.mp hj) (Finset.mem_range.mp hk),
        G0_boundary_aux u v hbd 0 j k (Or.inl rfl) (Finset.mem_range.mp hj) (Finset.mem_range.mp hk)]
    simp
  have h1 : ∑ i ∈ Finset.range nx, ∑ j ∈ Finset.range ny, ∑ k ∈ Finset.range nz,
      (G s u v 1 (cellAt o i (j+1) k) - G s u v 1 (cellAt o i j k)) = 0 := by
    refine Finset.sum_eq_zero fun i hi => ?_
    rw [Finset.sum_comm]
    refine Finset.sum_eq_zero fun k hk => ?_
    rw [Finset.sum_range_sub (fun j => G s u v 1 (cellAt o i j k))]
    rw [G1_boundary_aux u v hbd i ny k (Finset.mem_range.mp hi) (Or.inr rfl) (Finset.mem_range.mp hk),
        G1_boundary_aux u v hbd i 0 k (Finset.mem_range.mp hi) (Or.inl rfl) (Finset.mem_range.mp hk)]
    simp
  have h2 : ∑ i ∈ Finset.range nx, ∑ j ∈ Finset.range ny, ∑ k ∈ Finset.range nz,
      (G s u v 2 (cellAt o i j (k+1)) - G s u v 2 (cellAt o i j k)) = 0 := by
    refine Finset.sum_eq_zero fun i hi => ?_
    refine Finset.sum_eq_zero fun j hj => ?_
    rw [Finset.sum_range_sub (fun k => G s u v 2 (cellAt o i j k))]
    rw [G2_boundary_aux u v hbd i j nz (Finset.mem_range.mp hi) (Finset.mem_range.mp hj) (Or.inr rfl),
        G2_boundary_aux u v hbd i j 0 (Finset.mem_range.mp hi) (Finset.mem_range.mp hj) (Or.inl rfl)]
    simp
  rw [h0, h1, h2]; simp

end glue

/-- **Gluing theorem.**  For every box of cells (any origin — also negative —, any size) and every sign
    pattern that is all-outside on the boundary layer of the box, the directed triangle edges produced by
    the table, in lattice-edge ids, are balanced: every directed edge `u → v` occurs exactly as often as its
    reverse `v → u`.  Unbounded in box size and in the sign pattern; uses the table only through
    `table_cell_flow` and `table_canon_empty`. -/
theorem march_closed_balanced (s : Pt → Bool) (o : Pt) (nx ny nz : Nat) (hbd : BoundaryOutside s o nx ny nz) :
    Balanced (boxEdges s o nx ny nz) :=
  balanced_of_fl_aux fun u v => fl_box_zero_aux u v hbd

/-- non-vacuity: one inside sample at (-1,-1,-1) in the 2×2×2 box at (-2,-2,-2) — the hypothesis holds and the
    surface is the octahedron (8 triangles, 24 directed edges) -/
example : BoundaryOutside (fun q => decide (q = ((-1 : Int), (-1 : Int), (-1 : Int)))) (-2, -2, -2) 2 2 2 ∧
    (boxEdges (fun q => decide (q = ((-1 : Int), (-1 : Int), (-1 : Int)))) (-2, -2, -2) 2 2 2).length = 24 := by
  refine ⟨?_, by decide⟩
  intro q h1 h2 h3 h4 h5 h6 hb
  simp only [decide_eq_false_iff_not]
  rintro rfl
  simp at hb

/-! ## 3. Block storage: the cross-block corner fetch reads the global grid -/

/-- global position of local sample `(x, y, z)` of block `b` -/
def globalOf (b : Pt) (x y z : Int) : Pt :=
  (b.1 * marchingSectionSize + x, b.2.1 * marchingSectionSize + y, b.2.2 * marchingSectionSize + z)

/-- For every block (any sign of its coordinates), every cell of it (including the last index of one, two or
    three axes) and every corner: what `marchFloat1BlockPosition` fetches — from this block or from the
    neighbour at `neighbourIndex` — is the global grid's sample at `cell + cornerOffset`, and it is missing
    (cell skipped) exactly when the block that owns that global position was never allocated. -/
theorem blockFetch_eq_global {α : Type} (bl : Blocks α) (b : Pt) (x y z : Int)
    (hx : 0 ≤ x ∧ x < marchingSectionSize) (hy : 0 ≤ y ∧ y < marchingSectionSize) (hz : 0 ≤ z ∧ z < marchingSectionSize)
    (i : Nat) (hi : i < 8) :
    fetchCorner bl b x y z i = globalAt bl (padd (globalOf b x y z) (cornerOff i)) := by
  obtain ⟨bx, by', bz⟩ := b
  simp only [marchingSectionSize] at hx hy hz
  interval_cases i <;>
  · simp only [fetchCorner, globalAt, chunkOf, cornerOff, ptOfRow, cubeDataBlockPositions, cubeDataIndexIncrements,
      List.getD_cons_zero, List.getD_cons_succ, marchingSectionSize, neighbourIndex, padd, bindex, globalOf]
    refine congrArg₂ Option.map ?_ (congrArg bl ?_)
    · funext d; congr 1
      split_ifs <;> omega
    · simp only [Prod.mk.injEq]
      refine ⟨?_, ?_, ?_⟩ <;> split_ifs <;> omega

example : fetchCorner (fun b => if b = ((-1 : Int), (0 : Int), (3 : Int)) then some (fun i => i) else none) (-2, 0, 2) 99 5 99 2
    = some 500 := by decide

theorem mapM_eq_none_aux {α β : Type} (f : α → Option β) (l : List α) :
    l.mapM f = none ↔ ∃ a ∈ l, f a = none := by
  induction l with
  | nil => simp
  | cons a l ih =>
    simp only [List.mapM_cons, List.mem_cons, exists_eq_or_imp]
    cases h : f a <;> cases h2 : l.mapM f <;> simp_all

theorem mapM_congr_aux {α β : Type} (f g : α → Option β) (l : List α) (h : ∀ a ∈ l, f a = g a) :
    l.mapM f = l.mapM g := by
  induction l with
  | nil => simp
  | cons a l ih =>
    simp only [List.mapM_cons]
    rw [h a (List.mem_cons_self), ih (fun x hx => h x (List.mem_cons_of_mem _ hx))]

/-- the whole cell: all eight corners fetched, or skipped, exactly as the global grid says -/
theorem fetchCell_eq_global {α : Type} (bl : Blocks α) (b : Pt) (x y z : Int)
    (hx : 0 ≤ x ∧ x < marchingSectionSize) (hy : 0 ≤ y ∧ y < marchingSectionSize) (hz : 0 ≤ z ∧ z < marchingSectionSize) :
    fetchCell bl b x y z = (List.range 8).mapM fun i => globalAt bl (padd (globalOf b x y z) (cornerOff i)) := by
  unfold fetchCell
  have : ∀ i ∈ List.range 8, fetchCorner bl b x y z i = globalAt bl (padd (globalOf b x y z) (cornerOff i)) :=
    fun i hi => blockFetch_eq_global bl b x y z hx hy hz i (List.mem_range.mp hi)
  exact mapM_congr_aux _ _ _ this

/-- A cell is skipped only when a block it needs was never allocated; if every inside sample has the blocks of
    its whole 3×3×3 lattice neighbourhood allocated (which `AddField`'s one-cell padding provides when the inside
    region is strictly inside the domain, see `addField_allocates_neighbourhood`), a skipped cell has eight
    outside corners — skipping it loses no triangle. -/
theorem skipped_cells_outside {α : Type} (bl : Blocks α) (inside : Pt → Prop)
    (hpad : ∀ q, inside q → ∀ d : Pt, -1 ≤ d.1 → d.1 ≤ 1 → -1 ≤ d.2.1 → d.2.1 ≤ 1 → -1 ≤ d.2.2 → d.2.2 ≤ 1 →
      (bl (chunkOf (padd q d))).isSome)
    (b : Pt) (x y z : Int)
    (hx : 0 ≤ x ∧ x < marchingSectionSize) (hy : 0 ≤ y ∧ y < marchingSectionSize) (hz : 0 ≤ z ∧ z < marchingSectionSize)
    (hskip : fetchCell bl b x y z = none) :
    ∀ i, i < 8 → ¬ inside (padd (globalOf b x y z) (cornerOff i)) := by
  intro i hi hin
  rw [fetchCell_eq_global bl b x y z hx hy hz, mapM_eq_none_aux] at hskip
  obtain ⟨j, hj, hnone⟩ := hskip
  have hj8 : j < 8 := List.mem_range.mp hj
  -- corner j = corner i + (off j − off i), a step in {-1,0,1}³
  have hstep := hpad _ hin (padd (cornerOff j) ((-(cornerOff i).1), (-(cornerOff i).2.1), (-(cornerOff i).2.2)))
  have hoff : ∀ k, k < 8 → (0 ≤ (cornerOff k).1 ∧ (cornerOff k).1 ≤ 1) ∧ (0 ≤ (cornerOff k).2.1 ∧ (cornerOff k).2.1 ≤ 1) ∧
      (0 ≤ (cornerOff k).2.2 ∧ (cornerOff k).2.2 ≤ 1) := by decide
  have oi := hoff i hi; have oj := hoff j hj8
  have heq : padd (padd (globalOf b x y z) (cornerOff i))
      (padd (cornerOff j) ((-(cornerOff i).1), (-(cornerOff i).2.1), (-(cornerOff i).2.2)))
      = padd (globalOf b x y z) (cornerOff j) := by
    simp only [padd, Prod.mk.injEq]; refine ⟨?_, ?_, ?_⟩ <;> ring
  rw [heq] at hstep
  have := hstep (by simp only [padd]; omega) (by simp only [padd]; omega) (by simp only [padd]; omega)
    (by simp only [padd]; omega) (by simp only [padd]; omega) (by simp only [padd]; omega)
  unfold globalAt at hnone
  rw [Option.map_eq_none_iff] at hnone
  rw [hnone] at this; simp at this

/-- `AddField` side, one axis: `chunkSectionsInRange(min, max)` allocates every chunk from `⌊min/100⌋` to
    `⌊max/100⌋` (inclusive — including the chunk of the exclusive upper bound `max`), so every position in
    `[min, max]` has its chunk allocated; and each sampled position `X ∈ [min, max)` is written exactly once,
    by the chunk `c = ⌊X/100⌋`, into local index `X − 100c = X mod 100` (the loop bounds
    `max(100c, min) ≤ X < min(100c + 100, max)` of `addFloat1Range`). -/
theorem addField_axis_partition (mn mx X : Int) :
    (mn ≤ X → X ≤ mx → mn / marchingSectionSize ≤ X / marchingSectionSize ∧ X / marchingSectionSize ≤ mx / marchingSectionSize) ∧
    (mn ≤ X → X < mx →
      let c := X / marchingSectionSize
      max (c * marchingSectionSize) mn ≤ X ∧ X < min (c * marchingSectionSize + marchingSectionSize) mx ∧
      X - c * marchingSectionSize = X % marchingSectionSize ∧ 0 ≤ X % marchingSectionSize ∧ X % marchingSectionSize < marchingSectionSize) ∧
    (∀ c' : Int, max (c' * marchingSectionSize) mn ≤ X → X < min (c' * marchingSectionSize + marchingSectionSize) mx →
      c' = X / marchingSectionSize) := by
  simp only [marchingSectionSize]
  refine ⟨fun h1 h2 => by omega, fun h1 h2 => by omega, fun c' h1 h2 => by omega⟩

/-- consequence for the padding: with sample bounds `[mn, mx)` per axis, every lattice point within one step of
    a point of `[mn+1, mx-1]` lies in `[mn, mx]`, whose chunks are all allocated -/
theorem addField_allocates_neighbourhood (mn mx X d : Int) (h1 : mn + 1 ≤ X) (h2 : X ≤ mx - 1) (hd : -1 ≤ d ∧ d ≤ 1) :
    mn / marchingSectionSize ≤ (X + d) / marchingSectionSize ∧ (X + d) / marchingSectionSize ≤ mx / marchingSectionSize := by
  simp only [marchingSectionSize]; omega

/-! ## 4. Interpolation: the vertex lies on its lattice edge, within one cell of the isosurface -/

open Gen.marching in
/-- the interpolation parameter of `interpolateVerts` lies in `[0, 1]` whenever the two corner values are on
    different sides of the cutoff (inside = `value < cutoff`), whichever of the two corners is the inside one -/
theorem interp_between (fa fb c : ℝ) :
    (fa < c → c ≤ fb → 0 < interpolationValueFromCutoff fa fb c ∧ interpolationValueFromCutoff fa fb c ≤ 1) ∧
    (fb < c → c ≤ fa → 0 ≤ interpolationValueFromCutoff fa fb c ∧ interpolationValueFromCutoff fa fb c < 1) := by
  unfold interpolationValueFromCutoff
  constructor
  · intro h1 h2
    have hd : 0 < fb - fa := by linarith
    exact ⟨div_pos (by linarith) hd, (div_le_one hd).mpr (by linarith)⟩
  · intro h1 h2
    have hd : fb - fa < 0 := by linarith
    constructor
    · exact div_nonneg_of_nonpos (by linarith) hd.le
    · rw [div_lt_one_of_neg hd]; linarith


open Gen.marching in
/-- `interpolateVerts` returns the point `v1 + t·(v2 − v1)` of the edge, coordinate by coordinate -/
theorem interp_on_segment (v1 v2 : V3 ℝ) (fa fb c : ℝ) :
    let t := interpolationValueFromCutoff fa fb c
    (interpolateVerts v1 v2 fa fb c).x = v1.x + t * (v2.x - v1.x) ∧
    (interpolateVerts v1 v2 fa fb c).y = v1.y + t * (v2.y - v1.y) ∧
    (interpolateVerts v1 v2 fa fb c).z = v1.z + t * (v2.z - v1.z) := by
  simp only [interpolateVerts, V3.Add, V3.Scale, V3.Sub]
  refine ⟨?_, ?_, ?_⟩ <;> ring

open Gen.marching in
/-- the two cells that see one lattice edge from opposite ends compute the same point (over ℝ): this is what
    identifying a vertex with its lattice edge means -/
theorem interp_symmetric (v1 v2 : V3 ℝ) (fa fb c : ℝ) (h : fa ≠ fb) :
    interpolateVerts v1 v2 fa fb c = interpolateVerts v2 v1 fb fa c := by
  have h1 : fb - fa ≠ 0 := sub_ne_zero.mpr (Ne.symm h)
  have h2 : fa - fb ≠ 0 := sub_ne_zero.mpr h
  simp only [interpolateVerts, interpolationValueFromCutoff, V3.Add, V3.Scale, V3.Sub, V3.mk.injEq]
  refine ⟨?_, ?_, ?_⟩ <;> (field_simp; ring)

/-- intermediate value theorem along the edge: if the field, restricted to the edge `τ ↦ a + τ(b − a)`,
    is continuous and its end values are on different sides of the cutoff, some point of the edge is ON the
    isosurface, and every point of the edge — in particular the emitted vertex, by `interp_between` and
    `interp_on_segment` — is within one edge length (`|t − τ| ≤ 1` in edge units = one grid cell) of it -/
theorem vertex_near_isosurface (f : ℝ → ℝ) (hf : ContinuousOn f (Set.Icc 0 1)) (c t : ℝ)
    (ht : 0 ≤ t ∧ t ≤ 1) (h : (f 0 < c ∧ c ≤ f 1) ∨ (f 1 < c ∧ c ≤ f 0)) :
    ∃ τ, 0 ≤ τ ∧ τ ≤ 1 ∧ f τ = c ∧ |t - τ| ≤ 1 := by
  have key : ∃ τ ∈ Set.Icc (0:ℝ) 1, f τ = c := by
    rcases h with h | h
    · exact intermediate_value_Icc (by norm_num) hf ⟨h.1.le, h.2⟩
    · exact intermediate_value_Icc' (by norm_num) hf ⟨h.1.le, h.2⟩
  obtain ⟨τ, hτ, hfc⟩ := key
  refine ⟨τ, hτ.1, hτ.2, hfc, ?_⟩
  rw [abs_le]; constructor <;> linarith [hτ.1, hτ.2, ht.1, ht.2]

example : ContinuousOn (fun τ : ℝ => 3 * τ - 1) (Set.Icc 0 1) ∧ ((fun τ : ℝ => 3 * τ - 1) 0 < 0 ∧ (0:ℝ) ≤ (fun τ : ℝ => 3 * τ - 1) 1) := by
  refine ⟨by fun_prop, by norm_num⟩

/-! ## 5. One-face gluing, no duplicates inside a cell, and the full statement -/

theorem shiftL_injective_aux (p : Pt) : Function.Injective (shiftL p) := by
  intro a b h
  obtain ⟨⟨a1, a2, a3⟩, ak⟩ := a; obtain ⟨⟨b1, b2, b3⟩, bk⟩ := b
  simp only [shiftL, padd, Prod.mk.injEq] at h
  obtain ⟨⟨h1, h2, h3⟩, h4⟩ := h
  simp only [Prod.mk.injEq]; refine ⟨⟨?_, ?_, ?_⟩, h4⟩ <;> omega

theorem shiftE_injective_aux (p : Pt) : Function.Injective (shiftE p) := by
  intro a b h
  obtain ⟨a1, a2⟩ := a; obtain ⟨b1, b2⟩ := b
  simp only [shiftE, Prod.mk.injEq] at h
  rw [shiftL_injective_aux p h.1, shiftL_injective_aux p h.2]

/-- inside one cell no directed edge (in lattice-edge ids) is emitted twice -/
theorem cell_edges_nodup (s : Pt → Bool) (p : Pt) : (cellEdges s p).Nodup := by
  unfold cellEdges
  exact (of_decide_eq_true (table_case_edges_nodup _ _ _ _ _ _ _ _)).map (shiftE_injective_aux p)

/-- **One-face gluing.**  In any sign grid, the cell at `p` and its neighbour at `p + e_a` draw opposite segments on
    the face they share (in lattice-edge ids): the segments of `p` on its high face are exactly the reverses of the
    segments of `p + e_a` on its low face. -/
theorem cells_glue_face (s : Pt → Bool) (p : Pt) (a : Nat) (ha : a < 3) :
    ((faceSegs (caseIndex (cellBits s p)) a 1).map (shiftE p)).Perm
      (((faceSegs (caseIndex (cellBits s (padd p (unit a)))) a 0).map (shiftE (padd p (unit a)))).map swapE) := by
  have h1 := table_face_canonical (s (padd p (cornerOff 0))) (s (padd p (cornerOff 1))) (s (padd p (cornerOff 2)))
    (s (padd p (cornerOff 3))) (s (padd p (cornerOff 4))) (s (padd p (cornerOff 5))) (s (padd p (cornerOff 6)))
    (s (padd p (cornerOff 7)))
  have h2 := table_face_canonical (s (padd (padd p (unit a)) (cornerOff 0))) (s (padd (padd p (unit a)) (cornerOff 1)))
    (s (padd (padd p (unit a)) (cornerOff 2))) (s (padd (padd p (unit a)) (cornerOff 3)))
    (s (padd (padd p (unit a)) (cornerOff 4))) (s (padd (padd p (unit a)) (cornerOff 5)))
    (s (padd (padd p (unit a)) (cornerOff 6))) (s (padd (padd p (unit a)) (cornerOff 7)))
  rw [List.all_eq_true] at h1 h2
  have h1' := h1 a (List.mem_range.mpr ha)
  have h2' := h2 a (List.mem_range.mpr ha)
  simp only [Bool.and_eq_true, List.isPerm_iff] at h1' h2'
  change (faceSegs (caseIndex (cellBits s p)) a 1).Perm _ ∧ _ at h1'
  change _ ∧ (faceSegs (caseIndex (cellBits s (padd p (unit a)))) a 0).Perm _ at h2'
  have e1 : faceBits (bits8 (s (padd p (cornerOff 0))) (s (padd p (cornerOff 1))) (s (padd p (cornerOff 2)))
      (s (padd p (cornerOff 3))) (s (padd p (cornerOff 4))) (s (padd p (cornerOff 5))) (s (padd p (cornerOff 6)))
      (s (padd p (cornerOff 7)))) a 1 = latticeFaceBits s (padd p (unit a)) a := faceBits_high_aux s p a ha
  have e2 : faceBits (bits8 (s (padd (padd p (unit a)) (cornerOff 0))) (s (padd (padd p (unit a)) (cornerOff 1)))
      (s (padd (padd p (unit a)) (cornerOff 2))) (s (padd (padd p (unit a)) (cornerOff 3)))
      (s (padd (padd p (unit a)) (cornerOff 4))) (s (padd (padd p (unit a)) (cornerOff 5)))
      (s (padd (padd p (unit a)) (cornerOff 6))) (s (padd (padd p (unit a)) (cornerOff 7)))) a 0
      = latticeFaceBits s (padd p (unit a)) a := faceBits_low_aux s (padd p (unit a)) a ha
  rw [e1] at h1'; rw [e2] at h2'
  have l := h1'.1.map (shiftE p)
  rw [shiftE_shiftE_aux] at l
  have r := ((h2'.2.map (shiftE (padd p (unit a)))).map swapE)
  rw [shiftE_swap_aux, List.map_map (f := swapE) (g := swapE)] at r
  have hid : (swapE ∘ swapE : DEdge → DEdge) = id := by funext e; rfl
  rw [hid, List.map_id] at r
  exact l.trans r.symm

/-! ### at most once: no directed edge is emitted twice -/

/-- a relative lattice edge of the unit cube -/
def okRel (l : LEdge) : Bool :=
  decide (0 ≤ l.1.1 ∧ l.1.1 ≤ 1 ∧ 0 ≤ l.1.2.1 ∧ l.1.2.1 ≤ 1 ∧ 0 ≤ l.1.2.2 ∧ l.1.2.2 ≤ 1 ∧ l.2 < 3 ∧ coord l.2 l.1 = 0)

theorem table_segs_unit : ∀ b0 b1 b2 b3 b4 b5 b6 b7 : Bool,
    (caseSegsRel (caseIndex (bits8 b0 b1 b2 b3 b4 b5 b6 b7))).all (fun e => okRel e.1 && okRel e.2 && e.1 != e.2) = true := by
  decide +kernel

def cubeEdges : List LEdge := (List.range 12).map edgeRel
def steps : List Pt :=
  [(-1:Int), 0, 1].flatMap fun x => [(-1:Int), 0, 1].flatMap fun y => [(-1:Int), 0, 1].map fun z => (x, y, z)

/-- geometry of the unit lattice, by enumeration: if two distinct lattice edges of a cell are also (after the shift `d ≠ 0`)
    two lattice edges of the neighbouring cell, the cells share a face that contains both -/
theorem table_shared_edges :
    steps.all (fun d => d = (0, 0, 0) || cubeEdges.all fun r1' => cubeEdges.all fun r2' =>
      let r1 := shiftL d r1'; let r2 := shiftL d r2'
      !(okRel r1 && okRel r2 && r1 != r2) ||
      (List.range 3).any fun a =>
        (d = unit a && onFace a 1 r1 && onFace a 1 r2 && onFace a 0 r1' && onFace a 0 r2') ||
        (d = negUnit a && onFace a 0 r1 && onFace a 0 r2 && onFace a 1 r1' && onFace a 1 r2')) = true := by
  decide +kernel


theorem idx4_lt_aux (K : List Bool) : idx4 K < 16 := by unfold idx4; split_ifs <;> omega

theorem canon_bits4_aux (a : Nat) (K : List Bool) : canon a K = canon a (bits4 (idx4 K)) := by
  have h : ∀ k, k < 16 → idx4 (bits4 k) = k := by decide
  unfold canon; rw [h _ (idx4_lt_aux K)]

theorem canon_no_antiparallel_aux (a : Nat) (ha : a < 3) (K : List Bool) (e : DEdge) (h1 : e ∈ canon a K)
    (h2 : swapE e ∈ canon a K) : False := by
  rw [canon_bits4_aux] at h1 h2
  have h := table_canon_no_antiparallel
  rw [List.all_eq_true] at h
  have h' := h a (List.mem_range.mpr ha)
  rw [List.all_eq_true] at h'
  have h'' := h' _ (List.mem_range.mpr (idx4_lt_aux K))
  rw [List.all_eq_true] at h''
  have := h'' e h1
  simp at this
  exact this h2

theorem segs_ok_aux (s : Pt → Bool) (p : Pt) (e : DEdge) (h : e ∈ caseSegsRel (caseIndex (cellBits s p))) :
    okRel e.1 = true ∧ okRel e.2 = true ∧ e.1 ≠ e.2 := by
  have := table_segs_unit (s (padd p (cornerOff 0))) (s (padd p (cornerOff 1))) (s (padd p (cornerOff 2)))
    (s (padd p (cornerOff 3))) (s (padd p (cornerOff 4))) (s (padd p (cornerOff 5))) (s (padd p (cornerOff 6)))
    (s (padd p (cornerOff 7)))
  rw [List.all_eq_true] at this
  have := this e h
  simpa [and_assoc] using this

/-- two face-adjacent cells never emit the same directed edge -/
theorem adjacent_disjoint_aux (s : Pt → Bool) (p : Pt) (a : Nat) (ha : a < 3) (r r' : DEdge)
    (hr : r ∈ caseSegsRel (caseIndex (cellBits s p)))
    (hr' : r' ∈ caseSegsRel (caseIndex (cellBits s (padd p (unit a)))))
    (hf1 : (onFace a 1 r.1 && onFace a 1 r.2) = true) (hf0 : (onFace a 0 r'.1 && onFace a 0 r'.2) = true)
    (heq : r = shiftE (unit a) r') : False := by
  have h1 := table_face_canonical (s (padd p (cornerOff 0))) (s (padd p (cornerOff 1))) (s (padd p (cornerOff 2)))
    (s (padd p (cornerOff 3))) (s (padd p (cornerOff 4))) (s (padd p (cornerOff 5))) (s (padd p (cornerOff 6)))
    (s (padd p (cornerOff 7)))
  have h2 := table_face_canonical (s (padd (padd p (unit a)) (cornerOff 0))) (s (padd (padd p (unit a)) (cornerOff 1)))
    (s (padd (padd p (unit a)) (cornerOff 2))) (s (padd (padd p (unit a)) (cornerOff 3)))
    (s (padd (padd p (unit a)) (cornerOff 4))) (s (padd (padd p (unit a)) (cornerOff 5)))
    (s (padd (padd p (unit a)) (cornerOff 6))) (s (padd (padd p (unit a)) (cornerOff 7)))
  rw [List.all_eq_true] at h1 h2
  have h1' := h1 a (List.mem_range.mpr ha)
  have h2' := h2 a (List.mem_range.mpr ha)
  simp only [Bool.and_eq_true, List.isPerm_iff] at h1' h2'
  change (faceSegs (caseIndex (cellBits s p)) a 1).Perm _ ∧ _ at h1'
  change _ ∧ (faceSegs (caseIndex (cellBits s (padd p (unit a)))) a 0).Perm _ at h2'
  have e1 : faceBits (bits8 (s (padd p (cornerOff 0))) (s (padd p (cornerOff 1))) (s (padd p (cornerOff 2)))
      (s (padd p (cornerOff 3))) (s (padd p (cornerOff 4))) (s (padd p (cornerOff 5))) (s (padd p (cornerOff 6)))
      (s (padd p (cornerOff 7)))) a 1 = latticeFaceBits s (padd p (unit a)) a := faceBits_high_aux s p a ha
  have e2 : faceBits (bits8 (s (padd (padd p (unit a)) (cornerOff 0))) (s (padd (padd p (unit a)) (cornerOff 1)))
      (s (padd (padd p (unit a)) (cornerOff 2))) (s (padd (padd p (unit a)) (cornerOff 3)))
      (s (padd (padd p (unit a)) (cornerOff 4))) (s (padd (padd p (unit a)) (cornerOff 5)))
      (s (padd (padd p (unit a)) (cornerOff 6))) (s (padd (padd p (unit a)) (cornerOff 7)))) a 0
      = latticeFaceBits s (padd p (unit a)) a := faceBits_low_aux s (padd p (unit a)) a ha
  rw [e1] at h1'; rw [e2] at h2'
  have m1 : r ∈ faceSegs (caseIndex (cellBits s p)) a 1 := List.mem_filter.mpr ⟨hr, hf1⟩
  have m2 : r' ∈ faceSegs (caseIndex (cellBits s (padd p (unit a)))) a 0 := List.mem_filter.mpr ⟨hr', hf0⟩
  have m1' := h1'.1.mem_iff.mp m1
  have m2' := h2'.2.mem_iff.mp m2
  obtain ⟨x, hx, hxr⟩ := List.mem_map.mp m1'
  obtain ⟨y, hy, hyr⟩ := List.mem_map.mp m2'
  have : x = swapE y := by
    apply shiftE_injective_aux (unit a)
    rw [hxr, heq, ← hyr]
  rw [this] at hx
  exact canon_no_antiparallel_aux a ha _ y hy hx

theorem okRel_mem_cubeEdges_aux (l : LEdge) (h : okRel l = true) : l ∈ cubeEdges := by
  obtain ⟨⟨x, y, z⟩, k⟩ := l
  simp only [okRel, decide_eq_true_eq] at h
  obtain ⟨h1, h2, h3, h4, h5, h6, h7, h8⟩ := h
  interval_cases x <;> interval_cases y <;> interval_cases z <;> interval_cases k <;>
    first | decide +kernel | (exfalso; revert h8; decide)

theorem steps_mem_aux (d : Pt) (h1 : -1 ≤ d.1 ∧ d.1 ≤ 1) (h2 : -1 ≤ d.2.1 ∧ d.2.1 ≤ 1) (h3 : -1 ≤ d.2.2 ∧ d.2.2 ≤ 1) :
    d ∈ steps := by
  obtain ⟨x, y, z⟩ := d
  obtain ⟨a1, a2⟩ := h1; obtain ⟨b1, b2⟩ := h2; obtain ⟨c1, c2⟩ := h3
  simp only at a1 a2 b1 b2 c1 c2
  interval_cases x <;> interval_cases y <;> interval_cases z <;> decide

theorem okRel_bounds_aux (l : LEdge) (h : okRel l = true) :
    0 ≤ l.1.1 ∧ l.1.1 ≤ 1 ∧ 0 ≤ l.1.2.1 ∧ l.1.2.1 ≤ 1 ∧ 0 ≤ l.1.2.2 ∧ l.1.2.2 ≤ 1 := by
  simp only [okRel, decide_eq_true_eq] at h
  exact ⟨h.1, h.2.1, h.2.2.1, h.2.2.2.1, h.2.2.2.2.1, h.2.2.2.2.2.1⟩

/-- two different cells never emit the same directed edge -/
theorem cells_disjoint_aux (s : Pt → Bool) (p p' : Pt) (hne : p ≠ p') (e : DEdge)
    (h1 : e ∈ cellEdges s p) (h2 : e ∈ cellEdges s p') : False := by
  obtain ⟨r, hr, hre⟩ := List.mem_map.mp h1
  obtain ⟨r', hr', hre'⟩ := List.mem_map.mp h2
  obtain ⟨ok1, ok2, hne12⟩ := segs_ok_aux s p r hr
  obtain ⟨ok1', ok2', hne12'⟩ := segs_ok_aux s p' r' hr'
  have b1 := okRel_bounds_aux _ ok1; have b1' := okRel_bounds_aux _ ok1'
  let d : Pt := (p'.1 - p.1, p'.2.1 - p.2.1, p'.2.2 - p.2.2)
  have hp' : p' = padd p d := by
    obtain ⟨px, py, pz⟩ := p; obtain ⟨qx, qy, qz⟩ := p'
    simp only [padd, d, Prod.mk.injEq]; refine ⟨?_, ?_, ?_⟩ <;> omega
  have hee : shiftE p r = shiftE p (shiftE d r') := by
    rw [hre, ← hre', hp']
    simp only [shiftE, shiftL, padd_assoc_aux]
  have hrr : r = shiftE d r' := shiftE_injective_aux p hee
  have hr1 : r.1 = shiftL d r'.1 := by rw [hrr]; rfl
  have hr2 : r.2 = shiftL d r'.2 := by rw [hrr]; rfl
  have hd0 : d ≠ (0, 0, 0) := by
    intro h0; apply hne; rw [hp', h0]
    obtain ⟨px, py, pz⟩ := p; simp [padd]
  have hdm : d ∈ steps := by
    have e1 : r.1.1 = padd d r'.1.1 := by rw [hr1]; rfl
    apply steps_mem_aux
    · have : r.1.1.1 = d.1 + r'.1.1.1 := by rw [e1]; rfl
      omega
    · have : r.1.1.2.1 = d.2.1 + r'.1.1.2.1 := by rw [e1]; rfl
      omega
    · have : r.1.1.2.2 = d.2.2 + r'.1.1.2.2 := by rw [e1]; rfl
      omega
  have T := table_shared_edges
  rw [List.all_eq_true] at T
  have T1 := T d hdm
  simp only [Bool.or_eq_true, decide_eq_true_eq] at T1
  rcases T1 with h0 | T2
  · exact hd0 h0
  rw [List.all_eq_true] at T2
  have T3 := T2 _ (okRel_mem_cubeEdges_aux _ ok1')
  rw [List.all_eq_true] at T3
  have T4 := T3 _ (okRel_mem_cubeEdges_aux _ ok2')
  simp only [← hr1, ← hr2, ok1, ok2, Bool.and_self, Bool.true_and, Bool.or_eq_true, Bool.not_eq_true',
    bne_eq_false_iff_eq, List.any_eq_true, Bool.and_eq_true, decide_eq_true_eq, List.mem_range] at T4
  rcases T4 with heq | ⟨a, ha, hcase⟩
  · exact hne12 heq
  rcases hcase with ⟨⟨⟨⟨hda, f1⟩, f2⟩, f3⟩, f4⟩ | ⟨⟨⟨⟨hda, f1⟩, f2⟩, f3⟩, f4⟩
  · -- p' = p + e_a
    have hr'' : r' ∈ caseSegsRel (caseIndex (cellBits s (padd p (unit a)))) := by rw [← hda, ← hp']; exact hr'
    exact adjacent_disjoint_aux s p a ha r r' hr hr'' (by simp [f1, f2]) (by simp [f3, f4]) (by rw [hrr, hda])
  · -- p = p' + e_a
    have hpp : p = padd p' (unit a) := by
      rw [hp', hda, padd_assoc_aux]
      obtain ⟨px, py, pz⟩ := p
      have : a = 0 ∨ a = 1 ∨ a = 2 := by omega
      rcases this with rfl | rfl | rfl <;> simp [padd, negUnit, unit]
    have hr'' : r ∈ caseSegsRel (caseIndex (cellBits s (padd p' (unit a)))) := by rw [← hpp]; exact hr
    have hback : r' = shiftE (unit a) r := by
      rw [hrr, hda]
      obtain ⟨⟨⟨x1, y1, z1⟩, k1⟩, ⟨⟨x2, y2, z2⟩, k2⟩⟩ := r'
      have : a = 0 ∨ a = 1 ∨ a = 2 := by omega
      rcases this with rfl | rfl | rfl <;> simp [shiftE, shiftL, padd, negUnit, unit]
    exact adjacent_disjoint_aux s p' a ha r' r hr' hr'' (by simp [f3, f4]) (by simp [f1, f2]) hback

theorem boxCells_nodup_aux (o : Pt) (nx ny nz : Nat) : (boxCells o nx ny nz).Nodup := by
  obtain ⟨ox, oy, oz⟩ := o
  unfold boxCells
  rw [List.nodup_flatMap]
  refine ⟨fun i _ => ?_, ?_⟩
  · rw [List.nodup_flatMap]
    refine ⟨fun j _ => ?_, ?_⟩
    · refine List.Nodup.map ?_ List.nodup_range
      intro k k' h
      simp only [padd, Prod.mk.injEq] at h
      have := h.2.2; simp only [Int.ofNat_eq_natCast] at this; omega
    · refine List.Pairwise.imp ?_ (List.nodup_range (n := ny))
      intro j j' hne q h1 h2
      obtain ⟨k, _, rfl⟩ := List.mem_map.mp h1
      obtain ⟨k', _, h⟩ := List.mem_map.mp h2
      simp only [padd, Prod.mk.injEq, Int.ofNat_eq_natCast] at h
      omega
  · refine List.Pairwise.imp ?_ (List.nodup_range (n := nx))
    intro i i' hne q h1 h2
    obtain ⟨j, _, hj⟩ := List.mem_flatMap.mp h1
    obtain ⟨k, _, rfl⟩ := List.mem_map.mp hj
    obtain ⟨j', _, hj'⟩ := List.mem_flatMap.mp h2
    obtain ⟨k', _, h⟩ := List.mem_map.mp hj'
    simp only [padd, Prod.mk.injEq, Int.ofNat_eq_natCast] at h
    omega

/-- **At most once.**  Over any box and any sign pattern no directed edge (lattice-edge ids) is emitted twice:
    inside a cell by the table (`table_case_edges_nodup`); two different cells can share two distinct lattice edges
    only across a common face (`table_shared_edges`), where one draws `canon` and the other its reverse
    (`table_face_canonical`), and `canon` never contains a segment together with its reverse. -/
theorem box_edges_nodup (s : Pt → Bool) (o : Pt) (nx ny nz : Nat) : (boxEdges s o nx ny nz).Nodup := by
  unfold boxEdges
  rw [List.nodup_flatMap]
  refine ⟨fun p _ => cell_edges_nodup s p, ?_⟩
  refine (boxCells_nodup_aux o nx ny nz).imp ?_
  intro p p' hne e h1 h2
  exact cells_disjoint_aux s p p' hne e h1 h2


/-- the full closedness statement in lattice-edge ids: balanced AND every directed edge at most once, i.e.
    "every directed edge is matched by the opposite edge of exactly one triangle" -/
def C09_closed_full : Prop :=
  ∀ (s : Pt → Bool) (o : Pt) (nx ny nz : Nat), BoundaryOutside s o nx ny nz →
    Balanced (boxEdges s o nx ny nz) ∧ (boxEdges s o nx ny nz).Nodup

/-- **march_closed.**  For every box of cells (any origin, any size) and every sign pattern that is outside on the
    box's boundary layer, the triangles produced by the table form a closed, consistently oriented surface in
    lattice-edge ids: every directed edge occurs exactly once and its reverse occurs exactly once. -/
theorem march_closed : C09_closed_full :=
  fun s o nx ny nz hbd => ⟨march_closed_balanced s o nx ny nz hbd, box_edges_nodup s o nx ny nz⟩

theorem reverse_mem_of_balanced_aux {V : Type} [DecidableEq V] {L : List (V × V)} (hb : Balanced L) (u v : V)
    (h : (u, v) ∈ L) : (v, u) ∈ L := by
  have : 0 < L.count (u, v) := List.count_pos_iff.mpr h
  rw [hb u v] at this
  exact List.count_pos_iff.mp this

/-- "exactly one", spelled out without counting: the list of directed edges has no repetition, and with every
    directed edge it contains the reverse edge -/
theorem march_closed_exactly_one (s : Pt → Bool) (o : Pt) (nx ny nz : Nat) (hbd : BoundaryOutside s o nx ny nz) :
    (boxEdges s o nx ny nz).Nodup ∧ ∀ u v, (u, v) ∈ boxEdges s o nx ny nz → (v, u) ∈ boxEdges s o nx ny nz :=
  ⟨box_edges_nodup s o nx ny nz, fun u v h => reverse_mem_of_balanced_aux (march_closed_balanced s o nx ny nz hbd) u v h⟩

/-! ## 6. The weld keeps the surface balanced -/

/-- a triangle is kept by the weld iff its three (welded) corners are pairwise different -/
def nondegB {W : Type} [DecidableEq W] (t : W × W × W) : Bool := !(t.1 == t.2.1) && !(t.1 == t.2.2) && !(t.2.1 == t.2.2)

/-- `WeldByFloat3Attribute`: every corner is replaced by the id `φ` of its rounded position (`vertILU[Vector3ToInt(..)]`)
    and triangles in which two corners get the same id are dropped -/
def weldTris {V W : Type} [DecidableEq W] (φ : V → W) (tris : List (V × V × V)) : List (W × W × W) :=
  (tris.map fun t => (φ t.1, φ t.2.1, φ t.2.2)).filter nondegB

theorem fl_flatMap_zero_aux {V T : Type} [DecidableEq V] (a b : V) (f : T → List (V × V)) (l : List T)
    (h : ∀ x ∈ l, fl a b (f x) = 0) : fl a b (l.flatMap f) = 0 := by
  induction l with
  | nil => simp [fl]
  | cons x l ih =>
    rw [List.flatMap_cons, fl_append_aux, h x (List.mem_cons_self), ih (fun y hy => h y (List.mem_cons_of_mem _ hy))]; rfl

theorem fl_perm_aux {V : Type} [DecidableEq V] (a b : V) {L M : List (V × V)} (h : L.Perm M) : fl a b L = fl a b M := by
  unfold fl; rw [h.count_eq, h.count_eq]

theorem fl_of_perm_swap_aux {V : Type} [DecidableEq V] (a b : V) {L : List (V × V)} (h : L.Perm (L.map swapE)) :
    fl a b L = 0 := by
  unfold fl
  rw [← count_map_swap_aux L a b, ← h.count_eq]; ring

theorem degenerate_tri_flow_aux {W : Type} [DecidableEq W] (a b : W) (t : W × W × W)
    (h : nondegB t = false) : fl a b (triEdges t) = 0 := by
  obtain ⟨x, y, z⟩ := t
  simp only [nondegB, Bool.and_eq_false_iff, Bool.not_eq_false', beq_iff_eq] at h
  apply fl_of_perm_swap_aux
  simp only [triEdges, List.map, swapE]
  rcases h with (h | h) | h <;> subst h
  · exact List.Perm.cons _ (List.Perm.swap _ _ _)
  · exact List.Perm.swap _ _ _
  · simpa using (List.reverse_perm [(x, y), (y, y), (y, x)]).symm

/-- identifying vertices by ANY map (the float-keyed weld, whatever it merges) and dropping the triangles that
    thereby get two equal corners keeps the directed-edge balance -/
theorem weld_preserves_balance {V W : Type} [DecidableEq V] [DecidableEq W] (φ : V → W) (tris : List (V × V × V))
    (h : Balanced (tris.flatMap triEdges)) : Balanced ((weldTris φ tris).flatMap triEdges) := by
  apply balanced_of_fl_aux
  intro a b
  set M := tris.map fun t => (φ t.1, φ t.2.1, φ t.2.2) with hM
  have hEM : M.flatMap triEdges = (tris.flatMap triEdges).map fun e => (φ e.1, φ e.2) := by
    rw [hM, List.flatMap_map, List.map_flatMap]; rfl
  have hMbal : fl a b (M.flatMap triEdges) = 0 := by
    rw [hEM]; exact fl_balanced_aux a b (h.map_aux φ)
  have hperm : (M.filter nondegB ++ M.filter (fun t => !nondegB t)).Perm M := List.filter_append_perm nondegB M
  have h2 := fl_perm_aux a b (hperm.flatMap_right triEdges)
  rw [List.flatMap_append, fl_append_aux, hMbal] at h2
  have hdrop : fl a b ((M.filter fun t => !nondegB t).flatMap triEdges) = 0 := by
    apply fl_flatMap_zero_aux
    intro t ht
    have := (List.mem_filter.mp ht).2
    exact degenerate_tri_flow_aux a b t (by simpa using this)
  rw [hdrop] at h2
  unfold weldTris
  linarith

/-- no degenerate face survives the weld -/
theorem weld_nondegenerate {V W : Type} [DecidableEq W] (φ : V → W) (tris : List (V × V × V)) :
    ∀ t ∈ weldTris φ tris, t.1 ≠ t.2.1 ∧ t.1 ≠ t.2.2 ∧ t.2.1 ≠ t.2.2 := by
  intro t ht
  have := (List.mem_filter.mp ht).2
  simpa [nondegB, and_assoc] using this

/-- non-vacuity: welding the two end points of an edge of a tetrahedron (balanced) drops two triangles and keeps two -/
example : Balanced (([(0, 1, 2), (0, 3, 1), (1, 3, 2), (0, 2, 3)] : List (Nat × Nat × Nat)).flatMap triEdges) ∧
    weldTris (fun v : Nat => if v = 3 then 2 else v) [(0, 1, 2), (0, 3, 1), (1, 3, 2), (0, 2, 3)] = [(0, 1, 2), (0, 2, 1)] := by
  refine ⟨balancedB_sound_aux _ (by decide), by decide⟩

/-! ## 7. From lattice-edge ids to the welded mesh: what transfers, and when -/

/-- the corners used by a list of triangles -/
def trisVerts {V : Type} (tris : List (V × V × V)) : List V := tris.flatMap fun t => [t.1, t.2.1, t.2.2]

theorem edge_verts_aux {V : Type} (tris : List (V × V × V)) (e : V × V) (h : e ∈ tris.flatMap triEdges) :
    e.1 ∈ trisVerts tris ∧ e.2 ∈ trisVerts tris := by
  obtain ⟨t, ht, he⟩ := List.mem_flatMap.mp h
  simp only [triEdges, List.mem_cons, List.not_mem_nil, or_false] at he
  constructor <;> (apply List.mem_flatMap.mpr; refine ⟨t, ht, ?_⟩; rcases he with rfl | rfl | rfl <;> simp)

/-- **Transfer of "at most once" through the weld.**  If the vertex map (rounded-position id) does not identify two
    different corners that occur in the mesh, the weld drops no information: no directed edge occurs twice afterwards. -/
theorem weld_preserves_nodup {V W : Type} [DecidableEq W] (φ : V → W) (tris : List (V × V × V))
    (hinj : ∀ u ∈ trisVerts tris, ∀ v ∈ trisVerts tris, φ u = φ v → u = v)
    (hn : (tris.flatMap triEdges).Nodup) : ((weldTris φ tris).flatMap triEdges).Nodup := by
  have hsub : ((weldTris φ tris).flatMap triEdges).Sublist
      ((tris.map fun t => (φ t.1, φ t.2.1, φ t.2.2)).flatMap triEdges) :=
    List.Sublist.flatMap List.filter_sublist triEdges
  refine hsub.nodup ?_
  have hEM : (tris.map fun t => (φ t.1, φ t.2.1, φ t.2.2)).flatMap triEdges
      = (tris.flatMap triEdges).map fun e => (φ e.1, φ e.2) := by
    rw [List.flatMap_map, List.map_flatMap]; rfl
  rw [hEM]
  refine List.Nodup.map_on ?_ hn
  intro a ha b hb hab
  obtain ⟨a1, a2⟩ := edge_verts_aux tris a ha
  obtain ⟨b1, b2⟩ := edge_verts_aux tris b hb
  simp only [Prod.mk.injEq] at hab
  exact Prod.ext (hinj _ a1 _ b1 hab.1) (hinj _ a2 _ b2 hab.2)

/-- all triangles of the box, in lattice-edge ids -/
def boxTris (s : Pt → Bool) (o : Pt) (nx ny nz : Nat) : List (LEdge × LEdge × LEdge) :=
  (boxCells o nx ny nz).flatMap (cellTris s)

theorem cellTris_edges_aux (s : Pt → Bool) (p : Pt) : (cellTris s p).flatMap triEdges = cellEdges s p := by
  simp only [cellTris, cellEdges, caseSegsRel, caseSegs, List.flatMap_map, List.map_flatMap, List.map_map]
  rfl

theorem boxTris_edges_aux (s : Pt → Bool) (o : Pt) (nx ny nz : Nat) :
    (boxTris s o nx ny nz).flatMap triEdges = boxEdges s o nx ny nz := by
  simp only [boxTris, boxEdges, List.flatMap_assoc, cellTris_edges_aux]

/-- **Closedness of the welded mesh.**  Box of cells, boundary layer outside, and a vertex identification `φ`
    (lattice edge ↦ id of the rounded float position) that is injective on the lattice edges that carry a vertex:
    after `weldTris` the mesh is still closed — every directed edge exactly once, its reverse exactly once — and
    has no face with a repeated corner.  Without injectivity only the Balanced half survives
    (`weld_preserves_balance`): that is the known finding C09-touching-at-cutoff. -/
theorem march_weld_closed {W : Type} [DecidableEq W] (s : Pt → Bool) (o : Pt) (nx ny nz : Nat)
    (hbd : BoundaryOutside s o nx ny nz) (φ : LEdge → W)
    (hinj : ∀ u ∈ trisVerts (boxTris s o nx ny nz), ∀ v ∈ trisVerts (boxTris s o nx ny nz), φ u = φ v → u = v) :
    Balanced ((weldTris φ (boxTris s o nx ny nz)).flatMap triEdges) ∧
    ((weldTris φ (boxTris s o nx ny nz)).flatMap triEdges).Nodup ∧
    ∀ t ∈ weldTris φ (boxTris s o nx ny nz), t.1 ≠ t.2.1 ∧ t.1 ≠ t.2.2 ∧ t.2.1 ≠ t.2.2 := by
  obtain ⟨hb, hn⟩ := march_closed s o nx ny nz hbd
  refine ⟨weld_preserves_balance φ _ (by rw [boxTris_edges_aux]; exact hb),
    weld_preserves_nodup φ _ hinj (by rw [boxTris_edges_aux]; exact hn), weld_nondegenerate φ _⟩

/-- without injectivity, always: the welded mesh of any such box is balanced -/
theorem march_weld_balanced {W : Type} [DecidableEq W] (s : Pt → Bool) (o : Pt) (nx ny nz : Nat)
    (hbd : BoundaryOutside s o nx ny nz) (φ : LEdge → W) :
    Balanced ((weldTris φ (boxTris s o nx ny nz)).flatMap triEdges) :=
  weld_preserves_balance φ _ (by rw [boxTris_edges_aux]; exact march_closed_balanced s o nx ny nz hbd)

/-! ## 8. Every emitted vertex lies on a sign-changing lattice edge (assembled) -/

section emitted
open Gen.marching

/-- the sign pattern of a sample grid, as the code computes it: inside ⇔ `value < cutoff` -/
noncomputable def signOf (G : Pt → ℝ) (c : ℝ) : Pt → Bool := fun q => decide (G q < c)

theorem table_tri_edges_lt : ∀ b0 b1 b2 b3 b4 b5 b6 b7 : Bool,
    (caseTris (caseIndex (bits8 b0 b1 b2 b3 b4 b5 b6 b7))).all (fun t => decide (t.1 < 12 ∧ t.2.1 < 12 ∧ t.2.2 < 12)) = true := by
  decide +kernel

theorem corner_lt_aux : ∀ e, e < 12 → cA e < 8 ∧ cB e < 8 := by decide

theorem cellBits_getD_aux (s : Pt → Bool) (p : Pt) (i : Nat) (hi : i < 8) :
    (cellBits s p).getD i false = s (padd p (cornerOff i)) := by
  interval_cases i <;> rfl

/-- **Every emitted vertex lies on a sign-changing lattice edge, at the interpolated position inside it.**
    For any sample grid `G`, cutoff `c`, cell `p`, any triangle the table emits for that cell and any of its three
    corners (cube edge `e`): the two end samples of the lattice edge `e` lies on are on different sides of the cutoff,
    so the interpolation parameter of `interpolateVerts` is in [0, 1].  (Assembles `table_edges_cross`, the case-index
    computation and `interp_between`.) -/
theorem emitted_vertex_on_crossing_edge (G : Pt → ℝ) (c : ℝ) (p : Pt) (t : Nat × Nat × Nat)
    (ht : t ∈ caseTris (caseIndex (cellBits (signOf G c) p))) (e : Nat) (he : e = t.1 ∨ e = t.2.1 ∨ e = t.2.2) :
    ((G (padd p (cornerOff (cA e))) < c ∧ c ≤ G (padd p (cornerOff (cB e)))) ∨
     (G (padd p (cornerOff (cB e))) < c ∧ c ≤ G (padd p (cornerOff (cA e))))) ∧
    0 ≤ interpolationValueFromCutoff (G (padd p (cornerOff (cA e)))) (G (padd p (cornerOff (cB e)))) c ∧
    interpolationValueFromCutoff (G (padd p (cornerOff (cA e)))) (G (padd p (cornerOff (cB e)))) c ≤ 1 := by
  set s := signOf G c with hs
  have hx := table_edges_cross (s (padd p (cornerOff 0))) (s (padd p (cornerOff 1))) (s (padd p (cornerOff 2)))
    (s (padd p (cornerOff 3))) (s (padd p (cornerOff 4))) (s (padd p (cornerOff 5))) (s (padd p (cornerOff 6)))
    (s (padd p (cornerOff 7)))
  have hl := table_tri_edges_lt (s (padd p (cornerOff 0))) (s (padd p (cornerOff 1))) (s (padd p (cornerOff 2)))
    (s (padd p (cornerOff 3))) (s (padd p (cornerOff 4))) (s (padd p (cornerOff 5))) (s (padd p (cornerOff 6)))
    (s (padd p (cornerOff 7)))
  rw [List.all_eq_true] at hx hl
  have hx' := hx t ht
  have hl' := hl t ht
  simp only [decide_eq_true_eq] at hl'
  rw [List.all_eq_true] at hx'
  have he12 : e < 12 := by rcases he with rfl | rfl | rfl <;> omega
  have hmem : e ∈ [t.1, t.2.1, t.2.2] := by rcases he with rfl | rfl | rfl <;> simp
  have hne := hx' e hmem
  obtain ⟨ha8, hb8⟩ := corner_lt_aux e he12
  change ((cellBits s p).getD (cA e) false != (cellBits s p).getD (cB e) false) = true at hne
  rw [cellBits_getD_aux s p _ ha8, cellBits_getD_aux s p _ hb8] at hne
  simp only [hs, signOf, bne_iff_ne, ne_eq, decide_eq_decide] at hne
  have hcross : (G (padd p (cornerOff (cA e))) < c ∧ c ≤ G (padd p (cornerOff (cB e)))) ∨
      (G (padd p (cornerOff (cB e))) < c ∧ c ≤ G (padd p (cornerOff (cA e)))) := by
    by_cases h1 : G (padd p (cornerOff (cA e))) < c
    · left; refine ⟨h1, ?_⟩; by_contra h2; rw [not_le] at h2; exact hne ⟨fun _ => h2, fun _ => h1⟩
    · right; rw [not_lt] at h1; refine ⟨?_, h1⟩; by_contra h2; rw [not_lt] at h2
      exact hne ⟨fun h => absurd h (not_lt.mpr h1), fun h => absurd h (not_lt.mpr h2)⟩
  refine ⟨hcross, ?_⟩
  rcases hcross with h | h
  · have := (interp_between _ _ c).1 h.1 h.2; exact ⟨this.1.le, this.2⟩
  · have := (interp_between _ _ c).2 h.1 h.2; exact ⟨this.1, this.2.le⟩

/-- **… hence within one cell of the true isosurface.**  If moreover the stored samples are the values of a field whose
    restriction `F` to that lattice edge (`F 0`, `F 1` = the two end samples) is continuous, then some point of the edge
    is ON the isosurface and the emitted vertex `v1 + τ (v2 − v1)` is within one edge length of it (`|τ − τ'| ≤ 1`). -/
theorem emitted_vertex_near_isosurface (G : Pt → ℝ) (c : ℝ) (p : Pt) (t : Nat × Nat × Nat)
    (ht : t ∈ caseTris (caseIndex (cellBits (signOf G c) p))) (e : Nat) (he : e = t.1 ∨ e = t.2.1 ∨ e = t.2.2)
    (F : ℝ → ℝ) (hF : ContinuousOn F (Set.Icc 0 1))
    (h0 : F 0 = G (padd p (cornerOff (cA e)))) (h1 : F 1 = G (padd p (cornerOff (cB e)))) (v1 v2 : V3 ℝ) :
    ∃ τ τ', τ = interpolationValueFromCutoff (G (padd p (cornerOff (cA e)))) (G (padd p (cornerOff (cB e)))) c ∧
      (interpolateVerts v1 v2 (G (padd p (cornerOff (cA e)))) (G (padd p (cornerOff (cB e)))) c).x = v1.x + τ * (v2.x - v1.x) ∧
      (interpolateVerts v1 v2 (G (padd p (cornerOff (cA e)))) (G (padd p (cornerOff (cB e)))) c).y = v1.y + τ * (v2.y - v1.y) ∧
      (interpolateVerts v1 v2 (G (padd p (cornerOff (cA e)))) (G (padd p (cornerOff (cB e)))) c).z = v1.z + τ * (v2.z - v1.z) ∧
      0 ≤ τ ∧ τ ≤ 1 ∧ 0 ≤ τ' ∧ τ' ≤ 1 ∧ F τ' = c ∧ |τ - τ'| ≤ 1 := by
  obtain ⟨hcross, hτ0, hτ1⟩ := emitted_vertex_on_crossing_edge G c p t ht e he
  rw [← h0, ← h1] at hcross
  obtain ⟨τ', a, b, hFc, habs⟩ := vertex_near_isosurface F hF c _ ⟨hτ0, hτ1⟩ hcross
  obtain ⟨sx, sy, sz⟩ := interp_on_segment v1 v2 (G (padd p (cornerOff (cA e)))) (G (padd p (cornerOff (cB e)))) c
  exact ⟨_, τ', rfl, sx, sy, sz, hτ0, hτ1, a, b, hFc, habs⟩

/-- non-vacuity: one inside sample at the origin; the cell at the origin (case 1) emits the triangle (0, 8, 3) -/
example : ((0 : Nat), (8 : Nat), (3 : Nat)) ∈
    caseTris (caseIndex (cellBits (signOf (fun q => if q = (0, 0, 0) then (-1 : ℝ) else 1) 0) (0, 0, 0))) := by
  have h : cellBits (signOf (fun q => if q = ((0:Int), (0:Int), (0:Int)) then (-1 : ℝ) else 1) 0) (0, 0, 0)
      = [true, false, false, false, false, false, false, false] := by
    simp only [cellBits, signOf, padd]
    norm_num [cornerOff, cubeDataIndexIncrements, ptOfRow]
  rw [h]; decide

-- (D) instantiated hypotheses
example : 0 < interpolationValueFromCutoff (-1 : ℝ) 3 0 ∧ interpolationValueFromCutoff (-1 : ℝ) 3 0 ≤ 1 :=
  (interp_between (-1) 3 0).1 (by norm_num) (by norm_num)
example : 0 ≤ interpolationValueFromCutoff (3 : ℝ) (-1) 0 ∧ interpolationValueFromCutoff (3 : ℝ) (-1) 0 < 1 :=
  (interp_between 3 (-1) 0).2 (by norm_num) (by norm_num)
example : interpolateVerts (⟨0, 0, 0⟩ : V3 ℝ) ⟨1, 0, 0⟩ (-1) 3 0 = interpolateVerts ⟨1, 0, 0⟩ ⟨0, 0, 0⟩ 3 (-1) 0 :=
  interp_symmetric _ _ _ _ _ (by norm_num)

/-- non-vacuity of `skipped_cells_outside`: one allocated block, one inside sample in its middle: the padding
    hypothesis holds, and the cell at local x = 99 IS skipped (its +x neighbour block was never allocated) -/
example :
    let bl : Blocks Unit := fun b => if b = ((0 : Int), (0 : Int), (0 : Int)) then some (fun _ => ()) else none
    let inside : Pt → Prop := fun q => q = (50, 50, 50)
    (∀ q, inside q → ∀ d : Pt, -1 ≤ d.1 → d.1 ≤ 1 → -1 ≤ d.2.1 → d.2.1 ≤ 1 → -1 ≤ d.2.2 → d.2.2 ≤ 1 →
      (bl (chunkOf (padd q d))).isSome) ∧ fetchCell bl (0, 0, 0) 99 0 0 = none := by
  refine ⟨?_, by decide⟩
  intro q hq d h1 h2 h3 h4 h5 h6
  obtain ⟨d1, d2, d3⟩ := d
  simp only at h1 h2 h3 h4 h5 h6
  subst hq
  have e1 : (50 + d1) / 100 = 0 := by omega
  have e2 : (50 + d2) / 100 = 0 := by omega
  have e3 : (50 + d3) / 100 = 0 := by omega
  simp [chunkOf, padd, marchingSectionSize, e1, e2, e3]

end emitted

section orient
open Gen.marching

/-! ## 9. Orientation: every emitted triangle faces outward -/

def psub (a b : Pt) : Pt := (a.1 - b.1, a.2.1 - b.2.1, a.2.2 - b.2.2)
def pcross (a b : Pt) : Pt :=
  (a.2.1 * b.2.2 - a.2.2 * b.2.1, a.2.2 * b.1 - a.1 * b.2.2, a.1 * b.2.1 - a.2.1 * b.1)
def pdot (a b : Pt) : Int := a.1 * b.1 + a.2.1 * b.2.1 + a.2.2 * b.2.2
def pscale (k : Int) (a : Pt) : Pt := (k * a.1, k * a.2.1, k * a.2.2)

/-- the below-cutoff (inside) corner of cube edge `e` under the corner bits, as an offset -/
def edgeIn (bits : List Bool) (e : Nat) : Pt := if bits.getD (cA e) false then cornerOff (cA e) else cornerOff (cB e)
/-- the other (outside) corner -/
def edgeOut (bits : List Bool) (e : Nat) : Pt := if bits.getD (cA e) false then cornerOff (cB e) else cornerOff (cA e)
/-- direction of cube edge `e` from its inside to its outside corner (a signed unit vector) -/
def edgeDir (bits : List Bool) (e : Nat) : Pt := psub (edgeOut bits e) (edgeIn bits e)

/-- `normal · (d₀ + d₁ + d₂)` of table triangle `t` with each vertex pushed to the inside end (`false`) or the outside
    end (`true`) of its edge: the value of the (multilinear) outwardness form at a corner of the parameter cube -/
def cornerVal (bits : List Bool) (t : Nat × Nat × Nat) (c : Bool × Bool × Bool) : Int :=
  let k (b : Bool) : Int := if b then 1 else 0
  let d0 := edgeDir bits t.1; let d1 := edgeDir bits t.2.1; let d2 := edgeDir bits t.2.2
  let e1 := psub (edgeIn bits t.2.1) (edgeIn bits t.1); let e2 := psub (edgeIn bits t.2.2) (edgeIn bits t.1)
  let w1 := psub (padd e1 (pscale (k c.2.1) d1)) (pscale (k c.1) d0)
  let w2 := psub (padd e2 (pscale (k c.2.2) d2)) (pscale (k c.1) d0)
  pdot (pcross w1 w2) (padd d0 (padd d1 d2))

def cubeCorners8 : List (Bool × Bool × Bool) :=
  [(false, false, false), (false, false, true), (false, true, false), (false, true, true),
   (true, false, false), (true, false, true), (true, true, false), (true, true, true)]

set_option maxRecDepth 100000 in
/-- **Table-level outwardness** (complete table, kernel-evaluated): for every sign pattern and every triangle of its
    row, the outwardness form `normal · (d₀ + d₁ + d₂)` is ≥ 0 at all eight corners of the parameter cube and > 0 at
    one of them at least.  (The per-edge form `normal · dᵢ > 0` is FALSE for this table: 72 triangles, e.g. row 23
    triangle (2, 9, 7), have an edge whose direction makes an obtuse angle with the normal for every parameter.) -/
theorem table_triangle_outward_corners : ∀ b0 b1 b2 b3 b4 b5 b6 b7 : Bool,
    (caseTris (caseIndex (bits8 b0 b1 b2 b3 b4 b5 b6 b7))).all (fun t =>
      cubeCorners8.all (fun c => decide (0 ≤ cornerVal (bits8 b0 b1 b2 b3 b4 b5 b6 b7) t c)) &&
      cubeCorners8.any (fun c => decide (0 < cornerVal (bits8 b0 b1 b2 b3 b4 b5 b6 b7) t c))) = true := by
  decide +kernel

/-- the outwardness form over ℝ: vertices `i₀ + s₀ d₀`, `i₀ + e₁ + s₁ d₁`, `i₀ + e₂ + s₂ d₂`;
    `normal · (d₀ + d₁ + d₂)` with `normal = (v₁ − v₀) × (v₂ − v₀)` -/
noncomputable def outF (e1 e2 d0 d1 d2 : V3 ℝ) (s0 s1 s2 : ℝ) : ℝ :=
  V3.Dot (V3.Cross (V3.Sub (V3.Add e1 (V3.Scale d1 s1)) (V3.Scale d0 s0)) (V3.Sub (V3.Add e2 (V3.Scale d2 s2)) (V3.Scale d0 s0)))
    (V3.Add d0 (V3.Add d1 d2))

/-- the form is multilinear in the three parameters: it is the weighted mean of its eight corner values -/
theorem outF_multilinear_aux (e1 e2 d0 d1 d2 : V3 ℝ) (s0 s1 s2 : ℝ) :
    outF e1 e2 d0 d1 d2 s0 s1 s2 =
      (1 - s0) * (1 - s1) * (1 - s2) * outF e1 e2 d0 d1 d2 0 0 0 + (1 - s0) * (1 - s1) * s2 * outF e1 e2 d0 d1 d2 0 0 1
      + (1 - s0) * s1 * (1 - s2) * outF e1 e2 d0 d1 d2 0 1 0 + (1 - s0) * s1 * s2 * outF e1 e2 d0 d1 d2 0 1 1
      + s0 * (1 - s1) * (1 - s2) * outF e1 e2 d0 d1 d2 1 0 0 + s0 * (1 - s1) * s2 * outF e1 e2 d0 d1 d2 1 0 1
      + s0 * s1 * (1 - s2) * outF e1 e2 d0 d1 d2 1 1 0 + s0 * s1 * s2 * outF e1 e2 d0 d1 d2 1 1 1 := by
  simp only [outF, V3.Dot, V3.Cross, V3.Sub, V3.Add, V3.Scale]
  ring

/-- eight non-negative corner values ⇒ non-negative on the closed cube; one positive corner ⇒ positive inside -/
theorem multilinear_sign_aux (f000 f001 f010 f011 f100 f101 f110 f111 s0 s1 s2 : ℝ)
    (h : 0 ≤ f000 ∧ 0 ≤ f001 ∧ 0 ≤ f010 ∧ 0 ≤ f011 ∧ 0 ≤ f100 ∧ 0 ≤ f101 ∧ 0 ≤ f110 ∧ 0 ≤ f111)
    (hs0 : 0 ≤ s0 ∧ s0 ≤ 1) (hs1 : 0 ≤ s1 ∧ s1 ≤ 1) (hs2 : 0 ≤ s2 ∧ s2 ≤ 1) :
    0 ≤ (1 - s0) * (1 - s1) * (1 - s2) * f000 + (1 - s0) * (1 - s1) * s2 * f001
      + (1 - s0) * s1 * (1 - s2) * f010 + (1 - s0) * s1 * s2 * f011
      + s0 * (1 - s1) * (1 - s2) * f100 + s0 * (1 - s1) * s2 * f101
      + s0 * s1 * (1 - s2) * f110 + s0 * s1 * s2 * f111 ∧
    ((0 < s0 ∧ s0 < 1) → (0 < s1 ∧ s1 < 1) → (0 < s2 ∧ s2 < 1) →
      (0 < f000 ∨ 0 < f001 ∨ 0 < f010 ∨ 0 < f011 ∨ 0 < f100 ∨ 0 < f101 ∨ 0 < f110 ∨ 0 < f111) →
      0 < (1 - s0) * (1 - s1) * (1 - s2) * f000 + (1 - s0) * (1 - s1) * s2 * f001
      + (1 - s0) * s1 * (1 - s2) * f010 + (1 - s0) * s1 * s2 * f011
      + s0 * (1 - s1) * (1 - s2) * f100 + s0 * (1 - s1) * s2 * f101
      + s0 * s1 * (1 - s2) * f110 + s0 * s1 * s2 * f111) := by
  obtain ⟨h0, h1, h2, h3, h4, h5, h6, h7⟩ := h
  have a0 : 0 ≤ 1 - s0 := by linarith [hs0.2]
  have a1 : 0 ≤ 1 - s1 := by linarith [hs1.2]
  have a2 : 0 ≤ 1 - s2 := by linarith [hs2.2]
  have b0 := hs0.1; have b1 := hs1.1; have b2 := hs2.1
  have t0 := mul_nonneg (mul_nonneg (mul_nonneg a0 a1) a2) h0
  have t1 := mul_nonneg (mul_nonneg (mul_nonneg a0 a1) b2) h1
  have t2 := mul_nonneg (mul_nonneg (mul_nonneg a0 b1) a2) h2
  have t3 := mul_nonneg (mul_nonneg (mul_nonneg a0 b1) b2) h3
  have t4 := mul_nonneg (mul_nonneg (mul_nonneg b0 a1) a2) h4
  have t5 := mul_nonneg (mul_nonneg (mul_nonneg b0 a1) b2) h5
  have t6 := mul_nonneg (mul_nonneg (mul_nonneg b0 b1) a2) h6
  have t7 := mul_nonneg (mul_nonneg (mul_nonneg b0 b1) b2) h7
  refine ⟨by linarith, ?_⟩
  intro c0 c1 c2 hp
  have p0 : 0 < 1 - s0 := by linarith [c0.2]
  have p1 : 0 < 1 - s1 := by linarith [c1.2]
  have p2 : 0 < 1 - s2 := by linarith [c2.2]
  rcases hp with hp | hp | hp | hp | hp | hp | hp | hp
  · have := mul_pos (mul_pos (mul_pos p0 p1) p2) hp; linarith
  · have := mul_pos (mul_pos (mul_pos p0 p1) c2.1) hp; linarith
  · have := mul_pos (mul_pos (mul_pos p0 c1.1) p2) hp; linarith
  · have := mul_pos (mul_pos (mul_pos p0 c1.1) c2.1) hp; linarith
  · have := mul_pos (mul_pos (mul_pos c0.1 p1) p2) hp; linarith
  · have := mul_pos (mul_pos (mul_pos c0.1 p1) c2.1) hp; linarith
  · have := mul_pos (mul_pos (mul_pos c0.1 c1.1) p2) hp; linarith
  · have := mul_pos (mul_pos (mul_pos c0.1 c1.1) c2.1) hp; linarith

/-- a lattice point / offset as a real vector -/
noncomputable def ptR (q : Pt) : V3 ℝ := ⟨(q.1 : ℝ), (q.2.1 : ℝ), (q.2.2 : ℝ)⟩

theorem cornerVal_cast_aux (bits : List Bool) (t : Nat × Nat × Nat) (a b c : Bool) :
    ((cornerVal bits t (a, b, c) : Int) : ℝ) =
      outF (ptR (psub (edgeIn bits t.2.1) (edgeIn bits t.1))) (ptR (psub (edgeIn bits t.2.2) (edgeIn bits t.1)))
        (ptR (edgeDir bits t.1)) (ptR (edgeDir bits t.2.1)) (ptR (edgeDir bits t.2.2))
        (if a then 1 else 0) (if b then 1 else 0) (if c then 1 else 0) := by
  simp only [cornerVal, outF, V3.Dot, V3.Cross, V3.Sub, V3.Add, V3.Scale, ptR, pdot, pcross, psub, padd, pscale]
  cases a <;> cases b <;> cases c <;> (push_cast; ring)

/-- **Outwardness for all interpolation parameters** (the lift from the eight corners): for every sign pattern, every
    triangle of its row and all parameters `s₀ s₁ s₂ ∈ [0, 1]` (position of each vertex between the inside and the outside
    end of its edge), `normal · (d₀ + d₁ + d₂) ≥ 0`, and `> 0` when all three parameters are in the open interval. -/
theorem table_triangle_outward (b0 b1 b2 b3 b4 b5 b6 b7 : Bool) (t : Nat × Nat × Nat)
    (ht : t ∈ caseTris (caseIndex (bits8 b0 b1 b2 b3 b4 b5 b6 b7))) (s0 s1 s2 : ℝ)
    (hs0 : 0 ≤ s0 ∧ s0 ≤ 1) (hs1 : 0 ≤ s1 ∧ s1 ≤ 1) (hs2 : 0 ≤ s2 ∧ s2 ≤ 1) :
    let bits := bits8 b0 b1 b2 b3 b4 b5 b6 b7
    let F := outF (ptR (psub (edgeIn bits t.2.1) (edgeIn bits t.1))) (ptR (psub (edgeIn bits t.2.2) (edgeIn bits t.1)))
        (ptR (edgeDir bits t.1)) (ptR (edgeDir bits t.2.1)) (ptR (edgeDir bits t.2.2))
    0 ≤ F s0 s1 s2 ∧ ((0 < s0 ∧ s0 < 1) → (0 < s1 ∧ s1 < 1) → (0 < s2 ∧ s2 < 1) → 0 < F s0 s1 s2) := by
  intro bits F
  have T := table_triangle_outward_corners b0 b1 b2 b3 b4 b5 b6 b7
  rw [List.all_eq_true] at T
  have T1 := T t ht
  simp only [cubeCorners8, List.all_cons, List.all_nil, List.any_cons, List.any_nil, Bool.and_true, Bool.or_false,
    Bool.and_eq_true, Bool.or_eq_true, decide_eq_true_eq] at T1
  obtain ⟨⟨n0, n1, n2, n3, n4, n5, n6, n7⟩, hpos⟩ := T1
  have cast := fun a b c => cornerVal_cast_aux bits t a b c
  have key := multilinear_sign_aux (F 0 0 0) (F 0 0 1) (F 0 1 0) (F 0 1 1) (F 1 0 0) (F 1 0 1) (F 1 1 0) (F 1 1 1) s0 s1 s2
    (by
      have c0 := cast false false false; have c1 := cast false false true; have c2 := cast false true false
      have c3 := cast false true true; have c4 := cast true false false; have c5 := cast true false true
      have c6 := cast true true false; have c7 := cast true true true
      simp only [Bool.false_eq_true, if_false, if_true] at c0 c1 c2 c3 c4 c5 c6 c7
      refine ⟨?_, ?_, ?_, ?_, ?_, ?_, ?_, ?_⟩
      · rw [show F 0 0 0 = _ from c0.symm]; exact_mod_cast n0
      · rw [show F 0 0 1 = _ from c1.symm]; exact_mod_cast n1
      · rw [show F 0 1 0 = _ from c2.symm]; exact_mod_cast n2
      · rw [show F 0 1 1 = _ from c3.symm]; exact_mod_cast n3
      · rw [show F 1 0 0 = _ from c4.symm]; exact_mod_cast n4
      · rw [show F 1 0 1 = _ from c5.symm]; exact_mod_cast n5
      · rw [show F 1 1 0 = _ from c6.symm]; exact_mod_cast n6
      · rw [show F 1 1 1 = _ from c7.symm]; exact_mod_cast n7) hs0 hs1 hs2
  have hml : F s0 s1 s2 = _ := outF_multilinear_aux _ _ _ _ _ s0 s1 s2
  rw [hml]
  refine ⟨key.1, fun c0 c1 c2 => key.2 c0 c1 c2 ?_⟩
  have c0 := cast false false false; have c1 := cast false false true; have c2 := cast false true false
  have c3 := cast false true true; have c4 := cast true false false; have c5 := cast true false true
  have c6 := cast true true false; have c7 := cast true true true
  simp only [Bool.false_eq_true, if_false, if_true] at c0 c1 c2 c3 c4 c5 c6 c7
  rcases hpos with h | h | h | h | h | h | h | h
  · left; rw [show F 0 0 0 = _ from c0.symm]; exact_mod_cast h
  · right; left; rw [show F 0 0 1 = _ from c1.symm]; exact_mod_cast h
  · right; right; left; rw [show F 0 1 0 = _ from c2.symm]; exact_mod_cast h
  · right; right; right; left; rw [show F 0 1 1 = _ from c3.symm]; exact_mod_cast h
  · right; right; right; right; left; rw [show F 1 0 0 = _ from c4.symm]; exact_mod_cast h
  · right; right; right; right; right; left; rw [show F 1 0 1 = _ from c5.symm]; exact_mod_cast h
  · right; right; right; right; right; right; left; rw [show F 1 1 0 = _ from c6.symm]; exact_mod_cast h
  · right; right; right; right; right; right; right; rw [show F 1 1 1 = _ from c7.symm]; exact_mod_cast h

/-- the vertex `interpolateVerts` puts on cube edge `e` of cell `p`, in lattice coordinates -/
noncomputable def vertR (G : Pt → ℝ) (c : ℝ) (p : Pt) (e : Nat) : V3 ℝ :=
  interpolateVerts (ptR (padd p (cornerOff (cA e)))) (ptR (padd p (cornerOff (cB e))))
    (G (padd p (cornerOff (cA e)))) (G (padd p (cornerOff (cB e)))) c

theorem vert_param_aux (G : Pt → ℝ) (c : ℝ) (p : Pt) (e : Nat) (ha8 : cA e < 8)
    (hcross : (G (padd p (cornerOff (cA e))) < c ∧ c ≤ G (padd p (cornerOff (cB e)))) ∨
      (G (padd p (cornerOff (cB e))) < c ∧ c ≤ G (padd p (cornerOff (cA e))))) :
    ∃ σ : ℝ, 0 < σ ∧ σ ≤ 1 ∧ (c < G (padd p (edgeOut (cellBits (signOf G c) p) e)) → σ < 1) ∧
      vertR G c p e = V3.Add (ptR (padd p (edgeIn (cellBits (signOf G c) p) e)))
        (V3.Scale (ptR (edgeDir (cellBits (signOf G c) p) e)) σ) := by
  have hbit : (cellBits (signOf G c) p).getD (cA e) false = decide (G (padd p (cornerOff (cA e))) < c) := by
    rw [cellBits_getD_aux _ _ _ ha8]; rfl
  rcases hcross with ⟨h1, h2⟩ | ⟨h1, h2⟩
  · have hb : (cellBits (signOf G c) p).getD (cA e) false = true := by rw [hbit]; simpa using h1
    have ib := (interp_between (G (padd p (cornerOff (cA e)))) (G (padd p (cornerOff (cB e)))) c).1 h1 h2
    refine ⟨interpolationValueFromCutoff (G (padd p (cornerOff (cA e)))) (G (padd p (cornerOff (cB e)))) c, ib.1, ib.2, ?_, ?_⟩
    · simp only [edgeOut, hb, if_true]
      intro hlt
      unfold interpolationValueFromCutoff
      have hd : 0 < G (padd p (cornerOff (cB e))) - G (padd p (cornerOff (cA e))) := by linarith
      rw [div_lt_one hd]; linarith
    · simp only [vertR, interpolateVerts, edgeIn, edgeDir, edgeOut, hb, if_true, V3.Add, V3.Scale, V3.Sub, ptR, psub, padd,
        V3.mk.injEq]
      refine ⟨?_, ?_, ?_⟩ <;> (push_cast; ring)
  · have hb : (cellBits (signOf G c) p).getD (cA e) false = false := by
      rw [hbit]; simpa using h2
    have ib := (interp_between (G (padd p (cornerOff (cA e)))) (G (padd p (cornerOff (cB e)))) c).2 h1 h2
    refine ⟨1 - interpolationValueFromCutoff (G (padd p (cornerOff (cA e)))) (G (padd p (cornerOff (cB e)))) c,
      by linarith [ib.2], by linarith [ib.1], ?_, ?_⟩
    · simp only [edgeOut, hb, Bool.false_eq_true, if_false]
      intro hlt
      have hd : G (padd p (cornerOff (cB e))) - G (padd p (cornerOff (cA e))) < 0 := by linarith
      have : 0 < interpolationValueFromCutoff (G (padd p (cornerOff (cA e)))) (G (padd p (cornerOff (cB e)))) c := by
        unfold interpolationValueFromCutoff
        exact div_pos_of_neg_of_neg (by linarith) hd
      linarith
    · simp only [vertR, interpolateVerts, edgeIn, edgeDir, edgeOut, hb, Bool.false_eq_true, if_false, V3.Add, V3.Scale,
        V3.Sub, ptR, psub, padd, V3.mk.injEq]
      refine ⟨?_, ?_, ?_⟩ <;> (push_cast; ring)

/-- normal of the emitted triangle (lattice coordinates): `(v₁ − v₀) × (v₂ − v₀)` -/
noncomputable def triNormalR (G : Pt → ℝ) (c : ℝ) (p : Pt) (t : Nat × Nat × Nat) : V3 ℝ :=
  V3.Cross (V3.Sub (vertR G c p t.2.1) (vertR G c p t.1)) (V3.Sub (vertR G c p t.2.2) (vertR G c p t.1))

/-- sum of the three inside→outside directions of the lattice edges the triangle's corners lie on -/
noncomputable def triOutDirR (G : Pt → ℝ) (c : ℝ) (p : Pt) (t : Nat × Nat × Nat) : V3 ℝ :=
  V3.Add (ptR (edgeDir (cellBits (signOf G c) p) t.1))
    (V3.Add (ptR (edgeDir (cellBits (signOf G c) p) t.2.1)) (ptR (edgeDir (cellBits (signOf G c) p) t.2.2)))

/-- **Every emitted triangle faces outward.**  For any sample grid `G`, cutoff `c`, cell `p` and any triangle the table
    emits for that cell, with the three corners at the positions `interpolateVerts` computes: the triangle's normal has a
    non-negative inner product with the sum of the inside→outside directions of its three lattice edges, and a positive
    one whenever none of the three outside end samples is exactly equal to the cutoff. -/
theorem emitted_triangle_outward (G : Pt → ℝ) (c : ℝ) (p : Pt) (t : Nat × Nat × Nat)
    (ht : t ∈ caseTris (caseIndex (cellBits (signOf G c) p))) :
    0 ≤ V3.Dot (triNormalR G c p t) (triOutDirR G c p t) ∧
    ((c < G (padd p (edgeOut (cellBits (signOf G c) p) t.1)) ∧ c < G (padd p (edgeOut (cellBits (signOf G c) p) t.2.1)) ∧
      c < G (padd p (edgeOut (cellBits (signOf G c) p) t.2.2))) →
      0 < V3.Dot (triNormalR G c p t) (triOutDirR G c p t)) := by
  have hl := table_tri_edges_lt ((signOf G c) (padd p (cornerOff 0))) ((signOf G c) (padd p (cornerOff 1)))
    ((signOf G c) (padd p (cornerOff 2))) ((signOf G c) (padd p (cornerOff 3))) ((signOf G c) (padd p (cornerOff 4)))
    ((signOf G c) (padd p (cornerOff 5))) ((signOf G c) (padd p (cornerOff 6))) ((signOf G c) (padd p (cornerOff 7)))
  rw [List.all_eq_true] at hl
  have hl' := hl t ht
  simp only [decide_eq_true_eq] at hl'
  obtain ⟨x0, _, _⟩ := emitted_vertex_on_crossing_edge G c p t ht t.1 (Or.inl rfl)
  obtain ⟨x1, _, _⟩ := emitted_vertex_on_crossing_edge G c p t ht t.2.1 (Or.inr (Or.inl rfl))
  obtain ⟨x2, _, _⟩ := emitted_vertex_on_crossing_edge G c p t ht t.2.2 (Or.inr (Or.inr rfl))
  obtain ⟨σ0, p0, q0, r0, e0⟩ := vert_param_aux G c p t.1 (corner_lt_aux _ hl'.1).1 x0
  obtain ⟨σ1, p1, q1, r1, e1⟩ := vert_param_aux G c p t.2.1 (corner_lt_aux _ hl'.2.1).1 x1
  obtain ⟨σ2, p2, q2, r2, e2⟩ := vert_param_aux G c p t.2.2 (corner_lt_aux _ hl'.2.2).1 x2
  have key := table_triangle_outward ((signOf G c) (padd p (cornerOff 0))) ((signOf G c) (padd p (cornerOff 1)))
    ((signOf G c) (padd p (cornerOff 2))) ((signOf G c) (padd p (cornerOff 3))) ((signOf G c) (padd p (cornerOff 4)))
    ((signOf G c) (padd p (cornerOff 5))) ((signOf G c) (padd p (cornerOff 6))) ((signOf G c) (padd p (cornerOff 7)))
    t ht σ0 σ1 σ2 ⟨p0.le, q0⟩ ⟨p1.le, q1⟩ ⟨p2.le, q2⟩
  have hF : V3.Dot (triNormalR G c p t) (triOutDirR G c p t) =
      outF (ptR (psub (edgeIn (cellBits (signOf G c) p) t.2.1) (edgeIn (cellBits (signOf G c) p) t.1)))
        (ptR (psub (edgeIn (cellBits (signOf G c) p) t.2.2) (edgeIn (cellBits (signOf G c) p) t.1)))
        (ptR (edgeDir (cellBits (signOf G c) p) t.1)) (ptR (edgeDir (cellBits (signOf G c) p) t.2.1))
        (ptR (edgeDir (cellBits (signOf G c) p) t.2.2)) σ0 σ1 σ2 := by
    simp only [triNormalR, triOutDirR, e0, e1, e2, outF, V3.Dot, V3.Cross, V3.Sub, V3.Add, V3.Scale, ptR, psub, padd]
    push_cast; ring
  rw [hF]
  exact ⟨key.1, fun h => key.2 ⟨p0, r0 h.1⟩ ⟨p1, r1 h.2.1⟩ ⟨p2, r2 h.2.2⟩⟩

/-- non-vacuity of `emitted_triangle_outward`, strict part: one inside sample at the origin, cutoff 0; the cell at the
    origin emits the triangle (0, 8, 3) and none of its outside end samples equals the cutoff -/
example : 0 < V3.Dot (triNormalR (fun q => if q = ((0:Int), (0:Int), (0:Int)) then (-1 : ℝ) else 1) 0 (0, 0, 0) (0, 8, 3))
    (triOutDirR (fun q => if q = ((0:Int), (0:Int), (0:Int)) then (-1 : ℝ) else 1) 0 (0, 0, 0) (0, 8, 3)) := by
  have h : cellBits (signOf (fun q => if q = ((0:Int), (0:Int), (0:Int)) then (-1 : ℝ) else 1) 0) (0, 0, 0)
      = [true, false, false, false, false, false, false, false] := by
    simp only [cellBits, signOf, padd]
    norm_num [cornerOff, cubeDataIndexIncrements, ptOfRow]
  refine (emitted_triangle_outward _ 0 (0, 0, 0) (0, 8, 3) (by rw [h]; decide)).2 ?_
  rw [h]
  have e0 : edgeOut [true, false, false, false, false, false, false, false] 0 = (1, 0, 0) := by decide
  have e8 : edgeOut [true, false, false, false, false, false, false, false] 8 = (0, 1, 0) := by decide
  have e3 : edgeOut [true, false, false, false, false, false, false, false] 3 = (0, 0, 1) := by decide
  simp only [e0, e8, e3, padd]
  norm_num

end orient

/-! ## 10. Signed volume of a closed surface does not depend on the reference point -/

/-- six times the signed volume of the tetrahedron (o, a, b, c): `det (a − o, b − o, c − o)` -/
noncomputable def det3 (a b c : V3 ℝ) : ℝ := V3.Dot a (V3.Cross b c)

/-- six times the signed volume of a triangle list against the reference point `o`
    (the sum the `c09.holds.outward` oracle evaluates with `o = 0`) -/
noncomputable def volume6 {V : Type} (pos : V → V3 ℝ) (o : V3 ℝ) (tris : List (V × V × V)) : ℝ :=
  (tris.map fun t => det3 (V3.Sub (pos t.1) o) (V3.Sub (pos t.2.1) o) (V3.Sub (pos t.2.2) o)).sum

theorem sum_map_neg_aux {T : Type} (l : List T) (g : T → ℝ) : (l.map fun e => - g e).sum = - (l.map g).sum := by
  induction l with
  | nil => simp
  | cons x l ih => simp only [List.map_cons, List.sum_cons]; rw [ih]; ring

theorem sum_antisymm_aux {V : Type} [DecidableEq V] (L : List (V × V)) (hb : Balanced L) (g : V × V → ℝ)
    (hg : ∀ e, g (swapE e) = - g e) : (L.map g).sum = 0 := by
  have hp : L.Perm (L.map swapE) := by
    rw [List.perm_iff_count]; intro a; cases a with | mk a b => rw [count_map_swap_aux]; exact hb a b
  have h1 : (L.map g).sum = ((L.map swapE).map g).sum := (hp.map g).sum_eq
  rw [List.map_map] at h1
  have h2 : (L.map (g ∘ swapE)).sum = - (L.map g).sum := by
    have : (g ∘ swapE) = fun e => - g e := by funext e; exact hg e
    rw [this, sum_map_neg_aux]
  linarith

/-- per triangle: `det (a−o, b−o, c−o) = det (a, b, c) − o · (a×b + b×c + c×a)` -/
theorem det3_shift_aux (a b c o : V3 ℝ) :
    det3 (V3.Sub a o) (V3.Sub b o) (V3.Sub c o) =
      det3 a b c - (V3.Dot o (V3.Cross a b) + V3.Dot o (V3.Cross b c) + V3.Dot o (V3.Cross c a)) := by
  simp only [det3, V3.Dot, V3.Cross, V3.Sub]; ring

/-- **The signed volume of a closed surface is independent of the reference point.**  For any triangle list whose
    directed edges are balanced (in particular the marched surface of `march_closed`, and its welded image of
    `march_weld_balanced`) and any vertex positions, `Σ det(a − o, b − o, c − o)` is the same for every `o`:
    the sign the `outward` oracle tests is a property of the surface, not of the origin. -/
theorem volume_translation_invariant {V : Type} [DecidableEq V] (pos : V → V3 ℝ) (tris : List (V × V × V))
    (hb : Balanced (tris.flatMap triEdges)) (o : V3 ℝ) :
    volume6 pos o tris = volume6 pos ⟨0, 0, 0⟩ tris := by
  have hz : ∀ a : V3 ℝ, V3.Sub a ⟨0, 0, 0⟩ = a := by intro a; cases a; simp [V3.Sub]
  have key : (((tris.flatMap triEdges).map fun e => V3.Dot o (V3.Cross (pos e.1) (pos e.2)))).sum = 0 := by
    apply sum_antisymm_aux _ hb
    intro e; simp only [swapE, V3.Dot, V3.Cross]; ring
  have hsplit : ∀ l : List (V × V × V),
      (l.map fun t => det3 (V3.Sub (pos t.1) o) (V3.Sub (pos t.2.1) o) (V3.Sub (pos t.2.2) o)).sum =
      (l.map fun t => det3 (pos t.1) (pos t.2.1) (pos t.2.2)).sum
        - ((l.flatMap triEdges).map fun e => V3.Dot o (V3.Cross (pos e.1) (pos e.2))).sum := by
    intro l
    induction l with
    | nil => simp
    | cons t l ih =>
      rw [List.map_cons, List.sum_cons, ih, det3_shift_aux, List.map_cons, List.sum_cons, List.flatMap_cons,
        List.map_append, List.sum_append]
      simp only [triEdges, List.map_cons, List.map_nil, List.sum_cons, List.sum_nil]
      ring
  unfold volume6
  rw [hsplit, key]
  simp only [hz, sub_zero]

/-- non-vacuity: the tetrahedron (0,1,2), (0,3,1), (1,3,2), (0,2,3) is balanced -/
example : Balanced (([(0, 1, 2), (0, 3, 1), (1, 3, 2), (0, 2, 3)] : List (Nat × Nat × Nat)).flatMap triEdges) :=
  balancedB_sound_aux _ (by decide)

/-- the marched surface of any box with outside boundary layer, with ANY vertex positions (in particular the
    interpolated ones), and ANY welding map: its signed volume does not depend on the reference point -/
theorem march_volume_translation_invariant {W : Type} [DecidableEq W] (s : Pt → Bool) (o : Pt) (nx ny nz : Nat)
    (hbd : BoundaryOutside s o nx ny nz) (φ : LEdge → W) (pos : W → V3 ℝ) (ref : V3 ℝ) :
    volume6 pos ref (weldTris φ (boxTris s o nx ny nz)) = volume6 pos ⟨0, 0, 0⟩ (weldTris φ (boxTris s o nx ny nz)) :=
  volume_translation_invariant pos _ (march_weld_balanced s o nx ny nz hbd φ) ref

/-! ## 11. Exactly the cells the real marcher visits -/

/-- sign of the stored grid: a position is inside iff its block is allocated and the stored sample tests inside
    (`val v` = `v < cutoff`); an unallocated position holds 0, which is outside for every cutoff ≤ 0 -/
def storedSign {α : Type} (bl : Blocks α) (val : α → Bool) : Pt → Bool := fun q => ((globalAt bl q).map val).getD false

/-- the local cell coordinates `[0, 100)³` of a block (as a list; the Go loops run z, y, x — the order is immaterial for
    the multiset statements below) -/
def localCells : List (Int × Int × Int) := boxCells (0, 0, 0) 100 100 100

/-- what `marchFloat1BlockPosition` emits for one cell of block `b`: nothing when a corner cannot be fetched (`continue`),
    else the table's edges for the case index of the FETCHED values -/
def cellEmit {α : Type} (bl : Blocks α) (val : α → Bool) (b : Pt) (l : Int × Int × Int) : List DEdge :=
  match fetchCell bl b l.1 l.2.1 l.2.2 with
  | none => []
  | some cs => (caseSegsRel (caseIndex (cs.map val))).map (shiftE (globalOf b l.1 l.2.1 l.2.2))

/-- `marchFloat1`: all blocks of the section (in the arbitrary order `bs` of the Go map iteration), all their cells -/
def marchedEdges {α : Type} (bl : Blocks α) (val : α → Bool) (bs : List Pt) : List DEdge :=
  bs.flatMap fun b => localCells.flatMap (cellEmit bl val b)

theorem mem_boxCells_aux (o : Pt) (nx ny nz : Nat) (p : Pt) :
    p ∈ boxCells o nx ny nz ↔ (o.1 ≤ p.1 ∧ p.1 < o.1 + nx) ∧ (o.2.1 ≤ p.2.1 ∧ p.2.1 < o.2.1 + ny) ∧
      (o.2.2 ≤ p.2.2 ∧ p.2.2 < o.2.2 + nz) := by
  obtain ⟨x, y, z⟩ := p; obtain ⟨ox, oy, oz⟩ := o
  simp only [boxCells, List.mem_flatMap, List.mem_map, List.mem_range, padd, Prod.mk.injEq, Int.ofNat_eq_natCast]
  constructor
  · rintro ⟨i, hi, j, hj, k, hk, rfl, rfl, rfl⟩; omega
  · rintro ⟨⟨a1, a2⟩, ⟨b1, b2⟩, ⟨c1, c2⟩⟩
    exact ⟨(x - ox).toNat, by omega, (y - oy).toNat, by omega, (z - oz).toNat, by omega, by omega, by omega, by omega⟩

theorem mem_localCells_aux (l : Int × Int × Int) :
    l ∈ localCells ↔ (0 ≤ l.1 ∧ l.1 < 100) ∧ (0 ≤ l.2.1 ∧ l.2.1 < 100) ∧ (0 ≤ l.2.2 ∧ l.2.2 < 100) := by
  rw [localCells, mem_boxCells_aux]; simp

theorem mapM_some_aux {α β : Type} (f : α → Option β) (l : List α) (h : ∀ a ∈ l, (f a).isSome) :
    ∃ bs, l.mapM f = some bs := by
  cases hm : l.mapM f with
  | some bs => exact ⟨bs, rfl⟩
  | none =>
    obtain ⟨a, ha, hn⟩ := (mapM_eq_none_aux f l).mp hm
    have := h a ha; rw [hn] at this; cases this

/-- a fetched cell carries exactly the sign bits of the stored grid at its eight corners -/
theorem fetched_bits_aux {α : Type} (bl : Blocks α) (val : α → Bool) (b : Pt) (x y z : Int)
    (hx : 0 ≤ x ∧ x < marchingSectionSize) (hy : 0 ≤ y ∧ y < marchingSectionSize) (hz : 0 ≤ z ∧ z < marchingSectionSize)
    (cs : List α) (h : fetchCell bl b x y z = some cs) :
    cs.map val = cellBits (storedSign bl val) (globalOf b x y z) := by
  rw [fetchCell_eq_global bl b x y z hx hy hz] at h
  have e8 : List.range 8 = [0, 1, 2, 3, 4, 5, 6, 7] := by decide
  rw [e8] at h
  simp only [List.mapM_cons, List.mapM_nil] at h
  simp only [cellBits, storedSign]
  cases h0 : globalAt bl (padd (globalOf b x y z) (cornerOff 0)) <;> rw [h0] at h <;> try (simp at h)
  cases h1 : globalAt bl (padd (globalOf b x y z) (cornerOff 1)) <;> rw [h1] at h <;> try (simp at h)
  cases h2 : globalAt bl (padd (globalOf b x y z) (cornerOff 2)) <;> rw [h2] at h <;> try (simp at h)
  cases h3 : globalAt bl (padd (globalOf b x y z) (cornerOff 3)) <;> rw [h3] at h <;> try (simp at h)
  cases h4 : globalAt bl (padd (globalOf b x y z) (cornerOff 4)) <;> rw [h4] at h <;> try (simp at h)
  cases h5 : globalAt bl (padd (globalOf b x y z) (cornerOff 5)) <;> rw [h5] at h <;> try (simp at h)
  cases h6 : globalAt bl (padd (globalOf b x y z) (cornerOff 6)) <;> rw [h6] at h <;> try (simp at h)
  cases h7 : globalAt bl (padd (globalOf b x y z) (cornerOff 7)) <;> rw [h7] at h <;> try (simp at h)
  subst h
  simp

theorem cellEdges_nil_aux (s : Pt → Bool) (p : Pt) (h : ∀ i, i < 8 → s (padd p (cornerOff i)) = false) :
    cellEdges s p = [] := by
  have e : cellBits s p = [false, false, false, false, false, false, false, false] := by
    simp only [cellBits, h 0 (by decide), h 1 (by decide), h 2 (by decide), h 3 (by decide), h 4 (by decide),
      h 5 (by decide), h 6 (by decide), h 7 (by decide)]
  have z : caseSegsRel (caseIndex [false, false, false, false, false, false, false, false]) = [] := by decide
  simp only [cellEdges, e, z, List.map_nil]

theorem corner_inside_of_ne_nil_aux (s : Pt → Bool) (p : Pt) (h : cellEdges s p ≠ []) :
    ∃ i, i < 8 ∧ s (padd p (cornerOff i)) = true := by
  by_contra hc
  apply h; apply cellEdges_nil_aux
  intro i hi
  cases hs : s (padd p (cornerOff i)) with
  | false => rfl
  | true => exact absurd ⟨i, hi, hs⟩ hc

theorem flatMap_filter_ne_nil_aux {α β : Type} (L : List α) (g : α → List β) :
    L.flatMap g = (L.filter fun a => !(g a).isEmpty).flatMap g := by
  induction L with
  | nil => rfl
  | cons a L ih =>
    rw [List.flatMap_cons, List.filter_cons]
    cases h : (g a).isEmpty with
    | true => simp only [Bool.not_true, Bool.false_eq_true, if_false]; rw [List.isEmpty_iff.mp h, List.nil_append, ih]
    | false => simp only [Bool.not_false, if_true, List.flatMap_cons]; rw [ih]

/-- for a cell of the block: the emission is the stored grid's `cellEdges` when the cell is fetched, nothing when skipped -/
theorem cellEmit_eq_aux {α : Type} (bl : Blocks α) (val : α → Bool) (b : Pt) (l : Int × Int × Int) (hl : l ∈ localCells) :
    cellEmit bl val b l = if (fetchCell bl b l.1 l.2.1 l.2.2).isSome then
      cellEdges (storedSign bl val) (globalOf b l.1 l.2.1 l.2.2) else [] := by
  have hr := (mem_localCells_aux l).mp hl
  unfold cellEmit
  cases h : fetchCell bl b l.1 l.2.1 l.2.2 with
  | none => simp
  | some cs =>
    have hb := fetched_bits_aux bl val b l.1 l.2.1 l.2.2 (by simpa [marchingSectionSize] using hr.1)
      (by simpa [marchingSectionSize] using hr.2.1) (by simpa [marchingSectionSize] using hr.2.2) cs h
    simp only [Option.isSome_some, if_true, cellEdges, hb]

/-- (block, local cell) pairs the marcher iterates over -/
def visitPairs (bs : List Pt) : List (Pt × (Int × Int × Int)) := bs.flatMap fun b => localCells.map fun l => (b, l)

def pairCell (x : Pt × (Int × Int × Int)) : Pt := globalOf x.1 x.2.1 x.2.2.1 x.2.2.2

theorem marchedEdges_pairs_aux {α : Type} (bl : Blocks α) (val : α → Bool) (bs : List Pt) :
    marchedEdges bl val bs = (visitPairs bs).flatMap fun x => cellEmit bl val x.1 x.2 := by
  simp only [marchedEdges, visitPairs, List.flatMap_assoc, List.flatMap_map]

theorem globalOf_inj_aux (b b' : Pt) (l l' : Int × Int × Int) (hl : l ∈ localCells) (hl' : l' ∈ localCells)
    (h : globalOf b l.1 l.2.1 l.2.2 = globalOf b' l'.1 l'.2.1 l'.2.2) : b = b' ∧ l = l' := by
  have r := (mem_localCells_aux l).mp hl; have r' := (mem_localCells_aux l').mp hl'
  obtain ⟨b1, b2, b3⟩ := b; obtain ⟨c1, c2, c3⟩ := b'; obtain ⟨x, y, z⟩ := l; obtain ⟨x', y', z'⟩ := l'
  simp only [globalOf, marchingSectionSize, Prod.mk.injEq] at h r r' ⊢
  omega

theorem visited_nodup_aux (bs : List Pt) (hbs : bs.Nodup) : ((visitPairs bs).map pairCell).Nodup := by
  have e : (visitPairs bs).map pairCell = bs.flatMap fun b => localCells.map fun l => globalOf b l.1 l.2.1 l.2.2 := by
    simp only [visitPairs, List.map_flatMap, List.map_map]; rfl
  rw [e, List.nodup_flatMap]
  refine ⟨fun b _ => ?_, ?_⟩
  · refine List.Nodup.map_on ?_ (boxCells_nodup_aux _ _ _ _)
    intro l hl l' hl' h
    exact (globalOf_inj_aux b b l l' hl hl' h).2
  · refine List.Pairwise.imp ?_ hbs
    intro b b' hne q h1 h2
    obtain ⟨l, hl, rfl⟩ := List.mem_map.mp h1
    obtain ⟨l', hl', h⟩ := List.mem_map.mp h2
    exact hne (globalOf_inj_aux b' b l' l hl' hl h).1.symm

theorem decompose_aux (p : Pt) :
    (p.1 % 100, p.2.1 % 100, p.2.2 % 100) ∈ localCells ∧
    globalOf (chunkOf p) (p.1 % 100) (p.2.1 % 100) (p.2.2 % 100) = p := by
  obtain ⟨x, y, z⟩ := p
  refine ⟨(mem_localCells_aux _).mpr (by simp only; omega), ?_⟩
  simp only [globalOf, chunkOf, marchingSectionSize, Prod.mk.injEq]; omega

/-- hypotheses: `bs` enumerates the allocated blocks once; the inside region of the stored grid lies strictly inside the
    box; every inside sample has the blocks of its 3×3×3 lattice neighbourhood allocated -/
structure MarchHyp {α : Type} (bl : Blocks α) (val : α → Bool) (bs : List Pt) (o : Pt) (nx ny nz : Nat) : Prop where
  nodup : bs.Nodup
  alloc : ∀ b, (bl b).isSome ↔ b ∈ bs
  inBox : ∀ q, storedSign bl val q = true →
    (o.1 < q.1 ∧ q.1 < o.1 + nx) ∧ (o.2.1 < q.2.1 ∧ q.2.1 < o.2.1 + ny) ∧ (o.2.2 < q.2.2 ∧ q.2.2 < o.2.2 + nz)
  padded : ∀ q, storedSign bl val q = true → ∀ d : Pt, -1 ≤ d.1 → d.1 ≤ 1 → -1 ≤ d.2.1 → d.2.1 ≤ 1 → -1 ≤ d.2.2 → d.2.2 ≤ 1 →
    (bl (chunkOf (padd q d))).isSome

theorem corner_off_bounds_aux : ∀ k, k < 8 → (0 ≤ (cornerOff k).1 ∧ (cornerOff k).1 ≤ 1) ∧
    (0 ≤ (cornerOff k).2.1 ∧ (cornerOff k).2.1 ≤ 1) ∧ (0 ≤ (cornerOff k).2.2 ∧ (cornerOff k).2.2 ≤ 1) := by decide

theorem visited_mem_iff_aux {α : Type} (bl : Blocks α) (val : α → Bool) (bs : List Pt) (o : Pt) (nx ny nz : Nat)
    (H : MarchHyp bl val bs o nx ny nz) (p : Pt) :
    p ∈ ((visitPairs bs).filter fun x => !(cellEmit bl val x.1 x.2).isEmpty).map pairCell ↔
    p ∈ (boxCells o nx ny nz).filter fun q => !(cellEdges (storedSign bl val) q).isEmpty := by
  constructor
  · intro hp
    obtain ⟨x, hx, rfl⟩ := List.mem_map.mp hp
    obtain ⟨hxV, hne⟩ := List.mem_filter.mp hx
    obtain ⟨b, hb, hxl⟩ := List.mem_flatMap.mp hxV
    obtain ⟨l, hl, rfl⟩ := List.mem_map.mp hxl
    rw [cellEmit_eq_aux bl val b l hl] at hne
    have hg : cellEdges (storedSign bl val) (globalOf b l.1 l.2.1 l.2.2) ≠ [] := by
      intro h0; split_ifs at hne <;> simp_all
    obtain ⟨i, hi, hs⟩ := corner_inside_of_ne_nil_aux _ _ hg
    have hq := H.inBox _ hs
    have ob := corner_off_bounds_aux i hi
    refine List.mem_filter.mpr ⟨(mem_boxCells_aux _ _ _ _ _).mpr ?_, ?_⟩
    · simp only [pairCell, padd] at hq ⊢; omega
    · simp only [pairCell]; cases h : (cellEdges (storedSign bl val) (globalOf b l.1 l.2.1 l.2.2)).isEmpty with
      | true => exact absurd (List.isEmpty_iff.mp h) hg
      | false => rfl
  · intro hp
    obtain ⟨hbox, hne⟩ := List.mem_filter.mp hp
    have hg : cellEdges (storedSign bl val) p ≠ [] := by
      intro h0; rw [h0] at hne; simp at hne
    obtain ⟨i, hi, hs⟩ := corner_inside_of_ne_nil_aux _ _ hg
    have ob := corner_off_bounds_aux i hi
    obtain ⟨hl, hglob⟩ := decompose_aux p
    -- every corner j of the cell is within one step of the inside corner i
    have hall : ∀ j, j < 8 → (globalAt bl (padd p (cornerOff j))).isSome := by
      intro j hj
      have oj := corner_off_bounds_aux j hj
      have := H.padded _ hs (padd (cornerOff j) ((-(cornerOff i).1), (-(cornerOff i).2.1), (-(cornerOff i).2.2)))
        (by simp only [padd]; omega) (by simp only [padd]; omega) (by simp only [padd]; omega)
        (by simp only [padd]; omega) (by simp only [padd]; omega) (by simp only [padd]; omega)
      have heq : padd (padd p (cornerOff i)) (padd (cornerOff j) ((-(cornerOff i).1), (-(cornerOff i).2.1), (-(cornerOff i).2.2)))
          = padd p (cornerOff j) := by
        simp only [padd, Prod.mk.injEq]; refine ⟨?_, ?_, ?_⟩ <;> ring
      rw [heq] at this
      unfold globalAt; rw [Option.isSome_map]; exact this
    have hblock : chunkOf p ∈ bs := by
      have := H.padded _ hs ((-(cornerOff i).1), (-(cornerOff i).2.1), (-(cornerOff i).2.2))
        (by simp only; omega) (by simp only; omega) (by simp only; omega) (by simp only; omega) (by simp only; omega)
        (by simp only; omega)
      have heq : padd (padd p (cornerOff i)) ((-(cornerOff i).1), (-(cornerOff i).2.1), (-(cornerOff i).2.2)) = p := by
        obtain ⟨x, y, z⟩ := p; simp only [padd, Prod.mk.injEq]; refine ⟨?_, ?_, ?_⟩ <;> ring
      rw [heq] at this
      exact (H.alloc _).mp this
    have hr := (mem_localCells_aux _).mp hl
    have hfetch : (fetchCell bl (chunkOf p) (p.1 % 100) (p.2.1 % 100) (p.2.2 % 100)).isSome := by
      rw [fetchCell_eq_global bl (chunkOf p) _ _ _ (by simpa [marchingSectionSize] using hr.1)
        (by simpa [marchingSectionSize] using hr.2.1) (by simpa [marchingSectionSize] using hr.2.2), hglob]
      obtain ⟨cs, hcs⟩ := mapM_some_aux (fun i => globalAt bl (padd p (cornerOff i))) (List.range 8)
        (fun j hj => hall j (List.mem_range.mp hj))
      rw [hcs]; rfl
    refine List.mem_map.mpr ⟨(chunkOf p, (p.1 % 100, p.2.1 % 100, p.2.2 % 100)), List.mem_filter.mpr ⟨?_, ?_⟩, hglob⟩
    · exact List.mem_flatMap.mpr ⟨chunkOf p, hblock, List.mem_map.mpr ⟨_, hl, rfl⟩⟩
    · rw [cellEmit_eq_aux bl val _ _ hl]
      simp only [hfetch, if_true, hglob]
      exact hne

/-- **Exactly the cells the real marcher visits.**  Under `MarchHyp` (blocks enumerated once in any order; inside region of
    the stored grid strictly inside the box; one-cell padding allocated), the directed edges `marchFloat1` emits — every
    allocated block, every one of its 100³ cells, skipped when a corner block is missing, case index from the FETCHED
    values — are, as a multiset, exactly the box's `boxEdges` for the stored grid's sign pattern.
    (Assembles `fetchCell_eq_global`, the skipped-cells argument, "row 0 is empty" and the box enumeration.) -/
theorem marched_perm_box {α : Type} (bl : Blocks α) (val : α → Bool) (bs : List Pt) (o : Pt) (nx ny nz : Nat)
    (H : MarchHyp bl val bs o nx ny nz) :
    (marchedEdges bl val bs).Perm (boxEdges (storedSign bl val) o nx ny nz) := by
  rw [marchedEdges_pairs_aux, flatMap_filter_ne_nil_aux (visitPairs bs)]
  have hcongr : (((visitPairs bs).filter fun x => !(cellEmit bl val x.1 x.2).isEmpty).flatMap fun x => cellEmit bl val x.1 x.2)
      = (((visitPairs bs).filter fun x => !(cellEmit bl val x.1 x.2).isEmpty).map pairCell).flatMap
          (cellEdges (storedSign bl val)) := by
    rw [List.flatMap_map]
    apply List.flatMap_congr
    intro x hx
    obtain ⟨hxV, hne⟩ := List.mem_filter.mp hx
    obtain ⟨b, _, hxl⟩ := List.mem_flatMap.mp hxV
    obtain ⟨l, hl, rfl⟩ := List.mem_map.mp hxl
    rw [cellEmit_eq_aux bl val b l hl] at hne ⊢
    split_ifs at hne ⊢ with hf
    · rfl
    · simp at hne
  rw [hcongr]
  unfold boxEdges
  rw [flatMap_filter_ne_nil_aux (boxCells o nx ny nz)]
  apply List.Perm.flatMap_right
  rw [List.perm_ext_iff_of_nodup]
  · exact visited_mem_iff_aux bl val bs o nx ny nz H
  · exact ((visited_nodup_aux bs H.nodup).sublist (List.Sublist.map _ List.filter_sublist))
  · exact (boxCells_nodup_aux o nx ny nz).sublist List.filter_sublist

theorem boundaryOutside_of_inBox_aux {α : Type} (bl : Blocks α) (val : α → Bool) (bs : List Pt) (o : Pt) (nx ny nz : Nat)
    (H : MarchHyp bl val bs o nx ny nz) : BoundaryOutside (storedSign bl val) o nx ny nz := by
  intro q _ _ _ _ _ _ hb
  cases hs : storedSign bl val q with
  | false => rfl
  | true => have := H.inBox q hs; omega

theorem Balanced.of_perm_aux {V : Type} [DecidableEq V] {L M : List (V × V)} (h : L.Perm M) (hb : Balanced M) : Balanced L := by
  intro u v; rw [h.count_eq, h.count_eq]; exact hb u v

/-- **march_closed for the real iteration.**  What `marchFloat1` emits over all allocated blocks is a closed surface in
    lattice-edge ids: balanced, and no directed edge twice. -/
theorem marched_closed {α : Type} (bl : Blocks α) (val : α → Bool) (bs : List Pt) (o : Pt) (nx ny nz : Nat)
    (H : MarchHyp bl val bs o nx ny nz) :
    Balanced (marchedEdges bl val bs) ∧ (marchedEdges bl val bs).Nodup := by
  have hp := marched_perm_box bl val bs o nx ny nz H
  obtain ⟨hb, hn⟩ := march_closed (storedSign bl val) o nx ny nz (boundaryOutside_of_inBox_aux bl val bs o nx ny nz H)
  exact ⟨Balanced.of_perm_aux hp hb, hp.nodup_iff.mpr hn⟩

/-- non-vacuity of `MarchHyp`: one allocated block with a single inside sample in its middle -/
example : MarchHyp (fun b => if b = ((0 : Int), (0 : Int), (0 : Int)) then some (fun i => decide (i = bindex 50 50 50)) else none)
    id [(0, 0, 0)] (49, 49, 49) 2 2 2 := by
  have key : ∀ q : Pt, storedSign (fun b => if b = ((0 : Int), (0 : Int), (0 : Int)) then
      some (fun i => decide (i = bindex 50 50 50)) else none) id q = true → q = (50, 50, 50) := by
    intro q hq
    obtain ⟨x, y, z⟩ := q
    simp only [storedSign, globalAt, chunkOf, marchingSectionSize, bindex, Prod.mk.injEq] at hq
    by_cases hc : x / 100 = 0 ∧ y / 100 = 0 ∧ z / 100 = 0
    · simp [hc] at hq
      have hq' := of_decide_eq_true hq
      simp only [Prod.mk.injEq]; omega
    · simp [hc] at hq
  refine ⟨by simp, ?_, ?_, ?_⟩
  · intro b; by_cases h : b = (0, 0, 0) <;> simp [h]
  · intro q hq; rw [key q hq]; simp
  · intro q hq d h1 h2 h3 h4 h5 h6
    rw [key q hq]
    obtain ⟨d1, d2, d3⟩ := d
    simp only at h1 h2 h3 h4 h5 h6
    have e1 : (50 + d1) / 100 = 0 := by omega
    have e2 : (50 + d2) / 100 = 0 := by omega
    have e3 : (50 + d3) / 100 = 0 := by omega
    simp [chunkOf, padd, marchingSectionSize, e1, e2, e3]

/-- the code's inside test is `cubeCorners[i] < cutoff` for all eight corners (the extractor rejects any other test):
    `signOf` / `val` in the theorems above is the code's predicate -/
theorem table_inside_tests : insideTests = List.range 8 := by decide

/-! ## 12. The cell solid has non-negative volume for ALL interpolation parameters -/

/-- parameter assignment with one entry replaced -/
def upd (τ : Nat → ℝ) (e : Nat) (x : ℝ) : Nat → ℝ := fun i => if i = e then x else τ i

/-- `f` is affine in parameter `e` -/
def AffineIn (f : (Nat → ℝ) → ℝ) (e : Nat) : Prop :=
  ∀ τ x, f (upd τ e x) = (1 - x) * f (upd τ e 0) + x * f (upd τ e 1)

/-- all corners of the parameter cube over the edges `E` (other parameters as in `τ`) -/
def allCorners : List Nat → (Nat → ℝ) → List (Nat → ℝ)
  | [], τ => [τ]
  | e :: r, τ => allCorners r (upd τ e 0) ++ allCorners r (upd τ e 1)

theorem upd_self_aux (τ : Nat → ℝ) (e : Nat) : upd τ e (τ e) = τ := by
  funext i; unfold upd; split_ifs with h <;> simp [h]

/-- a multi-affine function that is ≥ 0 at the corners of the cube is ≥ 0 on the closed cube -/
theorem multiaffine_nonneg_aux (f : (Nat → ℝ) → ℝ) (E : List Nat) (hA : ∀ e ∈ E, AffineIn f e) :
    ∀ τ : Nat → ℝ, (∀ e ∈ E, 0 ≤ τ e ∧ τ e ≤ 1) → (∀ σ ∈ allCorners E τ, 0 ≤ f σ) → 0 ≤ f τ := by
  induction E with
  | nil => intro τ _ h; exact h τ (by simp [allCorners])
  | cons e r ih =>
    intro τ hτ hc
    have ihr := ih (fun e' he' => hA e' (List.mem_cons_of_mem _ he'))
    have hb : ∀ b : ℝ, 0 ≤ b ∧ b ≤ 1 → ∀ e' ∈ r, 0 ≤ upd τ e b e' ∧ upd τ e b e' ≤ 1 := by
      intro b hb e' he'
      unfold upd; split_ifs
      · exact hb
      · exact hτ e' (List.mem_cons_of_mem _ he')
    have h0 := ihr (upd τ e 0) (hb 0 ⟨le_refl _, zero_le_one⟩)
      (fun σ hσ => hc σ (by simp only [allCorners, List.mem_append]; exact Or.inl hσ))
    have h1 := ihr (upd τ e 1) (hb 1 ⟨zero_le_one, le_refl _⟩)
      (fun σ hσ => hc σ (by simp only [allCorners, List.mem_append]; exact Or.inr hσ))
    have hx := hτ e List.mem_cons_self
    have := hA e List.mem_cons_self τ (τ e)
    rw [upd_self_aux] at this
    rw [this]
    have a1 : 0 ≤ 1 - τ e := by linarith [hx.2]
    nlinarith [mul_nonneg a1 h0, mul_nonneg hx.1 h1]

/-- … and > 0 in the open cube as soon as one corner value is positive -/
theorem multiaffine_pos_aux (f : (Nat → ℝ) → ℝ) (E : List Nat) (hA : ∀ e ∈ E, AffineIn f e) :
    ∀ τ : Nat → ℝ, E.Nodup → (∀ e ∈ E, 0 < τ e ∧ τ e < 1) → (∀ σ ∈ allCorners E τ, 0 ≤ f σ) →
      (∃ σ ∈ allCorners E τ, 0 < f σ) → 0 < f τ := by
  induction E with
  | nil => intro τ _ _ _ h; obtain ⟨σ, hσ, hp⟩ := h; simp [allCorners] at hσ; rw [← hσ]; exact hp
  | cons e r ih =>
    intro τ hnd hτ hc hp
    obtain ⟨her, hndr⟩ := List.nodup_cons.mp hnd
    have hA' : ∀ e' ∈ r, AffineIn f e' := fun e' he' => hA e' (List.mem_cons_of_mem _ he')
    have hst : ∀ b : ℝ, ∀ e' ∈ r, 0 < upd τ e b e' ∧ upd τ e b e' < 1 := by
      intro b e' he'
      have hne : e' ≠ e := fun h => her (h ▸ he')
      unfold upd; rw [if_neg hne]; exact hτ e' (List.mem_cons_of_mem _ he')
    have hbo : ∀ b : ℝ, ∀ e' ∈ r, 0 ≤ upd τ e b e' ∧ upd τ e b e' ≤ 1 :=
      fun b e' he' => ⟨(hst b e' he').1.le, (hst b e' he').2.le⟩
    have c0 : ∀ σ ∈ allCorners r (upd τ e 0), 0 ≤ f σ :=
      fun σ hσ => hc σ (by simp only [allCorners, List.mem_append]; exact Or.inl hσ)
    have c1 : ∀ σ ∈ allCorners r (upd τ e 1), 0 ≤ f σ :=
      fun σ hσ => hc σ (by simp only [allCorners, List.mem_append]; exact Or.inr hσ)
    have n0 := multiaffine_nonneg_aux f r hA' (upd τ e 0) (hbo 0) c0
    have n1 := multiaffine_nonneg_aux f r hA' (upd τ e 1) (hbo 1) c1
    have hx := hτ e List.mem_cons_self
    have := hA e List.mem_cons_self τ (τ e)
    rw [upd_self_aux] at this
    rw [this]
    have a1 : 0 < 1 - τ e := by linarith [hx.2]
    obtain ⟨σ, hσ, hpos⟩ := hp
    simp only [allCorners, List.mem_append] at hσ
    rcases hσ with hσ | hσ
    · have p0 := ih hA' (upd τ e 0) hndr (hst 0) c0 ⟨σ, hσ, hpos⟩
      nlinarith [mul_pos a1 p0, mul_nonneg hx.1.le n1]
    · have p1 := ih hA' (upd τ e 1) hndr (hst 1) c1 ⟨σ, hσ, hpos⟩
      nlinarith [mul_nonneg a1.le n0, mul_pos hx.1 p1]

/-! ### the real volume of a triangle list of the cell polyhedron -/

/-- position of polyhedron vertex `id` under the parameter assignment `τ` (`τ e` = position of the vertex of cube edge `e`
    between the low (0) and the high (1) end of the edge) -/
noncomputable def vposR (τ : Nat → ℝ) (id : Nat) : V3 ℝ :=
  if id < 12 then V3.Add (ptR (edgeRel id).1) (V3.Scale (ptR (unit (edgeRel id).2)) (τ id)) else ptR (cornerOff (id - 12))

/-- six times the signed volume of a triangle list against the cell's low corner -/
noncomputable def vol6R (T : List (Nat × Nat × Nat)) (τ : Nat → ℝ) : ℝ :=
  (T.map fun t => det3 (vposR τ t.1) (vposR τ t.2.1) (vposR τ t.2.2)).sum

theorem vposR_upd_ne_aux (τ : Nat → ℝ) (e : Nat) (x : ℝ) (id : Nat) (h : id ≠ e) : vposR (upd τ e x) id = vposR τ id := by
  simp [vposR, upd, h]

theorem det_affine_aux (t : Nat × Nat × Nat) (hd : t.1 ≠ t.2.1 ∧ t.1 ≠ t.2.2 ∧ t.2.1 ≠ t.2.2) (e : Nat) :
    AffineIn (fun τ => det3 (vposR τ t.1) (vposR τ t.2.1) (vposR τ t.2.2)) e := by
  intro τ x
  obtain ⟨i, j, k⟩ := t
  simp only at hd ⊢
  by_cases hi : i = e
  · subst hi
    rw [vposR_upd_ne_aux τ i x j (Ne.symm hd.1), vposR_upd_ne_aux τ i x k (Ne.symm hd.2.1),
      vposR_upd_ne_aux τ i 0 j (Ne.symm hd.1), vposR_upd_ne_aux τ i 0 k (Ne.symm hd.2.1),
      vposR_upd_ne_aux τ i 1 j (Ne.symm hd.1), vposR_upd_ne_aux τ i 1 k (Ne.symm hd.2.1)]
    simp only [vposR, upd, if_true]
    split_ifs <;> simp only [det3, V3.Dot, V3.Cross, V3.Add, V3.Scale] <;> ring
  · by_cases hj : j = e
    · subst hj
      rw [vposR_upd_ne_aux τ j x i hi, vposR_upd_ne_aux τ j x k (Ne.symm hd.2.2),
        vposR_upd_ne_aux τ j 0 i hi, vposR_upd_ne_aux τ j 0 k (Ne.symm hd.2.2),
        vposR_upd_ne_aux τ j 1 i hi, vposR_upd_ne_aux τ j 1 k (Ne.symm hd.2.2)]
      simp only [vposR, upd, if_true]
      split_ifs <;> simp only [det3, V3.Dot, V3.Cross, V3.Add, V3.Scale] <;> ring
    · by_cases hk : k = e
      · subst hk
        rw [vposR_upd_ne_aux τ k x i hi, vposR_upd_ne_aux τ k x j hj,
          vposR_upd_ne_aux τ k 0 i hi, vposR_upd_ne_aux τ k 0 j hj,
          vposR_upd_ne_aux τ k 1 i hi, vposR_upd_ne_aux τ k 1 j hj]
        simp only [vposR, upd, if_true]
        split_ifs <;> simp only [det3, V3.Dot, V3.Cross, V3.Add, V3.Scale] <;> ring
      · rw [vposR_upd_ne_aux τ e x i hi, vposR_upd_ne_aux τ e x j hj, vposR_upd_ne_aux τ e x k hk,
          vposR_upd_ne_aux τ e 0 i hi, vposR_upd_ne_aux τ e 0 j hj, vposR_upd_ne_aux τ e 0 k hk,
          vposR_upd_ne_aux τ e 1 i hi, vposR_upd_ne_aux τ e 1 j hj, vposR_upd_ne_aux τ e 1 k hk]
        ring

theorem vol6R_affine_aux (T : List (Nat × Nat × Nat))
    (hd : ∀ t ∈ T, t.1 ≠ t.2.1 ∧ t.1 ≠ t.2.2 ∧ t.2.1 ≠ t.2.2) (e : Nat) : AffineIn (vol6R T) e := by
  induction T with
  | nil => intro τ x; simp [vol6R]
  | cons t T ih =>
    intro τ x
    have h1 := det_affine_aux t (hd t List.mem_cons_self) e τ x
    have h2 := ih (fun t' ht' => hd t' (List.mem_cons_of_mem _ ht')) τ x
    simp only [vol6R, List.map_cons, List.sum_cons] at h2 ⊢
    simp only at h1
    rw [h1, h2]; ring

/-! ### corners of the real cube ↔ the enumerated corner sets -/

theorem corners_agree_aux (E : List Nat) : ∀ (τ : Nat → ℝ) (L : List Nat), E.Nodup → (∀ e ∈ E, e ∉ L) →
    ∀ σ ∈ allCorners E τ, ∃ M ∈ cornerSets E L,
      (∀ e ∈ E, σ e = if e ∈ M then 1 else 0) ∧ (∀ e, e ∉ E → σ e = τ e) ∧ (∀ e, e ∉ E → (e ∈ M ↔ e ∈ L)) := by
  induction E with
  | nil =>
    intro τ L _ _ σ hσ
    simp only [allCorners, List.mem_singleton] at hσ
    exact ⟨L, by simp [cornerSets], by simp, fun e _ => by rw [hσ], fun e _ => Iff.rfl⟩
  | cons e r ih =>
    intro τ L hnd hL σ hσ
    obtain ⟨her, hndr⟩ := List.nodup_cons.mp hnd
    have heL : e ∉ L := hL e List.mem_cons_self
    simp only [allCorners, List.mem_append] at hσ
    rcases hσ with hσ | hσ
    · obtain ⟨M, hM, h1, h2, h3⟩ := ih (upd τ e 0) L hndr (fun e' he' => hL e' (List.mem_cons_of_mem _ he')) σ hσ
      refine ⟨M, by simp only [cornerSets, List.mem_append]; exact Or.inl hM, ?_, ?_, ?_⟩
      · intro e' he'
        rcases List.mem_cons.mp he' with rfl | he'
        · have : e' ∉ M := fun h => heL ((h3 e' her).mp h)
          rw [h2 e' her, if_neg this]; simp [upd]
        · exact h1 e' he'
      · intro e' he'
        have hne : e' ≠ e := fun h => he' (h ▸ List.mem_cons_self)
        rw [h2 e' (fun h => he' (List.mem_cons_of_mem _ h))]; simp [upd, hne]
      · intro e' he'; exact h3 e' (fun h => he' (List.mem_cons_of_mem _ h))
    · obtain ⟨M, hM, h1, h2, h3⟩ := ih (upd τ e 1) (e :: L) hndr
        (fun e' he' h => by
          rcases List.mem_cons.mp h with rfl | h
          · exact her he'
          · exact hL e' (List.mem_cons_of_mem _ he') h) σ hσ
      refine ⟨M, by simp only [cornerSets, List.mem_append]; exact Or.inr hM, ?_, ?_, ?_⟩
      · intro e' he'
        rcases List.mem_cons.mp he' with rfl | he'
        · have : e' ∈ M := (h3 e' her).mpr List.mem_cons_self
          rw [h2 e' her, if_pos this]; simp [upd]
        · exact h1 e' he'
      · intro e' he'
        have hne : e' ≠ e := fun h => he' (h ▸ List.mem_cons_self)
        rw [h2 e' (fun h => he' (List.mem_cons_of_mem _ h))]; simp [upd, hne]
      · intro e' he'
        have hne : e' ≠ e := fun h => he' (h ▸ List.mem_cons_self)
        rw [h3 e' (fun h => he' (List.mem_cons_of_mem _ h))]
        simp [hne]

/-! ### value at a corner = the kernel-evaluated integer -/

theorem vposR_corner_aux (σ : Nat → ℝ) (M : List Nat) (id : Nat)
    (h : id < 12 → σ id = if id ∈ M then 1 else 0) : vposR σ id = ptR (vposI M id) := by
  unfold vposR vposI vposIk
  by_cases h12 : id < 12
  · simp only [h12, if_true, h h12]
    by_cases hm : id ∈ M
    · have hc : M.contains id = true := List.contains_iff_mem.mpr hm
      simp only [hm, hc, if_true, ptR, V3.Add, V3.Scale, V3.mk.injEq]
      refine ⟨?_, ?_, ?_⟩ <;> (push_cast; ring)
    · have hc : M.contains id = false := by
        cases hcc : M.contains id with
        | false => rfl
        | true => exact absurd (List.contains_iff_mem.mp hcc) hm
      simp only [hm, hc, if_false, Bool.false_eq_true, ptR, V3.Add, V3.Scale, V3.mk.injEq]
      refine ⟨?_, ?_, ?_⟩ <;> (push_cast; ring)
  · simp only [h12, if_false]

theorem det3_cast_aux (a b c : Pt) : det3 (ptR a) (ptR b) (ptR c) = ((det3I a b c : Int) : ℝ) := by
  simp only [det3, det3I, ptR, V3.Dot, V3.Cross]; push_cast; ring

theorem vol6R_corner_aux (T : List (Nat × Nat × Nat)) (σ : Nat → ℝ) (M : List Nat)
    (h : ∀ t ∈ T, ∀ id, (id = t.1 ∨ id = t.2.1 ∨ id = t.2.2) → id < 12 → σ id = if id ∈ M then 1 else 0) :
    vol6R T σ = ((vol6I T M : Int) : ℝ) := by
  induction T with
  | nil => simp [vol6R, vol6I, sumI]
  | cons t T ih =>
    have ht := h t List.mem_cons_self
    have ih' := ih (fun t' ht' => h t' (List.mem_cons_of_mem _ ht'))
    simp only [vol6R, vol6I, List.map_cons, List.sum_cons, sumI] at ih' ⊢
    rw [ih', vposR_corner_aux σ M t.1 (ht _ (Or.inl rfl)), vposR_corner_aux σ M t.2.1 (ht _ (Or.inr (Or.inl rfl))),
      vposR_corner_aux σ M t.2.2 (ht _ (Or.inr (Or.inr rfl))), det3_cast_aux]
    push_cast; ring

/-! ### from the fast natural-number evaluation to the integer volume -/

theorem pos_codes_aux (hi : Bool) (id : Nat) (h : id < 20) : vposCk hi id < 8 ∧ codePt (vposCk hi id) = vposIk hi id := by
  have T := Tab.table_pos_codes
  rw [List.all_eq_true] at T
  have := T id (List.mem_range.mpr h)
  simp only [decide_eq_true_eq] at this
  cases hi
  · exact ⟨this.2.1, this.2.2.2⟩
  · exact ⟨this.1, this.2.2.1⟩

theorem det_codes_aux (a b c : Nat) (ha : a < 8) (hb : b < 8) (hc : c < 8) :
    (Int.ofNat (detPosC a b c) - Int.ofNat (detNegC a b c)) = det3I (codePt a) (codePt b) (codePt c) := by
  have T := Tab.table_det_codes
  rw [List.all_eq_true] at T
  have := T (a * 64 + b * 8 + c) (List.mem_range.mpr (by omega))
  simp only [decide_eq_true_eq] at this
  have e1 : (a * 64 + b * 8 + c) / 64 = a := by omega
  have e2 : (a * 64 + b * 8 + c) / 8 % 8 = b := by omega
  have e3 : (a * 64 + b * 8 + c) % 8 = c := by omega
  rw [e1, e2, e3] at this
  exact this

theorem volShift_eq_aux (T : List (Nat × Nat × Nat)) (M : List Nat)
    (hid : ∀ t ∈ T, t.1 < 20 ∧ t.2.1 < 20 ∧ t.2.2 < 20) :
    Int.ofNat (volShift T M) = 3 * Int.ofNat T.length + vol6I T M := by
  induction T with
  | nil => simp [volShift, vol6I, sumN, sumI]
  | cons t T ih =>
    have ih' := ih (fun t' ht' => hid t' (List.mem_cons_of_mem _ ht'))
    obtain ⟨h1, h2, h3⟩ := hid t List.mem_cons_self
    obtain ⟨a8, ea⟩ := pos_codes_aux (M.contains t.1) t.1 h1
    obtain ⟨b8, eb⟩ := pos_codes_aux (M.contains t.2.1) t.2.1 h2
    obtain ⟨c8, ec⟩ := pos_codes_aux (M.contains t.2.2) t.2.2 h3
    have hd := det_codes_aux _ _ _ a8 b8 c8
    rw [ea, eb, ec] at hd
    have hn : detNegC (vposCk (M.contains t.1) t.1) (vposCk (M.contains t.2.1) t.2.1) (vposCk (M.contains t.2.2) t.2.2) < 4 :=
      Nat.mod_lt _ (by decide)
    have hd' : Int.ofNat (detPosC (vposCk (M.contains t.1) t.1) (vposCk (M.contains t.2.1) t.2.1) (vposCk (M.contains t.2.2) t.2.2))
        - Int.ofNat (detNegC (vposCk (M.contains t.1) t.1) (vposCk (M.contains t.2.1) t.2.1) (vposCk (M.contains t.2.2) t.2.2))
        = det3I (vposI M t.1) (vposI M t.2.1) (vposI M t.2.2) := hd
    simp only [volShift, vol6I, List.map_cons, sumN, sumI, List.length_cons] at ih' ⊢
    rw [← hd']
    generalize detPosC (vposCk (M.contains t.1) t.1) (vposCk (M.contains t.2.1) t.2.1) (vposCk (M.contains t.2.2) t.2.2) = pp at hn hd' ⊢
    generalize detNegC (vposCk (M.contains t.1) t.1) (vposCk (M.contains t.2.1) t.2.1) (vposCk (M.contains t.2.2) t.2.2) = nn at hn hd' ⊢
    have hsub : Int.ofNat (3 + pp - nn) = 3 + Int.ofNat pp - Int.ofNat nn := by
      simp only [Int.ofNat_eq_natCast]; omega
    simp only [Int.ofNat_eq_natCast] at hsub ih' ⊢
    push_cast
    rw [hsub, ih']; ring

theorem solid_sub_poly_aux (bits : List Bool) (t : Nat × Nat × Nat) (h : t ∈ solidTris bits) : t ∈ polyTris bits := by
  simp only [solidTris, polyTris, capTris, List.mem_append] at h ⊢
  tauto

theorem corner_value_nonneg_aux (b0 b1 b2 b3 b4 b5 b6 b7 : Bool) (M : List Nat)
    (hM : M ∈ cornerSets (crossEdges (bits8 b0 b1 b2 b3 b4 b5 b6 b7)) []) :
    3 * (solidTris (bits8 b0 b1 b2 b3 b4 b5 b6 b7)).length ≤ volShift (solidTris (bits8 b0 b1 b2 b3 b4 b5 b6 b7)) M := by
  cases b0 <;> cases b1
  · have := Tab.table_cell_volume_corners_ff b2 b3 b4 b5 b6 b7
    rw [List.all_eq_true] at this; simpa using this M hM
  · have := Tab.table_cell_volume_corners_ft b2 b3 b4 b5 b6 b7
    rw [List.all_eq_true] at this; simpa using this M hM
  · have := Tab.table_cell_volume_corners_tf b2 b3 b4 b5 b6 b7
    rw [List.all_eq_true] at this; simpa using this M hM
  · have := Tab.table_cell_volume_corners_tt b2 b3 b4 b5 b6 b7
    rw [List.all_eq_true] at this; simpa using this M hM

/-- **The cell solid has non-negative volume for all interpolation parameters.**  For every sign pattern and every
    position `τ e ∈ [0, 1]` of the vertex of each sign-changing cube edge `e` (0 = low end, 1 = high end), six times the
    signed volume — against the cell's low corner — of the table's triangles together with the cap triangles of the three
    high faces is ≥ 0.  (Multi-affine in the ≤ 12 parameters; the 36 450 corner values are kernel-evaluated.) -/
theorem cell_volume_nonneg (b0 b1 b2 b3 b4 b5 b6 b7 : Bool) (τ : Nat → ℝ)
    (hτ : ∀ e ∈ crossEdges (bits8 b0 b1 b2 b3 b4 b5 b6 b7), 0 ≤ τ e ∧ τ e ≤ 1) :
    0 ≤ vol6R (solidTris (bits8 b0 b1 b2 b3 b4 b5 b6 b7)) τ := by
  have wf := Tab.table_poly_wellformed b0 b1 b2 b3 b4 b5 b6 b7
  rw [List.all_eq_true] at wf
  have wf' : ∀ t ∈ solidTris (bits8 b0 b1 b2 b3 b4 b5 b6 b7),
      (t.1 ≠ t.2.1 ∧ t.1 ≠ t.2.2 ∧ t.2.1 ≠ t.2.2) ∧ (t.1 < 20 ∧ t.2.1 < 20 ∧ t.2.2 < 20) ∧
      ∀ id, (id = t.1 ∨ id = t.2.1 ∨ id = t.2.2) → id < 12 → id ∈ crossEdges (bits8 b0 b1 b2 b3 b4 b5 b6 b7) := by
    intro t ht
    have := wf t (solid_sub_poly_aux _ t ht)
    simp only [Bool.and_eq_true, bne_iff_ne, ne_eq, decide_eq_true_eq, List.all_cons, List.all_nil, Bool.and_true,
      Bool.or_eq_true, List.contains_iff_mem] at this
    obtain ⟨⟨⟨⟨⟨⟨d1, d2⟩, d3⟩, l1⟩, l2⟩, l3⟩, c1, c2, c3⟩ := this
    refine ⟨⟨d1, d2, d3⟩, ⟨l1, l2, l3⟩, ?_⟩
    rintro id (rfl | rfl | rfl) h12
    · rcases c1 with h | h; · omega
      exact h
    · rcases c2 with h | h; · omega
      exact h
    · rcases c3 with h | h; · omega
      exact h
  apply multiaffine_nonneg_aux (vol6R (solidTris (bits8 b0 b1 b2 b3 b4 b5 b6 b7))) (crossEdges (bits8 b0 b1 b2 b3 b4 b5 b6 b7))
    (fun e _ => vol6R_affine_aux _ (fun t ht => (wf' t ht).1) e) τ hτ
  intro σ hσ
  have hnd : (crossEdges (bits8 b0 b1 b2 b3 b4 b5 b6 b7)).Nodup := List.Nodup.filter _ List.nodup_range
  obtain ⟨M, hM, hag, _, _⟩ := corners_agree_aux _ τ [] hnd (fun _ _ => by simp) σ hσ
  rw [vol6R_corner_aux _ σ M (fun t ht id hid h12 => hag id ((wf' t ht).2.2 id hid h12))]
  have h1 := corner_value_nonneg_aux b0 b1 b2 b3 b4 b5 b6 b7 M hM
  have h2 := volShift_eq_aux (solidTris (bits8 b0 b1 b2 b3 b4 b5 b6 b7)) M (fun t ht => (wf' t ht).2.1)
  have : (0 : Int) ≤ vol6I (solidTris (bits8 b0 b1 b2 b3 b4 b5 b6 b7)) M := by
    simp only [Int.ofNat_eq_natCast] at h2; omega
  exact_mod_cast this

/-- non-vacuity: one inside corner, every vertex at the middle of its edge -/
example : 0 ≤ vol6R (solidTris (bits8 true false false false false false false false)) (fun _ => 1 / 2) :=
  cell_volume_nonneg _ _ _ _ _ _ _ _ _ (fun _ _ => by norm_num)

/-! ## 13. The cell polyhedron is closed; the low-face caps carry no volume -/

def edgeCode (e : Nat × Nat) : Nat := e.1 * 20 + e.2

theorem edgeCode_inj_aux (a b : Nat × Nat) (ha : a.1 < 20 ∧ a.2 < 20) (hb : b.1 < 20 ∧ b.2 < 20)
    (h : edgeCode a = edgeCode b) : a = b := by
  obtain ⟨a1, a2⟩ := a; obtain ⟨b1, b2⟩ := b
  simp only [edgeCode] at h ha hb ⊢
  simp only [Prod.mk.injEq]; omega

theorem count_code_aux (L : List (Nat × Nat)) (hL : ∀ e ∈ L, e.1 < 20 ∧ e.2 < 20) (a : Nat × Nat) (ha : a.1 < 20 ∧ a.2 < 20) :
    (L.map edgeCode).count (edgeCode a) = L.count a := by
  induction L with
  | nil => simp
  | cons x L ih =>
    have ihL := ih (fun e he => hL e (List.mem_cons_of_mem _ he))
    simp only [List.map_cons, List.count_cons, ihL]
    by_cases hx : x = a
    · subst hx; simp
    · have : edgeCode x ≠ edgeCode a := fun h => hx (edgeCode_inj_aux x a (hL x List.mem_cons_self) ha h)
      simp [hx, this]

theorem balanced_of_codes_aux (L : List (Nat × Nat)) (hL : ∀ e ∈ L, e.1 < 20 ∧ e.2 < 20)
    (h : balancedCodes (L.map edgeCode) = true) : Balanced L := by
  have key : ∀ e ∈ L, L.count e = L.count (e.2, e.1) := by
    intro e he
    unfold balancedCodes at h
    rw [List.all_eq_true] at h
    have := h (edgeCode e) (List.mem_map_of_mem he)
    have hr : revCode (edgeCode e) = edgeCode (e.2, e.1) := by
      have := hL e he; simp only [revCode, edgeCode]; omega
    rw [hr, count_code_aux L hL e (hL e he), count_code_aux L hL (e.2, e.1) ⟨(hL e he).2, (hL e he).1⟩] at this
    simpa using this
  intro u v
  by_cases h1 : (u, v) ∈ L
  · exact key _ h1
  · by_cases h2 : (v, u) ∈ L
    · exact (key _ h2).symm
    · rw [List.count_eq_zero_of_not_mem h1, List.count_eq_zero_of_not_mem h2]

theorem poly_codes_eq_aux (bits : List Bool) : polyEdgeCodes bits = ((polyTris bits).flatMap triEdges).map edgeCode := by
  simp only [polyEdgeCodes, List.map_flatMap, triEdges, List.map_cons, List.map_nil, edgeCode]

/-- **The cell polyhedron is closed**: for every sign pattern, every directed edge of `polyTris` (table triangles + the six
    caps) occurs exactly as often as its reverse -/
theorem poly_closed (b0 b1 b2 b3 b4 b5 b6 b7 : Bool) :
    Balanced ((polyTris (bits8 b0 b1 b2 b3 b4 b5 b6 b7)).flatMap triEdges) := by
  apply balanced_of_codes_aux
  · intro e he
    obtain ⟨t, ht, het⟩ := List.mem_flatMap.mp he
    have wf := Tab.table_poly_wellformed b0 b1 b2 b3 b4 b5 b6 b7
    rw [List.all_eq_true] at wf
    have := wf t ht
    simp only [Bool.and_eq_true, decide_eq_true_eq] at this
    obtain ⟨⟨⟨⟨_, l1⟩, l2⟩, l3⟩, _⟩ := this
    simp only [triEdges, List.mem_cons, List.not_mem_nil, or_false] at het
    rcases het with rfl | rfl | rfl <;> exact ⟨by assumption, by assumption⟩
  · rw [← poly_codes_eq_aux]
    cases b0 <;> cases b1
    · exact Tab.table_poly_closed_ff b2 b3 b4 b5 b6 b7
    · exact Tab.table_poly_closed_ft b2 b3 b4 b5 b6 b7
    · exact Tab.table_poly_closed_tf b2 b3 b4 b5 b6 b7
    · exact Tab.table_poly_closed_tt b2 b3 b4 b5 b6 b7

noncomputable def coordR (a : Nat) (v : V3 ℝ) : ℝ := if a = 0 then v.x else if a = 1 then v.y else v.z

theorem det3_planar_aux (a : Nat) (ha : a < 3) (u v w : V3 ℝ) (hu : coordR a u = 0) (hv : coordR a v = 0) (hw : coordR a w = 0) :
    det3 u v w = 0 := by
  interval_cases a <;> simp only [coordR] at hu hv hw <;> norm_num at hu hv hw <;>
    simp only [det3, V3.Dot, V3.Cross, hu, hv, hw] <;> ring

theorem vposR_planar_aux (τ : Nat → ℝ) (a : Nat) (ha : a < 3) (id : Nat)
    (h : (if id < 12 then decide ((edgeRel id).2 < 3) && (edgeRel id).2 != a && coord a (edgeRel id).1 == 0 else coord a (cornerOff (id - 12)) == 0) = true) :
    coordR a (vposR τ id) = 0 := by
  unfold vposR
  by_cases h12 : id < 12
  · simp only [h12, if_true, Bool.and_eq_true, bne_iff_ne, ne_eq, beq_iff_eq] at h ⊢
    obtain ⟨⟨h3, hax⟩, hlo⟩ := h
    simp only [decide_eq_true_eq] at h3
    generalize (edgeRel id).2 = ax at h3 hax ⊢
    interval_cases a <;> simp only [coord] at hlo <;> norm_num at hlo <;> interval_cases ax <;>
      simp_all [coordR, V3.Add, V3.Scale, ptR, unit]
  · simp only [h12, if_false, beq_iff_eq] at h ⊢
    interval_cases a <;> simp only [coord] at h <;> norm_num at h <;> simp [coordR, ptR, h]

theorem vol6R_append_aux (T U : List (Nat × Nat × Nat)) (τ : Nat → ℝ) : vol6R (T ++ U) τ = vol6R T τ + vol6R U τ := by
  simp [vol6R, List.map_append, List.sum_append]

/-- a low-face cap carries no volume against the cell's low corner -/
theorem low_cap_volume_zero (b0 b1 b2 b3 b4 b5 b6 b7 : Bool) (a : Nat) (ha : a < 3) (τ : Nat → ℝ) :
    vol6R (capTrisFace (bits8 b0 b1 b2 b3 b4 b5 b6 b7) a 0) τ = 0 := by
  have T := Tab.table_low_caps_planar b0 b1 b2 b3 b4 b5 b6 b7
  rw [List.all_eq_true] at T
  have Ta := T a (List.mem_range.mpr ha)
  rw [List.all_eq_true] at Ta
  unfold vol6R
  apply List.sum_eq_zero
  intro x hx
  obtain ⟨t, ht, rfl⟩ := List.mem_map.mp hx
  have := Ta t ht
  simp only [List.all_cons, List.all_nil, Bool.and_true, Bool.and_eq_true, decide_eq_true_eq] at this
  obtain ⟨⟨_, p1⟩, ⟨_, p2⟩, ⟨_, p3⟩⟩ := this
  exact det3_planar_aux a ha _ _ _ (vposR_planar_aux τ a ha _ p1) (vposR_planar_aux τ a ha _ p2) (vposR_planar_aux τ a ha _ p3)

/-- hence the volume of the closed cell polyhedron is the volume of `solidTris` -/
theorem poly_volume_eq_solid (b0 b1 b2 b3 b4 b5 b6 b7 : Bool) (τ : Nat → ℝ) :
    vol6R (polyTris (bits8 b0 b1 b2 b3 b4 b5 b6 b7)) τ = vol6R (solidTris (bits8 b0 b1 b2 b3 b4 b5 b6 b7)) τ := by
  simp only [polyTris, solidTris, capTris, vol6R_append_aux,
    low_cap_volume_zero b0 b1 b2 b3 b4 b5 b6 b7 0 (by decide) τ, low_cap_volume_zero b0 b1 b2 b3 b4 b5 b6 b7 1 (by decide) τ,
    low_cap_volume_zero b0 b1 b2 b3 b4 b5 b6 b7 2 (by decide) τ]
  ring

/-! ### strict positivity in the open parameter cube -/

theorem corners_converse_aux (E : List Nat) : ∀ (τ : Nat → ℝ) (L : List Nat), E.Nodup → (∀ e ∈ E, e ∉ L) →
    ∀ M ∈ cornerSets E L, ∃ σ ∈ allCorners E τ,
      (∀ e ∈ E, σ e = if e ∈ M then 1 else 0) ∧ (∀ e, e ∉ E → σ e = τ e) ∧ (∀ e, e ∉ E → (e ∈ M ↔ e ∈ L)) := by
  induction E with
  | nil =>
    intro τ L _ _ M hM
    simp only [cornerSets, List.mem_singleton] at hM
    exact ⟨τ, by simp [allCorners], by simp, fun e _ => rfl, fun e _ => by rw [hM]⟩
  | cons e r ih =>
    intro τ L hnd hL M hM
    obtain ⟨her, hndr⟩ := List.nodup_cons.mp hnd
    have heL : e ∉ L := hL e List.mem_cons_self
    simp only [cornerSets, List.mem_append] at hM
    rcases hM with hM | hM
    · obtain ⟨σ, hσ, h1, h2, h3⟩ := ih (upd τ e 0) L hndr (fun e' he' => hL e' (List.mem_cons_of_mem _ he')) M hM
      refine ⟨σ, by simp only [allCorners, List.mem_append]; exact Or.inl hσ, ?_, ?_, ?_⟩
      · intro e' he'
        rcases List.mem_cons.mp he' with rfl | he'
        · have : e' ∉ M := fun h => heL ((h3 e' her).mp h)
          rw [h2 e' her, if_neg this]; simp [upd]
        · exact h1 e' he'
      · intro e' he'
        have hne : e' ≠ e := fun h => he' (h ▸ List.mem_cons_self)
        rw [h2 e' (fun h => he' (List.mem_cons_of_mem _ h))]; simp [upd, hne]
      · intro e' he'; exact h3 e' (fun h => he' (List.mem_cons_of_mem _ h))
    · obtain ⟨σ, hσ, h1, h2, h3⟩ := ih (upd τ e 1) (e :: L) hndr
        (fun e' he' h => by
          rcases List.mem_cons.mp h with rfl | h
          · exact her he'
          · exact hL e' (List.mem_cons_of_mem _ he') h) M hM
      refine ⟨σ, by simp only [allCorners, List.mem_append]; exact Or.inr hσ, ?_, ?_, ?_⟩
      · intro e' he'
        rcases List.mem_cons.mp he' with rfl | he'
        · have : e' ∈ M := (h3 e' her).mpr List.mem_cons_self
          rw [h2 e' her, if_pos this]; simp [upd]
        · exact h1 e' he'
      · intro e' he'
        have hne : e' ≠ e := fun h => he' (h ▸ List.mem_cons_self)
        rw [h2 e' (fun h => he' (List.mem_cons_of_mem _ h))]; simp [upd, hne]
      · intro e' he'
        have hne : e' ≠ e := fun h => he' (h ▸ List.mem_cons_self)
        rw [h3 e' (fun h => he' (List.mem_cons_of_mem _ h))]
        simp [hne]

theorem solid_wf_aux (b0 b1 b2 b3 b4 b5 b6 b7 : Bool) : ∀ t ∈ solidTris (bits8 b0 b1 b2 b3 b4 b5 b6 b7),
    (t.1 ≠ t.2.1 ∧ t.1 ≠ t.2.2 ∧ t.2.1 ≠ t.2.2) ∧ (t.1 < 20 ∧ t.2.1 < 20 ∧ t.2.2 < 20) ∧
    ∀ id, (id = t.1 ∨ id = t.2.1 ∨ id = t.2.2) → id < 12 → id ∈ crossEdges (bits8 b0 b1 b2 b3 b4 b5 b6 b7) := by
  have wf := Tab.table_poly_wellformed b0 b1 b2 b3 b4 b5 b6 b7
  rw [List.all_eq_true] at wf
  intro t ht
  have := wf t (solid_sub_poly_aux _ t ht)
  simp only [Bool.and_eq_true, bne_iff_ne, ne_eq, decide_eq_true_eq, List.all_cons, List.all_nil, Bool.and_true,
    Bool.or_eq_true, List.contains_iff_mem] at this
  obtain ⟨⟨⟨⟨⟨⟨d1, d2⟩, d3⟩, l1⟩, l2⟩, l3⟩, c1, c2, c3⟩ := this
  refine ⟨⟨d1, d2, d3⟩, ⟨l1, l2, l3⟩, ?_⟩
  rintro id (rfl | rfl | rfl) h12
  · rcases c1 with h | h; · omega
    exact h
  · rcases c2 with h | h; · omega
    exact h
  · rcases c3 with h | h; · omega
    exact h

/-- **Strict positivity.**  If at least one corner of the cell is inside and every vertex lies strictly inside its edge, the
    cell solid has positive volume. -/
theorem cell_volume_pos (b0 b1 b2 b3 b4 b5 b6 b7 : Bool) (hmix : (b0 || b1 || b2 || b3 || b4 || b5 || b6 || b7) = true)
    (τ : Nat → ℝ) (hτ : ∀ e ∈ crossEdges (bits8 b0 b1 b2 b3 b4 b5 b6 b7), 0 < τ e ∧ τ e < 1) :
    0 < vol6R (solidTris (bits8 b0 b1 b2 b3 b4 b5 b6 b7)) τ := by
  have wf' := solid_wf_aux b0 b1 b2 b3 b4 b5 b6 b7
  have hnd : (crossEdges (bits8 b0 b1 b2 b3 b4 b5 b6 b7)).Nodup := List.Nodup.filter _ List.nodup_range
  have hval : ∀ (σ : Nat → ℝ) (M : List Nat), (∀ e ∈ crossEdges (bits8 b0 b1 b2 b3 b4 b5 b6 b7), σ e = if e ∈ M then 1 else 0) →
      vol6R (solidTris (bits8 b0 b1 b2 b3 b4 b5 b6 b7)) σ = ((vol6I (solidTris (bits8 b0 b1 b2 b3 b4 b5 b6 b7)) M : Int) : ℝ) :=
    fun σ M hag => vol6R_corner_aux _ σ M (fun t ht id hid h12 => hag id ((wf' t ht).2.2 id hid h12))
  have hshift := fun M => volShift_eq_aux (solidTris (bits8 b0 b1 b2 b3 b4 b5 b6 b7)) M (fun t ht => (wf' t ht).2.1)
  apply multiaffine_pos_aux (vol6R (solidTris (bits8 b0 b1 b2 b3 b4 b5 b6 b7))) (crossEdges (bits8 b0 b1 b2 b3 b4 b5 b6 b7))
    (fun e _ => vol6R_affine_aux _ (fun t ht => (wf' t ht).1) e) τ hnd hτ
  · intro σ hσ
    obtain ⟨M, hM, hag, _, _⟩ := corners_agree_aux _ τ [] hnd (fun _ _ => by simp) σ hσ
    rw [hval σ M hag]
    have h1 := corner_value_nonneg_aux b0 b1 b2 b3 b4 b5 b6 b7 M hM
    have h2 := hshift M
    have : (0 : Int) ≤ vol6I (solidTris (bits8 b0 b1 b2 b3 b4 b5 b6 b7)) M := by
      simp only [Int.ofNat_eq_natCast] at h2; omega
    exact_mod_cast this
  · have P := Tab.table_cell_volume_positive_corner b0 b1 b2 b3 b4 b5 b6 b7
    have hnot : (!b0 && !b1 && !b2 && !b3 && !b4 && !b5 && !b6 && !b7) = false := by
      revert hmix; cases b0 <;> cases b1 <;> cases b2 <;> cases b3 <;> cases b4 <;> cases b5 <;> cases b6 <;> cases b7 <;> simp
    rw [hnot, Bool.false_or, List.any_eq_true] at P
    obtain ⟨M, hM, hlt⟩ := P
    simp only [decide_eq_true_eq] at hlt
    obtain ⟨σ, hσ, hag, _, _⟩ := corners_converse_aux _ τ [] hnd (fun _ _ => by simp) M hM
    refine ⟨σ, hσ, ?_⟩
    rw [hval σ M hag]
    have h2 := hshift M
    have : (0 : Int) < vol6I (solidTris (bits8 b0 b1 b2 b3 b4 b5 b6 b7)) M := by
      simp only [Int.ofNat_eq_natCast] at h2; omega
    exact_mod_cast this

/-- position of the vertex on lattice edge `l` under a global parameter assignment (0 = low end, 1 = high end) -/
noncomputable def posL (τ : LEdge → ℝ) (l : LEdge) : V3 ℝ := V3.Add (ptR l.1) (V3.Scale (ptR (unit l.2)) (τ l))

/-- the full "enclosed volume is positive" statement in lattice-edge ids: box of cells with outside boundary layer, any sign
    pattern, every vertex strictly inside its lattice edge, non-empty surface ⇒ positive signed volume.
    PROVED below as `march_volume_positive` (per-cell solids ≥ 0 / > 0, closed cell polyhedra translated to their own low
    corners, caps of neighbouring cells cancelling, caps vanishing on the boundary layer). -/
def C09_volume_positive_full : Prop :=
  ∀ (s : Pt → Bool) (o : Pt) (nx ny nz : Nat), BoundaryOutside s o nx ny nz →
    ∀ τ : LEdge → ℝ, (∀ l, 0 < τ l ∧ τ l < 1) → boxTris s o nx ny nz ≠ [] →
      0 < volume6 (posL τ) ⟨0, 0, 0⟩ (boxTris s o nx ny nz)

/-! ## 14. The sum over the box: the marched surface encloses positive volume -/

instance instLawfulBEqSum_aux {α β : Type} [BEq α] [BEq β] [LawfulBEq α] [LawfulBEq β] : LawfulBEq (α ⊕ β) where
  eq_of_beq := by
    intro a b h
    cases a <;> cases b <;> first | (simp only [Sum.inl.injEq, Sum.inr.injEq]; exact eq_of_beq h) | (cases h)
  rfl := by
    intro a
    cases a with
    | inl x => show (x == x) = true; exact beq_self_eq_true x
    | inr x => show (x == x) = true; exact beq_self_eq_true x

section boxvol
variable (s : Pt → Bool) (τ : LEdge → ℝ)

/-- position of a global vertex: the vertex of a lattice edge, or a lattice point -/
noncomputable def gpos : RV → V3 ℝ
  | .inl l => posL τ l
  | .inr c => ptR c

/-- global vertex of polyhedron vertex `id` of the cell at `p` -/
def gid (p : Pt) (id : Nat) : RV := shiftRV p (rid id)
def gidTri (p : Pt) (t : Nat × Nat × Nat) : RV × RV × RV := (gid p t.1, gid p t.2.1, gid p t.2.2)

/-- the cell's view of the global parameters -/
noncomputable def localPar (p : Pt) : Nat → ℝ := fun e => τ (shiftL p (edgeRel e))

/-- Σ det over a list of global triangles (six times their signed volume against the origin) -/
noncomputable def detSum (T : List (RV × RV × RV)) : ℝ :=
  (T.map fun t => det3 (gpos τ t.1) (gpos τ t.2.1) (gpos τ t.2.2)).sum

theorem ptR_padd_aux (p q : Pt) : ptR (padd p q) = V3.Add (ptR p) (ptR q) := by
  simp only [ptR, padd, V3.Add, V3.mk.injEq]; refine ⟨?_, ?_, ?_⟩ <;> push_cast <;> ring

theorem gpos_gid_aux (p : Pt) (id : Nat) : gpos τ (gid p id) = V3.Add (ptR p) (vposR (localPar τ p) id) := by
  unfold gid rid vposR
  by_cases h : id < 12
  · simp only [h, if_true, shiftRV, gpos, posL, shiftL, localPar, ptR_padd_aux]
    simp only [V3.Add, V3.Scale, V3.mk.injEq]; refine ⟨?_, ?_, ?_⟩ <;> ring
  · simp only [h, if_false, shiftRV, gpos, ptR_padd_aux]

theorem detSum_append_aux (A B : List (RV × RV × RV)) : detSum τ (A ++ B) = detSum τ A + detSum τ B := by
  simp [detSum, List.map_append, List.sum_append]

theorem detSum_perm_aux {A B : List (RV × RV × RV)} (h : A.Perm B) : detSum τ A = detSum τ B := by
  unfold detSum; exact (h.map _).sum_eq

theorem det3_flip_aux (u v w : V3 ℝ) : det3 u w v = - det3 u v w := by
  simp only [det3, V3.Dot, V3.Cross]; ring

theorem detSum_flip_aux (A : List (RV × RV × RV)) : detSum τ (A.map flipTri) = - detSum τ A := by
  unfold detSum
  rw [List.map_map, ← sum_map_neg_aux]
  congr 1
  apply List.map_congr_left
  intro t _
  simp only [Function.comp, flipTri]
  exact det3_flip_aux _ _ _

/-- the closed cell polyhedron, in global coordinates, has the volume of its local copy -/
theorem cell_poly_sum_aux (p : Pt) (b0 b1 b2 b3 b4 b5 b6 b7 : Bool) :
    detSum τ ((polyTris (bits8 b0 b1 b2 b3 b4 b5 b6 b7)).map (gidTri p)) =
      vol6R (polyTris (bits8 b0 b1 b2 b3 b4 b5 b6 b7)) (localPar τ p) := by
  have inv := volume_translation_invariant (fun id => gpos τ (gid p id)) (polyTris (bits8 b0 b1 b2 b3 b4 b5 b6 b7))
    (poly_closed b0 b1 b2 b3 b4 b5 b6 b7) (ptR p)
  have hsub : ∀ v : V3 ℝ, V3.Sub (V3.Add (ptR p) v) (ptR p) = v := by
    intro v; cases v; simp [V3.Sub, V3.Add]
  have hz : ∀ v : V3 ℝ, V3.Sub v ⟨0, 0, 0⟩ = v := by intro v; cases v; simp [V3.Sub]
  simp only [volume6, gpos_gid_aux, hsub] at inv
  simp only [detSum, List.map_map, vol6R]
  rw [inv]
  congr 1
  apply List.map_congr_left
  intro t _
  simp only [Function.comp, gidTri, gpos_gid_aux, hz]

/-- canonical-cap sum of the lattice face ⟂`a` with lower corner `q` -/
noncomputable def Kap (a : Nat) (q : Pt) : ℝ := detSum τ ((capCanon a (latticeFaceBits s q a)).map (shiftTri q))

theorem shiftRV_shiftRV_aux (p q : Pt) (x : RV) : shiftRV p (shiftRV q x) = shiftRV (padd p q) x := by
  cases x with
  | inl l => simp [shiftRV, shiftL, padd_assoc_aux]
  | inr c => simp [shiftRV, padd_assoc_aux]

theorem shiftTri_shiftTri_aux (p q : Pt) (L : List (RV × RV × RV)) :
    (L.map (shiftTri q)).map (shiftTri p) = L.map (shiftTri (padd p q)) := by
  rw [List.map_map]; apply List.map_congr_left; intro t _
  simp only [Function.comp, shiftTri, shiftRV_shiftRV_aux]

theorem shiftTri_flip_aux (p : Pt) (L : List (RV × RV × RV)) :
    (L.map flipTri).map (shiftTri p) = (L.map (shiftTri p)).map flipTri := by
  rw [List.map_map, List.map_map]; apply List.map_congr_left; intro t _; rfl

theorem gidTri_eq_aux (p : Pt) (L : List (Nat × Nat × Nat)) : L.map (gidTri p) = (L.map ridTri).map (shiftTri p) := by
  rw [List.map_map]; apply List.map_congr_left; intro t _; rfl

/-- the cap the cell at `p` puts on its high face ⟂`a` is the canonical cap of the lattice face at `p + e_a` -/
theorem cap_high_aux (p : Pt) (a : Nat) (ha : a < 3) :
    detSum τ ((capTrisFace (cellBits s p) a 1).map (gidTri p)) = Kap s τ a (padd p (unit a)) := by
  have T := Tab.table_cap_canonical (s (padd p (cornerOff 0))) (s (padd p (cornerOff 1))) (s (padd p (cornerOff 2)))
    (s (padd p (cornerOff 3))) (s (padd p (cornerOff 4))) (s (padd p (cornerOff 5))) (s (padd p (cornerOff 6)))
    (s (padd p (cornerOff 7)))
  rw [List.all_eq_true] at T
  have Ta := T a (List.mem_range.mpr ha)
  simp only [Bool.and_eq_true, List.isPerm_iff] at Ta
  change ((capTrisFace (cellBits s p) a 1).map ridTri).Perm ((capCanon a (faceBits (cellBits s p) a 1)).map (shiftTri (unit a))) ∧ _ at Ta
  rw [gidTri_eq_aux, detSum_perm_aux τ (Ta.1.map (shiftTri p)), shiftTri_shiftTri_aux, faceBits_high_aux s p a ha]
  rfl

/-- … and the cap on its low face is the FLIPPED canonical cap of the lattice face at `p` -/
theorem cap_low_aux (p : Pt) (a : Nat) (ha : a < 3) :
    detSum τ ((capTrisFace (cellBits s p) a 0).map (gidTri p)) = - Kap s τ a p := by
  have T := Tab.table_cap_canonical (s (padd p (cornerOff 0))) (s (padd p (cornerOff 1))) (s (padd p (cornerOff 2)))
    (s (padd p (cornerOff 3))) (s (padd p (cornerOff 4))) (s (padd p (cornerOff 5))) (s (padd p (cornerOff 6)))
    (s (padd p (cornerOff 7)))
  rw [List.all_eq_true] at T
  have Ta := T a (List.mem_range.mpr ha)
  simp only [Bool.and_eq_true, List.isPerm_iff] at Ta
  change _ ∧ ((capTrisFace (cellBits s p) a 0).map ridTri).Perm ((capCanon a (faceBits (cellBits s p) a 0)).map flipTri) at Ta
  rw [gidTri_eq_aux, detSum_perm_aux τ (Ta.2.map (shiftTri p)), shiftTri_flip_aux, detSum_flip_aux, faceBits_low_aux s p a ha]
  rfl

/-- the table triangles of the cell, in global coordinates, are the cell's part of the marched surface -/
theorem cell_tris_sum_aux (p : Pt) :
    detSum τ ((caseTris (caseIndex (cellBits s p))).map (gidTri p)) = volume6 (posL τ) ⟨0, 0, 0⟩ (cellTris s p) := by
  have hl := table_tri_edges_lt (s (padd p (cornerOff 0))) (s (padd p (cornerOff 1))) (s (padd p (cornerOff 2)))
    (s (padd p (cornerOff 3))) (s (padd p (cornerOff 4))) (s (padd p (cornerOff 5))) (s (padd p (cornerOff 6)))
    (s (padd p (cornerOff 7)))
  rw [List.all_eq_true] at hl
  have hz : ∀ v : V3 ℝ, V3.Sub v ⟨0, 0, 0⟩ = v := by intro v; cases v; simp [V3.Sub]
  simp only [detSum, volume6, cellTris, List.map_map, hz]
  congr 1
  apply List.map_congr_left
  intro t ht
  have := hl t ht
  simp only [decide_eq_true_eq] at this
  simp only [Function.comp, gidTri, gid, rid, this.1, this.2.1, this.2.2, if_true, shiftRV, gpos]

/-- **Per-cell identity.**  The volume of the cell's closed polyhedron = its part of the marched surface + the canonical-cap
    sums of its three high lattice faces − those of its three low lattice faces -/
theorem cell_identity_aux (p : Pt) :
    vol6R (polyTris (cellBits s p)) (localPar τ p) =
      volume6 (posL τ) ⟨0, 0, 0⟩ (cellTris s p)
        + ((Kap s τ 0 (padd p (unit 0)) - Kap s τ 0 p) + (Kap s τ 1 (padd p (unit 1)) - Kap s τ 1 p)
          + (Kap s τ 2 (padd p (unit 2)) - Kap s τ 2 p)) := by
  have h := cell_poly_sum_aux τ p (s (padd p (cornerOff 0))) (s (padd p (cornerOff 1))) (s (padd p (cornerOff 2)))
    (s (padd p (cornerOff 3))) (s (padd p (cornerOff 4))) (s (padd p (cornerOff 5))) (s (padd p (cornerOff 6)))
    (s (padd p (cornerOff 7)))
  change detSum τ ((polyTris (cellBits s p)).map (gidTri p)) = vol6R (polyTris (cellBits s p)) (localPar τ p) at h
  rw [← h]
  simp only [polyTris, capTris, List.map_append, detSum_append_aux, cell_tris_sum_aux,
    cap_high_aux s τ p 0 (by decide), cap_high_aux s τ p 1 (by decide), cap_high_aux s τ p 2 (by decide),
    cap_low_aux s τ p 0 (by decide), cap_low_aux s τ p 1 (by decide), cap_low_aux s τ p 2 (by decide)]
  ring

theorem sum_flatMap_range_aux {β : Type} (n : Nat) (f : Nat → List β) (g : β → ℝ) :
    (((List.range n).flatMap f).map g).sum = ∑ i ∈ Finset.range n, ((f i).map g).sum := by
  induction n with
  | zero => simp
  | succ n ih =>
    rw [List.range_succ, List.flatMap_append, List.map_append, List.sum_append, ih, Finset.sum_range_succ]
    simp

theorem boxTris_eq_aux (o : Pt) (nx ny nz : Nat) :
    boxTris s o nx ny nz =
      (List.range nx).flatMap fun i => (List.range ny).flatMap fun j => (List.range nz).flatMap fun k =>
        cellTris s (cellAt o i j k) := by
  simp only [boxTris, boxCells, List.flatMap_assoc, List.flatMap_map, cellAt]

theorem volume_box_aux (o : Pt) (nx ny nz : Nat) :
    volume6 (posL τ) ⟨0, 0, 0⟩ (boxTris s o nx ny nz) =
      ∑ i ∈ Finset.range nx, ∑ j ∈ Finset.range ny, ∑ k ∈ Finset.range nz,
        volume6 (posL τ) ⟨0, 0, 0⟩ (cellTris s (cellAt o i j k)) := by
  unfold volume6
  rw [boxTris_eq_aux, sum_flatMap_range_aux]
  refine Finset.sum_congr rfl fun i _ => ?_
  rw [sum_flatMap_range_aux]
  refine Finset.sum_congr rfl fun j _ => ?_
  rw [sum_flatMap_range_aux]

theorem lfb0_boundary_aux {o : Pt} {nx ny nz : Nat} (hbd : BoundaryOutside s o nx ny nz) (i j k : Nat)
    (hi : i = 0 ∨ i = nx) (hj : j < ny) (hk : k < nz) :
    latticeFaceBits s (cellAt o i j k) 0 = [false, false, false, false] := by
  simp only [latticeFaceBits, planePts, List.map, embed, cellAt, padd]
  simp only [List.cons.injEq, and_true]
  refine ⟨?_, ?_, ?_, ?_⟩ <;> (apply hbd <;> simp <;> omega)

theorem lfb1_boundary_aux {o : Pt} {nx ny nz : Nat} (hbd : BoundaryOutside s o nx ny nz) (i j k : Nat)
    (hi : i < nx) (hj : j = 0 ∨ j = ny) (hk : k < nz) :
    latticeFaceBits s (cellAt o i j k) 1 = [false, false, false, false] := by
  simp only [latticeFaceBits, planePts, List.map, embed, cellAt, padd]
  simp only [List.cons.injEq, and_true]
  refine ⟨?_, ?_, ?_, ?_⟩ <;> (apply hbd <;> simp <;> omega)

theorem lfb2_boundary_aux {o : Pt} {nx ny nz : Nat} (hbd : BoundaryOutside s o nx ny nz) (i j k : Nat)
    (hi : i < nx) (hj : j < ny) (hk : k = 0 ∨ k = nz) :
    latticeFaceBits s (cellAt o i j k) 2 = [false, false, false, false] := by
  simp only [latticeFaceBits, planePts, List.map, embed, cellAt, padd]
  simp only [List.cons.injEq, and_true]
  refine ⟨?_, ?_, ?_, ?_⟩ <;> (apply hbd <;> simp <;> omega)

theorem Kap_zero_aux (a : Nat) (ha : a < 3) (q : Pt) (h : latticeFaceBits s q a = [false, false, false, false]) :
    Kap s τ a q = 0 := by
  have hc := Tab.table_cap_canon_empty
  unfold Kap; rw [h]
  interval_cases a
  · rw [hc.1]; simp [detSum]
  · rw [hc.2.1]; simp [detSum]
  · rw [hc.2.2]; simp [detSum]

/-- the canonical-cap sums telescope over the box and vanish on its boundary faces -/
theorem caps_telescope_aux {o : Pt} {nx ny nz : Nat} (hbd : BoundaryOutside s o nx ny nz) :
    ∑ i ∈ Finset.range nx, ∑ j ∈ Finset.range ny, ∑ k ∈ Finset.range nz,
      ((Kap s τ 0 (padd (cellAt o i j k) (unit 0)) - Kap s τ 0 (cellAt o i j k))
        + (Kap s τ 1 (padd (cellAt o i j k) (unit 1)) - Kap s τ 1 (cellAt o i j k))
        + (Kap s τ 2 (padd (cellAt o i j k) (unit 2)) - Kap s τ 2 (cellAt o i j k))) = 0 := by
  simp only [cellAt_succ0_aux, cellAt_succ1_aux, cellAt_succ2_aux, Finset.sum_add_distrib]
  have h0 : ∑ i ∈ Finset.range nx, ∑ j ∈ Finset.range ny, ∑ k ∈ Finset.range nz,
      (Kap s τ 0 (cellAt o (i+1) j k) - Kap s τ 0 (cellAt o i j k)) = 0 := by
    rw [Finset.sum_comm]
    refine Finset.sum_eq_zero fun j hj => ?_
    rw [Finset.sum_comm]
    refine Finset.sum_eq_zero fun k hk => ?_
    rw [Finset.sum_range_sub (fun i => Kap s τ 0 (cellAt o i j k))]
    rw [Kap_zero_aux s τ 0 (by decide) _ (lfb0_boundary_aux s hbd nx j k (Or.inr rfl) (Finset.mem_range.mp hj) (Finset.mem_range.mp hk)),
        Kap_zero_aux s τ 0 (by decide) _ (lfb0_boundary_aux s hbd 0 j k (Or.inl rfl) (Finset.mem_range.mp hj) (Finset.mem_range.mp hk))]
    simp
  have h1 : ∑ i ∈ Finset.range nx, ∑ j ∈ Finset.range ny, ∑ k ∈ Finset.range nz,
      (Kap s τ 1 (cellAt o i (j+1) k) - Kap s τ 1 (cellAt o i j k)) = 0 := by
    refine Finset.sum_eq_zero fun i hi => ?_
    rw [Finset.sum_comm]
    refine Finset.sum_eq_zero fun k hk => ?_
    rw [Finset.sum_range_sub (fun j => Kap s τ 1 (cellAt o i j k))]
    rw [Kap_zero_aux s τ 1 (by decide) _ (lfb1_boundary_aux s hbd i ny k (Finset.mem_range.mp hi) (Or.inr rfl) (Finset.mem_range.mp hk)),
        Kap_zero_aux s τ 1 (by decide) _ (lfb1_boundary_aux s hbd i 0 k (Finset.mem_range.mp hi) (Or.inl rfl) (Finset.mem_range.mp hk))]
    simp
  have h2 : ∑ i ∈ Finset.range nx, ∑ j ∈ Finset.range ny, ∑ k ∈ Finset.range nz,
      (Kap s τ 2 (cellAt o i j (k+1)) - Kap s τ 2 (cellAt o i j k)) = 0 := by
    refine Finset.sum_eq_zero fun i hi => ?_
    refine Finset.sum_eq_zero fun j hj => ?_
    rw [Finset.sum_range_sub (fun k => Kap s τ 2 (cellAt o i j k))]
    rw [Kap_zero_aux s τ 2 (by decide) _ (lfb2_boundary_aux s hbd i j nz (Finset.mem_range.mp hi) (Finset.mem_range.mp hj) (Or.inr rfl)),
        Kap_zero_aux s τ 2 (by decide) _ (lfb2_boundary_aux s hbd i j 0 (Finset.mem_range.mp hi) (Finset.mem_range.mp hj) (Or.inl rfl))]
    simp
  rw [h0, h1, h2]; simp

/-- **The volume enclosed by the marched surface is the sum of the volumes of the cell solids.** -/
theorem volume_box_eq_cells {o : Pt} {nx ny nz : Nat} (hbd : BoundaryOutside s o nx ny nz) :
    volume6 (posL τ) ⟨0, 0, 0⟩ (boxTris s o nx ny nz) =
      ∑ i ∈ Finset.range nx, ∑ j ∈ Finset.range ny, ∑ k ∈ Finset.range nz,
        vol6R (solidTris (cellBits s (cellAt o i j k))) (localPar τ (cellAt o i j k)) := by
  have hcell : ∀ p, vol6R (solidTris (cellBits s p)) (localPar τ p) =
      volume6 (posL τ) ⟨0, 0, 0⟩ (cellTris s p)
        + ((Kap s τ 0 (padd p (unit 0)) - Kap s τ 0 p) + (Kap s τ 1 (padd p (unit 1)) - Kap s τ 1 p)
          + (Kap s τ 2 (padd p (unit 2)) - Kap s τ 2 p)) := by
    intro p
    rw [← cell_identity_aux]
    exact (poly_volume_eq_solid (s (padd p (cornerOff 0))) (s (padd p (cornerOff 1))) (s (padd p (cornerOff 2)))
      (s (padd p (cornerOff 3))) (s (padd p (cornerOff 4))) (s (padd p (cornerOff 5))) (s (padd p (cornerOff 6)))
      (s (padd p (cornerOff 7))) (localPar τ p)).symm
  have hT := caps_telescope_aux s τ hbd
  simp only [Finset.sum_add_distrib] at hT
  simp only [hcell, Finset.sum_add_distrib]
  rw [volume_box_aux]
  linarith

/-- **The enclosed volume is non-negative**: box with outside boundary layer, any sign pattern, all interpolation parameters
    in `[0, 1]` -/
theorem march_volume_nonneg {o : Pt} {nx ny nz : Nat} (hbd : BoundaryOutside s o nx ny nz)
    (hτ : ∀ l, 0 ≤ τ l ∧ τ l ≤ 1) : 0 ≤ volume6 (posL τ) ⟨0, 0, 0⟩ (boxTris s o nx ny nz) := by
  rw [volume_box_eq_cells s τ hbd]
  refine Finset.sum_nonneg fun i _ => Finset.sum_nonneg fun j _ => Finset.sum_nonneg fun k _ => ?_
  exact cell_volume_nonneg _ _ _ _ _ _ _ _ _ (fun e _ => hτ _)

end boxvol

theorem cellTris_nil_aux (s : Pt → Bool) (p : Pt) (h : ∀ i, i < 8 → s (padd p (cornerOff i)) = false) : cellTris s p = [] := by
  have e : cellBits s p = [false, false, false, false, false, false, false, false] := by
    simp only [cellBits, h 0 (by decide), h 1 (by decide), h 2 (by decide), h 3 (by decide), h 4 (by decide),
      h 5 (by decide), h 6 (by decide), h 7 (by decide)]
  have z : caseTris (caseIndex [false, false, false, false, false, false, false, false]) = [] := by decide
  simp only [cellTris, e, z, List.map_nil]

/-- **march_volume_positive** — the clause "oriented outward so that the enclosed volume is positive", in lattice-edge ids:
    for every box of cells with outside boundary layer, every sign pattern, and all interpolation parameters strictly
    between 0 and 1, a non-empty marched surface has positive signed volume. -/
theorem march_volume_positive : C09_volume_positive_full := by
  intro s o nx ny nz hbd τ hτ hne
  rw [volume_box_eq_cells s τ hbd]
  have hnn : ∀ i j k, 0 ≤ vol6R (solidTris (cellBits s (cellAt o i j k))) (localPar τ (cellAt o i j k)) :=
    fun i j k => cell_volume_nonneg _ _ _ _ _ _ _ _ _ (fun e _ => ⟨(hτ _).1.le, (hτ _).2.le⟩)
  -- a cell with a triangle
  obtain ⟨t, ht⟩ := List.exists_mem_of_ne_nil _ hne
  rw [boxTris_eq_aux] at ht
  obtain ⟨i, hi, ht⟩ := List.mem_flatMap.mp ht
  obtain ⟨j, hj, ht⟩ := List.mem_flatMap.mp ht
  obtain ⟨k, hk, ht⟩ := List.mem_flatMap.mp ht
  have hmix : ∃ c, c < 8 ∧ s (padd (cellAt o i j k) (cornerOff c)) = true := by
    by_contra hc
    have : cellTris s (cellAt o i j k) = [] := by
      apply cellTris_nil_aux
      intro c hc8
      cases hs : s (padd (cellAt o i j k) (cornerOff c)) with
      | false => rfl
      | true => exact absurd ⟨c, hc8, hs⟩ hc
    rw [this] at ht; cases ht
  have hpos : 0 < vol6R (solidTris (cellBits s (cellAt o i j k))) (localPar τ (cellAt o i j k)) := by
    apply cell_volume_pos
    · obtain ⟨c, hc8, hs⟩ := hmix
      interval_cases c <;> simp [hs]
    · intro e _; exact hτ _
  calc (0 : ℝ) < vol6R (solidTris (cellBits s (cellAt o i j k))) (localPar τ (cellAt o i j k)) := hpos
    _ ≤ ∑ k' ∈ Finset.range nz, vol6R (solidTris (cellBits s (cellAt o i j k'))) (localPar τ (cellAt o i j k')) :=
        Finset.single_le_sum (f := fun k' => vol6R (solidTris (cellBits s (cellAt o i j k'))) (localPar τ (cellAt o i j k')))
          (fun k' _ => hnn i j k') hk
    _ ≤ ∑ j' ∈ Finset.range ny, ∑ k' ∈ Finset.range nz,
          vol6R (solidTris (cellBits s (cellAt o i j' k'))) (localPar τ (cellAt o i j' k')) :=
        Finset.single_le_sum (f := fun j' => ∑ k' ∈ Finset.range nz,
          vol6R (solidTris (cellBits s (cellAt o i j' k'))) (localPar τ (cellAt o i j' k')))
          (fun j' _ => Finset.sum_nonneg fun k' _ => hnn i j' k') hj
    _ ≤ _ :=
        Finset.single_le_sum (f := fun i' => ∑ j' ∈ Finset.range ny, ∑ k' ∈ Finset.range nz,
          vol6R (solidTris (cellBits s (cellAt o i' j' k'))) (localPar τ (cellAt o i' j' k')))
          (fun i' _ => Finset.sum_nonneg fun j' _ => Finset.sum_nonneg fun k' _ => hnn i' j' k') hi

/-! ### transfer through the weld (exact arithmetic: a position-preserving vertex identification) -/

theorem det3_repeat_aux (u v w : V3 ℝ) (h : u = v ∨ u = w ∨ v = w) : det3 u v w = 0 := by
  rcases h with rfl | rfl | rfl <;> (simp only [det3, V3.Dot, V3.Cross]; ring)

/-- welding with a vertex identification that preserves positions (`posW (φ v) = pos v`) does not change the signed volume:
    the dropped triangles have two corners at the same position -/
theorem weld_preserves_volume {V W : Type} [DecidableEq W] (φ : V → W) (pos : V → V3 ℝ) (posW : W → V3 ℝ)
    (hpos : ∀ v, posW (φ v) = pos v) (o : V3 ℝ) (tris : List (V × V × V)) :
    volume6 posW o (weldTris φ tris) = volume6 pos o tris := by
  set M := tris.map fun t => (φ t.1, φ t.2.1, φ t.2.2) with hM
  have hall : volume6 posW o M = volume6 pos o tris := by
    simp only [volume6, hM, List.map_map]
    congr 1; apply List.map_congr_left; intro t _
    simp only [Function.comp, hpos]
  have hperm : (M.filter nondegB ++ M.filter (fun t => !nondegB t)).Perm M := List.filter_append_perm nondegB M
  have hsum : volume6 posW o (M.filter nondegB) + volume6 posW o (M.filter fun t => !nondegB t) = volume6 posW o M := by
    unfold volume6
    rw [← List.sum_append, ← List.map_append]
    exact (hperm.map _).sum_eq
  have hdrop : volume6 posW o (M.filter fun t => !nondegB t) = 0 := by
    unfold volume6
    apply List.sum_eq_zero
    intro x hx
    obtain ⟨t, ht, rfl⟩ := List.mem_map.mp hx
    have hd := (List.mem_filter.mp ht).2
    simp only [nondegB, Bool.not_and, Bool.not_not, Bool.or_eq_true, beq_iff_eq] at hd
    apply det3_repeat_aux
    rcases hd with (h | h) | h
    · left; rw [h]
    · right; left; rw [h]
    · right; right; rw [h]
  unfold weldTris
  rw [← hall, ← hsum, hdrop, add_zero]

/-- **Positive volume of the welded mesh** (exact arithmetic): box with outside boundary layer, parameters strictly inside
    (0,1), non-empty surface, and a weld map that sends every lattice-edge vertex to a mesh vertex at the same position -/
theorem march_weld_volume_positive {W : Type} [DecidableEq W] (s : Pt → Bool) (o : Pt) (nx ny nz : Nat)
    (hbd : BoundaryOutside s o nx ny nz) (τ : LEdge → ℝ) (hτ : ∀ l, 0 < τ l ∧ τ l < 1) (hne : boxTris s o nx ny nz ≠ [])
    (φ : LEdge → W) (posW : W → V3 ℝ) (hpos : ∀ l, posW (φ l) = posL τ l) :
    0 < volume6 posW ⟨0, 0, 0⟩ (weldTris φ (boxTris s o nx ny nz)) := by
  rw [weld_preserves_volume φ (posL τ) posW hpos]
  exact march_volume_positive s o nx ny nz hbd τ hτ hne

/-- non-vacuity: one inside sample in a 2×2×2 box, every vertex at the middle of its edge — the surface is not empty -/
example : boxTris (fun q => decide (q = ((-1 : Int), (-1 : Int), (-1 : Int)))) (-2, -2, -2) 2 2 2 ≠ [] := by decide

/-! ## 15. The volume theorems for exactly the cells the real marcher visits -/

/-- what `marchFloat1BlockPosition` emits for one cell of block `b`, as triangles in lattice-edge ids -/
def cellEmitTris {α : Type} (bl : Blocks α) (val : α → Bool) (b : Pt) (l : Int × Int × Int) : List (LEdge × LEdge × LEdge) :=
  match fetchCell bl b l.1 l.2.1 l.2.2 with
  | none => []
  | some cs => (caseTris (caseIndex (cs.map val))).map fun t =>
      (shiftL (globalOf b l.1 l.2.1 l.2.2) (edgeRel t.1), shiftL (globalOf b l.1 l.2.1 l.2.2) (edgeRel t.2.1),
       shiftL (globalOf b l.1 l.2.1 l.2.2) (edgeRel t.2.2))

/-- `marchFloat1`: the triangle list over all allocated blocks (any order) and all their cells -/
def marchedTris {α : Type} (bl : Blocks α) (val : α → Bool) (bs : List Pt) : List (LEdge × LEdge × LEdge) :=
  bs.flatMap fun b => localCells.flatMap (cellEmitTris bl val b)

theorem marchedTris_pairs_aux {α : Type} (bl : Blocks α) (val : α → Bool) (bs : List Pt) :
    marchedTris bl val bs = (visitPairs bs).flatMap fun x => cellEmitTris bl val x.1 x.2 := by
  simp only [marchedTris, visitPairs, List.flatMap_assoc, List.flatMap_map]

theorem cellEmitTris_eq_aux {α : Type} (bl : Blocks α) (val : α → Bool) (b : Pt) (l : Int × Int × Int) (hl : l ∈ localCells) :
    cellEmitTris bl val b l = if (fetchCell bl b l.1 l.2.1 l.2.2).isSome then
      cellTris (storedSign bl val) (globalOf b l.1 l.2.1 l.2.2) else [] := by
  have hr := (mem_localCells_aux l).mp hl
  unfold cellEmitTris
  cases h : fetchCell bl b l.1 l.2.1 l.2.2 with
  | none => simp
  | some cs =>
    have hb := fetched_bits_aux bl val b l.1 l.2.1 l.2.2 (by simpa [marchingSectionSize] using hr.1)
      (by simpa [marchingSectionSize] using hr.2.1) (by simpa [marchingSectionSize] using hr.2.2) cs h
    simp only [Option.isSome_some, if_true, cellTris, hb]

theorem corner_inside_of_tris_ne_nil_aux (s : Pt → Bool) (p : Pt) (h : cellTris s p ≠ []) :
    ∃ i, i < 8 ∧ s (padd p (cornerOff i)) = true := by
  by_contra hc
  apply h; apply cellTris_nil_aux
  intro i hi
  cases hs : s (padd p (cornerOff i)) with
  | false => rfl
  | true => exact absurd ⟨i, hi, hs⟩ hc

theorem visited_mem_iff_tris_aux {α : Type} (bl : Blocks α) (val : α → Bool) (bs : List Pt) (o : Pt) (nx ny nz : Nat)
    (H : MarchHyp bl val bs o nx ny nz) (p : Pt) :
    p ∈ ((visitPairs bs).filter fun x => !(cellEmitTris bl val x.1 x.2).isEmpty).map pairCell ↔
    p ∈ (boxCells o nx ny nz).filter fun q => !(cellTris (storedSign bl val) q).isEmpty := by
  constructor
  · intro hp
    obtain ⟨x, hx, rfl⟩ := List.mem_map.mp hp
    obtain ⟨hxV, hne⟩ := List.mem_filter.mp hx
    obtain ⟨b, hb, hxl⟩ := List.mem_flatMap.mp hxV
    obtain ⟨l, hl, rfl⟩ := List.mem_map.mp hxl
    rw [cellEmitTris_eq_aux bl val b l hl] at hne
    have hg : cellTris (storedSign bl val) (globalOf b l.1 l.2.1 l.2.2) ≠ [] := by
      intro h0; split_ifs at hne <;> simp_all
    obtain ⟨i, hi, hs⟩ := corner_inside_of_tris_ne_nil_aux _ _ hg
    have hq := H.inBox _ hs
    have ob := corner_off_bounds_aux i hi
    refine List.mem_filter.mpr ⟨(mem_boxCells_aux _ _ _ _ _).mpr ?_, ?_⟩
    · simp only [pairCell, padd] at hq ⊢; omega
    · simp only [pairCell]; cases h : (cellTris (storedSign bl val) (globalOf b l.1 l.2.1 l.2.2)).isEmpty with
      | true => exact absurd (List.isEmpty_iff.mp h) hg
      | false => rfl
  · intro hp
    obtain ⟨hbox, hne⟩ := List.mem_filter.mp hp
    have hg : cellTris (storedSign bl val) p ≠ [] := by
      intro h0; rw [h0] at hne; simp at hne
    obtain ⟨i, hi, hs⟩ := corner_inside_of_tris_ne_nil_aux _ _ hg
    have ob := corner_off_bounds_aux i hi
    obtain ⟨hl, hglob⟩ := decompose_aux p
    -- every corner j of the cell is within one step of the inside corner i
    have hall : ∀ j, j < 8 → (globalAt bl (padd p (cornerOff j))).isSome := by
      intro j hj
      have oj := corner_off_bounds_aux j hj
      have := H.padded _ hs (padd (cornerOff j) ((-(cornerOff i).1), (-(cornerOff i).2.1), (-(cornerOff i).2.2)))
        (by simp only [padd]; omega) (by simp only [padd]; omega) (by simp only [padd]; omega)
        (by simp only [padd]; omega) (by simp only [padd]; omega) (by simp only [padd]; omega)
      have heq : padd (padd p (cornerOff i)) (padd (cornerOff j) ((-(cornerOff i).1), (-(cornerOff i).2.1), (-(cornerOff i).2.2)))
          = padd p (cornerOff j) := by
        simp only [padd, Prod.mk.injEq]; refine ⟨?_, ?_, ?_⟩ <;> ring
      rw [heq] at this
      unfold globalAt; rw [Option.isSome_map]; exact this
    have hblock : chunkOf p ∈ bs := by
      have := H.padded _ hs ((-(cornerOff i).1), (-(cornerOff i).2.1), (-(cornerOff i).2.2))
        (by simp only; omega) (by simp only; omega) (by simp only; omega) (by simp only; omega) (by simp only; omega)
        (by simp only; omega)
      have heq : padd (padd p (cornerOff i)) ((-(cornerOff i).1), (-(cornerOff i).2.1), (-(cornerOff i).2.2)) = p := by
        obtain ⟨x, y, z⟩ := p; simp only [padd, Prod.mk.injEq]; refine ⟨?_, ?_, ?_⟩ <;> ring
      rw [heq] at this
      exact (H.alloc _).mp this
    have hr := (mem_localCells_aux _).mp hl
    have hfetch : (fetchCell bl (chunkOf p) (p.1 % 100) (p.2.1 % 100) (p.2.2 % 100)).isSome := by
      rw [fetchCell_eq_global bl (chunkOf p) _ _ _ (by simpa [marchingSectionSize] using hr.1)
        (by simpa [marchingSectionSize] using hr.2.1) (by simpa [marchingSectionSize] using hr.2.2), hglob]
      obtain ⟨cs, hcs⟩ := mapM_some_aux (fun i => globalAt bl (padd p (cornerOff i))) (List.range 8)
        (fun j hj => hall j (List.mem_range.mp hj))
      rw [hcs]; rfl
    refine List.mem_map.mpr ⟨(chunkOf p, (p.1 % 100, p.2.1 % 100, p.2.2 % 100)), List.mem_filter.mpr ⟨?_, ?_⟩, hglob⟩
    · exact List.mem_flatMap.mpr ⟨chunkOf p, hblock, List.mem_map.mpr ⟨_, hl, rfl⟩⟩
    · rw [cellEmitTris_eq_aux bl val _ _ hl]
      simp only [hfetch, if_true, hglob]
      exact hne

/-- the triangle-list form of `marched_perm_box` -/
theorem marched_tris_perm_box {α : Type} (bl : Blocks α) (val : α → Bool) (bs : List Pt) (o : Pt) (nx ny nz : Nat)
    (H : MarchHyp bl val bs o nx ny nz) :
    (marchedTris bl val bs).Perm (boxTris (storedSign bl val) o nx ny nz) := by
  rw [marchedTris_pairs_aux, flatMap_filter_ne_nil_aux (visitPairs bs)]
  have hcongr : (((visitPairs bs).filter fun x => !(cellEmitTris bl val x.1 x.2).isEmpty).flatMap fun x => cellEmitTris bl val x.1 x.2)
      = (((visitPairs bs).filter fun x => !(cellEmitTris bl val x.1 x.2).isEmpty).map pairCell).flatMap
          (cellTris (storedSign bl val)) := by
    rw [List.flatMap_map]
    apply List.flatMap_congr
    intro x hx
    obtain ⟨hxV, hne⟩ := List.mem_filter.mp hx
    obtain ⟨b, _, hxl⟩ := List.mem_flatMap.mp hxV
    obtain ⟨l, hl, rfl⟩ := List.mem_map.mp hxl
    rw [cellEmitTris_eq_aux bl val b l hl] at hne ⊢
    split_ifs at hne ⊢ with hf
    · rfl
    · simp at hne
  rw [hcongr]
  unfold boxTris
  rw [flatMap_filter_ne_nil_aux (boxCells o nx ny nz)]
  apply List.Perm.flatMap_right
  rw [List.perm_ext_iff_of_nodup]
  · exact visited_mem_iff_tris_aux bl val bs o nx ny nz H
  · exact ((visited_nodup_aux bs H.nodup).sublist (List.Sublist.map _ List.filter_sublist))
  · exact (boxCells_nodup_aux o nx ny nz).sublist List.filter_sublist


/-- **Positive volume of exactly what the marcher emits** (lattice-edge ids, exact arithmetic): under `MarchHyp`, with every
    vertex strictly inside its lattice edge, a non-empty emitted triangle list has positive signed volume -/
theorem marched_volume_positive {α : Type} (bl : Blocks α) (val : α → Bool) (bs : List Pt) (o : Pt) (nx ny nz : Nat)
    (H : MarchHyp bl val bs o nx ny nz) (τ : LEdge → ℝ) (hτ : ∀ l, 0 < τ l ∧ τ l < 1) (hne : marchedTris bl val bs ≠ []) :
    0 < volume6 (posL τ) ⟨0, 0, 0⟩ (marchedTris bl val bs) := by
  have hp := marched_tris_perm_box bl val bs o nx ny nz H
  have hv : volume6 (posL τ) ⟨0, 0, 0⟩ (marchedTris bl val bs) = volume6 (posL τ) ⟨0, 0, 0⟩ (boxTris (storedSign bl val) o nx ny nz) := by
    unfold volume6; exact (hp.map _).sum_eq
  rw [hv]
  refine march_volume_positive _ o nx ny nz (boundaryOutside_of_inBox_aux bl val bs o nx ny nz H) τ hτ ?_
  intro h0; rw [h0] at hp; exact hne (List.Perm.eq_nil hp)

end C09
end PolyVerif
