/-
  C08 (round 2) — the ASCII claim stage for spec headers: `LocatedA` discharged from the decidable guard
  `specClaimGuard f ws && asciiGuard ws` (C04: `claim_of_guard_ws false`, `locatedA_of_good`); closed ASCII theorems.
-/
import PolyVerif.Props.C08Claim
import PolyVerif.Props.C08MeshAscii
import PolyVerif.Lemmas.PlyClaimAscii

namespace PolyVerif
namespace C08
open Ply PlySpec PlyLemmas PlyCompose PlyHeader PlyAscii PlyFaces PlyFacesAscii PlyClaim

variable {α : Type}

/-- the readers the ASCII branch of `MeshReader.Read` builds on the spec header, with the header positions of their names -/
def specClaimedA (f : SpecFile α) : List (Built × List Nat) :=
  (buildAll false (specProps f) defaultReaders true).map (fun b => (b, b.names.map (posOf (specProps f))))

/-- INSIDE THE GUARDS (`asciiGuard`: every 8-bit property is claimed by a vector reader — finding 3) every ASCII reader
built on the spec header reads the columns of its names and normalises iff its properties are 8-bit -/
theorem ply_spec_claim_located_ascii (f : SpecFile α) (ws : List WProp) (hg : specClaimGuard f ws = true)
    (hA : asciiGuard ws = true) :
    ∀ p ∈ specClaimedA f, LocatedA (f.vprops.map (·.ty)) p.1 p.2 := by
  obtain ⟨hp, hnd, hcg, _⟩ := specClaimGuard_parts f ws hg
  intro p hpm
  simp only [specClaimedA, List.mem_map] at hpm
  obtain ⟨b, hb, rfl⟩ := hpm
  have hty : f.vprops.map (·.ty) = (specProps f).map (·.2) := by simp [specProps, Function.comp_def]
  rw [hty, hp, wsProps_eq] at *
  exact (locatedA_of_good ws hnd b ((claim_of_guard_ws false ws hnd hcg (fun _ => hA)).1 b hb)).loc

/-- ASCII POINT-CLOUD FILES FROM FILE BYTES, CLOSED (laws `GoFloatText` + `SpecIntText` remain hypotheses) -/
theorem ply_reads_spec_pointcloud_ascii_bytes_closed (c : Coding α) (L : GoFloatText c) (Z : SpecIntText c) (f : SpecFile α)
    (ws : List WProp) (hok : SpecHeaderOK f) (hf : f.format = .ascii) (hprops : f.vprops ≠ []) (hface : f.face = none)
    (htyped : ∀ r ∈ f.verts, r.map Datum.ty = f.vprops.map (·.ty))
    (hrange : ∀ r ∈ f.verts, ∀ d ∈ r, Datum.InRange c L Z d)
    (hg : specClaimGuard f ws = true) (hA : asciiGuard ws = true) :
    readMesh c defaultReader (refEncode c f)
      = .ok (applyColumns ⟨.point, (List.range f.verts.length).map Int.ofNat, [], none⟩ ((specClaimedA f).map (·.1))
          (f.verts.map (rowOfS c L Z (specClaimedA f)))) :=
  ply_reads_spec_pointcloud_ascii_bytes c L Z f hok hf hprops hface htyped hrange (specClaimedA f)
    (by simp [specClaimedA, List.map_map, Function.comp_def]) (ply_spec_claim_located_ascii f ws hg hA)

/-- ASCII MESH FILES FROM FILE BYTES, CLOSED -/
theorem ply_reads_spec_mesh_ascii_bytes_closed (c : Coding α) (L : GoFloatText c) (Z : SpecIntText c) (f : SpecFile α)
    (fe : SpecFaceElem α) (ws : List WProp) (hok : SpecHeaderOK f) (hf : f.format = .ascii) (hprops : f.vprops ≠ [])
    (hface : f.face = some fe) (htex : fe.tex = none)
    (henc : ∀ fc ∈ fe.faces, FaceEncOK fe fc) (hsize : ∀ fc ∈ fe.faces, TriOrQuad fc)
    (htyped : ∀ r ∈ f.verts, r.map Datum.ty = f.vprops.map (·.ty))
    (hrange : ∀ r ∈ f.verts, ∀ d ∈ r, Datum.InRange c L Z d)
    (hg : specClaimGuard f ws = true) (hA : asciiGuard ws = true) :
    readMesh c defaultReader (refEncode c f)
      = .ok (applyColumns ⟨.triangle, fanIdx fe.faces, [], none⟩ ((specClaimedA f).map (·.1))
          (f.verts.map (rowOfS c L Z (specClaimedA f)))) :=
  ply_reads_spec_mesh_ascii_bytes c L Z f fe hok hf hprops hface htex henc hsize htyped hrange (specClaimedA f)
    (by simp [specClaimedA, List.map_map, Function.comp_def]) (ply_spec_claim_located_ascii f ws hg hA)

/-! ### non-vacuity: `exClaim` as an ASCII file -/

example : specClaimGuard ({ exClaim with format := .ascii } : SpecFile Nat) exClaimWs = true ∧ asciiGuard exClaimWs = true := by
  decide

example : ∃ m, readMesh toyCodingA defaultReader (refEncode toyCodingA ({ exClaim with format := .ascii } : SpecFile Nat)) = .ok m :=
  ⟨_, ply_reads_spec_mesh_ascii_bytes_closed toyCodingA toyLaw toyIntLaw { exClaim with format := .ascii } exMesh.exFaces exClaimWs
    ⟨by decide, by intro i hi; simp [exClaim] at hi, by decide, by intro fe h; simp only [exClaim, Option.some.injEq] at h; subst h; decide⟩
    rfl (by decide) rfl rfl exMesh_ok.enc
    (by
      intro fc hfc
      simp only [exMesh.exFaces, List.mem_cons, List.not_mem_nil, or_false] at hfc
      rcases hfc with rfl | rfl
      · exact Or.inl rfl
      · exact Or.inr rfl)
    (by decide)
    (by
      intro r hr d hd
      simp only [exClaim, List.mem_cons, List.not_mem_nil, or_false] at hr
      rcases hr with rfl | rfl | rfl | rfl <;>
        (simp only [List.mem_cons, List.not_mem_nil, or_false] at hd
         rcases hd with rfl | rfl | rfl | rfl | rfl | rfl | rfl | rfl <;> trivial))
    (by decide) (by decide)⟩

end C08
end PolyVerif
