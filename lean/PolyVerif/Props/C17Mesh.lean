/-
  C17 (round 2) — mesh-level rotate / translate / scale / apply-TRS "move positions exactly as the underlying transform
  moves points".

  The model (Model/C17Mesh.lean) writes the Go loops literally (index running up, one array store per iteration into a
  zero-initialised array; then `SetFloat3Attribute`: one key of the v3 map stored or deleted, every other struct field
  copied).  Here: the loop IS the pointwise map of its body (`mapLoop_eq_map`), hence every mesh-level transform replaces
  exactly the named v3 attribute by the pointwise image under the REGENERATED point function and leaves every other v3
  attribute, the v1/v2/v4 maps, the indices, the materials and the topology unchanged (`OnlyV3Changed`), and it is
  rejected (Go: panic) exactly when the attribute is missing.  The statements hold for EVERY scalar — in particular at
  `Float`, the type the driver runs the very same definitions at to answer `c17.mesh.*`, `c17.meshop.*`, `c17.trs.array`.
  Over ℝ they compose with the point-level algebra of Props/C17 (`mesh_rotate_preserves_length`, `mesh_applyTRS_is_RST`).
-/
import PolyVerif.Model.C17Mesh
import PolyVerif.Props.C17More

namespace PolyVerif
namespace C17Mesh
open Gen

set_option linter.unusedSectionVars false
variable {s : Type} [Scalar s]

/-! ### the loop is the pointwise map -/

private theorem writeLoop_size (f : Nat → V3 s → V3 s) (old : Array (V3 s)) (i : Nat) (out : Array (V3 s)) :
    (writeLoop f old i out).size = out.size := by
  fun_induction writeLoop f old i out with
  | case1 i out h ih => simpa using ih
  | case2 i out h => rfl

private theorem writeLoop_get (f : Nat → V3 s → V3 s) (old : Array (V3 s)) (i : Nat) (out : Array (V3 s))
    (hs : out.size = old.size) (j : Nat) (hj : j < old.size) :
    (writeLoop f old i out)[j]? = if i ≤ j then some (f j old[j]) else out[j]? := by
  fun_induction writeLoop f old i out with
  | case1 i out h ih =>
    rw [ih (by simpa using hs)]
    by_cases h1 : i + 1 ≤ j
    · have : i ≤ j := by omega
      simp [h1, this]
    · by_cases h2 : i = j
      · subst h2
        simp [hs, hj]
      · have : ¬ i ≤ j := by omega
        simp [h1, this, Array.getElem?_setIfInBounds_ne h2]
  | case2 i out h =>
    have : ¬ i ≤ j := by omega
    simp [this]

/-- the Go loop with its zero-initialised output array = `mapIdx` of the loop body -/
theorem mapLoop_eq_mapIdx (f : Nat → V3 s → V3 s) (old : Array (V3 s)) :
    mapLoop f old = old.mapIdx f := by
  apply Array.ext
  · simp [mapLoop, writeLoop_size]
  · intro j h1 h2
    have hj : j < old.size := by simpa using h2
    have := writeLoop_get f old 0 (Array.replicate old.size (V3.Zero : V3 s)) (by simp) j hj
    simp only [Nat.zero_le, if_true] at this
    have h3 : (mapLoop f old)[j]? = some (f j old[j]) := this
    rw [Array.getElem?_eq_getElem h1] at h3
    simpa using h3

/-- … and, for a body that ignores the index (all the transforms), the pointwise map -/
theorem mapLoop_eq_map (g : V3 s → V3 s) (old : Array (V3 s)) :
    mapLoop (fun _ v => g v) old = old.map g := by
  rw [mapLoop_eq_mapIdx]
  apply Array.ext <;> simp

/-- `Quaternion.RotateArray` is the pointwise `Rotate` -/
theorem rotateArray_eq_map (q : quaternion.Quaternion s) (arr : Array (V3 s)) :
    rotateArray q arr = arr.map q.Rotate := mapLoop_eq_map _ _

/-- `TRS.TransformArray` / `TransformInPlace` is the pointwise `Transform` -/
theorem transformArray_eq_map (t : trs.TRS s) (arr : Array (V3 s)) :
    transformArray t arr = arr.map t.Transform := mapLoop_eq_map _ _

private theorem inPlaceLoop_size (f : V3 s → V3 s) (i : Nat) (arr : Array (V3 s)) : (inPlaceLoop f i arr).size = arr.size := by
  fun_induction inPlaceLoop f i arr with
  | case1 i arr h ih => simpa using ih
  | case2 i arr h => rfl

private theorem inPlaceLoop_get (f : V3 s → V3 s) (i : Nat) (arr : Array (V3 s)) (j : Nat) :
    (inPlaceLoop f i arr)[j]? = if i ≤ j then (arr[j]?).map f else arr[j]? := by
  fun_induction inPlaceLoop f i arr with
  | case1 i arr h ih =>
    rw [ih]
    by_cases h1 : i + 1 ≤ j
    · have h2 : i ≤ j := by omega
      have h3 : i ≠ j := by omega
      simp [h1, h2, Array.getElem?_set_ne, h3]
    · by_cases h2 : i = j
      · subst h2
        simp [h]
      · have : ¬ i ≤ j := by omega
        simp [h1, this, Array.getElem?_set_ne, h2]
  | case2 i arr h =>
    by_cases h1 : i ≤ j
    · have : arr.size ≤ j := by omega
      simp [h1, Array.getElem?_eq_none this]
    · simp [h1]

/-- the in-place loop (reads and writes the same array) is the pointwise map as well -/
theorem inPlaceLoop_eq_map (f : V3 s → V3 s) (arr : Array (V3 s)) : inPlaceLoop f 0 arr = arr.map f := by
  apply Array.ext'
  apply List.ext_getElem?
  intro j
  have := inPlaceLoop_get f 0 arr j
  simp only [Nat.zero_le, if_true] at this
  simpa using this
/-- `TRS.TransformInPlace` leaves the pointwise `Transform` of the old contents in the slice -/
theorem transformInPlace_eq_map (t : trs.TRS s) (arr : Array (V3 s)) :
    transformInPlace t arr = arr.map t.Transform := inPlaceLoop_eq_map _ _

/-! ### the Go map operations, as seen by lookups -/

namespace GoMap
variable {β : Type}

theorem get?_delete_self (m : GoMap β) (k : String) : (m.delete k).get? k = none := by
  induction m with
  | nil => rfl
  | cons kv r ih =>
    obtain ⟨k', v⟩ := kv
    unfold delete at ih ⊢
    rw [List.filter_cons]
    by_cases h : k' = k
    · simp only [h, ne_eq, not_true_eq_false, decide_false, Bool.false_eq_true, if_false]; exact ih
    · simp only [ne_eq, h, not_false_eq_true, decide_true, if_true, get?, if_false]; exact ih

theorem get?_delete_ne (m : GoMap β) (k k' : String) (h : k' ≠ k) : (m.delete k).get? k' = m.get? k' := by
  induction m with
  | nil => rfl
  | cons kv r ih =>
    obtain ⟨k₀, v⟩ := kv
    unfold delete at ih ⊢
    rw [List.filter_cons]
    by_cases h0 : k₀ = k
    · have h1 : ¬ k₀ = k' := fun e => h (e.symm.trans h0)
      simp only [h0, ne_eq, not_true_eq_false, decide_false, Bool.false_eq_true, if_false]
      rw [ih]; simp only [get?]; rw [if_neg (by rw [← h0]; exact h1)]
    · simp only [ne_eq, h0, not_false_eq_true, decide_true, if_true, get?]
      by_cases h1 : k₀ = k'
      · simp only [h1, if_true]
      · simp only [h1, if_false]; exact ih
theorem get?_set_self (m : GoMap β) (k : String) (v : β) : (m.set k v).get? k = some v := by
  simp [set, get?]

theorem get?_set_ne (m : GoMap β) (k k' : String) (v : β) (h : k' ≠ k) : (m.set k v).get? k' = m.get? k' := by
  have : k ≠ k' := fun e => h e.symm
  simp [set, get?, this, get?_delete_ne m k k' h]

end GoMap

/-! ### mesh level -/

/-- `m'` is `m` with exactly the v3 attribute `attr` replaced by `new` (Go deletes the key when `new` is empty);
    every other v3 attribute, the other three attribute maps, the indices, the materials and the topology are those of `m` -/
def OnlyV3Changed (m m' : Mesh s) (attr : String) (new : Array (V3 s)) : Prop :=
  m'.v3Data.get? attr = (if new.size = 0 then none else some new) ∧
  (∀ k, k ≠ attr → m'.v3Data.get? k = m.v3Data.get? k) ∧
  m'.v4Data = m.v4Data ∧ m'.v2Data = m.v2Data ∧ m'.v1Data = m.v1Data ∧
  m'.indices = m.indices ∧ m'.materials = m.materials ∧ m'.topology = m.topology

theorem setFloat3Attribute_spec (m : Mesh s) (attr : String) (data : Array (V3 s)) :
    OnlyV3Changed m (setFloat3Attribute m attr data) attr data := by
  unfold OnlyV3Changed
  refine ⟨?_, ?_, rfl, rfl, rfl, rfl, rfl, rfl⟩
  · show GoMap.get? (if data.size = 0 then GoMap.delete (GoMap.set m.v3Data attr data) attr
        else GoMap.set m.v3Data attr data) attr = _
    by_cases h : data.size = 0
    · rw [if_pos h, if_pos h]; exact GoMap.get?_delete_self _ _
    · rw [if_neg h, if_neg h]; exact GoMap.get?_set_self _ _ _
  · intro k hk
    show GoMap.get? (if data.size = 0 then GoMap.delete (GoMap.set m.v3Data attr data) attr
        else GoMap.set m.v3Data attr data) k = _
    by_cases h : data.size = 0
    · rw [if_pos h, GoMap.get?_delete_ne _ _ _ hk, GoMap.get?_set_ne _ _ _ _ hk]
    · rw [if_neg h, GoMap.get?_set_ne _ _ _ _ hk]

/-- what every mesh-level transform does, stated once: rejected (Go: panic) iff the attribute is missing; otherwise the
    result differs from the input in exactly that attribute, which becomes the pointwise image under `g` -/
def MovesPointwise (m : Mesh s) (attr : String) (g : V3 s → V3 s) (r : Option (Mesh s)) : Prop :=
  match m.v3Data.get? attr with
  | none => r = none
  | some old => ∃ m', r = some m' ∧ OnlyV3Changed m m' attr (old.map g)

theorem modifyFloat3Attribute_spec (m : Mesh s) (attr : String) (g : V3 s → V3 s) :
    MovesPointwise m attr g (modifyFloat3Attribute m attr (fun _ v => g v)) := by
  unfold MovesPointwise modifyFloat3Attribute
  cases h : m.v3Data.get? attr with
  | none => rfl
  | some old =>
    refine ⟨_, rfl, ?_⟩
    rw [mapLoop_eq_map]
    exact setFloat3Attribute_spec m attr (old.map g)

/-- `RotateAttribute3D` -/
theorem mesh_rotateAttr_pointwise (m : Mesh s) (attr : String) (q : quaternion.Quaternion s) :
    MovesPointwise m attr q.Rotate (rotateAttr m attr q) := modifyFloat3Attribute_spec m attr _
/-- `Mesh.Rotate` moves the positions as `Quaternion.Rotate` moves points -/
theorem mesh_rotate_pointwise (m : Mesh s) (q : quaternion.Quaternion s) :
    MovesPointwise m positionAttribute q.Rotate (rotate m q) := modifyFloat3Attribute_spec m _ _
/-- `TranslateAttribute3D` -/
theorem mesh_translateAttr_pointwise (m : Mesh s) (attr : String) (t : V3 s) :
    MovesPointwise m attr (fun v => v.Add t) (translateAttr m attr t) := modifyFloat3Attribute_spec m attr _
/-- `Mesh.Translate` moves the positions by `v ↦ v + t` -/
theorem mesh_translate_pointwise (m : Mesh s) (t : V3 s) :
    MovesPointwise m positionAttribute (fun v => v.Add t) (translate m t) := modifyFloat3Attribute_spec m _ _
/-- `Mesh.Scale` moves the positions by `v ↦ v ∘ amount` -/
theorem mesh_scale_pointwise (m : Mesh s) (a : V3 s) :
    MovesPointwise m positionAttribute (fun v => v.MultByVector a) (scale m a) := modifyFloat3Attribute_spec m _ _
/-- `ScaleAttribute3D` moves the attribute by `v ↦ o + (v - o) ∘ amount` -/
theorem mesh_scaleAttr_pointwise (m : Mesh s) (attr : String) (o a : V3 s) :
    MovesPointwise m attr (fun v => o.Add ((v.Sub o).MultByVector a)) (scaleAttr m attr o a) :=
  modifyFloat3Attribute_spec m attr _
/-- `Mesh.ApplyTRS` moves the positions as `TRS.Transform` moves points -/
theorem mesh_applyTRS_pointwise (m : Mesh s) (t : trs.TRS s) :
    MovesPointwise m positionAttribute t.Transform (applyTRS m t) := modifyFloat3Attribute_spec m _ _

/-- reading the result: vertex `i` of the changed attribute is `g` of vertex `i` of the old one -/
theorem movesPointwise_get {m : Mesh s} {attr : String} {g : V3 s → V3 s} {r : Option (Mesh s)}
    (h : MovesPointwise m attr g r) {old : Array (V3 s)} (ho : m.v3Data.get? attr = some old) (hne : old.size ≠ 0) :
    ∃ m' new, r = some m' ∧ m'.v3Data.get? attr = some new ∧ new.size = old.size ∧
      ∀ i (hi : i < old.size), new[i]? = some (g old[i]) := by
  unfold MovesPointwise at h
  rw [ho] at h
  obtain ⟨m', hr, hc, _⟩ := h
  refine ⟨m', old.map g, hr, ?_, by simp, fun i hi => by simp [hi]⟩
  simpa [hne] using hc

/-! ### composed with the point-level algebra over ℝ -/

open C17 in
/-- `Mesh.Rotate` by a unit quaternion preserves the length of every position vector (via `quat_rotate_norm`) -/
theorem mesh_rotate_preserves_length (m : Mesh ℝ) (q : quaternion.Quaternion ℝ) (hq : normSq q = 1)
    (old : Array (V3 ℝ)) (ho : m.v3Data.get? positionAttribute = some old) (hne : old.size ≠ 0) :
    ∃ m' new, rotate m q = some m' ∧ m'.v3Data.get? positionAttribute = some new ∧ new.size = old.size ∧
      ∀ i (hi : i < old.size), ∃ w, new[i]? = some w ∧ w.Length = old[i].Length := by
  obtain ⟨m', new, hr, hg, hsz, hall⟩ := movesPointwise_get (mesh_rotate_pointwise m q) ho hne
  exact ⟨m', new, hr, hg, hsz, fun i hi => ⟨_, hall i hi, quat_rotate_norm q hq old[i]⟩⟩

open C17 in
/-- `Mesh.ApplyTRS(trs.New(p, r, sc))` sends every position `v` to `R(S∘v) + T` (via `trs_new`) -/
theorem mesh_applyTRS_is_RST (m : Mesh ℝ) (p sc : V3 ℝ) (r : quaternion.Quaternion ℝ)
    (old : Array (V3 ℝ)) (ho : m.v3Data.get? positionAttribute = some old) (hne : old.size ≠ 0) :
    ∃ m' new, applyTRS m (trs.New p r sc) = some m' ∧ m'.v3Data.get? positionAttribute = some new ∧
      new.size = old.size ∧ ∀ i (hi : i < old.size), new[i]? = some ((r.Rotate (sc.MultByVector old[i])).Add p) := by
  obtain ⟨m', new, hr, hg, hsz, hall⟩ := movesPointwise_get (mesh_applyTRS_pointwise m (trs.New p r sc)) ho hne
  exact ⟨m', new, hr, hg, hsz, fun i hi => by rw [hall i hi, trs_new]⟩

/-! non-vacuity: a mesh with two v3 attributes; rotating `Position` by the identity quaternion succeeds, `Normal` is
    still there; a mesh without `Position` is rejected -/
example : (rotate (⟨[], [("Position", #[⟨1, 2, 3⟩]), ("Normal", #[⟨0, 0, 1⟩])], [], [], #[0], [], 0⟩ : Mesh ℝ)
    ⟨⟨0, 0, 0⟩, 1⟩).isSome = true := by
  simp [rotate, rotateAttr, modifyFloat3Attribute, GoMap.get?, positionAttribute]
example : rotate (⟨[], [("Normal", #[⟨0, 0, 1⟩])], [], [], #[0], [], 0⟩ : Mesh ℝ) ⟨⟨0, 0, 0⟩, 1⟩ = none := by
  simp [rotate, rotateAttr, modifyFloat3Attribute, GoMap.get?, positionAttribute]

end C17Mesh
end PolyVerif
