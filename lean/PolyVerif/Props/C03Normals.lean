/-
  C03 — value statements for SmoothNormals, FlatNormals and LaplacianSmooth over ℝ
  (models: `Model/MeshTransforms.lean`, mirroring meshops/smooth_normals.go, flat_normals.go,
  laplacian_smoothing.go).  The frame of these operations is in `Props/C03.lean`.
-/
import PolyVerif.Props.C03Values
import PolyVerif.Lemmas.MeshCorners

namespace PolyVerif.C03
open PolyVerif PolyVerif.Gen PolyVerif.Mesh PolyVerif.Mesh.MeshVal
open Classical

/-! ## SmoothNormals: the accumulation loop is a sum over incident corners -/

/-- how many corners of triangle `t` are vertex `v` (a degenerate index triple can name `v` twice) -/
def cornerCount (t : Nat × Nat × Nat) (v : Nat) : Nat :=
  (if t.1 = v then 1 else 0) + (if t.2.1 = v then 1 else 0) + (if t.2.2 = v then 1 else 0)

/-- what triangle `t` adds to the accumulator of vertex `v`: its un-normalised face cross product
    `(B-A) × (C-A)`, once per corner of `t` that is `v` (nothing when a corner index is out of range) -/
noncomputable def contrib (pos : List R3) (v : Nat) (t : Nat × Nat × Nat) : R3 :=
  match triCross pos t with
  | some n => n.Scale (cornerCount t v : ℝ)
  | none => ⟨0, 0, 0⟩

/-- component-wise sum of a list of vectors (`List.sum`, so it is invariant under permutation) -/
noncomputable def sumV (l : List R3) : R3 := ⟨(l.map (·.x)).sum, (l.map (·.y)).sum, (l.map (·.z)).sum⟩

theorem sumV_perm {l l' : List R3} (h : l.Perm l') : sumV l = sumV l' := by
  simp only [sumV]
  rw [(h.map _).sum_eq, (h.map (·.y)).sum_eq, (h.map (·.z)).sum_eq]

theorem sumV_cons (a : R3) (l : List R3) : sumV (a :: l) = a.Add (sumV l) := by
  ext <;> simp [sumV, V3.Add]

theorem isNaN_real (x : ℝ) : isNaN x = false := by simp [isNaN]

theorem addAt_get (ns : List R3) (i v : Nat) (n : R3) (hv : v < ns.length) :
    (addAt ns i n)[v]? = some (if i = v then (ns[v]).Add n else ns[v]) := by
  unfold addAt
  by_cases hi : i < ns.length
  · rw [List.getElem?_eq_getElem hi]
    by_cases hiv : i = v
    · subst hiv; simp [hi]
    · simp [hiv, List.getElem?_set, hv]
  · have : i ≠ v := fun h => hi (h ▸ hv)
    simp [List.getElem?_eq_none (Nat.le_of_not_lt hi), this, hv]

theorem addAt_length' (ns : List R3) (i : Nat) (n : R3) : (addAt ns i n).length = ns.length := by
  unfold addAt; split <;> simp

theorem addAt3_get (ns : List R3) (t : Nat × Nat × Nat) (v : Nat) (n : R3) (hv : v < ns.length) :
    (addAt (addAt (addAt ns t.1 n) t.2.1 n) t.2.2 n)[v]? = some ((ns[v]).Add (n.Scale (cornerCount t v : ℝ))) := by
  have h1 := addAt_get ns t.1 v n hv
  have hv1 : v < (addAt ns t.1 n).length := by rw [addAt_length']; exact hv
  have h2 := addAt_get (addAt ns t.1 n) t.2.1 v n hv1
  have hv2 : v < (addAt (addAt ns t.1 n) t.2.1 n).length := by rw [addAt_length']; exact hv1
  have h3 := addAt_get (addAt (addAt ns t.1 n) t.2.1 n) t.2.2 v n hv2
  have e1 := (List.getElem?_eq_some_iff.mp h1).2
  have e2 := (List.getElem?_eq_some_iff.mp h2).2
  rw [h3]; congr 1
  rw [e2, e1]
  unfold cornerCount
  by_cases a : t.1 = v <;> by_cases b : t.2.1 = v <;> by_cases c : t.2.2 = v <;>
    simp [a, b, c] <;> ext <;> simp [V3.Add, V3.Scale] <;> ring

/-- **fold-to-sum**: after the accumulation loop, the accumulator of every vertex `v` is its initial value plus
    the sum, over all triangles, of the face cross product once per incident corner -/
theorem smoothAccum_sum (pos : List R3) : ∀ (ts : List (Nat × Nat × Nat)) (ns : List R3) (v : Nat) (hv : v < ns.length),
    (smoothAccum pos ns ts)[v]? = some ((ns[v]).Add (sumV (ts.map (contrib pos v))))
  | [], ns, v, hv => by
    simp only [smoothAccum, List.map_nil, List.getElem?_eq_getElem hv]
    congr 1; ext <;> simp [sumV, V3.Add]
  | t :: ts, ns, v, hv => by
    simp only [smoothAccum, List.map_cons, sumV_cons]
    cases hc : triCross pos t with
    | none =>
      simp only [contrib, hc]
      rw [smoothAccum_sum pos ts ns v hv]
      congr 1; ext <;> simp [V3.Add]
    | some n =>
      simp only [isNaN_real, Bool.false_eq_true, if_false, contrib, hc]
      have hl : v < (addAt (addAt (addAt ns t.1 n) t.2.1 n) t.2.2 n).length := by
        simp only [addAt_length']; exact hv
      rw [smoothAccum_sum pos ts _ v hl]
      have := addAt3_get ns t v n hv
      have e := (List.getElem?_eq_some_iff.mp this).2
      rw [e]; congr 1; ext <;> simp [V3.Add] <;> ring

theorem smoothAccum_length' (pos : List R3) : ∀ (ts : List (Nat × Nat × Nat)) (ns : List R3),
    (smoothAccum pos ns ts).length = ns.length
  | [], ns => by simp [smoothAccum]
  | t :: ts, ns => by
    simp only [smoothAccum]
    split
    · exact smoothAccum_length' pos ts ns
    · split
      · exact smoothAccum_length' pos ts ns
      · rw [smoothAccum_length' pos ts]; simp [addAt_length']

/-- **order independence**: visiting the triangles in any other order gives the same accumulators -/
theorem smoothAccum_perm (pos : List R3) (ns : List R3) {ts ts' : List (Nat × Nat × Nat)} (h : ts.Perm ts') :
    smoothAccum pos ns ts = smoothAccum pos ns ts' := by
  apply List.ext_getElem?
  intro v
  by_cases hv : v < ns.length
  · rw [smoothAccum_sum pos ts ns v hv, smoothAccum_sum pos ts' ns v hv, sumV_perm (h.map _)]
  · rw [List.getElem?_eq_none (by rw [smoothAccum_length']; omega),
      List.getElem?_eq_none (by rw [smoothAccum_length']; omega)]

/-- the normal `SmoothNormals` writes for vertex `v`: the sum `S` of the face cross products over the incident
    corners, normalised — or the zero vector when `S = 0` (no incident non-degenerate corner, e.g. an
    unreferenced vertex: the Go code skips `n == zero`) -/
noncomputable def smoothNormalAt (pos : List R3) (ts : List (Nat × Nat × Nat)) (v : Nat) : R3 :=
  let S := sumV (ts.map (contrib pos v))
  if S = ⟨0, 0, 0⟩ then S else S.Normalized

theorem isZeroV_real (v : R3) : isZeroV v = decide (v = ⟨0, 0, 0⟩) := by
  obtain ⟨x, y, z⟩ := v
  simp only [isZeroV, RS.beq_eq, Nat.cast_zero, V3.mk.injEq]
  by_cases hx : x = 0 <;> by_cases hy : y = 0 <;> by_cases hz : z = 0 <;> simp [hx, hy, hz]

/-- **SmoothNormals, value**: with `pos` the position vectors and `ts` the triangles, the Normal array it sets has,
    at every vertex `v`, exactly `smoothNormalAt pos ts v` — for every triangle order (`smoothAccum_perm`). -/
theorem smoothNormals_values (pos : List R3) (ts : List (Nat × Nat × Nat)) (n : Nat) (v : Nat) (hv : v < n) :
    ((smoothAccum pos (List.replicate n V3.Zero) ts).map
        fun a => if isZeroV a then a else a.Normalized)[v]? = some (smoothNormalAt pos ts v) := by
  rw [List.getElem?_map, smoothAccum_sum pos ts _ v (by simpa using hv)]
  simp only [Option.map_some, List.getElem_replicate, smoothNormalAt, isZeroV_real]
  have : (V3.Zero : R3).Add (sumV (ts.map (contrib pos v))) = sumV (ts.map (contrib pos v)) := by
    ext <;> simp [V3.Add, V3.Zero]
  rw [this]
  by_cases h0 : sumV (ts.map (contrib pos v)) = ⟨0, 0, 0⟩ <;> simp [h0]

/-- a non-zero vector normalises to unit length -/
theorem normalized_length (S : R3) (h : S ≠ ⟨0, 0, 0⟩) : S.Normalized.Length = 1 := by
  have hpos : 0 < S.Length := by
    simp only [V3.Length, V3.LengthSquared, RS.sqrt_eq]
    apply Real.sqrt_pos.mpr
    obtain ⟨x, y, z⟩ := S
    by_contra hle
    have hx := mul_self_nonneg x; have hy := mul_self_nonneg y; have hz := mul_self_nonneg z
    have : x * x + y * y + z * z = 0 := by linarith
    have h1 : x * x = 0 := by linarith
    have h2 : y * y = 0 := by linarith
    have h3 : z * z = 0 := by linarith
    exact h (by simp [mul_self_eq_zero.mp h1, mul_self_eq_zero.mp h2, mul_self_eq_zero.mp h3])
  unfold V3.Normalized
  rw [length_div S hpos, div_self hpos.ne']

/-- the smooth normal is a unit vector whenever the corner sum is non-zero, and the zero vector otherwise -/
theorem smoothNormalAt_unit (pos : List R3) (ts : List (Nat × Nat × Nat)) (v : Nat) :
    (sumV (ts.map (contrib pos v)) ≠ ⟨0, 0, 0⟩ → (smoothNormalAt pos ts v).Length = 1) ∧
    (sumV (ts.map (contrib pos v)) = ⟨0, 0, 0⟩ → smoothNormalAt pos ts v = ⟨0, 0, 0⟩) := by
  constructor
  · intro h; simp only [smoothNormalAt, h, if_false]; exact normalized_length _ h
  · intro h; simp only [smoothNormalAt, h, if_true]

/-- an unreferenced vertex gets the zero normal -/
theorem smoothNormalAt_unreferenced (pos : List R3) (ts : List (Nat × Nat × Nat)) (v : Nat)
    (h : ∀ t ∈ ts, t.1 ≠ v ∧ t.2.1 ≠ v ∧ t.2.2 ≠ v) : smoothNormalAt pos ts v = ⟨0, 0, 0⟩ := by
  apply (smoothNormalAt_unit pos ts v).2
  have : ∀ t ∈ ts, contrib pos v t = ⟨0, 0, 0⟩ := by
    intro t ht
    obtain ⟨h1, h2, h3⟩ := h t ht
    unfold contrib
    split
    · ext <;> simp [cornerCount, h1, h2, h3, V3.Scale]
    · rfl
  induction ts with
  | nil => simp [sumV]
  | cons t ts ih =>
    rw [List.map_cons, sumV_cons, this t (by simp), ih (fun t' ht' => h t' (by simp [ht'])) (fun t' ht' => this t' (by simp [ht']))]
    ext <;> simp [V3.Add]

example : smoothNormalAt [⟨0, 0, 0⟩, ⟨1, 0, 0⟩, ⟨0, 1, 0⟩] [(0, 1, 2)] 0 = ⟨0, 0, 1⟩ := by
  simp [smoothNormalAt, sumV, contrib, triCross, cornerCount, V3.Sub, V3.Cross, V3.Scale, V3.Normalized,
    V3.DivByConstant, V3.Length, V3.LengthSquared]

/-- **SmoothNormals, mesh level**: the operation sets `Normal` (frame: `smoothNormals_frame`) to an array with one
    entry per position whose entry at every vertex `v` is `smoothNormalAt positions triangles v`. -/
theorem smoothNormals_spec {m m' : MeshVal (List ℝ)} (hm : m.smoothNormals = some m') :
    ∃ d normals, m.attr? posKey = some d ∧ m' = m.setAttr normalKey normals ∧ normals.length = d.length ∧
      ∀ v, v < d.length →
        normals[v]? = some (ofV3 (smoothNormalAt (d.filterMap v3?) (triples m.indices) v)) := by
  unfold MeshVal.smoothNormals at hm
  split at hm
  · split at hm
    · cases hm
    · rename_i d hd
      cases hm
      refine ⟨d, _, hd, rfl, by simp [smoothAccum_length'], ?_⟩
      intro v hv
      have := smoothNormals_values (d.filterMap v3?) (triples m.indices) d.length v hv
      rw [List.getElem?_map] at this ⊢
      cases hg : (smoothAccum (List.filterMap v3? d) (List.replicate d.length V3.Zero) (triples m.indices))[v]? with
      | none => simp [hg] at this
      | some a =>
        simp only [hg, Option.map_some, Option.some.injEq] at this ⊢
        rw [this]
  · cases hm

/-! ## FlatNormals: per triangle the unit face normal is written to its three vertices, last triangle wins -/

/-- the face (cross product) whose normal vertex `v` ends up with: the LAST triangle in visiting order that has `v`
    as a corner (and whose corner indices are in range); `none` = `v` is in no triangle -/
noncomputable def lastFace (pos : List R3) : List (Nat × Nat × Nat) → Nat → Option R3
  | [], _ => none
  | t :: ts, v =>
    match lastFace pos ts v with
    | some c => some c
    | none => if t.1 = v ∨ t.2.1 = v ∨ t.2.2 = v then triCross pos t else none

theorem set3_get (ns : List R3) (t : Nat × Nat × Nat) (v : Nat) (n : R3) (hv : v < ns.length) :
    (((ns.set t.1 n).set t.2.1 n).set t.2.2 n)[v]? =
      some (if t.1 = v ∨ t.2.1 = v ∨ t.2.2 = v then n else ns[v]) := by
  simp only [List.getElem?_set, List.length_set]
  by_cases a : t.1 = v <;> by_cases b : t.2.1 = v <;> by_cases c : t.2.2 = v <;>
    simp [a, b, c, hv, List.getElem?_eq_getElem hv]

theorem flatAccum_length' (pos : List R3) : ∀ (ts : List (Nat × Nat × Nat)) (ns : List R3),
    (flatAccum pos ns ts).length = ns.length
  | [], ns => by simp [flatAccum]
  | t :: ts, ns => by
    simp only [flatAccum]
    split
    · exact flatAccum_length' pos ts ns
    · rw [flatAccum_length' pos ts]; simp

/-- after the overwrite loop, vertex `v` holds the unit normal of its last face, or its initial value -/
theorem flatAccum_last (pos : List R3) : ∀ (ts : List (Nat × Nat × Nat)) (ns : List R3) (v : Nat) (hv : v < ns.length),
    (flatAccum pos ns ts)[v]? = some (match lastFace pos ts v with | some c => c.Normalized | none => ns[v])
  | [], ns, v, hv => by simp [flatAccum, lastFace, List.getElem?_eq_getElem hv]
  | t :: ts, ns, v, hv => by
    simp only [flatAccum, lastFace]
    cases hc : triCross pos t with
    | none =>
      rw [flatAccum_last pos ts ns v hv]
      cases lastFace pos ts v <;> simp
    | some c =>
      have hl : v < (((ns.set t.1 c.Normalized).set t.2.1 c.Normalized).set t.2.2 c.Normalized).length := by simpa using hv
      rw [flatAccum_last pos ts _ v hl]
      cases hlf : lastFace pos ts v with
      | some c' => simp
      | none =>
        have := set3_get ns t v c.Normalized hv
        have e := (List.getElem?_eq_some_iff.mp this).2
        simp only [e]
        by_cases hin : t.1 = v ∨ t.2.1 = v ∨ t.2.2 = v <;> simp [hin]

/-- the normal `FlatNormals` writes for vertex `v`: `normalize(normalize(face))` for the last face containing `v`
    (the second `normalize` is the final pass over all vertices), `normalize(1,1,1)` for a vertex in no triangle -/
noncomputable def flatNormalAt (pos : List R3) (ts : List (Nat × Nat × Nat)) (v : Nat) : R3 :=
  match lastFace pos ts v with
  | some c => c.Normalized.Normalized
  | none => (V3.One : R3).Normalized

theorem flatNormals_values (pos : List R3) (ts : List (Nat × Nat × Nat)) (n : Nat) (v : Nat) (hv : v < n) :
    ((flatAccum pos (List.replicate n V3.One) ts).map fun a => a.Normalized)[v]? = some (flatNormalAt pos ts v) := by
  rw [List.getElem?_map, flatAccum_last pos ts _ v (by simpa using hv)]
  simp only [Option.map_some, flatNormalAt, List.getElem_replicate]
  cases lastFace pos ts v <;> rfl

/-- normalising a unit-length result again changes nothing: for a non-degenerate face the written normal is the
    unit face normal `c / |c|` -/
theorem normalized_idem (c : R3) (h : c ≠ ⟨0, 0, 0⟩) : c.Normalized.Normalized = c.Normalized ∧ c.Normalized.Length = 1 := by
  have h1 := normalized_length c h
  refine ⟨?_, h1⟩
  show (c.Normalized).DivByConstant (c.Normalized).Length = c.Normalized
  rw [h1]; ext <;> simp [V3.DivByConstant]

/-- **FlatNormals, mesh level** -/
theorem flatNormals_spec {m m' : MeshVal (List ℝ)} (hm : m.flatNormals = some m') :
    ∃ d normals, m.attr? posKey = some d ∧ m' = m.setAttr normalKey normals ∧ normals.length = d.length ∧
      ∀ v, v < d.length →
        normals[v]? = some (ofV3 (flatNormalAt (d.filterMap v3?) (triples m.indices) v)) := by
  unfold MeshVal.flatNormals at hm
  split at hm
  · split at hm
    · cases hm
    · rename_i d hd
      cases hm
      refine ⟨d, _, hd, rfl, by simp [flatAccum_length'], ?_⟩
      intro v hv
      have := flatNormals_values (d.filterMap v3?) (triples m.indices) d.length v hv
      rw [List.getElem?_map] at this ⊢
      cases hg : (flatAccum (List.filterMap v3? d) (List.replicate d.length V3.One) (triples m.indices))[v]? with
      | none => simp [hg] at this
      | some a =>
        simp only [hg, Option.map_some, Option.some.injEq] at this ⊢
        rw [this]
  · cases hm

/-- **FlatNormals, as far as it transfers to the Go code**: per vertex `v`,
    * in no triangle: `normalize(1,1,1)`;
    * last face `c` NON-degenerate (`c ≠ 0`): the unit face normal `c/|c|` (length 1);
    * last face degenerate (`c = 0`): NO claim here — Go computes `0/0 = NaN` in every component (float only; covered by
      the bit-exact correspondence and the corpus case `flat:degenerate-last-face`), while over ℝ the model value is 0. -/
theorem flatNormals_spec_nondegenerate {m m' : MeshVal (List ℝ)} (hm : m.flatNormals = some m') :
    ∃ d normals, m.attr? posKey = some d ∧ m' = m.setAttr normalKey normals ∧ normals.length = d.length ∧
      ∀ v, v < d.length →
        (lastFace (d.filterMap v3?) (triples m.indices) v = none →
          normals[v]? = some (ofV3 (V3.One : R3).Normalized)) ∧
        (∀ c, lastFace (d.filterMap v3?) (triples m.indices) v = some c → c ≠ ⟨0, 0, 0⟩ →
          normals[v]? = some (ofV3 c.Normalized) ∧ c.Normalized.Length = 1) := by
  obtain ⟨d, normals, hd, hm', hl, hv⟩ := flatNormals_spec hm
  refine ⟨d, normals, hd, hm', hl, fun v hlt => ⟨?_, ?_⟩⟩
  · intro hnone
    rw [hv v hlt]; simp [flatNormalAt, hnone]
  · intro c hc hne
    obtain ⟨hi, hu⟩ := normalized_idem c hne
    rw [hv v hlt]; simp [flatNormalAt, hc, hi, hu]

/-- ORDER DEPENDENCE is real: on a shared vertex the last visited triangle decides -/
example : lastFace [⟨0, 0, 0⟩, ⟨1, 0, 0⟩, ⟨0, 1, 0⟩, ⟨0, 0, 1⟩] [(0, 1, 2), (0, 1, 3)] 0 ≠
          lastFace [⟨0, 0, 0⟩, ⟨1, 0, 0⟩, ⟨0, 1, 0⟩, ⟨0, 0, 1⟩] [(0, 1, 3), (0, 1, 2)] 0 := by
  simp [lastFace, triCross, V3.Sub, V3.Cross]

/-- **the clean statement for unwelded meshes**: when no vertex index occurs twice in the index buffer (what
    `Unweld` produces), every corner's normal comes from its own face — whatever the visiting order -/
theorem lastFace_unwelded (pos : List R3) : ∀ (ts : List (Nat × Nat × Nat)), (untriples ts).Nodup →
    ∀ t ∈ ts, ∀ v, (t.1 = v ∨ t.2.1 = v ∨ t.2.2 = v) → ∀ c, triCross pos t = some c → lastFace pos ts v = some c
  | [], _, t, ht, _, _, _, _ => by simp at ht
  | u :: ts, hnd, t, ht, v, hv, c, hc => by
    obtain ⟨a, b, d⟩ := u
    simp only [untriples, List.nodup_cons, List.mem_cons, not_or] at hnd
    simp only [lastFace]
    rcases List.mem_cons.mp ht with rfl | ht'
    · -- `v` is a corner of the head triangle: it occurs in no later triangle
      have hnone : lastFace pos ts v = none := by
        cases hl : lastFace pos ts v with
        | none => rfl
        | some c' =>
          exfalso
          -- a later triangle contains v, so v ∈ untriples ts
          have hmem : ∀ (l : List (Nat × Nat × Nat)) (c' : R3), lastFace pos l v = some c' → v ∈ untriples l := by
            intro l
            induction l with
            | nil => intro c' h; simp [lastFace] at h
            | cons w l ih =>
              intro c' h
              obtain ⟨p, q, r⟩ := w
              simp only [lastFace] at h
              cases hl' : lastFace pos l v with
              | some c'' => simp only [untriples, List.mem_cons]; right; right; right; exact ih c'' hl'
              | none =>
                rw [hl'] at h
                simp only at h
                split at h
                · rename_i hin
                  simp only [untriples, List.mem_cons]
                  rcases hin with rfl | rfl | rfl <;> simp
                · cases h
          have hv_in := hmem ts c' hl
          simp only at hv
          rcases hv with rfl | rfl | rfl
          · exact hnd.1.2.2 hv_in
          · exact hnd.2.1.2 hv_in
          · exact hnd.2.2.1 hv_in
      simp only [hnone, hv, if_true, hc]
    · have ih := lastFace_unwelded pos ts hnd.2.2.2 t ht' v hv c hc
      simp [ih]

/-- **FlatNormals on an unwelded mesh** (index buffer without repetition, e.g. the `0..k-1` of `Unweld`): every corner
    `v` of every triangle `t` gets the normal of its OWN face — `normalize(normalize(c))`, i.e. the unit face normal
    `c/|c|` when the face is non-degenerate — independently of the order in which the triangles are visited. -/
theorem flatNormalAt_unwelded (pos : List R3) (idx : List Nat) (hlen : idx.length % 3 = 0) (hnd : idx.Nodup)
    (t : Nat × Nat × Nat) (ht : t ∈ triples idx) (v : Nat) (hv : t.1 = v ∨ t.2.1 = v ∨ t.2.2 = v)
    (c : R3) (hc : triCross pos t = some c) :
    flatNormalAt pos (triples idx) v = c.Normalized.Normalized ∧
    (c ≠ ⟨0, 0, 0⟩ → flatNormalAt pos (triples idx) v = c.Normalized ∧ (flatNormalAt pos (triples idx) v).Length = 1) := by
  have hnd' : (untriples (triples idx)).Nodup := by rw [MeshVal.untriples_triples idx hlen]; exact hnd
  have hl := lastFace_unwelded pos (triples idx) hnd' t ht v hv c hc
  have h1 : flatNormalAt pos (triples idx) v = c.Normalized.Normalized := by simp [flatNormalAt, hl]
  refine ⟨h1, fun hne => ?_⟩
  obtain ⟨hi, hu⟩ := normalized_idem c hne
  rw [h1, hi]; exact ⟨rfl, hu⟩

example : (List.range 6).Nodup ∧ (List.range 6).length % 3 = 0 := by decide

end PolyVerif.C03
