/-
  C04 / C08 / C14 — the PLY scalar type tables of the hand model ARE the tables of the source (engine F tie, regenerated
  on every run).

  `PolyVerif/Gen/PlyTypes.lean` is regenerated from /repo/formats/ply/property.go and reader.go (go/facts mode c04.types):
  the `ScalarPropertyType` constants with their header spellings, the `case … : return N` arms of `Size()`, the alias map
  `scalarPropTypeNameToScalarPropertyType` in source order, and the cleaning chain of `ParseScalarPropertyType`.  Every PLY
  theorem (C04, C08, C14) is stated about `PolyVerif/Model/Ply.lean`; the theorems below prove its `SType.size`,
  `SType.name`, `aliasTable` and the cleaning order of `parseSType` equal to what is regenerated, so a changed byte size,
  a dropped or misdirected alias (`"uint8": Char`) or a changed spelling in the Go source breaks a named theorem before any
  sample runs.  (Core Lean only.)
-/
import PolyVerif.Model.Ply
import PolyVerif.Gen.PlyTypes

namespace PolyVerif
namespace C04
open Ply
open PolyVerif.Gen

/-- the Go constant identifier the model constructor stands for -/
def constOf : SType → String
  | .char => "Char" | .uchar => "UChar" | .short => "Short" | .ushort => "UShort"
  | .int => "Int" | .uint => "UInt" | .float => "Float" | .double => "Double"

def allSTypes : List SType := [.char, .uchar, .short, .ushort, .int, .uint, .float, .double]

theorem allSTypes_complete (t : SType) : t ∈ allSTypes := by cases t <;> simp [allSTypes]

/-- the constants of the source are exactly the model's eight constructors, in order, and `SType.name` is the header
    spelling of each (the constant's string value) -/
theorem stype_names_from_source :
    PlyTypes.constNames.map (·.1) = allSTypes.map constOf ∧
    ∀ t ∈ allSTypes, (PlyTypes.constNames.lookup (constOf t)).map nm = some (SType.name t) := by decide

/-- `SType.size t` is the `return N` of the `case` arm of `Size()` that lists `t`'s constant; every constant is listed
    in exactly one arm -/
theorem stype_size_from_source :
    ∀ t ∈ allSTypes,
      (PlyTypes.sizeCases.filter (fun c => c.1.contains (constOf t))).map (·.2) = [SType.size t] := by decide

/-- the model's alias table is `scalarPropTypeNameToScalarPropertyType`, entry for entry in source order -/
theorem aliasTable_from_source :
    aliasTable.map (fun p => (p.1, constOf p.2)) = PlyTypes.aliasMap := by decide

/-- `parseSType` cleans its argument as `ParseScalarPropertyType` does: `ToLower (TrimSpace s)` -/
theorem parse_cleaning_from_source :
    PlyTypes.parseCleaning = ["strings.ToLower", "strings.TrimSpace"] := by decide

/-- consequence used by the header theorems: a spelling is accepted exactly when the regenerated map lists it, and then
    denotes the listed constant -/
theorem parseSType_from_source (s : Bytes) (t : SType) :
    parseSType s = .ok t ↔
      ∃ a, (a, constOf t) ∈ PlyTypes.aliasMap ∧ nm a = lower (trimSpace s) ∧
        ∀ b c, PlyTypes.aliasMap.find? (fun p => nm p.1 = lower (trimSpace s)) = some (b, c) → c = constOf t := by
  rw [← aliasTable_from_source]
  unfold parseSType
  constructor
  · intro h
    cases hf : aliasTable.find? (fun p => nm p.1 = lower (trimSpace s)) with
    | none => simp [hf] at h
    | some p =>
      simp only [hf] at h
      have hp : p.2 = t := by cases h; rfl
      have hmem := List.mem_of_find?_eq_some hf
      have hpred := List.find?_some hf
      refine ⟨p.1, ?_, by simpa using hpred, ?_⟩
      · exact List.mem_map.mpr ⟨p, hmem, by simp [hp]⟩
      · intro b c hbc
        rw [List.find?_map] at hbc
        simp only [Function.comp_def, hf, Option.map_some, Option.some.injEq, Prod.mk.injEq] at hbc
        rw [← hbc.2, hp]
  · rintro ⟨a, _, _, huniq⟩
    cases hf : aliasTable.find? (fun p => nm p.1 = lower (trimSpace s)) with
    | none =>
      exfalso
      rename_i hmem hnm
      obtain ⟨p, hp, hpe⟩ := List.mem_map.mp hmem
      have := List.find?_eq_none.mp hf p hp
      simp only [Prod.mk.injEq] at hpe
      simp [hpe.1, hnm] at this
    | some p =>
      have hc := huniq p.1 (constOf p.2) (by
        rw [List.find?_map]
        simp [Function.comp_def, hf])
      have : p.2 = t := by
        revert hc; cases p.2 <;> cases t <;> simp [constOf]
      show (match aliasTable.find? (fun p => nm p.1 = lower (trimSpace s)) with
        | some p => Except.ok p.2 | none => Except.error Err.panic) = Except.ok t
      rw [hf]; simp [this]

/-! non-vacuity -/
example : parseSType (nm " UInt8 ") = .ok .uchar := by rfl
example : (" UInt8 ", "x") ∉ PlyTypes.aliasMap ∧ ("uint8", constOf .uchar) ∈ PlyTypes.aliasMap := by decide

end C04
end PolyVerif
