/-
  C15 (round 2) — SPZ version-1 positions are IEEE 754 binary16 numbers.

  Subject: `Spz.halfToFloat` (Model/Spz.lean), the transcription of /repo/formats/spz/util.go `halfToFloat`
  that `Spz.decodePositions` / `Spz.dequant` call for version-1 streams and that the C15 driver therefore
  runs (at `Float`) for every `c15.spz.read` / `c15.holds.spz_dequant` line with a version-1 header and for
  the exhaustive line `c15.spz.halfall` (all 65536 patterns through `spz.Read`).

  Here the same definition is read at ℝ (`math.Pow(2, k)` = the real power, `RealEnv`) and proved to be the
  IEEE 754-2008 §3.4 value of the bit pattern for every pattern class, to be exact (an 11-bit dyadic in the
  float32/float64 normal range: none of the source's float64 operations rounds), strictly monotone with
  consecutive patterns one unit in the last place apart, and to be inverted within half a unit in the last
  place by a reference round-to-nearest-even encoder (the repository has NO float → half encoder; `spz.Write`
  writes a header only — the encoder is a specification-side definition, as `refEncode` is for the layout).

  Property theorems only; lemmas are in Lemmas/Half.lean.
-/
import PolyVerif.Lemmas.Half
import PolyVerif.Gen.SpzDequant

namespace PolyVerif
namespace C15
open Spz Half

/-! ## the independent specification: IEEE 754-2008 §3.4, binary16 (w = 5, t = 10, p = 11, bias = 15, emin = −14) -/

namespace Ieee

/-- a floating-point datum -/
inductive Value where
  | finite (x : ℝ)
  | inf (negative : Bool)
  | nan

/-- §3.4 a)–e) with `S` the sign bit, `Ex` the biased exponent field, `T` the trailing significand field:
    a) `Ex = 2^w − 1`, `T ≠ 0`: NaN;  b) `Ex = 2^w − 1`, `T = 0`: `(−1)^S ∞`;
    c) `1 ≤ Ex ≤ 2^w − 2`: `(−1)^S · 2^(Ex − bias) · (1 + 2^(1−p) · T)`;
    d) `Ex = 0`, `T ≠ 0`: `(−1)^S · 2^emin · (0 + 2^(1−p) · T)`;  e) `Ex = 0`, `T = 0`: signed zero (the same
    formula as d) -/
noncomputable def binary16 (S : Bool) (Ex T : Nat) : Value :=
  if Ex = 31 then (if T ≠ 0 then .nan else .inf S)
  else if 1 ≤ Ex then .finite ((-1) ^ S.toNat * (2 : ℝ) ^ ((Ex : ℤ) - 15) * (1 + (2 : ℝ) ^ (-10 : ℤ) * T))
  else .finite ((-1) ^ S.toNat * (2 : ℝ) ^ (-14 : ℤ) * (0 + (2 : ℝ) ^ (-10 : ℤ) * T))

end Ieee

/-- how the decoder's result type carries a datum: `math.Inf(±1)`, `math.NaN()` are the environment's -/
def embed (E : Env ℝ) : Ieee.Value → ℝ
  | .finite x => x
  | .inf true => -E.inf
  | .inf false => E.inf
  | .nan => E.nan

/-- EVERY bit pattern: the decoder returns the IEEE binary16 datum whose sign is bit 15, whose biased
    exponent is bits 14–10 and whose trailing significand is bits 9–0 — normal numbers, subnormals, ±0
    (both are the real 0; the source computes `−1 · 2^−14 · 0 / 1024 = −0`), ±∞ as `math.Inf(±1)`, every NaN
    pattern as `math.NaN()` (sign and payload dropped).  Holds for every environment, in particular with
    `inf`, `nan` symbolic and distinct. -/
theorem half_is_binary16 (E : Env ℝ) (hE : Half.RealEnv E) (h : BitVec 16) :
    halfToFloat E h.toNat = embed E (Ieee.binary16 h.msb (h.extractLsb' 10 5).toNat (h.extractLsb' 0 10).toNat) := by
  rw [exp_field, man_field, msb_bits]
  unfold Ieee.binary16
  by_cases h31 : h.toNat / 1024 % 32 = 31
  · unfold halfToFloat
    simp only [h31, if_true, if_false, show (31 : ℕ) ≠ 0 by norm_num, ne_eq]
    by_cases hm : h.toNat % 1024 = 0
    · by_cases hs : h.toNat / 32768 % 2 = 1 <;> simp [hm, hs, embed]
    · simp [hm, embed]
  · rw [halfToFloat_finite E hE _ h31, if_neg h31]
    unfold num expOf manOf sgnR
    have z10 : (2 : ℝ) ^ (-10 : ℤ) = 1 / 2 ^ 10 := by
      rw [show ((-10 : ℤ)) = -((10 : ℕ) : ℤ) by norm_num, zpow_neg, zpow_natCast]; norm_num
    have z14 : (2 : ℝ) ^ (-14 : ℤ) = 1 / 2 ^ 14 := by
      rw [show ((-14 : ℤ)) = -((14 : ℕ) : ℤ) by norm_num, zpow_neg, zpow_natCast]; norm_num
    by_cases h0 : h.toNat / 1024 % 32 = 0
    · rw [if_pos h0, if_neg (show ¬ 1 ≤ h.toNat / 1024 % 32 by omega)]
      simp only [embed, z10, z14]
      by_cases hs : h.toNat / 32768 % 2 = 1
      · simp only [hs, if_true, decide_true, Bool.toNat_true, pow_one]; push_cast; ring
      · simp only [hs, if_false, decide_false, Bool.toNat_false, pow_zero]; push_cast; ring
    · rw [if_neg h0, if_pos (show 1 ≤ h.toNat / 1024 % 32 by omega)]
      simp only [embed, z10]
      rw [zpow_sub₀ (by norm_num : (2 : ℝ) ≠ 0), zpow_natCast,
        show ((15 : ℤ)) = ((15 : ℕ) : ℤ) by norm_num, zpow_natCast]
      by_cases hs : h.toNat / 32768 % 2 = 1
      · simp only [hs, if_true, decide_true, Bool.toNat_true, pow_one]; push_cast; field_simp; ring
      · simp only [hs, if_false, decide_false, Bool.toNat_false, pow_zero]; push_cast; field_simp; ring

/-- the source's own operators (`(h >> 10) & 0x1f`, `h & 0x3ff`, `(h >> 15) & 0x1` on a `uint16`) give the
    div/mod form the driver runs — for every scalar type, so at `Float` too -/
theorem half_bits_form {α : Type} [Scalar α] (E : Env α) (h : BitVec 16) :
    halfToFloatBits E h = halfToFloat E h.toNat := halfToFloatBits_eq E h

/-- SOURCE TIE (engine F): `Spz.halfToFloat` — the definition `half_is_binary16` and everything below is stated about
    — equals `Gen.SpzDequant.halfSrc`, the definition REGENERATED from /repo/formats/spz/util.go on every run
    (go/facts mode c15.spzdequant), on every 16-bit pattern and for every scalar type; so the binary16 theorems are
    theorems about regenerated code -/
theorem halfToFloat_from_source {α : Type} [Scalar α] (E : Env α) (h : BitVec 16) :
    halfToFloat E h.toNat = PolyVerif.Gen.SpzDequant.halfSrc E h :=
  (halfToFloatBits_eq E h).symm

/-- positions: version 2 reads record `i` at bytes `i*9 …` through the regenerated expression; version 1 reads uint16
    `i*3 + k` (bytes `2·(i*3+k)`, `+1`, little endian) through the regenerated `halfToFloat` -/
theorem spz_position_stride_from_source {α : Type} [Scalar α] (E : Env α) (h : Header) (a : List UInt8) :
    decodePositions E h a = (List.range h.numPoints).map fun i =>
      if h.version = 1 then
        (⟨PolyVerif.Gen.SpzDequant.halfSrc E (BitVec.ofNat 16 ((byteAt a (2 * (i * 3))).toNat + 256 * (byteAt a (2 * (i * 3) + 1)).toNat)),
          PolyVerif.Gen.SpzDequant.halfSrc E (BitVec.ofNat 16 ((byteAt a (2 * (i * 3 + 1))).toNat + 256 * (byteAt a (2 * (i * 3 + 1) + 1)).toNat)),
          PolyVerif.Gen.SpzDequant.halfSrc E (BitVec.ofNat 16 ((byteAt a (2 * (i * 3 + 2))).toNat + 256 * (byteAt a (2 * (i * 3 + 2) + 1)).toNat))⟩ : V3 α)
      else
        PolyVerif.Gen.SpzDequant.posSrc E h.fractionalBits (byteAt a (i * 9 + 0)) (byteAt a (i * 9 + 1)) (byteAt a (i * 9 + 2))
          (byteAt a (i * 9 + 3)) (byteAt a (i * 9 + 4)) (byteAt a (i * 9 + 5)) (byteAt a (i * 9 + 6)) (byteAt a (i * 9 + 7))
          (byteAt a (i * 9 + 8)) := by
  have key : ∀ b0 b1 : UInt8, halfCoord E b0 b1 =
      PolyVerif.Gen.SpzDequant.halfSrc E (BitVec.ofNat 16 (b0.toNat + 256 * b1.toNat)) := by
    intro b0 b1
    rw [← halfToFloat_from_source, BitVec.toNat_ofNat]
    have := b0.toNat_lt; have := b1.toNat_lt
    unfold halfCoord
    congr 1; omega
  unfold decodePositions
  apply List.map_congr_left
  intro i _
  by_cases hv : h.version = 1
  · simp only [if_pos hv, key]
  · simp only [if_neg hv]; rfl

/-- the classes spelled out as closed formulas: normal `±2^(e−15)·(1 + m/1024)`, subnormal and zero
    `±2^−14·m/1024`, infinity, NaN -/
theorem half_classes (E : Env ℝ) (hE : Half.RealEnv E) (h : Nat) :
    (1 ≤ expOf h → expOf h ≤ 30 →
      halfToFloat E h = sgnR h * (2 : ℝ) ^ ((expOf h : ℤ) - 15) * (1 + (manOf h : ℝ) / 1024)) ∧
    (expOf h = 0 → halfToFloat E h = sgnR h * (2 : ℝ) ^ (-14 : ℤ) * ((manOf h : ℝ) / 1024)) ∧
    (expOf h = 0 → manOf h = 0 → halfToFloat E h = 0) ∧
    (expOf h = 31 → manOf h = 0 → halfToFloat E h = if h / 32768 % 2 = 1 then -E.inf else E.inf) ∧
    (expOf h = 31 → manOf h ≠ 0 → halfToFloat E h = E.nan) := by
  unfold expOf manOf
  refine ⟨fun h1 h2 => ?_, fun h0 => ?_, fun h0 hm => ?_, fun h31 hm => ?_, fun h31 hm => ?_⟩
  · unfold halfToFloat sgnR
    simp only [natF, Nat.cast_one, Nat.cast_ofNat, if_neg (show ¬ h / 1024 % 32 = 0 by omega),
      if_neg (show ¬ h / 1024 % 32 = 31 by omega)]
    rw [hE]
  · unfold halfToFloat sgnR
    simp only [natF, Nat.cast_one, Nat.cast_ofNat, if_pos h0]
    rw [hE]; split_ifs <;> ring
  · unfold halfToFloat
    simp only [natF, Nat.cast_one, Nat.cast_ofNat, if_pos h0, hm, Nat.cast_zero, mul_zero, zero_div]
  · unfold halfToFloat
    simp only [h31, show (31 : ℕ) ≠ 0 by norm_num, if_false, if_true, ne_eq, hm, not_true_eq_false]
  · unfold halfToFloat
    simp only [h31, show (31 : ℕ) ≠ 0 by norm_num, if_false, if_true, ne_eq, hm, not_false_eq_true]

/-- EXACTNESS: every finite half is `± s · 2^(k − 25)` with an 11-bit significand `s < 2^11` and
    `−24 ≤ k − 25 ≤ 5`: a dyadic that float32 (24-bit significand, exponents down to −149) and float64 hold
    exactly; the source's intermediate values (`m/1024`, `1 + m/1024 = (1024+m)/2^10`, `±2^(e−15)`, their
    product) are of the same kind, so none of its float64 operations rounds and the real-number reading of the
    expression IS its float64 result -/
theorem half_exact_dyadic (E : Env ℝ) (hE : Half.RealEnv E) (h : Nat) (he : expOf h ≠ 31) :
    ∃ s k : Nat, s < 2 ^ 11 ∧ 1 ≤ k ∧ k ≤ 30 ∧ halfToFloat E h = sgnR h * ((s : ℝ) * 2 ^ k / 2 ^ 25) := by
  obtain ⟨s, k, hs, hk1, hk2, e⟩ := num_dyadic h he
  refine ⟨s, k, hs, hk1, hk2, ?_⟩
  rw [halfToFloat_finite E hE h he, e]; push_cast; ring

/-- ONE STEP: on the non-negative finite patterns `0 … 0x7bff` the decoder is strictly increasing and
    consecutive patterns are exactly one unit in the last place apart (`2^(max e 1 − 25)`); hence injective
    there; the largest finite value is 65504, pattern 0 is 0; and a set sign bit negates -/
theorem half_step (E : Env ℝ) (hE : Half.RealEnv E) :
    (∀ h, h + 1 < 31744 → halfToFloat E (h + 1) - halfToFloat E h = 2 ^ ulpExp h / 2 ^ 25) ∧
    (∀ a b, a < b → b < 31744 → halfToFloat E a < halfToFloat E b) ∧
    (∀ a b, a < 31744 → b < 31744 → halfToFloat E a = halfToFloat E b → a = b) ∧
    halfToFloat E 0 = 0 ∧ halfToFloat E 31743 = 65504 ∧
    (∀ h, h < 31744 → halfToFloat E (32768 + h) = -halfToFloat E h) := by
  have fin : ∀ h, h < 31744 → halfToFloat E h = val h := by
    intro h hh
    have he : expOf h ≠ 31 := by rw [expOf_lt h (by omega)]; omega
    rw [halfToFloat_finite E hE h he, (fields_neg h (by omega)).2.2.2, one_mul]; rfl
  refine ⟨fun h hh => ?_, fun a b hab hb => ?_, fun a b ha hb e => ?_, ?_, ?_, fun h hh => ?_⟩
  · rw [fin _ hh, fin _ (by omega), val_succ h hh]; ring
  · rw [fin _ (by omega), fin _ hb]; exact val_strictMono hab hb
  · rw [fin _ ha, fin _ hb] at e
    apply num_injective ha hb
    unfold val at e
    have := (div_left_inj' (by positivity : (2 : ℝ) ^ 25 ≠ 0)).mp e
    exact_mod_cast this
  · rw [fin 0 (by norm_num), val_zero]
  · rw [fin _ (by norm_num), val_max]
  · obtain ⟨a, _, c, _⟩ := fields_neg h (by omega)
    have he : expOf h ≠ 31 := by rw [expOf_lt h (by omega)]; omega
    rw [fin h hh, halfToFloat_finite E hE _ (by rw [a]; exact he), c, num_neg h (by omega)]
    unfold val; ring

/-- ENCODE → DECODE (reference encoder `Half.encode`: sign, then the nearer neighbouring pattern, ties to the even
    pattern).  Guard: `|x| ≤ 65504`, the largest finite half.  The pattern returned is finite; no finite
    pattern decodes to a value nearer to `x`; the error is at most half a unit in the last place of the
    bracket's lower end `floorPat |x|` — in particular `≤ 2^−25` whatever `x` — and, in the NORMAL range
    `2^−14 ≤ |x| ≤ 65504`, at most `|x|·2^−11` -/
theorem half_encode_decode (E : Env ℝ) (hE : Half.RealEnv E) (x : ℝ) (hx : |x| ≤ 65504) :
    expOf (encode x) ≠ 31 ∧
    (∀ k, k < 65536 → expOf k ≠ 31 → |halfToFloat E (encode x) - x| ≤ |halfToFloat E k - x|) ∧
    |halfToFloat E (encode x) - x| ≤ 2 ^ ulpExp (floorPat |x|) / 2 ^ 26 ∧
    (1 / 2 ^ 14 ≤ |x| → |halfToFloat E (encode x) - x| ≤ |x| / 2 ^ 11) := by
  refine ⟨encode_finite x hx, fun k hk he => decode_nearest E hE x hx k hk he, ?_, fun hn => ?_⟩
  · rw [abs_decode_encode E hE x hx]; exact encodeMag_half_ulp |x| (abs_nonneg x) hx
  · rw [abs_decode_encode E hE x hx]; exact encodeMag_relative |x| hn hx

/-- DECODE → ENCODE: the encoder reproduces every finite pattern except the negative zero (which it maps,
    like `+0`, to pattern 0: both decode to the real 0) — decoding loses nothing -/
theorem half_decode_encode (E : Env ℝ) (hE : Half.RealEnv E) (h : Nat) (hh : h < 65536) (he : expOf h ≠ 31)
    (hz : h ≠ 32768) : encode (halfToFloat E h) = h := encode_decode_id E hE h hh he hz

/-- VERSION-1 RECORDS (the counterpart of `spz_dequant_is_published`, which covers version 2): every position
    coordinate of the dequantisation of a version-1 record is the IEEE binary16 datum of its two bytes read
    little endian (`binary.Read(in, LittleEndian, &[]uint16)`) — for every byte pair.  With
    `spz_decode_refEncode` (layout): splat `i` of `spz.Read`'s result on a version-1 stream carries the binary16
    values of record `i`. -/
theorem spz_dequant_v1_position_is_binary16 (E : Env ℝ) (hE : Half.RealEnv E) (h : Header) (hv : h.version = 1)
    (p : Packed) :
    let datum := fun (b0 b1 : UInt8) =>
      let w : BitVec 16 := BitVec.ofNat 16 (b0.toNat + 256 * b1.toNat)
      embed E (Ieee.binary16 w.msb (w.extractLsb' 10 5).toNat (w.extractLsb' 0 10).toNat)
    (dequant E h p).pos = ⟨datum (byteAt p.pos 0) (byteAt p.pos 1), datum (byteAt p.pos 2) (byteAt p.pos 3),
      datum (byteAt p.pos 4) (byteAt p.pos 5)⟩ := by
  have key : ∀ b0 b1 : UInt8, halfCoord E b0 b1 =
      (let w : BitVec 16 := BitVec.ofNat 16 (b0.toNat + 256 * b1.toNat)
       embed E (Ieee.binary16 w.msb (w.extractLsb' 10 5).toNat (w.extractLsb' 0 10).toNat)) := by
    intro b0 b1
    have hw : (BitVec.ofNat 16 (b0.toNat + 256 * b1.toNat)).toNat = b0.toNat + 256 * b1.toNat := by
      rw [BitVec.toNat_ofNat]
      have := b0.toNat_lt; have := b1.toNat_lt
      omega
    simp only []
    rw [← half_is_binary16 E hE, hw]; rfl
  simp only [dequant, if_pos hv, key]

/-! ### non-vacuity: an environment satisfying `RealEnv` with distinct symbolic `inf`/`nan`, closed values, guards -/

/-- the decoder's arithmetic at ℝ; `inf`, `nan` are distinct tokens no finite half equals -/
noncomputable def exHalfEnv : Env ℝ := ⟨fun z => (z : ℝ), fun k => (2 : ℝ) ^ k, 100000, 200000⟩

example : Half.RealEnv exHalfEnv := fun _ => rfl
/-- 0x3c00 = 1, 0xc000 = −2, 0x0001 = 2^−24 (smallest subnormal), 0x0400 = 2^−14 (smallest normal),
    0x7c00 = +∞, 0xfc00 = −∞, 0x7e00 = NaN -/
example : halfToFloat exHalfEnv 0x3c00 = 1 ∧ halfToFloat exHalfEnv 0xc000 = -2 ∧
    halfToFloat exHalfEnv 0x0001 = 1 / 2 ^ 24 ∧ halfToFloat exHalfEnv 0x0400 = 1 / 2 ^ 14 ∧
    halfToFloat exHalfEnv 0x7c00 = 100000 ∧ halfToFloat exHalfEnv 0xfc00 = -100000 ∧
    halfToFloat exHalfEnv 0x7e00 = 200000 := by
  have hE : Half.RealEnv exHalfEnv := fun _ => rfl
  have n1 : num 0x3c00 = 2 ^ 25 := by decide
  have n2 : num 0x4000 = 2 ^ 26 := by decide
  have n3 : num 1 = 2 := by decide
  have n4 : num 0x400 = 2 ^ 11 := by decide
  refine ⟨?_, ?_, ?_, ?_, ?_, ?_, ?_⟩
  · rw [halfToFloat_val _ hE _ (by norm_num), val, n1]; norm_num
  · rw [show (0xc000 : ℕ) = 32768 + 0x4000 by norm_num, halfToFloat_neg_val _ hE _ (by norm_num), val, n2]; norm_num
  · rw [halfToFloat_val _ hE _ (by norm_num), val, n3]; norm_num
  · rw [halfToFloat_val _ hE _ (by norm_num), val, n4]; norm_num
  · exact ((half_classes exHalfEnv hE 0x7c00).2.2.2.1 (by decide) (by decide)).trans (by norm_num [exHalfEnv])
  · exact ((half_classes exHalfEnv hE 0xfc00).2.2.2.1 (by decide) (by decide)).trans (by norm_num [exHalfEnv])
  · exact (half_classes exHalfEnv hE 0x7e00).2.2.2.2 (by decide) (by decide)
/-- the guards of `half_encode_decode` hold for a value in the normal range that is not a half -/
example : |(3.14159 : ℝ)| ≤ 65504 ∧ 1 / 2 ^ 14 ≤ |(3.14159 : ℝ)| := by
  rw [abs_of_pos (by norm_num)]; constructor <;> norm_num
example : (0x3555 : ℕ) < 65536 ∧ expOf 0x3555 ≠ 31 ∧ (0x3555 : ℕ) ≠ 32768 := by decide

end C15
end PolyVerif
