/-
  C02 — Well-formedness is closed under generation and mesh operations.

  Property theorems only.  Models: `PolyVerif/Model/{Mesh,MeshOps,Primitives}.lean`
  (mirroring /repo modeling/mesh.go, modeling/meshops/*.go, modeling/primitives/*.go);
  proofs of the supporting lemmas: `PolyVerif/Lemmas/{MeshWF,PrimIdx}.lean`.
  Every theorem is for ALL meshes / ALL parameter values and every payload type `α`.
-/
import PolyVerif.Lemmas.MeshWF
import PolyVerif.Lemmas.MeshCorners
import PolyVerif.Lemmas.PrimIdx

namespace PolyVerif.C02
open PolyVerif.Mesh PolyVerif.Mesh.MeshVal PolyVerif.Prim

variable {α : Type}

/-! ## Generators

A primitive constructor returns a triangle mesh with index list `tris` whose attribute arrays
(Position, Normal, optionally TexCoord — at least one) all have `n` elements. The correspondence
stream `c02.gen.*` checks, on parameter sweeps, that the Go constructor returns exactly
`(n, tris)` of the Lean generator. -/

/-- `m` is what a primitive constructor with vertex count `n` and index list `tris` returns -/
def IsPrim (m : MeshVal α) (n : Nat) (tris : List Nat) : Prop :=
  m.topology = .triangle ∧ m.indices = tris ∧ m.attrs ≠ [] ∧ ∀ kd ∈ m.attrs, kd.2.length = n

theorem prim_wf {m : MeshVal α} {n : Nat} {tris : List Nat} (h : IsPrim m n tris)
    (hlt : ∀ i ∈ tris, i < n) (hlen : tris.length % 3 = 0) : WF m := by
  obtain ⟨ht, hi, ha, hl⟩ := h
  apply wf_of_uniform n hl
  · rw [hi]; exact hlt
  · intro h0; exact absurd h0 ha
  · rw [ht, hi]; exact hlen

/-- `primitives.UVSphere(radius, rows, columns)` for every accepted `rows ≥ 2`, `columns ≥ 3` -/
theorem uvSphere_wf {rows cols : Nat} (hr : 2 ≤ rows) (hc : 3 ≤ cols) {m : MeshVal α}
    (h : IsPrim m (uvVerts rows cols) (uvSphereTris rows cols)) : WF m :=
  prim_wf h (uvSphereTris_lt hr hc) (uvSphereTris_len rows cols)

example : IsPrim (⟨.triangle, uvSphereTris 2 3, [], [(⟨3, "Position"⟩, List.replicate 5 ())]⟩ : MeshVal Unit)
    (uvVerts 2 3) (uvSphereTris 2 3) :=
  ⟨rfl, rfl, by simp, by simp [uvVerts]⟩

/-- `primitives.UVSphereUnwelded` -/
theorem uvSphereUnwelded_wf (rows cols : Nat) {m : MeshVal α}
    (h : IsPrim m (uvUnweldedVerts rows cols) (uvUnweldedTris rows cols)) : WF m :=
  prim_wf h (uvUnweldedTris_lt rows cols) (uvUnweldedTris_len rows cols)

/-- `primitives.Hemisphere.UV(rows, columns)` -/
theorem hemisphere_wf {rows cols : Nat} (hr : 2 ≤ rows) (hc : 3 ≤ cols) {m : MeshVal α}
    (h : IsPrim m (uvVerts rows cols) (hemisphereTris rows cols)) : WF m :=
  prim_wf h (hemisphereTris_lt hr hc) (hemisphereTris_len rows cols)

/-- `primitives.Circle{Sides}.ToMesh()` for `Sides ≥ 1` -/
theorem circle_wf {sides : Nat} (hs : 1 ≤ sides) {m : MeshVal α}
    (h : IsPrim m (circleVerts sides) (circleTris sides)) : WF m :=
  prim_wf h (circleTris_lt hs) (circleTris_len sides)

/-- `primitives.Cone{Sides}.ToMesh()` for every accepted `Sides ≥ 3` -/
theorem cone_wf {sides : Nat} (hs : 3 ≤ sides) {m : MeshVal α}
    (h : IsPrim m (coneVerts sides) (coneTris sides)) : WF m :=
  prim_wf h (coneTris_lt hs) (coneTris_len sides)

/-- `primitives.Cylinder{Sides, NoTop, NoBottom}.ToMesh()` for `Sides ≥ 1`, all four cap choices -/
theorem cylinder_wf {sides : Nat} (hs : 1 ≤ sides) (top bottom : Bool) {m : MeshVal α}
    (h : IsPrim m (cylinderVerts sides top bottom) (cylinderTris sides top bottom)) : WF m :=
  prim_wf h (cylinderTris_lt hs top bottom) (cylinderTris_len sides top bottom)

example : IsPrim (⟨.triangle, cylinderTris 3 true false, [], [(⟨3, "Position"⟩, List.replicate 12 ())]⟩ : MeshVal Unit)
    (cylinderVerts 3 true false) (cylinderTris 3 true false) :=
  ⟨rfl, rfl, by simp, by simp [cylinderVerts, cylinderSideVerts, circleVerts]⟩

theorem quad_wf {m : MeshVal α} (h : IsPrim m quadVerts quadTris) : WF m :=
  prim_wf h quadTris_ok.1 quadTris_ok.2
theorem cube_wf {m : MeshVal α} (h : IsPrim m cubeVerts cubeTris) : WF m :=
  prim_wf h cubeTris_ok.1 cubeTris_ok.2
theorem cubeUnwelded_wf {m : MeshVal α} (h : IsPrim m cubeUnweldedVerts cubeUnweldedTris) : WF m :=
  prim_wf h cubeUnweldedTris_ok.1 cubeUnweldedTris_ok.2

/-! ## Operations: `WF m → WF (op m)` (or the operation rejects) -/

theorem unweld_wf {m : MeshVal α} (h : WF m) : WF m.unweld := MeshVal.unweld_wf h

theorem toPointCloud_wf {m : MeshVal α} (h : WF m) : WF m.toPointCloud := MeshVal.toPointCloud_wf h

theorem flip_wf {m m' : MeshVal α} (h : WF m) (hf : m.flip = some m') : WF m' := MeshVal.flip_wf h hf

theorem removeUnreferenced_wf {m : MeshVal α} (h : WF m) : WF m.removeUnreferenced :=
  MeshVal.removeUnreferenced_wf h

/-- `SetIndices` is the one setter that can break well-formedness: it preserves it exactly under
    the stated side conditions (the Go code does not check them). -/
theorem setIndices_wf {m : MeshVal α} (h : WF m) (idx : List Nat)
    (hi : ∀ i ∈ idx, i < m.attrLen) (hf : m.topology.Fits idx.length) : WF (m.setIndices idx) :=
  MeshVal.setIndices_wf h idx hi hf

/-- a concrete well-formed mesh with shared and unreferenced vertices used by the non-vacuity examples -/
def sample : MeshVal Nat :=
  ⟨.triangle, [0, 2, 1, 2, 0, 3], [⟨2, 7⟩], [(⟨3, "Position"⟩, [10, 11, 12, 13, 14]), (⟨1, "Class"⟩, [20, 21, 22, 23, 24])]⟩

example : WF sample := by decide
example : ∃ m', sample.flip = some m' := ⟨_, rfl⟩

end PolyVerif.C02
