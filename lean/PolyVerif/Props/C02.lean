/-
  C02 — Well-formedness is closed under generation and mesh operations.

  Property theorems only.  Models: `PolyVerif/Model/{Mesh,MeshOps,Primitives}.lean`
  (mirroring /repo modeling/mesh.go, modeling/meshops/*.go, modeling/primitives/*.go);
  proofs of the supporting lemmas: `PolyVerif/Lemmas/{MeshWF,PrimIdx}.lean`.
  Every theorem is for ALL meshes / ALL parameter values and every payload type `α`.
-/
import PolyVerif.Lemmas.MeshWF
import PolyVerif.Lemmas.MeshWF3
import PolyVerif.Lemmas.MeshTransformsWF
import PolyVerif.Lemmas.MarchingWF
import PolyVerif.Lemmas.PrimIdx

namespace PolyVerif.C02
open PolyVerif.Mesh PolyVerif.Mesh.MeshVal PolyVerif.Prim

variable {α : Type}

/-! ## Generators

A primitive constructor returns a triangle mesh with index list `tris` whose attribute arrays
(Position, Normal, optionally TexCoord — at least one) all have `n` elements. The correspondence
stream `c02.gen.*` checks, on parameter sweeps, that the Go constructor returns exactly
`(n, tris)` of the Lean generator. -/

/-- `m` is what a primitive constructor with vertex count `n` and index list `tris` returns -/
def IsPrim (m : MeshVal α) (n : Nat) (tris : List Nat) : Prop :=
  m.topology = .triangle ∧ m.indices = tris ∧ m.attrs ≠ [] ∧ ∀ kd ∈ m.attrs, kd.2.length = n

theorem prim_wf {m : MeshVal α} {n : Nat} {tris : List Nat} (h : IsPrim m n tris)
    (hlt : ∀ i ∈ tris, i < n) (hlen : tris.length % 3 = 0) : WF m := by
  obtain ⟨ht, hi, ha, hl⟩ := h
  apply wf_of_uniform n hl
  · rw [hi]; exact hlt
  · intro h0; exact absurd h0 ha
  · rw [ht, hi]; exact hlen

/-- `primitives.UVSphere(radius, rows, columns)` for every accepted `rows ≥ 2`, `columns ≥ 3` -/
theorem uvSphere_wf {rows cols : Nat} (hr : 2 ≤ rows) (hc : 3 ≤ cols) {m : MeshVal α}
    (h : IsPrim m (uvVerts rows cols) (uvSphereTris rows cols)) : WF m :=
  prim_wf h (uvSphereTris_lt hr hc) (uvSphereTris_len rows cols)

example : IsPrim (⟨.triangle, uvSphereTris 2 3, [], [(⟨3, "Position"⟩, List.replicate 5 ())]⟩ : MeshVal Unit)
    (uvVerts 2 3) (uvSphereTris 2 3) :=
  ⟨rfl, rfl, by simp, by simp [uvVerts]⟩

/-- `primitives.UVSphereUnwelded` -/
theorem uvSphereUnwelded_wf (rows cols : Nat) {m : MeshVal α}
    (h : IsPrim m (uvUnweldedVerts rows cols) (uvUnweldedTris rows cols)) : WF m :=
  prim_wf h (uvUnweldedTris_lt rows cols) (uvUnweldedTris_len rows cols)

/-- `primitives.Hemisphere.UV(rows, columns)` -/
theorem hemisphere_wf {rows cols : Nat} (hr : 2 ≤ rows) (hc : 3 ≤ cols) {m : MeshVal α}
    (h : IsPrim m (uvVerts rows cols) (hemisphereTris rows cols)) : WF m :=
  prim_wf h (hemisphereTris_lt hr hc) (hemisphereTris_len rows cols)

/-- `primitives.Circle{Sides}.ToMesh()` for every accepted `Sides ≥ 3` -/
theorem circle_wf {sides : Nat} (hs : 3 ≤ sides) {m : MeshVal α}
    (h : IsPrim m (circleVerts sides) (circleTris sides)) : WF m :=
  prim_wf h (circleTris_lt (by omega)) (circleTris_len sides)

/-- `primitives.Cone{Sides}.ToMesh()` for every accepted `Sides ≥ 3` -/
theorem cone_wf {sides : Nat} (hs : 3 ≤ sides) {m : MeshVal α}
    (h : IsPrim m (coneVerts sides) (coneTris sides)) : WF m :=
  prim_wf h (coneTris_lt hs) (coneTris_len sides)

/-- `primitives.Cylinder{Sides, NoTop, NoBottom}.ToMesh()` for `Sides ≥ 3`, all four cap choices
    (with a cap and fewer sides the cap's `Circle` rejects) -/
theorem cylinder_wf {sides : Nat} (hs : 3 ≤ sides) (top bottom : Bool) {m : MeshVal α}
    (h : IsPrim m (cylinderVerts sides top bottom) (cylinderTris sides top bottom)) : WF m :=
  prim_wf h (cylinderTris_lt (by omega) top bottom) (cylinderTris_len sides top bottom)

/-- a cylinder without caps is accepted for every `Sides` (even 0: two vertices, no triangle) -/
theorem cylinder_nocaps_wf (sides : Nat) {m : MeshVal α}
    (h : IsPrim m (cylinderVerts sides false false) (cylinderTris sides false false)) : WF m :=
  prim_wf h (cylinderTris_nocaps_lt sides) (cylinderTris_len sides false false)

example : IsPrim (⟨.triangle, cylinderTris 3 true false, [], [(⟨3, "Position"⟩, List.replicate 12 ())]⟩ : MeshVal Unit)
    (cylinderVerts 3 true false) (cylinderTris 3 true false) :=
  ⟨rfl, rfl, by simp, by simp [cylinderVerts, cylinderSideVerts, circleVerts]⟩

/-- `extrude.Shape` / `extrude.ClosedShape` (any path length ≥ 2 the code accepts, any shape size, open or closed) -/
theorem extrudeShape_wf (pathLen sides : Nat) (close : Bool) {m : MeshVal α}
    (h : IsPrim m (extrudeShapeVerts pathLen sides) (extrudeShapeTris pathLen sides close)) : WF m :=
  prim_wf h (extrudeShapeTris_lt close) (extrudeShapeTris_len pathLen sides close)

example : IsPrim (⟨.triangle, extrudeShapeTris 3 4 true, [], [(⟨3, "Position"⟩, List.replicate 12 ())]⟩ : MeshVal Unit)
    (extrudeShapeVerts 3 4) (extrudeShapeTris 3 4 true) :=
  ⟨rfl, rfl, by simp, by simp [extrudeShapeVerts]⟩

/-- `extrude.Line` for every number of path points (fewer than 2 are rejected by the code) -/
theorem extrudeLine_wf (n : Nat) {m : MeshVal α}
    (h : IsPrim m (extrudeLineVerts n) (extrudeLineTris n)) : WF m :=
  prim_wf h (extrudeLineTris_lt n) (extrudeLineTris_len n)

/-- `extrude.ScrewNodeData.Process` for every line length and segment count (with fewer than 2 of either the
    node returns the empty mesh) -/
theorem screw_wf (lineLen segments : Nat) {m : MeshVal α}
    (h : IsPrim m (screwVerts lineLen segments) (screwTris lineLen segments)) : WF m :=
  prim_wf h (screwTris_lt lineLen segments) (screwTris_len lineLen segments)

example : IsPrim (⟨.triangle, screwTris 3 2, [], [(⟨3, "Position"⟩, List.replicate 6 ())]⟩ : MeshVal Unit)
    (screwVerts 3 2) (screwTris 3 2) := ⟨rfl, rfl, by simp, by simp [screwVerts]⟩

/-- `extrude.polygon` (`Polygon`, `Circle.Extrude`, `CircleAlongSpline.Extrude`): whatever the
    floating point winding test decides for each quad (`flips`), the mesh is well-formed. -/
theorem extrudePolygon_wf (pathLen sides : Nat) (closed : Bool) (flips : List Bool) {m : MeshVal α}
    (h : IsPrim m (polygonVerts pathLen sides) (polygonTris pathLen sides closed flips)) : WF m :=
  prim_wf h (polygonTris_lt pathLen sides closed flips) (polygonTris_len pathLen sides closed flips)

example : IsPrim (⟨.triangle, polygonTris 2 3 false [true, false, true], [], [(⟨3, "Position"⟩, List.replicate 8 ())]⟩ : MeshVal Unit)
    (polygonVerts 2 3) (polygonTris 2 3 false [true, false, true]) :=
  ⟨rfl, rfl, by simp, by simp [polygonVerts]⟩

/-- **every extrusion entry point, all parameters, both branches**: whatever the path length, side count, closing
    flag and winding flags, each extrusion either rejects (`none`, exactly for the stated parameter ranges) or yields a
    vertex count `n` and an index list with every index `< n` and a multiple of three indices. -/
theorem extrusions_total (pathLen sides : Nat) (closed : Bool) (flips : List Bool) :
    (extrudePolygon? pathLen sides closed flips = none ↔ (pathLen < 2 ∨ sides < 3)) ∧
    (∀ n tris, extrudePolygon? pathLen sides closed flips = some (n, tris) → (∀ i ∈ tris, i < n) ∧ tris.length % 3 = 0) ∧
    (extrudeShape? pathLen sides closed = none ↔ pathLen < 2) ∧
    (∀ n tris, extrudeShape? pathLen sides closed = some (n, tris) → (∀ i ∈ tris, i < n) ∧ tris.length % 3 = 0) ∧
    (extrudeLine? pathLen = none ↔ pathLen < 2) ∧
    (∀ n tris, extrudeLine? pathLen = some (n, tris) → (∀ i ∈ tris, i < n) ∧ tris.length % 3 = 0) ∧
    ((∀ i ∈ (screw pathLen sides).2, i < (screw pathLen sides).1) ∧ (screw pathLen sides).2.length % 3 = 0) := by
  refine ⟨?_, ?_, ?_, ?_, ?_, ?_, ?_⟩
  · unfold extrudePolygon?; split <;> simp_all
  · intro n tris h
    unfold extrudePolygon? at h
    split at h
    · cases h
    · cases h; exact ⟨polygonTris_lt _ _ _ _, polygonTris_len _ _ _ _⟩
  · unfold extrudeShape?; split <;> simp_all
  · intro n tris h
    unfold extrudeShape? at h
    split at h
    · cases h
    · cases h; exact ⟨extrudeShapeTris_lt _, extrudeShapeTris_len _ _ _⟩
  · unfold extrudeLine?; split <;> simp_all
  · intro n tris h
    unfold extrudeLine? at h
    split at h
    · cases h
    · cases h; exact ⟨extrudeLineTris_lt _, extrudeLineTris_len _⟩
  · unfold screw
    split
    · simp
    · exact ⟨screwTris_lt _ _, screwTris_len _ _⟩

example : ∃ n tris, extrudePolygon? 3 4 true [true, false] = some (n, tris) ∧ n = 15 := ⟨_, _, rfl, rfl⟩
example : extrudePolygon? 1 4 false [] = none ∧ extrudePolygon? 5 2 false [] = none := ⟨rfl, rfl⟩

theorem quad_wf {m : MeshVal α} (h : IsPrim m quadVerts quadTris) : WF m :=
  prim_wf h quadTris_ok.1 quadTris_ok.2
theorem cube_wf {m : MeshVal α} (h : IsPrim m cubeVerts cubeTris) : WF m :=
  prim_wf h cubeTris_ok.1 cubeTris_ok.2
theorem cubeUnwelded_wf {m : MeshVal α} (h : IsPrim m cubeUnweldedVerts cubeUnweldedTris) : WF m :=
  prim_wf h cubeUnweldedTris_ok.1 cubeUnweldedTris_ok.2

/-! ### marching cubes: vertex / index allocation (`LookupOrAdd`), abstractly -/

/-- The block mesher allocates vertices through `LookupOrAdd` and appends the three returned indices
    per emitted triangle: whatever triangles the case table and the interpolation emit, and whatever
    the rounding key is, the block mesh is well-formed. (Abstract model of canvas.go:37-47, 650-662;
    tied to the code by the `WF` oracle on `March` output only.) -/
theorem marchBlock_wf {V K : Type} [DecidableEq K] (key : V → K) (attr : AttrKey) (ts : List (V × V × V)) :
    WF (March.blockMesh attr (March.marchBlock key ts)) := March.blockMesh_wf key attr ts

example : (March.marchBlock (fun v : Nat => v / 10) [(1, 12, 25), (3, 27, 40)]).tris = [0, 1, 2, 0, 2, 3] := by decide

/-! ## Operations: `WF m → WF (op m)` (or the operation rejects) -/

theorem unweld_wf {m : MeshVal α} (h : WF m) : WF m.unweld := MeshVal.unweld_wf h

theorem toPointCloud_wf {m : MeshVal α} (h : WF m) : WF m.toPointCloud := MeshVal.toPointCloud_wf h

theorem flip_wf {m m' : MeshVal α} (h : WF m) (hf : m.flip = some m') : WF m' := MeshVal.flip_wf h hf

theorem removeUnreferenced_wf {m : MeshVal α} (h : WF m) : WF m.removeUnreferenced :=
  MeshVal.removeUnreferenced_wf h

/-- `SetIndices` is the one setter that can break well-formedness: it preserves it exactly under
    the stated side conditions (the Go code does not check them). -/
theorem setIndices_wf {m : MeshVal α} (h : WF m) (idx : List Nat)
    (hi : ∀ i ∈ idx, i < m.attrLen) (hf : m.topology.Fits idx.length) : WF (m.setIndices idx) :=
  MeshVal.setIndices_wf h idx hi hf

/-- a concrete well-formed mesh with shared and unreferenced vertices used by the non-vacuity examples -/
def sample : MeshVal Nat :=
  ⟨.triangle, [0, 2, 1, 2, 0, 3], [⟨1, 7⟩, ⟨1, 8⟩], [(⟨3, "Position"⟩, [10, 11, 12, 13, 14]), (⟨1, "Class"⟩, [20, 21, 22, 23, 24])]⟩

def cloud : MeshVal Nat :=
  ⟨.point, [3, 0, 0, 2], [], [(⟨3, "Position"⟩, [10, 11, 12, 13, 14]), (⟨1, "Class"⟩, [20, 21, 22, 23, 24])]⟩

example : WF sample := by decide
example : WF cloud := by decide
example : ∃ m', sample.flip = some m' := ⟨_, rfl⟩

/-- `Append` of two well-formed meshes (it rejects different topologies) -/
theorem append_wf {zero : Nat → α} {a b m : MeshVal α} (ha : WF a) (hb : WF b)
    (h : append zero a b = some m) : WF m := MeshVal.append_wf ha hb h

example : ∃ m, append (fun _ => 0) sample sample.unweld = some m ∧ m.attrLen = 11 := ⟨_, rfl, by decide⟩

/-- `SetFloatNAttribute(attr, data)` with `len(data)` = the common attribute length (or on a mesh
    without attributes). Covers the delete-when-empty branch. -/
theorem setAttr_wf {m : MeshVal α} (h : WF m) (k : AttrKey) (data : List α)
    (hd : data.length = m.attrLen ∨ m.attrs = []) : WF (m.setAttr k data) := MeshVal.setAttr_wf h k data hd

/-- `SetFloatNAttribute(attr, empty)` deletes the key: still WF when another attribute array remains or the
    mesh has no index (deleting the only array of an indexed mesh is the one way this setter breaks WF). -/
theorem setAttr_delete_wf {m : MeshVal α} (h : WF m) (k : AttrKey)
    (hk : (∃ kd ∈ m.attrs, kd.1 ≠ k) ∨ m.indices = []) : WF (m.setAttr k []) := MeshVal.setAttr_delete_wf h k hk

example : WF (sample.setAttr ⟨1, "Class"⟩ []) ∧ (sample.setAttr ⟨1, "Class"⟩ []).attrs.length = 1 := by decide

/-- `ClearAttributeData` keeps the indices and drops every attribute array: a caller-checked builder, well-formed
    exactly when there is no index. -/
theorem clearAttrs_wf {m : MeshVal α} (h : WF m) (hi : m.indices = []) : WF m.clearAttrs := MeshVal.clearAttrs_wf h hi

/-- the guard of `clearAttrs_wf` is needed: an indexed mesh loses well-formedness -/
example : ¬ WF sample.clearAttrs := by decide

/-- `SetFloatNData(map)` (raw whole-width setter, nothing checked): well-formed when every new array has the
    common length and some array remains (or there is no index). `CopyFloatNAttribute(src, k)` is
    `setAttr k (src's array)`: guards of `setAttr_wf` / `setAttr_delete_wf`. -/
theorem setData_wf {m : MeshVal α} (h : WF m) (w : Nat) (new : Attrs α)
    (hnew : ∀ kd ∈ new, kd.2.length = m.attrLen)
    (hne : (m.setData w new).attrs ≠ [] ∨ m.indices = []) : WF (m.setData w new) := MeshVal.setData_wf h w new hnew hne

example : WF (sample.setData 3 [(⟨3, "Position"⟩, [1, 2, 3, 4, 5]), (⟨3, "Other"⟩, [0, 0, 0, 0, 0])]) := by decide
example : ¬ WF (sample.setData 3 [(⟨3, "Position"⟩, [1, 2, 3])]) := by decide

/-- every transform that rewrites one attribute array by a length-preserving function:
    `ModifyFloatNAttribute`, `Translate`, `Scale`, `Rotate`, `ApplyTRS`, meshops `TranslateAttribute3D`,
    `ScaleAttribute3D/2D`, `ScaleAttributeAlongNormal`, `RotateAttribute3D`, `CenterFloat3Attribute`,
    `NormalizeAttribute3D/2D`, `LaplacianSmooth`; `none` = the attribute is missing (rejected). -/
theorem modifyAttr_wf {m m' : MeshVal α} (h : WF m) {k : AttrKey} {f : List α → List α}
    (hf : ∀ d, (f d).length = d.length) (hm : m.modifyAttr k f = some m') : WF m' :=
  MeshVal.modifyAttr_wf h hf hm

theorem mapAttr_wf {m m' : MeshVal α} (h : WF m) {k : AttrKey} {φ : α → α}
    (hm : m.mapAttr k φ = some m') : WF m' := MeshVal.mapAttr_wf h hm

example : ∃ m', sample.mapAttr ⟨3, "Position"⟩ (· + 1) = some m' := ⟨_, rfl⟩

/-- `SmoothNormals` / `FlatNormals`: a Normal array with one entry per position is set (a new key or
    a replaced one). -/
theorem setNormals_wf {m : MeshVal α} (h : WF m) {pos : List α} (hp : m.attr? ⟨3, "Position"⟩ = some pos)
    (normals : List α) (hn : normals.length = pos.length) : WF (m.setAttr ⟨3, "Normal"⟩ normals) :=
  MeshVal.setAttr_wf h _ _ (Or.inl (by rw [hn]; exact h.1 _ (Attrs.find?_mem hp)))

/-- `FilterFloat1..4`: a point cloud is filtered to a well-formed point cloud; every other topology
    and a missing attribute are rejected. -/
theorem filterAttr_wf {m m' : MeshVal α} (h : WF m) {k : AttrKey} {p : α → Bool}
    (hm : m.filterAttr k p = some m') : WF m' := MeshVal.filterAttr_wf h hm

theorem filterAttr_rejects_non_point (m : MeshVal α) (k : AttrKey) (p : α → Bool) (h : m.topology ≠ .point) :
    m.filterAttr k p = none := by unfold filterAttr; simp [h]

example : ∃ m', cloud.filterAttr ⟨1, "Class"⟩ (· < 23) = some m' ∧ m'.indices = [0, 0, 1] := ⟨_, rfl, by decide⟩

/-- The defect repaired by /repo commit fc6738f, as a theorem about the pre-fix behaviour: without the
    point-topology requirement the filter returns a triangle mesh with 5 indices. -/
theorem filterAttrOld_breaks_triangles :
    ∃ (m m' : MeshVal Nat), WF m ∧ m.filterAttrOld ⟨3, "Position"⟩ (· < 13) = some m' ∧ ¬ WF m' :=
  ⟨⟨.triangle, [0, 1, 2, 2, 1, 3], [], [(⟨3, "Position"⟩, [10, 11, 12, 13])]⟩, _, by decide, rfl, by decide⟩

/-- `CropFloat3Attribute` (point clouds only; whatever the incoming indices are) -/
theorem crop_wf {m m' : MeshVal α} (h : WF m) {k : AttrKey} {inside : α → Bool}
    (hm : m.crop k inside = some m') : WF m' := MeshVal.crop_wf h hm

example : ∃ m', cloud.crop ⟨3, "Position"⟩ (· > 11) = some m' ∧ m'.indices = [0, 1, 2] := ⟨_, rfl, by decide⟩

/-- `RemoveNullFaces3D` for every keep-predicate on triangles -/
theorem removeNullFaces_wf {m m' : MeshVal α} (h : WF m) {k : AttrKey} {keep : Nat → Nat → Nat → Bool}
    (hm : m.removeNullFaces k keep = some m') : WF m' := MeshVal.removeNullFaces_wf h hm

example : ∃ m', sample.removeNullFaces ⟨3, "Position"⟩ (fun a _ _ => a == 0) = some m' ∧ m'.attrLen = 3 :=
  ⟨_, rfl, by decide⟩

/-- `SplitOnUniqueMaterials`: every part is well-formed (`none` = the material ranges run out
    before the triangles do, where the Go loop panics, or the mesh is not a triangle mesh). -/
theorem splitOnMaterials_wf {m : MeshVal α} {parts : List (MeshVal α)} (h : WF m)
    (hs : m.splitOnMaterials = some parts) : ∀ p ∈ parts, WF p := MeshVal.splitOnMaterials_wf h hs

example : ∃ ps, sample.splitOnMaterials = some ps ∧ ps.length = 2 := ⟨_, rfl, by decide⟩

/-- `WeldByFloat3Attribute` for every key function (the Go code uses `Vector3ToInt(·, decimals)`) -/
theorem weld_wf {K : Type} [DecidableEq K] {m m' : MeshVal α} (h : WF m) {k : AttrKey} {key : α → K}
    (hw : m.weld k key = some m') : WF m' := MeshVal.weld_wf h hw

example : ∃ m', sample.weld ⟨3, "Position"⟩ (· % 3) = some m' ∧ m'.attrLen = 3 ∧ m'.indices = [0, 2, 1] :=
  ⟨_, rfl, by decide⟩

/-- `repeat.Mesh(mesh, transforms)` for every list of transforms -/
theorem repeatMesh_wf {zero : Nat → α} {pos : AttrKey} {m r : MeshVal α} (h : WF m)
    (ts : List (α → α)) (hr : repeatMesh zero pos m ts = some r) : WF r := MeshVal.repeatMesh_wf h ts hr

example : ∃ r, repeatMesh (fun _ => 0) ⟨3, "Position"⟩ sample [(· + 1), (· + 2), id] = some r ∧ r.attrLen = 15 :=
  ⟨_, rfl, by decide⟩

/-! ### the concrete transforms of `Model/MeshTransforms.lean` (any scalar type `s`) -/

section transforms
open PolyVerif PolyVerif.Gen
variable {s : Type} [Scalar s]

theorem translate_wf {m m' : MeshVal (List s)} (h : WF m) {n : String} {t : V3 s}
    (hm : m.translate n t = some m') : WF m' := MeshVal.mapAttr_wf h hm
theorem scaleAbout_wf {m m' : MeshVal (List s)} (h : WF m) {n : String} {o a : V3 s}
    (hm : m.scaleAbout n o a = some m') : WF m' := MeshVal.mapAttr_wf h hm
theorem scaleMesh_wf {m m' : MeshVal (List s)} (h : WF m) {a : V3 s}
    (hm : m.scaleMesh a = some m') : WF m' := MeshVal.mapAttr_wf h hm
theorem rotate_wf {m m' : MeshVal (List s)} (h : WF m) {n : String} {q : quaternion.Quaternion s}
    (hm : m.rotate n q = some m') : WF m' := MeshVal.mapAttr_wf h hm
theorem applyTRS_wf {m m' : MeshVal (List s)} (h : WF m) {t : trs.TRS s}
    (hm : m.applyTRS t = some m') : WF m' := MeshVal.mapAttr_wf h hm
theorem center_wf {m m' : MeshVal (List s)} (h : WF m) {mn mx : s → s → s} {n : String}
    (hm : MeshVal.center mn mx m n = some m') : WF m' := MeshVal.center_wf h hm
theorem normalize_wf {m m' : MeshVal (List s)} (h : WF m) {init : s} {mx : s → s → s} {n : String}
    (hm : MeshVal.normalize init mx m n = some m') : WF m' := MeshVal.normalize_wf h hm
theorem smoothNormals_wf {m m' : MeshVal (List s)} (h : WF m)
    (hm : m.smoothNormals = some m') : WF m' := MeshVal.smoothNormals_wf h hm
theorem flatNormals_wf {m m' : MeshVal (List s)} (h : WF m)
    (hm : m.flatNormals = some m') : WF m' := MeshVal.flatNormals_wf h hm
theorem laplacian_wf {m m' : MeshVal (List s)} (h : WF m) {n : String} {iters : Nat} {factor : s}
    (hm : m.laplacian n iters factor = some m') : WF m' := MeshVal.laplacian_wf h hm

end transforms

/-- `marchFloat1` folds the block meshes with `Append` from the empty mesh: the result is well-formed
    for every list of blocks (each well-formed by `marchBlock_wf`). -/
theorem march_wf {zero : Nat → α} {t : Topology} (blocks : List (MeshVal α)) (hb : ∀ b ∈ blocks, WF b) {r : MeshVal α}
    (hr : blocks.foldl (fun acc b => acc.bind fun a => append zero a b) (some (MeshVal.empty t)) = some r) : WF r := by
  suffices hgen : ∀ (bs : List (MeshVal α)) (acc : Option (MeshVal α)), (∀ b ∈ bs, WF b) → (∀ a, acc = some a → WF a) →
      ∀ r, bs.foldl (fun acc b => acc.bind fun a => append zero a b) acc = some r → WF r from
    hgen blocks _ hb (fun a ha => by cases ha; exact MeshVal.empty_wf _) r hr
  intro bs
  induction bs with
  | nil => intro acc _ hacc r hr; exact hacc r hr
  | cons b bs ih =>
    intro acc hbs hacc r hr
    simp only [List.foldl_cons] at hr
    apply ih _ (fun b' hb' => hbs b' (by simp [hb'])) _ r hr
    intro a ha
    cases hacc' : acc with
    | none => simp [hacc'] at ha
    | some a0 =>
      simp only [hacc', Option.bind_some] at ha
      exact append_wf (hacc a0 hacc') (hbs b (by simp)) ha

/-! ## Any finite composition of operations -/

/-- one application of a mesh operation (with arbitrary parameters) to `m` yielding `m'`.
    GUARDS: `setIndices`, `setAttr`, `setAttrDelete`, `clearAttrs`, `setData` (and `CopyFloatNAttribute` = `setAttr`)
    take caller-supplied data that the Go code does not check; they are steps only under the stated length /
    range guards (with other data they are builders whose result the caller completes — outside `ops_closed`).
    Every other constructor is unconditional: the operation either rejects or yields `m'`. -/
inductive Step (zero : Nat → α) : MeshVal α → MeshVal α → Prop
  | unweld (m) : Step zero m m.unweld
  | removeUnreferenced (m) : Step zero m m.removeUnreferenced
  | toPointCloud (m) : Step zero m m.toPointCloud
  | flip {m m'} : m.flip = some m' → Step zero m m'
  | setMaterials (m ms) : Step zero m (m.setMaterials ms)
  | setMaterial (m mat) : Step zero m (m.setMaterial mat)
  -- caller-checked builders: each carries the guard under which it keeps WF (the Go code checks none of them)
  | setAttrDelete (m k) : ((∃ kd ∈ m.attrs, kd.1 ≠ k) ∨ m.indices = []) → Step zero m (m.setAttr k [])
  | clearAttrs (m) : m.indices = [] → Step zero m m.clearAttrs
  | setData (m w new) : (∀ kd ∈ new, kd.2.length = m.attrLen) → ((m.setData w new).attrs ≠ [] ∨ m.indices = []) →
      Step zero m (m.setData w new)
  | setIndices (m idx) : (∀ i ∈ idx, i < m.attrLen) → m.topology.Fits idx.length → Step zero m (m.setIndices idx)
  | setAttr (m k data) : (data.length = m.attrLen ∨ m.attrs = []) → Step zero m (m.setAttr k data)
  | modifyAttr {m m'} (k f) : (∀ d, (f d).length = d.length) → m.modifyAttr k f = some m' → Step zero m m'
  | appendRight {m m'} (b) : WF b → append zero m b = some m' → Step zero m m'
  | appendLeft {m m'} (a) : WF a → append zero a m = some m' → Step zero m m'
  | filter {m m'} (k p) : m.filterAttr k p = some m' → Step zero m m'
  | crop {m m'} (k inside) : m.crop k inside = some m' → Step zero m m'
  | removeNullFaces {m m'} (k keep) : m.removeNullFaces k keep = some m' → Step zero m m'
  | splitPart {m m'} (parts) : m.splitOnMaterials = some parts → m' ∈ parts → Step zero m m'
  | weld {m m'} (K : Type) [DecidableEq K] (k) (key : α → K) : m.weld k key = some m' → Step zero m m'
  | repeatMesh {m m'} (pos ts) : repeatMesh zero pos m ts = some m' → Step zero m m'

/-- finitely many steps -/
inductive Steps (zero : Nat → α) : MeshVal α → MeshVal α → Prop
  | refl (m) : Steps zero m m
  | tail {a b c} : Steps zero a b → Step zero b c → Steps zero a c

theorem step_wf {zero : Nat → α} {m m' : MeshVal α} (hs : Step zero m m') (h : WF m) : WF m' := by
  cases hs with
  | unweld => exact unweld_wf h
  | removeUnreferenced => exact removeUnreferenced_wf h
  | toPointCloud => exact toPointCloud_wf h
  | flip hf => exact flip_wf h hf
  | setMaterials => exact h
  | setMaterial => exact h
  | setAttrDelete k hk => exact setAttr_delete_wf h k hk
  | clearAttrs hi => exact clearAttrs_wf h hi
  | setData w new hnew hne => exact setData_wf h w new hnew hne
  | setIndices idx hi hf => exact setIndices_wf h idx hi hf
  | setAttr k data hd => exact setAttr_wf h k data hd
  | modifyAttr k f hf hm => exact modifyAttr_wf h hf hm
  | appendRight b hb ha => exact append_wf h hb ha
  | appendLeft a ha' ha => exact append_wf ha' h ha
  | filter k p hm => exact filterAttr_wf h hm
  | crop k i hm => exact crop_wf h hm
  | removeNullFaces k keep hm => exact removeNullFaces_wf h hm
  | splitPart parts hs hp => exact splitOnMaterials_wf h hs _ hp
  | weld K k key hw => exact weld_wf h hw
  | repeatMesh pos ts hr => exact repeatMesh_wf h ts hr

/-- **C02, operations clause**: every mesh reachable from a well-formed mesh by any finite sequence
    of (non-rejected) operations, with any parameters, is well-formed. -/
theorem ops_closed {zero : Nat → α} {m m' : MeshVal α} (hs : Steps zero m m') (h : WF m) : WF m' := by
  induction hs with
  | refl => exact h
  | tail _ hstep ih => exact step_wf hstep ih

section
open PolyVerif PolyVerif.Gen
variable {s : Type} [Scalar s]

/-- a step on meshes with vector payloads: any generic step, or one of the ten concrete transforms -/
inductive StepT (zero : Nat → List s) : MeshVal (List s) → MeshVal (List s) → Prop
  | generic {m m'} : Step zero m m' → StepT zero m m'
  | translate {m m'} (n t) : m.translate n t = some m' → StepT zero m m'
  | scaleAbout {m m'} (n o a) : m.scaleAbout n o a = some m' → StepT zero m m'
  | scaleMesh {m m'} (a) : m.scaleMesh a = some m' → StepT zero m m'
  | rotate {m m'} (n q) : m.rotate n q = some m' → StepT zero m m'
  | applyTRS {m m'} (t) : m.applyTRS t = some m' → StepT zero m m'
  | center {m m'} (mn mx n) : MeshVal.center mn mx m n = some m' → StepT zero m m'
  | normalize {m m'} (init mx n) : MeshVal.normalize init mx m n = some m' → StepT zero m m'
  | smoothNormals {m m'} : m.smoothNormals = some m' → StepT zero m m'
  | flatNormals {m m'} : m.flatNormals = some m' → StepT zero m m'
  | laplacian {m m'} (n iters factor) : m.laplacian n iters factor = some m' → StepT zero m m'

inductive StepsT (zero : Nat → List s) : MeshVal (List s) → MeshVal (List s) → Prop
  | refl (m) : StepsT zero m m
  | tail {a b c} : StepsT zero a b → StepT zero b c → StepsT zero a c

/-- **C02, operations clause including the ten transforms**: layout operations, guarded setters and
    translate / scale / rotate / TRS / centre / normalise / smooth normals / flat normals / Laplacian, in any finite
    sequence, keep a well-formed mesh well-formed. -/
theorem ops_closed_transforms {zero : Nat → List s} {m m' : MeshVal (List s)} (hs : StepsT zero m m') (h : WF m) : WF m' := by
  induction hs with
  | refl => exact h
  | tail _ hstep ih =>
    cases hstep with
    | generic hg => exact step_wf hg ih
    | translate n t hm => exact translate_wf ih hm
    | scaleAbout n o a hm => exact scaleAbout_wf ih hm
    | scaleMesh a hm => exact scaleMesh_wf ih hm
    | rotate n q hm => exact rotate_wf ih hm
    | applyTRS t hm => exact applyTRS_wf ih hm
    | center mn mx n hm => exact center_wf ih hm
    | normalize init mx n hm => exact normalize_wf ih hm
    | smoothNormals hm => exact smoothNormals_wf ih hm
    | flatNormals hm => exact flatNormals_wf ih hm
    | laplacian n iters factor hm => exact laplacian_wf ih hm

end

/-- marching cubes end to end (abstract model): every block is meshed by `marchBlock` from *any* emitted triangle
    list, the block meshes are folded with `Append` from the empty mesh — the result is well-formed. -/
theorem march_blocks_wf {V K : Type} [DecidableEq K] (key : V → K) (attr : AttrKey) {zero : Nat → V}
    (tss : List (List (V × V × V))) {r : MeshVal V}
    (hr : (tss.map fun ts => March.blockMesh attr (March.marchBlock key ts)).foldl
            (fun acc b => acc.bind fun a => append zero a b) (some (MeshVal.empty .triangle)) = some r) : WF r :=
  march_wf _ (fun b hb => by
    obtain ⟨ts, _, rfl⟩ := List.mem_map.mp hb
    exact marchBlock_wf key attr ts) hr

example : ∃ r, ([[(1, 12, 25), (3, 27, 40)], [(5, 6, 70)]].map fun ts =>
      March.blockMesh ⟨3, "Position"⟩ (March.marchBlock (fun v : Nat => v / 10) ts)).foldl
        (fun acc b => acc.bind fun a => append (fun _ => 0) a b) (some (MeshVal.empty .triangle)) = some r ∧
    r.indices = [0, 1, 2, 0, 2, 3, 4, 4, 5] := ⟨_, rfl, by decide⟩

example : Steps (fun _ => 0) sample sample.unweld.removeUnreferenced.toPointCloud :=
  .tail (.tail (.tail (.refl _) (.unweld _)) (.removeUnreferenced _)) (.toPointCloud _)

end PolyVerif.C02
