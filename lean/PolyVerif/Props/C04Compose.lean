/-
  C04 — the composed round trip for the binary encodings (little- and big-endian).

  Interface: the parsed header.  The theorems are about `readBody c defaultReader (writeHeader cfg m) body` where
  `writeBody c cfg m = .ok body`, i.e. everything `MeshReader.Read` does after `ReadHeader` has returned, run on
  everything `MeshWriter.Write` emits after the header.  The header TEXT round trip
  (`parseHeader ((writeHeader cfg m).render ++ body) = .ok (writeHeader cfg m, body)`) is NOT proved; it is checked
  byte-for-byte on every run by the `c04.header` correspondence lines.
-/
import PolyVerif.Model.Ply
import PolyVerif.Lemmas.Ply
import PolyVerif.Lemmas.PlyCompose
import PolyVerif.Lemmas.PlyNames
import PolyVerif.Lemmas.PlyUV

namespace PolyVerif
namespace C04
open Ply PlyLemmas PlyCompose PlyHeader

variable {α : Type}

/-- STAGES 1+2 (vertex loop and face loop), with and without per-corner texture coordinates, for ANY located readers:
reading back a written binary body yields exactly these arrays (the stored-precision image `quantBin` of every
component each reader claims, vertex by vertex) and exactly this index list and per-corner UV list (the float32 images
of the three corners' coordinates), before mesh assembly. -/
theorem ply_readback_arrays_binary (c : Coding α) (cfg : WriterCfg) (m : MeshVal α) (body : Bytes)
    (hf : cfg.format ≠ .ascii) (hwf : m.WF = true) (h : writeBody c cfg m = .ok body)
    (bl : List (Built × List Nat))
    (hbuilt : bl.map (·.1) = buildAll true (headerProps (selectWriters cfg m)) defaultReaders true)
    (hloc : ∀ p ∈ bl, Located (writerTypes (selectWriters cfg m)) p.1 p.2) :
    ∃ (recs : List (List α)),
      (List.range m.attrLen).mapM (vertexRecord m (selectWriters cfg m)) = .ok recs ∧
      (m.topo ≠ .triangle →
        readBody c defaultReader (writeHeader cfg m) body
          = assemble (bl.map (·.1)) m.attrLen (recs.map (rowOfW c (writerTypes (selectWriters cfg m)) bl)) none) ∧
      (m.topo = .triangle → ∃ tris fs, chunk3 m.indices = some tris ∧ faceRecords m tris = .ok fs ∧
        readBody c defaultReader (writeHeader cfg m) body
          = assemble (bl.map (·.1)) m.attrLen (recs.map (rowOfW c (writerTypes (selectWriters cfg m)) bl))
              (some ((fs.map faceIdx).flatten, (fs.map (faceUV c)).flatten))) :=
  readBody_writeBody_arrays c cfg m body hf hwf h bl hbuilt hloc

/-- THE COMPOSED ROUND TRIP, binary encodings, every writer configuration, every well-formed point cloud or triangle
mesh, WITH OR WITHOUT per-corner texture coordinates: what the reader makes of what the writer wrote satisfies `RoundTrips` —
the SAME predicate the `c04.holds.roundtrip` oracle evaluates: same topology, same primitive count, and at every
primitive corner every attribute the configuration writes under names the reader recognises carries the stored-precision
image (`quant`) of the original value.

Guards, all explicit: binary format; `m.WF`; `writeBody` succeeded (implemented scalar types); a point cloud's index buffer is `0..n-1` (the writer does not store it);
fewer than 2³¹ vertices (indices are written as int32); and `ClaimOK` (that the header's property names are single
words and pairwise distinct is no longer a hypothesis: `writeBody … = .ok` implies it, the writer rejects anything else):
the claim stage, as witnesses — every reader `defaultReader` builds on this header is located where its names are, and
every recognised writer has its reader, the last one with its key. -/
theorem ply_roundtrip_binary_partial [BEq α] [LawfulBEq α] (c : Coding α) (cfg : WriterCfg) (m : MeshVal α) (body : Bytes)
    (hf : cfg.format ≠ .ascii) (hwf : m.WF = true) (h : writeBody c cfg m = .ok body)
    (hpoint : m.topo = .point → m.indices = (List.range m.attrLen).map Int.ofNat)
    (hsize : m.attrLen ≤ 2 ^ 31)
    (bl : List (Built × List Nat)) (hcl : ClaimOK cfg m bl) :
    ∃ back, readBody c defaultReader (writeHeader cfg m) body = .ok back ∧ RoundTrips c cfg m back = true := by
  -- the header's property names are pairwise distinct: `Write` rejects anything else (writer.go:144-158)
  have hnd := (names_of_writeBody_ok c cfg m body h).2
  by_cases huv : m.topo = .triangle ∧ hasTexCoord m = true
  · -- per-corner texture coordinates: face `texcoord` list → unweld → TexCoord (`readback_uv`)
    exact readback_uv c cfg m body hf hwf h huv.1 huv.2 hsize hnd bl hcl
  · obtain ⟨recs, hrecs, hread⟩ := readBody_writeBody_mesh c cfg m body hf hwf h huv hpoint hsize bl hcl
    exact ⟨_, hread, roundTrips_of_mesh c cfg m body hf hwf h huv hnd bl hcl recs hrecs⟩

/-- the per-corner UV path on its own: a triangle mesh WITH `TexCoord` is written with a `texcoord` list of six floats per
face (the three corners' UVs looked up through the index buffer); the reader collects them, unwelds the mesh — every corner
becomes its own vertex carrying the stored-precision image of the welded source vertex' attributes — and attaches the
float32 images of the corners' UVs as `TexCoord` -/
theorem ply_roundtrip_binary_uv [BEq α] [LawfulBEq α] (c : Coding α) (cfg : WriterCfg) (m : MeshVal α) (body : Bytes)
    (hf : cfg.format ≠ .ascii) (hwf : m.WF = true) (h : writeBody c cfg m = .ok body)
    (htri : m.topo = .triangle) (htc : hasTexCoord m = true) (hsize : m.attrLen ≤ 2 ^ 31)
    (bl : List (Built × List Nat)) (hcl : ClaimOK cfg m bl) :
    ∃ back, readBody c defaultReader (writeHeader cfg m) body = .ok back ∧ RoundTrips c cfg m back = true :=
  readback_uv c cfg m body hf hwf h htri htc hsize (names_of_writeBody_ok c cfg m body h).2 bl hcl

/-- the same with the claim-stage guard as a DECIDABLE certificate: `claimCheck cfg m` runs the claim function on the
header the writer emits, locates every built reader by name lookup and checks everything `ClaimOK` asks for
(`claimCheck_sound`).  For a concrete configuration and attribute set the hypothesis is discharged by `decide`. -/
theorem ply_roundtrip_binary_checked [BEq α] [LawfulBEq α] (c : Coding α) (cfg : WriterCfg) (m : MeshVal α) (body : Bytes)
    (hf : cfg.format ≠ .ascii) (hwf : m.WF = true) (h : writeBody c cfg m = .ok body)
    (hpoint : m.topo = .point → m.indices = (List.range m.attrLen).map Int.ofNat)
    (hsize : m.attrLen ≤ 2 ^ 31)
    (hcheck : (claimCheck cfg m).isSome = true) :
    ∃ back, readBody c defaultReader (writeHeader cfg m) body = .ok back ∧ RoundTrips c cfg m back = true := by
  obtain ⟨bl, hbl⟩ := Option.isSome_iff_exists.mp hcheck
  exact ply_roundtrip_binary_partial c cfg m body hf hwf h hpoint hsize bl (claimCheck_sound cfg m bl hbl)

/-! non-vacuity: a welded triangle mesh with positions, 8-bit colours and a user scalar, default writer, big-endian;
and a point cloud written by a custom configuration (double positions under `px py pz`, renamed scalar) -/

def exMesh : MeshVal Nat :=
  ⟨.triangle, [2, 0, 1, 1, 0, 3],
   [⟨3, positionAttr, [[1, 2, 3], [4, 5, 6], [7, 8, 9], [10, 11, 12]]⟩,
    ⟨3, colorAttr, [[0, 1, 0], [1, 1, 0], [0, 0, 1], [1, 0, 1]]⟩,
    ⟨1, nm "quality", [[5], [6], [7], [8]]⟩], none⟩

example : ∃ back, readBody toyCoding defaultReader (writeHeader (defaultWriter .be) exMesh)
      ((writeBody toyCoding (defaultWriter .be) exMesh).toOption.getD []) = .ok back ∧
    RoundTrips toyCoding (defaultWriter .be) exMesh back = true :=
  ply_roundtrip_binary_checked toyCoding (defaultWriter .be) exMesh _ (by decide) (by decide) (by decide) (by decide)
    (by decide) (by decide)

def exCloud : MeshVal Nat :=
  ⟨.point, [0, 1], [⟨3, positionAttr, [[1, 2, 3], [4, 5, 6]]⟩, ⟨1, nm "q", [[5], [6]]⟩], none⟩

def exCfg : WriterCfg := ⟨.le, [⟨nm "q", [nm "q"], .int⟩, ⟨positionAttr, [nm "px", nm "py", nm "pz"], .double⟩], false⟩

example : ∃ back, readBody toyCoding defaultReader (writeHeader exCfg exCloud)
      ((writeBody toyCoding exCfg exCloud).toOption.getD []) = .ok back ∧ RoundTrips toyCoding exCfg exCloud back = true :=
  ply_roundtrip_binary_checked toyCoding exCfg exCloud _ (by decide) (by decide) (by decide) (by decide)
    (by decide) (by decide)

/-! ### towards `ClaimOK` from header-level guards: the reader-construction step (`PropertyReader.build*`) -/

/-- a 2/3/4-vector reader all of whose component names are in the header (pairwise distinct names, one scalar type) IS
built, with that type, located at its components' header positions — for any header order -/
theorem ply_reader_built_all (binary : Bool) (props : List (Bytes × SType)) (r : RProp) (hlen : 2 ≤ r.names.length)
    (hn : r.names.Nodup) (hnd : (props.map (·.1)).Nodup) (t : SType) (idx : List Nat)
    (hl : idx.length = r.names.length)
    (hidx : ∀ k (hk : k < r.names.length), ∃ hi : idx[k]'(by omega) < props.length, props[idx[k]'(by omega)] = (r.names[k], t)) :
    buildReader binary props r = some ⟨r.attr, r.names, idx.map (locOf binary props), some t⟩ :=
  buildReader_all binary props r hlen hn hnd t idx hl hidx

/-- THE IGNORABLE-W FALLBACK (colours without alpha: what the default writer emits for `Color`): `red green blue` present
with one type, `alpha` ABSENT ⇒ the 4-vector reader is not built and the 3-vector reader over the first three names is,
located at their header positions.  (Before fix 8c2f8cb the binary reader forced a differently-typed `alpha`'s type on the
whole group — the finding behind the corpus case `c04.holds.alpha_next_to_color`.) -/
theorem ply_color_fallback_reader (binary : Bool) (props : List (Bytes × SType)) (r : RProp) (hlen : r.names.length = 4)
    (hign : r.ignorableW = true) (hn : r.names.Nodup) (hnd : (props.map (·.1)).Nodup) (t : SType) (idx : List Nat)
    (hl : idx.length = 3)
    (hidx : ∀ k (hk : k < 3), ∃ hi : idx[k]'(by omega) < props.length,
      props[idx[k]'(by omega)] = (r.names[k]'(by omega), t))
    (habs : ∀ p ∈ props, p.1 ≠ r.names[3]'(by omega)) :
    buildReader binary props r = some ⟨r.attr, r.names.take 3, idx.map (locOf binary props), some t⟩ :=
  buildReader_fallback binary props r hlen hign hn hnd t idx hl hidx habs

example : buildReader true [(nm "x", .float), (nm "blue", .uchar), (nm "red", .uchar), (nm "green", .uchar)]
    ⟨colorAttr, [nm "red", nm "green", nm "blue", nm "alpha"], true⟩
    = some ⟨colorAttr, [nm "red", nm "green", nm "blue"], [5, 6, 4], some .uchar⟩ := by decide

/-- since fix 8c2f8cb the same fallback applies when `alpha` is present under ANOTHER type (user scalar "alpha" next to the
default writer's uchar colours): the 4-vector is not claimed, the uchar 3-vector is, `alpha` stays a scalar -/
example : buildReader true [(nm "red", .uchar), (nm "green", .uchar), (nm "blue", .uchar), (nm "alpha", .float)]
    ⟨colorAttr, [nm "red", nm "green", nm "blue", nm "alpha"], true⟩
    = some ⟨colorAttr, [nm "red", nm "green", nm "blue"], [0, 1, 2], some .uchar⟩ := by decide

/-- a welded, UV-mapped quad (two triangles sharing an edge, one unreferenced vertex): the per-corner path -/
def exUV : MeshVal Nat :=
  ⟨.triangle, [0, 1, 2, 2, 1, 3],
   [⟨3, positionAttr, [[1, 2, 3], [4, 5, 6], [7, 8, 9], [10, 11, 12], [13, 14, 15]]⟩,
    ⟨2, texCoordAttr, [[0, 0], [1, 0], [0, 1], [1, 1], [7, 7]]⟩,
    ⟨3, normalAttr, [[0, 0, 1], [0, 0, 1], [0, 0, 1], [0, 0, 1], [0, 1, 0]]⟩], none⟩

example : ∃ back, readBody toyCoding defaultReader (writeHeader (defaultWriter .le) exUV)
      ((writeBody toyCoding (defaultWriter .le) exUV).toOption.getD []) = .ok back ∧
    RoundTrips toyCoding (defaultWriter .le) exUV back = true :=
  ply_roundtrip_binary_checked toyCoding (defaultWriter .le) exUV _ (by decide) (by decide) (by rfl) (by decide)
    (by decide) (by decide)

/-- the rejected branch: a name with a blank, and a name used twice (user scalar `x` next to Position), make the write
fail — nothing unreadable is produced -/
example : writeBody toyCoding (defaultWriter .le)
    ⟨.point, [0], [⟨3, positionAttr, [[1, 2, 3]]⟩, ⟨1, nm "my attr", [[5]]⟩], none⟩ = .error .err := by decide
example : writeBody toyCoding (defaultWriter .le)
    ⟨.point, [0], [⟨3, positionAttr, [[1, 2, 3]]⟩, ⟨1, nm "x", [[5]]⟩], none⟩ = .error .err := by decide

end C04
end PolyVerif
