/-
  C15 (round 2) — SPZ whole-file composition: pack → layout → gzip → `spz.Read` → every splat within its step.

  `spz_write_read` is the SPZ analogue of `splat_write_read`.  The repository has NO SPZ writer beyond the header
  (`/repo/formats/spz/write.go`), so the writing side is the specification: the reference packer `SpzRef.*`
  (Lemmas/SpzQuant.lean, from `packGaussians` of the published encoder; version-1 positions through the reference
  half-float encoder `Half.encode` of Props/C15Half) followed by `Spz.refEncode` (the published layout) and gzip.
  The reading side is the model of `spz.Read` (`Spz.read`, tied bit for bit by `c15.spz.read`) behind
  `gzip.NewReader`, which enters only through the named trusted law `GzipLaw` — a hypothesis, not an axiom.
-/
import PolyVerif.Props.C15
import PolyVerif.Props.C15Half
import PolyVerif.Lemmas.SpzQuant

namespace PolyVerif
namespace C15
open Spz SpzRef

/-- the trusted law of `compress/gzip`: decompressing what was compressed gives the bytes back -/
structure GzipLaw (gzip : List UInt8 → List UInt8) (gunzip : List UInt8 → Option (List UInt8)) : Prop where
  roundtrip : ∀ b, gunzip (gzip b) = some b

inductive FileErr where
  | gzip
  | spz (e : Spz.Err)

/-- `spz.Read` (load.go:138-199): `gzip.NewReader`, then header, validation, the six reads, dequantisation -/
def readFile {α : Type} [Scalar α] (gunzip : List UInt8 → Option (List UInt8)) (E : Env α) (bs : List UInt8) :
    Except FileErr (Cloud α) :=
  match gunzip bs with
  | none => .error .gzip
  | some raw =>
    match Spz.read E raw with
    | .ok c => .ok c
    | .error e => .error (.spz e)

/-- reference packer of one position -/
noncomputable def packPos (h : Header) (p : V3 ℝ) : List UInt8 :=
  if h.version = 1 then le2 (Half.encode p.x) ++ le2 (Half.encode p.y) ++ le2 (Half.encode p.z)
  else fix3 (fixedOf h.fractionalBits p.x) ++ fix3 (fixedOf h.fractionalBits p.y) ++ fix3 (fixedOf h.fractionalBits p.z)

/-- reference packer of one splat (opacity in the sigmoid domain, rotation with `w ≥ 0` — `w` is not stored) -/
noncomputable def pack (h : Header) (s : Point ℝ) : Packed :=
  { pos := packPos h s.pos,
    alpha := encAlpha s.alpha,
    color := [encColor s.color.x, encColor s.color.y, encColor s.color.z],
    scale := [encScale s.scale.x, encScale s.scale.y, encScale s.scale.z],
    rot := [encRot s.rot.x, encRot s.rot.y, encRot s.rot.z],
    sh := s.sh.flatMap fun v => [encSh v.x, encSh v.y, encSh v.z] }

/-- the whole file: records packed, laid out planar behind the header, compressed -/
noncomputable def writeFile (gzip : List UInt8 → List UInt8) (h : Header) (cloud : List (Point ℝ)) : List UInt8 :=
  gzip (refEncode h (cloud.map (pack h)))

/-! ### "within one quantisation step", field by field (each with its representable range as a guard) -/

/-- version 2: half a unit of the 24-bit fixed point while `round(x·2^fb)` fits 24 bits; version 1: half a unit in
    the last place of the half float below `|x|` (so `≤ 2^−25`), and relative `2^−11` in the normal range, while
    `|x| ≤ 65504` -/
def PosOk (h : Header) (x x' : ℝ) : Prop :=
  if h.version = 1 then
    |x| ≤ 65504 → |x' - x| ≤ 2 ^ Half.ulpExp (Half.floorPat |x|) / 2 ^ 26 ∧ (1 / 2 ^ 14 ≤ |x| → |x' - x| ≤ |x| / 2 ^ 11)
  else
    -8388608 ≤ fixedOf h.fractionalBits x → fixedOf h.fractionalBits x < 8388608 →
      |x' - x| ≤ 1 / 2 ^ (h.fractionalBits + 1)
def AlphaOk (a a' : ℝ) : Prop := 0 ≤ a → a ≤ 1 → |a' - a| ≤ 1 / 510
def ColorOk (c c' : ℝ) : Prop := -(10 / 3) ≤ c → c ≤ 10 / 3 → |c' - c| ≤ 2 / 153
def ScaleOk (s s' : ℝ) : Prop := -10 ≤ s → s ≤ 95 / 16 → |s' - s| ≤ 1 / 32
def RotOk2 (r r' : ℝ) : Prop := -1 ≤ r → r ≤ 1 → |r' - r| ≤ 1 / 255
def ShOk (c c' : ℝ) : Prop := -1 ≤ c → c ≤ 127 / 128 → |c' - c| ≤ 1 / 256

structure PointWithinStep (h : Header) (s t : Point ℝ) : Prop where
  pos : PosOk h s.pos.x t.pos.x ∧ PosOk h s.pos.y t.pos.y ∧ PosOk h s.pos.z t.pos.z
  alpha : AlphaOk s.alpha t.alpha
  color : ColorOk s.color.x t.color.x ∧ ColorOk s.color.y t.color.y ∧ ColorOk s.color.z t.color.z
  scale : ScaleOk s.scale.x t.scale.x ∧ ScaleOk s.scale.y t.scale.y ∧ ScaleOk s.scale.z t.scale.z
  /-- `w` is recomputed from the decoded `x y z` -/
  rot : RotOk2 s.rot.x t.rot.x ∧ RotOk2 s.rot.y t.rot.y ∧ RotOk2 s.rot.z t.rot.z ∧
    t.rot.w = rotW t.rot.x t.rot.y t.rot.z
  sh : t.sh.length = s.sh.length ∧ ∀ d (hs : d < s.sh.length) (ht : d < t.sh.length),
    ShOk s.sh[d].x t.sh[d].x ∧ ShOk s.sh[d].y t.sh[d].y ∧ ShOk s.sh[d].z t.sh[d].z

theorem posOk_half_aux (E : Env ℝ) (hE : SpzRef.RealEnv E) (h : Header) (hv : h.version = 1) (x : ℝ) :
    PosOk h x (halfCoord E (byteAt (le2 (Half.encode x)) 0) (byteAt (le2 (Half.encode x)) 1)) := by
  unfold PosOk
  rw [if_pos hv]
  intro hx
  rw [halfCoord_le2 E _ (encode_lt x hx)]
  have := half_encode_decode E hE.2 x hx
  exact ⟨this.2.2.1, this.2.2.2⟩

theorem posOk_fixed_aux (E : Env ℝ) (hE : SpzRef.RealEnv E) (h : Header) (hv : h.version ≠ 1)
    (hfb : h.fractionalBits ≤ 62) (x : ℝ) :
    PosOk h x (fixedCoord E h.fractionalBits (byteAt (fix3 (fixedOf h.fractionalBits x)) 0)
      (byteAt (fix3 (fixedOf h.fractionalBits x)) 1) (byteAt (fix3 (fixedOf h.fractionalBits x)) 2)) := by
  unfold PosOk
  rw [if_neg hv]
  exact fun h0 h1 => fixed_step E hE _ hfb x h0 h1

/-- ONE RECORD: the packed record has the sizes the header demands and its dequantisation (the model's decoder
    functions) is within one step of the splat in every field -/
theorem spz_pack_within_step (E : Env ℝ) (hE : SpzRef.RealEnv E) (h : Header) (hfb : h.fractionalBits ≤ 62)
    (s : Point ℝ) (hs : s.sh.length = shDim h.shDegree) :
    (pack h s).fits h ∧ PointWithinStep h s (dequant E h (pack h s)) := by
  constructor
  · refine ⟨?_, rfl, rfl, rfl, ?_⟩
    · unfold pack packPos posBytes
      split_ifs <;> rfl
    · show (s.sh.flatMap fun v => [encSh v.x, encSh v.y, encSh v.z]).length = 3 * shDim h.shDegree
      rw [flatMap_length_const s.sh _ 3 (fun _ _ => rfl), hs, Nat.mul_comm]
  · refine ⟨?_, ?_, ?_, ?_, ?_, ?_⟩
    · by_cases hv : h.version = 1
      · have e : (dequant E h (pack h s)).pos =
            ⟨halfCoord E (byteAt (le2 (Half.encode s.pos.x)) 0) (byteAt (le2 (Half.encode s.pos.x)) 1),
             halfCoord E (byteAt (le2 (Half.encode s.pos.y)) 0) (byteAt (le2 (Half.encode s.pos.y)) 1),
             halfCoord E (byteAt (le2 (Half.encode s.pos.z)) 0) (byteAt (le2 (Half.encode s.pos.z)) 1)⟩ := by
          simp only [dequant, pack, packPos, if_pos hv]; rfl
        rw [e]
        exact ⟨posOk_half_aux E hE h hv _, posOk_half_aux E hE h hv _, posOk_half_aux E hE h hv _⟩
      · have e : (dequant E h (pack h s)).pos =
            ⟨fixedCoord E h.fractionalBits (byteAt (fix3 (fixedOf h.fractionalBits s.pos.x)) 0)
               (byteAt (fix3 (fixedOf h.fractionalBits s.pos.x)) 1) (byteAt (fix3 (fixedOf h.fractionalBits s.pos.x)) 2),
             fixedCoord E h.fractionalBits (byteAt (fix3 (fixedOf h.fractionalBits s.pos.y)) 0)
               (byteAt (fix3 (fixedOf h.fractionalBits s.pos.y)) 1) (byteAt (fix3 (fixedOf h.fractionalBits s.pos.y)) 2),
             fixedCoord E h.fractionalBits (byteAt (fix3 (fixedOf h.fractionalBits s.pos.z)) 0)
               (byteAt (fix3 (fixedOf h.fractionalBits s.pos.z)) 1) (byteAt (fix3 (fixedOf h.fractionalBits s.pos.z)) 2)⟩ := by
          simp only [dequant, pack, packPos, if_neg hv]; rfl
        rw [e]
        exact ⟨posOk_fixed_aux E hE h hv hfb _, posOk_fixed_aux E hE h hv hfb _, posOk_fixed_aux E hE h hv hfb _⟩
    · exact fun h0 h1 => alpha_step _ h0 h1
    · have c : ∀ c : ℝ, ColorOk c (colorDec (encColor c)) := fun c h0 h1 =>
        color_step c (by linarith) (by linarith)
      exact ⟨c _, c _, c _⟩
    · exact ⟨fun h0 h1 => scale_step _ h0 h1, fun h0 h1 => scale_step _ h0 h1, fun h0 h1 => scale_step _ h0 h1⟩
    · exact ⟨fun h0 h1 => rot_step _ h0 h1, fun h0 h1 => rot_step _ h0 h1, fun h0 h1 => rot_step _ h0 h1, rfl⟩
    · refine ⟨by simp [dequant, hs], fun d hd ht => ?_⟩
      have key : ∀ c, c < 3 → byteAt (pack h s).sh (d * 3 + c) =
          byteAt ((fun v : V3 ℝ => [encSh v.x, encSh v.y, encSh v.z]) s.sh[d]) c :=
        fun c hc => byteAt_flatMap s.sh _ 3 (fun _ _ => rfl) d hd c hc
      have e : (dequant E h (pack h s)).sh[d] = shCoef (pack h s) d := by
        simp [dequant]
      rw [e]
      simp only [shCoef, key 0 (by norm_num), key 1 (by norm_num), key 2 (by norm_num)]
      exact ⟨fun h0 h1 => sh_step _ h0 h1, fun h0 h1 => sh_step _ h0 h1, fun h0 h1 => sh_step _ h0 h1⟩

/-- WHOLE FILE, for every cloud (any count including 0 and 1, either version, SH degree 0–3, fractional bits ≤ 62):
    reading what was written succeeds, every attribute array has one entry per splat (one SH array per
    coefficient, each with one entry per splat), and splat `i` of the result — the same index in every array —
    is within one quantisation step of splat `i` of the cloud in every field -/
theorem spz_write_read {gzip : List UInt8 → List UInt8} {gunzip : List UInt8 → Option (List UInt8)}
    (G : GzipLaw gzip gunzip) (E : Env ℝ) (hE : SpzRef.RealEnv E) (h : Header) (hr : h.inRange)
    (hv : h.valid = true) (hfb : h.fractionalBits ≤ 62) (cloud : List (Point ℝ))
    (hn : cloud.length = h.numPoints) (hsh : ∀ s ∈ cloud, s.sh.length = shDim h.shDegree) :
    ∃ c, readFile gunzip E (writeFile gzip h cloud) = .ok c ∧
      c.positions.length = cloud.length ∧ c.alphas.length = cloud.length ∧ c.colors.length = cloud.length ∧
      c.scales.length = cloud.length ∧ c.rotations.length = cloud.length ∧
      c.sh.length = shDim h.shDegree ∧ (∀ a ∈ c.sh, a.length = cloud.length) ∧
      ∀ i (hi : i < cloud.length), ∃ t : Point ℝ,
        c.positions[i]? = some t.pos ∧ c.alphas[i]? = some t.alpha ∧ c.colors[i]? = some t.color ∧
        c.scales[i]? = some t.scale ∧ c.rotations[i]? = some t.rot ∧
        (∀ d, d < shDim h.shDegree → (c.sh[d]?.bind (·[i]?)) = t.sh[d]?) ∧
        PointWithinStep h cloud[i] t := by
  have hf : ∀ p ∈ cloud.map (pack h), p.fits h := by
    intro p hp
    obtain ⟨s, hs, rfl⟩ := List.mem_map.mp hp
    exact (spz_pack_within_step E hE h hfb s (hsh s hs)).1
  obtain ⟨c, hc, e1, e2, e3, e4, e5, e6, _⟩ :=
    spz_decode_refEncode E h hr hv (cloud.map (pack h)) (by simpa using hn) hf []
  rw [List.append_nil] at hc
  refine ⟨c, ?_, by simp [e1], by simp [e2], by simp [e3], by simp [e4], by simp [e5], by simp [e6], ?_, ?_⟩
  · simp only [readFile, writeFile, G.roundtrip, hc]
  · intro a ha
    rw [e6] at ha
    obtain ⟨d, _, rfl⟩ := List.mem_map.mp ha
    simp
  · intro i hi
    refine ⟨dequant E h (pack h cloud[i]), ?_, ?_, ?_, ?_, ?_, ?_,
      (spz_pack_within_step E hE h hfb cloud[i] (hsh _ (List.getElem_mem hi))).2⟩
    · simp [e1, hi]
    · simp [e2, hi]
    · simp [e3, hi]
    · simp [e4, hi]
    · simp [e5, hi]
    · intro d hd
      simp [e6, hd, hi, dequant]

/-- OBSERVATION as a theorem (`fractionalBits = 63`, previously only mirrored and tied): Go's `1 << 63` on a 64-bit
    `int` is the minimum integer, so `scale = 1/float64(b)` is `−2^−63` and EVERY coordinate comes out with the
    opposite sign of the published value `v / 2^63` -/
theorem spz_fixed_point_fb63_sign_flip (E : Env ℝ) (hE : SpzRef.RealEnv E) (b0 b1 b2 : UInt8) :
    fixedCoord E 63 b0 b1 b2 = -(((fixed24 b0 b1 b2 : Int) : ℝ) / 2 ^ 63) := by
  simp only [fixedCoord, posScale, hE.1, shl1, natF, if_neg (show ¬ (63 < 63) by omega), if_true]
  push_cast
  rw [one_div, inv_neg, mul_neg, div_eq_mul_inv]
  norm_num

/-! ### non-vacuity -/

/-- a version-1 cloud of two splats, SH degree 1 (three coefficients each), values not representable exactly -/
noncomputable def exCloud : List (Point ℝ) :=
  [⟨⟨3.14159, -0.001, 1000.3⟩, 0.4, ⟨0.3, -1.2, 2⟩, ⟨-3.3, 0.01, 2⟩, ⟨0.1, -0.2, 0.3, 0.9⟩,
    [⟨0.1, 0.2, -0.3⟩, ⟨0, 0.5, -1⟩, ⟨0.7, 0.11, 0.99⟩]⟩,
   ⟨⟨0, 0, 0⟩, 1, ⟨0, 0, 0⟩, ⟨0, 0, 0⟩, ⟨0, 0, 0, 1⟩, [⟨0, 0, 0⟩, ⟨0, 0, 0⟩, ⟨0, 0, 0⟩]⟩]

def exHeaderV1 : Header := ⟨magicNum, 1, 2, 1, 12, 0, 0⟩

example : exHeaderV1.inRange ∧ exHeaderV1.valid = true ∧ exHeaderV1.fractionalBits ≤ 62 ∧
    exCloud.length = exHeaderV1.numPoints ∧ ∀ s ∈ exCloud, s.sh.length = shDim exHeaderV1.shDegree := by
  refine ⟨by simp [Header.inRange, exHeaderV1, magicNum], by decide, by decide, rfl, ?_⟩
  intro s hs
  simp only [exCloud, List.mem_cons, List.not_mem_nil, or_false] at hs
  rcases hs with rfl | rfl <;> rfl

/-- the law is satisfiable (identity "compression"), and an environment satisfies `RealEnv` -/
example : GzipLaw id some := ⟨fun _ => rfl⟩
example : SpzRef.RealEnv ⟨fun z => (z : ℝ), fun k => (2 : ℝ) ^ k, 0, 0⟩ := ⟨fun _ => rfl, fun _ => rfl⟩

end C15
end PolyVerif
