/-
  C06 — scene level, assembled: what is proved of `C06_scene_full` and what is not.
-/
import PolyVerif.Props.C06Valid
import PolyVerif.Props.C06Dedup
import PolyVerif.Props.C06Node

namespace PolyVerif
namespace C06
open Gltf

/-- all scene hypotheses together: well-formed meshes (admissible attribute data of one length, indices below it,
    a written attribute whenever there are indices), admissible GPU instances, pairwise different glTF attribute names
    within a mesh -/
def SceneWF (s : Scene) : Prop := SceneOK2 s ∧ ∀ m ∈ s.meshHeap, KeysOK m

/-- `C06_scene_full` with its third conjunct (`dedupOK`, a Bool on scene × document) replaced by the table-level dedup
    invariants: for EVERY well-formed scene the writer accepts, the written document and buffer satisfy `valid` (all of
    it) and `carriesScene` (all of it), the material tracker stores equal-by-value materials once with pairwise
    non-`equal` entries, and the mesh table is a partial injection (mesh id, material index) ↦ mesh index.
    MISSING for `C06_scene_full`: the conjunct `dedupOK s w.doc = true` itself, i.e. (i) `matCarried`: the material a
    model's primitive references SHOWS that model's material (factors, colours, and each texture reference resolving through
    textures → images / samplers to the texture's URI, sampler and transform), (ii) the node-level restatement of the two
    table invariants, (iii) no duplicate entries in `textures` / `images` / `samplers`. -/
theorem gltf_scene_full_partial (s : Scene) (w : W) (hs : SceneWF s) (h : writeScene s = .ok w) :
    valid w.doc w.buf = true ∧ carriesScene s w.doc w.buf = true
    ∧ MatT (fun i => s.texHeap[i]?) w ∧ MeshT w :=
  ⟨gltf_scene_valid s w hs.1 h, gltf_carries_scene s w ⟨hs.1.1, hs.2⟩ h, gltf_dedup_consistent s w h⟩

/-- the three oracle predicates for one scene and the state the writer reached -/
def C06_scene_full_for (s : Scene) (w : W) : Prop :=
  valid w.doc w.buf = true ∧ carriesScene s w.doc w.buf = true ∧ dedupOK s w.doc = true

/-- `SceneWF` plus the meaning of `eqKey` (`ExtCongr`: material-extension values of the scene that compare `==` in Go —
    same id, same key — are the same value) -/
def SceneWF2 (s : Scene) : Prop := SceneWF s ∧ ExtCongr s

/-- THE SCENE-LEVEL PROPERTY (everything except the alignment clause, which is false of the code:
    `gltf_alignment_counterexample`).  For EVERY well-formed scene the writer accepts, the written document and buffer
    satisfy `valid` (structural consistency: lengths, every reference, every byte range, min/max, index values, attribute
    counts, extensions declared), `carriesScene` (decoding returns exactly the stored image of every model's attributes
    and indices; node and instance transforms are the model's) and `dedupOK` (shared meshes / materials / textures are
    stored once and referenced consistently; every model's material is shown by the material it references).
    `C06_scene_full` (the same without hypotheses) is NOT a theorem and is not expected to be: an ill-formed mesh (index
    out of range, attribute arrays of different lengths) is written as it is. -/
theorem gltf_scene_full (s : Scene) (w : W) (hs : SceneWF2 s) (h : writeScene s = .ok w) : C06_scene_full_for s w :=
  ⟨gltf_scene_valid s w hs.1.1 h, gltf_carries_scene s w ⟨hs.1.1.1, hs.1.2⟩ h, gltf_dedup_ok s w hs.1.1.1 hs.2 h⟩

/-! ### non-vacuity of the scene hypotheses -/

def exMesh : PMesh :=
  { topo := 0, indices := [0, 1, 2],
    attrs := [{ name := "Position", dim := 3, vals := [[0, 0, 0], [0, 0x3f800000, 0], [0x3f800000, 0, 0]] },
              { name := "Color", dim := 4, vals := [[0, 0, 0, 0x3f800000], [0, 0, 0, 0x3f800000], [0, 0, 0, 0x3f800000]] }] }

theorem exMesh_written : exMesh.written =
    [{ name := "Color", dim := 4, vals := [[0, 0, 0, 0x3f800000], [0, 0, 0, 0x3f800000], [0, 0, 0, 0x3f800000]] },
     { name := "Position", dim := 3, vals := [[0, 0, 0], [0, 0x3f800000, 0], [0x3f800000, 0, 0]] }] := by
  simp [exMesh, PMesh.written, attrsOfDim, sortByName]

theorem exMesh_attrLen : exMesh.attrLen = 3 := by
  simp [exMesh, PMesh.attrLen, attrsOfDim, sortByName]

def exScene : Scene :=
  { meshHeap := [exMesh], texHeap := [], matHeap := [],
    models := [{ name := "a", mesh := some 0, material := none, translation := none, rotation := none, scale := none,
                 instances := [] }],
    lights := [] }

/-- non-vacuity of the scene hypotheses: a triangle with positions and colours -/
theorem exScene_wf : SceneWF exScene := by
  unfold exScene
  refine ⟨⟨⟨?_, ?_⟩, ?_⟩, ?_⟩
  · intro m hm
    simp only [List.mem_singleton] at hm; subst hm
    refine ⟨?_, ?_, ?_⟩
    · rw [exMesh_written, exMesh_attrLen]
      intro a ha
      simp only [List.mem_cons, List.mem_nil_iff, or_false] at ha
      rcases ha with rfl | rfl <;>
        simp [VecsOK, attrComp, Comp.size, posInf32, negInf32, isNaN32]
    · rw [exMesh_attrLen]; simp [exMesh]
    · rw [exMesh_attrLen]; decide
  · intro md hmd
    simp only [List.mem_singleton] at hmd; subst hmd
    intro t ht; cases ht
  · intro m hm
    simp only [List.mem_singleton] at hm; subst hm
    left; rw [exMesh_written]; simp
  · intro m hm
    simp only [List.mem_singleton] at hm; subst hm
    unfold KeysOK; rw [exMesh_written]
    simp [gltfAttrName]

theorem exScene_wf2 : SceneWF2 exScene :=
  ⟨exScene_wf, by intro a ha; simp [exScene] at ha⟩

end C06
end PolyVerif
