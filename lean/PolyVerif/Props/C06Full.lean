/-
  C06 — scene level, assembled: what is proved of `C06_scene_full` and what is not.
-/
import PolyVerif.Props.C06Valid
import PolyVerif.Props.C06Dedup
import PolyVerif.Props.C06Node

namespace PolyVerif
namespace C06
open Gltf

/-- all scene hypotheses together.  `SceneOK`: every heap mesh is well formed (`MeshWF`: each written attribute has `dim`
    components per vertex that fit the component type, no ±Inf, no NaN in a FLOAT VEC4, ONE common length `attrLen`; every
    index < `attrLen` ≤ 2³²) and GPU instances are admissible (`InstWF`).  `TopoOK`: triangle or point topology.
    `ExtCongr`: the meaning of `eqKey` (material-extension values of the scene that compare `==` in Go — same id, same
    key — are the same value).
    EXCLUDED input classes (accepted by the writer, outside these hypotheses): meshes whose attribute arrays have different
    lengths or with an index ≥ the vertex count (not well-formed meshes; written as they are); ±Inf attribute data and NaN
    in a FLOAT VEC4 / an instance rotation (`encoding/json` refuses the document); line / line-strip / line-loop / quad
    topologies (written without a mode, i.e. as TRIANGLES — observation, outside the property's quantifier).
    NOT hypotheses any more (consequences of acceptance since fd26630): pairwise different glTF attribute names; a written
    attribute whenever there are indices. -/
def SceneWF (s : Scene) : Prop := SceneOK s ∧ TopoOK s ∧ ExtCongr s

/-- the three oracle predicates for one scene and the state the writer reached -/
def C06_scene_full_for (s : Scene) (w : W) : Prop :=
  valid w.doc w.buf = true ∧ carriesScene s w.doc w.buf = true ∧ dedupOK s w.doc = true

/-- THE SCENE-LEVEL PROPERTY (everything except the alignment clause, which is false of the code:
    `gltf_alignment_counterexample`).  For every scene satisfying `SceneWF` that the writer accepts, the written document and
    buffer satisfy `valid` (structural consistency: lengths, every reference, every byte range, min/max, index values,
    attribute counts, extensions declared), `carriesScene` (decoding returns exactly the stored image of every model's
    attributes and indices; node and instance transforms are the model's) and `dedupOK` (shared meshes / materials /
    textures are stored once and referenced consistently; every model's material is shown by the material it references).
    `C06_scene_full` (the same without hypotheses) is NOT a theorem and is not expected to be: an ill-formed mesh (index
    out of range, attribute arrays of different lengths) is written as it is. -/
theorem gltf_scene_full (s : Scene) (w : W) (hs : SceneWF s) (h : writeScene s = .ok w) : C06_scene_full_for s w :=
  ⟨gltf_scene_valid s w hs.1 h, gltf_carries_scene s w ⟨hs.1, hs.2.1⟩ h, gltf_dedup_ok s w hs.1 hs.2.2 h⟩

/-! ### non-vacuity of the scene hypotheses -/

def exMesh : PMesh :=
  { topo := 0, indices := [0, 1, 2],
    attrs := [{ name := "Position", dim := 3, vals := [[0, 0, 0], [0, 0x3f800000, 0], [0x3f800000, 0, 0]] },
              { name := "Color", dim := 4, vals := [[0, 0, 0, 0x3f800000], [0, 0, 0, 0x3f800000], [0, 0, 0, 0x3f800000]] }] }

theorem exMesh_written : exMesh.written =
    [{ name := "Color", dim := 4, vals := [[0, 0, 0, 0x3f800000], [0, 0, 0, 0x3f800000], [0, 0, 0, 0x3f800000]] },
     { name := "Position", dim := 3, vals := [[0, 0, 0], [0, 0x3f800000, 0], [0x3f800000, 0, 0]] }] := by
  simp [exMesh, PMesh.written, attrsOfDim, sortByName]

theorem exMesh_attrLen : exMesh.attrLen = 3 := by
  simp [exMesh, PMesh.attrLen, attrsOfDim, sortByName]

def exScene : Scene :=
  { meshHeap := [exMesh], texHeap := [], matHeap := [],
    models := [{ name := "a", mesh := some 0, material := none, translation := none, rotation := none, scale := none,
                 instances := [] }],
    lights := [] }

/-- non-vacuity of the scene hypotheses: a triangle with positions and colours -/
theorem exMesh_wf : MeshWF exMesh := by
  refine ⟨?_, ?_, ?_⟩
  · rw [exMesh_written, exMesh_attrLen]
    intro a ha
    simp only [List.mem_cons, List.mem_nil_iff, or_false] at ha
    rcases ha with rfl | rfl <;>
      simp [VecsOK, attrComp, Comp.size, posInf32, negInf32, isNaN32]
  · rw [exMesh_attrLen]; simp [exMesh]
  · rw [exMesh_attrLen]; decide

/-- non-vacuity of the scene hypotheses: a triangle with positions and colours -/
theorem exScene_wf : SceneWF exScene := by
  unfold exScene
  refine ⟨⟨?_, ?_⟩, ?_, ?_⟩
  · intro m hm; simp only [List.mem_singleton] at hm; subst hm; exact exMesh_wf
  · intro md hmd
    simp only [List.mem_singleton] at hmd; subst hmd
    intro t ht; cases ht
  · intro m hm; simp only [List.mem_singleton] at hm; subst hm; exact Or.inl rfl
  · intro a ha; simp at ha

def richMat : PMaterial :=
  { name := "m", alphaMode := none, alphaCutoff := none, hasPbr := true, baseColor := none, metallic := none, roughness := none,
    baseColorTex := some 0, metalRoughTex := none, emissive := none, normalTex := some (0, none), occlusionTex := none, exts := [] }

def richScene : Scene :=
  { meshHeap := [exMesh],
    texHeap := [{ uri := "a.png", sampler := some { mag := 9729, min := 9728, wrapS := 10497, wrapT := 10497, name := "s" },
                  xform := some [1, 2], xformRequired := true }],
    matHeap := [richMat, richMat],
    models := [{ name := "a", mesh := some 0, material := some 0, translation := some [1, 2, 3], rotation := none, scale := none,
                 instances := [[0, 0, 0, 1, 1, 1, 0, 0, 0, 1]] },
               { name := "b", mesh := some 0, material := some 1, translation := none, rotation := none, scale := none,
                 instances := [] },
               { name := "c", mesh := some 0, material := none, translation := none, rotation := none, scale := none,
                 instances := [] }],
    lights := [[0, 0, 0, 0, 0, 0, 0, 0, 0, 0, 0, 0]] }

theorem richScene_accepted : (match writeScene richScene with
    | .ok w => (w.meshes.length, w.materials.length, w.nodes.length, w.textures.length)
    | .error _ => (0, 0, 0, 0)) = (2, 1, 4, 1) := by decide +kernel

theorem richScene_wf : SceneWF richScene := by
  refine ⟨⟨?_, ?_⟩, ?_, ?_⟩
  · intro m hm; simp only [richScene, List.mem_singleton] at hm; subst hm; exact exMesh_wf
  · intro md hmd
    simp only [richScene, List.mem_cons, List.mem_nil_iff, or_false] at hmd
    rcases hmd with rfl | rfl | rfl
    · intro t ht
      simp only [List.mem_singleton] at ht; subst ht
      simp [posInf32, negInf32, isNaN32]
    · intro t ht; cases ht
    · intro t ht; cases ht
  · intro m hm; simp only [richScene, List.mem_singleton] at hm; subst hm; exact Or.inl rfl
  · intro a ha b hb e he
    simp only [richScene, List.mem_cons, List.mem_nil_iff, or_false] at ha
    rcases ha with rfl | rfl <;> simp [richMat] at he

/-- NON-VACUITY, jointly: a scene with a mesh shared by three models, two equal-by-value materials (stored once), a
    texture with sampler and required transform used twice by them, GPU instances and a light satisfies the hypotheses of
    `gltf_scene_full` AND is accepted by the writer (2 meshes, 1 material, 4 nodes, 1 texture) -/
theorem richScene_ok : ∃ w, writeScene richScene = .ok w ∧ SceneWF richScene ∧ C06_scene_full_for richScene w := by
  have hacc := richScene_accepted
  cases h : writeScene richScene with
  | error e => rw [h] at hacc; simp at hacc
  | ok w => exact ⟨w, rfl, richScene_wf, gltf_scene_full richScene w richScene_wf h⟩

end C06
end PolyVerif
