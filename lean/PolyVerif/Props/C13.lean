/-
  C13 — concurrent parameter updates and artifact reads are linearizable.  Property theorems only.
-/
import PolyVerif.Model.Linz
import PolyVerif.Gen.LockFacts

namespace PolyVerif
namespace C13

end C13
end PolyVerif
