/-
  C13 — concurrent parameter updates, parameter reads and artifact reads are linearizable.
  Property theorems only.  Model: PolyVerif/Model/Linz.lean over the node graph of C11
  (PolyVerif/Model/Nodes.lean); lock facts regenerated from /repo/generator/graph/instance.go into
  PolyVerif/Gen/LockFacts.lean on every run.
-/
import PolyVerif.Lemmas.Linz
import PolyVerif.Gen.LockFacts

namespace PolyVerif
namespace C13
open Nodes Linz

/-! ### the tie to the source: the three entry points are well locked -/

section WellLocked
open Gen.LockFacts

def isAccess : Ev → Bool
  | .access _ => true
  | _ => false

/-- explicit unlocking: accesses / pure code, then exactly `unlock, ret` (no early return, no second
    lock operation) -/
def explicitBody : List Ev → Bool
  | [] => false
  | e :: es =>
    match e with
    | .unlock => es == [.ret]
    | .access _ => explicitBody es
    | .pure _ => explicitBody es
    | .producersLookup => explicitBody es
    | _ => false

/-- what may follow `.lock`: the deferred unlock immediately, then a body with no further lock
    operation and exactly ONE return, which is its last event; or a body that unlocks explicitly as
    its last act (`explicitBody`: no lock operation and no return before the `unlock`, nothing but
    the single `ret` after it) -/
def afterLock : List Ev → Bool
  | .deferUnlock :: body =>
    match body.reverse with
    | .ret :: mid => mid.all (fun e => e ≠ .lock ∧ e ≠ .unlock ∧ e ≠ .deferUnlock ∧ e ≠ .ret)
    | _ => false
  | rest => explicitBody rest

/-- before `.lock` only the whitelisted producers-map lookup and pure code (panic / fmt.Errorf) -/
def lockedEvs : List Ev → Bool
  | [] => false
  | e :: es =>
    match e with
    | .lock => afterLock es
    | .producersLookup => lockedEvs es
    | .pure _ => lockedEvs es
    | _ => false

/-- the obligation on one function; it must also contain at least one access (else the extractor
    has lost sight of the body) -/
def wellLocked (f : Fn) : Bool := lockedEvs f.evs && f.evs.any isAccess

theorem explicitBody_unlock {es : List Ev} (h : explicitBody es = true) : .unlock ∈ es := by
  induction es with
  | nil => simp [explicitBody] at h
  | cons e es ih =>
    cases e <;> simp only [explicitBody] at h <;> first
      | exact List.mem_cons_self ..
      | exact List.mem_cons_of_mem _ (ih h)
      | cases h

theorem explicitBody_sound {es : List Ev} (h : explicitBody es = true) (l1 l2 : List Ev) (w : String)
    (heq : es = l1 ++ .access w :: l2) : .unlock ∈ l2 := by
  induction es generalizing l1 with
  | nil => simp [explicitBody] at h
  | cons e es ih =>
    cases l1 with
    | nil =>
      simp only [List.nil_append, List.cons.injEq] at heq
      obtain ⟨rfl, rfl⟩ := heq
      simp only [explicitBody] at h
      exact explicitBody_unlock h
    | cons x l1 =>
      simp only [List.cons_append, List.cons.injEq] at heq
      obtain ⟨rfl, heq⟩ := heq
      cases e <;> simp only [explicitBody] at h <;> first
        | exact ih h l1 heq
        | cases h
        | (simp only [beq_iff_eq] at h; subst h; cases l1 <;> simp at heq)

/-- **meaning of the obligation**: in a well-locked body every access to shared state has the
    `Lock()` before it and the `Unlock()` after it — deferred (registered before the access, run
    at return) or explicit (after the access) -/
theorem wellLocked_sound (f : Fn) (h : wellLocked f = true) (l1 l2 : List Ev) (w : String)
    (heq : f.evs = l1 ++ .access w :: l2) :
    .lock ∈ l1 ∧ (.deferUnlock ∈ l1 ∨ .unlock ∈ l2) := by
  simp only [wellLocked, Bool.and_eq_true] at h
  have h1 := h.1
  clear h
  generalize f.evs = es at h1 heq
  induction es generalizing l1 with
  | nil => simp [lockedEvs] at h1
  | cons e es ih =>
    cases l1 with
    | nil =>
      simp only [List.nil_append, List.cons.injEq] at heq
      obtain ⟨rfl, -⟩ := heq
      simp [lockedEvs] at h1
    | cons x l1 =>
      simp only [List.cons_append, List.cons.injEq] at heq
      obtain ⟨rfl, heq⟩ := heq
      cases e with
      | lock =>
        simp only [lockedEvs] at h1
        refine ⟨List.mem_cons_self .., ?_⟩
        cases l1 with
        | nil =>
          simp only [List.nil_append] at heq
          subst heq
          simp only [afterLock] at h1
          exact .inr (explicitBody_sound h1 [] l2 w rfl)
        | cons y l1 =>
          simp only [List.cons_append] at heq
          subst heq
          by_cases hy : y = .deferUnlock
          · subst hy; exact .inl (by simp)
          · have : afterLock (y :: (l1 ++ .access w :: l2)) = explicitBody (y :: (l1 ++ .access w :: l2)) := by
              cases y <;> first | rfl | exact absurd rfl hy
            rw [this] at h1
            exact .inr (explicitBody_sound h1 (y :: l1) l2 w rfl)
      | producersLookup =>
        simp only [lockedEvs] at h1
        have := ih l1 h1 heq
        exact ⟨List.mem_cons_of_mem _ this.1, this.2.imp (List.mem_cons_of_mem _) id⟩
      | pure s =>
        simp only [lockedEvs] at h1
        have := ih l1 h1 heq
        exact ⟨List.mem_cons_of_mem _ this.1, this.2.imp (List.mem_cons_of_mem _) id⟩
      | _ => simp [lockedEvs] at h1

end WellLocked

open Gen.LockFacts in
/-- obligation on the regenerated facts: `UpdateParameter`, `ParameterData`, `Artifact` of the
    current source take `producerLock` before any node-state access and release it (deferred, or
    last) — the program shape the concurrent model `Linz.Step` gives every client -/
theorem lock_facts_well_locked :
    lockFacts.map (·.name) = ["UpdateParameter", "ParameterData", "Artifact"] ∧
    lockFacts.all wellLocked = true := by decide

open Gen.LockFacts in
/-- the predicate is not vacuous: it rejects the event lists the extractor produces for the mutants
    of tools/c13_extractor_selftest.sh that it can extract — no lock (07), access before the lock
    (04, 06), unlock before the access (03) — and shapes a flattening extractor could produce:
    a second return with an access after the first, a second lock, an access after the unlock;
    it accepts the benign explicit unlock (08) -/
example : wellLocked ⟨"07", [.producersLookup, .pure "fmt.Errorf", .pure "panic", .access "producer.Value()", .ret]⟩ = false
    ∧ wellLocked ⟨"04", [.producersLookup, .pure "fmt.Errorf", .pure "panic", .access "producer.Value()", .lock,
                         .deferUnlock, .ret]⟩ = false
    ∧ wellLocked ⟨"06", [.access "i.Parameter(nodeId)", .access "i.Parameter(nodeId).ApplyMessage(data)", .lock,
                         .deferUnlock, .access "i.incModelVersion()", .ret]⟩ = false
    ∧ wellLocked ⟨"03", [.producersLookup, .pure "fmt.Errorf", .pure "panic", .lock, .unlock,
                         .access "producer.Value()", .ret]⟩ = false
    ∧ wellLocked ⟨"b", [.lock, .deferUnlock, .access "producer.Value()", .ret, .access "producer.Value()", .ret]⟩ = false
    ∧ wellLocked ⟨"2xlock", [.lock, .deferUnlock, .lock, .access "producer.Value()", .ret]⟩ = false
    ∧ wellLocked ⟨"after", [.lock, .access "x", .unlock, .access "producer.Value()", .ret]⟩ = false
    ∧ wellLocked ⟨"early", [.lock, .access "x", .ret, .unlock, .ret]⟩ = false
    ∧ wellLocked ⟨"08", [.producersLookup, .pure "fmt.Errorf", .pure "panic", .lock, .access "producer.Value()",
                         .unlock, .ret]⟩ = true := by decide

variable {V : Type} [DecidableEq V] {F : Nat}

/-! ### mutual exclusion -/

/-- in every reachable state of every execution: a client is inside its critical section iff it
    owns the lock; so at most one client is -/
theorem mutex_invariant (g0 : Graph V) (s : Sys V) (h : Exec F g0 s) :
    (∀ t, (s.pc t).inCrit = true ↔ s.lock = some t) ∧
    (∀ t u, (s.pc t).inCrit = true → (s.pc u).inCrit = true → t = u) := by
  have hj := J.exec h
  refine ⟨fun t => ⟨hj.mutex t, hj.locked t⟩, ?_⟩
  intro t u ht hu
  have h1 := hj.mutex t ht
  have h2 := hj.mutex u hu
  rw [h1] at h2
  exact Option.some.inj h2

/-! ### linearizability -/

/-- **every** execution — any number of clients, any interleaving of their steps, any calls — has
    a history that is linearized by the order in which the critical sections ran (`s.lin`):
    that order contains every completed operation with the response it returned (and the pending
    ones that already took effect), respects real-time precedence, and is a run of the sequential
    specification ending in the current shared state -/
theorem linearizable (g0 : Graph V) (s : Sys V) (h : Exec F g0 s) :
    Linearization F g0 s.hist s.lin ∧ s.g = (replay F g0 (s.lin.map (·.call))).1 := by
  have hj := J.exec h
  refine ⟨⟨hj.nodup, hj.invoked, ?_, hj.realtime, hj.legal⟩, hj.state⟩
  intro e he id r heq
  subst heq
  exact hj.complete id r he

theorem linearizable' (g0 : Graph V) (s : Sys V) (h : Exec F g0 s) : Linearizable F g0 s.hist :=
  ⟨s.lin, (linearizable g0 s h).1⟩

/-- **one consistent snapshot** (by C11's `read_fresh`): in every linearization of any history
    from a never-evaluated graph, the response of an `Artifact` call is the from-scratch
    evaluation `Spec` of ONE state — the one its linearization point sees, i.e. the state reached
    by the operations linearized before it -/
theorem artifact_snapshot (g0 : Graph V) (h0 : Init F g0) (hist : List (Event V)) (S : List (LOp V))
    (hS : Linearization F g0 hist S) (pre post : List (LOp V)) (o : LOp V) (i : Nat)
    (hsplit : S = pre ++ o :: post) (hcall : o.call = .artifact i) :
    o.resp = .val (Spec F (replay F g0 (pre.map (·.call))).1 i) := by
  have hl := hS.legal
  subst hsplit
  simp only [List.map_append, List.map_cons] at hl
  rw [replay_append] at hl
  dsimp only at hl
  have hlen : (replay F g0 (pre.map (·.call))).2.length = (pre.map (·.resp)).length := by
    simp [replay_length]
  have h2 := (List.append_inj hl hlen).2
  simp only [replay, List.cons.injEq] at h2
  rw [← h2.1, hcall]
  exact artifact_spec (replay_inv h0.inv _) i

/-- likewise a `ParameterData` call returns the value its linearization point sees -/
theorem paramData_snapshot (g0 : Graph V) (hist : List (Event V)) (S : List (LOp V))
    (hS : Linearization F g0 hist S) (pre post : List (LOp V)) (o : LOp V) (p : Nat) (x : V) (n : Nat)
    (hp : g0 p = .param x n) (hsplit : S = pre ++ o :: post) (hcall : o.call = .paramData p) :
    o.resp = .val ((lastUpd (pre.map (·.call)) p).getD x) := by
  have hl := hS.legal
  subst hsplit
  simp only [List.map_append, List.map_cons] at hl
  rw [replay_append] at hl
  dsimp only at hl
  have hlen : (replay F g0 (pre.map (·.call))).2.length = (pre.map (·.resp)).length := by
    simp [replay_length]
  have h2 := (List.append_inj hl hlen).2
  simp only [replay, List.cons.injEq] at h2
  rw [← h2.1, hcall]
  obtain ⟨n', hn'⟩ := replay_param (F := F) hp (pre.map (·.call))
  simp [seqStep, hn']

/-- **nothing older than a completed update**: an operation `a` whose response precedes the
    invocation of `b` in the history lies in the prefix that `b`'s linearization point sees
    (so by `artifact_snapshot` / `paramData_snapshot` / `snapshot_params` its effect, or that of a
    later update of the same parameter, is what `b` returns) -/
theorem completed_before_is_visible (g0 : Graph V) (hist : List (Event V)) (S : List (LOp V))
    (hS : Linearization F g0 hist S) (pre post : List (LOp V)) (a b : LOp V)
    (ha : a ∈ S) (hsplit : S = pre ++ b :: post)
    (hrt : before hist a.respE b.invE = true) : a ∈ pre := by
  have hb : b ∈ S := by rw [hsplit]; simp
  have hbef := hS.realtime a ha b hb hrt
  obtain ⟨l1, l2, heq, -, hbl2⟩ := (before_iff S a b).1 hbef
  obtain ⟨m1, m2, rfl⟩ := List.append_of_mem hbl2
  have hnd : S.Nodup := by
    exact nodup_of_map _ hS.nodup
  have heq2 : (l1 ++ a :: m1) ++ b :: m2 = pre ++ b :: post := by
    rw [← hsplit, heq]; simp
  have := split_unique heq2 (by rw [heq2, ← hsplit]; exact hnd)
  rw [← this]
  simp

omit [DecidableEq V] in
/-- … and that state's parameter valuation is exactly "initial value, overwritten by the last
    update linearized before": no mixture of two states, and — with the real-time clause of
    `Linearization` — nothing older than an update that completed before the read began -/
theorem snapshot_params (g0 : Graph V) (p : Nat) (x : V) (n : Nat) (hp : g0 p = .param x n)
    (cs : List (Call V)) :
    ∃ n', (replay F g0 cs).1 p = .param ((lastUpd cs p).getD x) n' :=
  replay_param hp cs

omit [DecidableEq V] in
/-- the from-scratch value depends only on parameter values, processors and wiring (not on caches,
    versions or what was evaluated before) -/
theorem spec_depends_on_statics (g g' : Graph V) (hac : Acyclic F g) (hs : SameStatic g' g) (i : Nat) :
    Spec F g' i = Spec F g i := by
  obtain ⟨rank, hwf⟩ := hac
  exact Spec_static hwf hs i

/-- soundness of the executable check the driver runs on the order found by its (untrusted) search -/
theorem witness_check_sound (g0 : Graph V) (h : List (Event V)) (S : List (LOp V))
    (hc : checkWitness F g0 h S = true) : wfHist h = true ∧ Linearizable F g0 h := by
  unfold checkWitness at hc
  simp only [Bool.and_eq_true] at hc
  obtain ⟨⟨⟨⟨⟨h0, h1⟩, h2⟩, h3⟩, h4⟩, h5⟩ := hc
  simp only [decide_eq_true_eq, List.all_eq_true, Bool.or_eq_true, Bool.not_eq_true'] at h1 h2 h3 h4 h5
  refine ⟨h0, S, h1, h2, ?_, ?_, h5⟩
  · intro e he id r heq
    subst heq
    have := h3 _ he
    simp only [List.any_eq_true, decide_eq_true_eq] at this
    exact this
  · intro a ha b hb hbef
    rcases h4 a ha b hb with h | h
    · rw [hbef] at h; cases h
    · exact h

/-! ### without the lock: a two-client schedule that is not linearizable -/

def f1 : List (Option Nat) → List (List Nat) → List (Option Nat) → Nat :=
  fun _ _ vs => vs.foldl (fun a o => a + o.getD 0) 1

def mkN (sc : List (Option Nat)) : SNode Nat :=
  { fn := f1, scalars := sc, arrays := [], cache := 0, version := 0, remembered := none, flag := false }

/-- diamond: 0 = parameter a (value 1); 1 = L(a); 2 = R(a); 3 = producer P(L, R) -/
def dia : Graph Nat := fun i =>
  match i with
  | 0 => .param 1 0
  | 1 => .struct (mkN [some 0])
  | 2 => .struct (mkN [some 0])
  | 3 => .struct (mkN [some 1, some 2])
  | _ => .param 0 0

/-- the schedule: the reader's `Artifact(P)` pulls L, another client's whole `UpdateParameter(a, 10)`
    runs, the reader pulls R and finishes -/
def badSchedule : List (Micro Nat) := [.pull 1, .update 0 10, .pull 2, .finish]

/-- the artifact value the reader returns under that schedule -/
def mixed : Nat := val (microRun 4 3 (mkN [some 1, some 2]) (dia, []) badSchedule).1 3

/-- the history the two clients observe -/
def badHistory : List (Event Nat) :=
  [.inv 0 0 (.artifact 3), .inv 1 1 (.update 0 10), .resp 1 .ok, .resp 0 (.val mixed)]

/-- the artifact mixes L(a = 1) = 2 with R(a = 10) = 11: 14, while the two sequential answers are 5 and 23 -/
theorem unlocked_mixes_states :
    mixed = 14 ∧
    (replay 4 dia [.artifact 3, .update 0 10]).2 = [.val 5, .ok] ∧
    (replay 4 dia [.update 0 10, .artifact 3]).2 = [.ok, .val 23] := by decide

/-- without the lock around the evaluation, the closed two-client schedule above produces a
    history that NO order of the two operations explains -/
theorem unlocked_not_linearizable : ¬ Linearizable 4 dia badHistory := by
  rintro ⟨S, hS⟩
  have hval := unlocked_mixes_states
  have hinvk : ∀ o ∈ S, (o.id = 0 ∧ o.call = .artifact 3) ∨ (o.id = 1 ∧ o.call = .update 0 10) := by
    intro o ho
    have := hS.invoked o ho
    simp only [badHistory, LOp.invE, List.mem_cons, Event.inv.injEq, reduceCtorEq, List.not_mem_nil,
      or_false] at this
    rcases this with ⟨h1, _, h3⟩ | ⟨h1, _, h3⟩
    · exact .inl ⟨h1, h3⟩
    · exact .inr ⟨h1, h3⟩
  obtain ⟨o1, ho1, hid1, hr1⟩ := hS.complete (.resp 1 .ok) (by simp [badHistory]) 1 .ok rfl
  obtain ⟨o0, ho0, hid0, hr0⟩ := hS.complete (.resp 0 (.val mixed)) (by simp [badHistory]) 0 _ rfl
  rw [hval.1] at hr0
  have hnd := hS.nodup
  have hlegal := hS.legal
  match S, hinvk, ho1, ho0, hnd, hlegal with
  | [], _, ho1, _, _, _ => simp at ho1
  | [x], _, ho1, ho0, _, _ =>
    simp only [List.mem_singleton] at ho1 ho0
    subst ho1; subst ho0; omega
  | [x, y], hinvk, ho1, ho0, hnd, hlegal =>
    simp only [List.map_cons, List.map_nil, List.nodup_cons, List.mem_singleton, List.not_mem_nil,
      not_false_eq_true, List.nodup_nil, and_true] at hnd
    have hx := hinvk x (by simp)
    have hy := hinvk y (by simp)
    simp only [List.mem_cons, List.not_mem_nil, or_false] at ho1 ho0
    simp only [List.map_cons, List.map_nil] at hlegal
    rcases hx with ⟨hx1, hx2⟩ | ⟨hx1, hx2⟩ <;> rcases hy with ⟨hy1, hy2⟩ | ⟨hy1, hy2⟩
    · omega
    · rw [hx2, hy2, hval.2.1] at hlegal
      simp only [List.cons.injEq, and_true] at hlegal
      rcases ho0 with h | h
      · subst h; rw [hr0] at hlegal; simp at hlegal
      · subst h; omega
    · rw [hx2, hy2, hval.2.2] at hlegal
      simp only [List.cons.injEq, and_true] at hlegal
      rcases ho0 with h | h
      · subst h; omega
      · subst h; rw [hr0] at hlegal; simp at hlegal
    · omega
  | x :: y :: z :: rest, hinvk, _, _, hnd, _ =>
    have hx := hinvk x (by simp)
    have hy := hinvk y (by simp)
    have hz := hinvk z (by simp)
    simp only [List.map_cons, List.nodup_cons, List.mem_cons, not_or] at hnd
    omega

/-- the same history is what the locked system can never produce: by `linearizable` every history
    of the locked system is linearizable -/
theorem locked_never_bad (s : Sys Nat) (h : Exec 4 dia s) : s.hist ≠ badHistory := by
  intro heq
  exact unlocked_not_linearizable (heq ▸ linearizable' dia s h)

/-! ### the lock makes a many-step critical section atomic -/

/-- **the critical section is atomic**: in every execution of the fine-grained system (any number
    of clients, any interleaving, any micro-steps), whenever a client is inside its critical
    section the shared state is exactly its own micro-steps applied to the state it found when it
    acquired the lock — no step of any other client has intervened; and at most one client is inside -/
theorem critical_section_atomic {σ : Type} (g0 : σ) (s : GSys σ) (h : GExec g0 s) :
    (∀ t start tr, s.pc t = .crit start tr → s.g = tr.foldl (fun a f => f a) start) ∧
    (∀ t u, (s.pc t).isCrit = true → (s.pc u).isCrit = true → t = u) := by
  have hi := ginv g0 s h
  refine ⟨hi.atomic, ?_⟩
  intro t u ht hu
  have h1 := hi.mutex t ht
  have h2 := hi.mutex u hu
  rw [h1] at h2
  exact Option.some.inj h2

/-! ### linearizability of the FINE-GRAINED locked system (critical sections are many steps) -/

omit [DecidableEq V] in
/-- **refinement**: every execution of the fine-grained locked system `FExec` — the lock owner
    performs any number of micro-steps on the shared state between `Lock` and `Unlock`, arbitrarily
    interleaved with the other clients' steps; at `finish` its micro-steps compose to the
    sequential effect of its call — is, through the abstraction `FSys.abs` (a client inside its
    critical section counts as `holding`, the shared state is the one the owner found), an
    execution of the atomic system `Exec`, with the same history and the same critical-section
    order.  The proof uses the lock: mutual exclusion and `atomic` (`FInv`). -/
theorem fine_refines_atomic (g0 : Graph V) (s : FSys V) (h : FExec F g0 s) :
    Exec F g0 s.abs ∧ s.abs.hist = s.hist ∧ s.abs.lin = s.lin :=
  ⟨fine_refines g0 s h, rfl, rfl⟩

/-- hence **every execution of the fine-grained locked system is linearizable**, by the order in
    which the critical sections finished; this theorem depends on the lock (through the refinement) -/
theorem fine_linearizable (g0 : Graph V) (s : FSys V) (h : FExec F g0 s) :
    Linearization F g0 s.hist s.lin :=
  (linearizable g0 s.abs (fine_refines g0 s h)).1

omit [DecidableEq V] in
/-- the micro-steps of `Artifact(i)` of ANY processor (any pull strategy), applied one after the
    other with nothing in between, are exactly the sequential specification's `Eval` -/
theorem artifactTraceS_eval (g : Graph V) (hac : Acyclic F g) (i : Nat) (s : SNode V)
    (hs : g i = .struct s) (ho : Outdated F g i = true) :
    (artifactTraceS F i s (s.next s.scalars s.arrays) s.deps s.deps.length g
        (List.replicate s.deps.length none)).foldl (fun a f => f a) g = (Eval F g i).1 := by
  obtain ⟨rank, hwf⟩ := hac
  have hgen : ∀ (n : Nat) (g1 : Graph V) (es : List (Option V)),
      (artifactTraceS F i s (s.next s.scalars s.arrays) s.deps n g1 es).foldl (fun a f => f a) g1 =
        (pullS (Eval F) (s.next s.scalars s.arrays) s.deps n g1 es).1.set i
          (.struct (s.executed (pullS (Eval F) (s.next s.scalars s.arrays) s.deps n g1 es).1
            (pullS (Eval F) (s.next s.scalars s.arrays) s.deps n g1 es).2.1)) := by
    intro n
    induction n with
    | zero => intro g1 es; simp [artifactTraceS, pullS]
    | succ n ih =>
      intro g1 es
      simp only [artifactTraceS, pullS]
      cases hnx : s.next s.scalars s.arrays es with
      | none => simp
      | some k =>
        dsimp only
        cases hdk : s.deps[k]? with
        | none => simp
        | some d =>
          dsimp only
          simp only [List.foldl_cons]
          rw [ih]
  rw [Eval_eq g hwf, hs]
  simp only [ho, if_true]
  rw [hgen]

omit [DecidableEq V] in
/-- hence, with the lock: a client that performs the micro-steps of `Artifact(i)` inside its
    critical section leaves exactly `seqStep`'s state, whatever the other clients do meanwhile -/
theorem locked_artifact_is_atomic (g0 : Graph V) (sy : GSys (Graph V)) (h : GExec g0 sy) (t : Tid)
    (start : Graph V) (i : Nat) (s : SNode V) (hac : Acyclic F start) (hs : start i = .struct s)
    (ho : Outdated F start i = true)
    (hpc : sy.pc t = .crit start (artifactTraceS F i s (s.next s.scalars s.arrays) s.deps s.deps.length start
      (List.replicate s.deps.length none))) :
    sy.g = (seqStep F start (.artifact i)).1 := by
  rw [(critical_section_atomic g0 sy h).1 t start _ hpc, artifactTraceS_eval start hac i s hs ho]
  rfl

omit [DecidableEq V] in
/-- the side condition of `FStep.finish` ("the owner's micro-steps compose to the sequential effect
    of its call") holds for the program of `Artifact` on an outdated producer, split into its
    `.Value()` pulls and the store — any processor, any pull strategy.  (For `UpdateParameter` /
    `ParameterData` the model's program IS the single step `seqStep` — nothing to prove; in Go
    `UpdateParameter` is several steps under the lock: the `Parameter` map scan, `ApplyMessage`,
    `incModelVersion` — and `FStep.finish` takes the response by definition; see the residue.) -/
theorem programs_correct (g : Graph V) (hac : Acyclic F g) (i : Nat) (s : SNode V)
    (hs : g i = .struct s) (ho : Outdated F g i = true) :
    (artifactTraceS F i s (s.next s.scalars s.arrays) s.deps s.deps.length g
        (List.replicate s.deps.length none)).foldl (fun a f => f a) g = (seqStep F g (.artifact i)).1 :=
  artifactTraceS_eval g hac i s hs ho

theorem dia_init : Init 4 dia := by
  refine ⟨⟨fun i => if i < 4 then i else 0, ?_, ?_⟩, ?_⟩
  · intro i; dsimp only; split <;> omega
  · intro i s hs d hd
    match i with
    | 0 => simp [dia] at hs
    | 1 | 2 | 3 =>
      simp only [dia, mkN, Node.struct.injEq] at hs
      subst hs
      simp [SNode.deps] at hd
      have hd4 : d < 4 := by omega
      simp only [hd4, if_true, show (1:Nat) < 4 by omega, show (2:Nat) < 4 by omega, show (3:Nat) < 4 by omega]
      omega
    | n+4 => simp [dia] at hs
  · intro i s hs
    match i with
    | 0 => simp [dia] at hs
    | 1 | 2 | 3 =>
      simp only [dia, mkN, Node.struct.injEq] at hs
      subst hs
      rfl
    | n+4 => simp [dia] at hs

theorem dia_readsAll : ReadsAll dia := by
  intro i s hs
  match i with
  | 0 => simp [dia] at hs
  | 1 | 2 | 3 =>
    simp only [dia, mkN, Node.struct.injEq] at hs
    subst hs
    rfl
  | n+4 => simp [dia] at hs

/-- a concrete execution of the fine-grained system with histories: client 0 is in the middle of
    `Artifact(3)` on the diamond (it has pulled L, not yet R) while client 1 invokes an update and
    has to wait; then client 0 finishes — the hypothesis `FExec` of `fine_linearizable` -/
example : ∃ s : FSys Nat, FExec 4 dia s ∧ s.hist = [.inv 0 0 (.artifact 3), .inv 1 1 (.update 0 10)] ∧
    s.lin = [⟨0, 0, .artifact 3, .val 5⟩] ∧ s.lock = none := by
  refine ⟨_, .step (.step (.step (.step (.step (.step (.step .init
    (.invoke _ 0 (.artifact 3) rfl)) (.acquire _ 0 0 (.artifact 3) rfl rfl))
    (.micro _ 0 0 (.artifact 3) dia [] (fun g => (Eval 4 g 1).1) rfl))
    (.invoke _ 1 (.update 0 10) rfl))
    (.micro _ 0 0 (.artifact 3) dia _ (fun g => (Eval 4 g 2).1) rfl))
    (.micro _ 0 0 (.artifact 3) dia _ (fun g => g.set 3 (.struct ((mkN [some 1, some 2]).executed g [some 2, some 2]))) rfl))
    (.finish _ 0 0 (.artifact 3) dia _ rfl ?_), rfl, ?_, rfl⟩
  · exact artifactTraceS_eval (F := 4) dia dia_init.1 3 (mkN [some 1, some 2]) rfl (by decide)
  · decide

/-! ### the critical sections as PROGRAMS of micro-steps; the unlocked model-version read -/

omit [DecidableEq V] in
/-- **the programs of the three entry points are correct** (the `UpdateParameter` /
    `ParameterData` analogue of `programs_correct`, non-trivially): run from the state found at
    `Lock()` with nothing in between, the micro-steps of a call — `UpdateParameter`: parameter
    lookup, `version++`, value write, result, `incModelVersion()` (the latter also after a rejected
    message); `ParameterData`: lookup, value read; `Artifact`: outdated check, one `.Value()` pull
    per dependency slot as the producer's strategy says, store, cache read — leave exactly the
    graph of the atomic step `seqStep`, bump the model version as the code does, and the response
    assembled from what the steps READ is the atomic response -/
theorem programs_correct_all (g : Graph V) (hac : Acyclic F g) (mv : Nat) (c : Call V) :
    (runProg F (progOf g c) ((g, mv), {})).1.1 = (seqStep F g c).1 ∧
    (runProg F (progOf g c) ((g, mv), {})).1.2 = mv + bump g c ∧
    (runProg F (progOf g c) ((g, mv), {})).2.out = (seqStep F g c).2 :=
  prog_correct F g hac mv c

/-- **refinement of the program system**: every execution of `PExec` — each client takes the lock
    where the lock facts say, executes the micro-steps of its call one at a time on the CURRENT
    shared state, arbitrarily interleaved with the other clients' steps and with unlocked
    `ModelVersion()` reads, responds with what its steps assembled, and releases the lock — is,
    through `PSys.abs`, an execution of the atomic system with the same history and the same
    critical-section order (no side condition on the micro-steps any more: it is `programs_correct_all`
    plus the invariant that nobody else touches the shared state while the lock is held) -/
theorem prog_refines_atomic (g0 : Graph V) (h0 : Init F g0) (s : PSys V) (h : PExec F g0 s) :
    Exec F g0 s.abs ∧ s.abs.hist = s.hist ∧ s.abs.lin = s.lin :=
  ⟨prog_refines g0 h0 s h, rfl, rfl⟩

/-- hence every execution of the program system is linearizable -/
theorem prog_linearizable (g0 : Graph V) (h0 : Init F g0) (s : PSys V) (h : PExec F g0 s) :
    Linearization F g0 s.hist s.lin :=
  (linearizable g0 s.abs (prog_refines g0 h0 s h)).1

omit [DecidableEq V] in
/-- **the unlocked read of the model version is regular**: a `ModelVersion()` call made WITHOUT the
    lock (hub goroutine, `/started`; an atomic load since fix 899edf1) returns a value between the
    counter at the moment of the call and the counter at the moment of the return — never a value
    the counter did not have, never one older than the call; and the counter only grows -/
theorem model_version_regular (g0 : Graph V) (s : PSys V) (h : PExec F g0 s) :
    (∀ o ∈ s.obs, o.1 ≤ o.2.1 ∧ o.2.1 ≤ o.2.2) ∧
    (∀ t mv0 v, s.pc t = .mvGot mv0 v → mv0 ≤ v ∧ v ≤ s.mv) ∧
    (∀ t mv0, s.pc t = .mvWait mv0 → mv0 ≤ s.mv) :=
  ⟨(pinv g0 s h).obs, (pinv g0 s h).got, (pinv g0 s h).wait⟩

/-- **the model version counts the parameter messages**: outside critical sections the counter is
    the number of `UpdateParameter` calls on parameters — accepted AND rejected messages, as the
    code does — among the critical sections that have run (taken along the sequential run of
    `s.lin`); a client inside its critical section found exactly that number at `Lock()` -/
theorem model_version_counts_updates (g0 : Graph V) (h0 : Init F g0) (s : PSys V) (h : PExec F g0 s) :
    (s.lock = none → s.mv = bumpsAlong F g0 (s.lin.map (·.call))) ∧
    (∀ t id c start mv0 loc todo, s.pc t = .crit id c start mv0 loc todo →
      mv0 = bumpsAlong F g0 (s.lin.map (·.call))) :=
  model_version_counts g0 h0 s h

/-- a concrete execution of the program system on the diamond: client 0 is inside `Artifact(3)`
    (outdated check and the pull of L done), client 2 reads the model version without the lock,
    client 1 has invoked an update and waits -/
example : ∃ s : PSys Nat, PExec 4 dia s ∧ (s.pc 0).isCrit = true ∧ s.obs = [(0, 0, 0)] ∧
    s.hist = [.inv 0 0 (.artifact 3), .inv 1 1 (.update 0 10)] := by
  refine ⟨_, .step (.step (.step (.step (.step (.step (.step (.step .init
    (.invoke _ 0 (.artifact 3) rfl)) (.acquire _ 0 0 (.artifact 3) rfl rfl))
    (.micro _ 0 0 (.artifact 3) _ _ _ _ _ rfl)) (.mvCall _ 2 rfl))
    (.micro _ 0 0 (.artifact 3) _ _ _ _ _ rfl)) (.invoke _ 1 (.update 0 10) rfl))
    (.mvLoad _ 2 0 rfl)) (.mvReturn _ 2 0 0 rfl), rfl, rfl, rfl⟩

/-- a concrete execution of the fine-grained system with two clients: client 0 is inside its
    critical section (two micro-steps done) while client 1 is waiting for the lock -/
example : ∃ s : GSys Nat, GExec 0 s ∧ s.g = 12 ∧ (s.pc 0).isCrit = true ∧ (s.pc 1).isCrit = false := by
  refine ⟨_, .step (.step (.step (.step (.step .init (.request _ 0 rfl)) (.request _ 1 rfl))
    (.acquire _ 0 rfl rfl)) (.micro _ 0 0 [] (· + 5) rfl)) (.micro _ 0 0 [(· + 5)] (· + 7) rfl), rfl, rfl, rfl⟩

/-! ### non-vacuity: a concrete interleaved execution of the locked system -/

/-- a concrete interleaved execution of the locked system (hypothesis `Exec` of `linearizable`):
    client 0 invokes `Artifact(3)`, client 1 invokes and completes `UpdateParameter(0, 10)` first,
    then client 0 runs; the recorded history overlaps and the artifact is the post-update value -/
example : ∃ s : Sys Nat, Exec 4 dia s ∧
    s.hist = [.inv 0 0 (.artifact 3), .inv 1 1 (.update 0 10), .resp 1 .ok, .resp 0 (.val 23)] ∧
    s.lin.map (·.id) = [1, 0] ∧ s.lock = none := by
  refine ⟨_, .step (.step (.step (.step (.step (.step (.step (.step (.step (.step .init
    (.invoke _ 0 (.artifact 3) rfl)) (.invoke _ 1 (.update 0 10) rfl))
    (.acquire _ 1 1 (.update 0 10) rfl rfl)) (.exec _ 1 1 (.update 0 10) rfl))
    (.release _ 1 1 (.update 0 10) .ok rfl)) (.respond _ 1 1 (.update 0 10) .ok rfl))
    (.acquire _ 0 0 (.artifact 3) rfl rfl)) (.exec _ 0 0 (.artifact 3) rfl))
    (.release _ 0 0 (.artifact 3) (.val 23) rfl)) (.respond _ 0 0 (.artifact 3) (.val 23) rfl), ?_, ?_, ?_⟩
  · decide
  · rfl
  · rfl

/-- the sequential witness `[update, artifact]` passes the executable check for the overlapping
    history in which the update's response precedes the artifact's -/
example : checkWitness 4 dia
    [.inv 0 0 (.artifact 3), .inv 1 1 (.update 0 10), .resp 1 .ok, .resp 0 (.val 23)]
    [⟨1, 1, .update 0 10, .ok⟩, ⟨0, 0, .artifact 3, .val 23⟩] = true := by decide

/-- and rejects the order that violates real time in a non-overlapping history -/
example : checkWitness 4 dia
    [.inv 1 1 (.update 0 10), .resp 1 .ok, .inv 0 0 (.artifact 3), .resp 0 (.val 5)]
    [⟨0, 0, .artifact 3, .val 5⟩, ⟨1, 1, .update 0 10, .ok⟩] = false := by decide

end C13
end PolyVerif
