/-
  C14 — the SIZE-ONLY cut laws of `Model/C14Large.lean` follow from the full reader models.

  For every valid file (the reference encodings of Props/C14) and EVERY cut, the verdict of the reader model on
  `take k file` — reduced to "error | ok with so many elements" — is the function of the sizes (declared count, record
  size, header length, complete lines present, cut position) that `C14Large.*Verdict` computes, and the decidable
  predicate `C14Large.*CutOk`, which the driver evaluates on the sizes of a cut of a LARGE generated file and the
  verdict of the REAL reader (`c14.holds.large_cut_*`), holds of it.  The oracle is therefore the prefix theorems
  (`stl_prefix_rejected`, `splat_prefix`, `ply_binary_prefix_rejected`, `pts_prefix_bytes`, …) compiled; files of more
  than 65536 / 100000 records never have to pass through the List-based reader models.
-/
import PolyVerif.Props.C14
import PolyVerif.Model.C14Large

namespace PolyVerif
namespace C14
open Readers Spz Splat C14Large

/-! ## verdicts of the model readers, reduced to sizes -/

def stlV : Except Readers.Err (List (List UInt8)) → Verdict
  | .ok t => some t.length
  | .error _ => none

def plyV : Except Readers.Err PlyMesh → Option (Nat × Nat)
  | .ok (.bin m) => some (m.verts.length, m.faces.length)
  | .ok (.ascii m) => some (m.verts.length, m.faces.length)
  | .error _ => none

def ptsV : Except Readers.Err (List PtsPoint) → Verdict
  | .ok ps => some ps.length
  | .error _ => none

/-! ## binary STL -/

theorem stlFile_length (hdr : List UInt8) (tris : List (List UInt8)) (hh : hdr.length = 80)
    (ht : ∀ t ∈ tris, t.length = 50) : (stlFile hdr tris).length = stlLen tris.length := by
  simp [stlFile, stlLen, hh, le32n_length, flatten_length_const tris 50 ht]; ring

/-- every valid STL file, every cut `k ≤ length`: the model's verdict is `stlVerdict n k` -/
theorem large_cut_stl_verdict (hdr : List UInt8) (tris : List (List UInt8)) (hh : hdr.length = 80)
    (ht : ∀ t ∈ tris, t.length = 50) (hn : tris.length < 2 ^ 32) (k : Nat) (hk : k ≤ (stlFile hdr tris).length) :
    stlV (readStl ((stlFile hdr tris).take k)) = stlVerdict tris.length k := by
  have hlen := stlFile_length hdr tris hh ht
  by_cases hlt : k < (stlFile hdr tris).length
  · rw [stl_prefix_rejected hdr tris hh ht hn k hlt]
    simp only [stlV, stlVerdict]
    rw [if_pos (by omega)]
  · have e : (stlFile hdr tris).take k = stlFile hdr tris := List.take_of_length_le (by omega)
    rw [e, stl_full hdr tris hh ht hn]
    simp only [stlV, stlVerdict]
    rw [if_neg (by omega)]

/-- ... and the compiled oracle holds of it -/
theorem large_cut_stl (hdr : List UInt8) (tris : List (List UInt8)) (hh : hdr.length = 80)
    (ht : ∀ t ∈ tris, t.length = 50) (hn : tris.length < 2 ^ 32) (k : Nat) (hk : k ≤ (stlFile hdr tris).length) :
    stlCutOk tris.length (stlFile hdr tris).length k (stlV (readStl ((stlFile hdr tris).take k))) = true := by
  rw [large_cut_stl_verdict hdr tris hh ht hn k hk]
  rw [stlFile_length hdr tris hh ht] at hk ⊢
  simp [stlCutOk, hk]

example : ∃ hdr : List UInt8, ∃ tris : List (List UInt8), hdr.length = 80 ∧ (∀ t ∈ tris, t.length = 50) ∧
    tris.length < 2 ^ 32 ∧ 133 ≤ (stlFile hdr tris).length ∧ stlVerdict tris.length 133 = none ∧
    stlVerdict tris.length 134 = some 1 :=
  ⟨List.replicate 80 0, [List.replicate 50 7], by simp, by simp, by simp, by simp [stlFile, le32n], by decide, by decide⟩

/-! ## .splat -/

theorem splatFile_length (rs : List Rec) : (rs.flatMap encRec).length = 32 * rs.length := by
  induction rs with
  | nil => simp
  | cons r rs ih => simp only [List.flatMap_cons, List.length_append, encRec_length, List.length_cons, ih]; omega

theorem large_cut_splat_verdict (rs : List Rec) (k : Nat) (hk : k ≤ (rs.flatMap encRec).length) :
    ((readRecs ((rs.flatMap encRec).take k)).recs.length, (readRecs ((rs.flatMap encRec).take k)).short) =
      splatVerdict k := by
  rw [splat_prefix rs k hk]
  rw [splatFile_length] at hk
  have : min (k / 32) rs.length = k / 32 := by omega
  simp only [splatVerdict, List.length_take, this, Prod.mk.injEq, true_and]
  by_cases h : k % 32 = 0 <;> simp [h]

theorem large_cut_splat (rs : List Rec) (k : Nat) (hk : k ≤ (rs.flatMap encRec).length) :
    splatCutOk rs.length (rs.flatMap encRec).length k (readRecs ((rs.flatMap encRec).take k)).recs.length
      (readRecs ((rs.flatMap encRec).take k)).short = true := by
  have h := large_cut_splat_verdict rs k hk
  simp only [splatCutOk, h, beq_self_eq_true, Bool.and_true, Bool.and_eq_true, decide_eq_true_eq]
  exact ⟨by rw [splatFile_length]; simp, hk⟩

/-! ## binary PLY -/

/-- bytes of the face records of a reference-encoded binary file -/
def BinFile.faceBytes (be : Bool) (h : Hdr) (x : BinFile) : Nat :=
  (match h.face with | none => [] | some f => encFaces be f x.fs).length

theorem plyBin_length (be : Bool) (h : Hdr) (x : BinFile) (hx : x.ok h) :
    (x.bytes be h).length = plyLen (headerText x.ls).length h.vcount h.vsize (x.faceBytes be h) := by
  obtain ⟨_, hc, hv, _⟩ := hx
  have hL := flatten_length_const x.vs h.vsize hv
  unfold BinFile.bytes BinFile.body BinFile.faceBytes plyLen
  rw [List.length_append, List.length_append, hL, hc]
  cases h.face <;> simp only [List.length_nil] <;> omega

theorem large_cut_ply_binary_verdict (L : Lex) (be : Bool) (h : Hdr) (hfmt : h.fmt = if be then .be else .le)
    (x : BinFile) (hx : x.ok h) (k : Nat) (hk : k ≤ (x.bytes be h).length) :
    plyV (readPly L h ((x.bytes be h).take k)) =
      plyVerdict (headerText x.ls).length h.vcount h.vsize x.fs.length (x.faceBytes be h) k := by
  have hlen := plyBin_length be h x hx
  by_cases hlt : k < (x.bytes be h).length
  · obtain ⟨e, he⟩ := ply_binary_prefix_rejected L be h hfmt x hx k hlt
    rw [he]
    simp only [plyV, plyVerdict]
    rw [if_pos (by omega)]
  · have e : (x.bytes be h).take k = x.bytes be h := List.take_of_length_le (by omega)
    rw [e, ply_binary_full L be h hfmt x hx]
    simp only [plyV, plyVerdict]
    rw [if_neg (by omega)]
    obtain ⟨_, hc, _, hf⟩ := hx
    simp only [BinFile.mesh, hc]
    cases hface : h.face with
    | none => rw [hface] at hf; simp [hf]
    | some f => simp

theorem large_cut_ply_binary (L : Lex) (be : Bool) (h : Hdr) (hfmt : h.fmt = if be then .be else .le)
    (x : BinFile) (hx : x.ok h) (k : Nat) (hk : k ≤ (x.bytes be h).length) :
    plyCutOk (headerText x.ls).length h.vcount h.vsize x.fs.length (x.faceBytes be h) (x.bytes be h).length k
      (plyV (readPly L h ((x.bytes be h).take k))) = true := by
  rw [large_cut_ply_binary_verdict L be h hfmt x hx k hk]
  rw [plyBin_length be h x hx] at hk ⊢
  simp [plyCutOk, hk]

end C14
end PolyVerif
