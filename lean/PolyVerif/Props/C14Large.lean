/-
  C14 — the SIZE-ONLY cut laws of `Model/C14Large.lean` follow from the full reader models.

  For every valid file (the reference encodings of Props/C14) and EVERY cut, the verdict of the reader model on
  `take k file` — reduced to "error | ok with so many elements" — is the function of the sizes (declared count, record
  size, header length, complete lines present, cut position) that `C14Large.*Verdict` computes, and the decidable
  predicate `C14Large.*CutOk`, which the driver evaluates on the sizes of a cut of a LARGE generated file and the
  verdict of the REAL reader (`c14.holds.large_cut_*`), holds of it.  The oracle is therefore the prefix theorems
  (`stl_prefix_rejected`, `splat_prefix`, `ply_binary_prefix_rejected`, `pts_prefix_bytes`, …) compiled; files of more
  than 65536 / 100000 records never have to pass through the List-based reader models.
-/
import PolyVerif.Props.C14
import PolyVerif.Model.C14Large

namespace PolyVerif
namespace C14
open Readers Spz Splat C14Large

/-! ## verdicts of the model readers, reduced to sizes -/

def stlV : Except Readers.Err (List (List UInt8)) → Verdict
  | .ok t => some t.length
  | .error _ => none

def plyV : Except Readers.Err PlyMesh → Option (Nat × Nat)
  | .ok (.bin m) => some (m.verts.length, m.faces.length)
  | .ok (.ascii m) => some (m.verts.length, m.faces.length)
  | .error _ => none

def ptsV : Except Readers.Err (List PtsPoint) → Verdict
  | .ok ps => some ps.length
  | .error _ => none

/-! ## binary STL -/

theorem stlFile_length (hdr : List UInt8) (tris : List (List UInt8)) (hh : hdr.length = 80)
    (ht : ∀ t ∈ tris, t.length = 50) : (stlFile hdr tris).length = stlLen tris.length := by
  simp [stlFile, stlLen, hh, le32n_length, flatten_length_const tris 50 ht]; ring

/-- every valid STL file, every cut `k ≤ length`: the model's verdict is `stlVerdict n k` -/
theorem large_cut_stl_verdict (hdr : List UInt8) (tris : List (List UInt8)) (hh : hdr.length = 80)
    (ht : ∀ t ∈ tris, t.length = 50) (hn : tris.length < 2 ^ 32) (k : Nat) (hk : k ≤ (stlFile hdr tris).length) :
    stlV (readStl ((stlFile hdr tris).take k)) = stlVerdict tris.length k := by
  have hlen := stlFile_length hdr tris hh ht
  by_cases hlt : k < (stlFile hdr tris).length
  · rw [stl_prefix_rejected hdr tris hh ht hn k hlt]
    simp only [stlV, stlVerdict]
    rw [if_pos (by omega)]
  · have e : (stlFile hdr tris).take k = stlFile hdr tris := List.take_of_length_le (by omega)
    rw [e, stl_full hdr tris hh ht hn]
    simp only [stlV, stlVerdict]
    rw [if_neg (by omega)]

/-- ... and the compiled oracle holds of it -/
theorem large_cut_stl (hdr : List UInt8) (tris : List (List UInt8)) (hh : hdr.length = 80)
    (ht : ∀ t ∈ tris, t.length = 50) (hn : tris.length < 2 ^ 32) (k : Nat) (hk : k ≤ (stlFile hdr tris).length) :
    stlCutOk tris.length (stlFile hdr tris).length k (stlV (readStl ((stlFile hdr tris).take k))) = true := by
  rw [large_cut_stl_verdict hdr tris hh ht hn k hk]
  rw [stlFile_length hdr tris hh ht] at hk ⊢
  simp [stlCutOk, hk]

example : ∃ hdr : List UInt8, ∃ tris : List (List UInt8), hdr.length = 80 ∧ (∀ t ∈ tris, t.length = 50) ∧
    tris.length < 2 ^ 32 ∧ 133 ≤ (stlFile hdr tris).length ∧ stlVerdict tris.length 133 = none ∧
    stlVerdict tris.length 134 = some 1 :=
  ⟨List.replicate 80 0, [List.replicate 50 7], by simp, by simp, by simp, by simp [stlFile, le32n], by decide, by decide⟩

/-! ## .splat -/

theorem splatFile_length (rs : List Rec) : (rs.flatMap encRec).length = 32 * rs.length := by
  induction rs with
  | nil => simp
  | cons r rs ih => simp only [List.flatMap_cons, List.length_append, encRec_length, List.length_cons, ih]; omega

theorem large_cut_splat_verdict (rs : List Rec) (k : Nat) (hk : k ≤ (rs.flatMap encRec).length) :
    ((readRecs ((rs.flatMap encRec).take k)).recs.length, (readRecs ((rs.flatMap encRec).take k)).short) =
      splatVerdict k := by
  rw [splat_prefix rs k hk]
  rw [splatFile_length] at hk
  have : min (k / 32) rs.length = k / 32 := by omega
  simp only [splatVerdict, List.length_take, this, Prod.mk.injEq, true_and]
  by_cases h : k % 32 = 0 <;> simp [h]

theorem large_cut_splat (rs : List Rec) (k : Nat) (hk : k ≤ (rs.flatMap encRec).length) :
    splatCutOk rs.length (rs.flatMap encRec).length k (readRecs ((rs.flatMap encRec).take k)).recs.length
      (readRecs ((rs.flatMap encRec).take k)).short = true := by
  have h := large_cut_splat_verdict rs k hk
  simp only [splatCutOk, h, beq_self_eq_true, Bool.and_true, Bool.and_eq_true, decide_eq_true_eq]
  exact ⟨by rw [splatFile_length]; simp, hk⟩

/-! ## binary PLY -/

/-- bytes of the face records of a reference-encoded binary file -/
def BinFile.faceBytes (be : Bool) (h : Hdr) (x : BinFile) : Nat :=
  (match h.face with | none => [] | some f => encFaces be f x.fs).length

theorem plyBin_length (be : Bool) (h : Hdr) (x : BinFile) (hx : x.ok h) :
    (x.bytes be h).length = plyLen (headerText x.ls).length h.vcount h.vsize (x.faceBytes be h) := by
  obtain ⟨_, hc, hv, _⟩ := hx
  have hL := flatten_length_const x.vs h.vsize hv
  unfold BinFile.bytes BinFile.body BinFile.faceBytes plyLen
  rw [List.length_append, List.length_append, hL, hc]
  cases h.face <;> simp only [List.length_nil] <;> omega

theorem large_cut_ply_binary_verdict (L : Lex) (be : Bool) (h : Hdr) (hfmt : h.fmt = if be then .be else .le)
    (x : BinFile) (hx : x.ok h) (k : Nat) (hk : k ≤ (x.bytes be h).length) :
    plyV (readPly L h ((x.bytes be h).take k)) =
      plyVerdict (headerText x.ls).length h.vcount h.vsize x.fs.length (x.faceBytes be h) k := by
  have hlen := plyBin_length be h x hx
  by_cases hlt : k < (x.bytes be h).length
  · obtain ⟨e, he⟩ := ply_binary_prefix_rejected L be h hfmt x hx k hlt
    rw [he]
    simp only [plyV, plyVerdict]
    rw [if_pos (by omega)]
  · have e : (x.bytes be h).take k = x.bytes be h := List.take_of_length_le (by omega)
    rw [e, ply_binary_full L be h hfmt x hx]
    simp only [plyV, plyVerdict]
    rw [if_neg (by omega)]
    obtain ⟨_, hc, _, hf⟩ := hx
    simp only [BinFile.mesh, hc]
    cases hface : h.face with
    | none => rw [hface] at hf; simp [hf]
    | some f => simp

theorem large_cut_ply_binary (L : Lex) (be : Bool) (h : Hdr) (hfmt : h.fmt = if be then .be else .le)
    (x : BinFile) (hx : x.ok h) (k : Nat) (hk : k ≤ (x.bytes be h).length) :
    plyCutOk (headerText x.ls).length h.vcount h.vsize x.fs.length (x.faceBytes be h) (x.bytes be h).length k
      (plyV (readPly L h ((x.bytes be h).take k))) = true := by
  rw [large_cut_ply_binary_verdict L be h hfmt x hx k hk]
  rw [plyBin_length be h x hx] at hk ⊢
  simp [plyCutOk, hk]


/-! ## PTS text -/

/-- the text of a token-boundary cut: the count line and `j` whole point lines (LF-terminated), then the first `t`
    tokens of point line `j`, optionally the separating space -/
def ptsCutText (ctok : Tok) (pls : List (List Tok)) (j t : Nat) (sp : Bool) : List UInt8 :=
  renderLines ([ctok] :: pls.take j) ++ (joinSp ((pls.getD j []).take t) ++ (if sp then [32] else []))

theorem ptsV_error {r : Except Readers.Err (List PtsPoint)} (h : ∃ e, r = .error e) : ptsV r = none := by
  obtain ⟨e, rfl⟩ := h; rfl

/-- the complete lines (count line + all point lines) read back as `n` points -/
theorem ptsV_full (L : Lex) (fpp : Nat) (ctok : Tok) (pls : List (List Tok))
    (hx : PtsOk L fpp (mkLine [ctok]) (pls.map mkLine)) (bs : List UInt8)
    (hs : scanLines bs = ([ctok] :: pls).map mkLine) : ptsV (readPts L bs) = some pls.length := by
  unfold readPts
  rw [hs, List.map_cons, pts_full L fpp (mkLine [ctok]) (pls.map mkLine) hx]
  simp [ptsV]

theorem ptsVerdict_none {n fpp j t : Nat} (h : ptsWhole fpp j t < n) : ptsVerdict n fpp j t = none := by
  simp [ptsVerdict, h]

theorem ptsVerdict_some {n fpp j t : Nat} (h : ¬ ptsWhole fpp j t < n) : ptsVerdict n fpp j t = some n := by
  simp [ptsVerdict, h]

theorem ptsWhole_ne {fpp j t : Nat} (h : t ≠ fpp) : ptsWhole fpp j t = j := by simp [ptsWhole, h]

theorem ptsWhole_eq (fpp j : Nat) : ptsWhole fpp j fpp = j + 1 := by simp [ptsWhole]

/-- every valid PTS text (count line, `n` point lines of `fpp ≥ 3` clean tokens), every token-boundary cut described by
    (`j` whole lines, `t` tokens, space) with `ptsCutValid`: the model's verdict is `ptsVerdict n fpp j t` — rejected while
    fewer whole lines than declared are present, the `n` points otherwise -/
theorem large_cut_pts_verdict (L : Lex) (fpp : Nat) (ctok : Tok) (pls : List (List Tok))
    (hc : CleanTok ctok) (hclean : ∀ ts ∈ pls, ∀ t ∈ ts, CleanTok t)
    (hx : PtsOk L fpp (mkLine [ctok]) (pls.map mkLine))
    (j t : Nat) (sp : Bool) (hv : ptsCutValid pls.length fpp j t sp = true) :
    ptsV (readPts L (ptsCutText ctok pls j t sp)) = ptsVerdict pls.length fpp j t := by
  simp only [ptsCutValid, Bool.and_eq_true, decide_eq_true_eq] at hv
  obtain ⟨⟨h3, htf⟩, hcase⟩ := hv
  have hcl1 : ∀ ts ∈ [ctok] :: pls, ∀ x ∈ ts, CleanTok x := by
    intro ts hts x hx'
    rcases List.mem_cons.mp hts with rfl | h2
    · simp only [List.mem_singleton] at hx'; subst hx'; exact hc
    · exact hclean ts h2 x hx'
  by_cases hj : j < pls.length
  · rw [if_pos hj] at hcase
    have hlen : (pls[j]).length = fpp := by
      have := (hx.2 (mkLine pls[j]) (by simp; exact ⟨pls[j], List.getElem_mem hj, rfl⟩)).1
      simpa [mkLine] using this
    have hg : pls.getD j [] = pls[j] := by simp [List.getD, hj]
    unfold ptsCutText
    rw [hg]
    by_cases htlt : t < fpp
    · rw [ptsVerdict_none (by rw [ptsWhole_ne (by omega)]; exact hj)]
      apply ptsV_error
      by_cases hj1 : 1 ≤ j
      · exact pts_prefix_bytes L fpp ctok pls hc hclean hx j hj1 hj t htlt sp
          (by intro hs; subst hs; simp at hcase; omega)
      · have hj0 : j = 0 := by omega
        subst hj0
        have ht0 : t = 0 := by
          rcases Nat.eq_zero_or_pos t with h | h
          · exact h
          · exfalso; simp at hcase; omega
        have hsp : sp = false := by
          cases sp
          · rfl
          · exfalso; simp at hcase; omega
        subst ht0; subst hsp
        have hne : pls ≠ [] := by intro h; subst h; simp at hj
        have := (pts_count_line_bytes L fpp ctok pls hc hx hne).2.2
        refine ⟨.short, ?_⟩
        simpa [renderLines, joinSp] using this
    · have htE : t = fpp := by omega
      have hsp : sp = false := by
        cases sp
        · rfl
        · exfalso; simp at hcase; omega
      have hj1 : 1 ≤ j := by
        rcases Nat.eq_zero_or_pos j with h | h
        · exfalso; subst h; simp at hcase; omega
        · exact h
      subst hsp
      rw [htE]
      have htake : (pls[j]).take fpp = pls[j] := List.take_of_length_le (by omega)
      have hne : pls[j] ≠ [] := by intro h; rw [h] at hlen; simp at hlen; omega
      rw [htake]
      simp only [Bool.false_eq_true, if_false, List.append_nil]
      by_cases hlast : j + 1 < pls.length
      · rw [ptsVerdict_none (by rw [ptsWhole_eq]; exact hlast)]
        exact ptsV_error (pts_prefix_bytes_eol L fpp ctok pls hc hclean hx j hlast hne)
      · rw [ptsVerdict_some (by rw [ptsWhole_eq]; exact hlast)]
        apply ptsV_full L fpp ctok pls hx
        have hcl : ∀ ts ∈ ([ctok] :: pls.take j) ++ [pls[j]], ∀ x ∈ ts, CleanTok x := by
          intro ts hts
          rcases List.mem_append.mp hts with h1 | h1
          · rcases List.mem_cons.mp h1 with rfl | h2
            · exact hcl1 _ (by simp)
            · exact hcl1 ts (List.mem_cons_of_mem _ (List.mem_of_mem_take h2))
          · simp only [List.mem_singleton] at h1; subst h1
            exact hcl1 _ (List.mem_cons_of_mem _ (List.getElem_mem _))
        rw [(ply_ascii_bytes_complete _ _ hcl hne).2]
        have e : ([ctok] :: pls.take j) ++ [pls[j]] = [ctok] :: pls := by
          have : pls.take (j + 1) = pls := List.take_of_length_le (by omega)
          rw [List.cons_append, ← List.take_succ_eq_append_getElem hj, this]
        rw [e]
  · rw [if_neg hj] at hcase
    simp only [Bool.and_eq_true, beq_iff_eq, Bool.not_eq_true'] at hcase
    obtain ⟨⟨hjn, ht0⟩, hsp⟩ := hcase
    subst hjn; subst ht0; subst hsp
    rw [ptsVerdict_some (by rw [ptsWhole_ne (by omega)]; omega)]
    apply ptsV_full L fpp ctok pls hx
    unfold ptsCutText
    have := scanLines_render ([ctok] :: pls) hcl1 [] (by simp) (by simp)
    simpa [joinSp] using this

/-- ... and the compiled oracle (`ptsCutOk`, with the byte position and file length of fixed-width text supplied as
    they are) holds of it -/
theorem large_cut_pts (L : Lex) (fpp : Nat) (ctok : Tok) (pls : List (List Tok))
    (hc : CleanTok ctok) (hclean : ∀ ts ∈ pls, ∀ t ∈ ts, CleanTok t)
    (hx : PtsOk L fpp (mkLine [ctok]) (pls.map mkLine))
    (j t : Nat) (sp : Bool) (hv : ptsCutValid pls.length fpp j t sp = true) (clen tw : Nat) :
    ptsCutOk pls.length fpp clen tw (clen + pls.length * (fpp * (tw + 1))) j t sp (ptsCutPos clen tw fpp j t sp)
      (ptsV (readPts L (ptsCutText ctok pls j t sp))) =
    decide (ptsCutPos clen tw fpp j t sp ≤ clen + pls.length * (fpp * (tw + 1))) := by
  rw [large_cut_pts_verdict L fpp ctok pls hc hclean hx j t sp hv]
  simp [ptsCutOk, hv]

/-! ## byte lengths: the sizes the harness reports are the lengths of the texts the theorems are about -/

theorem joinSp_length_fixed (tw : Nat) (ts : List Tok) (h : ∀ x ∈ ts, x.length = tw) (hne : ts ≠ []) :
    (joinSp ts).length + 1 = ts.length * (tw + 1) := by
  induction ts with
  | nil => exact absurd rfl hne
  | cons a ts ih =>
    cases ts with
    | nil => simp [joinSp, h a (by simp)]
    | cons b ts =>
      have ih' := ih (fun x hx => h x (List.mem_cons_of_mem _ hx)) (by simp)
      simp only [joinSp, List.length_append, List.length_cons] at ih' ⊢
      rw [h a (by simp)]
      rw [Nat.add_mul, ← ih']
      omega

theorem renderLines_length_fixed (tw fpp : Nat) (hf : 0 < fpp) (ls : List (List Tok))
    (h : ∀ ts ∈ ls, ts.length = fpp ∧ ∀ x ∈ ts, x.length = tw) :
    (renderLines ls).length = ls.length * (fpp * (tw + 1)) := by
  induction ls with
  | nil => simp [renderLines]
  | cons l ls ih =>
    have ih' := ih (fun ts hts => h ts (List.mem_cons_of_mem _ hts))
    obtain ⟨hl, hw⟩ := h l (by simp)
    have hne : l ≠ [] := by intro e; rw [e] at hl; simp at hl; omega
    have := joinSp_length_fixed tw l hw hne
    simp only [renderLines, List.flatMap_cons, List.length_append, List.length_cons, List.length_nil] at ih' ⊢
    rw [ih', this, hl, Nat.add_mul]
    omega

/-- fixed-width text (every point token `tw` bytes, `fpp > 0` tokens per line): the byte length of the cut text is
    `ptsCutPos` with `clen` = count token + LF — the position the harness cuts at and the oracle re-derives -/
theorem ptsCutText_length (ctok : Tok) (pls : List (List Tok)) (tw fpp : Nat) (hf : 0 < fpp)
    (h : ∀ ts ∈ pls, ts.length = fpp ∧ ∀ x ∈ ts, x.length = tw)
    (j t : Nat) (sp : Bool) (hj : j ≤ pls.length) (ht : t ≤ fpp) (hjt : j = pls.length → t = 0) :
    (ptsCutText ctok pls j t sp).length = ptsCutPos (ctok.length + 1) tw fpp j t sp := by
  have hr : (renderLines ([ctok] :: pls.take j)).length = (ctok.length + 1) + j * (fpp * (tw + 1)) := by
    have := renderLines_length_fixed tw fpp hf (pls.take j) (fun ts hts => h ts (List.mem_of_mem_take hts))
    simp only [renderLines, List.flatMap_cons, List.length_append, List.length_cons, List.length_nil, joinSp] at this ⊢
    rw [this, List.length_take, Nat.min_eq_left hj]
  have hs : (if sp then [(32 : UInt8)] else []).length = if sp then 1 else 0 := by cases sp <;> rfl
  have hm : (joinSp ((pls.getD j []).take t)).length = if t = 0 then 0 else t * (tw + 1) - 1 := by
    by_cases ht0 : t = 0
    · simp [ht0, joinSp]
    · rw [if_neg ht0]
      have hjl : j < pls.length := by
        rcases Nat.lt_or_ge j pls.length with h1 | h1
        · exact h1
        · exact absurd (hjt (by omega)) ht0
      have hg : pls.getD j [] = pls[j] := by simp [List.getD, hjl]
      obtain ⟨hl, hw⟩ := h pls[j] (List.getElem_mem hjl)
      have hne : (pls[j]).take t ≠ [] := by
        intro e
        have := congrArg List.length e
        simp only [List.length_take, List.length_nil] at this
        omega
      have := joinSp_length_fixed tw ((pls[j]).take t) (fun x hx => hw x (List.mem_of_mem_take hx)) hne
      rw [hg]
      simp only [List.length_take, hl, Nat.min_eq_left ht] at this
      omega
  unfold ptsCutText ptsCutPos
  rw [List.length_append, List.length_append, hr, hs, hm]
  omega

/-- PTS, everything from the text: valid fixed-width text, any valid token-boundary cut — the oracle predicate evaluated on
    the BYTE LENGTHS of the complete text and of the cut text and on the model's verdict is true -/
theorem large_cut_pts_bytes (L : Lex) (fpp : Nat) (ctok : Tok) (pls : List (List Tok))
    (hc : CleanTok ctok) (hclean : ∀ ts ∈ pls, ∀ t ∈ ts, CleanTok t)
    (hx : PtsOk L fpp (mkLine [ctok]) (pls.map mkLine))
    (tw : Nat) (hw : ∀ ts ∈ pls, ∀ x ∈ ts, x.length = tw)
    (j t : Nat) (sp : Bool) (hv : ptsCutValid pls.length fpp j t sp = true) :
    ptsCutOk pls.length fpp (ctok.length + 1) tw (renderLines ([ctok] :: pls)).length j t sp
      (ptsCutText ctok pls j t sp).length (ptsV (readPts L (ptsCutText ctok pls j t sp))) = true := by
  have hv' := hv
  simp only [ptsCutValid, Bool.and_eq_true, decide_eq_true_eq] at hv'
  obtain ⟨⟨h3, htf⟩, hcase⟩ := hv'
  have hf : 0 < fpp := by omega
  have h : ∀ ts ∈ pls, ts.length = fpp ∧ ∀ x ∈ ts, x.length = tw := by
    intro ts hts
    refine ⟨?_, hw ts hts⟩
    have := (hx.2 (mkLine ts) (by simp; exact ⟨ts, hts, rfl⟩)).1
    simpa [mkLine] using this
  have hjn : j ≤ pls.length := by
    by_cases hj : j < pls.length
    · omega
    · rw [if_neg hj] at hcase; simp at hcase; omega
  have hjt : j = pls.length → t = 0 := by
    intro e
    rw [if_neg (by omega)] at hcase; simp at hcase; omega
  have hlenF : (renderLines ([ctok] :: pls)).length = (ctok.length + 1) + pls.length * (fpp * (tw + 1)) := by
    have := renderLines_length_fixed tw fpp hf pls h
    simp only [renderLines, List.flatMap_cons, List.length_append, List.length_cons, List.length_nil, joinSp] at this ⊢
    rw [this]
  have hpos := ptsCutText_length ctok pls tw fpp hf h j t sp hjn htf hjt
  have hle : ptsCutPos (ctok.length + 1) tw fpp j t sp ≤ (ctok.length + 1) + pls.length * (fpp * (tw + 1)) := by
    unfold ptsCutPos
    by_cases hj : j < pls.length
    · rw [if_pos hj] at hcase
      have h1 : (j + 1) * (fpp * (tw + 1)) ≤ pls.length * (fpp * (tw + 1)) := Nat.mul_le_mul_right _ (by omega)
      rw [Nat.succ_mul] at h1
      have h2 : t * (tw + 1) ≤ fpp * (tw + 1) := Nat.mul_le_mul_right _ htf
      cases sp
      · simp only [Bool.false_eq_true, if_false]
        split <;> omega
      · have h4 : 0 < t ∧ t < fpp := by simp at hcase; omega
        have h5 : (t + 1) * (tw + 1) ≤ fpp * (tw + 1) := Nat.mul_le_mul_right _ (by omega)
        rw [Nat.succ_mul] at h5
        simp only [if_true]
        split <;> omega
    · have e : j = pls.length := by omega
      have ht0 := hjt e
      rw [if_neg hj] at hcase
      have hsp : sp = false := by simp at hcase; exact hcase.2
      subst hsp; subst ht0; subst e
      simp
  rw [large_cut_pts_verdict L fpp ctok pls hc hclean hx j t sp hv, hlenF, hpos]
  simp [ptsCutOk, hv, hle]

/-- face records of a triangle mesh with ONE list property (the writer's `vertex_indices`): count field + 3 entries each -/
theorem encFaces_length_triangles (be : Bool) (f : FaceHdr) (p : ListProp) (hl : f.lists = [p])
    (fs : List (List ListInst)) (hok : ∀ y ∈ fs, FaceOk f y) (htri : ∀ y ∈ fs, ∀ a ∈ y, a.1 = 3) :
    (encFaces be f fs).length = fs.length * (p.countSize + 3 * p.elemSize) := by
  unfold encFaces
  induction fs with
  | nil => simp
  | cons y fs ih =>
    have ih' := ih (fun z hz => hok z (List.mem_cons_of_mem _ hz)) (fun z hz => htri z (List.mem_cons_of_mem _ hz))
    have hy := (hok y (by simp)).1
    rw [hl] at hy ih' ⊢
    have h1 : (encLists be [p] y).length = p.countSize + 3 * p.elemSize := by
      match y, hy, htri y (by simp) with
      | [a], hy, h3 =>
        simp only [ListsOk] at hy
        have ha := h3 a (by simp)
        have hc := encCount_length be p a hy.1
        rw [ha] at hc
        simp only [encLists, encList, List.append_nil, List.length_append, hy.1.2, ha, hc]
      | [], hy, _ => simp [ListsOk] at hy
      | _ :: _ :: _, hy, _ => simp [ListsOk] at hy
    simp only [List.flatMap_cons, List.length_append, List.length_cons, ih', h1, Nat.add_mul]
    omega

theorem faceBytes_triangles (be : Bool) (h : Hdr) (x : BinFile) (hx : x.ok h) (f : FaceHdr) (p : ListProp)
    (hface : h.face = some f) (hl : f.lists = [p]) (htri : ∀ y ∈ x.fs, ∀ a ∈ y, a.1 = 3) :
    x.faceBytes be h = x.fs.length * (p.countSize + 3 * p.elemSize) := by
  obtain ⟨_, _, _, hf⟩ := hx
  rw [hface] at hf
  unfold BinFile.faceBytes
  rw [hface]
  exact encFaces_length_triangles be f p hl x.fs hf.2 htri

theorem faceBytes_cloud (be : Bool) (h : Hdr) (x : BinFile) (hface : h.face = none) : x.faceBytes be h = 0 := by
  unfold BinFile.faceBytes; rw [hface]; rfl


/-! ## non-vacuity, and the two seeded large-file defects as instances of the compiled predicates -/

/-- a valid two-point PTS text ("2", then two lines "1 2 3") in the shape the PTS theorems quantify over; the cut after
    one whole line (with its LF) is a valid large-file cut description and is rejected, the complete text is accepted -/
example : PtsOk goLex 3 (mkLine [[50]]) ([[[49], [50], [51]], [[49], [50], [51]]].map mkLine) ∧
    CleanTok [50] ∧ ptsCutValid 2 3 1 0 false = true ∧ ptsVerdict 2 3 1 0 = none ∧
    ptsCutValid 2 3 2 0 false = true ∧ ptsVerdict 2 3 2 0 = some 2 ∧ ptsVerdict 2 3 1 3 = some 2 := by
  refine ⟨⟨by decide, ?_⟩, ⟨by decide, by decide⟩, by decide, by decide, by decide, by decide, by decide⟩
  intro l hl
  simp only [List.map_cons, List.map_nil, List.mem_cons, List.not_mem_nil, or_false, or_self] at hl
  subst hl; exact ⟨by decide, by decide, by decide⟩

/-- seeded C14-m16 (batched STL read accepts a clean EOF at a batch boundary): 131092 triangles cut at byte
    84 + 50·65536 answered `ok:65536` — the predicate is false; the verdict the theorems give is an error -/
example : stlCutOk 131092 6554684 3276884 (some 65536) = false ∧ stlCutOk 131092 6554684 3276884 none = true ∧
    stlCutOk 131092 6554684 6554684 (some 131092) = true := by decide

/-- seeded C14-m17 (PTS completeness check against the capped allocation hint): 131101 declared points of 7 fields cut
    after 100000 whole lines (the last without its LF) answered `ok:100000` — false; an error is what is proved -/
example : ptsCutOk 131101 7 7 7 7341663 99999 7 false 5600006 (some 100000) = false ∧
    ptsCutOk 131101 7 7 7 7341663 99999 7 false 5600006 none = true ∧
    ptsCutOk 131101 7 7 7 7341663 131101 0 false 7341663 (some 131101) = true := by decide

example : splatCutOk 131107 4195424 2097152 65536 false = true ∧ splatCutOk 131107 4195424 2097153 65536 true = true ∧
    splatCutOk 131107 4195424 2097152 65535 false = false := by decide

end C14
end PolyVerif
