/-
  C14 — the SIZE-ONLY cut laws of `Model/C14Large.lean` follow from the full reader models.

  For every valid file (the reference encodings of Props/C14) and EVERY cut, the verdict of the reader model on
  `take k file` — reduced to "error | ok with so many elements" — is the function of the sizes (declared count, record
  size, header length, complete lines present, cut position) that `C14Large.*Verdict` computes, and the decidable
  predicate `C14Large.*CutOk`, which the driver evaluates on the sizes of a cut of a LARGE generated file and the
  verdict of the REAL reader (`c14.holds.large_cut_*`), holds of it.  The oracle is therefore the prefix theorems
  (`stl_prefix_rejected`, `splat_prefix`, `ply_binary_prefix_rejected`, `pts_prefix_bytes`, …) compiled; files of more
  than 65536 / 100000 records never have to pass through the List-based reader models.
-/
import PolyVerif.Props.C14
import PolyVerif.Model.C14Large

namespace PolyVerif
namespace C14
open Readers Spz Splat C14Large

/-! ## verdicts of the model readers, reduced to sizes -/

def stlV : Except Readers.Err (List (List UInt8)) → Verdict
  | .ok t => some t.length
  | .error _ => none

def plyV : Except Readers.Err PlyMesh → Option (Nat × Nat)
  | .ok (.bin m) => some (m.verts.length, m.faces.length)
  | .ok (.ascii m) => some (m.verts.length, m.faces.length)
  | .error _ => none

def ptsV : Except Readers.Err (List PtsPoint) → Verdict
  | .ok ps => some ps.length
  | .error _ => none

/-! ## binary STL -/

theorem stlFile_length (hdr : List UInt8) (tris : List (List UInt8)) (hh : hdr.length = 80)
    (ht : ∀ t ∈ tris, t.length = 50) : (stlFile hdr tris).length = stlLen tris.length := by
  simp [stlFile, stlLen, hh, le32n_length, flatten_length_const tris 50 ht]; ring

/-- every valid STL file, every cut `k ≤ length`: the model's verdict is `stlVerdict n k` -/
theorem large_cut_stl_verdict (hdr : List UInt8) (tris : List (List UInt8)) (hh : hdr.length = 80)
    (ht : ∀ t ∈ tris, t.length = 50) (hn : tris.length < 2 ^ 32) (k : Nat) (hk : k ≤ (stlFile hdr tris).length) :
    stlV (readStl ((stlFile hdr tris).take k)) = stlVerdict tris.length k := by
  have hlen := stlFile_length hdr tris hh ht
  by_cases hlt : k < (stlFile hdr tris).length
  · rw [stl_prefix_rejected hdr tris hh ht hn k hlt]
    simp only [stlV, stlVerdict]
    rw [if_pos (by omega)]
  · have e : (stlFile hdr tris).take k = stlFile hdr tris := List.take_of_length_le (by omega)
    rw [e, stl_full hdr tris hh ht hn]
    simp only [stlV, stlVerdict]
    rw [if_neg (by omega)]

/-- ... and the compiled oracle holds of it -/
theorem large_cut_stl (hdr : List UInt8) (tris : List (List UInt8)) (hh : hdr.length = 80)
    (ht : ∀ t ∈ tris, t.length = 50) (hn : tris.length < 2 ^ 32) (k : Nat) (hk : k ≤ (stlFile hdr tris).length) :
    stlCutOk tris.length (stlFile hdr tris).length k (stlV (readStl ((stlFile hdr tris).take k))) = true := by
  rw [large_cut_stl_verdict hdr tris hh ht hn k hk]
  rw [stlFile_length hdr tris hh ht] at hk ⊢
  simp [stlCutOk, hk]

example : ∃ hdr : List UInt8, ∃ tris : List (List UInt8), hdr.length = 80 ∧ (∀ t ∈ tris, t.length = 50) ∧
    tris.length < 2 ^ 32 ∧ 133 ≤ (stlFile hdr tris).length ∧ stlVerdict tris.length 133 = none ∧
    stlVerdict tris.length 134 = some 1 :=
  ⟨List.replicate 80 0, [List.replicate 50 7], by simp, by simp, by simp, by simp [stlFile, le32n], by decide, by decide⟩

/-! ## .splat -/

theorem splatFile_length (rs : List Rec) : (rs.flatMap encRec).length = 32 * rs.length := by
  induction rs with
  | nil => simp
  | cons r rs ih => simp only [List.flatMap_cons, List.length_append, encRec_length, List.length_cons, ih]; omega

theorem large_cut_splat_verdict (rs : List Rec) (k : Nat) (hk : k ≤ (rs.flatMap encRec).length) :
    ((readRecs ((rs.flatMap encRec).take k)).recs.length, (readRecs ((rs.flatMap encRec).take k)).short) =
      splatVerdict k := by
  rw [splat_prefix rs k hk]
  rw [splatFile_length] at hk
  have : min (k / 32) rs.length = k / 32 := by omega
  simp only [splatVerdict, List.length_take, this, Prod.mk.injEq, true_and]
  by_cases h : k % 32 = 0 <;> simp [h]

theorem large_cut_splat (rs : List Rec) (k : Nat) (hk : k ≤ (rs.flatMap encRec).length) :
    splatCutOk rs.length (rs.flatMap encRec).length k (readRecs ((rs.flatMap encRec).take k)).recs.length
      (readRecs ((rs.flatMap encRec).take k)).short = true := by
  have h := large_cut_splat_verdict rs k hk
  simp only [splatCutOk, h, beq_self_eq_true, Bool.and_true, Bool.and_eq_true, decide_eq_true_eq]
  exact ⟨by rw [splatFile_length]; simp, hk⟩

/-! ## binary PLY -/

/-- bytes of the face records of a reference-encoded binary file -/
def BinFile.faceBytes (be : Bool) (h : Hdr) (x : BinFile) : Nat :=
  (match h.face with | none => [] | some f => encFaces be f x.fs).length

theorem plyBin_length (be : Bool) (h : Hdr) (x : BinFile) (hx : x.ok h) :
    (x.bytes be h).length = plyLen (headerText x.ls).length h.vcount h.vsize (x.faceBytes be h) := by
  obtain ⟨_, hc, hv, _⟩ := hx
  have hL := flatten_length_const x.vs h.vsize hv
  unfold BinFile.bytes BinFile.body BinFile.faceBytes plyLen
  rw [List.length_append, List.length_append, hL, hc]
  cases h.face <;> simp only [List.length_nil] <;> omega

theorem large_cut_ply_binary_verdict (L : Lex) (be : Bool) (h : Hdr) (hfmt : h.fmt = if be then .be else .le)
    (x : BinFile) (hx : x.ok h) (k : Nat) (hk : k ≤ (x.bytes be h).length) :
    plyV (readPly L h ((x.bytes be h).take k)) =
      plyVerdict (headerText x.ls).length h.vcount h.vsize x.fs.length (x.faceBytes be h) k := by
  have hlen := plyBin_length be h x hx
  by_cases hlt : k < (x.bytes be h).length
  · obtain ⟨e, he⟩ := ply_binary_prefix_rejected L be h hfmt x hx k hlt
    rw [he]
    simp only [plyV, plyVerdict]
    rw [if_pos (by omega)]
  · have e : (x.bytes be h).take k = x.bytes be h := List.take_of_length_le (by omega)
    rw [e, ply_binary_full L be h hfmt x hx]
    simp only [plyV, plyVerdict]
    rw [if_neg (by omega)]
    obtain ⟨_, hc, _, hf⟩ := hx
    simp only [BinFile.mesh, hc]
    cases hface : h.face with
    | none => rw [hface] at hf; simp [hf]
    | some f => simp

theorem large_cut_ply_binary (L : Lex) (be : Bool) (h : Hdr) (hfmt : h.fmt = if be then .be else .le)
    (x : BinFile) (hx : x.ok h) (k : Nat) (hk : k ≤ (x.bytes be h).length) :
    plyCutOk (headerText x.ls).length h.vcount h.vsize x.fs.length (x.faceBytes be h) (x.bytes be h).length k
      (plyV (readPly L h ((x.bytes be h).take k))) = true := by
  rw [large_cut_ply_binary_verdict L be h hfmt x hx k hk]
  rw [plyBin_length be h x hx] at hk ⊢
  simp [plyCutOk, hk]


/-! ## PTS text -/

/-- the text of a token-boundary cut: the count line and `j` whole point lines (LF-terminated), then the first `t`
    tokens of point line `j`, optionally the separating space -/
def ptsCutText (ctok : Tok) (pls : List (List Tok)) (j t : Nat) (sp : Bool) : List UInt8 :=
  renderLines ([ctok] :: pls.take j) ++ (joinSp ((pls.getD j []).take t) ++ (if sp then [32] else []))

theorem ptsV_error {r : Except Readers.Err (List PtsPoint)} (h : ∃ e, r = .error e) : ptsV r = none := by
  obtain ⟨e, rfl⟩ := h; rfl

/-- the complete lines (count line + all point lines) read back as `n` points -/
theorem ptsV_full (L : Lex) (fpp : Nat) (ctok : Tok) (pls : List (List Tok))
    (hx : PtsOk L fpp (mkLine [ctok]) (pls.map mkLine)) (bs : List UInt8)
    (hs : scanLines bs = ([ctok] :: pls).map mkLine) : ptsV (readPts L bs) = some pls.length := by
  unfold readPts
  rw [hs, List.map_cons, pts_full L fpp (mkLine [ctok]) (pls.map mkLine) hx]
  simp [ptsV]

theorem ptsVerdict_none {n fpp j t : Nat} (h : ptsWhole fpp j t < n) : ptsVerdict n fpp j t = none := by
  simp [ptsVerdict, h]

theorem ptsVerdict_some {n fpp j t : Nat} (h : ¬ ptsWhole fpp j t < n) : ptsVerdict n fpp j t = some n := by
  simp [ptsVerdict, h]

theorem ptsWhole_ne {fpp j t : Nat} (h : t ≠ fpp) : ptsWhole fpp j t = j := by simp [ptsWhole, h]

theorem ptsWhole_eq (fpp j : Nat) : ptsWhole fpp j fpp = j + 1 := by simp [ptsWhole]

/-- every valid PTS text (count line, `n` point lines of `fpp ≥ 3` clean tokens), every token-boundary cut described by
    (`j` whole lines, `t` tokens, space) with `ptsCutValid`: the model's verdict is `ptsVerdict n fpp j t` — rejected while
    fewer whole lines than declared are present, the `n` points otherwise -/
theorem large_cut_pts_verdict (L : Lex) (fpp : Nat) (ctok : Tok) (pls : List (List Tok))
    (hc : CleanTok ctok) (hclean : ∀ ts ∈ pls, ∀ t ∈ ts, CleanTok t)
    (hx : PtsOk L fpp (mkLine [ctok]) (pls.map mkLine))
    (j t : Nat) (sp : Bool) (hv : ptsCutValid pls.length fpp j t sp = true) :
    ptsV (readPts L (ptsCutText ctok pls j t sp)) = ptsVerdict pls.length fpp j t := by
  simp only [ptsCutValid, Bool.and_eq_true, decide_eq_true_eq] at hv
  obtain ⟨⟨h3, htf⟩, hcase⟩ := hv
  have hcl1 : ∀ ts ∈ [ctok] :: pls, ∀ x ∈ ts, CleanTok x := by
    intro ts hts x hx'
    rcases List.mem_cons.mp hts with rfl | h2
    · simp only [List.mem_singleton] at hx'; subst hx'; exact hc
    · exact hclean ts h2 x hx'
  by_cases hj : j < pls.length
  · rw [if_pos hj] at hcase
    have hlen : (pls[j]).length = fpp := by
      have := (hx.2 (mkLine pls[j]) (by simp; exact ⟨pls[j], List.getElem_mem hj, rfl⟩)).1
      simpa [mkLine] using this
    have hg : pls.getD j [] = pls[j] := by simp [List.getD, hj]
    unfold ptsCutText
    rw [hg]
    by_cases htlt : t < fpp
    · rw [ptsVerdict_none (by rw [ptsWhole_ne (by omega)]; exact hj)]
      apply ptsV_error
      by_cases hj1 : 1 ≤ j
      · exact pts_prefix_bytes L fpp ctok pls hc hclean hx j hj1 hj t htlt sp
          (by intro hs; subst hs; simp at hcase; omega)
      · have hj0 : j = 0 := by omega
        subst hj0
        have ht0 : t = 0 := by
          rcases Nat.eq_zero_or_pos t with h | h
          · exact h
          · exfalso; simp at hcase; omega
        have hsp : sp = false := by
          cases sp
          · rfl
          · exfalso; simp at hcase; omega
        subst ht0; subst hsp
        have hne : pls ≠ [] := by intro h; subst h; simp at hj
        have := (pts_count_line_bytes L fpp ctok pls hc hx hne).2.2
        refine ⟨.short, ?_⟩
        simpa [renderLines, joinSp] using this
    · have htE : t = fpp := by omega
      have hsp : sp = false := by
        cases sp
        · rfl
        · exfalso; simp at hcase; omega
      have hj1 : 1 ≤ j := by
        rcases Nat.eq_zero_or_pos j with h | h
        · exfalso; subst h; simp at hcase; omega
        · exact h
      subst hsp
      rw [htE]
      have htake : (pls[j]).take fpp = pls[j] := List.take_of_length_le (by omega)
      have hne : pls[j] ≠ [] := by intro h; rw [h] at hlen; simp at hlen; omega
      rw [htake]
      simp only [Bool.false_eq_true, if_false, List.append_nil]
      by_cases hlast : j + 1 < pls.length
      · rw [ptsVerdict_none (by rw [ptsWhole_eq]; exact hlast)]
        exact ptsV_error (pts_prefix_bytes_eol L fpp ctok pls hc hclean hx j hlast hne)
      · rw [ptsVerdict_some (by rw [ptsWhole_eq]; exact hlast)]
        apply ptsV_full L fpp ctok pls hx
        have hcl : ∀ ts ∈ ([ctok] :: pls.take j) ++ [pls[j]], ∀ x ∈ ts, CleanTok x := by
          intro ts hts
          rcases List.mem_append.mp hts with h1 | h1
          · rcases List.mem_cons.mp h1 with rfl | h2
            · exact hcl1 _ (by simp)
            · exact hcl1 ts (List.mem_cons_of_mem _ (List.mem_of_mem_take h2))
          · simp only [List.mem_singleton] at h1; subst h1
            exact hcl1 _ (List.mem_cons_of_mem _ (List.getElem_mem _))
        rw [(ply_ascii_bytes_complete _ _ hcl hne).2]
        have e : ([ctok] :: pls.take j) ++ [pls[j]] = [ctok] :: pls := by
          have : pls.take (j + 1) = pls := List.take_of_length_le (by omega)
          rw [List.cons_append, ← List.take_succ_eq_append_getElem hj, this]
        rw [e]
  · rw [if_neg hj] at hcase
    simp only [Bool.and_eq_true, beq_iff_eq, Bool.not_eq_true'] at hcase
    obtain ⟨⟨hjn, ht0⟩, hsp⟩ := hcase
    subst hjn; subst ht0; subst hsp
    rw [ptsVerdict_some (by rw [ptsWhole_ne (by omega)]; omega)]
    apply ptsV_full L fpp ctok pls hx
    unfold ptsCutText
    have := scanLines_render ([ctok] :: pls) hcl1 [] (by simp) (by simp)
    simpa [joinSp] using this

/-- ... and the compiled oracle (`ptsCutOk`, with the byte position and file length of fixed-width text supplied as
    they are) holds of it -/
theorem large_cut_pts (L : Lex) (fpp : Nat) (ctok : Tok) (pls : List (List Tok))
    (hc : CleanTok ctok) (hclean : ∀ ts ∈ pls, ∀ t ∈ ts, CleanTok t)
    (hx : PtsOk L fpp (mkLine [ctok]) (pls.map mkLine))
    (j t : Nat) (sp : Bool) (hv : ptsCutValid pls.length fpp j t sp = true) (clen tw : Nat) :
    ptsCutOk pls.length fpp clen tw (clen + pls.length * (fpp * (tw + 1))) j t sp (ptsCutPos clen tw fpp j t sp)
      (ptsV (readPts L (ptsCutText ctok pls j t sp))) =
    decide (ptsCutPos clen tw fpp j t sp ≤ clen + pls.length * (fpp * (tw + 1))) := by
  rw [large_cut_pts_verdict L fpp ctok pls hc hclean hx j t sp hv]
  simp [ptsCutOk, hv]

/-! ## non-vacuity, and the two seeded large-file defects as instances of the compiled predicates -/

/-- a valid two-point PTS text ("2", then two lines "1 2 3") in the shape the PTS theorems quantify over; the cut after
    one whole line (with its LF) is a valid large-file cut description and is rejected, the complete text is accepted -/
example : PtsOk goLex 3 (mkLine [[50]]) ([[[49], [50], [51]], [[49], [50], [51]]].map mkLine) ∧
    CleanTok [50] ∧ ptsCutValid 2 3 1 0 false = true ∧ ptsVerdict 2 3 1 0 = none ∧
    ptsCutValid 2 3 2 0 false = true ∧ ptsVerdict 2 3 2 0 = some 2 ∧ ptsVerdict 2 3 1 3 = some 2 := by
  refine ⟨⟨by decide, ?_⟩, ⟨by decide, by decide⟩, by decide, by decide, by decide, by decide, by decide⟩
  intro l hl
  simp only [List.map_cons, List.map_nil, List.mem_cons, List.not_mem_nil, or_false, or_self] at hl
  subst hl; exact ⟨by decide, by decide, by decide⟩

/-- seeded C14-m16 (batched STL read accepts a clean EOF at a batch boundary): 131092 triangles cut at byte
    84 + 50·65536 answered `ok:65536` — the predicate is false; the verdict the theorems give is an error -/
example : stlCutOk 131092 6554684 3276884 (some 65536) = false ∧ stlCutOk 131092 6554684 3276884 none = true ∧
    stlCutOk 131092 6554684 6554684 (some 131092) = true := by decide

/-- seeded C14-m17 (PTS completeness check against the capped allocation hint): 131101 declared points of 7 fields cut
    after 100000 whole lines (the last without its LF) answered `ok:100000` — false; an error is what is proved -/
example : ptsCutOk 131101 7 7 7 7341663 99999 7 false 5600006 (some 100000) = false ∧
    ptsCutOk 131101 7 7 7 7341663 99999 7 false 5600006 none = true ∧
    ptsCutOk 131101 7 7 7 7341663 131101 0 false 7341663 (some 131101) = true := by decide

example : splatCutOk 131107 4195424 2097152 65536 false = true ∧ splatCutOk 131107 4195424 2097153 65536 true = true ∧
    splatCutOk 131107 4195424 2097152 65535 false = false := by decide

end C14
end PolyVerif
