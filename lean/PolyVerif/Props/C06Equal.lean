/-
  C06 — the model's material / texture equality (`PolyformMaterial.equal`, `PolyformTexture.equal`) is an equivalence.
-/
import PolyVerif.Model.GltfDedup

namespace PolyVerif
namespace C06
open Gltf

/-! ### textures -/

/-- what `PolyformTexture.equal` looks at -/
def texKey (t : PTexture) : String × Option (List Nat) × Bool × Option Sampler :=
  (t.uri, t.xform, t.xform.isSome && t.xformRequired, t.sampler)

theorem ptexture_equal_iff (a b : PTexture) : a.equal b = true ↔ texKey a = texKey b := by
  unfold PTexture.equal texKey
  cases ha : a.sampler <;> cases hb : b.sampler <;>
    simp [optEq, Sampler.equal, Bool.and_eq_true, beq_iff_eq, and_assoc]

/-- the OLD texture equality (before 8f08ae3): only the four enums of the samplers.  Kept as a local copy to document
    the repaired defect; it is not a claim about the current source. -/
def textureEqualOld (a b : PTexture) : Bool :=
  a.uri == b.uri
  && a.xform == b.xform && (a.xform.isSome && a.xformRequired) == (b.xform.isSome && b.xformRequired)
  && optEq (fun s t => s.mag == t.mag && s.min == t.min && s.wrapS == t.wrapS && s.wrapT == t.wrapT) a.sampler b.sampler

/-- with the old equality two textures that differ in the sampler name were "equal", so materials differing only there
    were merged and the second sampler was never written (fixed by 8f08ae3; corpus case `c6SamplerNameWitness`) -/
theorem gltf_dedup_samplername_counterexample :
    ∃ a b : PTexture, textureEqualOld a b = true ∧ a.sampler ≠ b.sampler ∧ a.equal b = false :=
  ⟨{ uri := "a.png", sampler := some { mag := 0, min := 0, wrapS := 10497, wrapT := 10497, name := "first" }, xform := none, xformRequired := false },
   { uri := "a.png", sampler := some { mag := 0, min := 0, wrapS := 10497, wrapT := 10497, name := "second" }, xform := none, xformRequired := false },
   by decide, by decide, by decide⟩

/-- `texEq th th` as a relation on texture ids: same id, or both resolve to `equal` textures -/
def TexRel (th : Nat → Option PTexture) (a b : Nat) : Prop :=
  a = b ∨ ∃ x y, th a = some x ∧ th b = some y ∧ texKey x = texKey y

theorem texEq_iff (th : Nat → Option PTexture) (a b : Nat) : texEq th th a b = true ↔ TexRel th a b := by
  unfold texEq TexRel
  simp only [Bool.or_eq_true, beq_iff_eq]
  constructor
  · rintro (h | h)
    · exact Or.inl h
    · split at h
      · rename_i x y hx hy
        exact Or.inr ⟨x, y, hx, hy, (ptexture_equal_iff x y).mp h⟩
      · cases h
  · rintro (h | ⟨x, y, hx, hy, hk⟩)
    · exact Or.inl h
    · right; rw [hx, hy]; exact (ptexture_equal_iff x y).mpr hk

theorem texRel_refl (th : Nat → Option PTexture) (a : Nat) : TexRel th a a := Or.inl rfl

theorem texRel_symm {th : Nat → Option PTexture} {a b : Nat} (h : TexRel th a b) : TexRel th b a := by
  rcases h with h | ⟨x, y, hx, hy, hk⟩
  · exact Or.inl h.symm
  · exact Or.inr ⟨y, x, hy, hx, hk.symm⟩

theorem texRel_trans {th : Nat → Option PTexture} {a b c : Nat} (h1 : TexRel th a b) (h2 : TexRel th b c) : TexRel th a c := by
  rcases h1 with rfl | ⟨x, y, hx, hy, hk⟩
  · exact h2
  · rcases h2 with rfl | ⟨y', z, hy', hz, hk'⟩
    · exact Or.inr ⟨x, y, hx, hy, hk⟩
    · rw [hy] at hy'; injection hy' with hy'; subst hy'
      exact Or.inr ⟨x, z, hx, hz, hk.trans hk'⟩

/-! ### lifting a relation through `optEq` -/

def OptRel {α} (R : α → α → Prop) : Option α → Option α → Prop
  | none, none => True
  | some a, some b => R a b
  | _, _ => False

theorem optEq_iff {α} (f : α → α → Bool) (R : α → α → Prop) (h : ∀ a b, f a b = true ↔ R a b) (x y : Option α) :
    optEq f x y = true ↔ OptRel R x y := by
  cases x <;> cases y <;> simp [optEq, OptRel, h]

theorem optRel_refl {α} {R : α → α → Prop} (h : ∀ a, R a a) : ∀ x, OptRel R x x
  | none => trivial
  | some a => h a

theorem optRel_symm {α} {R : α → α → Prop} (h : ∀ a b, R a b → R b a) : ∀ {x y}, OptRel R x y → OptRel R y x
  | none, none, _ => trivial
  | some _, some _, hr => h _ _ hr
  | none, some _, hr => hr.elim
  | some _, none, hr => hr.elim

theorem optRel_trans {α} {R : α → α → Prop} (h : ∀ a b c, R a b → R b c → R a c) :
    ∀ {x y z}, OptRel R x y → OptRel R y z → OptRel R x z
  | none, none, none, _, _ => trivial
  | some _, some _, some _, h1, h2 => h _ _ _ h1 h2
  | none, some _, _, h1, _ => h1.elim
  | some _, none, _, h1, _ => h1.elim
  | none, none, some _, _, h2 => h2.elim
  | some _, some _, none, _, h2 => h2.elim

/-! ### materials -/

def ScaledRel (th : Nat → Option PTexture) (x y : Nat × Option Nat) : Prop := TexRel th x.1 y.1 ∧ x.2 = y.2

def extKey (e : PMatExt) : String × Nat := (e.id, e.eqKey)

/-- `PolyformMaterial.equal` as a proposition -/
structure MEq (th : Nat → Option PTexture) (a b : PMaterial) : Prop where
  name : a.name = b.name
  hasPbr : a.hasPbr = b.hasPbr
  pbr : a.hasPbr = true → a.metallic = b.metallic ∧ a.roughness = b.roughness ∧ a.baseColor = b.baseColor
        ∧ OptRel (TexRel th) a.baseColorTex b.baseColorTex ∧ OptRel (TexRel th) a.metalRoughTex b.metalRoughTex
  emissive : a.emissive = b.emissive
  normal : OptRel (ScaledRel th) a.normalTex b.normalTex
  occlusion : OptRel (ScaledRel th) a.occlusionTex b.occlusionTex
  alphaMode : a.alphaMode = b.alphaMode
  alphaCutoff : a.alphaCutoff = b.alphaCutoff
  exts : a.exts.map extKey = b.exts.map extKey

theorem zipAll_iff (l1 l2 : List PMatExt) :
    (l1.length == l2.length && (l1.zip l2).all (fun p => p.1.id == p.2.id && p.1.eqKey == p.2.eqKey)) = true
      ↔ l1.map extKey = l2.map extKey := by
  induction l1 generalizing l2 with
  | nil => cases l2 <;> simp
  | cons a r ih =>
    cases l2 with
    | nil => simp
    | cons b r2 =>
      have := ih r2
      simp only [Bool.and_eq_true, beq_iff_eq] at this
      simp only [List.length_cons, List.zip_cons_cons, List.all_cons, List.map_cons, List.cons.injEq, Bool.and_eq_true,
        beq_iff_eq, extKey, Prod.mk.injEq, Nat.add_right_cancel_iff]
      constructor
      · rintro ⟨hl, ⟨h1, h2⟩, h3⟩; exact ⟨⟨h1, h2⟩, this.mp ⟨hl, h3⟩⟩
      · rintro ⟨⟨h1, h2⟩, h3⟩; obtain ⟨hl, h4⟩ := this.mpr h3; exact ⟨hl, ⟨h1, h2⟩, h4⟩

theorem scaled_iff (th : Nat → Option PTexture) (x y : Nat × Option Nat) :
    (texEq th th x.1 y.1 && x.2 == y.2) = true ↔ ScaledRel th x y := by
  simp [ScaledRel, Bool.and_eq_true, texEq_iff]

theorem pmaterial_equal_iff (th : Nat → Option PTexture) (a b : PMaterial) : PMaterial.equal th a b = true ↔ MEq th a b := by
  have hz := zipAll_iff a.exts b.exts
  simp only [Bool.and_eq_true, beq_iff_eq] at hz
  have hn := optEq_iff _ _ (scaled_iff th) a.normalTex b.normalTex
  have ho := optEq_iff _ _ (scaled_iff th) a.occlusionTex b.occlusionTex
  have hb := optEq_iff _ _ (texEq_iff th) a.baseColorTex b.baseColorTex
  have hm := optEq_iff _ _ (texEq_iff th) a.metalRoughTex b.metalRoughTex
  unfold PMaterial.equal
  simp only [Bool.and_eq_true, beq_iff_eq, Bool.or_eq_true, Bool.not_eq_true', hn, ho, hb, hm]
  constructor
  · rintro ⟨⟨⟨⟨⟨⟨⟨⟨⟨h1, h2⟩, h3⟩, h4⟩, h5⟩, h6⟩, h7⟩, h8⟩, h9⟩, h10⟩
    refine ⟨h1, h2, ?_, h4, h5, h6, h7, h8, hz.mp ⟨h9, h10⟩⟩
    intro hp
    rcases h3 with h3 | h3
    · rw [hp] at h3; cases h3
    · exact ⟨h3.1.1.1.1, h3.1.1.1.2, h3.1.1.2, h3.1.2, h3.2⟩
  · intro h
    obtain ⟨h9, h10⟩ := hz.mpr h.exts
    refine ⟨⟨⟨⟨⟨⟨⟨⟨⟨h.name, h.hasPbr⟩, ?_⟩, h.emissive⟩, h.normal⟩, h.occlusion⟩, h.alphaMode⟩, h.alphaCutoff⟩, h9⟩, h10⟩
    cases hp : a.hasPbr with
    | false => exact Or.inl rfl
    | true => obtain ⟨p1, p2, p3, p4, p5⟩ := h.pbr hp; exact Or.inr ⟨⟨⟨⟨p1, p2⟩, p3⟩, p4⟩, p5⟩

theorem scaledRel_symm {th : Nat → Option PTexture} (x y : Nat × Option Nat) (h : ScaledRel th x y) : ScaledRel th y x :=
  ⟨texRel_symm h.1, h.2.symm⟩

theorem scaledRel_trans {th : Nat → Option PTexture} (x y z : Nat × Option Nat) (h1 : ScaledRel th x y)
    (h2 : ScaledRel th y z) : ScaledRel th x z := ⟨texRel_trans h1.1 h2.1, h1.2.trans h2.2⟩

theorem meq_refl (th : Nat → Option PTexture) (a : PMaterial) : MEq th a a :=
  ⟨rfl, rfl, fun _ => ⟨rfl, rfl, rfl, optRel_refl (texRel_refl th) _, optRel_refl (texRel_refl th) _⟩, rfl,
   optRel_refl (fun x => ⟨texRel_refl th x.1, rfl⟩) _, optRel_refl (fun x => ⟨texRel_refl th x.1, rfl⟩) _, rfl, rfl, rfl⟩

theorem meq_symm {th : Nat → Option PTexture} {a b : PMaterial} (h : MEq th a b) : MEq th b a := by
  refine ⟨h.name.symm, h.hasPbr.symm, ?_, h.emissive.symm, optRel_symm scaledRel_symm h.normal,
    optRel_symm scaledRel_symm h.occlusion, h.alphaMode.symm, h.alphaCutoff.symm, h.exts.symm⟩
  intro hp
  obtain ⟨p1, p2, p3, p4, p5⟩ := h.pbr (h.hasPbr.trans hp)
  exact ⟨p1.symm, p2.symm, p3.symm, optRel_symm (R := TexRel th) (fun _ _ h => texRel_symm h) p4,
    optRel_symm (R := TexRel th) (fun _ _ h => texRel_symm h) p5⟩

theorem meq_trans {th : Nat → Option PTexture} {a b c : PMaterial} (h1 : MEq th a b) (h2 : MEq th b c) : MEq th a c := by
  refine ⟨h1.name.trans h2.name, h1.hasPbr.trans h2.hasPbr, ?_, h1.emissive.trans h2.emissive,
    optRel_trans scaledRel_trans h1.normal h2.normal, optRel_trans scaledRel_trans h1.occlusion h2.occlusion,
    h1.alphaMode.trans h2.alphaMode, h1.alphaCutoff.trans h2.alphaCutoff, h1.exts.trans h2.exts⟩
  intro hp
  obtain ⟨p1, p2, p3, p4, p5⟩ := h1.pbr hp
  obtain ⟨q1, q2, q3, q4, q5⟩ := h2.pbr (h1.hasPbr.symm.trans hp)
  exact ⟨p1.trans q1, p2.trans q2, p3.trans q3, optRel_trans (R := TexRel th) (fun _ _ _ h h' => texRel_trans h h') p4 q4,
    optRel_trans (R := TexRel th) (fun _ _ _ h h' => texRel_trans h h') p5 q5⟩

/-- (1) the model's `PolyformMaterial.equal` is an EQUIVALENCE relation (for any texture heap), and so are the texture
    equality `PolyformTexture.equal` (`ptexture_equal_iff`: equality of the compared fields) and the sampler / image
    equalities used by `AddTexture` (plain `==`) -/
theorem gltf_equal_equivalence (th : Nat → Option PTexture) :
    (∀ a, PMaterial.equal th a a = true)
    ∧ (∀ a b, PMaterial.equal th a b = true → PMaterial.equal th b a = true)
    ∧ (∀ a b c, PMaterial.equal th a b = true → PMaterial.equal th b c = true → PMaterial.equal th a c = true) :=
  ⟨fun a => (pmaterial_equal_iff th a a).mpr (meq_refl th a),
   fun a b h => (pmaterial_equal_iff th b a).mpr (meq_symm ((pmaterial_equal_iff th a b).mp h)),
   fun a b c h1 h2 => (pmaterial_equal_iff th a c).mpr (meq_trans ((pmaterial_equal_iff th a b).mp h1) ((pmaterial_equal_iff th b c).mp h2))⟩

end C06
end PolyVerif
