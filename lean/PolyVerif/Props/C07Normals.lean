/-
  C07 — the normal clause with the source's own expressions: `Params` instantiated with the two normal
  expressions REGENERATED from formats/stl/write.go and read.go (`Gen/StlNormals.lean`, engine F mode
  c07.normals), over ℝ.  `q32` (float64→float32) and `up` stay arbitrary functions.  Proofs of the
  real-number facts are in `Lemmas/StlNormals.lean`, of the round trip in `Lemmas/Stl.lean`.
-/
import PolyVerif.Lemmas.Stl
import PolyVerif.Lemmas.StlNormals

namespace PolyVerif
namespace C07
open Stl StlL StlN Gen.StlNormals
open Classical

/-- the codec's triple and the vector library's triple are the same thing -/
def toV {α : Type} (p : P3 α) : V3 α := ⟨p.x, p.y, p.z⟩
def ofV {α : Type} (v : V3 α) : P3 α := ⟨v.x, v.y, v.z⟩

/-- the precision bundle whose two normal functions are the regenerated source expressions -/
def genParams {α : Type} [Scalar α] (q32 : α → W32) (up : W32 → α) : Params α where
  q32 := q32
  up := up
  avgNormal a b c := ofV (avgNormal (toV a) (toV b) (toV c))
  flatNormal a b c := ofV (flatNormal (toV a) (toV b) (toV c))

/-- **Mesh round trip with the source's normal expressions, over ℝ.**  `stl_mesh_roundtrip` for the bundle
    `genParams q32 up`: every well-formed mesh with positions, any float64→float32 function `q32` that never
    yields a signalling NaN and any widening `up`. -/
theorem stl_mesh_roundtrip_real (q32 : ℝ → W32) (up : W32 → ℝ) (hq : ∀ x, quiet (q32 x) = q32 x)
    (m : Mesh ℝ) (hwf : WF m) (hn : m.indices.length / 3 < 2 ^ 32) :
    ∃ bs r, writeMesh (genParams q32 up) m = .ok bs ∧ bs.length = 84 + 50 * (m.indices.length / 3) ∧
      readMesh (genParams q32 up) bs = .ok r ∧ RoundTrips (genParams q32 up) m r = true :=
  StlL.stl_mesh_roundtrip (genParams q32 up) hq m hwf hn

/-- **"…a facet normal equal to the normalised mean of the corner normals".**  What `WriteMesh` stores for a
    triangle with corner normals `n1 n2 n3` (looked up through the index triple) is `q32` of a vector `u`
    that — unless the three normals cancel — has length 1 and is a positive multiple of `n1 + n2 + n3`:
    the unit vector in the direction of their mean.  (`u` is the regenerated write.go expression.) -/
theorem stl_stored_normal_is_normalised_mean (q32 : ℝ → W32) (up : W32 → ℝ) (ns : List (P3 ℝ)) (a b c : Nat)
    (n1 n2 n3 : P3 ℝ) (h1 : ns[a]? = some n1) (h2 : ns[b]? = some n2) (h3 : ns[c]? = some n3) :
    ∃ u : V3 ℝ, storedNormal (genParams q32 up) (some ns) a b c = some ((ofV u).map q32) ∧
      u = avgNormal (toV n1) (toV n2) (toV n3) ∧
      (sum3 (toV n1) (toV n2) (toV n3) ≠ zero3 →
        u.Length = 1 ∧ ∃ k : ℝ, 0 < k ∧ u = (sum3 (toV n1) (toV n2) (toV n3)).Scale k) := by
  refine ⟨avgNormal (toV n1) (toV n2) (toV n3), by simp [storedNormal, h1, h2, h3, genParams], rfl, ?_⟩
  intro h
  exact avgNormal_unit_mean _ _ _ h

/-- **"…or the geometric normal".**  For a record whose stored normal is (±0, ±0, ±0), the normal `ReadMesh`
    assigns to its three corners is a vector `u` that — unless the (widened) corners are collinear — has length
    1, is orthogonal to both edges `v2 − v1` and `v3 − v1`, and is right-handed with respect to the winding
    (a positive multiple of `(v2 − v1) × (v3 − v1)`).  (`u` is the regenerated read.go expression.) -/
theorem stl_fallback_normal_is_geometric (q32 : ℝ → W32) (up : W32 → ℝ) (t : Tri) (hz : isZeroV t.n = true) :
    ∃ u : V3 ℝ, triNormal (genParams q32 up) t = ofV u ∧
      u = flatNormal (toV (t.v1.map up)) (toV (t.v2.map up)) (toV (t.v3.map up)) ∧
      (cross3 (toV (t.v1.map up)) (toV (t.v2.map up)) (toV (t.v3.map up)) ≠ zero3 →
        u.Length = 1 ∧ u.Dot ((toV (t.v2.map up)).Sub (toV (t.v1.map up))) = 0 ∧
        u.Dot ((toV (t.v3.map up)).Sub (toV (t.v1.map up))) = 0 ∧
        0 < u.Dot (cross3 (toV (t.v1.map up)) (toV (t.v2.map up)) (toV (t.v3.map up)))) := by
  refine ⟨_, by simp [triNormal, hz, genParams], rfl, ?_⟩
  intro h
  obtain ⟨hl, h1, h2, _, h4⟩ := flatNormal_geometric _ _ _ h
  exact ⟨hl, h1, h2, h4⟩

/-- … and a stored normal that is not zero is returned as it is (widened) -/
theorem stl_stored_normal_returned (q32 : ℝ → W32) (up : W32 → ℝ) (t : Tri) (hz : isZeroV t.n = false) :
    triNormal (genParams q32 up) t = t.n.map up := by
  simp [triNormal, hz, genParams]

/-! ### ReadMesh → WriteMesh with the source's expressions: a non-unit stored normal is normalised -/

/-- a toy exact precision: words are naturals, `up` embeds them in ℝ, `q32` takes the floor -/
noncomputable def floorQ (x : ℝ) : W32 := BitVec.ofNat 32 ⌊x⌋₊
def embedUp (w : W32) : ℝ := (w.toNat : ℝ)

/-- **closed instance (a)**: a record whose stored normal is (0,0,2) — not unit — is re-saved with normal
    (0,0,1): `WriteMesh` re-derives `q32 (avgNormal n n n)`, the normalised stored normal, not the stored one. -/
theorem stl_mesh_resave_nonunit_normal_witness :
    (resaveTri (genParams floorQ embedUp) true ⟨⟨0, 0, 2⟩, ⟨0, 0, 0⟩, ⟨1, 0, 0⟩, ⟨0, 1, 0⟩, 0⟩).n = ⟨0, 0, 1⟩ := by
  have hz : isZeroV (⟨0, 0, 2⟩ : P3 W32) = false := by decide
  have h2 : Real.sqrt ((2 : ℝ) * 2) = 2 := by
    rw [show (2 : ℝ) * 2 = 2 ^ 2 by norm_num]; exact Real.sqrt_sq (by norm_num)
  simp only [resaveTri, triNormal, hz, genParams, P3.map, toV, ofV, embedUp, floorQ, Gen.StlNormals.avgNormal,
    V3.Normalized, V3.DivByConstant, V3.Add, V3.Length, V3.LengthSquared, RS.sqrt_eq]
  have e2 : ((BitVec.toNat (2 : W32) : ℕ) : ℝ) = 2 := by
    have : BitVec.toNat (2 : W32) = 2 := by decide
    rw [this]; norm_num
  have e6 : ((2 : ℝ) + 2 + 2) / 3 = 2 := by norm_num
  simp only [e2, e6, h2]
  norm_num
  exact ⟨rfl, rfl⟩


/-- the hypotheses are satisfiable: three corner normals that do not cancel, a non-degenerate triangle -/
example : sum3 ⟨0, 0, 1⟩ ⟨0, 0, 1⟩ ⟨0, 1, 0⟩ ≠ zero3 ∧ cross3 ⟨0, 0, 0⟩ ⟨1, 0, 0⟩ ⟨0, 1, 0⟩ ≠ zero3 := by
  constructor
  · intro h; have := congrArg V3.z h; simp [sum3, V3.Add, zero3] at this
  · intro h; have := congrArg V3.z h; simp [cross3, V3.Cross, V3.Sub, zero3] at this

end C07
end PolyVerif
