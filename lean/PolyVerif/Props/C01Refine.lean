/-
  C01, second half: what operations RETURN.  Every operation of the heap model refines a pure function on observable
  values (`op_refines`), the bounds invariant is preserved (`run_bounded`), hence two derivations from one base give the
  same two observations in either order (`derivations_commute`).  Pure functions: Model/MeshPure.lean.
-/
import PolyVerif.Lemmas.MeshHeapBounded
import PolyVerif.Props.C01

namespace PolyVerif
namespace C01
open MeshHeap

variable {κ α : Type} [DecidableEq κ]

/-- **op_refines.** In a state whose slices all lie inside their arrays (`State.Bounded`), if an operation of the current
    tree succeeds on the heap, then the PURE operation `pureOp` succeeds and returns exactly the observable values of the
    meshes returned: the result does not depend on where the heap put anything, on spare capacities, or on the growth
    policy of `append`.  It is a function of the observable values of the pool AND of the operation value `op`, which for
    `Append` and `ToPointCloud` includes what Go's `AttributeLength()` resolved to (`aLen`, `bLen`, `n`): Go answers with
    the length of the first attribute its randomised MAP ITERATION yields, so for a ragged mesh (attribute arrays of
    different lengths — `SetFloatNAttribute` does no length check) the answer varies from call to call and the result of
    `Append` is NOT a function of the observations alone.  The theorem holds for every resolution; for meshes with one
    common attribute length the resolution is forced (`attrLen_forced`). -/
theorem op_refines (E : Env α) (s : State κ α) (bs : s.Bounded) (op : Op κ α) (hc : op.current = true)
    (h' : Heap κ α) (rs : List MeshRep) (ha : op.apply E s = some (h', rs)) :
    pureOp E (s.pool.map (obs s.heap)) op = some (rs.map (obs h')) :=
  apply_refines E bs hc ha

/-- **append_refines.** The same for `Append` alone, as an equality of options (panic included), for every resolution
    `aLen`, `bLen` of the two `AttributeLength()` calls. -/
theorem append_refines (E : Env α) (h : Heap κ α) (m o : MeshRep) (bm : m.Bounded h) (bo : o.Bounded h)
    (aLen bLen : Nat) :
    (appendCopy E h m o aLen bLen).map (fun x => obs x.1 x.2) = pureAppend E aLen bLen (obs h m) (obs h o) :=
  appendCopy_refine E bm bo aLen bLen

theorem step_bounded (E : Env α) (s : State κ α) (bs : s.Bounded) (op : Op κ α) (hc : op.current = true) :
    (step E s op).Bounded := by
  unfold step
  cases ha : op.apply E s with
  | none => exact bs
  | some x =>
    obtain ⟨h', rs⟩ := x
    obtain ⟨bn, bo⟩ := apply_bounded E bs hc ha
    intro r hr
    rcases List.mem_append.mp hr with h1 | h1
    · exact bo r (bs r h1)
    · exact bn r h1

/-- **run_bounded.** The bounds invariant holds in every state reachable by current operations. -/
theorem run_bounded (E : Env α) (ops : List (Op κ α)) : ∀ (s : State κ α), s.Bounded →
    (∀ op ∈ ops, op.current = true) → (run E s ops).Bounded := by
  induction ops with
  | nil => intro s bs _; exact bs
  | cons op rest ih =>
    intro s bs hc
    exact ih (step E s op) (step_bounded E s bs op (hc op (List.mem_cons_self ..)))
      (fun o ho => hc o (List.mem_cons_of_mem _ ho))

omit [DecidableEq κ] in
theorem empty_bounded : (⟨Heap.empty, []⟩ : State κ α).Bounded := fun _ hr => by simp at hr

omit [DecidableEq κ] in
theorem get_append {β : Type} {l t : List β} {m : Nat} {r : β} (h : l[m]? = some r) : (l ++ t)[m]? = some r := by
  rw [List.getElem?_append_left (List.getElem?_eq_some_iff.mp h).1]; exact h

/-- the pure operation only looks at its arguments: a longer pool gives the same answer -/
theorem pureOp_mono (E : Env α) (l t : List (MeshObs κ α)) (op : Op κ α) (v : List (MeshObs κ α))
    (h : pureOp E l op = some v) : pureOp E (l ++ t) op = some v := by
  cases op <;>
    simp only [pureOp, Option.bind_eq_bind, Option.bind_eq_some_iff, Option.pure_def] at h ⊢
  case newMesh => exact h
  case appendOld => cases h
  case shareMaterials | copyAttr =>
    obtain ⟨r, hr, q, hq, hv⟩ := h
    exact ⟨r, get_append hr, q, get_append hq, hv⟩
  case append =>
    obtain ⟨r, hr, q, hq, hv⟩ := h
    exact ⟨r, get_append hr, q, get_append hq, hv⟩
  all_goals
    obtain ⟨r, hr, hv⟩ := h
    exact ⟨r, get_append hr, hv⟩

omit [DecidableEq κ] in
/-- **attrLen_forced.** For a mesh with one common attribute length, whatever `AttributeLength()` may answer (`IsAttrLen`:
    the length of some attribute, or 0 when there is none) is the one value `attrLenObs` — the resolution carried by
    `Append`/`ToPointCloud` is then determined by the observation, and `op_refines` says the result is a function of the
    observations alone. -/
theorem attrLen_forced (o : MeshObs κ α) (n : Nat) (hu : Uniform o) (hn : IsAttrLen o n) : n = attrLenObs o := by
  unfold attrLenObs
  cases hl : o.attrs.reverse.flatMap id with
  | nil =>
    have hnil : o.attrs.flatMap id = [] := by
      rw [List.flatMap_eq_nil_iff] at hl ⊢
      exact fun x hx => hl x (List.mem_reverse.mpr hx)
    rcases hn with h1 | ⟨_, h0⟩
    · simp [lensObs, hnil] at h1
    · exact h0
  | cons e rest =>
    have he : e ∈ o.attrs.flatMap id := by
      have : e ∈ o.attrs.reverse.flatMap id := by rw [hl]; exact List.mem_cons_self ..
      obtain ⟨x, hx, hex⟩ := List.mem_flatMap.mp this
      exact List.mem_flatMap.mpr ⟨x, List.mem_reverse.mp hx, hex⟩
    have hel : e.2.length ∈ lensObs o := List.mem_map.mpr ⟨e, he, rfl⟩
    rcases hn with h1 | ⟨h0, _⟩
    · exact hu n h1 _ hel
    · rw [h0] at hel; cases hel

/-- **derivations_commute.** Two derivations `o1`, `o2` from one base (arguments anywhere in the pool of a bounded state):
    whichever is performed first, the two meshes obtained report the same two observable values.  `o1` and `o2` are the
    SAME operation values in both orders, i.e. for `Append`/`ToPointCloud` the same resolution of `AttributeLength()`:
    for ragged arguments Go may resolve differently from call to call, and then the two orders (indeed two runs of one
    order) may differ — that is nondeterminism of the map order, not interference; with one common attribute length per
    mesh the resolution is forced (`attrLen_forced`) and the statement is unconditional. -/
theorem derivations_commute (E : Env α) (s : State κ α) (bs : s.Bounded) (o1 o2 : Op κ α)
    (c1 : o1.current = true) (c2 : o2.current = true)
    (h1 : Heap κ α) (r1 : MeshRep) (h2 : Heap κ α) (r2 : MeshRep)
    (h12 : Heap κ α) (r2' : MeshRep) (h21 : Heap κ α) (r1' : MeshRep)
    (a1 : o1.apply E s = some (h1, [r1])) (a2 : o2.apply E s = some (h2, [r2]))
    (a12 : o2.apply E ⟨h1, s.pool ++ [r1]⟩ = some (h12, [r2']))
    (a21 : o1.apply E ⟨h2, s.pool ++ [r2]⟩ = some (h21, [r1'])) :
    obs h12 r1 = obs h21 r1' ∧ obs h12 r2' = obs h21 r2 := by
  have p1 := op_refines E s bs o1 c1 h1 _ a1
  have p2 := op_refines E s bs o2 c2 h2 _ a2
  -- the two intermediate states are bounded and show the old pool unchanged
  have key : ∀ (o : Op κ α) (_ : o.current = true) (h : Heap κ α) (r : MeshRep) (_ : o.apply E s = some (h, [r])),
      (⟨h, s.pool ++ [r]⟩ : State κ α).Bounded ∧
      (s.pool ++ [r]).map (obs h) = s.pool.map (obs s.heap) ++ [obs h r] := by
    intro o c h r a
    obtain ⟨bn, bo⟩ := apply_bounded E bs c a
    refine ⟨?_, ?_⟩
    · intro x hx
      rcases List.mem_append.mp hx with hx | hx
      · exact bo x (bs x hx)
      · exact bn x hx
    · rw [List.map_append]
      congr 1
      apply List.map_congr_left
      intro x hx
      exact op_frame E s bs.valid o c h _ a x (bs x hx).valid
  obtain ⟨bs1, e1⟩ := key o1 c1 h1 r1 a1
  obtain ⟨bs2, e2⟩ := key o2 c2 h2 r2 a2
  have p12 := op_refines E _ bs1 o2 c2 h12 _ a12
  have p21 := op_refines E _ bs2 o1 c1 h21 _ a21
  simp only at p12 p21
  rw [e1, pureOp_mono E _ _ o2 _ p2] at p12
  rw [e2, pureOp_mono E _ _ o1 _ p1] at p21
  simp only [List.map_cons, List.map_nil, Option.some.injEq, List.cons.injEq, and_true] at p12 p21
  have f1 := op_frame E _ bs1.valid o2 c2 h12 _ a12 r1 (bs1 r1 (by simp)).valid
  have f2 := op_frame E _ bs2.valid o1 c1 h21 _ a21 r2 (bs2 r2 (by simp)).valid
  exact ⟨f1.trans p21, p12.symm.trans f2.symm⟩

/-- **derivations_commute_reachable.** No hypothesis on the state: in every state reached from the empty state by current
    operations, two derivations give the same two observations in either order. -/
theorem derivations_commute_reachable (E : Env α) (ops : List (Op κ α)) (hc : ∀ op ∈ ops, op.current = true)
    (o1 o2 : Op κ α) (c1 : o1.current = true) (c2 : o2.current = true)
    (h1 : Heap κ α) (r1 : MeshRep) (h2 : Heap κ α) (r2 : MeshRep)
    (h12 : Heap κ α) (r2' : MeshRep) (h21 : Heap κ α) (r1' : MeshRep)
    (a1 : o1.apply E (run E ⟨Heap.empty, []⟩ ops) = some (h1, [r1]))
    (a2 : o2.apply E (run E ⟨Heap.empty, []⟩ ops) = some (h2, [r2]))
    (a12 : o2.apply E ⟨h1, (run E ⟨Heap.empty, []⟩ ops).pool ++ [r1]⟩ = some (h12, [r2']))
    (a21 : o1.apply E ⟨h2, (run E ⟨Heap.empty, []⟩ ops).pool ++ [r2]⟩ = some (h21, [r1'])) :
    obs h12 r1 = obs h21 r1' ∧ obs h12 r2' = obs h21 r2 :=
  derivations_commute E _ (run_bounded E ops _ empty_bounded hc) o1 o2 c1 c2 h1 r1 h2 r2 h12 r2' h21 r1' a1 a2 a12 a21

/-- non-vacuity: the four-mesh witness state is reachable, `base.Append(a)` and `base.Append(b)` apply in both orders
    (all four hypotheses, ∃-witnesses), so the conclusion holds for them -/
example :
    ∃ h1 r1 h2 r2 h12 r2' h21 r1',
      (Op.append 0 1 1 1 : Op Nat Nat).apply E0 (run E0 ⟨Heap.empty, []⟩ ((witnessPre .append).take 4)) = some (h1, [r1]) ∧
      (Op.append 0 2 1 1 : Op Nat Nat).apply E0 (run E0 ⟨Heap.empty, []⟩ ((witnessPre .append).take 4)) = some (h2, [r2]) ∧
      (Op.append 0 2 1 1 : Op Nat Nat).apply E0 ⟨h1, (run E0 ⟨Heap.empty, []⟩ ((witnessPre .append).take 4)).pool ++ [r1]⟩
        = some (h12, [r2']) ∧
      (Op.append 0 1 1 1 : Op Nat Nat).apply E0 ⟨h2, (run E0 ⟨Heap.empty, []⟩ ((witnessPre .append).take 4)).pool ++ [r2]⟩
        = some (h21, [r1']) ∧
      obs h12 r1 = obs h21 r1' ∧ obs h12 r2' = obs h21 r2 := by
  obtain ⟨h1, r1, h12, r2', a1, a12⟩ := appliesInOrder_spec E0 (run E0 ⟨Heap.empty, []⟩ ((witnessPre .append).take 4))
    (.append 0 1 1 1) (.append 0 2 1 1) (by decide +kernel)
  obtain ⟨h2, r2, h21, r1', a2, a21⟩ := appliesInOrder_spec E0 (run E0 ⟨Heap.empty, []⟩ ((witnessPre .append).take 4))
    (.append 0 2 1 1) (.append 0 1 1 1) (by decide +kernel)
  exact ⟨h1, r1, h2, r2, h12, r2', h21, r1', a1, a2, a12, a21,
    derivations_commute_reachable E0 _ (by decide) _ _ rfl rfl h1 r1 h2 r2 h12 r2' h21 r1' a1 a2 a12 a21⟩

/-- the pure `Append` computes what the Go code is documented to do, on a concrete case: attribute only in the argument is
    zero-padded, indices of the argument are shifted by the receiver's vertex count -/
example : pureAppend E0 2 1 ⟨1, [0, 1], [5], [[(7, [100, 200])]]⟩ ⟨1, [0], [6], [[(7, [300]), (8, [9])]]⟩
    = some ⟨1, [0, 1, 2], [5, 6], [[(7, [100, 200, 300]), (8, [0, 0, 9])]]⟩ := by decide +kernel

end C01
end PolyVerif
