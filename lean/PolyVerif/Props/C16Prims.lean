/-
  C16, round 2 — the primitive hypothesis of the BVH theorems made a THEOREM for the real primitives.

  `/repo/rendering` has three primitive `Hittable`s with a `BoundingBox`: `Sphere` (static `NewSphere` and animated
  `NewAnimatedSphere`), `XYRectangle`, `Triangle` (the others — `HitList`, `BVHNode`, `Tree`, `Mesh` — are
  aggregates).  Their `Hit` / `BoundingBox` arithmetic is `Model/RenderPrims.lean` (rays regenerated:
  `Gen/Render.lean`; boxes over the regenerated `NewAABB`/`EncapsulateBounds`), tied to the source by the bit-exact
  `c16.prim.*` correspondence lines.  Over ℝ:

    * whenever `Hit(ray, mn, mx)` succeeds, the reported `Point` is `ray.At(Distance)`, lies on the primitive and
      INSIDE `BoundingBox()`, and `Distance` is within the range (`sphere_hit_in_box`, `rect_hit_in_box`,
      `tri_hit_in_box`, `prim_hit_in_box`);
    * hence the slab test of the box accepts every non-empty range in which the primitive is hit (`prim_hit_slab`);
    * hence `BVHNode.Hit` = `HitList.Hit` on every covering BVH over such primitives, and on the tree `NewBVHTree`
      builds from ANY list of them in any order (`prims_bvh_hit_eq_hitlist`, `prims_bvh_built_hit_eq_hitlist`) —
      no primitive hypothesis left.
-/
import PolyVerif.Props.C16
import PolyVerif.Lemmas.RenderPrims

namespace PolyVerif
namespace C16
open PolyVerif.Tree PolyVerif.RPrims Gen.geometry Gen.rendering Scalar

/-! ### each primitive is hit only inside its bounding box -/

/-- names for the quantities of `Sphere.Hit` -/
noncomputable def sA (ray : TemporalRay ℝ) : ℝ := ray.direction.Dot ray.direction
noncomputable def sHb (ct : P3) (ray : TemporalRay ℝ) : ℝ := (ray.origin.Sub ct).Dot ray.direction
noncomputable def sDisc (ct : P3) (r : ℝ) (ray : TemporalRay ℝ) : ℝ :=
  sHb ct ray * sHb ct ray - sA ray * ((ray.origin.Sub ct).Dot (ray.origin.Sub ct) - r * r)
noncomputable def sRoot1 (ct : P3) (r : ℝ) (ray : TemporalRay ℝ) : ℝ := (-sHb ct ray - Real.sqrt (sDisc ct r ray)) / sA ray
noncomputable def sRoot2 (ct : P3) (r : ℝ) (ray : TemporalRay ℝ) : ℝ := (-sHb ct ray + Real.sqrt (sDisc ct r ray)) / sA ray

/-- `sphereHit` (the model the driver runs) read over ℝ — by unfolding only -/
theorem sphereHit_eq (ct : P3) (r : ℝ) (ray : TemporalRay ℝ) (mn mx : ℝ) :
    sphereHit ct r ray mn mx =
      if sDisc ct r ray < ((0 : ℕ) : ℝ) then none
      else if (decide (sRoot1 ct r ray < mn) || decide (mx < sRoot1 ct r ray)) = true then
        (if (decide (sRoot2 ct r ray < mn) || decide (mx < sRoot2 ct r ray)) = true then none
         else some ⟨sRoot2 ct r ray, ray.At (sRoot2 ct r ray)⟩)
      else some ⟨sRoot1 ct r ray, ray.At (sRoot1 ct r ray)⟩ := rfl

/-- `Sphere.Hit` succeeds ⇒ the recorded point is `ray.At(Distance)`, at distance exactly `radius` from the centre
    `animation(ray.time)`, and `Distance ∈ [mn, mx]` (any non-zero direction, any radius). -/
theorem sphere_hit_on_sphere (ct : P3) (r : ℝ) (ray : TemporalRay ℝ) (mn mx : ℝ) (h : HitOut ℝ)
    (hd : ray.direction.Dot ray.direction ≠ 0) (hh : sphereHit ct r ray mn mx = some h) :
    h.point = ray.At h.dist ∧ mn ≤ h.dist ∧ h.dist ≤ mx ∧ (h.point.Sub ct).LengthSquared = r * r := by
  rw [sphereHit_eq] at hh
  split_ifs at hh with c0 c1 c2
  · simp only [Option.some.injEq] at hh
    subst hh
    simp only [Bool.or_eq_true, decide_eq_true_eq, not_or, not_lt, Nat.cast_zero] at c0 c2
    have hs := Real.mul_self_sqrt c0
    refine ⟨rfl, c2.1, c2.2, sphere_root_on ray.origin ray.direction ct r _ _ hd hs (Or.inr ?_)⟩
    show sA ray * sRoot2 ct r ray = -sHb ct ray + Real.sqrt (sDisc ct r ray)
    have : sA ray ≠ 0 := hd
    unfold sRoot2; field_simp
  · simp only [Option.some.injEq] at hh
    subst hh
    simp only [Bool.or_eq_true, decide_eq_true_eq, not_or, not_lt, Nat.cast_zero] at c0 c1
    have hs := Real.mul_self_sqrt c0
    refine ⟨rfl, c1.1, c1.2, sphere_root_on ray.origin ray.direction ct r _ _ hd hs (Or.inl ?_)⟩
    show sA ray * sRoot1 ct r ray = -sHb ct ray - Real.sqrt (sDisc ct r ray)
    have : sA ray ≠ 0 := hd
    unfold sRoot1; field_simp

/-- … and therefore inside `Sphere.BoundingBox(startTime, endTime)`, provided the radius is non-negative and the
    centre at the ray's time lies coordinatewise between the centres at the two times the box is built from
    (`NewSphere`: all equal; linear animation: any time in between.  The source's own TODO — "doesn't work for
    non-linear lines" — is the failure of exactly this hypothesis). -/
theorem sphere_hit_in_box (cs ce ct : P3) (r : ℝ) (ray : TemporalRay ℝ) (mn mx : ℝ) (h : HitOut ℝ)
    (hd : ray.direction.Dot ray.direction ≠ 0) (hr : 0 ≤ r) (hbt : Between cs ce ct)
    (hh : sphereHit ct r ray mn mx = some h) :
    (sphereBox cs ce r).Contains h.point = true := by
  obtain ⟨_, _, _, hon⟩ := sphere_hit_on_sphere ct r ray mn mx h hd hh
  obtain ⟨⟨x1, x2⟩, ⟨y1, y2⟩, ⟨z1, z2⟩⟩ := coord_le_of_lengthSq h.point ct r hr hon
  obtain ⟨⟨bx1, bx2⟩, ⟨by1, by2⟩, ⟨bz1, bz2⟩⟩ := hbt
  have e := aabb_encapsulate_contains (NewAABB cs (V3.Fill (((2 : Nat) : ℝ) * r))) (NewAABB ce (V3.Fill (((2 : Nat) : ℝ) * r)))
  have hsMin : (NewAABB cs (V3.Fill (((2 : Nat) : ℝ) * r))).Contains (NewAABB cs (V3.Fill (((2 : Nat) : ℝ) * r))).Min = true := by
    rw [Tree.aabb_contains_iff, newAABB_fill_min, newAABB_fill_max]
    refine ⟨?_, ?_, ?_, ?_, ?_, ?_⟩ <;> simp <;> linarith
  have hsMax : (NewAABB cs (V3.Fill (((2 : Nat) : ℝ) * r))).Contains (NewAABB cs (V3.Fill (((2 : Nat) : ℝ) * r))).Max = true := by
    rw [Tree.aabb_contains_iff, newAABB_fill_min, newAABB_fill_max]
    refine ⟨?_, ?_, ?_, ?_, ?_, ?_⟩ <;> simp <;> linarith
  have s1 := e.2 _ hsMin
  have s2 := e.2 _ hsMax
  have e1 := e.1.1
  have e2 := e.1.2
  rw [Tree.aabb_contains_iff, newAABB_fill_min] at s1 e1
  rw [Tree.aabb_contains_iff, newAABB_fill_max] at s2 e2
  simp only at s1 s2 e1 e2
  show ((NewAABB cs (V3.Fill (((2 : Nat) : ℝ) * r))).EncapsulateBounds (NewAABB ce (V3.Fill (((2 : Nat) : ℝ) * r)))).Contains h.point = true
  rw [Tree.aabb_contains_iff]
  refine ⟨?_, ?_, ?_, ?_, ?_, ?_⟩
  · rcases min_le_iff.mp bx1 with q | q <;> linarith
  · rcases min_le_iff.mp by1 with q | q <;> linarith
  · rcases min_le_iff.mp bz1 with q | q <;> linarith
  · rcases le_max_iff.mp bx2 with q | q <;> linarith
  · rcases le_max_iff.mp by2 with q | q <;> linarith
  · rcases le_max_iff.mp bz2 with q | q <;> linarith

/-- a linear animation `t ↦ a + (b − a)·t` (any affine motion) satisfies `Between` for every ray time inside the
    interval the box was built for — so `sphere_hit_in_box` covers `NewAnimatedSphere` with linear motion -/
theorem between_linear (a b : P3) (s e t : ℝ) (h1 : s ≤ t) (h2 : t ≤ e) :
    Between (a.Add ((b.Sub a).Scale s)) (a.Add ((b.Sub a).Scale e)) (a.Add ((b.Sub a).Scale t)) := by
  have key : ∀ (x y : ℝ), min (x + (y - x) * s) (x + (y - x) * e) ≤ x + (y - x) * t ∧
      x + (y - x) * t ≤ max (x + (y - x) * s) (x + (y - x) * e) := by
    intro x y
    rcases le_total 0 (y - x) with h | h
    · exact ⟨le_trans (min_le_left _ _) (by nlinarith), le_trans (by nlinarith) (le_max_right _ _)⟩
    · exact ⟨le_trans (min_le_right _ _) (by nlinarith), le_trans (by nlinarith) (le_max_left _ _)⟩
  simp only [Between, V3.Add, V3.Sub, V3.Scale]
  exact ⟨key a.x b.x, key a.y b.y, key a.z b.z⟩

noncomputable def rT (depth : ℝ) (ray : TemporalRay ℝ) : ℝ := (depth - ray.origin.z) / ray.direction.z
noncomputable def rX (depth : ℝ) (ray : TemporalRay ℝ) : ℝ := ray.origin.x + rT depth ray * ray.direction.x
noncomputable def rY (depth : ℝ) (ray : TemporalRay ℝ) : ℝ := ray.origin.y + rT depth ray * ray.direction.y

theorem rectHit_eq (bl tr : V2 ℝ) (depth : ℝ) (ray : TemporalRay ℝ) (mn mx : ℝ) :
    rectHit bl tr depth ray mn mx =
      if (decide (rT depth ray < mn) || decide (mx < rT depth ray)) = true then none
      else if (decide (rX depth ray < bl.x) || decide (tr.x < rX depth ray) || decide (rY depth ray < bl.y) ||
               decide (tr.y < rY depth ray)) = true then none
      else some ⟨rT depth ray, ray.At (rT depth ray)⟩ := rfl

/-- `XYRectangle.Hit` succeeds (ray not parallel to the plane) ⇒ the point is `ray.At(Distance)`, `Distance ∈ [mn,mx]`,
    and the point lies in `XYRectangle.BoundingBox()` (whose z-extent is `depth ± 0.0001`). -/
theorem rect_hit_in_box (bl tr : V2 ℝ) (depth : ℝ) (ray : TemporalRay ℝ) (mn mx : ℝ) (h : HitOut ℝ)
    (hz : ray.direction.z ≠ 0) (hh : rectHit bl tr depth ray mn mx = some h) :
    h.point = ray.At h.dist ∧ mn ≤ h.dist ∧ h.dist ≤ mx ∧ (rectBox bl tr depth).Contains h.point = true := by
  rw [rectHit_eq] at hh
  split_ifs at hh with h1 h2
  simp only [Option.some.injEq] at hh
  subst hh
  simp only [Bool.or_eq_true, decide_eq_true_eq, not_or, not_lt] at h1 h2
  obtain ⟨⟨⟨a1, a2⟩, a3⟩, a4⟩ := h2
  refine ⟨rfl, h1.1, h1.2, ?_⟩
  rw [Tree.aabb_contains_iff, rectBox, seg_box_min, seg_box_max]
  have hzt : ray.origin.z + ray.direction.z * rT depth ray = depth := by unfold rT; field_simp; ring
  have hx : ray.origin.x + ray.direction.x * rT depth ray = rX depth ray := by unfold rX; ring
  have hy : ray.origin.y + ray.direction.y * rT depth ray = rY depth ray := by unfold rY; ring
  simp only [TemporalRay.At, V3.Add, V3.Scale, V3.New, V2.X, V2.Y, RS.lit_eq, hzt, hx, hy]
  refine ⟨?_, ?_, ?_, ?_, ?_, ?_⟩
  · exact le_trans (min_le_right _ _) a1
  · exact le_trans (min_le_right _ _) a3
  · exact le_trans (min_le_right _ _) (by norm_num)
  · exact le_trans a2 (le_max_left _ _)
  · exact le_trans a4 (le_max_left _ _)
  · exact le_trans (by norm_num) (le_max_left _ _)

noncomputable def tE1 (p1 p2 : P3) : P3 := p2.Sub p1
noncomputable def tE2 (p1 p3 : P3) : P3 := p3.Sub p1
noncomputable def tP (p1 p3 : P3) (ray : Ray ℝ) : P3 := ray.direction.Cross (tE2 p1 p3)
noncomputable def tT (p1 : P3) (ray : Ray ℝ) (mn : ℝ) : P3 := (ray.At mn).Sub p1
noncomputable def tQ (p1 p2 : P3) (ray : Ray ℝ) (mn : ℝ) : P3 := (tT p1 ray mn).Cross (tE1 p1 p2)
noncomputable def tDet (p1 p2 p3 : P3) (ray : Ray ℝ) : ℝ := (tE1 p1 p2).Dot (tP p1 p3 ray)
noncomputable def tU (p1 p2 p3 : P3) (ray : Ray ℝ) (mn : ℝ) : ℝ :=
  (tT p1 ray mn).Dot (tP p1 p3 ray) * (((1 : ℕ) : ℝ) / tDet p1 p2 p3 ray)
noncomputable def tV (p1 p2 p3 : P3) (ray : Ray ℝ) (mn : ℝ) : ℝ :=
  ray.direction.Dot (tQ p1 p2 ray mn) * (((1 : ℕ) : ℝ) / tDet p1 p2 p3 ray)
noncomputable def tVal (p1 p2 p3 : P3) (ray : Ray ℝ) (mn : ℝ) : ℝ :=
  (tE2 p1 p3).Dot (tQ p1 p2 ray mn) * (((1 : ℕ) : ℝ) / tDet p1 p2 p3 ray)

theorem rayIntersectsTri_eq (p1 p2 p3 : P3) (ray : Ray ℝ) (mn mx : ℝ) :
    rayIntersectsTri p1 p2 p3 ray mn mx =
      if Scalar.abs (tDet p1 p2 p3 ray) < (Scalar.lit 1 1000000 : ℝ) then none
      else if (decide (tU p1 p2 p3 ray mn < ((0 : ℕ) : ℝ)) || decide (((1 : ℕ) : ℝ) < tU p1 p2 p3 ray mn)) = true then none
      else if (decide (tV p1 p2 p3 ray mn < ((0 : ℕ) : ℝ)) ||
               decide (((1 : ℕ) : ℝ) < tU p1 p2 p3 ray mn + tV p1 p2 p3 ray mn)) = true then none
      else if tVal p1 p2 p3 ray mn < (Scalar.lit 1 1000000 : ℝ) then none
      else if mx < tVal p1 p2 p3 ray mn then none
      else some ⟨tVal p1 p2 p3 ray mn + mn, ray.At (tVal p1 p2 p3 ray mn + mn)⟩ := rfl

/-- `rayIntersectsTri` succeeds ⇒ the recorded point is `ray.At(Distance)`, a convex combination of the three
    corners (Möller–Trumbore = Cramer's rule), hence inside `NewAABBFromPoints(p1, p2, p3)`;
    `Distance = tVal + mn` with `0 < tVal ≤ mx`. -/
theorem rayIntersectsTri_in_box (p1 p2 p3 : P3) (ray : Ray ℝ) (mn mx : ℝ) (h : HitOut ℝ)
    (hh : rayIntersectsTri p1 p2 p3 ray mn mx = some h) :
    h.point = ray.At h.dist ∧ mn < h.dist ∧ h.dist ≤ mx + mn ∧ (triBox p1 p2 p3).Contains h.point = true := by
  rw [rayIntersectsTri_eq] at hh
  split_ifs at hh with c0 c1 c2 c3 c4
  simp only [Option.some.injEq] at hh
  subst hh
  simp only [Bool.or_eq_true, decide_eq_true_eq, not_or, not_lt, Nat.cast_zero, Nat.cast_one, RS.abs_eq, RS.lit_eq] at c0 c1 c2 c3 c4
  have hdet0 : tDet p1 p2 p3 ray ≠ 0 := by
    intro hz; rw [hz] at c0; norm_num at c0
  have hpos : (0 : ℝ) < ((1 : ℕ) : ℝ) / ((1000000 : ℕ) : ℝ) := by norm_num
  refine ⟨rfl, by simp only; linarith, by simp only; linarith, ?_⟩
  obtain ⟨mt1, mt2, mt3⟩ := moller_trumbore p1 p2 p3 (ray.At mn) ray.direction
  have fu : tDet p1 p2 p3 ray * tU p1 p2 p3 ray mn = (tT p1 ray mn).Dot (tP p1 p3 ray) := by
    unfold tU; push_cast; field_simp
  have fv : tDet p1 p2 p3 ray * tV p1 p2 p3 ray mn = ray.direction.Dot (tQ p1 p2 ray mn) := by
    unfold tV; push_cast; field_simp
  have ft : tDet p1 p2 p3 ray * tVal p1 p2 p3 ray mn = (tE2 p1 p3).Dot (tQ p1 p2 ray mn) := by
    unfold tVal; push_cast; field_simp
  have bx : (tT p1 ray mn).x + tVal p1 p2 p3 ray mn * ray.direction.x =
      tU p1 p2 p3 ray mn * (tE1 p1 p2).x + tV p1 p2 p3 ray mn * (tE2 p1 p3).x := by
    apply mul_left_cancel₀ hdet0
    have := mt1
    simp only [tDet, tE1, tE2, tP, tT, tQ] at fu fv ft ⊢
    linear_combination this + ray.direction.x * ft - (p2.Sub p1).x * fu - (p3.Sub p1).x * fv
  have by' : (tT p1 ray mn).y + tVal p1 p2 p3 ray mn * ray.direction.y =
      tU p1 p2 p3 ray mn * (tE1 p1 p2).y + tV p1 p2 p3 ray mn * (tE2 p1 p3).y := by
    apply mul_left_cancel₀ hdet0
    have := mt2
    simp only [tDet, tE1, tE2, tP, tT, tQ] at fu fv ft ⊢
    linear_combination this + ray.direction.y * ft - (p2.Sub p1).y * fu - (p3.Sub p1).y * fv
  have bz : (tT p1 ray mn).z + tVal p1 p2 p3 ray mn * ray.direction.z =
      tU p1 p2 p3 ray mn * (tE1 p1 p2).z + tV p1 p2 p3 ray mn * (tE2 p1 p3).z := by
    apply mul_left_cancel₀ hdet0
    have := mt3
    simp only [tDet, tE1, tE2, tP, tT, tQ] at fu fv ft ⊢
    linear_combination this + ray.direction.z * ft - (p2.Sub p1).z * fu - (p3.Sub p1).z * fv
  have px : (ray.At (tVal p1 p2 p3 ray mn + mn)).x =
      p1.x + tU p1 p2 p3 ray mn * (p2.x - p1.x) + tV p1 p2 p3 ray mn * (p3.x - p1.x) := by
    simp only [tT, tE1, tE2, Ray.At, V3.Add, V3.Scale, V3.Sub] at bx ⊢
    linarith
  have py : (ray.At (tVal p1 p2 p3 ray mn + mn)).y =
      p1.y + tU p1 p2 p3 ray mn * (p2.y - p1.y) + tV p1 p2 p3 ray mn * (p3.y - p1.y) := by
    simp only [tT, tE1, tE2, Ray.At, V3.Add, V3.Scale, V3.Sub] at by' ⊢
    linarith
  have pz : (ray.At (tVal p1 p2 p3 ray mn + mn)).z =
      p1.z + tU p1 p2 p3 ray mn * (p2.z - p1.z) + tV p1 p2 p3 ray mn * (p3.z - p1.z) := by
    simp only [tT, tE1, tE2, Ray.At, V3.Add, V3.Scale, V3.Sub] at bz ⊢
    linarith
  rw [Tree.aabb_contains_iff, triBox, tri_box_min, tri_box_max]
  simp only [px, py, pz]
  obtain ⟨x1, x2⟩ := convex3_between p1.x p2.x p3.x _ _ c1.1 c2.1 c2.2
  obtain ⟨y1, y2⟩ := convex3_between p1.y p2.y p3.y _ _ c1.1 c2.1 c2.2
  obtain ⟨z1, z2⟩ := convex3_between p1.z p2.z p3.z _ _ c1.1 c2.1 c2.2
  exact ⟨x1, y1, z1, x2, y2, z2⟩

/-- `Triangle.Hit` at `mn = 0` (what the renderer's BVH-vs-list comparison uses; for `mn > 0` the source compares the
    distance from `ray.At(mn)` with `mx`, see the residue): point = `ray.At(Distance)` on the `TemporalRay` with unit
    direction, `0 < Distance ≤ mx`, point inside `Triangle.box`. -/
theorem tri_hit_in_box (p1 p2 p3 : P3) (ray : TemporalRay ℝ) (mx : ℝ) (h : HitOut ℝ)
    (hu : ray.direction.LengthSquared = 1) (hh : triHit p1 p2 p3 ray 0 mx = some h) :
    h.point = ray.At h.dist ∧ 0 < h.dist ∧ h.dist ≤ mx ∧ (triBox p1 p2 p3).Contains h.point = true := by
  obtain ⟨a, b, c, d⟩ := rayIntersectsTri_in_box p1 p2 p3 ray.Ray 0 mx h hh
  refine ⟨?_, b, by linarith, d⟩
  rw [a]
  simp only [Ray.At, TemporalRay.At, TemporalRay.Ray, NewRay, normalized_of_unit _ hu]

/-! ### the contract of the BVH theorems, for scenes of real primitives -/

/-- side conditions under which a primitive satisfies the contract for a ray and a lower range end `mn` -/
def _root_.PolyVerif.RPrims.RPrim.Ok (ray : TemporalRay ℝ) (mn : ℝ) : RPrim ℝ → Prop
  | .sphere cs ce ct r => 0 ≤ r ∧ Between cs ce ct
  | .rect _ _ _ => ray.direction.z ≠ 0
  | .tri _ _ _ => mn = 0

/-- every primitive: a successful `Hit` records `Point = ray.At(Distance)`, with `Distance` in the range and the
    point inside the primitive's own `BoundingBox()` -/
theorem prim_hit_in_box (ray : TemporalRay ℝ) (hu : ray.direction.LengthSquared = 1) (p : RPrim ℝ) (mn mx : ℝ)
    (hok : p.Ok ray mn) (h : HitOut ℝ) (hh : p.hit ray mn mx = some h) :
    h.point = ray.At h.dist ∧ mn ≤ h.dist ∧ h.dist ≤ mx ∧ p.box.Contains h.point = true := by
  have hd : ray.direction.Dot ray.direction ≠ 0 := by
    have : ray.direction.Dot ray.direction = ray.direction.LengthSquared := rfl
    rw [this, hu]; norm_num
  cases p with
  | sphere cs ce ct r =>
    obtain ⟨a, b, c, _⟩ := sphere_hit_on_sphere ct r ray mn mx h hd hh
    exact ⟨a, b, c, sphere_hit_in_box cs ce ct r ray mn mx h hd hok.1 hok.2 hh⟩
  | rect bl tr d => exact rect_hit_in_box bl tr d ray mn mx h hok hh
  | tri a b c =>
    have hmn : mn = 0 := hok
    subst hmn
    obtain ⟨x1, x2, x3, x4⟩ := tri_hit_in_box a b c ray mx h hu hh
    exact ⟨x1, x2.le, x3, x4⟩

/-- (hR) the reported distance is in the range; (hS) within a non-empty range a primitive is hit only where the REAL
    slab test — run, as `BVHNode.Hit` does, on `r.Ray()` — accepts its box.  No hypothesis on the primitive's
    arithmetic is left. -/
theorem prim_hit_slab (ray : TemporalRay ℝ) (hu : ray.direction.LengthSquared = 1) (p : RPrim ℝ) (mn mx d : ℝ)
    (hok : p.Ok ray mn) (hd : p.hitDist ray mn mx = some d) :
    (mn ≤ d ∧ d ≤ mx) ∧ (mn < mx → intersectsRayInRange p.box ray.Ray.Origin ray.Ray.Direction mn mx = true) := by
  unfold RPrim.hitDist at hd
  cases hh : p.hit ray mn mx with
  | none => rw [hh] at hd; cases hd
  | some h =>
    rw [hh] at hd
    simp only [Option.map_some, Option.some.injEq] at hd
    obtain ⟨a, b, c, e⟩ := prim_hit_in_box ray hu p mn mx hok h hh
    subst hd
    refine ⟨⟨b, c⟩, fun hlt => ?_⟩
    rw [(ray_of_unit ray hu).1, (ray_of_unit ray hu).2]
    apply slab_sound_aux p.box ray.origin ray.direction mn mx h.dist hlt b c
    rw [a] at e
    exact e

/-- generic form: `BVHNode.Hit` = `HitList.Hit` for every non-empty range, from the contract (hR)+(hS) -/
theorem bvh_hit_eq_list_strict {B H K : Type} [LinearOrder K] (sub : B → B → Prop) (boxH : H → B)
    (slab : B → K → K → Bool) (primHit : H → K → K → Option K) (mn : K)
    (hmono : ∀ a b mx, sub a b → slab a mn mx = true → slab b mn mx = true)
    (hR : ∀ h mx d, primHit h mn mx = some d → mn ≤ d ∧ d ≤ mx)
    (hS : ∀ h mx d, mn < mx → primHit h mn mx = some d → slab (boxH h) mn mx = true)
    (t : Bvh B H) (ht : BInv sub boxH t) (mx : K) (hlt : mn < mx) :
    t.hit slab primHit mn mx = listHit primHit t.leaves mn mx :=
  bvh_hit_eq_list_strict_aux sub boxH slab primHit mn hmono hR hS t ht mx hlt

/-- **BVH = HitList for scenes of real primitives.**  For every covering BVH (`BInv`) whose leaves are spheres,
    XY-rectangles and triangles, every unit-direction ray, and every non-empty range `mn < mx` (`mn = 0` if the scene
    has a triangle; non-negative radii; rays not parallel to a rectangle's plane): `BVHNode.Hit` returns the same flag
    and distance as `HitList.Hit` over the leaves. -/
theorem prims_bvh_hit_eq_hitlist (ray : TemporalRay ℝ) (hu : ray.direction.LengthSquared = 1)
    (t : Bvh Box (RPrim ℝ)) (ht : BInv BoxSub RPrim.box t) (mn mx : ℝ) (hlt : mn < mx)
    (hok : ∀ p ∈ t.leaves, p.Ok ray mn) :
    bvhHit ray t mn mx = listHit (RPrim.hitDist ray) t.leaves mn mx := by
  -- restrict the primitive function to the tree's leaves by making it `none` elsewhere is not needed:
  -- we carry membership through a subtype-free argument, using a guarded `primHit`
  classical
  let g : RPrim ℝ → ℝ → ℝ → Option ℝ := fun p lo hi => if p.Ok ray mn then p.hitDist ray lo hi else none
  have hg : ∀ (s : Bvh Box (RPrim ℝ)), (∀ p ∈ s.leaves, p.Ok ray mn) → ∀ lo hi,
      s.hit (fun b lo hi => intersectsRayInRange b ray.Ray.Origin ray.Ray.Direction lo hi) (RPrim.hitDist ray) lo hi =
      s.hit (fun b lo hi => intersectsRayInRange b ray.Ray.Origin ray.Ray.Direction lo hi) g lo hi := by
    intro s
    induction s with
    | leaf p => intro h lo hi; simp only [Bvh.hit, g, h p (by simp [Bvh.leaves]), if_true]
    | node b l r ihl ihr =>
      intro h lo hi
      have hl := ihl (fun p hp => h p (by simp [Bvh.leaves, hp]))
      have hr := ihr (fun p hp => h p (by simp [Bvh.leaves, hp]))
      simp only [Bvh.hit, hl, hr]
  have hgl : ∀ (l : List (RPrim ℝ)), (∀ p ∈ l, p.Ok ray mn) → ∀ hi,
      listHit (RPrim.hitDist ray) l mn hi = listHit g l mn hi := by
    intro l
    induction l using List.reverseRecOn with
    | nil => intro _ _; rfl
    | append_singleton l x ih =>
      intro h hi
      rw [listHit_append, listHit_append, listHit_single, listHit_single, ih (fun p hp => h p (by simp [hp]))]
      simp only [g, h x (by simp), if_true]
  unfold bvhHit
  rw [hg t hok, hgl t.leaves hok]
  apply bvh_hit_eq_list_strict BoxSub RPrim.box _ g mn
    (fun a b hi hs ha => Tree.slab_mono hs _ _ mn hi ha) ?_ ?_ t ht mx hlt
  · intro p hi d hp
    by_cases hk : p.Ok ray mn
    · simp only [g, hk, if_true] at hp
      exact (prim_hit_slab ray hu p mn hi d hk hp).1
    · simp [g, hk] at hp
  · intro p hi d hlt' hp
    by_cases hk : p.Ok ray mn
    · simp only [g, hk, if_true] at hp
      exact (prim_hit_slab ray hu p mn hi d hk hp).2 hlt'
    · simp [g, hk] at hp

/-- boxes of the three primitives are well formed (contain their own corners) -/
theorem prim_box_wf' (ray : TemporalRay ℝ) (mn : ℝ) (p : RPrim ℝ) (hok : p.Ok ray mn) : BoxSub p.box p.box := by
  cases p with
  | sphere cs ce ct r =>
    have e := aabb_encapsulate_contains (NewAABB cs (V3.Fill (((2 : Nat) : ℝ) * r))) (NewAABB ce (V3.Fill (((2 : Nat) : ℝ) * r)))
    have hr : 0 ≤ r := hok.1
    have e1 := e.1.1
    have e2 := e.1.2
    rw [Tree.aabb_contains_iff, newAABB_fill_min] at e1
    rw [Tree.aabb_contains_iff, newAABB_fill_max] at e2
    simp only at e1 e2
    constructor <;>
    · simp only [RPrim.box, sphereBox]
      rw [Tree.aabb_contains_iff]
      refine ⟨?_, ?_, ?_, ?_, ?_, ?_⟩ <;> linarith
  | rect bl tr d =>
    constructor <;>
    · simp only [RPrim.box]
      rw [Tree.aabb_contains_iff, rectBox, seg_box_min, seg_box_max]
      simp
  | tri a b c =>
    constructor <;>
    · simp only [RPrim.box]
      rw [Tree.aabb_contains_iff, triBox, tri_box_min, tri_box_max]
      simp

/-! ### first-hit contract, and the BVH that `NewBVHTree` builds, against the hit list in its original order -/

/-- the first hit at or beyond `mn` that each primitive reports when the range allows it -/
noncomputable def RPrim.first (ray : TemporalRay ℝ) (mn : ℝ) : RPrim ℝ → Option ℝ
  | .sphere _ _ ct r =>
    if sDisc ct r ray < 0 then none
    else if mn ≤ sRoot1 ct r ray then some (sRoot1 ct r ray)
    else if mn ≤ sRoot2 ct r ray then some (sRoot2 ct r ray) else none
  | .rect bl tr d =>
    if rT d ray < mn then none
    else if rX d ray < bl.x ∨ tr.x < rX d ray ∨ rY d ray < bl.y ∨ tr.y < rY d ray then none
    else some (rT d ray)
  | .tri a b c => ((triHit a b c ray mn (tVal a b c ray.Ray mn)).map HitOut.dist)

/-- `Hit(ray, mn, mx)` reports the primitive's first hit beyond `mn` exactly when it is `≤ mx` (spheres: the
    nearer root first, the farther one only if the nearer is below `mn`; triangles at `mn = 0`) -/
theorem prim_first_hit (ray : TemporalRay ℝ) (hu : ray.direction.LengthSquared = 1) (p : RPrim ℝ) (mn mx : ℝ)
    (hok : p.Ok ray mn) :
    p.hitDist ray mn mx = (RPrim.first ray mn p).bind (fun d => if d ≤ mx then some d else none) := by
  cases p with
  | sphere cs ce ct r =>
    have ha : 0 < sA ray := by
      have : sA ray = ray.direction.LengthSquared := rfl
      rw [this, hu]; norm_num
    simp only [RPrim.hitDist, RPrim.hit, RPrim.first, sphereHit_eq, Nat.cast_zero]
    by_cases c0 : sDisc ct r ray < 0
    · simp [c0]
    · have h12 : sRoot1 ct r ray ≤ sRoot2 ct r ray := by
        unfold sRoot1 sRoot2
        apply div_le_div_of_nonneg_right _ ha.le
        linarith [Real.sqrt_nonneg (sDisc ct r ray)]
      simp only [c0, if_false, Bool.or_eq_true, decide_eq_true_eq]
      by_cases c1 : mn ≤ sRoot1 ct r ray
      · by_cases c2 : sRoot1 ct r ray ≤ mx
        · have : ¬ (sRoot1 ct r ray < mn ∨ mx < sRoot1 ct r ray) := not_or.mpr ⟨not_lt.mpr c1, not_lt.mpr c2⟩
          simp [this, c1, c2]
        · have e1 : (sRoot1 ct r ray < mn ∨ mx < sRoot1 ct r ray) := Or.inr (not_le.mp c2)
          have e2 : (sRoot2 ct r ray < mn ∨ mx < sRoot2 ct r ray) := Or.inr (lt_of_lt_of_le (not_le.mp c2) h12)
          simp [e1, e2, c1, c2]
      · have e1 : (sRoot1 ct r ray < mn ∨ mx < sRoot1 ct r ray) := Or.inl (not_le.mp c1)
        by_cases c3 : mn ≤ sRoot2 ct r ray
        · by_cases c4 : sRoot2 ct r ray ≤ mx
          · have : ¬ (sRoot2 ct r ray < mn ∨ mx < sRoot2 ct r ray) := not_or.mpr ⟨not_lt.mpr c3, not_lt.mpr c4⟩
            simp [e1, this, c1, c3, c4]
          · have e2 : (sRoot2 ct r ray < mn ∨ mx < sRoot2 ct r ray) := Or.inr (not_le.mp c4)
            simp [e1, e2, c1, c3, c4]
        · have e2 : (sRoot2 ct r ray < mn ∨ mx < sRoot2 ct r ray) := Or.inl (not_le.mp c3)
          simp [e1, e2, c1, c3]
  | rect bl tr d =>
    simp only [RPrim.hitDist, RPrim.hit, RPrim.first, rectHit_eq, Bool.or_eq_true, decide_eq_true_eq]
    by_cases c1 : rT d ray < mn
    · simp [c1]
    · by_cases c2 : mx < rT d ray
      · by_cases c3 : rX d ray < bl.x ∨ tr.x < rX d ray ∨ rY d ray < bl.y ∨ tr.y < rY d ray
        · simp [c1, c2, c3]
        · simp [c1, c2, c3, not_le.mpr c2]
      · by_cases c3 : rX d ray < bl.x ∨ tr.x < rX d ray ∨ rY d ray < bl.y ∨ tr.y < rY d ray
        · have c3' : ((rX d ray < bl.x ∨ tr.x < rX d ray) ∨ rY d ray < bl.y) ∨ tr.y < rY d ray := by tauto
          simp [c1, c2, c3, c3']
        · have c3' : ¬ (((rX d ray < bl.x ∨ tr.x < rX d ray) ∨ rY d ray < bl.y) ∨ tr.y < rY d ray) := by tauto
          simp [c1, c2, c3, c3', not_lt.mp c2]
  | tri a b c =>
    have hmn : mn = 0 := hok
    subst hmn
    simp only [RPrim.hitDist, RPrim.hit, RPrim.first, triHit, rayIntersectsTri_eq]
    split_ifs with c0 c1 c2 c3 c4 c5 <;> simp_all

/-- the guarded primitive function agrees with the real one on lists of admissible primitives -/
theorem listHit_guard (ray : TemporalRay ℝ) (mn : ℝ) (g : RPrim ℝ → ℝ → ℝ → Option ℝ)
    (hg : ∀ p, p.Ok ray mn → ∀ lo hi, g p lo hi = p.hitDist ray lo hi) :
    ∀ (l : List (RPrim ℝ)), (∀ p ∈ l, p.Ok ray mn) → ∀ hi,
      listHit (RPrim.hitDist ray) l mn hi = listHit g l mn hi := by
  intro l
  induction l using List.reverseRecOn with
  | nil => intro _ _; rfl
  | append_singleton l x ih =>
    intro h hi
    rw [listHit_append, listHit_append, listHit_single, listHit_single, ih (fun p hp => h p (by simp [hp]))]
    rw [hg x (h x (by simp))]

/-- **End to end.**  For every non-empty list of spheres, XY-rectangles and triangles, every outcome of the random
    axis choice and unstable sort (`reorder`), every unit-direction ray and non-empty range: the tree `NewBVHTree`
    builds answers `Hit` exactly as `HitList.Hit` on the ORIGINAL list (flag and nearest distance) — the primitive
    contract is proved, not assumed. -/
theorem prims_bvh_built_hit_eq_hitlist (ray : TemporalRay ℝ) (hu : ray.direction.LengthSquared = 1)
    (reorder : List (RPrim ℝ) → List (RPrim ℝ)) (hre : ∀ l, (reorder l).Perm l)
    (objs : List (RPrim ℝ)) (hne : objs ≠ []) (mn mx : ℝ) (hlt : mn < mx) (hok : ∀ p ∈ objs, p.Ok ray mn) :
    ∃ t, bvhBuild reorder RPrim.box nodeBox objs.length objs = some t ∧
      bvhHit ray t mn mx = listHit (RPrim.hitDist ray) objs mn mx := by
  classical
  obtain ⟨t, h1, h2, h3⟩ := bvh_build_covers BoxSub RPrim.box nodeBox reorder hre
    (fun a b => by
      unfold nodeBox
      have e1 := aabb_encapsulate_contains (NewEmptyAABB : Box) a
      have e2 := aabb_encapsulate_contains ((NewEmptyAABB : Box).EncapsulateBounds a) b
      exact ⟨⟨e2.2 _ e1.1.1, e2.2 _ e1.1.2⟩, e2.1⟩)
    (fun _ _ _ => boxSub_trans) objs hne (fun p hp => prim_box_wf' ray mn p (hok p hp))
  refine ⟨t, h1, ?_⟩
  have hokt : ∀ p ∈ t.leaves, p.Ok ray mn := fun p hp => hok p ((h3 p).mp hp)
  rw [prims_bvh_hit_eq_hitlist ray hu t h2 mn mx hlt hokt]
  let g : RPrim ℝ → ℝ → ℝ → Option ℝ := fun p lo hi => if p.Ok ray mn then p.hitDist ray lo hi else none
  have hg : ∀ p, p.Ok ray mn → ∀ lo hi, g p lo hi = p.hitDist ray lo hi := by
    intro p hp lo hi; simp only [g, hp, if_true]
  rw [listHit_guard ray mn g hg t.leaves hokt, listHit_guard ray mn g hg objs hok]
  apply listHit_congr_mem (fun p => if p.Ok ray mn then RPrim.first ray mn p else none) g mn
  · intro p hi
    by_cases hp : p.Ok ray mn
    · simp only [g, hp, if_true]; exact prim_first_hit ray hu p mn hi hp
    · simp [g, hp]
  · exact h3

/-! ### the hypothesis `mn < mx` is needed: on an empty-interior range the slab test rejects everything -/

/-- `IntersectsRayInRange(ray, m, m)` is false for every box and ray (`*t_max <= *t_min` already on the first axis) -/
theorem slab_rejects_point_range (b : Box) (o d : P3) (m : ℝ) : intersectsRayInRange b o d m m = false := by
  have key : ∀ (oo dd lo hi : ℝ), (slabComponent oo dd m m lo hi).1 = true := by
    intro oo dd lo hi
    unfold slabComponent
    split_ifs
    · simp
    · rfl
    · rw [slabArith_eq]; simp only [decide_eq_true_eq]; exact le_trans (min_le_left _ _) (le_max_left _ _)
    · rw [slabArith_eq]; simp only [decide_eq_true_eq]; exact le_trans (min_le_left _ _) (le_max_left _ _)
  unfold intersectsRayInRange
  simp only [key, if_true]

/-- so a BVH NODE misses whatever the range `[m, m]` holds, while `HitList.Hit` reports a primitive hit at exactly
    `m`: unit sphere at the origin, ray from (0,0,−5) along +z, range `[4, 4]` — `HitList.Hit` = hit at 4,
    `BVHNode.Hit` = miss.  (Degenerate range only; `prims_bvh_hit_eq_hitlist` covers every `mn < mx`.) -/
theorem bvh_differs_on_point_range :
    let ray : TemporalRay ℝ := ⟨⟨0, 0, -5⟩, ⟨0, 0, 1⟩, 0⟩
    let p : RPrim ℝ := .sphere ⟨0, 0, 0⟩ ⟨0, 0, 0⟩ ⟨0, 0, 0⟩ 1
    listHit (RPrim.hitDist ray) [p] 4 4 = some 4 ∧
    bvhHit ray (.node (nodeBox p.box p.box) (.leaf p) (.leaf p)) 4 4 = none := by
  intro ray p
  constructor
  · have hd : sDisc (⟨0, 0, 0⟩ : P3) 1 ray = 1 := by norm_num [sDisc, sHb, sA, ray, V3.Sub, V3.Dot]
    have h1 : sRoot1 (⟨0, 0, 0⟩ : P3) 1 ray = 4 := by
      rw [sRoot1, hd, Real.sqrt_one]; norm_num [sHb, sA, ray, V3.Sub, V3.Dot]
    rw [listHit_single]
    simp only [RPrim.hitDist, RPrim.hit, p]
    rw [sphereHit_eq, hd, h1]; norm_num
  · simp only [bvhHit, Bvh.hit, slab_rejects_point_range, Bool.not_false, if_true]

/-- a concrete scene meeting every hypothesis: a unit sphere at the origin, hit at parameter 4 by the ray from
    (0,0,−5) along +z; the hit point (0,0,−1) is in the box -/
example :
    let ray : TemporalRay ℝ := ⟨⟨0, 0, -5⟩, ⟨0, 0, 1⟩, 0⟩
    ray.direction.LengthSquared = 1 ∧ (RPrim.sphere ⟨0, 0, 0⟩ ⟨0, 0, 0⟩ ⟨0, 0, 0⟩ 1 : RPrim ℝ).Ok ray 0 ∧
    ∃ h, sphereHit (⟨0, 0, 0⟩ : P3) 1 ray 0 100 = some h ∧ h.dist = 4 := by
  intro ray
  refine ⟨by norm_num [ray, V3.LengthSquared], ⟨by norm_num, by simp [Between]⟩, ?_⟩
  have hd : sDisc (⟨0, 0, 0⟩ : P3) 1 ray = 1 := by norm_num [sDisc, sHb, sA, ray, V3.Sub, V3.Dot]
  have h1 : sRoot1 (⟨0, 0, 0⟩ : P3) 1 ray = 4 := by
    rw [sRoot1, hd, Real.sqrt_one]; norm_num [sHb, sA, ray, V3.Sub, V3.Dot]
  refine ⟨⟨4, ray.At 4⟩, ?_, rfl⟩
  rw [sphereHit_eq, hd, h1]; norm_num

end C16
end PolyVerif
