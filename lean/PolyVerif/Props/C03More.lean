/-
  C03, round 2 — contracts of the operations that had a correspondence / WF oracle only:

  * `CropFloat3Attribute` for ANY incoming index buffer (`crop_contract`): which vertices survive (exactly those whose
    deciding attribute value is `inside`), in which order (the original one), every attribute carried with ONE flag
    list, identity indices over the survivors, materials carried; and the deciding predicate itself: the regenerated
    `Gen.geometry.AABB.Contains` (math/geometry/aabb.go:111, engine T) is the CLOSED box test (`aabbContains_closed`).
  * `ScaleAttributeAlongNormal`, `ScaleAttribute2D`, `NormalizeAttribute2D`, `CopyFloatNAttribute`: frame + stated map
    + rejection branches.

  Models: `Model/MeshOps.lean` (`crop`, existing) and `Model/MeshMore.lean` (new); the drivers answer
  `c03.op.{crop,scalealongnormal,scale2d,normalize2d,copyattr}` / `c02.op.*` through these very definitions and the
  oracle `c03.holds.crop_contract` evaluates `CropContract` on the implementation's output.
-/
import PolyVerif.Props.C03
import PolyVerif.Model.MeshMore
import PolyVerif.Lemmas.RealScalar

namespace PolyVerif.C03
open PolyVerif PolyVerif.Gen PolyVerif.Mesh PolyVerif.Mesh.MeshVal

variable {α : Type}

/-! ## Crop: the deciding predicate is the closed box -/

private theorem ite_false_eq_true {c : Prop} [Decidable c] {b : Bool} :
    (if c then false else b) = true ↔ ¬ c ∧ b = true := by
  by_cases hc : c <;> simp [hc]

/-- `AABB.Contains` as regenerated from math/geometry/aabb.go is the closed-interval test on every axis:
    points ON a face (minimum or maximum side) are inside. -/
theorem aabbContains_closed (b : geometry.AABB ℝ) (p : V3 ℝ) :
    b.Contains p = true ↔
      (b.center.x - b.extents.x ≤ p.x ∧ p.x ≤ b.center.x + b.extents.x) ∧
      (b.center.y - b.extents.y ≤ p.y ∧ p.y ≤ b.center.y + b.extents.y) ∧
      (b.center.z - b.extents.z ≤ p.z ∧ p.z ≤ b.center.z + b.extents.z) := by
  simp only [geometry.AABB.Contains, ite_false_eq_true, decide_eq_true_eq, not_lt, and_true]
  simp only [geometry.AABB.Min, geometry.AABB.Max, V3.X, V3.Y, V3.Z, V3.Sub, V3.Add]
  tauto

/-- the eight corners and the centre of a box are inside it (non-negative extents) -/
theorem aabbContains_corners (b : geometry.AABB ℝ) (hx : 0 ≤ b.extents.x) (hy : 0 ≤ b.extents.y) (hz : 0 ≤ b.extents.z) :
    b.Contains b.Min = true ∧ b.Contains b.Max = true ∧ b.Contains b.center = true := by
  refine ⟨?_, ?_, ?_⟩ <;> rw [aabbContains_closed] <;>
    (try simp only [geometry.AABB.Min, geometry.AABB.Max, V3.Sub, V3.Add]) <;>
    refine ⟨⟨?_, ?_⟩, ⟨?_, ?_⟩, ?_, ?_⟩ <;> linarith

example : (⟨⟨0, 0, 0⟩, ⟨1, 2, 3⟩⟩ : geometry.AABB ℝ).Contains ⟨1, -2, 3⟩ = true := by
  rw [aabbContains_closed]; norm_num

example : (⟨⟨0, 0, 0⟩, ⟨1, 2, 3⟩⟩ : geometry.AABB ℝ).Contains ⟨1, -2, 3.5⟩ = false := by
  rw [Bool.eq_false_iff, Ne, aabbContains_closed]; norm_num

/-! ## Crop: the vertex-level contract, any index buffer -/

theorem keepAt_eq_compact {β : Type} (u : List Bool) (d : List β) : compact u d = keepAt u d := rfl

theorem keepAt_map_self {β : Type} (p : β → Bool) : ∀ d : List β, keepAt (d.map p) d = d.filter p
  | [] => rfl
  | x :: d => by
    have ih := keepAt_map_self p d
    unfold keepAt at ih ⊢
    cases hx : p x <;> simp [hx, ih]

theorem stripEmpty_attrs_zero (r : MeshVal α) (h0 : ∀ kd ∈ r.attrs, kd.2.length = 0) : r.stripEmpty.attrs = [] := by
  simp only [stripEmpty, List.filter_eq_nil_iff]
  intro kd hk
  simp [List.eq_nil_of_length_eq_zero (h0 kd hk)]

theorem stripEmpty_attrs_pos (r : MeshVal α) {c : Nat} (hc : c ≠ 0) (h0 : ∀ kd ∈ r.attrs, kd.2.length = c) :
    r.stripEmpty.attrs = r.attrs := by
  simp only [stripEmpty]
  rw [List.filter_eq_self]
  intro kd hk
  have := h0 kd hk
  cases hcd : kd.2 with
  | nil => rw [hcd] at this; simp at this; omega
  | cons _ _ => simp

/-- `CropFloat3Attribute`, whatever the incoming indices are: point cloud, materials carried, exactly the vertices whose
    deciding value is `inside` survive, in order, all attribute arrays compacted with the same flags, identity indices;
    nothing survives ⇒ no attribute array left. -/
theorem crop_contract {m m' : MeshVal α} (h : WF m) {k : AttrKey} {inside : α → Bool}
    (hm : m.crop k inside = some m') : CropContract k inside m m' := by
  unfold crop at hm
  split at hm
  · split at hm
    · cases hm
    · rename_i d hd
      cases hm
      have hdl : d.length = m.attrLen := h.1 _ (Attrs.find?_mem hd)
      generalize hr : (MeshVal.mk .point [] m.materials (mapAttrs (compact (d.map inside)) m.attrs) : MeshVal α) = r
      have hra : r.attrs = m.attrs.map fun kd => (kd.1, keepAt (d.map inside) kd.2) := by subst hr; rfl
      have hrm : r.stripEmpty.materials = m.materials := by subst hr; rfl
      have hrt : r.stripEmpty.topology = .point := by subst hr; rfl
      have hlen : ∀ kd ∈ r.attrs, kd.2.length = (d.map inside).countP id := by
        intro kd hk
        rw [hra] at hk
        obtain ⟨kd0, hk0, rfl⟩ := List.mem_map.mp hk
        exact compact_length _ _ (by simp [h.1 kd0 hk0, hdl])
      simp only [CropContract, hd]
      refine ⟨hrt, hrm, ?_, ?_⟩
      · show List.range (attrLen _) = _
        congr 1
        by_cases hc : (d.map inside).countP id = 0
        · simp [attrLen, stripEmpty_attrs_zero r (by rw [← hc]; exact hlen), hc]
        · have hall := stripEmpty_attrs_pos r hc hlen
          cases hma : r.attrs with
          | nil =>
            rw [hra] at hma
            have := Attrs.find?_mem hd
            cases hm0 : m.attrs with
            | nil => rw [hm0] at this; cases this
            | cons _ _ => rw [hm0] at hma; simp at hma
          | cons kd rest =>
            have := hlen kd (by rw [hma]; exact List.mem_cons_self)
            simp only [attrLen, stripEmpty, hma] at hall ⊢
            rw [hall]; exact this
      · by_cases hc : (d.map inside).countP id = 0
        · rw [if_pos hc]; exact stripEmpty_attrs_zero r (by rw [← hc]; exact hlen)
        · rw [if_neg hc, ← hra]; exact stripEmpty_attrs_pos r hc hlen
  · cases hm

/-- corollary: the deciding attribute of the result is the original array filtered by `inside` (order preserved,
    nothing outside, nothing inside lost) -/
theorem crop_deciding_attr {m m' : MeshVal α} (h : WF m) {k : AttrKey} {inside : α → Bool} {d : List α}
    (hd : m.attr? k = some d) (hne : d.filter inside ≠ []) (hm : m.crop k inside = some m') :
    m'.attr? k = some (d.filter inside) := by
  have hc := crop_contract h hm
  simp only [CropContract, hd] at hc
  obtain ⟨_, _, _, ha⟩ := hc
  have hcnt : (d.map inside).countP id ≠ 0 := by
    intro h0
    apply hne
    rw [List.countP_map] at h0
    rw [List.filter_eq_nil_iff]
    intro x hx
    have := List.countP_eq_zero.mp h0 x hx
    simpa using this
  rw [if_neg hcnt] at ha
  simp only [attr?, ha, Attrs.find?] at hd ⊢
  rw [List.find?_map]
  simp only [Option.map_map]
  cases hf : List.find? (fun kd => kd.1 == k) m.attrs with
  | none => rw [hf] at hd; cases hd
  | some kd =>
    rw [hf] at hd
    simp only [Option.map_some, Option.some.injEq] at hd
    have : List.find? ((fun kd => kd.1 == k) ∘ fun kd : AttrKey × List α => (kd.1, keepAt (d.map inside) kd.2)) m.attrs = some kd := by
      simpa [Function.comp_def] using hf
    rw [this]
    simp [← hd, keepAt_map_self]

/-- "and nothing else": the contract determines the output completely — two meshes satisfying it for the same input
    are equal -/
theorem cropContract_unique {m a b : MeshVal α} {k : AttrKey} {inside : α → Bool}
    (ha : CropContract k inside m a) (hb : CropContract k inside m b) : a = b := by
  unfold CropContract at ha hb
  cases hd : m.attr? k with
  | none => rw [hd] at ha; exact ha.elim
  | some d =>
    rw [hd] at ha hb
    obtain ⟨a1, a2, a3, a4⟩ := ha
    obtain ⟨b1, b2, b3, b4⟩ := hb
    cases a; cases b
    simp only at a1 a2 a3 a4 b1 b2 b3 b4
    simp only [MeshVal.mk.injEq]
    exact ⟨a1.trans b1.symm, a3.trans b3.symm, a2.trans b2.symm, a4.trans b4.symm⟩

/-- the survivors: every value of the deciding attribute in the result is inside, and their number is the number of
    inside values of the input (nothing inside is lost, nothing outside is kept) -/
theorem crop_survivors {m m' : MeshVal α} (h : WF m) {k : AttrKey} {inside : α → Bool} {d : List α}
    (hd : m.attr? k = some d) (hne : d.filter inside ≠ []) (hm : m.crop k inside = some m') :
    ∃ d', m'.attr? k = some d' ∧ (∀ x ∈ d', inside x = true) ∧ d'.length = d.countP inside ∧ d'.Sublist d :=
  ⟨_, crop_deciding_attr h hd hne hm, fun _ hx => (List.mem_filter.mp hx).2, (List.countP_eq_length_filter ..).symm,
    List.filter_sublist⟩

/-- a non-identity cloud (duplicated point 0, unreferenced vertices 1 and 4): the contract still pins the result -/
example : ∃ m', cloud.crop ⟨3, "Position"⟩ (· > 11) = some m' ∧ CropContract ⟨3, "Position"⟩ (· > 11) cloud m' :=
  ⟨_, rfl, by decide⟩

/-- `CropAttribute3DNodeData.Process`: without a box the mesh is returned as it is; with a box it is the crop contract on the
    wired attribute (default Position) -/
theorem cropNode_spec (m : MeshVal α) (attr : Option String) :
    m.cropNode attr none = some m ∧
    ∀ (p : α → Bool) (m' : MeshVal α), WF m → m.cropNode attr (some p) = some m' →
      CropContract ⟨3, attr.getD "Position"⟩ p m m' :=
  ⟨rfl, fun _ _ h hm => crop_contract h hm⟩

/-! ## ScaleAttributeAlongNormal -/

section transforms
variable {s : Type} [Scalar s] [DecidableEq s]

/-- `ScaleAttributeAlongNormal`: topology, indices, materials and every other attribute untouched (the normal attribute
    too, unless it IS the scaled one); the scaled attribute is `p[i] + n[i] * amount` vertex by vertex. -/
theorem scaleAlongNormal_spec {m m' : MeshVal (List s)} {a n : String} {amount : s}
    (hm : m.scaleAlongNormal a n amount = some m') :
    FrameSpec ⟨3, a⟩ m m' ∧ ∃ pd nd, m.attr? ⟨3, a⟩ = some pd ∧ m.attr? ⟨3, n⟩ = some nd ∧ pd.length ≤ nd.length ∧
      m'.attr? ⟨3, a⟩ = (if (List.zipWith (alongNormal amount) pd nd).isEmpty then none
                         else some (List.zipWith (alongNormal amount) pd nd)) := by
  unfold scaleAlongNormal at hm
  split at hm
  · rename_i pd nd hp hn
    split at hm
    · cases hm
    · cases hm
      exact ⟨(setAttr_spec m _ _).1, pd, nd, hp, hn, by omega, (setAttr_spec m _ _).2⟩
  · cases hm

/-- vertex by vertex: on a well-formed mesh the new array has one entry per vertex and entry `i` is
    `p[i] + n[i] * amount` (Go's `positionData.At(i).Add(normalData.At(i).Scale(amount))`) -/
theorem scaleAlongNormal_vertex {m m' : MeshVal (List s)} (h : WF m) {a n : String} {amount : s} {pd nd : List (List s)}
    (hp : m.attr? ⟨3, a⟩ = some pd) (hn : m.attr? ⟨3, n⟩ = some nd) (hne : pd ≠ [])
    (hm : m.scaleAlongNormal a n amount = some m') :
    ∃ d', m'.attr? ⟨3, a⟩ = some d' ∧ d'.length = m.attrLen ∧
      ∀ i (h1 : i < d'.length) (h2 : i < pd.length) (h3 : i < nd.length), d'[i] = alongNormal amount pd[i] nd[i] := by
  obtain ⟨_, pd', nd', hp', hn', hle, hres⟩ := scaleAlongNormal_spec hm
  rw [hp] at hp'; rw [hn] at hn'
  cases hp'; cases hn'
  have e1 : pd.length = m.attrLen := h.1 _ (Attrs.find?_mem hp)
  have e2 : nd.length = m.attrLen := h.1 _ (Attrs.find?_mem hn)
  have hlen : (List.zipWith (alongNormal amount) pd nd).length = m.attrLen := by simp [e1, e2]
  have hnz : (List.zipWith (alongNormal amount) pd nd).isEmpty = false := by
    cases hz : List.zipWith (alongNormal amount) pd nd with
    | nil =>
      rw [hz] at hlen
      cases pd with
      | nil => exact absurd rfl hne
      | cons _ _ => simp at e1 hlen; omega
    | cons _ _ => rfl
  rw [hnz] at hres
  exact ⟨_, hres, hlen, fun i _ _ _ => by simp⟩

/-- non-vacuity: a well-formed cloud with both attributes is accepted -/
example : ∃ m', (⟨.point, [0, 1], [], [(⟨3, "Position"⟩, [[1, 2, 3], [4, 5, 6]]), (⟨3, "Normal"⟩, [[0, 0, 1], [1, 0, 0]])]⟩ :
    MeshVal (List Float)).scaleAlongNormal "Position" "Normal" 0.5 = some m' := ⟨_, rfl⟩

omit [DecidableEq s] in
/-- rejected exactly when one of the two attributes is missing, or the normal array is shorter than the scaled one
    (Go: index out of range; impossible on a well-formed mesh, see `scaleAlongNormal_rejects_wf`) -/
theorem scaleAlongNormal_rejects (m : MeshVal (List s)) (a n : String) (amount : s) :
    m.scaleAlongNormal a n amount = none ↔
      (m.attr? ⟨3, a⟩ = none ∨ m.attr? ⟨3, n⟩ = none ∨
        ∃ pd nd, m.attr? ⟨3, a⟩ = some pd ∧ m.attr? ⟨3, n⟩ = some nd ∧ nd.length < pd.length) := by
  unfold scaleAlongNormal
  split
  · rename_i pd nd hp hn
    split
    · simp [hp, hn]; assumption
    · simp [hp, hn]; omega
  · rename_i hno
    simp only [true_iff]
    cases hp : m.attr? ⟨3, a⟩ with
    | none => exact Or.inl rfl
    | some pd =>
      cases hn : m.attr? ⟨3, n⟩ with
      | none => exact Or.inr (Or.inl rfl)
      | some nd => exact absurd hn (hno pd nd hp)

omit [DecidableEq s] in
theorem scaleAlongNormal_rejects_wf {m : MeshVal (List s)} (h : WF m) (a n : String) (amount : s) :
    m.scaleAlongNormal a n amount = none ↔ (m.attr? ⟨3, a⟩ = none ∨ m.attr? ⟨3, n⟩ = none) := by
  rw [scaleAlongNormal_rejects]
  constructor
  · rintro (h1 | h2 | ⟨pd, nd, hp, hn, hlt⟩)
    · exact Or.inl h1
    · exact Or.inr h2
    · have h1 := h.1 _ (Attrs.find?_mem hp)
      have h2 := h.1 _ (Attrs.find?_mem hn)
      simp only at h1 h2
      omega
  · rintro (h1 | h2)
    · exact Or.inl h1
    · exact Or.inr (Or.inl h2)

omit [DecidableEq s] in
/-- `ScaleAttributeAlongNormalNodeData.Process`: the empty triangle mesh exactly when no mesh is wired or one of the two
    attributes (defaults Position / Normal) is missing; otherwise the function's result with amount defaulting to 0 -/
theorem scaleAlongNormalNode_spec (m : MeshVal (List s)) (attr nrm : Option String) (amount : Option s) :
    MeshVal.scaleAlongNormalNode (none : Option (MeshVal (List s))) attr nrm amount = some (MeshVal.empty .triangle) ∧
    MeshVal.scaleAlongNormalNode (some m) attr nrm amount =
      (if m.hasAttr ⟨3, attr.getD "Position"⟩ = false ∨
          m.hasAttr ⟨3, nrm.getD "Normal"⟩ = false
       then some (MeshVal.empty .triangle)
       else m.scaleAlongNormal (attr.getD "Position")
              (nrm.getD "Normal") (amount.getD ((0 : Nat) : s))) := by
  refine ⟨rfl, ?_⟩
  simp only [MeshVal.scaleAlongNormalNode]
  cases h1 : m.hasAttr ⟨3, attr.getD "Position"⟩ <;>
    cases h2 : m.hasAttr ⟨3, nrm.getD "Normal"⟩ <;> simp

omit [DecidableEq s] in
/-- the per-vertex map on well-shaped payloads: `v + w * amount` (component-wise, Go's operation order) -/
theorem alongNormal_v3 (amount : s) (v w : V3 s) : alongNormal amount (ofV3 v) (ofV3 w) = ofV3 (v.Add (w.Scale amount)) := rfl

/-! ## the thin node wrappers of translate / rotate / scale -/

/-- `TranslateAttribute3DNodeData.Process`: `v ↦ v + t` on the wired attribute (default Position), nothing else -/
theorem translateNode_spec {m m' : MeshVal (List s)} {attr : Option String} {t : V3 s} (hm : m.translateNode attr t = some m') :
    Changed ⟨3, attr.getD "Position"⟩ (List.map (liftV3 fun v => v.Add t)) m m' := translate_spec hm

/-- `RotateAttribute3DNodeData.Process`: the empty triangle mesh without a mesh input, else `v ↦ q.Rotate v` -/
theorem rotateNode_spec (attr : Option String) (q : quaternion.Quaternion s) :
    MeshVal.rotateNode (none : Option (MeshVal (List s))) attr q = some (MeshVal.empty .triangle) ∧
    ∀ m m' : MeshVal (List s), MeshVal.rotateNode (some m) attr q = some m' →
      Changed ⟨3, attr.getD "Position"⟩ (List.map (liftV3 fun v => q.Rotate v)) m m' :=
  ⟨rfl, fun _ _ hm => rotate_spec hm⟩

/-- `ScaleAttribute3DNodeData.Process`: `v ↦ o + (v - o) ∘ a` with `o` defaulting to the zero vector -/
theorem scaleNode_spec {m m' : MeshVal (List s)} {attr : Option String} {o : Option (V3 s)} {a : V3 s}
    (hm : m.scaleNode attr o a = some m') :
    Changed ⟨3, attr.getD "Position"⟩ (List.map (liftV3 fun v => (o.getD V3.Zero).Add ((v.Sub (o.getD V3.Zero)).MultByVector a))) m m' :=
  scaleAbout_spec hm

/-! ## VertexColorSpace -/

/-- `VertexColorSpace`: only the colour attribute changes, component-wise by the selected transfer function; an enum
    value other than 0 / 1 writes the zero vector everywhere (the Go `switch` has no default) -/
theorem vertexColorSpace_spec {g0 g1 : s → s} {m m' : MeshVal (List s)} {n : String} {mode : Nat}
    (hm : m.vertexColorSpace g0 g1 n mode = some m') :
    Changed ⟨3, n⟩ (List.map (liftV3 fun v =>
      match mode with
      | 0 => ⟨g0 v.x, g0 v.y, g0 v.z⟩
      | 1 => ⟨g1 v.x, g1 v.y, g1 v.z⟩
      | _ => V3.Zero)) m m' := modifyAttr_spec hm

omit [DecidableEq s] in
/-- the Transformer: attribute present ⇒ the function; missing ⇒ the mesh itself when `SkipOnMissingAttribute`, else rejected -/
theorem vertexColorSpaceT_spec (g0 g1 : s → s) (m : MeshVal (List s)) (n : String) (skip : Bool) (mode : Nat) :
    (m.hasAttr ⟨3, n⟩ = true → m.vertexColorSpaceT g0 g1 n skip mode = m.vertexColorSpace g0 g1 n mode) ∧
    (m.hasAttr ⟨3, n⟩ = false → m.vertexColorSpaceT g0 g1 n skip mode = if skip then some m else none) := by
  constructor <;> intro h <;> simp [MeshVal.vertexColorSpaceT, h]

/-! ## ScaleAttribute2D / NormalizeAttribute2D / CopyFloatNAttribute -/

/-- `ScaleAttribute2D`: `v ↦ o + (v - o) ∘ a` on the width-2 attribute, nothing else -/
theorem scale2D_spec {m m' : MeshVal (List s)} {n : String} {o a : V2 s} (hm : m.scale2D n o a = some m') :
    Changed ⟨2, n⟩ (List.map (liftV2 fun v => o.Add ((v.Sub o).MultByVector a))) m m' := modifyAttr_spec hm

/-- `NormalizeAttribute2D`: `v ↦ v.Scale(1 / longest length in the array)`, nothing else -/
theorem normalize2D_spec {m m' : MeshVal (List s)} {init : s} {mx : s → s → s} {n : String}
    (hm : MeshVal.normalize2D init mx m n = some m') :
    Changed ⟨2, n⟩ (fun d => d.map (liftV2 fun v =>
      v.DivByConstant ((d.filterMap v2?).foldl (fun acc v => mx acc v.Length) init))) m m' := modifyAttr_spec hm

omit [DecidableEq s] in
theorem scale2D_rejects (m : MeshVal (List s)) (n : String) (o a : V2 s) :
    m.scale2D n o a = none ↔ m.attr? ⟨2, n⟩ = none := modifyAttr_rejects m _ _

omit [DecidableEq s] in
theorem normalize2D_rejects (init : s) (mx : s → s → s) (m : MeshVal (List s)) (n : String) :
    MeshVal.normalize2D init mx m n = none ↔ m.attr? ⟨2, n⟩ = none := modifyAttr_rejects m _ _

end transforms

/-- `CopyFloatNAttribute(src, k)`: only attribute `k` of the receiver changes; it becomes the source's array, and is
    DELETED when the source has no (or an empty) array under `k`. -/
theorem copyAttr_spec [DecidableEq α] (m src : MeshVal α) (k : AttrKey) :
    FrameSpec k m (m.copyAttr src k) ∧
    (m.copyAttr src k).attr? k = (match src.attr? k with
                                   | some d => if d.isEmpty then none else some d
                                   | none => none) := by
  unfold copyAttr
  refine ⟨(setAttr_spec m k _).1, ?_⟩
  rw [(setAttr_spec m k _).2]
  cases src.attr? k <;> simp

example : (sample.copyAttr sample ⟨1, "Class"⟩).attrs = sample.attrs ∧ (sample.copyAttr (MeshVal.empty .point) ⟨1, "Class"⟩).keys = [⟨3, "Position"⟩] := by
  decide

/-! ## value statements over ℝ (independent of how the maps are computed) -/

/-- every vertex moves by exactly `amount` times its normal; amount 0 is the identity -/
theorem alongNormal_post (amount : ℝ) (v w : V3 ℝ) :
    (v.Add (w.Scale amount)).Sub v = w.Scale amount ∧ v.Add (w.Scale 0) = v := by
  constructor <;> (cases v; cases w; simp [V3.Add, V3.Sub, V3.Scale])

/-- 2-D scale about `o`: `o` is fixed, offsets are multiplied component-wise -/
theorem scale2D_post (o a v : V2 ℝ) :
    o.Add ((o.Sub o).MultByVector a) = o ∧ (o.Add ((v.Sub o).MultByVector a)).Sub o = (v.Sub o).MultByVector a := by
  constructor <;> (cases o; cases a; cases v; simp [V2.Add, V2.Sub, V2.MultByVector])

theorem length2_div (v : V2 ℝ) {L : ℝ} (hL : 0 < L) : (v.DivByConstant L).Length = v.Length / L := by
  simp only [V2.Length, V2.DivByConstant, V2.Scale, RS.sqrt_eq]
  have : v.x * (((1 : Nat) : ℝ) / L) * (v.x * (((1 : Nat) : ℝ) / L)) + v.y * (((1 : Nat) : ℝ) / L) * (v.y * (((1 : Nat) : ℝ) / L))
      = (v.x * v.x + v.y * v.y) / (L * L) := by
    field_simp
    simp
  rw [this, Real.sqrt_div' _ (by positivity), Real.sqrt_mul_self hL.le]

/-- `NormalizeAttribute2D` over ℝ: when `L > 0` is the longest length in the array (attained by `w`), every normalised
    vector has length ≤ 1 and the longest has length exactly 1 (`DivByConstant` = `Scale(1/L)`) -/
theorem normalize2D_post (d : List (V2 ℝ)) (w : V2 ℝ) (_hw : w ∈ d) (hpos : 0 < w.Length)
    (hmax : ∀ v ∈ d, v.Length ≤ w.Length) :
    (∀ v ∈ d, (v.DivByConstant w.Length).Length ≤ 1) ∧ (w.DivByConstant w.Length).Length = 1 := by
  constructor
  · intro v hv
    rw [length2_div v hpos, div_le_one hpos]; exact hmax v hv
  · rw [length2_div w hpos, div_self hpos.ne']

example : (⟨3, 4⟩ : V2 ℝ).Length = 5 := by
  simp only [V2.Length, RS.sqrt_eq]
  rw [show (3 : ℝ) * 3 + 4 * 4 = 5 * 5 by norm_num, Real.sqrt_mul_self (by norm_num)]

end PolyVerif.C03
