/-
  C12 — the per-type parameter payload law `fromJ (toJ v) = v` (hypothesis `EnvOK.law` of `decode_encode`), proved
  for the concrete JSON texts of the parameter.Value[T] types (`PolyVerif.Model.Payload`): unconditionally for int,
  bool, string (encoding/json escaping included) and vectors of those; for the float-carrying types
  (float64, Vector2, Vector3, []Vector3, AABB) from ONE named trusted law, `GoFloat`: strconv's shortest float
  formatting is read back exactly by ParseFloat and a printed number is self-delimiting.
  Property theorems only; helpers live in `PolyVerif.Lemmas.Payload`.
-/
import PolyVerif.Model.Payload
import PolyVerif.Lemmas.Payload

namespace PolyVerif
namespace C12
open GraphIO Payload

variable {F : Type}

/-- THE ONE TRUSTED LAW: the codec of float64 — `strconv.AppendFloat(…, 'g'/'e' shortest, 64)` as encoding/json uses
    it, and `strconv.ParseFloat` — round-trips (`parse (print x ++ rest) = (x, rest)` before any `,` `]` `}` or the end)
    and a printed number does not start with `]`.  Not proved (IEEE shortest-digit generation). -/
def GoFloat (fc : Codec F) : Prop := fc.Lawful

/-- int, whatever the float codec is: json.Unmarshal(json.Marshal(i)) = i for every integer -/
theorem int_payload_law (fc : Codec F) (i : Int) : fromJ fc .int (toJ fc (.int i)) = some (.int i) := by
  simp [fromJ, toJ, whole_law intC_lawful]

/-- bool -/
theorem bool_payload_law (fc : Codec F) (b : Bool) : fromJ fc .bool (toJ fc (.bool b)) = some (.bool b) := by
  simp [fromJ, toJ, whole_law boolC_lawful]

/-- string: every list of characters, through encoding/json's escaping (`\"` `\\` `\n` `\r` `\t` `\b` `\f`, `\u00XX` for the other
    control characters, `<` `>` `&` ` ` ` `) and back; WebColor payloads are such strings -/
theorem string_payload_law (fc : Codec F) (s : Txt) :
    fromJ fc .str (toJ fc (.str s)) = some (.str s) ∧ fromJ fc .color (toJ fc (.color s)) = some (.color s) := by
  simp [fromJ, toJ, whole_law strC_lawful]

/-- vectors (JSON arrays, nil slices, nested arrays) of int / bool / string round-trip, with no float assumption -/
theorem vector_payload_laws :
    (arrC intC).Lawful ∧ (arrC boolC).Lawful ∧ (arrC strC).Lawful ∧ (sliceC intC).Lawful ∧ (sliceC strC).Lawful ∧
    (arrC (arrC intC)).Lawful ∧ (obj3 "x" "y" "z" intC intC intC).Lawful :=
  ⟨arrC_lawful intC_lawful, arrC_lawful boolC_lawful, arrC_lawful strC_lawful, sliceC_lawful intC_lawful,
   sliceC_lawful strC_lawful, arrC_lawful (arrC_lawful intC_lawful), obj3_lawful _ _ _ intC_lawful intC_lawful intC_lawful⟩

/-- all nine parameter types, from `GoFloat` alone: a payload of type `t` is read back from its own JSON text -/
theorem payload_roundtrip {fc : Codec F} (hf : GoFloat fc) {t : PTy} {v : PV F} (ht : HasTy t v) :
    fromJ fc t (toJ fc v) = some v := by
  have h3 : (v3C fc).Lawful := obj3_lawful _ _ _ hf hf hf
  have h2 : (v2C fc).Lawful := obj2_lawful "x" "y" hf hf
  have hb : (aabbC fc).Lawful := obj2_lawful "center" "extents" h3 h3
  cases t <;> cases v <;> simp only [HasTy] at ht <;> simp only [fromJ, toJ]
  · rw [whole_law hf]; rfl
  · rw [whole_law intC_lawful]; rfl
  · rw [whole_law strC_lawful]; rfl
  · rw [whole_law boolC_lawful]; rfl
  · rw [whole_law h2]; rfl
  · rw [whole_law h3]; rfl
  · rw [whole_law (sliceC_lawful h3)]; rfl
  · rw [whole_law hb]; rfl
  · rw [whole_law strC_lawful]; rfl

theorem fromJ_hasTy_aux {fc : Codec F} {t : PTy} {j : Txt} {v : PV F} (h : fromJ fc t j = some v) : HasTy t v := by
  cases t <;> simp only [fromJ, Option.map_eq_some_iff] at h <;> obtain ⟨_, _, rfl⟩ := h <;> trivial

/-- the form `EnvOK.law` has: what was read once is read back from its own text -/
theorem payload_law {fc : Codec F} (hf : GoFloat fc) {t : PTy} {j : Txt} {v : PV F} (h : fromJ fc t j = some v) :
    fromJ fc t (toJ fc v) = some v :=
  payload_roundtrip hf (fromJ_hasTy_aux h)

/-- so `EnvOK.law` and `EnvOK.dfltLaw` hold for every environment whose codec is this one (`kind` says which of the
    nine payload types a registered node type carries) and whose factory defaults are well-typed -/
theorem envOK_law_of_payload {fc : Codec F} (hf : GoFloat fc) (E : Env (PV F) Txt) (kind : TyName → Option PTy)
    (hto : E.toJ = toJ fc) (hfrom : ∀ ty j, E.fromJ ty j = (kind ty).bind (fun t => fromJ fc t j))
    (hd : ∀ ty v, E.dflt ty = some v → ∃ t, kind ty = some t ∧ HasTy t v) :
    (∀ ty j v, E.fromJ ty j = some v → E.fromJ ty (E.toJ v) = some v) ∧
    (∀ ty v, E.dflt ty = some v → E.fromJ ty (E.toJ v) = some v) := by
  refine ⟨?_, ?_⟩
  · intro ty j v h
    rw [hfrom] at h ⊢
    cases hk : kind ty with
    | none => simp [hk] at h
    | some t =>
      simp only [hk, Option.bind_some] at h ⊢
      rw [hto]
      exact payload_law hf h
  · intro ty v h
    obtain ⟨t, hk, ht⟩ := hd ty v h
    rw [hfrom, hk, hto]
    exact payload_roundtrip hf ht

/-! ### non-vacuity -/

/-- `GoFloat` is satisfiable (by the integer codec, say), so the conditional theorems are not vacuous -/
example : GoFloat intC := intC_lawful

example : toJ intC (.v3arr (some [(1, -2, 30), (0, 0, 7)])) = "[{\"x\":1,\"y\":-2,\"z\":30},{\"x\":0,\"y\":0,\"z\":7}]".toList ∧
    toJ intC (.aabb ((1, 2, 3), (4, 5, 6))) = "{\"center\":{\"x\":1,\"y\":2,\"z\":3},\"extents\":{\"x\":4,\"y\":5,\"z\":6}}".toList ∧
    toJ intC (.str "a\"\\\n<é".toList) = "\"a\\\"\\\\\\n\\u003cé\"".toList ∧
    toJ intC (.v3arr none) = "null".toList := by decide

end C12
end PolyVerif
