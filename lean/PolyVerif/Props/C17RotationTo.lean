/-
  C17 (round 2) — the remaining branch of `quaternion.RotationTo` (regenerated, Gen/Transform.lean): nearly parallel
  directions (`a·b > 0.999999`).  The source returns the identity quaternion there; so `a` is mapped onto ITSELF, which
  is `b` only up to the snap angle.  Both facts as theorems: the image is `a`, and for unit `a`, `b` its squared
  distance to `b` is below `2·(1 − threshold)` (< 2.0000000001e-6, i.e. |image − b| < 1.42e-3).  Together with
  `quat_rotationTo_generic` and `quat_rotationTo_antiparallel` every branch of the function is now covered by a theorem.
-/
import PolyVerif.Props.C17

namespace PolyVerif
namespace C17
open Gen Gen.quaternion

/-- nearly parallel branch: the result is the identity quaternion `(0, 0, 0; 1)` -/
theorem quat_rotationTo_parallel_is_identity (a b : P3) (hd : rotThreshold < a.Dot b) :
    RotationTo a b = quaternion.New V3.Zero 1 := by
  have hth : (0 : ℝ) < rotThreshold := by unfold rotThreshold; norm_num
  have e2 : ((9007190247541737 : ℕ) : ℝ) / ((9007199254740992 : ℕ) : ℝ) < a.Dot b := by
    simpa [rotThreshold] using hd
  have e1 : ¬ (a.Dot b < -((9007190247541737 : ℕ) : ℝ) / ((9007199254740992 : ℕ) : ℝ)) := by
    have : -((9007190247541737 : ℕ) : ℝ) / ((9007199254740992 : ℕ) : ℝ) < 0 := by norm_num
    linarith [show (0 : ℝ) < a.Dot b from lt_trans (by norm_num) e2]
  unfold RotationTo
  simp only [RS.lit_eq, decide_eq_true_eq, neg_div', e1, e2, if_false, if_true]
  simp

/-- nearly parallel branch: `a` is mapped onto itself, and (unit `a`, `b`) that is within the snap distance of `b`:
    `|image − b|² < 2·(1 − threshold)` -/
theorem quat_rotationTo_parallel (a b : P3) (ha : a.Dot a = 1) (hb : b.Dot b = 1) (hd : rotThreshold < a.Dot b) :
    (RotationTo a b).Rotate a = a ∧
    (((RotationTo a b).Rotate a).Sub b).Dot (((RotationTo a b).Rotate a).Sub b) < 2 * (1 - rotThreshold) := by
  have hid : (RotationTo a b).Rotate a = a := by
    rw [quat_rotationTo_parallel_is_identity a b hd]
    have : (quaternion.New (V3.Zero : P3) 1 : Q) = quaternion.Identity := by
      simp [quaternion.New, quaternion.Identity]
    rw [this, quat_identity_rotate]
  refine ⟨hid, ?_⟩
  rw [hid]
  obtain ⟨ax, ay, az⟩ := a
  obtain ⟨bx, b_y, bz⟩ := b
  simp only [V3.Dot, V3.Sub] at *
  nlinarith

/-- the snap bound in numbers: `2·(1 − threshold) < 2.0000000001e-6` -/
theorem rotThreshold_snap : 2 * (1 - rotThreshold) < 20000000001 / 10000000000000000 := by
  unfold rotThreshold; norm_num

/-! non-vacuity: two unit directions 0.001 rad apart-ish fall into this branch -/
example : rotThreshold < (⟨1, 0, 0⟩ : P3).Dot ⟨1, 0, 0⟩ := by simp [V3.Dot, rotThreshold]; norm_num
example : (⟨(99999999 : ℝ) / 100000001, (20000 : ℝ) / 100000001, 0⟩ : P3).Dot ⟨(99999999 : ℝ) / 100000001, (20000 : ℝ) / 100000001, 0⟩ = 1 ∧
    rotThreshold < (⟨1, 0, 0⟩ : P3).Dot ⟨(99999999 : ℝ) / 100000001, (20000 : ℝ) / 100000001, 0⟩ := by
  constructor
  · simp [V3.Dot]; norm_num
  · simp [V3.Dot, rotThreshold]; norm_num

end C17
end PolyVerif
