/-
  C17 — further algebra of the transform types (about the same regenerated definitions,
  `PolyVerif.Gen.Transform`, at the scalar ℝ):

  * `FromTheta θ k` IS the rotation by the angle `θ` about the axis `k` (Rodrigues' formula), for
    unit and non-unit axes; the axis is fixed, vectors orthogonal to it turn by exactly `θ`;
  * the TRS constructors `Position / Scale / Rotation / New` and `Translate`;
  * `MatFromDirs`: the matrix whose columns are an orthonormal right-handed frame;
  * AABB: `Intersects` decides exactly whether the two boxes share a point, `Expand` grows the box,
    `ClosestPoint` is the NEAREST point of the box (not only a point in it), `Volume`.
-/
import PolyVerif.Props.C17

namespace PolyVerif
namespace C17
open Gen Gen.mat Gen.quaternion Gen.geometry

/-! ### FromTheta is the rotation by θ about the axis -/

/-- Rodrigues' rotation of `v` by the angle `θ` about the unit axis `n` -/
noncomputable def rodrigues (θ : ℝ) (n v : P3) : P3 :=
  ((v.Scale (Real.cos θ)).Add ((n.Cross v).Scale (Real.sin θ))).Add (n.Scale (n.Dot v * (1 - Real.cos θ)))

/-- the quaternion `(n·sin(θ/2), cos(θ/2))` with a unit `n` rotates like Rodrigues' formula -/
theorem halfAngle_rotate (θ : ℝ) (n v : P3) (hn : n.Dot n = 1) :
    (⟨n.Scale (Real.sin (θ / 2)), Real.cos (θ / 2)⟩ : Q).Rotate v = rodrigues θ n v := by
  have hc : Real.cos θ = Real.cos (θ / 2) ^ 2 - Real.sin (θ / 2) ^ 2 := by
    have := Real.cos_sq' (θ / 2)
    have h2 := Real.cos_two_mul (θ / 2)
    rw [show 2 * (θ / 2) = θ by ring] at h2
    have h1 := Real.sin_sq_add_cos_sq (θ / 2)
    nlinarith
  have hs : Real.sin θ = 2 * Real.sin (θ / 2) * Real.cos (θ / 2) := by
    have h2 := Real.sin_two_mul (θ / 2)
    rwa [show 2 * (θ / 2) = θ by ring] at h2
  have h1 := Real.sin_sq_add_cos_sq (θ / 2)
  simp only [V3.Dot] at hn
  unfold rodrigues
  rw [hc, hs]
  generalize Real.sin (θ / 2) = s at *
  generalize Real.cos (θ / 2) = c at *
  ext
  · simp [Quaternion.Rotate, V3.Scale, V3.Dot, V3.Add, V3.Cross]
    linear_combination (n.x * (n.x * v.x + n.y * v.y + n.z * v.z)) * h1 - (v.x * s ^ 2) * hn
  · simp [Quaternion.Rotate, V3.Scale, V3.Dot, V3.Add, V3.Cross]
    linear_combination (n.y * (n.x * v.x + n.y * v.y + n.z * v.z)) * h1 - (v.y * s ^ 2) * hn
  · simp [Quaternion.Rotate, V3.Scale, V3.Dot, V3.Add, V3.Cross]
    linear_combination (n.z * (n.x * v.x + n.y * v.y + n.z * v.z)) * h1 - (v.z * s ^ 2) * hn

theorem normalized_dot_self (k : P3) (hk : k.Dot k ≠ 0) : k.Normalized.Dot k.Normalized = 1 := by
  have hpos : 0 < k.Dot k := by
    have : 0 ≤ k.Dot k := by simp [V3.Dot]; nlinarith [sq_nonneg k.x, sq_nonneg k.y, sq_nonneg k.z]
    exact lt_of_le_of_ne this (Ne.symm hk)
  simp only [V3.Dot] at hpos
  have hs : Real.sqrt (k.x * k.x + k.y * k.y + k.z * k.z) * Real.sqrt (k.x * k.x + k.y * k.y + k.z * k.z)
      = k.x * k.x + k.y * k.y + k.z * k.z := Real.mul_self_sqrt hpos.le
  simp only [V3.Normalized, V3.DivByConstant, V3.Length, V3.LengthSquared, V3.Dot, RS.sqrt_eq]
  generalize Real.sqrt (k.x * k.x + k.y * k.y + k.z * k.z) = r at *
  have hr : r ≠ 0 := by intro h; rw [h] at hs; linarith
  field_simp
  linarith

/-- `FromTheta θ k` rotates by the angle `θ` about the direction of `k` (any non-zero axis) -/
theorem quat_fromTheta_rodrigues (θ : ℝ) (k v : P3) (hk : k.Dot k ≠ 0) :
    (FromTheta θ k).Rotate v = rodrigues θ k.Normalized v := by
  have := halfAngle_rotate θ k.Normalized v (normalized_dot_self k hk)
  simpa [FromTheta, RS.sin_eq, RS.cos_eq] using this

/-- the axis is fixed -/
theorem quat_fromTheta_fixes_axis (θ : ℝ) (k : P3) (hk : k.Dot k ≠ 0) :
    (FromTheta θ k).Rotate k.Normalized = k.Normalized := by
  rw [quat_fromTheta_rodrigues θ k _ hk]
  have hn := normalized_dot_self k hk
  generalize k.Normalized = n at *
  simp only [V3.Dot] at hn
  ext
  · simp [rodrigues, V3.Scale, V3.Dot, V3.Add, V3.Cross]
    linear_combination (n.x * (1 - Real.cos θ)) * hn
  · simp [rodrigues, V3.Scale, V3.Dot, V3.Add, V3.Cross]
    linear_combination (n.y * (1 - Real.cos θ)) * hn
  · simp [rodrigues, V3.Scale, V3.Dot, V3.Add, V3.Cross]
    linear_combination (n.z * (1 - Real.cos θ)) * hn

/-- a vector orthogonal to the axis turns by exactly `θ`: its image has inner product `cos θ·|w|²` with it and
    stays orthogonal to the axis -/
theorem quat_fromTheta_angle (θ : ℝ) (k w : P3) (hk : k.Dot k ≠ 0) (hw : k.Normalized.Dot w = 0) :
    ((FromTheta θ k).Rotate w).Dot w = Real.cos θ * w.Dot w ∧ k.Normalized.Dot ((FromTheta θ k).Rotate w) = 0 := by
  rw [quat_fromTheta_rodrigues θ k _ hk]
  have hn := normalized_dot_self k hk
  generalize k.Normalized = n at *
  simp only [V3.Dot] at hn hw
  constructor
  · simp [rodrigues, V3.Scale, V3.Dot, V3.Add, V3.Cross]
    have : n.x * w.x + n.y * w.y + n.z * w.z = 0 := hw
    rw [this]; ring
  · simp [rodrigues, V3.Scale, V3.Dot, V3.Add, V3.Cross]
    have : n.x * w.x + n.y * w.y + n.z * w.z = 0 := hw
    rw [this]
    linear_combination (Real.cos θ) * this

/-! ### TRS constructors -/

theorem trs_new (p : P3) (q : Q) (s v : P3) : (trs.New p q s).Transform v = (q.Rotate (s.MultByVector v)).Add p := rfl

theorem trs_position (p v : P3) : (trs.Position p).Transform v = v.Add p := by
  simp only [trs.Position, trs.TRS.Transform]
  rw [quat_identity_rotate]
  ext <;> simp [V3.MultByVector, V3.One, V3.Add]

theorem trs_scale (s v : P3) : (trs.Scale s).Transform v = s.MultByVector v := by
  simp only [trs.Scale, trs.TRS.Transform]
  rw [quat_identity_rotate]
  ext <;> simp [V3.Zero, V3.Add]

theorem trs_rotation (q : Q) (v : P3) : (trs.Rotation q).Transform v = q.Rotate v := by
  simp only [trs.Rotation, trs.TRS.Transform]
  have : (V3.One : P3).MultByVector v = v := by ext <;> simp [V3.MultByVector, V3.One]
  rw [this]
  ext <;> simp [V3.Zero, V3.Add]

/-- translating a TRS translates every transformed point -/
theorem trs_translate (t : trs.TRS ℝ) (d v : P3) : (t.Translate d).Transform v = (t.Transform v).Add d := by
  simp only [trs.TRS.Translate, trs.TRS.Transform]
  ext <;> simp [V3.Add] <;> ring

/-! ### MatFromDirs -/

/-- for a unit `up` and a `forward` not parallel to it, the columns of `MatFromDirs up forward offset` are
    `left = normalize(up × forward)`, `up`, `newFwd = normalize(left × up)`, `offset`; the three directions are
    orthonormal and right-handed (`left × up = newFwd`), and the matrix maps `(x, y, z)` to
    `x·left + y·up + z·newFwd + offset` -/
theorem matFromDirs_frame (up fwd off : P3) (hu : up.Dot up = 1) (hc : (up.Cross fwd).Dot (up.Cross fwd) ≠ 0) :
    let left := (up.Cross fwd).Normalized
    let newFwd := (left.Cross up).Normalized
    left.Dot left = 1 ∧ left.Dot up = 0 ∧ newFwd = left.Cross up ∧ newFwd.Dot newFwd = 1 ∧ newFwd.Dot up = 0 ∧
      newFwd.Dot left = 0 ∧
      ∀ p : P3, (MatFromDirs up fwd off).MulPosition p =
        (((left.Scale p.x).Add (up.Scale p.y)).Add (newFwd.Scale p.z)).Add off := by
  intro left newFwd
  have hl : left.Dot left = 1 := normalized_dot_self _ hc
  have hlu : left.Dot up = 0 := by
    show (up.Cross fwd).Normalized.Dot up = 0
    simp only [V3.Normalized, V3.DivByConstant, V3.Dot, V3.Cross]
    generalize (V3.Length _ : ℝ) = L
    ring_nf
  -- left × up is already a unit vector
  have hcu : (left.Cross up).Dot (left.Cross up) = 1 := by
    have e : (left.Cross up).Dot (left.Cross up) = left.Dot left * up.Dot up - (left.Dot up) ^ 2 := by
      simp only [V3.Dot, V3.Cross]; ring
    rw [e, hl, hu, hlu]; norm_num
  have hn : newFwd = left.Cross up := by
    show (left.Cross up).Normalized = left.Cross up
    have hlen : (left.Cross up).Length = 1 := by
      simp only [V3.Length, V3.LengthSquared, RS.sqrt_eq]
      have : (left.Cross up).x * (left.Cross up).x + (left.Cross up).y * (left.Cross up).y
          + (left.Cross up).z * (left.Cross up).z = 1 := hcu
      rw [this, Real.sqrt_one]
    simp only [V3.Normalized, V3.DivByConstant, hlen]
    ext <;> simp
  refine ⟨hl, hlu, hn, ?_, ?_, ?_, ?_⟩
  · rw [hn]; exact hcu
  · rw [hn]; simp only [V3.Dot, V3.Cross]; ring
  · rw [hn]; simp only [V3.Dot, V3.Cross]; ring
  · intro p
    show (MatFromDirs up fwd off).MulPosition p = (((left.Scale p.x).Add (up.Scale p.y)).Add (newFwd.Scale p.z)).Add off
    ext <;> simp [MatFromDirs, Matrix4x4.MulPosition, V3.New, V3.X, V3.Y, V3.Z, V3.Scale, V3.Add, left, newFwd]

/-! ### AABB: Intersects, Expand, Volume, nearest point -/

/-- for boxes with non-negative extents `Intersects` holds exactly when the boxes share a point -/
theorem aabb_intersects_iff (a b : AABB ℝ)
    (hax : 0 ≤ a.extents.x) (hay : 0 ≤ a.extents.y) (haz : 0 ≤ a.extents.z)
    (hbx : 0 ≤ b.extents.x) (hby : 0 ≤ b.extents.y) (hbz : 0 ≤ b.extents.z) :
    a.Intersects b = true ↔ ∃ p : P3, a.Contains p = true ∧ b.Contains p = true := by
  simp only [aabb_contains_iff]
  simp only [AABB.Intersects, AABB.Min, AABB.Max, V3.X, V3.Y, V3.Z, V3.Sub, V3.Add]
  constructor
  · intro h
    simp only [Bool.and_eq_true] at h
    obtain ⟨⟨⟨⟨⟨h1, h2⟩, h3⟩, h4⟩, h5⟩, h6⟩ := h
    have h1 := of_decide_eq_true h1
    have h2 := of_decide_eq_true h2
    have h3 := of_decide_eq_true h3
    have h4 := of_decide_eq_true h4
    have h5 := of_decide_eq_true h5
    have h6 := of_decide_eq_true h6
    refine ⟨⟨max (a.center.x - a.extents.x) (b.center.x - b.extents.x),
             max (a.center.y - a.extents.y) (b.center.y - b.extents.y),
             max (a.center.z - a.extents.z) (b.center.z - b.extents.z)⟩, ?_, ?_⟩
    · refine ⟨le_max_left _ _, le_max_left _ _, le_max_left _ _, max_le ?_ ?_, max_le ?_ ?_, max_le ?_ ?_⟩ <;> linarith
    · refine ⟨le_max_right _ _, le_max_right _ _, le_max_right _ _, max_le ?_ ?_, max_le ?_ ?_, max_le ?_ ?_⟩ <;> linarith
  · rintro ⟨p, ⟨a1, a2, a3, a4, a5, a6⟩, ⟨b1, b2, b3, b4, b5, b6⟩⟩
    simp only [Bool.and_eq_true]
    refine ⟨⟨⟨⟨⟨?_, ?_⟩, ?_⟩, ?_⟩, ?_⟩, ?_⟩ <;> apply decide_eq_true <;> linarith

/-- `Expand` moves every face outward by `amount / 2` -/
theorem aabb_expand_minmax (b : AABB ℝ) (amount : ℝ) :
    (b.Expand amount).Min = b.Min.Sub ⟨amount / 2, amount / 2, amount / 2⟩ ∧
    (b.Expand amount).Max = b.Max.Add ⟨amount / 2, amount / 2, amount / 2⟩ := by
  constructor <;> ext <;> simp [AABB.Expand, AABB.Min, AABB.Max, V3.Sub, V3.Add, V3.New] <;> ring

/-- a box expanded by a non-negative amount still contains what it contained -/
theorem aabb_expand_contains (b : AABB ℝ) (amount : ℝ) (ha : 0 ≤ amount) (p : P3) (h : b.Contains p = true) :
    (b.Expand amount).Contains p = true := by
  rw [aabb_contains_iff] at *
  obtain ⟨h1, h2, h3, h4, h5, h6⟩ := h
  simp only [AABB.Expand, AABB.Min, AABB.Max, V3.Sub, V3.Add, V3.New, RS.lit_eq] at *
  refine ⟨?_, ?_, ?_, ?_, ?_, ?_⟩ <;> push_cast <;> linarith

theorem aabb_volume (b : AABB ℝ) : b.Volume = (2 * b.extents.x) * (2 * b.extents.y) * (2 * b.extents.z) := by
  simp [AABB.Volume, AABB.Size, V3.Scale, V3.X, V3.Y, V3.Z]; ring

private theorem clamp_nearest (v lo hi q : ℝ) (h1 : lo ≤ q) (h2 : q ≤ hi) :
    (v - min (max v lo) hi) ^ 2 ≤ (v - q) ^ 2 := by
  have hlh : lo ≤ hi := h1.trans h2
  rcases le_total v lo with h | h
  · rw [max_eq_right h, min_eq_left hlh]; nlinarith
  · rw [max_eq_left h]
    rcases le_total v hi with h' | h'
    · rw [min_eq_left h']; nlinarith [sq_nonneg (v - q)]
    · rw [min_eq_right h']; nlinarith

/-- `ClosestPoint` is the NEAREST point of the box: no point of the box is closer to `v` -/
theorem aabb_closestPoint_minimises (b : AABB ℝ) (v q : P3) (hq : b.Contains q = true) :
    v.Distance (b.ClosestPoint v) ≤ v.Distance q := by
  rw [aabb_contains_iff] at hq
  obtain ⟨h1, h2, h3, h4, h5, h6⟩ := hq
  simp only [V3.Distance, V3.DistanceSquared, RS.sqrt_eq]
  apply Real.sqrt_le_sqrt
  simp only [AABB.ClosestPoint, geometry.clamp, V3.SetX, V3.SetY, V3.SetZ, V3.X, V3.Y, V3.Z]
  have ex := clamp_nearest v.x b.Min.x b.Max.x q.x h1 h4
  have ey := clamp_nearest v.y b.Min.y b.Max.y q.y h2 h5
  have ez := clamp_nearest v.z b.Min.z b.Max.z q.z h3 h6
  nlinarith [ex, ey, ez]

/-! ### non-vacuity -/

example : (⟨0, 1, 0⟩ : P3).Dot ⟨0, 1, 0⟩ = 1 ∧
    ((⟨0, 1, 0⟩ : P3).Cross ⟨0, 0, 1⟩).Dot ((⟨0, 1, 0⟩ : P3).Cross ⟨0, 0, 1⟩) ≠ 0 := by
  simp [V3.Dot, V3.Cross]

example : (⟨0, 0, 2⟩ : P3).Dot ⟨0, 0, 2⟩ ≠ 0 := by simp [V3.Dot]

end C17
end PolyVerif
