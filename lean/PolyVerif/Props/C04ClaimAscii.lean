/-
  C04 — the ASCII claim stage from header-level guards; the ASCII round trip and the three-encodings corollary from
  file bytes WITHOUT claim hypotheses (under the named law bundle `GoFloatText`, as before).

  ASCII adds one guard to `claimGuard`: `asciiGuard ws` — every `uchar` writer is claimed as a whole by a VECTOR reader
  (`red green blue` …).  It excludes exactly the known finding C04-ascii-uchar-scalar: the ASCII scalar reader never learns
  the property's type and does not divide by 255.
-/
import PolyVerif.Lemmas.PlyClaim
import PolyVerif.Lemmas.PlyClaimAscii
import PolyVerif.Props.C04Ascii
import PolyVerif.Props.C04Claim

namespace PolyVerif
namespace C04
open Ply PlyLemmas PlyHeader PlyCompose PlyAscii PlyClaim

variable {α : Type}

/-- the ASCII reader list on the written header, each reader paired with the header positions (= columns) of its names -/
def claimedOfA (cfg : WriterCfg) (m : MeshVal α) : List (Built × List Nat) :=
  (buildAll false (headerProps (selectWriters cfg m)) defaultReaders true).map
    (fun b => (b, b.names.map (posOf (headerProps (selectWriters cfg m)))))

/-- `ClaimOKA` — the claim-stage hypothesis of the ASCII round-trip theorems — FROM THE GUARDS -/
theorem ply_claim_oka_from_guard (c : Coding α) (cfg : WriterCfg) (m : MeshVal α) (body : Bytes)
    (h : writeBody c cfg m = .ok body) (hg : claimGuard (selectWriters cfg m) = true)
    (hA : asciiGuard (selectWriters cfg m) = true) :
    ClaimOKA cfg m (claimedOfA cfg m) := by
  have hnd := (names_of_writeBody_ok c cfg m body h).2
  rw [← wsProps_eq, wsProps_names] at hnd
  exact claimOKA_of_guard cfg m hnd hg hA

/-- THE ASCII ROUND TRIP FROM FILE BYTES, CLOSED (no claim witnesses, no certificate), under the law bundle `L`:
guards of `ply_roundtrip_ascii_bytes_partial` with `ClaimOKA` replaced by the header-level guards -/
theorem ply_roundtrip_ascii_bytes_closed_partial [BEq α] [LawfulBEq α] (c : Coding α) (L : GoFloatText c)
    (cfg : WriterCfg) (m : MeshVal α) (bytes : Bytes) (hf : cfg.format = .ascii) (hwf : m.WF = true)
    (h : writeMesh c cfg m = .ok bytes)
    (hg : claimGuard (selectWriters cfg m) = true) (hA : asciiGuard (selectWriters cfg m) = true)
    (htys : m.attrLen = 0 ∨ writerTypes (selectWriters cfg m) ≠ [])
    (hpoint : m.topo = .point → m.indices = (List.range m.attrLen).map Int.ofNat)
    (hsize : m.attrLen ≤ 2 ^ 31) (hidx : m.indices.length < 2 ^ 63)
    (huri : ∀ u, m.texURI = some u → CommentOK (nm "TextureFile " ++ u)) (hrange : InRangeMesh L m) :
    ∃ back, readMesh c defaultReader bytes = .ok back ∧ RoundTrips c cfg m back = true := by
  obtain ⟨body, hbody, _, _⟩ := ply_written_header_parses c cfg m bytes h huri
    (Nat.lt_of_le_of_lt hsize (by decide)) hidx
  exact ply_roundtrip_ascii_bytes_partial c L cfg m bytes hf hwf h htys hpoint hsize hidx huri hrange
    (claimedOfA cfg m) (ply_claim_oka_from_guard c cfg m body hbody hg hA)

/-- THE THREE ENCODINGS AGREE, CLOSED: `ply_encodings_agree_partial` with both claim stages derived from the guards
(the writers that fire do not depend on the format) -/
theorem ply_encodings_agree_closed_partial [BEq α] [LawfulBEq α] (c : Coding α) (L : GoFloatText c) (props : List WProp)
    (wu : Bool) (m : MeshVal α) (ba bl bb : Bytes) (hwf : m.WF = true)
    (ha : writeMesh c ⟨.ascii, props, wu⟩ m = .ok ba) (hl : writeMesh c ⟨.le, props, wu⟩ m = .ok bl)
    (hb : writeMesh c ⟨.be, props, wu⟩ m = .ok bb)
    (hgd : claimGuard (selectWriters ⟨.ascii, props, wu⟩ m) = true)
    (hA : asciiGuard (selectWriters ⟨.ascii, props, wu⟩ m) = true)
    (htys : m.attrLen = 0 ∨ writerTypes (selectWriters ⟨.ascii, props, wu⟩ m) ≠ [])
    (hpoint : m.topo = .point → m.indices = (List.range m.attrLen).map Int.ofNat)
    (hsize : m.attrLen ≤ 2 ^ 31) (hidx : m.indices.length < 2 ^ 63)
    (huri : ∀ u, m.texURI = some u → CommentOK (nm "TextureFile " ++ u)) (hrange : InRangeMesh L m)
    (hg : AgreeGuards c L props wu m) :
    ∃ ma ml mb, readMesh c defaultReader ba = .ok ma ∧ readMesh c defaultReader bl = .ok ml ∧
      readMesh c defaultReader bb = .ok mb ∧
      RoundTrips c ⟨.ascii, props, wu⟩ m ma = true ∧ RoundTrips c ⟨.le, props, wu⟩ m ml = true ∧
      RoundTrips c ⟨.be, props, wu⟩ m mb = true ∧
      SameContent ⟨.ascii, props, wu⟩ m ma ml ∧ SameContent ⟨.le, props, wu⟩ m ml mb := by
  obtain ⟨bodyA, hbodyA, _, _⟩ := ply_written_header_parses c _ m ba ha huri (Nat.lt_of_le_of_lt hsize (by decide)) hidx
  obtain ⟨bodyL, hbodyL, _, _⟩ := ply_written_header_parses c _ m bl hl huri (Nat.lt_of_le_of_lt hsize (by decide)) hidx
  exact ply_encodings_agree_partial c L props wu m ba bl bb hwf ha hl hb htys hpoint hsize hidx huri hrange
    (claimedOfA ⟨.ascii, props, wu⟩ m) (ply_claim_oka_from_guard c _ m bodyA hbodyA hgd hA)
    (claimedOf ⟨.le, props, wu⟩ m) (ply_claim_ok_from_guard c _ m bodyL hbodyL hgd) hg

/-! ### non-vacuity -/

example : asciiGuard (selectWriters (defaultWriter .ascii) exMesh) = true := by decide
example : asciiGuard (selectWriters exCfg exCloud) = true := by decide

/-- the ASCII guard fails for an 8-bit SCALAR writer (known finding C04-ascii-uchar-scalar) -/
example : asciiGuard [⟨nm "q", [nm "q"], .uchar⟩] = false := by decide

example : ∃ back, readMesh toyCodingA defaultReader ((writeMesh toyCodingA (defaultWriter .ascii) exMesh).toOption.getD [])
      = .ok back ∧ RoundTrips toyCodingA (defaultWriter .ascii) exMesh back = true :=
  ply_roundtrip_ascii_bytes_closed_partial toyCodingA toyLaw (defaultWriter .ascii) exMesh _ rfl (by decide) (by rfl)
    (by decide) (by decide) (by decide) (by decide) (by decide) (by decide) (by intro u hu; simp [exMesh] at hu)
    (fun _ _ _ _ _ _ => trivial)

end C04
end PolyVerif
