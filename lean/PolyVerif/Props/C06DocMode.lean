/-
  C06 (round 2) — the mode / index-count rule at DOCUMENT level, exactly: every glTF mesh of the written document is
  referenced by a node, nodes of meshes pair with the visible models, hence `docModeCountOK w.doc` (what a validator checks
  without knowing the scene) ⇔ every visible model's own index count fits its topology (`PMesh.indexCountFits`).
-/
import PolyVerif.Props.C06Topo
import PolyVerif.Props.C06Glb
import PolyVerif.Model.GltfShape

namespace PolyVerif
namespace C06
open Gltf

/-- every glTF mesh is referenced by a node -/
def MeshUsed (w : W) : Prop := ∀ mi, mi < w.meshes.length → ∃ n ∈ w.nodes, n.mesh = some mi

theorem addMesh_meshes (w : W) (name : String) (id : Nat) (m : PMesh) (mat : Option Nat) :
    (addMesh w name id m mat).1.meshes = w.meshes
    ∨ ((addMesh w name id m mat).1.meshes.length = w.meshes.length + 1
        ∧ (addMesh w name id m mat).2 = some w.meshes.length) := by
  unfold addMesh
  split
  · exact Or.inl rfl
  · split
    · exact Or.inl rfl
    · refine Or.inr ⟨?_, rfl⟩
      simp only [meshDataFor]
      split
      · simp
      · simp only [List.length_append, List.length_cons, List.length_nil, (writeMeshData_keepA _ id m).2.1]

theorem addModel_meshUsed (s : Scene) (w w' : W) (md : Model) (hw : MeshUsed w) (h : addModel s w md = .ok w') :
    MeshUsed w' := by
  unfold addModel at h
  split at h
  · cases h
  · split at h
    · cases h
    · rename_i _ id _ _ m hm
      split at h
      · injection h with h; subst h; exact hw
      · rename_i hskip
        split at h
        · cases h
        · rename_i r hr
          have hk := addModelMaterial_keepW s w md r (gate_ok s w md m r hr).2
          have hpc := (skipped_false hskip).1
          dsimp only at h
          have hnp := (nodePart_addMesh r.1 md.name id m r.2).1
          simp only [nodePart, Prod.mk.injEq] at hnp
          split at h
          · rename_i hnone
            exact absurd hnone (addMesh_some r.1 md.name id m r.2 hpc)
          · rename_i meshIndex hsome
            injection h with h; subst h
            have hi := nodePart_addInstances (addMesh r.1 md.name id m r.2).1 md.instances
            simp only [nodePart, Prod.mk.injEq] at hi
            intro mi hmi
            simp only [hi.2] at hmi
            simp only [hi.1.1, hnp.1, hk.2.2.2.1, List.mem_append, List.mem_singleton]
            rcases addMesh_meshes r.1 md.name id m r.2 with heq | ⟨hlen, hidx⟩
            · rw [heq, hk.1] at hmi
              obtain ⟨n, hn, hnm⟩ := hw mi hmi
              exact ⟨n, Or.inl hn, hnm⟩
            · rw [hlen, hk.1] at hmi
              rw [hsome, hk.1] at hidx
              injection hidx with hidx
              by_cases hlt : mi < w.meshes.length
              · obtain ⟨n, hn, hnm⟩ := hw mi hlt
                exact ⟨n, Or.inl hn, hnm⟩
              · have : mi = meshIndex := by omega
                exact ⟨_, Or.inr rfl, by simp [modelNode, this]⟩

theorem addModels_meshUsed (s : Scene) : ∀ (l : List Model) (w w' : W), MeshUsed w → addModels s w l = .ok w' → MeshUsed w'
  | [], w, w', hw, h => by simp only [addModels] at h; injection h with h; subst h; exact hw
  | md :: r, w, w', hw, h => by
    simp only [addModels] at h
    split at h
    · cases h
    · rename_i w1 h1
      exact addModels_meshUsed s r w1 w' (addModel_meshUsed s w w1 md hw h1) h

/-- every glTF mesh of the written document is referenced by one of the nodes that carry the visible models -/
theorem scene_meshUsed (s : Scene) (w : W) (hs : SceneOK s) (h : writeScene s = .ok w) :
    ∀ mi, mi < w.meshes.length → ∃ n ∈ w.nodes.take s.visible.length, n.mesh = some mi := by
  have hz := scene_zip_carries s w hs h
  unfold writeScene at h
  split at h
  · cases h
  · rename_i w1 h1
    split at h
    · injection h with h; subst h
      unfold addScene at h1
      split at h1
      · cases h1
      · rename_i w0 h0
        injection h1 with h1; subst h1
        have hu := addModels_meshUsed s s.models {} w0 (fun mi hmi => by simp at hmi) h0
        obtain ⟨hn, _⟩ := addModels_carries s hs s.models {} w0 [] ⟨inv_empty, by simp, by simp, by simp⟩
          ⟨trivial, rfl, rfl, rfl⟩ (fun _ h => h) h0
        simp only [List.nil_append] at hn
        obtain ⟨ln, e1, _, _, _, _, _, e7⟩ := addLights_carries s.lights w0 hn.scene
        have hlen : s.visible.length = w0.nodes.length := by rw [visible_eq]; exact zip_length hn.zip
        intro mi hmi
        rw [e7] at hmi
        obtain ⟨n, hnn, hnm⟩ := hu mi hmi
        refine ⟨n, ?_, hnm⟩
        rw [e1, hlen, List.take_left' rfl]; exact hnn
    · cases h

theorem zip_exists_left {α β} {R : α → β → Prop} : ∀ {l : List α} {r : List β}, Zip R l r → ∀ b ∈ r, ∃ a ∈ l, R a b
  | [], [], _, b, hb => by cases hb
  | _ :: _, _ :: _, hz, b, hb => by
    simp only [List.mem_cons] at hb
    rcases hb with rfl | hb
    · exact ⟨_, by simp, hz.1⟩
    · obtain ⟨a, ha, hr⟩ := zip_exists_left hz.2 b hb
      exact ⟨a, by simp [ha], hr⟩
  | [], _ :: _, hz, _, _ => hz.elim
  | _ :: _, [], hz, _, _ => hz.elim

/-- DOCUMENT LEVEL, EXACTLY.  For every well-formed scene the writer accepts: every indexed primitive of the written document
    has a number of indices compatible with its drawing mode (`docModeCountOK`, the glTF mode / index-count rule, checked on
    the document alone) IFF every visible model's own index count fits its topology (3k indices for triangles, 2k for lines, at least two for
    loops / strips). -/
theorem gltf_doc_mode_count_iff (s : Scene) (w : W) (hs : SceneOK s) (h : writeScene s = .ok w) :
    docModeCountOK w.doc = true ↔
      ∀ md ∈ s.visible, ∀ m, s.meshOf md = some m → m.indexCountFits = true := by
  refine ⟨gltf_doc_mode_count_imp s w hs h, fun hall => ?_⟩
  have hz := scene_zip_carries s w hs h
  unfold docModeCountOK
  rw [List.all_eq_true]
  intro gm hgm
  obtain ⟨mi, hmi, hget⟩ := List.getElem_of_mem hgm
  obtain ⟨n, hn, hnm⟩ := scene_meshUsed s w hs h mi hmi
  obtain ⟨md, hmd, hc⟩ := zip_exists_left hz n hn
  obtain ⟨m, p, idx, hm, hp, hmode, hidx, _, ⟨x, hx, hcount⟩, _⟩ := carries_nodePrim hc
  have hgm' : w.doc.meshes[mi]? = some gm := by
    rw [List.getElem?_eq_getElem hmi, hget]
  -- the node's primitive is the primitive of `gm`
  have hprims : gm.prims = [p] := by
    unfold nodePrim at hp
    simp only [hm, hnm, hgm'] at hp
    split at hp
    · rename_i p' hp'
      injection hp with hp; injection hp with _ hp; subst hp; exact hp'
    · cases hp
  rw [hprims]
  simp only [List.all_cons, List.all_nil, Bool.and_true, hidx, hx, hmode, hcount]
  exact hall md hmd m hm

/-! ### the binary container carries the buffer the document speaks about -/

/-- WriteBinary END TO END.  For every well-formed scene the writer accepts and whatever JSON text it serialises the
    document to (file < 4 GiB): an independent GLB reader gets back the JSON text (plus blank padding) and a BIN payload whose
    first `buffers[0].byteLength` bytes are exactly the buffer all accessor statements (`valid`, `carriesScene`) are about; a
    document without buffer comes with no BIN chunk. -/
theorem glb_carries_buffer (s : Scene) (w : W) (hs : SceneOK s) (h : writeScene s = .ok w) (json : List UInt8)
    (hsz : (glbFrame json w.buf).length < 2 ^ 32) :
    ∃ j b, glbParse (glbFrame json w.buf) = some (j, b) ∧ j.take json.length = json
      ∧ (match w.doc.bufLen with
         | some n => b.take n = w.buf ∧ n = w.buf.length
         | none => b = [] ∧ w.buf = []) := by
  have hb := (scene_inv s w hs h).bytes
  refine ⟨_, _, glb_parse_write json w.buf hsz, List.take_left' rfl, ?_⟩
  show (match (if w.bytesWritten > 0 then some w.bytesWritten else none) with
         | some n => _
         | none => _)
  by_cases hp : w.bytesWritten > 0
  · rw [if_pos hp]
    exact ⟨by rw [hb, List.take_left' rfl], hb⟩
  · rw [if_neg hp]
    have : w.buf = [] := List.eq_nil_of_length_eq_zero (by omega)
    simp [this, pad4]

/-! ### the bytes-free shape of the document (what `c06.holds.bigtext` evaluates for payloads too large to cross the pipe) -/

theorem viewsTile_of_tiles : ∀ (vs : List View) (o e : Nat), Tiles o vs e → viewsTile o vs e = true
  | [], o, e, h => by simpa [viewsTile, Tiles] using h
  | v :: r, o, e, h => by
    simp only [viewsTile, Bool.and_eq_true, beq_iff_eq]
    exact ⟨h.1, viewsTile_of_tiles r _ e h.2⟩

/-- SHAPE.  For every well-formed scene the writer accepts — of any size — the buffer views tile [0, byteLength) back to
    back, there is one view per accessor, and accessor k reads view k and fills it exactly. -/
theorem gltf_shape_ok (s : Scene) (w : W) (hs : SceneOK s) (h : writeScene s = .ok w) : shapeOK w.doc = true := by
  have hi := scene_inv s w hs h
  unfold shapeOK
  simp only [Bool.and_eq_true]
  refine ⟨⟨?_, ?_⟩, ?_⟩
  · have : w.doc.bufLen.getD 0 = w.buf.length := by
      show (if w.bytesWritten > 0 then some w.bytesWritten else none).getD 0 = _
      rw [← hi.bytes]
      by_cases hp : w.bytesWritten > 0
      · simp [hp]
      · simp [hp]; omega
    rw [this]
    exact viewsTile_of_tiles w.views 0 _ hi.tiles
  · show (w.accessors.length == w.views.length) = true
    simp [hi.len]
  · rw [List.all_eq_true]
    intro k hk
    have hk' : k < w.accessors.length := by
      have : k < w.doc.accessors.length := by simpa using hk
      exact this
    have hkv : k < w.views.length := by rw [← hi.len]; exact hk'
    have ha : w.doc.accessors[k]? = some w.accessors[k] := List.getElem?_eq_getElem hk'
    have hv : w.doc.views[k]? = some w.views[k] := List.getElem?_eq_getElem hkv
    have hown := hi.own k hk'
    have hacc := hi.accs w.accessors[k] (List.getElem_mem hk')
    unfold accOK at hacc
    rw [hown, List.getElem?_eq_getElem hkv] at hacc
    simp only [ha, hv, Bool.and_eq_true, beq_iff_eq]
    refine ⟨hown, ?_⟩
    split at hacc
    · rename_i v d hv' hd
      injection hv' with hv'; subst hv'
      simp only [Bool.and_eq_true, beq_iff_eq] at hacc
      exact hacc.1
    · cases hacc

end C06
end PolyVerif
