/-
  C05, round 2 — print/parse laws of the INTEGER tokens of the OBJ text layer, as theorems.

  Round 1 kept the whole text layer as a hypothesis bundle of `obj_roundtrip_text` (`hshow : pc' (shw c) = ok c`
  for corner tokens, `rt` for scalars).  Here the integer half is a concrete model (`PolyVerif/Model/ObjText.lean`:
  `showInt` = `strconv.Itoa`, `parseInt` = `strconv.Atoi`, `showCorner` = the writer's `v`, `v/vt`, `v//vn`,
  `v/vt/vn` token, `parseCorner` = `parseObjFaceComponent`) and its laws are proved.  The tie: `driver_c05`
  prints every face index with `showCorner` and parses every face token with `parseCorner` (text-exact
  `c05.write` / `c05.read` correspondence incl. int64-boundary tokens), and answers `c05.itoa` / `c05.atoi`
  (direct comparison with `strconv.Itoa` / `strconv.Atoi`) with `showInt` / `parseInt`.
  What remains a hypothesis: the FLOAT text law (`rt` = shortest decimal, then `ParseFloat(·, 32)`).
  Proofs: `PolyVerif/Lemmas/ObjText.lean`.
-/
import PolyVerif.Lemmas.ObjTextCompose
import PolyVerif.Lemmas.ObjLex

namespace PolyVerif
namespace C05
open Obj ObjL ObjText ObjTextL

/-- **`Atoi (Itoa n) = n`** for every int64 `n`. -/
theorem parseInt_showInt (n : Int) (hlo : -2 ^ 63 ≤ n) (hhi : n < 2 ^ 63) : parseInt (showInt n) = some n := by
  simp only [parseInt, showInt, String.toList_ofList]
  exact parseIntL_showIntL n hlo hhi

example : parseInt (showInt (-9223372036854775808)) = some (-9223372036854775808) :=
  parseInt_showInt _ (by decide) (by decide)

/-- **The printed integer is a clean token**: only decimal digits and possibly a `-` — hence no blank, tab,
    line break or `/` (it survives `strings.Fields` and the `/` splitting of a corner token) — and not empty. -/
theorem showInt_clean (n : Int) :
    (∀ c ∈ (showInt n).toList, (isDigit c = true ∨ c = '-') ∧ c ≠ ' ' ∧ c ≠ '\t' ∧ c ≠ '\n' ∧ c ≠ '\r' ∧ c ≠ '/') ∧
    showInt n ≠ "" := by
  obtain ⟨h1, h2⟩ := showIntL_chars n
  simp only [showInt, String.toList_ofList]
  refine ⟨?_, ?_⟩
  · intro c hc
    refine ⟨h1 c hc, ?_⟩
    rcases h1 c hc with hd | rfl
    · obtain ⟨_, _, a, b⟩ := digit_ne_aux hd
      refine ⟨?_, ?_, ?_, ?_, a⟩ <;> (rintro rfl; simp [ObjText.isSpace] at b)
    · decide
  · intro h
    have := congrArg String.toList h
    simp only [String.toList_ofList] at this
    exact h2 this

/-- **`parseInt` rejects what `Atoi` rejects by range**: an accepted value fits an int64. -/
theorem parseInt_range {s : String} {n : Int} (h : parseInt s = some n) : -2 ^ 63 ≤ n ∧ n < 2 ^ 63 :=
  parseIntL_range h

example : parseInt "9223372036854775808" = none ∧ parseInt "-9223372036854775808" = some (-9223372036854775808) ∧
    parseInt "+7" = some 7 ∧ parseInt "1_0" = none ∧ parseInt "" = none ∧ parseInt "-" = none := by
  refine ⟨?_, ?_, ?_, ?_, ?_, ?_⟩ <;> decide

/-- **The corner print/parse law** (`hshow` of `obj_roundtrip_text`, for the concrete functions the driver
    runs): `parseObjFaceComponent` applied to the token the writer prints for a corner gives that corner back —
    all four shapes `v`, `v/vt`, `v//vn`, `v/vt/vn` — for every corner whose indices fit an int64. -/
theorem parseCorner_showCorner (c : Corner) (hv : c.v < 2 ^ 63) (ht : ∀ t, c.vt = some t → t < 2 ^ 63)
    (hn : ∀ n, c.vn = some n → n < 2 ^ 63) : parseCorner (showCorner c) = .ok c := by
  simp only [parseCorner, showCorner, String.toList_ofList]
  exact parseCornerL_showCornerL c hv ht hn

example : parseCorner (showCorner ⟨12, some 7, some 9223372036854775807⟩) = .ok ⟨12, some 7, some 9223372036854775807⟩ :=
  parseCorner_showCorner _ (by decide) (by intro t h; cases h; decide) (by intro n h; cases h; decide)

/-- the law needs the range: beyond int64 `Atoi` reports a range error (first example after `parseInt_range`);
    behaviour of `parseCorner` on malformed tokens (empty vn slot, trailing slash, negative index, triple slash, …) is tied by `c05.read`. -/
example : parseInt (showInt 9223372036854775808) ≠ some 9223372036854775808 := by
  intro h; have := (parseInt_range h).2; omega

/-- **The corner token contains no blank** (one field for `strings.Fields`) and is not empty. -/
theorem showCorner_no_blank (c : Corner) :
    (∀ x ∈ (showCorner c).toList, ObjText.isSpace x = false) ∧ showCorner c ≠ "" := by
  obtain ⟨h1, h2⟩ := showCornerL_chars c
  simp only [showCorner, String.toList_ofList]
  refine ⟨h1, ?_⟩
  intro h
  have := congrArg String.toList h
  simp only [String.toList_ofList] at this
  exact h2 this

/-- **C05 clause 1 through the text layer with the CONCRETE index printer / parser** — only the float law is
    left as a parameter.  Corner tokens are printed by `showCorner` (`strconv.Itoa` per index, `/` separators)
    and parsed by `parseCorner` (`parseObjFaceComponent` with `strconv.Atoi`): the functions `driver_c05` runs.
    Every scalar comes back from the text as `rt x` (real code: shortest decimal, then `ParseFloat(·, 32)`).
    For every non-empty list of named well-formed triangle meshes whose attribute arrays together hold fewer
    than 2^63 entries each (any scene a 64-bit process can hold), reading the written text succeeds with
    `RoundTripsCarry rt`, and with the strict `RoundTrips rt` when no material-less mesh follows one with
    ranges.  (`obj_roundtrip_text` with its hypothesis `hshow` discharged.) -/
theorem obj_roundtrip_text_ints {α : Type} [DecidableEq α] (rt : α → α) (matFile : String) (ms : List (String × Mesh α))
    (hne : ms ≠ []) (hwf : ∀ p ∈ ms, WFMesh p.2) (hnb : NonemptyButLast ms)
    (hsv : (ms.flatMap fun p => optList p.2.pos).length < 2 ^ 63)
    (hst : (ms.flatMap fun p => optList p.2.uv).length < 2 ^ 63)
    (hsn : (ms.flatMap fun p => optList p.2.nrm).length < 2 ^ 63) :
    ∃ ls gs libs, writeObj matFile ms = .ok ls ∧
      readObj parseCorner (ls.map (mapLine showCorner rt)) = .ok (gs, libs) ∧
      RoundTripsCarry rt none ms (gs.map toMesh) = true ∧
      (NoMatlessAfterMat none ms → RoundTrips rt ms (gs.map toMesh) = true) :=
  ObjTextL.obj_roundtrip_text_ints rt matFile ms hne hwf hnb hsv hst hsn

/-- the size hypotheses are satisfiable (any real scene): the mixed-attribute witness -/
example : (mixedWitness.flatMap fun p => optList p.2.pos).length < 2 ^ 63 ∧
    (mixedWitness.flatMap fun p => optList p.2.uv).length < 2 ^ 63 ∧
    (mixedWitness.flatMap fun p => optList p.2.nrm).length < 2 ^ 63 := by
  refine ⟨?_, ?_, ?_⟩ <;> decide

/-- **Lexing a printed face line.**  `strings.Fields` applied to the `f` line the writer prints gives back the
    keyword and exactly the three corner tokens — for all corners (the tokens are blank-free and non-empty). -/
theorem fields_printFace (a b c : Corner) :
    fields (printFace a b c) = ["f", showCorner a, showCorner b, showCorner c] :=
  fields_printFace_aux a b c

/-- **The whole text path of a face line**: print, split into fields, parse the three tokens — the three corners
    come back (indices in the int64 range). -/
theorem face_line_roundtrip (a b c : Corner) (ha : a.v < 2 ^ 63 ∧ (∀ t, a.vt = some t → t < 2 ^ 63) ∧ (∀ n, a.vn = some n → n < 2 ^ 63))
    (hb : b.v < 2 ^ 63 ∧ (∀ t, b.vt = some t → t < 2 ^ 63) ∧ (∀ n, b.vn = some n → n < 2 ^ 63))
    (hc : c.v < 2 ^ 63 ∧ (∀ t, c.vt = some t → t < 2 ^ 63) ∧ (∀ n, c.vn = some n → n < 2 ^ 63)) :
    ((fields (printFace a b c)).drop 1).map parseCorner = [.ok a, .ok b, .ok c] := by
  rw [fields_printFace]
  simp [parseCorner_showCorner a ha.1 ha.2.1 ha.2.2, parseCorner_showCorner b hb.1 hb.2.1 hb.2.2,
    parseCorner_showCorner c hc.1 hc.2.1 hc.2.2]

example : ((fields (printFace ⟨1, some 2, none⟩ ⟨3, some 4, none⟩ ⟨5, some 6, none⟩)).drop 1).map parseCorner =
    [.ok ⟨1, some 2, none⟩, .ok ⟨3, some 4, none⟩, .ok ⟨5, some 6, none⟩] :=
  face_line_roundtrip _ _ _ ⟨by decide, by intro t h; cases h; decide, by intro n h; cases h⟩
    ⟨by decide, by intro t h; cases h; decide, by intro n h; cases h⟩
    ⟨by decide, by intro t h; cases h; decide, by intro n h; cases h⟩

end C05
end PolyVerif
