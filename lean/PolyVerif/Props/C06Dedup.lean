/-
  C06 — scene level: dedup consistency of the material tracker and the mesh table.
-/
import PolyVerif.Props.C06Data

namespace PolyVerif
namespace C06
open Gltf

/-! ### (4) materials: equal-by-value ⇒ one entry; distinct entries pairwise not `equal` -/

theorem findIdx_none {α} (p : α → Bool) (l : List α) (k : Nat) (h : findIdx p l k = none) : ∀ a ∈ l, p a = false := by
  induction l generalizing k with
  | nil => simp
  | cons a r ih =>
    simp only [findIdx] at h
    split at h
    · cases h
    · rename_i hp
      intro x hx
      simp only [List.mem_cons] at hx
      rcases hx with rfl | hx
      · simpa using hp
      · exact ih (k + 1) h x hx

theorem findIdx_some {α} (p : α → Bool) (l : List α) (k i : Nat) (h : findIdx p l k = some i) :
    ∃ a, l[i - k]? = some a ∧ p a = true ∧ k ≤ i ∧ ∀ j, j < i - k → ∀ b, l[j]? = some b → p b = false := by
  induction l generalizing k with
  | nil => simp [findIdx] at h
  | cons a r ih =>
    simp only [findIdx] at h
    split at h
    · rename_i hp
      injection h with h; subst h
      exact ⟨a, by simp, hp, Nat.le_refl _, by simp⟩
    · rename_i hp
      obtain ⟨x, h1, h2, h3, h4⟩ := ih (k + 1) h
      have hik : i - k = (i - (k + 1)) + 1 := by omega
      refine ⟨x, by rw [hik]; simpa using h1, h2, by omega, ?_⟩
      intro j hj b hb
      cases j with
      | zero => simp at hb; subst hb; simpa using hp
      | succ j => exact h4 j (by omega) b (by simpa using hb)

/-- the material tracker: entry `k` points at material `k`; no entry is `equal` to an EARLIER one -/
structure MatT (th : Nat → Option PTexture) (w : W) : Prop where
  len : w.matIdx.length = w.materials.length
  idx : ∀ (k : Nat) (e : PMaterial × Nat), w.matIdx[k]? = some e → e.2 = k
  distinct : List.Pairwise (fun e1 e2 : PMaterial × Nat => PMaterial.equal th e1.1 e2.1 = false) w.matIdx

/-- what `AddMaterial` does to the tracker, exactly: if some tracked material is `equal` to `m`, nothing is added and the
    index of the FIRST such entry is returned; otherwise one entry `(m, len)` is appended and `len` returned -/
theorem addMaterial_dedup (th : Nat → Option PTexture) (w : W) (m : PMaterial) (r : W × Nat)
    (h : addMaterial th w m = .ok r) (hw : MatT th w) :
    MatT th r.1
    ∧ ((∃ e ∈ w.matIdx, PMaterial.equal th e.1 m = true) →
         r.1.matIdx = w.matIdx ∧ r.1.materials = w.materials
         ∧ ∃ e, w.matIdx[r.2]? = some e ∧ PMaterial.equal th e.1 m = true
             ∧ ∀ j, j < r.2 → ∀ b, w.matIdx[j]? = some b → PMaterial.equal th b.1 m = false)
    ∧ ((∀ e ∈ w.matIdx, PMaterial.equal th e.1 m = false) →
         r.1.matIdx = w.matIdx ++ [(m, w.matIdx.length)] ∧ r.2 = w.matIdx.length
         ∧ r.1.materials.length = w.materials.length + 1) := by
  unfold addMaterial at h
  split at h
  · rename_i k hk
    obtain ⟨a, h1, h2, _, h4⟩ := findIdx_some _ _ _ _ hk
    simp only [Nat.sub_zero] at h1 h4
    rw [h1] at h
    simp only at h
    injection h with h; subst h
    have hak : a.2 = k := hw.idx k a h1
    refine ⟨hw, fun _ => ⟨rfl, rfl, a, by rw [hak]; exact h1, h2, by rw [hak]; exact h4⟩, ?_⟩
    intro hall
    have := hall a (List.mem_of_getElem? h1)
    rw [h2] at this; cases this
  · rename_i hnone
    have hall := findIdx_none _ _ _ hnone
    split at h
    · cases h
    · rename_i r1 h1
      split at h
      · cases h
      · rename_i r2 h2
        split at h
        · cases h
        · rename_i r3 h3
          split at h
          · cases h
          · split at h
            · cases h
            · rename_i r4 h4
              split at h
              · cases h
              · rename_i r5 h5
                injection h with h; subst h
                have k : KeepM r5.1 w := (keepM_addTexOpt _ _ _ _ h5).trans' ((keepM_addTexOpt _ _ _ _ h4).trans'
                  ((keepM_addMatExts _ _ _ _ h3).trans' ((keepM_addTexOpt _ _ _ _ h2).trans' (keepM_addTexOpt _ _ _ _ h1))))
                have e1 : r5.1.matIdx = w.matIdx := k.1
                have e2 : r5.1.materials = w.materials := k.2.1
                refine ⟨⟨?_, ?_, ?_⟩, ?_, ?_⟩
                · simp [e1, e2, hw.len]
                · intro j e hj
                  simp only [e1, e2] at hj
                  rcases Nat.lt_or_ge j w.matIdx.length with hlt | hge
                  · rw [List.getElem?_append_left hlt] at hj; exact hw.idx j e hj
                  · rw [List.getElem?_append_right hge] at hj
                    have : j - w.matIdx.length = 0 := by
                      rcases Nat.eq_zero_or_pos (j - w.matIdx.length) with h | h
                      · exact h
                      · rw [List.getElem?_eq_none (by simp; omega)] at hj; cases hj
                    rw [this] at hj; simp at hj; subst hj
                    simp only; rw [← hw.len]; omega
                · simp only [e1]
                  rw [List.pairwise_append]
                  refine ⟨hw.distinct, by simp, ?_⟩
                  intro a ha b hb
                  simp only [List.mem_singleton] at hb; subst hb
                  exact hall a ha
                · intro ⟨e, he, heq⟩
                  have := hall e he; rw [heq] at this; cases this
                · intro _
                  exact ⟨by simp [e1, e2, hw.len], by simp [e2, hw.len], by simp [e2]⟩

/-! ### (4) meshes: same (mesh id, material index) ⇒ same mesh index, and only then -/

theorem lookup_none {α β} [DecidableEq α] (k : α) (l : List (α × β)) (h : lookup k l = none) : ∀ e ∈ l, e.1 ≠ k := by
  induction l with
  | nil => simp
  | cons p r ih =>
    obtain ⟨a, b⟩ := p
    simp only [lookup] at h
    split at h
    · cases h
    · rename_i hne
      intro e he
      simp only [List.mem_cons] at he
      rcases he with rfl | he
      · exact hne
      · exact ih h e he

theorem mapInsert_fresh {α β} [DecidableEq α] (m : List (α × β)) (k : α) (v : β) (h : ∀ e ∈ m, e.1 ≠ k) :
    mapInsert m k v = m ++ [(k, v)] := by
  unfold mapInsert
  rw [List.filter_eq_self.mpr (fun e he => by simpa using h e he)]

/-- the mesh table is a partial injection from (mesh id, material index) to mesh indices -/
structure MeshT (w : W) : Prop where
  func : ∀ (k : Nat × Option Nat) (i j : Nat), (k, i) ∈ w.meshIdx → (k, j) ∈ w.meshIdx → i = j
  inj : ∀ (k k' : Nat × Option Nat) (i : Nat), (k, i) ∈ w.meshIdx → (k', i) ∈ w.meshIdx → k = k'
  lt : ∀ e ∈ w.meshIdx, e.2 < w.meshes.length

theorem addMesh_tables (w : W) (name : String) (id : Nat) (m : PMesh) (mat : Option Nat) :
    (addMesh w name id m mat).1.matIdx = w.matIdx ∧ (addMesh w name id m mat).1.materials = w.materials := by
  unfold addMesh
  split
  · exact ⟨rfl, rfl⟩
  · split
    · exact ⟨rfl, rfl⟩
    · simp only [meshDataFor]
      split
      · exact ⟨rfl, rfl⟩
      · obtain ⟨k, _⟩ := writeAttrs_refs { w with meshIdx := mapInsert w.meshIdx (id, mat) w.meshes.length } [] m.written (by simp)
        exact ⟨k.1, k.2.2.2.2.2.2.1⟩

/-- what `AddMesh` does to the mesh table, exactly (non-empty mesh): a key that is present returns its index and changes
    nothing; a fresh key is registered for the next mesh index `len(meshes)`, one mesh is appended, all older entries
    stay -/
theorem addMesh_dedup (w : W) (name : String) (id : Nat) (m : PMesh) (mat : Option Nat) (hw : MeshT w)
    (hpc : m.primitiveCount ≠ 0) :
    MeshT (addMesh w name id m mat).1
    ∧ (∀ i, ((id, mat), i) ∈ w.meshIdx → addMesh w name id m mat = (w, some i))
    ∧ ((∀ i, ((id, mat), i) ∉ w.meshIdx) →
         (addMesh w name id m mat).2 = some w.meshes.length
         ∧ (addMesh w name id m mat).1.meshIdx = w.meshIdx ++ [((id, mat), w.meshes.length)]
         ∧ (addMesh w name id m mat).1.meshes.length = w.meshes.length + 1)
    ∧ ∀ e ∈ w.meshIdx, e ∈ (addMesh w name id m mat).1.meshIdx := by
  unfold addMesh
  rw [if_neg hpc]
  split
  · rename_i i hi
    have hmem := lookup_mem _ _ _ hi
    refine ⟨hw, fun j hj => by rw [hw.func _ _ _ hj hmem], fun hno => absurd hmem (hno i), fun e he => he⟩
  · rename_i hnone
    have hfresh := lookup_none _ _ hnone
    have hmi : mapInsert w.meshIdx (id, mat) w.meshes.length = w.meshIdx ++ [((id, mat), w.meshes.length)] :=
      mapInsert_fresh _ _ _ hfresh
    -- the data part touches neither the table nor the mesh list
    have hkeep : (meshDataFor { w with meshIdx := mapInsert w.meshIdx (id, mat) w.meshes.length } id m).1.meshIdx
          = mapInsert w.meshIdx (id, mat) w.meshes.length
        ∧ (meshDataFor { w with meshIdx := mapInsert w.meshIdx (id, mat) w.meshes.length } id m).1.meshes = w.meshes := by
      unfold meshDataFor
      split
      · exact ⟨rfl, rfl⟩
      · obtain ⟨k, _⟩ := writeAttrs_refs { w with meshIdx := mapInsert w.meshIdx (id, mat) w.meshes.length } [] m.written (by simp)
        exact ⟨k.2.2.2.1, k.2.1⟩
    have hk1 : (meshDataFor { w with meshIdx := mapInsert w.meshIdx (id, mat) w.meshes.length } id m).1.meshIdx
        = w.meshIdx ++ [((id, mat), w.meshes.length)] := by rw [hkeep.1, hmi]
    have hk2 := hkeep.2
    simp only
    generalize meshDataFor { w with meshIdx := mapInsert w.meshIdx (id, mat) w.meshes.length } id m = R at hk1 hk2 ⊢
    refine ⟨⟨?_, ?_, ?_⟩, ?_, fun _ => ⟨trivial, hk1, by simp [hk2]⟩, ?_⟩
    · intro k i j hi hj
      simp only [hk1, List.mem_append, List.mem_singleton, Prod.mk.injEq] at hi hj
      rcases hi with hi | ⟨rfl, rfl⟩ <;> rcases hj with hj | ⟨h1, rfl⟩
      · exact hw.func k i j hi hj
      · exact absurd h1 (hfresh _ hi)
      · exact absurd rfl (hfresh _ hj)
      · rfl
    · intro k k' i hi hj
      simp only [hk1, List.mem_append, List.mem_singleton, Prod.mk.injEq] at hi hj
      rcases hi with hi | ⟨rfl, rfl⟩ <;> rcases hj with hj | ⟨h1, h2⟩
      · exact hw.inj k k' i hi hj
      · have := hw.lt _ hi; simp only at this; omega
      · have := hw.lt _ hj; simp only at this; omega
      · exact h1.symm
    · intro e he
      simp only [hk1, List.mem_append, List.mem_singleton] at he
      simp only [hk2, List.length_append, List.length_singleton]
      rcases he with he | rfl
      · have := hw.lt e he; omega
      · simp
    · intro i hi
      exact absurd rfl (hfresh _ hi)
    · intro e he
      simp only [hk1, List.mem_append]
      exact Or.inl he

/-! ### both tables, for every scene -/

def tPart (w : W) := (w.matIdx, w.materials, w.meshIdx, w.meshes)

theorem matT_of_tPart {th : Nat → Option PTexture} {w w' : W} (h : MatT th w) (e : tPart w' = tPart w) : MatT th w' := by
  simp only [tPart, Prod.mk.injEq] at e
  obtain ⟨e1, e2, _, _⟩ := e
  exact ⟨by rw [e1, e2]; exact h.len, by rw [e1]; exact h.idx, by rw [e1]; exact h.distinct⟩

theorem meshT_of_tPart {w w' : W} (h : MeshT w) (e : tPart w' = tPart w) : MeshT w' := by
  simp only [tPart, Prod.mk.injEq] at e
  obtain ⟨_, _, e3, e4⟩ := e
  exact ⟨by rw [e3]; exact h.func, by rw [e3]; exact h.inj, by rw [e3, e4]; exact h.lt⟩

theorem tPart_addInstances (w : W) (inst : List (List Nat)) : tPart (addInstances w inst).1 = tPart w := by
  unfold addInstances
  split <;> rfl

theorem addModel_tables (s : Scene) (w w' : W) (md : Model) (hm : MatT (fun i => s.texHeap[i]?) w) (hx : MeshT w)
    (h : addModel s w md = .ok w') : MatT (fun i => s.texHeap[i]?) w' ∧ MeshT w' := by
  unfold addModel at h
  split at h
  · cases h
  · split at h
    · cases h
    · rename_i _ id _ _ m _
      split at h
      · injection h with h; subst h; exact ⟨hm, hx⟩
      · rename_i hpc
        split at h
        · cases h
        · rename_i r hr
          have hgate := gate_ok s w md _ r hr
          have hr := hgate.2
          have hk := addModelMaterial_keepW s w md r hr
          have hm1 : MatT (fun i => s.texHeap[i]?) r.1 := by
            unfold addModelMaterial at hr
            split at hr
            · injection hr with hr; subst hr; exact hm
            · split at hr
              · cases hr
              · split at hr
                · cases hr
                · rename_i r' h'
                  injection hr with hr; subst hr
                  exact (addMaterial_dedup _ _ _ _ h' hm).1
          have hx1 : MeshT r.1 := ⟨by rw [hk.2.2.1]; exact hx.func, by rw [hk.2.2.1]; exact hx.inj, by rw [hk.2.2.1, hk.1]; exact hx.lt⟩
          have hx2 := (addMesh_dedup r.1 md.name id m r.2 hx1 (skipped_false hpc).1).1
          obtain ⟨t1, t2⟩ := addMesh_tables r.1 md.name id m r.2
          have hm2 : MatT (fun i => s.texHeap[i]?) (addMesh r.1 md.name id m r.2).1 :=
            ⟨by rw [t1, t2]; exact hm1.len, by rw [t1]; exact hm1.idx, by rw [t1]; exact hm1.distinct⟩
          simp only at h
          split at h
          · injection h with h; subst h; exact ⟨hm2, hx2⟩
          · injection h with h; subst h
            have e := tPart_addInstances (addMesh r.1 md.name id m r.2).1 md.instances
            exact ⟨matT_of_tPart (matT_of_tPart hm2 e) rfl, meshT_of_tPart (meshT_of_tPart hx2 e) rfl⟩

theorem addModels_tables (s : Scene) (w w' : W) (l : List Model) (hm : MatT (fun i => s.texHeap[i]?) w) (hx : MeshT w)
    (h : addModels s w l = .ok w') : MatT (fun i => s.texHeap[i]?) w' ∧ MeshT w' := by
  induction l generalizing w with
  | nil => simp [addModels] at h; subst h; exact ⟨hm, hx⟩
  | cons md r ih =>
    simp only [addModels] at h
    split at h
    · cases h
    · rename_i w1 h1
      obtain ⟨a, b⟩ := addModel_tables s w w1 md hm hx h1
      exact ih w1 a b h

theorem addLights_tables (w : W) (l : List (List Nat)) : tPart (l.foldl addLight w) = tPart w := by
  induction l generalizing w with
  | nil => rfl
  | cons p r ih => simp only [List.foldl_cons]; rw [ih]; rfl

/-- DEDUP CONSISTENCY of the tables, for every scene the writer accepts.
    Materials: tracker entry `k` is material `k`, one entry per material, and no entry is `equal` (the field-wise
    `PolyformMaterial.equal` incl. normal / occlusion textures and texture extensions) to an earlier one — together with
    `addMaterial_dedup` (a material `equal` to a tracked one gets the first such entry's index and adds nothing):
    equal-by-value materials are stored once, distinct entries are pairwise not `equal`.
    Meshes: the mesh table is a partial INJECTION from (mesh id, resolved material index) to mesh indices, all in
    range — together with `addMesh_dedup` (a present key returns its index and adds nothing; a fresh key gets the next
    index) and `scene_dinv.meshIdx` (entry ↦ the mesh written for that key): same (mesh id, material index) ⇒ same glTF
    mesh index, and two models get the same mesh index ONLY IF mesh id and material index agree -/
theorem gltf_dedup_consistent (s : Scene) (w : W) (h : writeScene s = .ok w) :
    MatT (fun i => s.texHeap[i]?) w ∧ MeshT w := by
  unfold writeScene at h
  split at h
  · cases h
  · rename_i w1 h1
    split at h
    · injection h with h; subst h
      unfold addScene at h1
      split at h1
      · cases h1
      · rename_i w0 h0
        injection h1 with h1; subst h1
        obtain ⟨a, b⟩ := addModels_tables s {} w0 s.models ⟨rfl, by simp, by simp⟩ ⟨by simp, by simp, by simp⟩ h0
        have e := addLights_tables w0 s.lights
        exact ⟨matT_of_tPart a e, meshT_of_tPart b e⟩
    · cases h

end C06
end PolyVerif
