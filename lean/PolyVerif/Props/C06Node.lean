/-
  C06 — scene level: node-level dedup facts and `dedupOK`.
-/
import PolyVerif.Props.C06Carry
import PolyVerif.Props.C06Mat

namespace PolyVerif
namespace C06
open Gltf

/-! ### the material of a model, resolved -/

/-- `mat` is the resolved material index of model `md`: none iff the model has no material; otherwise it points at a
    written material that shows the model's material, and the tracker has an entry for that index that is `equal` to it -/
def ModelMat (s : Scene) (w : W) (md : Model) (mat : Option Nat) : Prop :=
  match md.material with
  | none => mat = none
  | some k => ∃ pm idx g e, s.matHeap[k]? = some pm ∧ mat = some idx ∧ w.materials[idx]? = some g ∧ MatShown s w pm g
      ∧ e ∈ w.matIdx ∧ e.2 = idx ∧ PMaterial.equal (thOf s) e.1 pm = true

/-- tables only grow -/
structure DGrow (w w' : W) : Prop where
  meshes : ∃ ms, w'.meshes = w.meshes ++ ms
  meshIdx : ∀ e ∈ w.meshIdx, e ∈ w'.meshIdx
  tgrow : TGrow w w'
  mats : ∃ ms, w'.materials = w.materials ++ ms
  matIdx : ∃ mx, w'.matIdx = w.matIdx ++ mx

theorem DGrow.rfl' (w : W) : DGrow w w := ⟨⟨[], by simp⟩, fun _ h => h, TGrow.rfl' w, ⟨[], by simp⟩, ⟨[], by simp⟩⟩

theorem DGrow.trans' {a b c : W} (h1 : DGrow a b) (h2 : DGrow b c) : DGrow a c := by
  obtain ⟨m1, e1⟩ := h1.meshes; obtain ⟨m2, e2⟩ := h2.meshes
  obtain ⟨n1, f1⟩ := h1.mats; obtain ⟨n2, f2⟩ := h2.mats
  obtain ⟨x1, g1⟩ := h1.matIdx; obtain ⟨x2, g2⟩ := h2.matIdx
  exact ⟨⟨m1 ++ m2, by rw [e2, e1, List.append_assoc]⟩, fun e he => h2.meshIdx e (h1.meshIdx e he), h1.tgrow.trans' h2.tgrow,
    ⟨n1 ++ n2, by rw [f2, f1, List.append_assoc]⟩, ⟨x1 ++ x2, by rw [g2, g1, List.append_assoc]⟩⟩

theorem modelMat_mono {s : Scene} {w w' : W} {md : Model} {mat : Option Nat} (h : ModelMat s w md mat) (g : DGrow w w') :
    ModelMat s w' md mat := by
  unfold ModelMat at h ⊢
  split
  · rename_i hm; rw [hm] at h; exact h
  · rename_i k hm
    rw [hm] at h
    obtain ⟨pm, idx, gm, e, h1, h2, h3, h4, h5, h6, h7⟩ := h
    obtain ⟨ms, hms⟩ := g.mats
    obtain ⟨mx, hmx⟩ := g.matIdx
    exact ⟨pm, idx, gm, e, h1, h2, by rw [hms]; exact getElem?_grow ms h3, matShown_mono h4 g.tgrow,
      by rw [hmx]; exact List.mem_append_left _ h5, h6, h7⟩

theorem addModelMaterial_shown (s : Scene) (w : W) (md : Model) (r : W × Option Nat)
    (h : addModelMaterial s w md = .ok r) (hw : MInv s w) (hT : MatT (thOf s) w) (hec : ExtCongr s) :
    MInv s r.1 ∧ MatT (thOf s) r.1 ∧ TGrow w r.1 ∧ (∃ ms, r.1.materials = w.materials ++ ms)
    ∧ (∃ mx, r.1.matIdx = w.matIdx ++ mx) ∧ ModelMat s r.1 md r.2 := by
  unfold addModelMaterial at h
  split at h
  · rename_i hm
    injection h with h; subst h
    exact ⟨hw, hT, TGrow.rfl' w, ⟨[], by simp⟩, ⟨[], by simp⟩, by unfold ModelMat; rw [hm]⟩
  · rename_i k hm
    split at h
    · cases h
    · rename_i pm hpm
      split at h
      · cases h
      · rename_i r' h'
        injection h with h; subst h
        have hmem : pm ∈ s.matHeap := List.mem_of_getElem? hpm
        obtain ⟨a1, a2, a3, g, a4, a5⟩ := addMaterial_shown s w pm r' h' hw hec hmem
        obtain ⟨b1, b2, b3⟩ := addMaterial_dedup (thOf s) w pm r' h' hT
        have hentry : (∃ mx, r'.1.matIdx = w.matIdx ++ mx) ∧ ∃ e ∈ r'.1.matIdx, e.2 = r'.2 ∧ PMaterial.equal (thOf s) e.1 pm = true := by
          by_cases hex : ∃ e ∈ w.matIdx, PMaterial.equal (thOf s) e.1 pm = true
          · obtain ⟨c1, _, e, c3, c4, _⟩ := b2 hex
            refine ⟨⟨[], by simp [c1]⟩, e, by rw [c1]; exact List.mem_of_getElem? c3, ?_, c4⟩
            exact hT.idx _ e c3
          · have hall : ∀ e ∈ w.matIdx, PMaterial.equal (thOf s) e.1 pm = false := by
              intro e he
              cases hq : PMaterial.equal (thOf s) e.1 pm with
              | false => rfl
              | true => exact absurd ⟨e, he, hq⟩ hex
            obtain ⟨c1, c2, _⟩ := b3 hall
            refine ⟨⟨_, c1⟩, (pm, w.matIdx.length), by rw [c1]; simp, c2.symm, (gltf_equal_equivalence (thOf s)).1 pm⟩
        obtain ⟨hmx, e, he1, he2, he3⟩ := hentry
        refine ⟨a1, b1, a2, a3, hmx, ?_⟩
        unfold ModelMat; rw [hm]
        exact ⟨pm, r'.2, g, e, hpm, rfl, a4, a5, he1, he2, he3⟩

/-! ### node-level dedup facts through the model loop -/

def DCarries (s : Scene) (w : W) (md : Model) (n : GNode) : Prop :=
  ∃ id mi gm mat p, md.mesh = some id ∧ n.mesh = some mi ∧ w.meshes[mi]? = some gm ∧ gm.prims = [p] ∧ p.material = mat
    ∧ ((id, mat), mi) ∈ w.meshIdx ∧ ModelMat s w md mat

theorem dcarries_mono {s : Scene} {w w' : W} {md : Model} {n : GNode} (h : DCarries s w md n) (g : DGrow w w') :
    DCarries s w' md n := by
  obtain ⟨id, mi, gm, mat, p, h1, h2, h3, h4, h5, h6, h7⟩ := h
  obtain ⟨ms, hms⟩ := g.meshes
  exact ⟨id, mi, gm, mat, p, h1, h2, by rw [hms]; exact getElem?_grow ms h3, h4, h5, g.meshIdx _ h6, modelMat_mono h7 g⟩

structure BInv (s : Scene) (w : W) : Prop where
  dinv : DInv s w
  minv : MInv s w
  matT : MatT (thOf s) w
  meshT : MeshT w

theorem tgrow_of_texPart {w w' : W} (e : texPart w' = texPart w) : TGrow w w' := by
  simp only [texPart, Prod.mk.injEq] at e
  exact ⟨[], [], [], by simp [e.1], by simp [e.2.1], by simp [e.2.2.1]⟩

theorem minv_of_parts {s : Scene} {w w' : W} (h : MInv s w) (e : texPart w' = texPart w) (em : w'.matIdx = w.matIdx) : MInv s w' := by
  have g := tgrow_of_texPart e
  have hmat : w'.materials = w.materials := by simp only [texPart, Prod.mk.injEq] at e; exact e.2.2.2.2
  refine ⟨tdata_of_texPart h.tdata e, ?_, by rw [em]; exact h.heap⟩
  intro x hx
  rw [em] at hx
  obtain ⟨gm, h1, h2⟩ := h.shown x hx
  exact ⟨gm, by rw [hmat]; exact h1, matShown_mono h2 g⟩

theorem matT_of_parts {th : Nat → Option PTexture} {w w' : W} (h : MatT th w) (em : w'.matIdx = w.matIdx)
    (ea : w'.materials = w.materials) : MatT th w' :=
  ⟨by rw [em, ea]; exact h.len, by rw [em]; exact h.idx, by rw [em]; exact h.distinct⟩

theorem addModel_dnode (s : Scene) (w w' : W) (md : Model) (hs : SceneOK s) (hec : ExtCongr s) (hmd : md ∈ s.models)
    (hw : BInv s w) (h : addModel s w md = .ok w') :
    BInv s w' ∧ DGrow w w'
    ∧ ((Vis s md = false ∧ w'.nodes = w.nodes) ∨ (Vis s md = true ∧ ∃ n, w'.nodes = w.nodes ++ [n] ∧ DCarries s w' md n)) := by
  have hfull := addModel_carries s w w' md hs hmd hw.dinv h
  have hdinv' := (dinv_addModel s w w' md hs hmd hw.dinv h).1
  unfold addModel at h
  split at h
  · cases h
  · rename_i id hid
    split at h
    · cases h
    · rename_i m hm
      have hwf : MeshWF m := hs.1 m (List.mem_of_getElem? hm)
      have hmo : s.meshOf md = some m := by unfold Scene.meshOf; rw [hid]; exact hm
      split at h
      · rename_i hpc
        injection h with h; subst h
        exact ⟨hw, DGrow.rfl' w, Or.inl ⟨by unfold Vis; rw [hmo]; simp [hpc], rfl⟩⟩
      · rename_i hpc
        have hvis : Vis s md = true := by unfold Vis; rw [hmo]; simpa using hpc
        split at h
        · cases h
        · rename_i r hr
          have hgate := gate_ok s w md _ r hr
          have hr := hgate.2
          have hl := lowEq_addModelMaterial s w md r hr
          have hk := addModelMaterial_keepW s w md r hr
          obtain ⟨m1, t1, g1, ⟨ms1, hms1⟩, ⟨mx1, hmx1⟩, mm1⟩ := addModelMaterial_shown s w md r hr hw.minv hw.matT hec
          have d1 : DInv s r.1 := dinv_keep hw.dinv (inv_congr hw.dinv.inv hl) (ext_of_lowEq hl) hk.2.1 hk.1 hk.2.2.1
          have x1 : MeshT r.1 := ⟨by rw [hk.2.2.1]; exact hw.meshT.func, by rw [hk.2.2.1]; exact hw.meshT.inj,
            by rw [hk.2.2.1, hk.1]; exact hw.meshT.lt⟩
          have G1 : DGrow w r.1 := ⟨⟨[], by simp [hk.1]⟩, by rw [hk.2.2.1]; exact fun _ h => h, g1, ⟨ms1, hms1⟩, ⟨mx1, hmx1⟩⟩
          -- AddMesh
          obtain ⟨d2, _, hmf⟩ := dinv_addMesh s r.1 md.name id m r.2 d1 hm hwf (skipped_false hpc).2 (dupFree_pairwise _ _ hgate.1)
          obtain ⟨x2, xa, xb, xc⟩ := addMesh_dedup r.1 md.name id m r.2 x1 (skipped_false hpc).1
          obtain ⟨ta, tb⟩ := addMesh_tables r.1 md.name id m r.2
          have tp2 := texPart_addMesh r.1 md.name id m r.2
          have m2 : MInv s (addMesh r.1 md.name id m r.2).1 := minv_of_parts m1 tp2 ta
          have t2 : MatT (thOf s) (addMesh r.1 md.name id m r.2).1 := matT_of_parts t1 ta tb
          obtain ⟨_, ms2, hms2⟩ := nodePart_addMesh r.1 md.name id m r.2
          have G2 : DGrow r.1 (addMesh r.1 md.name id m r.2).1 :=
            ⟨⟨ms2, hms2⟩, xc, tgrow_of_texPart tp2, ⟨[], by simp [tb]⟩, ⟨[], by simp [ta]⟩⟩
          have hne := addMesh_some r.1 md.name id m r.2 (skipped_false hpc).1
          simp only at h
          split at h
          · rename_i hnone; exact absurd hnone hne
          · rename_i meshIndex hidx
            injection h with h; subst h
            obtain ⟨gm, hgm, mm, p, idx, _, f2, f3, _, _, _⟩ := hmf meshIndex hidx
            have hentry : ((id, r.2), meshIndex) ∈ (addMesh r.1 md.name id m r.2).1.meshIdx := by
              by_cases hex : ∃ i, ((id, r.2), i) ∈ r.1.meshIdx
              · obtain ⟨i, hi⟩ := hex
                have := xa i hi
                rw [this] at hidx ⊢
                injection hidx with hidx; subst hidx
                exact hi
              · have hno : ∀ i, ((id, r.2), i) ∉ r.1.meshIdx := fun i hi => hex ⟨i, hi⟩
                obtain ⟨c1, c2, _⟩ := xb hno
                rw [c1] at hidx; injection hidx with hidx; subst hidx
                rw [c2]; simp
            -- instances and the node
            have tp3 := texPart_addInstances (addMesh r.1 md.name id m r.2).1 md.instances
            have tq3 := tPart_addInstances (addMesh r.1 md.name id m r.2).1 md.instances
            simp only [tPart, Prod.mk.injEq] at tq3
            obtain ⟨q1, q2, q3, q4⟩ := tq3
            have G3 : DGrow (addMesh r.1 md.name id m r.2).1 (addInstances (addMesh r.1 md.name id m r.2).1 md.instances).1 :=
              ⟨⟨[], by simp [q4]⟩, by rw [q3]; exact fun _ h => h, tgrow_of_texPart tp3, ⟨[], by simp [q2]⟩, ⟨[], by simp [q1]⟩⟩
            have m3 : MInv s (addInstances (addMesh r.1 md.name id m r.2).1 md.instances).1 := minv_of_parts m2 tp3 q1
            have t3 : MatT (thOf s) (addInstances (addMesh r.1 md.name id m r.2).1 md.instances).1 := matT_of_parts t2 q1 q2
            have x3 : MeshT (addInstances (addMesh r.1 md.name id m r.2).1 md.instances).1 :=
              ⟨by rw [q3]; exact x2.func, by rw [q3]; exact x2.inj, by rw [q3, q4]; exact x2.lt⟩
            have Gf : DGrow (addInstances (addMesh r.1 md.name id m r.2).1 md.instances).1
                { (addInstances (addMesh r.1 md.name id m r.2).1 md.instances).1 with
                  nodes := (addInstances (addMesh r.1 md.name id m r.2).1 md.instances).1.nodes ++ [modelNode md meshIndex (addInstances (addMesh r.1 md.name id m r.2).1 md.instances).2],
                  scene := (addInstances (addMesh r.1 md.name id m r.2).1 md.instances).1.scene ++ [(addMesh r.1 md.name id m r.2).1.nodes.length] } :=
              ⟨⟨[], by simp⟩, fun _ h => h, ⟨[], [], [], by simp, by simp, by simp⟩, ⟨[], by simp⟩, ⟨[], by simp⟩⟩
            have Gall := G1.trans' (G2.trans' (G3.trans' Gf))
            refine ⟨⟨hdinv', minv_of_parts m3 rfl rfl, matT_of_parts t3 rfl rfl, ⟨x3.func, x3.inj, x3.lt⟩⟩, Gall, ?_⟩
            rcases hfull.2.2.2 with ⟨hv, _, _⟩ | ⟨_, n, hn, _, _⟩
            · rw [hvis] at hv; cases hv
            · refine Or.inr ⟨hvis, modelNode md meshIndex (addInstances (addMesh r.1 md.name id m r.2).1 md.instances).2, ?_, ?_⟩
              · obtain ⟨np3, _⟩ := nodePart_addInstances (addMesh r.1 md.name id m r.2).1 md.instances
                obtain ⟨np2, _⟩ := nodePart_addMesh r.1 md.name id m r.2
                simp only [nodePart, Prod.mk.injEq] at np2 np3
                simp only [np3.1, np2.1, hk.2.2.2.1]
              · refine dcarries_mono ?_ (G3.trans' Gf)
                exact ⟨id, meshIndex, gm, r.2, p, hid, rfl, hgm, f2, f3, hentry, modelMat_mono mm1 G2⟩

theorem addModels_dnode (s : Scene) (hs : SceneOK s) (hec : ExtCongr s) (l : List Model) :
    ∀ (w w' : W) (done : List Model), BInv s w → Zip (DCarries s w) (done.filter (Vis s)) w.nodes → (∀ md ∈ l, md ∈ s.models) →
      addModels s w l = .ok w' → BInv s w' ∧ Zip (DCarries s w') ((done ++ l).filter (Vis s)) w'.nodes := by
  induction l with
  | nil => intro w w' done hb hz _ h; simp [addModels] at h; subst h; simpa using ⟨hb, hz⟩
  | cons md r ih =>
    intro w w' done hb hz hl h
    simp only [addModels] at h
    split at h
    · cases h
    · rename_i w1 h1
      obtain ⟨hb1, g, hcase⟩ := addModel_dnode s w w1 md hs hec (hl md (by simp)) hb h1
      have hz1 : Zip (DCarries s w1) ((done ++ [md]).filter (Vis s)) w1.nodes := by
        rcases hcase with ⟨hv, hno⟩ | ⟨hv, n, hno, hc⟩
        · rw [List.filter_append, hno]
          simp only [List.filter_cons, hv, List.filter_nil, Bool.false_eq_true, if_false, List.append_nil]
          exact zip_imp (fun a b hab => dcarries_mono hab g) hz
        · rw [List.filter_append, hno]
          simp only [List.filter_cons, hv, List.filter_nil, if_true]
          exact zip_snoc (zip_imp (fun a b hab => dcarries_mono hab g) hz) hc
      have := ih w1 w' (done ++ [md]) hb1 hz1 (fun x hx => hl x (by simp [hx])) h
      simpa [List.append_assoc] using this

theorem binv_addLights (s : Scene) (ls : List (List Nat)) : ∀ (w : W), BInv s w →
    BInv s (ls.foldl addLight w) ∧ DGrow w (ls.foldl addLight w) := by
  induction ls with
  | nil => intro w hw; exact ⟨hw, DGrow.rfl' w⟩
  | cons l r ih =>
    intro w hw
    have h1 : BInv s (addLight w l) :=
      ⟨dinv_addLights s w [l] hw.dinv, minv_of_parts hw.minv rfl rfl, matT_of_parts hw.matT rfl rfl,
       ⟨hw.meshT.func, hw.meshT.inj, hw.meshT.lt⟩⟩
    have g1 : DGrow w (addLight w l) := ⟨⟨[], by simp [addLight]⟩, fun _ h => h, ⟨[], [], [], by simp [addLight], by simp [addLight], by simp [addLight]⟩,
      ⟨[], by simp [addLight]⟩, ⟨[], by simp [addLight]⟩⟩
    obtain ⟨h2, g2⟩ := ih (addLight w l) h1
    exact ⟨h2, g1.trans' g2⟩

/-! ### (4) node-level statements and `dedupOK` -/

theorem matT_unique {th : Nat → Option PTexture} {w : W} (hT : MatT th w) {e1 e2 : PMaterial × Nat} (h1 : e1 ∈ w.matIdx)
    (h2 : e2 ∈ w.matIdx) (heq : PMaterial.equal th e1.1 e2.1 = true) : e1.2 = e2.2 := by
  obtain ⟨i, hi⟩ := List.mem_iff_getElem?.mp h1
  obtain ⟨j, hj⟩ := List.mem_iff_getElem?.mp h2
  have ei := hT.idx i e1 hi
  have ej := hT.idx j e2 hj
  obtain ⟨hil, hie⟩ := List.getElem?_eq_some_iff.mp hi
  obtain ⟨hjl, hje⟩ := List.getElem?_eq_some_iff.mp hj
  have hp := List.pairwise_iff_getElem.mp hT.distinct
  rcases Nat.lt_trichotomy i j with hlt | heq' | hgt
  · have := hp i j hil hjl hlt
    rw [hie, hje, heq] at this; cases this
  · rw [ei, ej, heq']
  · have := hp j i hjl hil hgt
    rw [hie, hje, (gltf_equal_equivalence th).2.1 _ _ heq] at this; cases this

theorem imp_bool {c z : Bool} (h : c = true → z = true) : (!c || z) = true := by
  cases c <;> simp_all

theorem matIdxOf_of (w : W) (n : GNode) (mi : Nat) (gm : GMesh) (p : Prim) (h1 : n.mesh = some mi)
    (h2 : w.meshes[mi]? = some gm) (h3 : gm.prims = [p]) : w.doc.matIdxOf n = p.material := by
  unfold Doc.matIdxOf
  have h2' : w.doc.meshes[mi]? = some gm := h2
  simp only [h1, h2', h3]

/-- DEDUP, the oracle predicate, for every well-formed scene the writer accepts: every model's primitive references a
    material that SHOWS the model's material (or none iff it has none); same mesh pointer + same material index ⇒ same
    glTF mesh; same glTF mesh ⇒ same mesh data; same material pointer, or `equal` materials ⇒ same material index; no
    duplicates in `textures` / `images` / `samplers` -/
theorem gltf_dedup_ok (s : Scene) (w : W) (hs : SceneOK s) (hec : ExtCongr s) (h : writeScene s = .ok w) :
    dedupOK s w.doc = true := by
  unfold writeScene at h
  split at h
  · cases h
  · rename_i w1 h1
    split at h
    · injection h with h; subst h
      unfold addScene at h1
      split at h1
      · cases h1
      · rename_i w0 h0
        injection h1 with h1; subst h1
        have hb0 : BInv s {} := ⟨⟨inv_empty, by simp, by simp, by simp⟩,
          ⟨⟨rfl, rfl, rfl, by simp⟩, by simp, by simp⟩, ⟨rfl, by simp, by simp⟩, ⟨by simp, by simp, by simp⟩⟩
        obtain ⟨hb, hz⟩ := addModels_dnode s hs hec s.models {} w0 [] hb0 trivial (fun _ h => h) h0
        simp only [List.nil_append] at hz
        obtain ⟨hbf, gf⟩ := binv_addLights s s.lights w0 hb
        obtain ⟨ln, e1, _⟩ := addLights_carries s.lights w0 (by
          have := (addModels_carries s hs s.models {} w0 [] ⟨inv_empty, by simp, by simp, by simp⟩ ⟨trivial, rfl, rfl, rfl⟩ (fun _ h => h) h0).1
          exact this.scene)
        generalize hW : s.lights.foldl addLight w0 = W at hbf gf e1
        have hzW : Zip (DCarries s W) (s.models.filter (Vis s)) w0.nodes := zip_imp (fun a b hab => dcarries_mono hab gf) hz
        have hlen : s.visible.length = w0.nodes.length := by rw [visible_eq]; exact zip_length hzW
        have htake : W.doc.nodes.take s.visible.length = w0.nodes := by
          show W.nodes.take _ = _
          rw [e1, hlen, List.take_left' rfl]
        have hmem : ∀ p ∈ s.visible.zip (W.doc.nodes.take s.visible.length), DCarries s W p.1 p.2 := by
          rw [htake, visible_eq]; exact zip_mem_zip hzW
        unfold dedupOK
        simp only [Bool.and_eq_true, List.all_eq_true]
        refine ⟨⟨⟨⟨?_, ?_⟩, hbf.minv.tdata.texNodup⟩, hbf.minv.tdata.imgNodup⟩, hbf.minv.tdata.smpNodup⟩
        · intro p hp
          obtain ⟨id, mi, gm, mat, pr, a1, a2, a3, a4, a5, a6, a7⟩ := hmem p hp
          have hmi := matIdxOf_of W p.2 mi gm pr a2 a3 a4
          unfold ModelMat at a7
          split
          · rename_i hm; rw [hm] at a7; simp only at a7; rw [hmi, a5, a7]; rfl
          · rename_i k hm
            rw [hm] at a7; simp only at a7
            obtain ⟨pm, idx, g, e, b1, b2, b3, b4, _, _, _⟩ := a7
            have hmo : matOf s p.1 = some pm := by unfold matOf; rw [hm]; exact b1
            have hb3 : W.doc.materials[idx]? = some g := b3
            simp only [hmo, hmi, a5, b2, Option.bind_some, hb3]
            exact matCarried_of_shown s W pm g b4
        · intro p hp r hr
          obtain ⟨id, mi, gm, mat, pr, a1, a2, a3, a4, a5, a6, a7⟩ := hmem p hp
          obtain ⟨id', mi', gm', mat', pr', c1, c2, c3, c4, c5, c6, c7⟩ := hmem r hr
          have hmi := matIdxOf_of W p.2 mi gm pr a2 a3 a4
          have hmi' := matIdxOf_of W r.2 mi' gm' pr' c2 c3 c4
          rw [a5] at hmi; rw [c5] at hmi'
          -- same index for `equal` materials
          have hsame : ∀ a b, matOf s p.1 = some a → matOf s r.1 = some b → PMaterial.equal (thOf s) a b = true → mat = mat' := by
            intro a b ha hb hab
            unfold matOf at ha hb
            unfold ModelMat at a7 c7
            cases hpm : p.1.material with
            | none => rw [hpm] at ha; cases ha
            | some k =>
              cases hrm : r.1.material with
              | none => rw [hrm] at hb; cases hb
              | some k' =>
                rw [hpm] at a7 ha; rw [hrm] at c7 hb
                simp only at a7 c7 ha hb
                obtain ⟨pm, idx, g, e, b1, b2, _, _, b5, b6, b7⟩ := a7
                obtain ⟨pm', idx', g', e', d1, d2, _, _, d5, d6, d7⟩ := c7
                rw [ha] at b1; injection b1 with b1; subst b1
                rw [hb] at d1; injection d1 with d1; subst d1
                have eqv := gltf_equal_equivalence (thOf s)
                have hee : PMaterial.equal (thOf s) e.1 e'.1 = true :=
                  eqv.2.2 _ _ _ (eqv.2.2 _ _ _ b7 hab) (eqv.2.1 _ _ d7)
                have := matT_unique hbf.matT b5 d5 hee
                rw [b2, d2, ← b6, ← d6, this]
          refine ⟨⟨⟨?_, ?_⟩, ?_⟩, ?_⟩
          · apply imp_bool
            intro hc
            simp only [Bool.and_eq_true, beq_iff_eq] at hc
            rw [hmi, hmi'] at hc
            rw [a1, c1] at hc
            obtain ⟨h1, h2⟩ := hc
            injection h1 with h1; subst h1; subst h2
            have := hbf.meshT.func _ _ _ a6 c6
            simp [a2, c2, this]
          · apply imp_bool
            intro hc
            simp only [beq_iff_eq] at hc
            rw [a2, c2] at hc; injection hc with hc; subst hc
            have := hbf.meshT.inj _ _ _ a6 c6
            simp only [Prod.mk.injEq] at this
            have hidd : p.1.mesh = r.1.mesh := by rw [a1, c1, this.1]
            simp [meshObs, Scene.meshOf, hidd]
          · apply imp_bool
            intro hc
            simp only [Bool.and_eq_true, beq_iff_eq] at hc
            rw [hmi, hmi']
            cases hpm : p.1.material with
            | none => rw [hpm] at hc; simp at hc
            | some k =>
              have hr' : r.1.material = some k := by rw [← hc.2, hpm]
              unfold ModelMat at a7
              rw [hpm] at a7; simp only at a7
              obtain ⟨pm, _, _, _, b1, _⟩ := a7
              have hmo : matOf s p.1 = some pm := by unfold matOf; rw [hpm]; exact b1
              have hmo' : matOf s r.1 = some pm := by unfold matOf; rw [hr']; exact b1
              simp [hsame pm pm hmo hmo' ((gltf_equal_equivalence (thOf s)).1 pm)]
          · split
            · rename_i a b ha hb
              apply imp_bool
              intro hab
              rw [hmi, hmi']
              simp [hsame a b ha hb hab]
            · rfl
    · cases h

end C06
end PolyVerif
