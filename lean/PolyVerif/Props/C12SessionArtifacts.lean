/-
  C12 — artifacts of sessions that load a saved graph into the RUNNING application.

  `Props/C12Session.session_after_last_load` + `load_saved`: such a session ends in `run E g' post`, `g'` the
  (well-formed) graph the last load left.  Here the simulation of `Lemmas/GraphSim` is started from such a graph instead
  of the empty one: right after `ApplyAppSchema` the runtime consists of the freshly built node objects of the file
  (`absGraph`, numbered by list position: nothing processed yet — every object is new, whatever the application held
  before), followed by the never-reused slots of the nodes the rest of the session will create.
-/
import PolyVerif.Props.C12Artifacts
import PolyVerif.Props.C12Session

namespace PolyVerif
namespace C12
open GraphIO

variable {V J W : Type}

/-- slot table right after a load: the node at list position `i` sits in slot `k + i` -/
def slotsFrom : List (GraphIO.Node V) → Nat → List (Id × Nat)
  | [], _ => []
  | n :: r, k => (n.id, k) :: slotsFrom r (k + 1)

/-- the session state right after a load that left the graph `g` -/
def Sim.ofGraph (g : Graph V) : Sim V := { g := g, slots := slotsFrom g.nodes 0, next := g.nodes.length }

/-- the runtime right after a load: the new node objects of the file, then the slots of the nodes still to be created -/
def loadedRt (P : Procs V W) (E : Env V J) (g : Graph V) (tys : List TyName) : Nodes.Graph W := fun k =>
  if k < g.nodes.length then absGraph P E g k else preGraph P E tys (k - g.nodes.length)

theorem aget_slotsFrom (l : List (GraphIO.Node V)) (k : Nat) (id : Id) (h : ∃ n ∈ l, n.id = id) :
    aget (slotsFrom l k) id = some (k + l.findIdx (fun n => n.id = id)) := by
  induction l generalizing k with
  | nil => obtain ⟨n, hn, _⟩ := h; cases hn
  | cons a r ih =>
    simp only [slotsFrom, aget, List.findIdx_cons]
    by_cases ha : a.id = id
    · simp [ha]
    · have hr : ∃ n ∈ r, n.id = id := by
        obtain ⟨n, hn, hid⟩ := h
        rcases List.mem_cons.mp hn with rfl | hn'
        · exact absurd hid ha
        · exact ⟨n, hn', hid⟩
      simp only [ha, if_false, decide_false, cond_false, ih (k + 1) hr]
      congr 1; omega

theorem ofGraph_sigma (g : Graph V) {id : Id} (h : ∃ n ∈ g.nodes, n.id = id) : (Sim.ofGraph g).σ id = idxOf g id := by
  simp [Sim.σ, Sim.ofGraph, aget_slotsFrom g.nodes 0 id h, idxOf]

theorem idxOf_lt (g : Graph V) {id : Id} (h : ∃ n ∈ g.nodes, n.id = id) : idxOf g id < g.nodes.length := by
  obtain ⟨n, hn, hid⟩ := h
  exact List.findIdx_lt_length_of_exists ⟨n, hn, by simp [hid]⟩

/-- the simulation invariant holds right after a load -/
theorem simInv_loaded (P : Procs V W) (E : Env V J) {g : Graph V} (hw : WF E g) (tys : List TyName) :
    SimInv P E (Sim.ofGraph g) (loadedRt P E g tys) tys := by
  have hσ : ∀ n ∈ g.nodes, (Sim.ofGraph g).σ n.id = idxOf g n.id := fun n hn => ofGraph_sigma g ⟨n, hn, rfl⟩
  refine ⟨hw, ?_, ?_, ?_, ?_⟩
  · intro n hn
    have hlt := idxOf_lt g ⟨n, hn, rfl⟩
    have hcong : absNode P E (Sim.ofGraph g).σ n = absNode P E (idxOf g) n := by
      apply absNode_congr
      intro T hT r hr
      exact ofGraph_sigma g (ref_live (hw.nodes n hn) hT hr)
    rw [hσ n hn, hcong]
    simp only [loadedRt, hlt, if_true]
    rw [absGraph_at hw.nodup hn]
    exact looseEq.refl _
  · intro n hn
    refine ⟨idxOf g n.id, ?_, idxOf_lt g ⟨n, hn, rfl⟩⟩
    simpa [Sim.ofGraph, idxOf] using aget_slotsFrom g.nodes 0 n.id ⟨n, hn, rfl⟩
  · intro n hn m hm h
    rw [hσ n hn, hσ m hm] at h
    have h1 := findIdx_of_mem hw.nodup hn
    have h2 := findIdx_of_mem hw.nodup hm
    simp only [idxOf] at h
    rw [h, h2] at h1
    exact (congrArg (·.id) (Option.some.inj h1)).symm
  · intro j
    have : ¬ (g.nodes.length + j < g.nodes.length) := by omega
    simp only [Sim.ofGraph, loadedRt, this, if_false, Nat.add_sub_cancel_left, preGraph]
    exact looseEq.refl _

/-- a ranking of the loaded graph ranks the runtime right after the load (the slots of future nodes are unwired) -/
theorem loadedRt_ranked (P : Procs V W) (E : Env V J) (g : Graph V) (tys : List TyName) {F : Nat} {rank : Nat → Nat}
    (hr : Nodes.Ranked rank F (absGraph P E g)) : Nodes.Ranked rank F (loadedRt P E g tys) := by
  have hfresh := preGraph_fresh P E tys
  refine ⟨hr.1, ?_⟩
  intro i s hs d hd
  simp only [loadedRt] at hs
  split at hs
  · exact hr.2 i s hs d hd
  · rw [(hfresh _ s hs).1] at hd; cases hd

/-- the runtime right after a load is a fresh one: acyclic if the loaded graph is, nothing processed -/
theorem loadedRt_init (P : Procs V W) (E : Env V J) (g : Graph V) (tys : List TyName) {F : Nat}
    (hac : Nodes.Acyclic F (absGraph P E g)) : Nodes.Init F (loadedRt P E g tys) := by
  obtain ⟨rank, hr⟩ := hac
  refine ⟨⟨rank, loadedRt_ranked P E g tys hr⟩, ?_⟩
  intro i s hs
  simp only [loadedRt] at hs
  split at hs
  · exact absGraph_unprocessed P E g i s hs
  · exact (preGraph_fresh P E tys _ s hs).2

/-- **`edit_simulation` for the part of a session that follows a load.**  `g` = the well-formed graph the load left
    (`load_saved`: the saved graph itself).  For every continuation `evs` (editing operations, failing ones included, and
    reads of arbitrary nodes): the runtime reached from the freshly loaded one by the C11 calls of the continuation HOLDS
    the edited graph `run E g (editsOf evs)` under the session's slot numbering; that graph is well-formed. -/
theorem edit_simulation_after_load {E : Env V J} (hE : EnvOK E) (P : Procs V W) {F : Nat} {g : Graph V} (hw : WF E g)
    (evs : List (Ev J)) :
    let r := simRun P E (Sim.ofGraph g) evs
    Holds P E r.1.σ (Nodes.run F (loadedRt P E g (createdTys P E (Sim.ofGraph g) evs)) r.2).1 r.1.g ∧
      r.1.g = run E g (editsOf evs) ∧ WF E r.1.g ∧
      (∀ n ∈ r.1.g.nodes, ∀ m ∈ r.1.g.nodes, r.1.σ n.id = r.1.σ m.id → n.id = m.id) := by
  have hI := sim_run hE (F := F) evs (simInv_loaded P E hw (createdTys P E (Sim.ofGraph g) evs))
  exact ⟨hI.holds, session_graph P E _ evs, hI.wf, hI.inj⟩

/-- the edited graph of "the continuation `evs` after the load" IS the state of the whole session with that load
    (`Props/C12Session`): whatever preceded the load (`pre`: edits, earlier loads) enters only through `loaded` -/
theorem session_graph_after_load (P : Procs V W) (E : Env V J) (g0 : Graph V) (pre : List (SEv J)) (s : Schema J)
    (evs : List (Ev J)) :
    (simRun P E (Sim.ofGraph (loaded E (runEv E g0 pre) s)) evs).1.g =
      runEv E g0 (pre ++ SEv.load s :: edits (editsOf evs)) := by
  rw [session_after_last_load]
  exact session_graph P E _ evs

/-- **Artifacts after a mid-session load.**  The application loaded a graph `g` (well-formed, acyclic — `hac`), the
    session went on (`evs`: edits and reads; it stays acyclic — `hv`); the final graph is saved and loaded into a FRESH
    application: reading any node there returns exactly what reading it returns in the application that was loaded into,
    edited and read. -/
theorem reload_same_artifacts_after_load {E : Env V J} (hE : EnvOK E) {cmp : Name → Name → Bool} (P : Procs V W)
    {F : Nat} {g : Graph V} (hw : WF E g) (hac : Nodes.Acyclic F (absGraph P E g)) (evs : List (Ev J))
    (hv : Nodes.Valid F (loadedRt P E g (createdTys P E (Sim.ofGraph g) evs)) (simRun P E (Sim.ofGraph g) evs).2)
    (hc : ∀ n ∈ (simRun P E (Sim.ofGraph g) evs).1.g.nodes, ∀ T, E.types n.ty = some T → CmpOK cmp T n)
    (hf : FilePayloadLast E (simRun P E (Sim.ofGraph g) evs).1.g)
    (n : GraphIO.Node V) (hn : n ∈ (simRun P E (Sim.ofGraph g) evs).1.g.nodes) :
    ∃ g', decode E Hdr.empty (encode E cmp (simRun P E (Sim.ofGraph g) evs).1.g) = .ok g' ∧
      Nodes.val (Nodes.step F (absGraph P E g') (.read (idxOf g' n.id))).1 (idxOf g' n.id) =
      Nodes.val (Nodes.step F (Nodes.run F (loadedRt P E g (createdTys P E (Sim.ofGraph g) evs))
          (simRun P E (Sim.ofGraph g) evs).2).1 (.read ((simRun P E (Sim.ofGraph g) evs).1.σ n.id))).1
        ((simRun P E (Sim.ofGraph g) evs).1.σ n.id) := by
  obtain ⟨hH, _, hw', _⟩ := edit_simulation_after_load hE P (F := F) hw evs
  obtain ⟨g', hd, _, h1, h2⟩ :=
    reload_same_artifacts hE hw' hc hf P _ (loadedRt_init P E g _ hac) _ hv _ hH n hn
  exact ⟨g', hd, h1.trans h2.symm⟩

/-! ### an instance: the running application loads `aGraph` (title 5, parts 6, 7), the preview is read, a part is
      changed, a node is created, the preview is read again -/

theorem aEnv_types_aux {ty : TyName} {T : NodeType} (hT : aEnv.types ty = some T) :
    (ty = "P" ∧ T = { out := 1, scal := [], arrs := [], param := some .value }) ∨
    (ty = "T" ∧ T = { out := artTy, scal := [("Title".toList, 1)], arrs := [("Parts".toList, 1)], param := none }) := by
  simp only [aEnv] at hT
  split at hT
  · rename_i h; cases hT; exact Or.inl ⟨h, rfl⟩
  · split at hT
    · rename_i h; cases hT; exact Or.inr ⟨h, rfl⟩
    · cases hT

theorem aEnv_ok : EnvOK aEnv := by
  refine ⟨?_, ?_, ?_, ?_, ?_, ?_, ?_, ?_⟩
  · intro ty T hT; rcases aEnv_types_aux hT with ⟨_, rfl⟩ | ⟨_, rfl⟩ <;> simp
  · intro ty T hT; rcases aEnv_types_aux hT with ⟨_, rfl⟩ | ⟨_, rfl⟩ <;> simp
  · intro ty T hT; rcases aEnv_types_aux hT with ⟨_, rfl⟩ | ⟨_, rfl⟩ <;> simp <;> decide
  · intro ty T hT; rcases aEnv_types_aux hT with ⟨_, rfl⟩ | ⟨_, rfl⟩ <;> simp <;> decide
  · intro ty T hT; rcases aEnv_types_aux hT with ⟨_, rfl⟩ | ⟨_, rfl⟩ <;> simp
  · intro ty j v h; simp only [aEnv, Option.some.injEq] at h; subst h; rfl
  · intro ty v h; rfl
  · intro ty T hT _; rfl

def bSession : List (Ev Nat) :=
  [.read "Node-0", .edit (.setValue "Node-2" 9), .edit (.create "P"), .edit (.connect "Node-0" "Out" "Node-0" "Nope".toList),
   .read "Node-0"]

theorem bSession_ops : (simRun aProcs aEnv (Sim.ofGraph aGraph) bSession).2 = [.read 0, .setParam 2 [9], .read 0] := by
  rfl

/-- the hypotheses of `reload_same_artifacts_after_load` hold for this continuation of the loaded `aGraph`, the new node
    gets id `Node-4` in slot 4, and the fresh application reads title and parts in order with the changed part -/
example :
    WF aEnv aGraph ∧ Nodes.Acyclic 2 (absGraph aProcs aEnv aGraph) ∧
    Nodes.Valid 2 (loadedRt aProcs aEnv aGraph (createdTys aProcs aEnv (Sim.ofGraph aGraph) bSession))
      (simRun aProcs aEnv (Sim.ofGraph aGraph) bSession).2 ∧
    FilePayloadLast aEnv (simRun aProcs aEnv (Sim.ofGraph aGraph) bSession).1.g ∧
    (simRun aProcs aEnv (Sim.ofGraph aGraph) bSession).1.g.nodes.map (·.id) = ["Node-0", "Node-1", "Node-2", "Node-3", "Node-4"] ∧
    (simRun aProcs aEnv (Sim.ofGraph aGraph) bSession).1.σ "Node-4" = 4 ∧
    Nodes.val (Nodes.step 2 (absGraph aProcs aEnv (simRun aProcs aEnv (Sim.ofGraph aGraph) bSession).1.g) (.read 0)).1 0 = [5, 9, 7] := by
  refine ⟨edit_history_wf aEnv_ok _ _, ⟨aRank, aGraph_ranked⟩, ?_, by decide, by decide, by decide, by decide⟩
  rw [bSession_ops]
  apply C11.valid_fixed_numbering aRank _ (loadedRt_ranked _ _ _ _ aGraph_ranked)
  intro op hop
  simp only [List.mem_cons, List.not_mem_nil, or_false] at hop
  rcases hop with rfl | rfl | rfl <;> simp [Nodes.opRanked]

end C12
end PolyVerif
