/-
  C07 (round 2) — "positions are rounded to float32": a SPECIFICATION of `q32` (Go's `float32(x)` on a float64),
  previously an opaque, only-corresponded function.

  Subject: `B32.q32spec` (Model/Binary32.lean): round to nearest, ties to the even pattern, overflow to infinity, in
  exact integer arithmetic on the float64 bit pattern — the definition the C07 driver runs for `c07.q32spec`
  (compared with `math.Float32bits(float32(x))` on ties of both parities, the subnormal range, the overflow
  threshold, ±0, huge/tiny values) and for `c07.holds.q32_stored` (every position word `stl.WriteMesh` stored).
  Here: its meaning over ℝ against IEEE 754 binary32 (`B32.Ieee.binary32`, written independently), and C07's
  position clause restated with it.  Lemmas: Lemmas/Binary32.lean.
-/
import PolyVerif.Props.C07
import PolyVerif.Lemmas.Binary32

set_option exponentiation.threshold 1100

namespace PolyVerif
namespace C07
open Stl B32

/-- DECODER CLASSES: the IEEE 754 binary32 datum of a pattern whose exponent field is not all ones is the finite
    number `± num/2^150` (`num` = `m·2` subnormal, `(2^23+m)·2^e` normal, 0 for ±0) — the reading of a stored word
    that the statements below use -/
theorem binary32_finite (w : BitVec 32) (he : expOf w.toNat ≠ 255) :
    Ieee.binary32 w = .finite ((if w.msb then -1 else 1) * val (w.toNat % 2147483648)) := by
  have hlt := w.isLt
  have ef : (w.extractLsb' 23 8).toNat = expOf w.toNat := by
    rw [BitVec.extractLsb'_toNat, Nat.shiftRight_eq_div_pow]; rfl
  have mf : (w.extractLsb' 0 23).toNat = manOf w.toNat := by
    rw [BitVec.extractLsb'_toNat, Nat.shiftRight_eq_div_pow]; simp [manOf]
  have e1 : expOf (w.toNat % 2147483648) = expOf w.toNat := by unfold expOf; omega
  have e2 : manOf (w.toNat % 2147483648) = manOf w.toNat := by unfold manOf; omega
  unfold Ieee.binary32
  simp only [ef, mf, if_neg he]
  have z23 : (2 : ℝ) ^ (-23 : ℤ) = 1 / 2 ^ 23 := by
    rw [show ((-23 : ℤ)) = -((23 : ℕ) : ℤ) by norm_num, zpow_neg, zpow_natCast]; norm_num
  have z126 : (2 : ℝ) ^ (-126 : ℤ) = 1 / 2 ^ 126 := by
    rw [show ((-126 : ℤ)) = -((126 : ℕ) : ℤ) by norm_num, zpow_neg, zpow_natCast]; norm_num
  unfold val num
  rw [e1, e2]
  by_cases h0 : expOf w.toNat = 0
  · rw [if_neg (show ¬ 1 ≤ expOf w.toNat by omega), if_pos h0, z23, z126]
    congr 1
    cases w.msb <;> · simp only [Bool.toNat_true, Bool.toNat_false, pow_one, pow_zero, if_true]; push_cast; ring
  · rw [if_pos (show 1 ≤ expOf w.toNat by omega), if_neg h0, z23,
      zpow_sub₀ (by norm_num : (2 : ℝ) ≠ 0), zpow_natCast, show ((127 : ℤ)) = ((127 : ℕ) : ℤ) by norm_num, zpow_natCast]
    congr 1
    cases w.msb <;>
    · simp only [Bool.toNat_true, Bool.toNat_false, pow_one, pow_zero, if_true]; push_cast; field_simp; ring

/-- exactness, steps: every finite binary32 magnitude is a 24-bit dyadic `s·2^k/2^150`; consecutive patterns are one
    unit in the last place apart, the magnitude is strictly increasing in the pattern -/
theorem binary32_exact_steps :
    (∀ h, expOf h ≠ 255 → ∃ s k : Nat, s < 2 ^ 24 ∧ 1 ≤ k ∧ k ≤ 254 ∧ val h = (s : ℝ) * 2 ^ k / 2 ^ 150) ∧
    (∀ h, h + 1 < 2147483648 → val (h + 1) = val h + 2 ^ ulpExp h / 2 ^ 150) ∧
    (∀ a b, a < b → b < 2147483648 → val a < val b) := by
  refine ⟨fun h he => ?_, val_succ, fun a b => val_strictMono⟩
  obtain ⟨s, k, hs, h1, h2, e⟩ := num_dyadic h he
  exact ⟨s, k, hs, h1, h2, by unfold val; rw [e]; push_cast; ring⟩

/-- the sign contribution of a float64 pattern to the float32 pattern -/
def signBit (b : Nat) : Nat := if b / 9223372036854775808 % 2 = 1 then 2147483648 else 0

theorem f64Dyadic_pos (b : Nat) : 0 < (f64Dyadic b).2.2 := by
  unfold f64Dyadic
  simp only []
  split_ifs <;> simp

/-- THE SPECIFICATION, finite inputs.  For every float64 pattern `b` whose exponent field is not all ones, with
    `|x| = n/d` its exact dyadic value (`f64Dyadic`):
    * below the overflow threshold `max finite + half ulp = (2^25−1)·2^103` (explicit guard) the result is the sign bit
      plus a FINITE pattern `h`, one of the two patterns `h0`, `h0+1` bracketing `|x|`
      (`val h0 ≤ |x| < val h0 + ulp`), at distance at most HALF A UNIT IN THE LAST PLACE, and — in the normal range
      `2^−126 ≤ |x|` — at relative distance at most `2^−24`;
    * at or above the threshold it is the signed infinity pattern. -/
theorem q32spec_finite (b : Nat) (hb : b / 4503599627370496 % 2048 ≠ 2047) :
    let n := (f64Dyadic b).2.1
    let d := (f64Dyadic b).2.2
    let x : ℝ := (n : ℝ) / d
    (n * 2 ^ 150 < thrNum * d →
      ∃ h e h0, q32spec b = signBit b + h ∧ h < infPat ∧ (h = h0 ∨ h = h0 + 1) ∧ ulpExp h0 = e ∧
        val h0 ≤ x ∧ x < val h0 + 2 ^ e / 2 ^ 150 ∧ |val h - x| ≤ 2 ^ e / 2 ^ 151 ∧
        (2 ^ 24 * d ≤ n * 2 ^ 150 → |val h - x| ≤ x / 2 ^ 24)) ∧
    (thrNum * d ≤ n * 2 ^ 150 → q32spec b = signBit b + infPat) := by
  intro n d x
  have hd : 0 < d := f64Dyadic_pos b
  have hq : q32spec b = signBit b + roundMag n d := by
    unfold q32spec signBit
    simp only [if_neg hb]
    rfl
  constructor
  · intro hx
    have hfl : n * 2 ^ 150 / d < 2 ^ 278 := by
      rw [Nat.div_lt_iff_lt_mul hd]
      exact lt_of_lt_of_le hx (Nat.mul_le_mul_right d thr_le)
    obtain ⟨e, h0, hB⟩ := roundMag_bracket n d hd hfl
    obtain ⟨r1, r2, r3⟩ := bracket_real hd hB
    refine ⟨roundMag n d, e, h0, hq, roundMag_finite n d hd hx, ?_, hB.ulp, r1, r2, r3,
      fun hn => bracket_relative hd hB hn⟩
    rcases hB.choice with ⟨eR, _, _⟩ | ⟨eR, _, _⟩
    · exact Or.inl eR
    · exact Or.inr eR
  · intro hx
    rw [hq, roundMag_overflow n d hd hx]

/-- infinities and NaN: `float32(±Inf) = ±Inf`, every NaN gives a (canonical, quiet) NaN -/
theorem q32spec_inf_nan (b : Nat) (hb : b / 4503599627370496 % 2048 = 2047) :
    q32spec b = if b % 4503599627370496 = 0 then signBit b + infPat else nanPat := by
  unfold q32spec signBit
  simp only [hb, if_true]

/-- IDEMPOTENCE: rounding the exact value `num h / 2^150` of a finite binary32 pattern gives the pattern back (a
    float32 survives float64 → float32 unchanged) -/
theorem q32spec_idempotent (h : Nat) (hh : h < infPat) : roundMag (num h) (2 ^ 150) = h := roundMag_num h hh

/-- the spec never produces a signalling NaN: the hypothesis `hq` of `stl_mesh_roundtrip` -/
theorem q32spec_quiet (b : Nat) : quiet (BitVec.ofNat 32 (q32spec b)) = BitVec.ofNat 32 (q32spec b) := by
  have hcases : q32spec b = nanPat ∨ ∃ s h, (s = 0 ∨ s = 2147483648) ∧ h ≤ infPat ∧ q32spec b = s + h := by
    have hs : signBit b = 0 ∨ signBit b = 2147483648 := by unfold signBit; split_ifs <;> simp
    by_cases c1 : b / 4503599627370496 % 2048 = 2047
    · rw [q32spec_inf_nan b c1]
      split_ifs
      · exact Or.inr ⟨signBit b, infPat, hs, le_refl _, rfl⟩
      · exact Or.inl rfl
    · refine Or.inr ⟨signBit b, roundMag (f64Dyadic b).2.1 (f64Dyadic b).2.2, hs, Nat.min_le_right _ _, ?_⟩
      unfold q32spec signBit
      simp only [if_neg c1]
  rcases hcases with e | ⟨s, h, hs, hh, e⟩
  · rw [e]; decide
  · rw [e]
    unfold infPat at hh
    have hn : isNaN32 (BitVec.ofNat 32 (s + h)) = false := by
      unfold isNaN32
      rw [BitVec.toNat_ofNat]
      rcases hs with rfl | rfl <;> · simp only [decide_eq_false_iff_not, not_lt]; omega
    unfold quiet
    rw [hn]; rfl

/-- the precision bundle whose `q32` is the SPECIFICATION, on float64 bit patterns -/
def specParams (up : W32 → Nat) (avg flat : P3 Nat → P3 Nat → P3 Nat → P3 Nat) : Params Nat :=
  ⟨fun b => BitVec.ofNat 32 (q32spec b), up, avg, flat⟩

/-- C07's POSITION CLAUSE WITH THE SPEC: for every well-formed mesh of float64 bit patterns, `WriteMesh` produces
    `84 + 50·n` bytes = `encode` of records whose corner words are `q32spec` of the mesh coordinates (written little
    endian by `encode`), and `ReadMesh` returns them: corner `k` = `up (q32spec position[indices[k]])` — with
    `q32spec_finite` the value stored is within half an ulp (relative `2^−24` in the normal range) of the coordinate. -/
theorem stl_positions_q32spec (up : W32 → Nat) (avg flat : P3 Nat → P3 Nat → P3 Nat → P3 Nat)
    (m : Mesh Nat) (hwf : WF m) (hn : m.indices.length / 3 < 2 ^ 32) :
    ∃ bs r ts, writeTris (specParams up avg flat) m = .ok ts ∧ bs = encode zeroHeader ts ∧
      writeMesh (specParams up avg flat) m = .ok bs ∧ bs.length = 84 + 50 * (m.indices.length / 3) ∧
      readMesh (specParams up avg flat) bs = .ok r ∧ RoundTrips (specParams up avg flat) m r = true := by
  obtain ⟨bs, r, h1, h2, h3, h4⟩ :=
    stl_mesh_roundtrip (specParams up avg flat) (fun x => q32spec_quiet x) m hwf hn
  unfold writeMesh at h1
  cases hts : writeTris (specParams up avg flat) m with
  | error e => rw [hts] at h1; simp [Except.map] at h1
  | ok ts =>
    rw [hts] at h1
    simp only [Except.map, Except.ok.injEq] at h1
    exact ⟨bs, r, ts, rfl, h1.symm, by unfold writeMesh; rw [hts]; simp [Except.map, h1], h2, h3, h4⟩

/-- one record of that file, spelled out: the three corner words of a triangle are `q32spec` of the coordinates -/
theorem stl_record_words_q32spec (up : W32 → Nat) (avg flat : P3 Nat → P3 Nat → P3 Nat → P3 Nat)
    (ps : List (P3 Nat)) (a b c : Nat) (p1 p2 p3 : P3 Nat) (h1 : ps[a]? = some p1) (h2 : ps[b]? = some p2)
    (h3 : ps[c]? = some p3) :
    buildTris (specParams up avg flat) ps none [(a, b, c)] =
      .ok [⟨zeroV, p1.map fun x => BitVec.ofNat 32 (q32spec x), p2.map fun x => BitVec.ofNat 32 (q32spec x),
            p3.map fun x => BitVec.ofNat 32 (q32spec x), 0⟩] := by
  simp [buildTris, storedNormal, h1, h2, h3, specParams]

/-! ### non-vacuity: closed values of the spec (1.0, π, the tie 2^−150 → even pattern 0, just above it → 1,
    the overflow threshold → +∞, just below → max finite, −0) -/
example : q32spec 0x3ff0000000000000 = 0x3f800000 ∧ q32spec 0x400921fb54442d18 = 0x40490fdb ∧
    q32spec 0x3690000000000000 = 0 ∧ q32spec 0x3690000000000001 = 1 ∧
    q32spec 0x47effffff0000000 = 0x7f800000 ∧ q32spec 0x47efffffefffffff = 0x7f7fffff ∧
    q32spec 0x8000000000000000 = 0x80000000 := by decide +kernel
/-- π is finite, below the threshold and in the normal range: the guards of `q32spec_finite` hold -/
example : (0x400921fb54442d18 / 4503599627370496 % 2048 ≠ 2047) ∧
    (f64Dyadic 0x400921fb54442d18).2.1 * 2 ^ 150 < thrNum * (f64Dyadic 0x400921fb54442d18).2.2 ∧
    2 ^ 24 * (f64Dyadic 0x400921fb54442d18).2.2 ≤ (f64Dyadic 0x400921fb54442d18).2.1 * 2 ^ 150 := by decide +kernel

end C07
end PolyVerif
