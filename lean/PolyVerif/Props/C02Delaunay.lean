/-
  C02 — `triangulation.BowyerWatson` returns a well-formed mesh.
  Reuses the C20 model `PolyVerif/Model/Delaunay.lean` of /repo modeling/triangulation/bowyer_watson.go and its theorem
  `C20.bw_indices_lt` (no super-triangle vertex survives), for every point function, every enumeration order of
  the triangle map (`env`, no assumption) and every number of points.
-/
import PolyVerif.Props.C20
import PolyVerif.Props.C02
import PolyVerif.Model.ConstrainedBW

namespace PolyVerif.C02
open PolyVerif.Mesh PolyVerif.Mesh.MeshVal PolyVerif.Delaunay

variable {α : Type} {R : Type} [CommRing R] [LinearOrder R] [IsStrictOrderedRing R]

/-- `BowyerWatson(points)`: the mesh carries `n = len(points)` vertices (Position, TexCoord arrays of length `n`,
    bowyer_watson.go:373-383) and its index buffer lists triangles of the final triangulation map in whatever order and
    multiplicity the Go `for triangle := range triangulation` yields them (`tris`: any list of members of `bw P env n`;
    `env` is the enumeration used INSIDE the algorithm for the bad-triangle scan). Every index is `< n`, the count is a
    multiple of 3. NOTE: `C20.bw_indices_lt` reflects only the final filter "drop every triangle touching a
    super-triangle vertex" together with "n vertices" — not the insertion algorithm. -/
theorem bowyerWatson_wf (P : Nat → Pt R) (env : List Tri → List Tri) (n : Nat) (tris : List Tri)
    (htris : ∀ t ∈ tris, t ∈ bw P env n) {m : MeshVal α} (h : IsPrim m n (untriples tris)) : WF m := by
  apply prim_wf h
  · intro i hi
    obtain ⟨t, ht, hx⟩ := mem_untriples hi
    have := C20.bw_indices_lt P env n t (htris t ht)
    rcases hx with rfl | rfl | rfl
    · exact this.1
    · exact this.2.1
    · exact this.2.2
  · rw [length_untriples]; omega

/-- the public entry point: `none` = fewer than 3 points (panic) -/
theorem bowyerWatson_entry_wf {K : Type} [Field K] [LinearOrder K] [IsStrictOrderedRing K]
    (env : List Tri → List Tri) (pts : List (Pt K)) {res : List Tri}
    (hb : bowyerWatson env pts = some res) (tris : List Tri) (htris : ∀ t ∈ tris, t ∈ res)
    {m : MeshVal α} (h : IsPrim m pts.length (untriples tris)) : WF m := by
  unfold bowyerWatson at hb
  split at hb
  · cases hb; exact bowyerWatson_wf _ env _ tris htris h
  · cases hb

example : ∃ tris, bowyerWatson id [((0 : ℚ), (0 : ℚ)), (4, 0), (0, 3), (5, 5)] = some tris := ⟨_, rfl⟩

/-! ### ConstrainedBowyerWatson: what WF needs, from the structure of its clipping / final assembly step -/

open PolyVerif.CBW in
theorem cbw_run_inv (n : Nat) : ∀ (clips : List Clip) (s : State), n ≤ s.pts →
    (∀ t ∈ s.added, t.1 < s.pts ∧ t.2.1 < s.pts ∧ t.2.2 < s.pts) → (∀ c ∈ clips, ∀ i ∈ c.corners, i < n) →
    (clips.foldl applyClip s).pts = s.pts + 2 * clips.length ∧
    ∀ t ∈ (clips.foldl applyClip s).added,
      t.1 < s.pts + 2 * clips.length ∧ t.2.1 < s.pts + 2 * clips.length ∧ t.2.2 < s.pts + 2 * clips.length
  | [], s, _, ha, _ => by simpa using ha
  | c :: cs, s, hn, ha, hc => by
    have hcs : ∀ c' ∈ cs, ∀ i ∈ c'.corners, i < n := fun c' h' => hc c' (by simp [h'])
    have hcc := hc c (by simp)
    have hstep : n ≤ (applyClip s c).pts ∧ (applyClip s c).pts = s.pts + 2 ∧
        ∀ t ∈ (applyClip s c).added, t.1 < s.pts + 2 ∧ t.2.1 < s.pts + 2 ∧ t.2.2 < s.pts + 2 := by
      cases c with
      | one pc ccw =>
        have hpc : pc < n := hcc pc (by simp [Clip.corners])
        refine ⟨by simp [applyClip]; omega, rfl, ?_⟩
        intro t ht
        simp only [applyClip, List.mem_cons] at ht
        rcases ht with rfl | ht
        · cases ccw <;> simp <;> omega
        · have := ha t ht; omega
      | two a b =>
        have h1 : a < n := hcc a (by simp [Clip.corners])
        have h2 : b < n := hcc b (by simp [Clip.corners])
        refine ⟨by simp [applyClip]; omega, rfl, ?_⟩
        intro t ht
        simp only [applyClip, List.mem_cons] at ht
        rcases ht with rfl | rfl | ht
        · simp; omega
        · simp; omega
        · have := ha t ht; omega
    obtain ⟨h1, h2, h3⟩ := hstep
    have ih := cbw_run_inv n cs (applyClip s c) h1 (by rw [h2]; exact h3) hcs
    simp only [List.foldl_cons, List.length_cons]
    rw [h2] at ih
    refine ⟨by rw [ih.1]; omega, ?_⟩
    intro t ht
    have := ih.2 t ht
    omega

/-- **ConstrainedBowyerWatson is well-formed**: `kept` are the triangles that survive from `bowyerWatson(points)` (indices
    `< n`, C20), `clips` the clipping events in the order they happen (corner indices `< n`: they are corners of
    triangulation triangles); the mesh has one vertex per point of the final list (`n + 2·|clips|`) and any selection, in any
    order, of kept and added triangles (both are Go maps) as its index buffer. -/
theorem constrainedBowyerWatson_wf (n : Nat) (kept : List CBW.Tri) (clips : List CBW.Clip)
    (hk : ∀ t ∈ kept, t.1 < n ∧ t.2.1 < n ∧ t.2.2 < n) (hc : ∀ c ∈ clips, ∀ i ∈ c.corners, i < n)
    (tris : List CBW.Tri) (ht : ∀ t ∈ tris, t ∈ kept ∨ t ∈ (CBW.run n clips).added)
    {m : MeshVal α} (h : IsPrim m (n + 2 * clips.length) (untriples tris)) : WF m := by
  have hinv := cbw_run_inv n clips ⟨n, []⟩ (Nat.le_refl _) (by simp) hc
  apply prim_wf h
  · intro i hi
    obtain ⟨t, htm, hx⟩ := mem_untriples hi
    have hb : t.1 < n + 2 * clips.length ∧ t.2.1 < n + 2 * clips.length ∧ t.2.2 < n + 2 * clips.length := by
      rcases ht t htm with h1 | h1
      · have := hk t h1; omega
      · exact hinv.2 t h1
    rcases hx with rfl | rfl | rfl
    · exact hb.1
    · exact hb.2.1
    · exact hb.2.2
  · rw [length_untriples]; omega

example : (CBW.run 5 [.one 2 true, .two 0 4]).pts = 9 ∧
    (CBW.run 5 [.one 2 true, .two 0 4]).added = [(0, 7, 4), (7, 8, 4), (2, 5, 6)] := by decide

end PolyVerif.C02
