/-
  C02 — `triangulation.BowyerWatson` returns a well-formed mesh.
  Reuses the C20 model `PolyVerif/Model/Delaunay.lean` of /repo modeling/triangulation/bowyer_watson.go and its theorem
  `C20.bw_indices_lt` (no super-triangle vertex survives), for every point function, every enumeration order of
  the triangle map (`env`, no assumption) and every number of points.
-/
import PolyVerif.Props.C20
import PolyVerif.Props.C02

namespace PolyVerif.C02
open PolyVerif.Mesh PolyVerif.Mesh.MeshVal PolyVerif.Delaunay

variable {α : Type} {R : Type} [CommRing R] [LinearOrder R] [IsStrictOrderedRing R]

/-- `BowyerWatson(points)`: the mesh carries `n = len(points)` vertices (Position, TexCoord arrays of length `n`,
    bowyer_watson.go:373-383) and the triangles the algorithm leaves after dropping every triangle that touches
    the super-triangle, in whatever order the Go map yields them: every index is `< n`, the count is a multiple of 3. -/
theorem bowyerWatson_wf (P : Nat → Pt R) (env : List Tri → List Tri) (n : Nat) {m : MeshVal α}
    (h : IsPrim m n (untriples (bw P env n))) : WF m := by
  apply prim_wf h
  · intro i hi
    obtain ⟨t, ht, hx⟩ := mem_untriples hi
    have := C20.bw_indices_lt P env n t ht
    rcases hx with rfl | rfl | rfl
    · exact this.1
    · exact this.2.1
    · exact this.2.2
  · rw [length_untriples]; omega

/-- the public entry point: `none` = fewer than 3 points (panic) -/
theorem bowyerWatson_entry_wf {K : Type} [Field K] [LinearOrder K] [IsStrictOrderedRing K]
    (env : List Tri → List Tri) (pts : List (Pt K)) {tris : List Tri}
    (hb : bowyerWatson env pts = some tris) {m : MeshVal α} (h : IsPrim m pts.length (untriples tris)) : WF m := by
  unfold bowyerWatson at hb
  split at hb
  · cases hb; exact bowyerWatson_wf _ env _ h
  · cases hb

example : ∃ tris, bowyerWatson id [((0 : ℚ), (0 : ℚ)), (4, 0), (0, 3), (5, 5)] = some tris := ⟨_, rfl⟩

end PolyVerif.C02
