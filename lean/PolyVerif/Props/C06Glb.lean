/-
  C06 (round 2) — the GLB container through a READER: `glbParse (glbFrame json bin)` returns the two chunks, and the
  oracle predicate `frameOK ∘ readFrame` (what `c06.holds.frame` evaluates on the implementation's file) holds of the
  model's file.  `glbFrame` is the definition the driver uses to answer `c06.glb` (whole-file byte comparison with
  `WriteGLB`).
-/
import PolyVerif.Props.C06
import PolyVerif.Model.GltfGlb

namespace PolyVerif
namespace C06
open Gltf

theorem glbWord_eq (f : List UInt8) (o : Nat) : glbWord f o = readWord f o := rfl

/-- the file is a 20-byte header, the padded JSON text, then the BIN part -/
theorem glbFrame_split (json bin : List UInt8) :
    ∃ H : List UInt8, H.length = 20
      ∧ glbFrame json bin = H ++ ((json ++ List.replicate (pad4 json.length) 0x20) ++ glbBinPart bin) := by
  refine ⟨leBytes 4 0x46546C67 ++ leBytes 4 2 ++ leBytes 4 (glbTotal json bin)
    ++ leBytes 4 (json.length + pad4 json.length) ++ leBytes 4 0x4E4F534A, by simp [length_leBytes], ?_⟩
  simp only [glbFrame, glbTotal, glbBinPart, List.append_assoc]
  split <;> simp

/-- the JSON chunk as stored: the text followed by its blank padding -/
theorem glb_json_chunk (json bin : List UInt8) :
    ((glbFrame json bin).drop 20).take (json.length + pad4 json.length)
      = json ++ List.replicate (pad4 json.length) 0x20 := by
  obtain ⟨H, hH, e⟩ := glbFrame_split json bin
  rw [e, List.drop_left' hH, List.take_left' (by simp)]

/-- the BIN chunk as stored: the buffer followed by its zero padding -/
theorem glb_bin_chunk (json bin : List UInt8) (hsz : (glbFrame json bin).length < 2 ^ 32) (hpos : bin.length > 0) :
    ((glbFrame json bin).drop (20 + (json.length + pad4 json.length) + 8)).take (bin.length + pad4 bin.length)
      = bin ++ List.replicate (pad4 bin.length) 0x00 := by
  obtain ⟨_, _, _, _, _, _, _, _, hdrop, _, _⟩ := glb_frame json bin hsz
  have hp := pad4_lt bin.length
  have hne : ¬ (bin.length + pad4 bin.length = 0) := by omega
  rw [← List.drop_drop, hdrop]
  unfold glbBinPart
  rw [if_neg hne, ← List.append_assoc, List.append_nil,
    List.drop_left' (by simp [length_leBytes]), List.take_of_length_le (by simp)]

/-- PARSE ∘ WRITE.  An independent reader recovers from the written file exactly the JSON text followed by its blank
    padding and the buffer followed by its zero padding (nothing for an empty buffer: no BIN chunk). -/
theorem glb_parse_write (json bin : List UInt8) (hsz : (glbFrame json bin).length < 2 ^ 32) :
    glbParse (glbFrame json bin)
      = some (json ++ List.replicate (pad4 json.length) 0x20, bin ++ List.replicate (pad4 bin.length) 0x00) := by
  obtain ⟨w0, w4, w8, w12, _, w16, _, hend, _, _, _⟩ := glb_frame json bin hsz
  have hlen := glb_frame_length json bin
  have hj := glb_json_chunk json bin
  unfold glbParse
  simp only [glbWord_eq, w0, w4, w8, w12, w16, ne_eq, not_true_eq_false, false_or]
  by_cases hb : bin.length = 0
  · have hnil : bin = [] := List.eq_nil_of_length_eq_zero hb
    have hl := hend hb
    rw [if_neg (by omega), if_pos hl, hj]
    simp [hnil, pad4]
  · have hpos : bin.length > 0 := Nat.pos_of_ne_zero hb
    obtain ⟨b0, _, b4, _, _, blen⟩ := glb_frame_bin json bin hsz hpos
    rw [if_neg (by omega), if_neg (by omega)]
    simp only [b0, b4, not_true_eq_false, false_or]
    rw [if_neg (by omega), hj, glb_bin_chunk json bin hsz hpos]

/-- the check the driver runs on the implementation's file (`c06.holds.glbparse`) holds of the model's file -/
theorem glb_roundtrips (json bin : List UInt8) (hsz : (glbFrame json bin).length < 2 ^ 32) :
    glbRoundTrips (glbFrame json bin) json bin = true := by
  unfold glbRoundTrips; rw [glb_parse_write json bin hsz]; simp

/-- what the reader returns starts with the payloads, continues with padding only, and is shorter than payload + 4 -/
theorem glb_parse_write_prefix (json bin : List UInt8) (hsz : (glbFrame json bin).length < 2 ^ 32) :
    ∃ j b, glbParse (glbFrame json bin) = some (j, b)
      ∧ j.take json.length = json ∧ b.take bin.length = bin
      ∧ (∀ x ∈ j.drop json.length, x = 0x20) ∧ (∀ x ∈ b.drop bin.length, x = 0x00)
      ∧ j.length % 4 = 0 ∧ b.length % 4 = 0 ∧ j.length < json.length + 4 ∧ b.length < bin.length + 4 := by
  refine ⟨_, _, glb_parse_write json bin hsz, List.take_left' rfl, List.take_left' rfl, ?_, ?_, ?_, ?_, ?_, ?_⟩
  · rw [List.drop_left' rfl]; intro x hx; exact (List.mem_replicate.mp hx).2
  · rw [List.drop_left' rfl]; intro x hx; exact (List.mem_replicate.mp hx).2
  · simpa using pad4_mod json.length
  · simpa using pad4_mod bin.length
  · simpa using pad4_lt json.length
  · simpa using pad4_lt bin.length

/-- THE FRAME ORACLE HOLDS OF THE MODEL: the header fields a reader (`readFrame`, the harness's reader in Lean) finds in
    `glbFrame json bin` satisfy `frameOK` against the unpadded lengths — the predicate `c06.holds.frame` evaluates on the
    implementation's file. -/
theorem glb_frame_readFrame_ok (json bin : List UInt8) (hsz : (glbFrame json bin).length < 2 ^ 32) :
    frameOK (readFrame (glbFrame json bin)) json.length bin.length = true := by
  obtain ⟨w0, w4, w8, w12, hjm, w16, _, hend, _, _, hbm⟩ := glb_frame json bin hsz
  have hlen := glb_frame_length json bin
  unfold readWord at w0 w4 w8 w12 w16
  by_cases hb : bin.length = 0
  · have hl := hend hb
    have hnb : ¬ (20 + (json.length + pad4 json.length) < (glbFrame json bin).length) := by omega
    simp only [frameOK, readFrame, w0, w4, w8, w12, w16, hnb, decide_false, hb]
    simp [hl, hjm]
  · have hpos : bin.length > 0 := Nat.pos_of_ne_zero hb
    obtain ⟨b0, _, b4, _, _, blen⟩ := glb_frame_bin json bin hsz hpos
    unfold readWord at b0 b4
    have hyb : 20 + (json.length + pad4 json.length) < (glbFrame json bin).length := by omega
    simp only [frameOK, readFrame, w0, w4, w8, w12, w16, hyb, decide_true, b0, b4, if_true]
    simp [hpos, hjm, hbm, blen]
    omega

/-- non-vacuity: a two-byte JSON text and a five-byte buffer (both padded) -/
example : (glbFrame [0x7b, 0x7d] [1, 2, 3, 4, 5]).length < 2 ^ 32
    ∧ glbParse (glbFrame [0x7b, 0x7d] [1, 2, 3, 4, 5]) = some ([0x7b, 0x7d, 0x20, 0x20], [1, 2, 3, 4, 5, 0, 0, 0]) := by
  have h : (glbFrame [0x7b, 0x7d] [1, 2, 3, 4, 5]).length < 2 ^ 32 := by rw [glb_frame_length]; decide
  refine ⟨h, ?_⟩
  rw [glb_parse_write _ _ h]; decide

end C06
end PolyVerif
