/-
  C08 (round 2) — ASCII MESH files of the reference encoding WITH per-corner texture coordinates, from FILE BYTES, under the
  named law bundles `GoFloatText` + `SpecIntText`.  The ASCII list reader parses `texcoord` at 64 bits, so the coordinates
  come back exactly (`parse64_showF`): `TexCoord` is literally `meaning`'s list.
-/
import PolyVerif.Props.C08MeshAscii
import PolyVerif.Props.C08MeshTex

namespace PolyVerif
namespace C08
open Ply PlySpec PlyLemmas PlyCompose PlyHeader PlyAscii PlyFaces PlyFacesAscii PlyFacesTex PlyFacesTexAscii PlyUnweld

variable {α : Type}

/-- ASCII TEXTURED MESH FILES FROM FILE BYTES (any declared count / index / texcoord types, texcoord before or after the
index list, optional unrecognised list, triangles and quads with two coordinates per listed vertex): the unwelded mesh
plus `TexCoord` = the per-corner coordinates of the fan triangles in file order, exactly as stored -/
theorem ply_reads_spec_mesh_tex_ascii_bytes (c : Coding α) (L : GoFloatText c) (Z : SpecIntText c) (f : SpecFile α)
    (fe : SpecFaceElem α) (tt : SType × SType) (hok : SpecHeaderOK f) (hf : f.format = .ascii) (hprops : f.vprops ≠ [])
    (hface : f.face = some fe) (htex : fe.tex = some tt)
    (henc : ∀ fc ∈ fe.faces, FaceTexOK fe fc) (hsize : ∀ fc ∈ fe.faces, TriOrQuad fc)
    (htyped : ∀ r ∈ f.verts, r.map Datum.ty = f.vprops.map (·.ty))
    (hrange : ∀ r ∈ f.verts, ∀ d ∈ r, Datum.InRange c L Z d)
    (bl : List (Built × List Nat))
    (hbuilt : bl.map (·.1) = buildAll false (specProps f) defaultReaders true)
    (hloc : ∀ p ∈ bl, LocatedA (f.vprops.map (·.ty)) p.1 p.2) :
    readMesh c defaultReader (refEncode c f)
      = (let mesh := applyColumns ⟨.triangle, fanIdx fe.faces, [], none⟩ (bl.map (·.1)) (f.verts.map (rowOfS c L Z bl))
         if fe.faces.isEmpty then .ok mesh else do
           let u ← unweld mesh
           pure (u.set 2 texCoordAttr (texUVA fe.faces))) := by
  obtain ⟨tct, tit⟩ := tt
  simp only [readMesh, refEncode, parse_specHeader f hok, bind, Except.bind]
  have hall : ∀ fc ∈ fe.faces, FaceTexOK fe fc ∧ TriOrQuad fc := fun fc h => ⟨henc fc h, hsize fc h⟩
  have hfaces := readFacesAscii_refT c L fe tct tit htex fe.faces hall
    ⟨[0, 0, 0, 0], List.replicate 8 (c.ofInt 0)⟩ ⟨rfl, by simp⟩
  have hlen := texUVA_length fe fe.faces hall
  rw [ply_spec_readback_vertex_ascii c L Z f hf hprops htyped hrange bl hbuilt hloc,
    faceStageAscii_spec c f fe hface, hface]
  simp only []
  rw [hfaces, findFaceProps_refT fe _ htex]
  cases hfs : fe.faces with
  | nil => simp [assemble, bind, Except.bind, pure, Except.pure, texUVA, fanIdx]
  | cons fc faces =>
    have hpos : 0 < (fanIdx (fc :: faces)).length := fanIdx_pos fc faces (hsize fc (by rw [hfs]; simp))
    rw [hfs] at hlen
    have hcond : 0 < (texUVA (fc :: faces)).length ∧ (texUVA (fc :: faces)).length = (fanIdx (fc :: faces)).length :=
      ⟨by omega, hlen⟩
    simp only [Option.isNone_some, Bool.false_eq_true, if_false, assemble, bind, Except.bind, pure, Except.pure, hcond,
      List.isEmpty_cons]
    rw [if_pos ⟨hpos, trivial⟩]

/-- … and loads WITHOUT ERROR to the explicit per-corner mesh when every face lists existing vertices -/
theorem ply_reads_spec_mesh_tex_ascii_loads (c : Coding α) (L : GoFloatText c) (Z : SpecIntText c) (f : SpecFile α)
    (fe : SpecFaceElem α) (tt : SType × SType) (hok : SpecHeaderOK f) (hf : f.format = .ascii) (hprops : f.vprops ≠ [])
    (hface : f.face = some fe) (htex : fe.tex = some tt)
    (henc : ∀ fc ∈ fe.faces, FaceTexOK fe fc) (hsize : ∀ fc ∈ fe.faces, TriOrQuad fc)
    (hvr : ∀ fc ∈ fe.faces, ∀ v ∈ fc.verts, v < f.verts.length)
    (htyped : ∀ r ∈ f.verts, r.map Datum.ty = f.vprops.map (·.ty))
    (hrange : ∀ r ∈ f.verts, ∀ d ∈ r, Datum.InRange c L Z d)
    (bl : List (Built × List Nat))
    (hbuilt : bl.map (·.1) = buildAll false (specProps f) defaultReaders true)
    (hloc : ∀ p ∈ bl, LocatedA (f.vprops.map (·.ty)) p.1 p.2) :
    readMesh c defaultReader (refEncode c f)
      = .ok (let mesh := applyColumns ⟨.triangle, fanIdx fe.faces, [], none⟩ (bl.map (·.1)) (f.verts.map (rowOfS c L Z bl))
             if fe.faces.isEmpty then mesh else (corners mesh).set 2 texCoordAttr (texUVA fe.faces)) := by
  have hu := unweld_assembled (bl.map (·.1)) (f.verts.map (rowOfS c L Z bl)) fe.faces (by simpa using hvr)
  rw [ply_reads_spec_mesh_tex_ascii_bytes c L Z f fe tt hok hf hprops hface htex henc hsize htyped hrange bl hbuilt hloc]
  simp only [hu]
  cases fe.faces.isEmpty <;> rfl

/-- `TexCoord` of the ASCII theorem is `meaning`'s list of per-corner coordinates, verbatim -/
theorem texUVA_is_meaning_uvs (faces : List (SpecFace α)) :
    texUVA faces = (faces.map (fun fc => fanUV fc.uv)).flatten := rfl

/-! ### non-vacuity -/

def exTexA : SpecFile Nat := { exMeshA with face := some exTex.exTexFaces }

example : readMesh toyCodingA defaultReader (refEncode toyCodingA exTexA)
    = (let mesh := applyColumns ⟨.triangle, fanIdx exTex.exTexFaces.faces, [], none⟩ (exBlA.map (·.1))
          (exTexA.verts.map (rowOfS toyCodingA toyLaw toyIntLaw exBlA))
       if exTex.exTexFaces.faces.isEmpty then .ok mesh else do
         let u ← unweld mesh
         pure (u.set 2 texCoordAttr (texUVA exTex.exTexFaces.faces))) :=
  ply_reads_spec_mesh_tex_ascii_bytes toyCodingA toyLaw toyIntLaw exTexA exTex.exTexFaces (.uchar, .double)
    ⟨by decide, by intro i hi; simp [exTexA, exMeshA, exMesh, exFile] at hi, by decide,
      by intro fe h; simp only [exTexA, Option.some.injEq] at h; subst h; decide⟩
    rfl (by decide) rfl rfl exTex_ok.enc
    (by
      intro fc hfc
      simp only [exTex.exTexFaces, List.mem_cons, List.not_mem_nil, or_false] at hfc
      rcases hfc with rfl | rfl
      · exact Or.inl rfl
      · exact Or.inr rfl)
    (by decide)
    (by
      intro r hr d hd
      simp only [exTexA, exMeshA, List.mem_cons, List.not_mem_nil, or_false] at hr
      rcases hr with rfl | rfl | rfl | rfl <;>
        (simp only [List.mem_cons, List.not_mem_nil, or_false] at hd
         rcases hd with rfl | rfl | rfl | rfl <;> trivial))
    exBlA (by decide)
    (by
      intro p hp
      simp only [exBlA, List.mem_cons, List.not_mem_nil, or_false] at hp
      rcases hp with rfl | rfl
      · exact (locatedNamedAB_sound (specProps exTexA) _ _ (by decide)).loc
      · exact (locatedNamedAB_sound (specProps exTexA) _ _ (by decide)).loc)

/-- … and it LOADS -/
example : ∃ m, readMesh toyCodingA defaultReader (refEncode toyCodingA exTexA) = .ok m :=
  ⟨_, ply_reads_spec_mesh_tex_ascii_loads toyCodingA toyLaw toyIntLaw exTexA exTex.exTexFaces (.uchar, .double)
    ⟨by decide, by intro i hi; simp [exTexA, exMeshA, exMesh, exFile] at hi, by decide,
      by intro fe h; simp only [exTexA, Option.some.injEq] at h; subst h; decide⟩
    rfl (by decide) rfl rfl exTex_ok.enc
    (by
      intro fc hfc
      simp only [exTex.exTexFaces, List.mem_cons, List.not_mem_nil, or_false] at hfc
      rcases hfc with rfl | rfl
      · exact Or.inl rfl
      · exact Or.inr rfl)
    (by decide) (by decide)
    (by
      intro r hr d hd
      simp only [exTexA, exMeshA, List.mem_cons, List.not_mem_nil, or_false] at hr
      rcases hr with rfl | rfl | rfl | rfl <;>
        (simp only [List.mem_cons, List.not_mem_nil, or_false] at hd
         rcases hd with rfl | rfl | rfl | rfl <;> trivial))
    exBlA (by decide)
    (by
      intro p hp
      simp only [exBlA, List.mem_cons, List.not_mem_nil, or_false] at hp
      rcases hp with rfl | rfl
      · exact (locatedNamedAB_sound (specProps exTexA) _ _ (by decide)).loc
      · exact (locatedNamedAB_sound (specProps exTexA) _ _ (by decide)).loc)⟩

end C08
end PolyVerif
