/-
  C10 — parallel variants equal their sequential counterparts on every schedule.
  Property theorems only.  Part 1: the work partition (about the definitions regenerated from
  modeling/mesh.go into Gen/Partition.lean).  Part 2: schedules (write-log model).  Part 3: block jobs.
-/
import PolyVerif.Lemmas.Par
import PolyVerif.Lemmas.ParCanvas
import PolyVerif.Lemmas.ParAlloc
import PolyVerif.Lemmas.ParChan
import PolyVerif.Gen.Partition

set_option linter.unusedSimpArgs false

namespace PolyVerif.C10
open PolyVerif.Par PolyVerif.Gen.Partition

/-! ## Part 1 — the partition is exact

`Exact P n size` : the visit lists of workers `0 … size-1`, concatenated in worker order, are exactly
`[0, 1, …, n-1]` (the sequential visit sequence).  Hence every index is visited exactly once, by
exactly one worker, with its own index — for every count `n` (including `n < size`, `size ∤ n`) and every pool
size `≥ 1`.  The statements are about the expressions extracted from the Go source on this run. -/

private theorem natdiv_fdiv (n s : Nat) : Int.fdiv (n : Int) (s : Int) = ((n / s : Nat) : Int) := by
  rw [Int.fdiv_eq_ediv_of_nonneg _ (by omega)]; simp
private theorem natdiv_tdiv (n s : Nat) : Int.tdiv (n : Int) (s : Int) = ((n / s : Nat) : Int) := by
  rw [Int.tdiv_eq_ediv_of_nonneg (by omega)]; simp
private theorem last_iff (i size : Nat) : ((i : Int) = (size : Int) - 1) ↔ (i + 1 = size) := by omega

theorem std_ScanFloat3 : IsStd ScanFloat3AttributeParallelWithPoolSize.spec := by
  constructor
  · intro n size; rfl
  · intro n size i _
    simp [ScanFloat3AttributeParallelWithPoolSize.spec, ScanFloat3AttributeParallelWithPoolSize.goStart, ScanFloat3AttributeParallelWithPoolSize.workSize, natdiv_fdiv, natdiv_tdiv]
  · intro n size i _
    simp only [ScanFloat3AttributeParallelWithPoolSize.spec, ScanFloat3AttributeParallelWithPoolSize.goSize, ScanFloat3AttributeParallelWithPoolSize.workSize, natdiv_fdiv, natdiv_tdiv, last_iff]
  · intro s z; rfl
  · intro s z; rfl
  · intro j; rfl

/-- `Mesh.ScanFloat3AttributeParallelWithPoolSize`: exact for every element count and every pool size ≥ 1 -/
theorem partition_exact_ScanFloat3 (n size : Nat) (h : 1 ≤ size) : Exact ScanFloat3AttributeParallelWithPoolSize.spec n size :=
  exact_of_std std_ScanFloat3 n size h
example : Exact ScanFloat3AttributeParallelWithPoolSize.spec 10 3 := partition_exact_ScanFloat3 10 3 (by decide)

theorem std_ScanFloat2 : IsStd ScanFloat2AttributeParallelWithPoolSize.spec := by
  constructor
  · intro n size; rfl
  · intro n size i _
    simp [ScanFloat2AttributeParallelWithPoolSize.spec, ScanFloat2AttributeParallelWithPoolSize.goStart, ScanFloat2AttributeParallelWithPoolSize.workSize, natdiv_fdiv, natdiv_tdiv]
  · intro n size i _
    simp only [ScanFloat2AttributeParallelWithPoolSize.spec, ScanFloat2AttributeParallelWithPoolSize.goSize, ScanFloat2AttributeParallelWithPoolSize.workSize, natdiv_fdiv, natdiv_tdiv, last_iff]
  · intro s z; rfl
  · intro s z; rfl
  · intro j; rfl

/-- `Mesh.ScanFloat2AttributeParallelWithPoolSize`: exact for every element count and every pool size ≥ 1 -/
theorem partition_exact_ScanFloat2 (n size : Nat) (h : 1 ≤ size) : Exact ScanFloat2AttributeParallelWithPoolSize.spec n size :=
  exact_of_std std_ScanFloat2 n size h
example : Exact ScanFloat2AttributeParallelWithPoolSize.spec 10 3 := partition_exact_ScanFloat2 10 3 (by decide)

theorem std_ScanFloat1 : IsStd ScanFloat1AttributeParallelWithPoolSize.spec := by
  constructor
  · intro n size; rfl
  · intro n size i _
    simp [ScanFloat1AttributeParallelWithPoolSize.spec, ScanFloat1AttributeParallelWithPoolSize.goStart, ScanFloat1AttributeParallelWithPoolSize.workSize, natdiv_fdiv, natdiv_tdiv]
  · intro n size i _
    simp only [ScanFloat1AttributeParallelWithPoolSize.spec, ScanFloat1AttributeParallelWithPoolSize.goSize, ScanFloat1AttributeParallelWithPoolSize.workSize, natdiv_fdiv, natdiv_tdiv, last_iff]
  · intro s z; rfl
  · intro s z; rfl
  · intro j; rfl

/-- `Mesh.ScanFloat1AttributeParallelWithPoolSize`: exact for every element count and every pool size ≥ 1 -/
theorem partition_exact_ScanFloat1 (n size : Nat) (h : 1 ≤ size) : Exact ScanFloat1AttributeParallelWithPoolSize.spec n size :=
  exact_of_std std_ScanFloat1 n size h
example : Exact ScanFloat1AttributeParallelWithPoolSize.spec 10 3 := partition_exact_ScanFloat1 10 3 (by decide)

theorem std_ModifyFloat3 : IsStd ModifyFloat3AttributeParallelWithPoolSize.spec := by
  constructor
  · intro n size; rfl
  · intro n size i _
    simp [ModifyFloat3AttributeParallelWithPoolSize.spec, ModifyFloat3AttributeParallelWithPoolSize.goStart, ModifyFloat3AttributeParallelWithPoolSize.workSize, natdiv_fdiv, natdiv_tdiv]
  · intro n size i _
    simp only [ModifyFloat3AttributeParallelWithPoolSize.spec, ModifyFloat3AttributeParallelWithPoolSize.goSize, ModifyFloat3AttributeParallelWithPoolSize.workSize, natdiv_fdiv, natdiv_tdiv, last_iff]
  · intro s z; rfl
  · intro s z; rfl
  · intro j; rfl

/-- `Mesh.ModifyFloat3AttributeParallelWithPoolSize`: exact for every element count and every pool size ≥ 1 -/
theorem partition_exact_ModifyFloat3 (n size : Nat) (h : 1 ≤ size) : Exact ModifyFloat3AttributeParallelWithPoolSize.spec n size :=
  exact_of_std std_ModifyFloat3 n size h
example : Exact ModifyFloat3AttributeParallelWithPoolSize.spec 10 3 := partition_exact_ModifyFloat3 10 3 (by decide)

theorem std_ModifyFloat2 : IsStd ModifyFloat2AttributeParallelWithPoolSize.spec := by
  constructor
  · intro n size; rfl
  · intro n size i _
    simp [ModifyFloat2AttributeParallelWithPoolSize.spec, ModifyFloat2AttributeParallelWithPoolSize.goStart, ModifyFloat2AttributeParallelWithPoolSize.workSize, natdiv_fdiv, natdiv_tdiv]
  · intro n size i _
    simp only [ModifyFloat2AttributeParallelWithPoolSize.spec, ModifyFloat2AttributeParallelWithPoolSize.goSize, ModifyFloat2AttributeParallelWithPoolSize.workSize, natdiv_fdiv, natdiv_tdiv, last_iff]
  · intro s z; rfl
  · intro s z; rfl
  · intro j; rfl

/-- `Mesh.ModifyFloat2AttributeParallelWithPoolSize`: exact for every element count and every pool size ≥ 1 -/
theorem partition_exact_ModifyFloat2 (n size : Nat) (h : 1 ≤ size) : Exact ModifyFloat2AttributeParallelWithPoolSize.spec n size :=
  exact_of_std std_ModifyFloat2 n size h
example : Exact ModifyFloat2AttributeParallelWithPoolSize.spec 10 3 := partition_exact_ModifyFloat2 10 3 (by decide)

theorem std_ModifyFloat1 : IsStd ModifyFloat1AttributeParallelWithPoolSize.spec := by
  constructor
  · intro n size; rfl
  · intro n size i _
    simp [ModifyFloat1AttributeParallelWithPoolSize.spec, ModifyFloat1AttributeParallelWithPoolSize.goStart, ModifyFloat1AttributeParallelWithPoolSize.workSize, natdiv_fdiv, natdiv_tdiv]
  · intro n size i _
    simp only [ModifyFloat1AttributeParallelWithPoolSize.spec, ModifyFloat1AttributeParallelWithPoolSize.goSize, ModifyFloat1AttributeParallelWithPoolSize.workSize, natdiv_fdiv, natdiv_tdiv, last_iff]
  · intro s z; rfl
  · intro s z; rfl
  · intro j; rfl

/-- `Mesh.ModifyFloat1AttributeParallelWithPoolSize`: exact for every element count and every pool size ≥ 1 -/
theorem partition_exact_ModifyFloat1 (n size : Nat) (h : 1 ≤ size) : Exact ModifyFloat1AttributeParallelWithPoolSize.spec n size :=
  exact_of_std std_ModifyFloat1 n size h
example : Exact ModifyFloat1AttributeParallelWithPoolSize.spec 10 3 := partition_exact_ModifyFloat1 10 3 (by decide)

theorem std_ScanPrimitives_Triangle : IsStd ScanPrimitivesParallelWithPoolSize.spec_TriangleTopology := by
  constructor
  · intro n size; rfl
  · intro n size i _
    simp [ScanPrimitivesParallelWithPoolSize.spec_TriangleTopology, ScanPrimitivesParallelWithPoolSize.goStart, ScanPrimitivesParallelWithPoolSize.workSize, natdiv_fdiv, natdiv_tdiv]
  · intro n size i _
    simp only [ScanPrimitivesParallelWithPoolSize.spec_TriangleTopology, ScanPrimitivesParallelWithPoolSize.goSize, ScanPrimitivesParallelWithPoolSize.workSize, natdiv_fdiv, natdiv_tdiv, last_iff]
  · intro s z; rfl
  · intro s z; rfl
  · intro j; rfl

/-- `Mesh.ScanPrimitivesParallelWithPoolSize` on TriangleTopology (worker body `scanTrisPrimitives`): exact for every primitive count and pool size ≥ 1 -/
theorem partition_exact_ScanPrimitives_Triangle (n size : Nat) (h : 1 ≤ size) : Exact ScanPrimitivesParallelWithPoolSize.spec_TriangleTopology n size :=
  exact_of_std std_ScanPrimitives_Triangle n size h
example : Exact ScanPrimitivesParallelWithPoolSize.spec_TriangleTopology 10 3 := partition_exact_ScanPrimitives_Triangle 10 3 (by decide)

/-- sequential `Mesh.ScanPrimitives` on TriangleTopology: the same helper with `(0, n)` visits `0 … n-1` in order -/
theorem sequential_exact_ScanPrimitives_Triangle (n : Nat) :
    (intRange (ScanPrimitives.lo_TriangleTopology n) (ScanPrimitives.hi_TriangleTopology n)).map ScanPrimitives.cbIndex_TriangleTopology
      = (List.range n).map Int.ofNat := by
  have : ScanPrimitives.cbIndex_TriangleTopology = fun j => j := rfl
  rw [this, List.map_id']
  simp only [ScanPrimitives.lo_TriangleTopology, ScanPrimitives.hi_TriangleTopology, scanTrisPrimitives.loopLo, scanTrisPrimitives.loopHi, Int.zero_add]
  exact intRange_zero n

theorem std_ScanPrimitives_Point : IsStd ScanPrimitivesParallelWithPoolSize.spec_PointTopology := by
  constructor
  · intro n size; rfl
  · intro n size i _
    simp [ScanPrimitivesParallelWithPoolSize.spec_PointTopology, ScanPrimitivesParallelWithPoolSize.goStart, ScanPrimitivesParallelWithPoolSize.workSize, natdiv_fdiv, natdiv_tdiv]
  · intro n size i _
    simp only [ScanPrimitivesParallelWithPoolSize.spec_PointTopology, ScanPrimitivesParallelWithPoolSize.goSize, ScanPrimitivesParallelWithPoolSize.workSize, natdiv_fdiv, natdiv_tdiv, last_iff]
  · intro s z; rfl
  · intro s z; rfl
  · intro j; rfl

/-- `Mesh.ScanPrimitivesParallelWithPoolSize` on PointTopology (worker body `scanPointPrimitives`): exact for every primitive count and pool size ≥ 1 -/
theorem partition_exact_ScanPrimitives_Point (n size : Nat) (h : 1 ≤ size) : Exact ScanPrimitivesParallelWithPoolSize.spec_PointTopology n size :=
  exact_of_std std_ScanPrimitives_Point n size h
example : Exact ScanPrimitivesParallelWithPoolSize.spec_PointTopology 10 3 := partition_exact_ScanPrimitives_Point 10 3 (by decide)

/-- sequential `Mesh.ScanPrimitives` on PointTopology: the same helper with `(0, n)` visits `0 … n-1` in order -/
theorem sequential_exact_ScanPrimitives_Point (n : Nat) :
    (intRange (ScanPrimitives.lo_PointTopology n) (ScanPrimitives.hi_PointTopology n)).map ScanPrimitives.cbIndex_PointTopology
      = (List.range n).map Int.ofNat := by
  have : ScanPrimitives.cbIndex_PointTopology = fun j => j := rfl
  rw [this, List.map_id']
  simp only [ScanPrimitives.lo_PointTopology, ScanPrimitives.hi_PointTopology, scanPointPrimitives.loopLo, scanPointPrimitives.loopHi, Int.zero_add]
  exact intRange_zero n

theorem std_ScanPrimitives_LineStrip : IsStd ScanPrimitivesParallelWithPoolSize.spec_LineStripTopology := by
  constructor
  · intro n size; rfl
  · intro n size i _
    simp [ScanPrimitivesParallelWithPoolSize.spec_LineStripTopology, ScanPrimitivesParallelWithPoolSize.goStart, ScanPrimitivesParallelWithPoolSize.workSize, natdiv_fdiv, natdiv_tdiv]
  · intro n size i _
    simp only [ScanPrimitivesParallelWithPoolSize.spec_LineStripTopology, ScanPrimitivesParallelWithPoolSize.goSize, ScanPrimitivesParallelWithPoolSize.workSize, natdiv_fdiv, natdiv_tdiv, last_iff]
  · intro s z; rfl
  · intro s z; rfl
  · intro j; rfl

/-- `Mesh.ScanPrimitivesParallelWithPoolSize` on LineStripTopology (worker body `scanLinePrimitives`): exact for every primitive count and pool size ≥ 1 -/
theorem partition_exact_ScanPrimitives_LineStrip (n size : Nat) (h : 1 ≤ size) : Exact ScanPrimitivesParallelWithPoolSize.spec_LineStripTopology n size :=
  exact_of_std std_ScanPrimitives_LineStrip n size h
example : Exact ScanPrimitivesParallelWithPoolSize.spec_LineStripTopology 10 3 := partition_exact_ScanPrimitives_LineStrip 10 3 (by decide)

/-- sequential `Mesh.ScanPrimitives` on LineStripTopology: the same helper with `(0, n)` visits `0 … n-1` in order -/
theorem sequential_exact_ScanPrimitives_LineStrip (n : Nat) :
    (intRange (ScanPrimitives.lo_LineStripTopology n) (ScanPrimitives.hi_LineStripTopology n)).map ScanPrimitives.cbIndex_LineStripTopology
      = (List.range n).map Int.ofNat := by
  have : ScanPrimitives.cbIndex_LineStripTopology = fun j => j := rfl
  rw [this, List.map_id']
  simp only [ScanPrimitives.lo_LineStripTopology, ScanPrimitives.hi_LineStripTopology, scanLinePrimitives.loopLo, scanLinePrimitives.loopHi, Int.zero_add]
  exact intRange_zero n

/-- the extractor found exactly these parallel methods (a new `*ParallelWithPoolSize` method breaks this) -/
theorem methods_covered : methodNames =
    ["ScanPrimitivesParallelWithPoolSize", "ScanFloat3AttributeParallelWithPoolSize",
     "ScanFloat2AttributeParallelWithPoolSize", "ScanFloat1AttributeParallelWithPoolSize",
     "ModifyFloat3AttributeParallelWithPoolSize", "ModifyFloat2AttributeParallelWithPoolSize",
     "ModifyFloat1AttributeParallelWithPoolSize"] := by decide

/-- the primitive scan handles the same topologies, with the same helpers, as the sequential scan -/
theorem topologies_covered : ScanPrimitivesParallelWithPoolSize.topologies = ScanPrimitives.topologies ∧
    ScanPrimitives.topologies = ["TriangleTopology", "PointTopology", "LineStripTopology"] := by decide

/-- every partition spec the extractor emitted (one per method, per topology) is exact: all counts, all pool sizes ≥ 1 -/
theorem all_specs_exact : ∀ p ∈ specs, ∀ n size : Nat, 1 ≤ size → Exact p.2 n size := by
  intro p hp
  simp only [specs, List.mem_cons, List.not_mem_nil, or_false] at hp
  rcases hp with rfl | rfl | rfl | rfl | rfl | rfl | rfl | rfl | rfl
  · exact partition_exact_ScanPrimitives_Triangle
  · exact partition_exact_ScanPrimitives_Point
  · exact partition_exact_ScanPrimitives_LineStrip
  · exact partition_exact_ScanFloat3
  · exact partition_exact_ScanFloat2
  · exact partition_exact_ScanFloat1
  · exact partition_exact_ModifyFloat3
  · exact partition_exact_ModifyFloat2
  · exact partition_exact_ModifyFloat1

/-- **control_flow** — the branch every method takes, from the guards in the order they occur in the source: it panics iff
    `size < 1`, it returns the sequential counterpart's result iff `size = 1`, and it enters the worker loop iff `size ≥ 2`.
    (Swapping the guards, weakening `size == 1` to `size <= 1`, or dropping the delegation changes `path` and breaks this.)
    Together with `partition_exact_*` (all `size ≥ 1`): for `size ≥ 2` the workers visit exactly `0..n-1`, for `size = 1` the
    sequential code itself runs. -/
theorem control_flow : ∀ p ∈ paths, ∀ size : Int,
    (p.2 size = Path.panic ↔ size < 1) ∧ (p.2 size = Path.sequential ↔ size = 1) ∧ (p.2 size = Path.workers ↔ 2 ≤ size) := by
  intro p hp size
  simp only [paths, List.mem_cons, List.not_mem_nil, or_false] at hp
  rcases hp with rfl | rfl | rfl | rfl | rfl | rfl | rfl <;>
  · simp only [ScanPrimitivesParallelWithPoolSize.path, ScanPrimitivesParallelWithPoolSize.panics, ScanPrimitivesParallelWithPoolSize.delegates,
      ScanFloat3AttributeParallelWithPoolSize.path, ScanFloat3AttributeParallelWithPoolSize.panics, ScanFloat3AttributeParallelWithPoolSize.delegates,
      ScanFloat2AttributeParallelWithPoolSize.path, ScanFloat2AttributeParallelWithPoolSize.panics, ScanFloat2AttributeParallelWithPoolSize.delegates,
      ScanFloat1AttributeParallelWithPoolSize.path, ScanFloat1AttributeParallelWithPoolSize.panics, ScanFloat1AttributeParallelWithPoolSize.delegates,
      ModifyFloat3AttributeParallelWithPoolSize.path, ModifyFloat3AttributeParallelWithPoolSize.panics, ModifyFloat3AttributeParallelWithPoolSize.delegates,
      ModifyFloat2AttributeParallelWithPoolSize.path, ModifyFloat2AttributeParallelWithPoolSize.panics, ModifyFloat2AttributeParallelWithPoolSize.delegates,
      ModifyFloat1AttributeParallelWithPoolSize.path, ModifyFloat1AttributeParallelWithPoolSize.panics, ModifyFloat1AttributeParallelWithPoolSize.delegates]
    by_cases h1 : size < 1
    · simp [h1]; omega
    · by_cases h2 : size = 1
      · simp [h2]
      · simp [h1, h2]; omega

/-- **topology_guard** — `ScanPrimitivesParallelWithPoolSize` lets a topology reach the worker goroutines iff the workers'
    switch — and the sequential `ScanPrimitives` — handle it: an unsupported topology (quad, line, line loop) panics in the caller's
    goroutine, like the sequential scan, never inside a worker (where it would kill the process).  False of the tree before
    /repo 8b216e3 (no guard: `guardedTopologies = []`). -/
theorem topology_guard :
    ScanPrimitivesParallelWithPoolSize.guardedTopologies.Perm ScanPrimitivesParallelWithPoolSize.topologies ∧
    ScanPrimitivesParallelWithPoolSize.guardedTopologies.Perm ScanPrimitives.topologies := by decide

/-- the worker loop, when entered, starts `size ≥ 2` workers (the loop count of every spec is the pool size) -/
theorem workers_count : ∀ p ∈ specs, ∀ n size : Int, p.2.workers n size = size := by
  intro p hp n size
  simp only [specs, List.mem_cons, List.not_mem_nil, or_false] at hp
  rcases hp with rfl | rfl | rfl | rfl | rfl | rfl | rfl | rfl | rfl <;> rfl

/-- **primitiveCount_nonneg** — the element count of the primitive scans is `Mesh.PrimitiveCount()`; as regenerated from the
    source it is never negative, for every index count and every topology (before /repo commit 9e6522a the two line topologies
    gave `len - 1 = -1` for an empty index buffer — the one real defect of this property — and this theorem was false) -/
theorem primitiveCount_nonneg (len : Nat) :
    0 ≤ PrimitiveCount.count_TriangleTopology len ∧ 0 ≤ PrimitiveCount.count_PointTopology len ∧
    0 ≤ PrimitiveCount.count_LineStripTopology len ∧ 0 ≤ PrimitiveCount.count_LineTopology len ∧
    0 ≤ PrimitiveCount.count_LineLoopTopology len ∧ 0 ≤ PrimitiveCount.count_QuadTopology len := by
  simp only [PrimitiveCount.count_TriangleTopology, PrimitiveCount.count_PointTopology, PrimitiveCount.count_LineStripTopology,
    PrimitiveCount.count_LineTopology, PrimitiveCount.count_LineLoopTopology, PrimitiveCount.count_QuadTopology]
  have h3 : Int.tdiv (len : Int) 3 = ((len / 3 : Nat) : Int) := natdiv_tdiv len 3
  have h4 : Int.tdiv (len : Int) 4 = ((len / 4 : Nat) : Int) := natdiv_tdiv len 4
  rw [h3, h4]
  refine ⟨by omega, by omega, ?_, ?_, by omega, by omega⟩ <;> (split <;> omega)

/-- the primitive scan on a mesh with ANY number of indices (`len`), ANY pool size ≥ 1: the workers visit exactly
    `0 .. PrimitiveCount()-1`, where the count is the regenerated expression (not an assumed natural number) -/
theorem scan_primitives_exact_any_mesh (len size : Nat) (h : 1 ≤ size) :
    (∃ n : Nat, PrimitiveCount.count_TriangleTopology len = n ∧ Exact ScanPrimitivesParallelWithPoolSize.spec_TriangleTopology n size) ∧
    (∃ n : Nat, PrimitiveCount.count_PointTopology len = n ∧ Exact ScanPrimitivesParallelWithPoolSize.spec_PointTopology n size) ∧
    (∃ n : Nat, PrimitiveCount.count_LineStripTopology len = n ∧ Exact ScanPrimitivesParallelWithPoolSize.spec_LineStripTopology n size) := by
  have hn := primitiveCount_nonneg len
  refine ⟨⟨(PrimitiveCount.count_TriangleTopology len).toNat, by omega, partition_exact_ScanPrimitives_Triangle _ size h⟩,
          ⟨(PrimitiveCount.count_PointTopology len).toNat, by omega, partition_exact_ScanPrimitives_Point _ size h⟩,
          ⟨(PrimitiveCount.count_LineStripTopology len).toNat, by omega, partition_exact_ScanPrimitives_LineStrip _ size h⟩⟩

/-- corpus witness as a closed term: were the count `-1` (the old empty line strip), the workers of the regenerated partition
    with pool size 4 would call back with `-3, -2` although the sequential scan calls back zero times -/
theorem emptystrip_witness :
    (ScanPrimitivesParallelWithPoolSize.spec_LineStripTopology.visits (-1) 4).flatten = [-3, -2] ∧
    intRange (ScanPrimitives.lo_LineStripTopology (-1)) (ScanPrimitives.hi_LineStripTopology (-1)) = [] := by decide

/-! ## Part 2 — every schedule

`Interleaving logs s` (Model/Par.lean): `s` is any merge of the workers' event logs that keeps each worker's own order.
`run m s`: the memory after performing the stores `s` on memory `m` (cells indexed by Go `int`).
`seqEvents g n = [(0, g 0), …, (n-1, g (n-1))]`: the events of the sequential loop `for i, v := range data`. -/

/-- **interleaving_irrelevant** — for logs whose stores hit pairwise different cells, EVERY interleaving leaves the same memory,
    namely the one obtained by running the workers one after the other -/
theorem interleaving_irrelevant {α : Type} (logs : List (List (Int × α))) (hd : (logs.flatten.map Prod.fst).Nodup)
    (m : Int → α) (s : List (Int × α)) (hs : Interleaving logs s) : run m s = run m logs.flatten :=
  interleaving_irrelevant_gen logs hd m s hs

example : Interleaving [[((0 : Int), 'a'), (1, 'b')], [(2, 'c')]] [(0, 'a'), (2, 'c'), (1, 'b')] :=
  .step 0 _ [(1, 'b')] rfl (.step 1 _ [] rfl (.step 0 _ [] rfl (.done (by simp))))
example : run (fun _ => 'z') [((0 : Int), 'a'), (2, 'c'), (1, 'b')] 1 = 'b' := by decide
/-- a full instance: the hypothesis `hd` holds for these two logs, the schedule above is one of their interleavings, and the
    theorem gives the memory of "worker 0, then worker 1" -/
example : run (fun _ => 'z') [((0 : Int), 'a'), (2, 'c'), (1, 'b')] = run (fun _ => 'z') [((0 : Int), 'a'), (1, 'b'), (2, 'c')] :=
  interleaving_irrelevant [[((0 : Int), 'a'), (1, 'b')], [(2, 'c')]] (by decide) _ _
    (.step 0 _ [(1, 'b')] rfl (.step 1 _ [] rfl (.step 0 _ [] rfl (.done (by simp)))))

/-- any two schedules of the same disjoint logs agree -/
theorem interleaving_irrelevant_pair {α : Type} (logs : List (List (Int × α))) (hd : (logs.flatten.map Prod.fst).Nodup)
    (m : Int → α) (s t : List (Int × α)) (hs : Interleaving logs s) (ht : Interleaving logs t) : run m s = run m t := by
  rw [interleaving_irrelevant logs hd m s hs, interleaving_irrelevant logs hd m t ht]

/-- the set of schedules is not empty: running the workers one after the other is one -/
theorem sequential_schedule_is_interleaving {β : Type} (logs : List (List β)) : Interleaving logs logs.flatten :=
  Interleaving.flatten logs

/-- `Mesh.ModifyFloat3AttributeParallelWithPoolSize` = `Mesh.ModifyFloat3Attribute` on every schedule: whatever the interleaving `s` of the
    workers' stores `modified[j] = f(j, oldData[j])`, the array ends as after the sequential loop — cell `k < n` holds
    `f k (data k)`, no other cell is written.  For all `n`, all pool sizes ≥ 1, all callbacks `f` (as functions). -/
theorem modify_parallel_eq_sequential_ModifyFloat3 {α : Type} (f : Int → α → α) (data : Int → α) (n size : Nat) (hs : 1 ≤ size)
    (w : Int → Int) (hw : ModifyFloat3AttributeParallelWithPoolSize.spec.writeIndex = some w)
    (m : Int → α) (s : List (Int × α)) (hsched : Interleaving (ModifyFloat3AttributeParallelWithPoolSize.spec.storeLogs w f data n size) s) :
    run m s = run m (seqEvents (fun k => f k (data k)) n) ∧
    ∀ k : Int, run m s k = if 0 ≤ k ∧ k < n then f k (data k) else m k := by
  have hwi : ∀ j, w j = j := by
    have : w = fun i => i := (Option.some.inj hw).symm
    intro j; rw [this]
  have h1 := modify_any_schedule std_ModifyFloat3 (fun _ => rfl) w hwi f data n size hs m s hsched
  exact ⟨h1, fun k => by rw [h1, run_seqEvents]⟩
example : ∃ w, ModifyFloat3AttributeParallelWithPoolSize.spec.writeIndex = some w := ⟨_, rfl⟩

/-- `Mesh.ModifyFloat2AttributeParallelWithPoolSize` = `Mesh.ModifyFloat2Attribute` on every schedule: whatever the interleaving `s` of the
    workers' stores `modified[j] = f(j, oldData[j])`, the array ends as after the sequential loop — cell `k < n` holds
    `f k (data k)`, no other cell is written.  For all `n`, all pool sizes ≥ 1, all callbacks `f` (as functions). -/
theorem modify_parallel_eq_sequential_ModifyFloat2 {α : Type} (f : Int → α → α) (data : Int → α) (n size : Nat) (hs : 1 ≤ size)
    (w : Int → Int) (hw : ModifyFloat2AttributeParallelWithPoolSize.spec.writeIndex = some w)
    (m : Int → α) (s : List (Int × α)) (hsched : Interleaving (ModifyFloat2AttributeParallelWithPoolSize.spec.storeLogs w f data n size) s) :
    run m s = run m (seqEvents (fun k => f k (data k)) n) ∧
    ∀ k : Int, run m s k = if 0 ≤ k ∧ k < n then f k (data k) else m k := by
  have hwi : ∀ j, w j = j := by
    have : w = fun i => i := (Option.some.inj hw).symm
    intro j; rw [this]
  have h1 := modify_any_schedule std_ModifyFloat2 (fun _ => rfl) w hwi f data n size hs m s hsched
  exact ⟨h1, fun k => by rw [h1, run_seqEvents]⟩
example : ∃ w, ModifyFloat2AttributeParallelWithPoolSize.spec.writeIndex = some w := ⟨_, rfl⟩

/-- `Mesh.ModifyFloat1AttributeParallelWithPoolSize` = `Mesh.ModifyFloat1Attribute` on every schedule: whatever the interleaving `s` of the
    workers' stores `modified[j] = f(j, oldData[j])`, the array ends as after the sequential loop — cell `k < n` holds
    `f k (data k)`, no other cell is written.  For all `n`, all pool sizes ≥ 1, all callbacks `f` (as functions). -/
theorem modify_parallel_eq_sequential_ModifyFloat1 {α : Type} (f : Int → α → α) (data : Int → α) (n size : Nat) (hs : 1 ≤ size)
    (w : Int → Int) (hw : ModifyFloat1AttributeParallelWithPoolSize.spec.writeIndex = some w)
    (m : Int → α) (s : List (Int × α)) (hsched : Interleaving (ModifyFloat1AttributeParallelWithPoolSize.spec.storeLogs w f data n size) s) :
    run m s = run m (seqEvents (fun k => f k (data k)) n) ∧
    ∀ k : Int, run m s k = if 0 ≤ k ∧ k < n then f k (data k) else m k := by
  have hwi : ∀ j, w j = j := by
    have : w = fun i => i := (Option.some.inj hw).symm
    intro j; rw [this]
  have h1 := modify_any_schedule std_ModifyFloat1 (fun _ => rfl) w hwi f data n size hs m s hsched
  exact ⟨h1, fun k => by rw [h1, run_seqEvents]⟩
example : ∃ w, ModifyFloat1AttributeParallelWithPoolSize.spec.writeIndex = some w := ⟨_, rfl⟩

/-- **scan_multiset** for `ScanFloat3AttributeParallelWithPoolSize.spec`: on every schedule the callback receives exactly the (index, value) pairs of the
    sequential scan, each once (a permutation of `[(0, data 0), …, (n-1, data (n-1))]`) -/
theorem scan_multiset_ScanFloat3 {α : Type} (data : Int → α) (n size : Nat) (hs : 1 ≤ size)
    (s : List (Int × α)) (hsched : Interleaving (ScanFloat3AttributeParallelWithPoolSize.spec.callLogs data n size) s) :
    s.Perm (seqEvents data n) :=
  scan_any_schedule std_ScanFloat3 (fun _ => rfl) data n size hs s hsched

/-- **scan_multiset** for `ScanFloat2AttributeParallelWithPoolSize.spec`: on every schedule the callback receives exactly the (index, value) pairs of the
    sequential scan, each once (a permutation of `[(0, data 0), …, (n-1, data (n-1))]`) -/
theorem scan_multiset_ScanFloat2 {α : Type} (data : Int → α) (n size : Nat) (hs : 1 ≤ size)
    (s : List (Int × α)) (hsched : Interleaving (ScanFloat2AttributeParallelWithPoolSize.spec.callLogs data n size) s) :
    s.Perm (seqEvents data n) :=
  scan_any_schedule std_ScanFloat2 (fun _ => rfl) data n size hs s hsched

/-- **scan_multiset** for `ScanFloat1AttributeParallelWithPoolSize.spec`: on every schedule the callback receives exactly the (index, value) pairs of the
    sequential scan, each once (a permutation of `[(0, data 0), …, (n-1, data (n-1))]`) -/
theorem scan_multiset_ScanFloat1 {α : Type} (data : Int → α) (n size : Nat) (hs : 1 ≤ size)
    (s : List (Int × α)) (hsched : Interleaving (ScanFloat1AttributeParallelWithPoolSize.spec.callLogs data n size) s) :
    s.Perm (seqEvents data n) :=
  scan_any_schedule std_ScanFloat1 (fun _ => rfl) data n size hs s hsched

/-- **scan_multiset** for `ScanPrimitivesParallelWithPoolSize.spec_TriangleTopology`: on every schedule the callback receives exactly the (index, value) pairs of the
    sequential scan, each once (a permutation of `[(0, data 0), …, (n-1, data (n-1))]`) -/
theorem scan_multiset_ScanPrimitives_Triangle {α : Type} (data : Int → α) (n size : Nat) (hs : 1 ≤ size)
    (s : List (Int × α)) (hsched : Interleaving (ScanPrimitivesParallelWithPoolSize.spec_TriangleTopology.callLogs data n size) s) :
    s.Perm (seqEvents data n) :=
  scan_any_schedule std_ScanPrimitives_Triangle (fun _ => rfl) data n size hs s hsched

/-- **scan_multiset** for `ScanPrimitivesParallelWithPoolSize.spec_PointTopology`: on every schedule the callback receives exactly the (index, value) pairs of the
    sequential scan, each once (a permutation of `[(0, data 0), …, (n-1, data (n-1))]`) -/
theorem scan_multiset_ScanPrimitives_Point {α : Type} (data : Int → α) (n size : Nat) (hs : 1 ≤ size)
    (s : List (Int × α)) (hsched : Interleaving (ScanPrimitivesParallelWithPoolSize.spec_PointTopology.callLogs data n size) s) :
    s.Perm (seqEvents data n) :=
  scan_any_schedule std_ScanPrimitives_Point (fun _ => rfl) data n size hs s hsched

/-- **scan_multiset** for `ScanPrimitivesParallelWithPoolSize.spec_LineStripTopology`: on every schedule the callback receives exactly the (index, value) pairs of the
    sequential scan, each once (a permutation of `[(0, data 0), …, (n-1, data (n-1))]`) -/
theorem scan_multiset_ScanPrimitives_LineStrip {α : Type} (data : Int → α) (n size : Nat) (hs : 1 ≤ size)
    (s : List (Int × α)) (hsched : Interleaving (ScanPrimitivesParallelWithPoolSize.spec_LineStripTopology.callLogs data n size) s) :
    s.Perm (seqEvents data n) :=
  scan_any_schedule std_ScanPrimitives_LineStrip (fun _ => rfl) data n size hs s hsched


/-! ## Part 3 — block jobs (marching canvas)

About the expressions regenerated from modeling/marching/canvas.go (`Gen/Partition.lean`, namespace `Canvas`).
`lo`, `hi` are the padded domain bounds of one axis (`fieldBounds`), `c` a block coordinate. -/

private theorem fdiv100 (x : Int) : Int.fdiv x 100 = x / 100 := Int.fdiv_eq_ediv_of_nonneg x (by decide)

/-- **blocks_disjoint** for `AddField`: on each axis the per-block sample ranges (block bounds clamped to the padded domain)
    partition the padded domain — every sample belongs to the range of exactly one enumerated block (its own), ranges of
    different blocks are disjoint, and block-local coordinates are valid cell coordinates.  For all domains. -/
theorem blocks_disjoint_AddField :
    AxisPartition Canvas.chunkOfX Canvas.AddField.startX Canvas.AddField.endX ∧
    AxisPartition Canvas.chunkOfY Canvas.AddField.startY Canvas.AddField.endY ∧
    AxisPartition Canvas.chunkOfZ Canvas.AddField.startZ Canvas.AddField.endZ := by
  refine ⟨?_, ?_, ?_⟩ <;>
  · apply axisPartition_std
    · intro x; first | exact fdiv100 x
    · intro c lo hi; rfl
    · intro c lo hi; rfl

/-- **blocks_disjoint** for `AddFieldParallel`: on each axis the per-block sample ranges (block bounds clamped to the padded domain)
    partition the padded domain — every sample belongs to the range of exactly one enumerated block (its own), ranges of
    different blocks are disjoint, and block-local coordinates are valid cell coordinates.  For all domains. -/
theorem blocks_disjoint_AddFieldParallel :
    AxisPartition Canvas.chunkOfX Canvas.AddFieldParallel.startX Canvas.AddFieldParallel.endX ∧
    AxisPartition Canvas.chunkOfY Canvas.AddFieldParallel.startY Canvas.AddFieldParallel.endY ∧
    AxisPartition Canvas.chunkOfZ Canvas.AddFieldParallel.startZ Canvas.AddFieldParallel.endZ := by
  refine ⟨?_, ?_, ?_⟩ <;>
  · apply axisPartition_std
    · intro x; first | exact fdiv100 x
    · intro c lo hi; rfl
    · intro c lo hi; rfl

/-- **blocks_disjoint** for `AddFieldParallel2`: on each axis the per-block sample ranges (block bounds clamped to the padded domain)
    partition the padded domain — every sample belongs to the range of exactly one enumerated block (its own), ranges of
    different blocks are disjoint, and block-local coordinates are valid cell coordinates.  For all domains. -/
theorem blocks_disjoint_AddFieldParallel2 :
    AxisPartition Canvas.chunkOfX Canvas.AddFieldParallel2.startX Canvas.AddFieldParallel2.endX ∧
    AxisPartition Canvas.chunkOfY Canvas.AddFieldParallel2.startY Canvas.AddFieldParallel2.endY ∧
    AxisPartition Canvas.chunkOfZ Canvas.AddFieldParallel2.startZ Canvas.AddFieldParallel2.endZ := by
  refine ⟨?_, ?_, ?_⟩ <;>
  · apply axisPartition_std
    · intro x; first | exact fdiv100 x
    · intro c lo hi; rfl
    · intro c lo hi; rfl

example : Canvas.AddField.startX (-2) (-137) 212 = -137 ∧ Canvas.AddField.endX (-2) (-137) 212 = -100 ∧
    Canvas.AddField.startX 2 (-137) 212 = 200 ∧ Canvas.AddField.endX 2 (-137) 212 = 212 := by decide

/-- `chunkSectionsInRange` enumerates, per axis, exactly the blocks `chunkOf lo … chunkOf hi` (none when `hi < lo`) -/
theorem chunks_enumerated (lo hi : Int) :
    (intRange 0 (Canvas.chunkCountX lo hi)).map (Canvas.chunkAtX lo hi) = intRange lo (hi + 1) ∧
    (intRange 0 (Canvas.chunkCountY lo hi)).map (Canvas.chunkAtY lo hi) = intRange lo (hi + 1) ∧
    (intRange 0 (Canvas.chunkCountZ lo hi)).map (Canvas.chunkAtZ lo hi) = intRange lo (hi + 1) := by
  have key : (intRange 0 (hi - lo + 1)).map (fun k => lo + k) = intRange lo (hi + 1) := by
    unfold intRange
    rw [List.map_map]
    have : (hi - lo + 1 - 0).toNat = (hi + 1 - lo).toNat := by omega
    rw [this]
    apply List.map_congr_left
    intro k _
    simp
  exact ⟨key, key, key⟩

/-- cells of one block: `index` is injective on valid cell coordinates and stays inside the block array (100³ cells) -/
theorem index_injective (x y z x' y' z' : Int)
    (hx : 0 ≤ x ∧ x < 100) (hy : 0 ≤ y ∧ y < 100) (hz : 0 ≤ z ∧ z < 100)
    (hx' : 0 ≤ x' ∧ x' < 100) (hy' : 0 ≤ y' ∧ y' < 100) (_hz' : 0 ≤ z' ∧ z' < 100) :
    (0 ≤ Canvas.index x y z ∧ Canvas.index x y z < 100 * 100 * 100) ∧
    (Canvas.index x y z = Canvas.index x' y' z' → x = x' ∧ y = y' ∧ z = z') := by
  simp only [Canvas.index]
  constructor
  · omega
  · intro h; omega

/-- block workers: all three loop over exactly `[start, end)` per axis; the cell written is the block-local coordinate
    `x - 100·c`; `calcFloat1Range` fills its linear buffer in the nesting order in which `AddFieldParallel2` reads it back;
    and both sample the field at `(x, y, z)` in this argument order (the `(z, y, x)` defect of e720d2f breaks this) -/
theorem block_workers_agree :
    (∀ lo hi, Canvas.addFloat1Range.loopLoX lo hi = lo ∧ Canvas.addFloat1Range.loopHiX lo hi = hi ∧
              Canvas.addFloat1Range.loopLoY lo hi = lo ∧ Canvas.addFloat1Range.loopHiY lo hi = hi ∧
              Canvas.addFloat1Range.loopLoZ lo hi = lo ∧ Canvas.addFloat1Range.loopHiZ lo hi = hi) ∧
    (∀ lo hi, Canvas.calcFloat1Range.loopLoX lo hi = lo ∧ Canvas.calcFloat1Range.loopHiX lo hi = hi ∧
              Canvas.calcFloat1Range.loopLoY lo hi = lo ∧ Canvas.calcFloat1Range.loopHiY lo hi = hi ∧
              Canvas.calcFloat1Range.loopLoZ lo hi = lo ∧ Canvas.calcFloat1Range.loopHiZ lo hi = hi) ∧
    (∀ lo hi, Canvas.AddFieldParallel2.merge.loopLoX lo hi = lo ∧ Canvas.AddFieldParallel2.merge.loopHiX lo hi = hi ∧
              Canvas.AddFieldParallel2.merge.loopLoY lo hi = lo ∧ Canvas.AddFieldParallel2.merge.loopHiY lo hi = hi ∧
              Canvas.AddFieldParallel2.merge.loopLoZ lo hi = lo ∧ Canvas.AddFieldParallel2.merge.loopHiZ lo hi = hi) ∧
    (∀ x c, Canvas.addFloat1Range.localX x c = x - c * 100 ∧ Canvas.addFloat1Range.localY x c = x - c * 100 ∧
            Canvas.addFloat1Range.localZ x c = x - c * 100 ∧ Canvas.AddFieldParallel2.merge.localX x c = x - c * 100 ∧
            Canvas.AddFieldParallel2.merge.localY x c = x - c * 100 ∧ Canvas.AddFieldParallel2.merge.localZ x c = x - c * 100) ∧
    Canvas.calcFloat1Range.nesting = Canvas.AddFieldParallel2.merge.nesting ∧
    Canvas.addFloat1Range.sampleArgs = ["x", "y", "z"] ∧ Canvas.calcFloat1Range.sampleArgs = ["x", "y", "z"] := by
  refine ⟨fun _ _ => ⟨rfl, rfl, rfl, rfl, rfl, rfl⟩, fun _ _ => ⟨rfl, rfl, rfl, rfl, rfl, rfl⟩,
    fun _ _ => ⟨rfl, rfl, rfl, rfl, rfl, rfl⟩, fun _ _ => ⟨rfl, rfl, rfl, rfl, rfl, rfl⟩, by decide, by decide, by decide⟩


/-! ### One theorem: `AddFieldParallel` / `AddFieldParallel2` = `AddField`, cell for cell, on every schedule

Model/ParCanvas.lean builds, from the regenerated expressions, the jobs of one `AddField*` call: one job per enumerated block,
its events the read-modify-write updates `data[index(local x, local y, local z)] += sample(x, y, z)` of its triple loop
(`g x y z : α → α` is that update — any function, so nothing about float addition is assumed). A cell is (block, index). -/

theorem fieldOK_AddField : FieldOK addFieldFns := by
  refine ⟨?_, ?_, ?_, ?_⟩
  · constructor
    · intro lo hi
      exact nodup_map_of_inj (nodup_intRange _ _) (fun a _ a' _ e => by simp only [Canvas.chunkAtX] at e; omega)
    · intro c lo hi x hx
      simp only [AxisFns.range, mem_intRange] at hx
      exact blocks_disjoint_AddField.1.inBlock lo hi c x hx.1 hx.2
    · intro c x x' e
      change x - c * 100 = x' - c * 100 at e; omega
  · constructor
    · intro lo hi
      exact nodup_map_of_inj (nodup_intRange _ _) (fun a _ a' _ e => by simp only [Canvas.chunkAtY] at e; omega)
    · intro c lo hi x hx
      simp only [AxisFns.range, mem_intRange] at hx
      exact blocks_disjoint_AddField.2.1.inBlock lo hi c x hx.1 hx.2
    · intro c x x' e
      change x - c * 100 = x' - c * 100 at e; omega
  · constructor
    · intro lo hi
      exact nodup_map_of_inj (nodup_intRange _ _) (fun a _ a' _ e => by simp only [Canvas.chunkAtZ] at e; omega)
    · intro c lo hi x hx
      simp only [AxisFns.range, mem_intRange] at hx
      exact blocks_disjoint_AddField.2.2.inBlock lo hi c x hx.1 hx.2
    · intro c x x' e
      change x - c * 100 = x' - c * 100 at e; omega
  · intro x y z x' y' z' hx hy hz hx' hy' hz' e
    exact (index_injective x y z x' y' z' hx hy hz hx' hy' hz').2 e

theorem fieldOK_AddFieldParallel : FieldOK addFieldParallelFns := by
  refine ⟨?_, ?_, ?_, ?_⟩
  · constructor
    · intro lo hi
      exact nodup_map_of_inj (nodup_intRange _ _) (fun a _ a' _ e => by simp only [Canvas.chunkAtX] at e; omega)
    · intro c lo hi x hx
      simp only [AxisFns.range, mem_intRange] at hx
      exact blocks_disjoint_AddFieldParallel.1.inBlock lo hi c x hx.1 hx.2
    · intro c x x' e
      change x - c * 100 = x' - c * 100 at e; omega
  · constructor
    · intro lo hi
      exact nodup_map_of_inj (nodup_intRange _ _) (fun a _ a' _ e => by simp only [Canvas.chunkAtY] at e; omega)
    · intro c lo hi x hx
      simp only [AxisFns.range, mem_intRange] at hx
      exact blocks_disjoint_AddFieldParallel.2.1.inBlock lo hi c x hx.1 hx.2
    · intro c x x' e
      change x - c * 100 = x' - c * 100 at e; omega
  · constructor
    · intro lo hi
      exact nodup_map_of_inj (nodup_intRange _ _) (fun a _ a' _ e => by simp only [Canvas.chunkAtZ] at e; omega)
    · intro c lo hi x hx
      simp only [AxisFns.range, mem_intRange] at hx
      exact blocks_disjoint_AddFieldParallel.2.2.inBlock lo hi c x hx.1 hx.2
    · intro c x x' e
      change x - c * 100 = x' - c * 100 at e; omega
  · intro x y z x' y' z' hx hy hz hx' hy' hz' e
    exact (index_injective x y z x' y' z' hx hy hz hx' hy' hz').2 e

theorem fieldOK_AddFieldParallel2 : FieldOK addFieldParallel2Fns := by
  refine ⟨?_, ?_, ?_, ?_⟩
  · constructor
    · intro lo hi
      exact nodup_map_of_inj (nodup_intRange _ _) (fun a _ a' _ e => by simp only [Canvas.chunkAtX] at e; omega)
    · intro c lo hi x hx
      simp only [AxisFns.range, mem_intRange] at hx
      exact blocks_disjoint_AddFieldParallel2.1.inBlock lo hi c x hx.1 hx.2
    · intro c x x' e
      change x - c * 100 = x' - c * 100 at e; omega
  · constructor
    · intro lo hi
      exact nodup_map_of_inj (nodup_intRange _ _) (fun a _ a' _ e => by simp only [Canvas.chunkAtY] at e; omega)
    · intro c lo hi x hx
      simp only [AxisFns.range, mem_intRange] at hx
      exact blocks_disjoint_AddFieldParallel2.2.1.inBlock lo hi c x hx.1 hx.2
    · intro c x x' e
      change x - c * 100 = x' - c * 100 at e; omega
  · constructor
    · intro lo hi
      exact nodup_map_of_inj (nodup_intRange _ _) (fun a _ a' _ e => by simp only [Canvas.chunkAtZ] at e; omega)
    · intro c lo hi x hx
      simp only [AxisFns.range, mem_intRange] at hx
      exact blocks_disjoint_AddFieldParallel2.2.2.inBlock lo hi c x hx.1 hx.2
    · intro c x x' e
      change x - c * 100 = x' - c * 100 at e; omega
  · intro x y z x' y' z' hx hy hz hx' hy' hz' e
    exact (index_injective x y z x' y' z' hx hy hz hx' hy' hz').2 e

/-- all cells updated during one `AddField*` call are pairwise different: within a job (index injective on block-local
    coordinates, which are valid by `blocks_disjoint_*`) and across jobs (different blocks, each enumerated once) -/
theorem addfield_cells_distinct {α : Type} (d : Dom) (g : Int → Int → Int → α → α) :
    ((((addFieldParallelFns.blocks d).map (addFieldParallelFns.jobLog d g)).flatten).map Prod.fst).Nodup ∧
    ((((addFieldParallel2Fns.blocks d).map (addFieldParallel2Fns.jobLog d g)).flatten).map Prod.fst).Nodup ∧
    ((((addFieldFns.blocks d).map (addFieldFns.jobLog d g)).flatten).map Prod.fst).Nodup :=
  ⟨all_keys_nodup fieldOK_AddFieldParallel d g, all_keys_nodup fieldOK_AddFieldParallel2 d g, all_keys_nodup fieldOK_AddField d g⟩

/-- **addFieldParallel_eq_addField** — for every padded domain `d` (any integer bounds, any number of blocks), every sample update
    `g`, every initial canvas `m` and EVERY interleaving `s` of the block jobs of `AddFieldParallel` (a worker that takes several
    jobs one after the other is such an interleaving): the canvas ends exactly as after the sequential `AddField`, which runs
    the jobs of ITS regenerated expressions block after block.  Same for `AddFieldParallel2`, whose merge loop applies the
    jobs in completion order. -/
theorem addFieldParallel_eq_addField {α : Type} (d : Dom) (g : Int → Int → Int → α → α) (m : Cell → α)
    (s : List (Cell × (α → α))) :
    (Interleaving ((addFieldParallelFns.blocks d).map (addFieldParallelFns.jobLog d g)) s →
      runUpd m s = runUpd m ((addFieldFns.blocks d).map (addFieldFns.jobLog d g)).flatten) ∧
    (Interleaving ((addFieldParallel2Fns.blocks d).map (addFieldParallel2Fns.jobLog d g)) s →
      runUpd m s = runUpd m ((addFieldFns.blocks d).map (addFieldFns.jobLog d g)).flatten) := by
  have e1 : addFieldParallelFns = addFieldFns := rfl
  have e2 : addFieldParallel2Fns = addFieldFns := rfl
  constructor
  · intro hs
    rw [updates_irrelevant _ (addfield_cells_distinct d g).1 m s hs, e1]
  · intro hs
    rw [updates_irrelevant _ (addfield_cells_distinct d g).2.1 m s hs, e2]

example : (addFieldParallelFns.blocks ⟨-3, 104, 0, 5, 95, 230⟩).length = 9 := by decide

/-- **append_perm_tris** — `marchFloat1Parallel` appends the block meshes in completion order, `marchFloat1` in map-iteration
    order: whatever the order, the merged mesh has the same multiset of triangles-as-corner-positions (every block mesh
    well-formed).  Marching parallel = sequential as triangle multisets, for any number of blocks and any arrival order. -/
theorem append_perm_tris {V : Type} (l₁ l₂ : List (TMesh V)) (hp : l₁.Perm l₂) (hwf : ∀ m ∈ l₁, m.WF) :
    (TMesh.mergeAll l₁).corners.Perm (TMesh.mergeAll l₂).corners := by
  rw [TMesh.corners_mergeAll l₁ hwf, TMesh.corners_mergeAll l₂ (fun m hm => hwf m (hp.mem_iff.mpr hm))]
  exact (hp.map TMesh.corners).flatten

example : (TMesh.mk ['a', 'b', 'c'] [(0, 1, 2)]).WF := by
  intro t ht; simp at ht; subst ht; decide

/-- the merged mesh is exactly the concatenation of the blocks' triangles (no triangle lost, none invented, none altered) -/
theorem merge_keeps_all_tris {V : Type} (l : List (TMesh V)) (hwf : ∀ m ∈ l, m.WF) :
    (TMesh.mergeAll l).corners = (l.map TMesh.corners).flatten := TMesh.corners_mergeAll l hwf

/-! ## Part 4 — storage allocation under `chunkMutex`, the channel protocol, the single-CPU delegation

`Model/ParAlloc.lean`: concrete storage `Store` = slot list (`slots[i]` owns `float1Data[i]`; `positions` is its inverse), cell
memory by (slot, index), and each job's own `index` variable; events `alloc b` (the whole `chunkIndex_atomic` critical section:
lookup-or-append, atomic because the extractor found `Lock(); defer Unlock()` around it and no store to shared storage anywhere
else — `Locks.*`) and `upd b k u` (cell update through the job's `index`).  `Store.view` is the canvas as `March` reads it: by
block, through `positions`; a block without storage reads as the zero value. -/

/-- **slots_any_interleaving** — one `AddField*` call on ANY existing canvas `σ0`, ANY interleaving `s` of its block jobs (any
    number of workers): afterwards no block has two slots, slots handed out earlier have not moved, a block has a slot iff it had
    one or is one of the call's blocks — so every block of the call gets exactly one slot — and distinct blocks have distinct slots -/
theorem slots_any_interleaving {α : Type} (z : α) (F : FieldFns) (d : Dom) (g : Int → Int → Int → α → α)
    (σ0 : Store α) (h0 : σ0.slots.Nodup) (s : List (SEv α))
    (hs : Interleaving ((F.blocks d).map (F.cjobLog d g)) s) :
    (σ0.run z s).slots.Nodup ∧ σ0.slots <+: (σ0.run z s).slots ∧
    (∀ b, b ∈ (σ0.run z s).slots ↔ b ∈ σ0.slots ∨ b ∈ F.blocks d) ∧
    (∀ a b, a ∈ (σ0.run z s).slots → b ∈ (σ0.run z s).slots →
      slotOf (σ0.run z s).slots a = slotOf (σ0.run z s).slots b → a = b) := by
  have h := slots_of_interleaving z F d g σ0 h0 s hs
  exact ⟨h.1, h.2.1, h.2.2, fun a b ha hb e => slotOf_inj ha hb e⟩

/-- **slot_table_schedule_independent** — two schedules of the same call may number the new slots differently, but the final
    tables are permutations of one another (the set of blocks with storage is a function of the job set alone) -/
theorem slot_table_schedule_independent {α : Type} (z : α) (F : FieldFns) (d : Dom) (g : Int → Int → Int → α → α)
    (σ0 : Store α) (h0 : σ0.slots.Nodup) (s t : List (SEv α))
    (hs : Interleaving ((F.blocks d).map (F.cjobLog d g)) s) (ht : Interleaving ((F.blocks d).map (F.cjobLog d g)) t) :
    (σ0.run z s).slots.Perm (σ0.run z t).slots := by
  have h1 := slots_of_interleaving z F d g σ0 h0 s hs
  have h2 := slots_of_interleaving z F d g σ0 h0 t ht
  rw [List.perm_ext_iff_of_nodup h1.1 h2.1]
  intro b; rw [h1.2.2 b, h2.2.2 b]

/-- **addFieldParallel_eq_addField_storage** — the headline without the "distinct blocks own distinct arrays" assumption: for
    every padded domain, sample update, existing canvas `σ0` (any slot table without duplicates, any contents) and EVERY
    interleaving `s` of the block jobs of `AddFieldParallel` (resp. `AddFieldParallel2`) executed on the CONCRETE storage with
    allocation under the mutex, the canvas read through `positions` is the canvas after the sequential `AddField` executed on the
    same storage — slot numbers may differ, contents by block do not. -/
theorem addFieldParallel_eq_addField_storage {α : Type} (z : α) (d : Dom) (g : Int → Int → Int → α → α)
    (σ0 : Store α) (h0 : σ0.slots.Nodup) (s : List (SEv α)) :
    (Interleaving ((addFieldParallelFns.blocks d).map (addFieldParallelFns.cjobLog d g)) s →
      (σ0.run z s).view z = (σ0.run z ((addFieldFns.blocks d).map (addFieldFns.cjobLog d g)).flatten).view z) ∧
    (Interleaving ((addFieldParallel2Fns.blocks d).map (addFieldParallel2Fns.cjobLog d g)) s →
      (σ0.run z s).view z = (σ0.run z ((addFieldFns.blocks d).map (addFieldFns.cjobLog d g)).flatten).view z) := by
  have hseq := view_of_interleaving z fieldOK_AddField d g σ0 h0 _ (Interleaving.flatten _)
  have e1 : addFieldParallelFns = addFieldFns := rfl
  have e2 : addFieldParallel2Fns = addFieldFns := rfl
  constructor
  · intro hs; rw [view_of_interleaving z fieldOK_AddFieldParallel d g σ0 h0 s hs, hseq, e1]
  · intro hs; rw [view_of_interleaving z fieldOK_AddFieldParallel2 d g σ0 h0 s hs, hseq, e2]

/-- …and that common canvas is the block-keyed sequential run of Part 3 (`addFieldParallel_eq_addField`) -/
theorem addField_storage_view {α : Type} (z : α) (d : Dom) (g : Int → Int → Int → α → α) (σ0 : Store α) (h0 : σ0.slots.Nodup) :
    (σ0.run z ((addFieldFns.blocks d).map (addFieldFns.cjobLog d g)).flatten).view z
      = runUpd (σ0.view z) ((addFieldFns.blocks d).map (addFieldFns.jobLog d g)).flatten :=
  view_of_interleaving z fieldOK_AddField d g σ0 h0 _ (Interleaving.flatten _)

/-- two workers, two colliding allocations: in one schedule block `(0,0,0)` gets slot 0, in the other slot 1 — the slot tables
    differ, the canvases read by block do not; and a block requested by two jobs gets ONE slot -/
example :
    let b1 : Block := (0, 0, 0); let b2 : Block := (1, 0, 0)
    let s : List (SEv Nat) := [.alloc b1, .alloc b2, .upd b2 5 (· + 7), .upd b1 5 (· + 3)]
    let t : List (SEv Nat) := [.alloc b2, .alloc b1, .upd b1 5 (· + 3), .upd b2 5 (· + 7)]
    let σ0 : Store Nat := ⟨[], fun _ => 0, fun _ => 0⟩
    (σ0.run 0 s).slots = [b1, b2] ∧ (σ0.run 0 t).slots = [b2, b1] ∧
    (σ0.run 0 s).view 0 (b1, 5) = 3 ∧ (σ0.run 0 t).view 0 (b1, 5) = 3 ∧
    (σ0.run 0 s).view 0 (b2, 5) = 7 ∧ (σ0.run 0 t).view 0 (b2, 5) = 7 ∧
    (σ0.run 0 [.alloc b1, .alloc b1, .upd b1 1 (· + 1), .upd b1 1 (· + 1)]).slots = [b1] := by decide

/-! ### channel protocol (`Model/ParChan.lean`)

`Chan.Step` is one step of the system producer ‖ workers ‖ collector over two FIFO channels with capacities (a send needs room,
or — any capacity, including 0 — a waiting receiver); `Chan.Reach` any finite execution.  The protocol parameters below are the
ones regenerated from the source (`Sync.*`): mode, channel capacities, number of goroutines, number of sends, collector bound. -/

/-- the counts the protocol theorems need, about the regenerated expressions: `AddFieldParallel` collects one completion per
    goroutine it started; `AddFieldParallel2` and `marchFloat1Parallel` collect exactly as many results as jobs are sent
    (for `AddFieldParallel2` this was false before the fix — `len(chunkSections)` collected, `len(Float1Functions)·len(chunkSections)` sent) -/
theorem protocol_counts (funcs chunks blocks workers : Nat) :
    Sync.AddFieldParallel.mode = Chan.Mode.perWorker ∧
    Sync.AddFieldParallel.collects funcs chunks blocks workers = Sync.AddFieldParallel.spawned funcs chunks blocks workers ∧
    Sync.AddFieldParallel2.mode = Chan.Mode.perJob ∧
    Sync.AddFieldParallel2.collects funcs chunks blocks workers = Sync.AddFieldParallel2.sends funcs chunks blocks workers ∧
    Sync.marchFloat1Parallel.mode = Chan.Mode.perJob ∧
    Sync.marchFloat1Parallel.collects funcs chunks blocks workers = Sync.marchFloat1Parallel.sends funcs chunks blocks workers := by
  refine ⟨rfl, rfl, rfl, ?_, rfl, rfl⟩
  simp only [Sync.AddFieldParallel2.collects, Sync.AddFieldParallel2.sends]
  exact Nat.mul_comm _ _

/-- **addFieldParallel_protocol** — `AddFieldParallel` with the regenerated parameters, any job list of the length the producer
    sends, any number of goroutines ≥ 1, ANY execution: when the collector loop is done, every job (attribute, block) has been
    processed exactly once and every goroutine has left its loop -/
theorem addFieldParallel_protocol {J R : Type} [DecidableEq J] (f : J → R) (funcs chunks blocks workers : Nat) (hw : 0 < workers)
    (jobs : List J) (c : Chan.Cfg J R)
    (hr : Chan.Reach Sync.AddFieldParallel.mode (Sync.AddFieldParallel.jobsCap funcs chunks blocks workers)
      (Sync.AddFieldParallel.resCap funcs chunks blocks workers) f
      (Chan.init jobs (Sync.AddFieldParallel.spawned funcs chunks blocks workers)
        (Sync.AddFieldParallel.collects funcs chunks blocks workers)) c)
    (hdone : c.toCollect = 0) :
    c.processed.Perm jobs ∧ Chan.exitedCount c.workers = workers ∧ Chan.held c.workers = [] ∧ c.jobsQ = [] ∧ c.toSend = [] :=
  Chan.perWorker_complete hw hr hdone

/-- **addFieldParallel2_protocol / marchFloat1Parallel_protocol** — result-per-job protocol with the regenerated parameters: for
    any job list of the length the producer sends, any number of goroutines, ANY execution: when the collector loop is done every
    job has been processed exactly once and the collector holds exactly one result per job (no lost, no duplicated block result) -/
theorem addFieldParallel2_protocol {J R : Type} [DecidableEq J] (f : J → R) (funcs chunks blocks workers : Nat)
    (jobs : List J) (hlen : jobs.length = Sync.AddFieldParallel2.sends funcs chunks blocks workers) (c : Chan.Cfg J R)
    (hr : Chan.Reach Sync.AddFieldParallel2.mode (Sync.AddFieldParallel2.jobsCap funcs chunks blocks workers)
      (Sync.AddFieldParallel2.resCap funcs chunks blocks workers) f
      (Chan.init jobs (Sync.AddFieldParallel2.spawned funcs chunks blocks workers)
        (Sync.AddFieldParallel2.collects funcs chunks blocks workers)) c)
    (hdone : c.toCollect = 0) :
    c.processed.Perm jobs ∧ c.collected = c.processed.map (fun j => Chan.Msg.res (f j)) ∧ c.resQ = [] ∧
    Chan.held c.workers = [] ∧ c.jobsQ = [] ∧ c.toSend = [] := by
  rw [(protocol_counts funcs chunks blocks workers).2.2.2.1, ← hlen] at hr
  exact Chan.perJob_complete hr hdone

theorem marchFloat1Parallel_protocol {J R : Type} [DecidableEq J] (f : J → R) (funcs chunks blocks workers : Nat)
    (jobs : List J) (hlen : jobs.length = Sync.marchFloat1Parallel.sends funcs chunks blocks workers) (c : Chan.Cfg J R)
    (hr : Chan.Reach Sync.marchFloat1Parallel.mode (Sync.marchFloat1Parallel.jobsCap funcs chunks blocks workers)
      (Sync.marchFloat1Parallel.resCap funcs chunks blocks workers) f
      (Chan.init jobs (Sync.marchFloat1Parallel.spawned funcs chunks blocks workers)
        (Sync.marchFloat1Parallel.collects funcs chunks blocks workers)) c)
    (hdone : c.toCollect = 0) :
    c.processed.Perm jobs ∧ c.collected = c.processed.map (fun j => Chan.Msg.res (f j)) ∧ c.resQ = [] ∧
    Chan.held c.workers = [] ∧ c.jobsQ = [] ∧ c.toSend = [] := by
  rw [(protocol_counts funcs chunks blocks workers).2.2.2.2.2, ← hlen] at hr
  exact Chan.perJob_complete hr hdone

/-- at ANY moment of ANY execution of either protocol no job has been processed twice and none was invented -/
theorem no_job_twice {J R : Type} [DecidableEq J] (mode : Chan.Mode) (jobsCap resCap : Nat) (f : J → R) (jobs : List J)
    (n expect : Nat) (c : Chan.Cfg J R) (hr : Chan.Reach mode jobsCap resCap f (Chan.init jobs n expect) c) :
    ∀ x, c.processed.count x ≤ jobs.count x := Chan.processed_sub hr


/-- a complete execution with two workers and two jobs finishing out of order (non-vacuity of `Reach … ∧ toCollect = 0`) -/
example : ∃ c : Chan.Cfg Nat Nat, Chan.Reach Chan.Mode.perJob 2 2 (fun j => j + 1) (Chan.init [10, 20] 2 2) c ∧
    c.toCollect = 0 ∧ c.processed = [20, 10] ∧ c.collected = [Chan.Msg.res 21, Chan.Msg.res 11] := by
  have h := ((((((((((Chan.Reach.refl (mode := Chan.Mode.perJob) (jobsCap := 2) (resCap := 2) (f := fun j : Nat => j + 1) (c0 := Chan.init [10, 20] 2 2)).tail (Chan.Step.send rfl (by decide))).tail
      (Chan.Step.send rfl (by decide))).tail
      (Chan.Step.close rfl rfl)).tail
      (Chan.Step.recv (ws1 := []) (ws2 := [Chan.W.idle]) rfl rfl)).tail
      (Chan.Step.recv (ws1 := [Chan.W.busy 10]) (ws2 := []) rfl rfl)).tail
      (Chan.Step.finishSend (ws1 := [Chan.W.busy 10]) (ws2 := []) rfl rfl (by decide))).tail
      (Chan.Step.finishSend (ws1 := []) (ws2 := [Chan.W.idle]) rfl rfl (by decide))).tail
      (Chan.Step.collect rfl rfl)).tail
      (Chan.Step.collect rfl rfl))
  exact ⟨_, h, rfl, rfl, rfl⟩

/-- **no_deadlock** — with the regenerated capacities, goroutine counts and collector bounds, for any job list of the length
    the producer sends and at least one goroutine: in EVERY reachable state in which the collector has not finished some step is
    enabled (nothing is ever stuck: not the producer on a full jobs channel, not a worker on a full results channel, not the
    collector on results that never come) -/
theorem no_deadlock {J R : Type} [DecidableEq J] (f : J → R) (funcs chunks blocks workers : Nat) (hw : 0 < workers) (jobs : List J) :
    (∀ c : Chan.Cfg J R,
      Chan.Reach Sync.AddFieldParallel.mode (Sync.AddFieldParallel.jobsCap funcs chunks blocks workers)
        (Sync.AddFieldParallel.resCap funcs chunks blocks workers) f
        (Chan.init jobs (Sync.AddFieldParallel.spawned funcs chunks blocks workers)
          (Sync.AddFieldParallel.collects funcs chunks blocks workers)) c → 0 < c.toCollect →
      ∃ c', Chan.Step Sync.AddFieldParallel.mode (Sync.AddFieldParallel.jobsCap funcs chunks blocks workers)
        (Sync.AddFieldParallel.resCap funcs chunks blocks workers) f c c') ∧
    (jobs.length = Sync.AddFieldParallel2.sends funcs chunks blocks workers → ∀ c : Chan.Cfg J R,
      Chan.Reach Sync.AddFieldParallel2.mode (Sync.AddFieldParallel2.jobsCap funcs chunks blocks workers)
        (Sync.AddFieldParallel2.resCap funcs chunks blocks workers) f
        (Chan.init jobs (Sync.AddFieldParallel2.spawned funcs chunks blocks workers)
          (Sync.AddFieldParallel2.collects funcs chunks blocks workers)) c → 0 < c.toCollect →
      ∃ c', Chan.Step Sync.AddFieldParallel2.mode (Sync.AddFieldParallel2.jobsCap funcs chunks blocks workers)
        (Sync.AddFieldParallel2.resCap funcs chunks blocks workers) f c c') ∧
    (jobs.length = Sync.marchFloat1Parallel.sends funcs chunks blocks workers → ∀ c : Chan.Cfg J R,
      Chan.Reach Sync.marchFloat1Parallel.mode (Sync.marchFloat1Parallel.jobsCap funcs chunks blocks workers)
        (Sync.marchFloat1Parallel.resCap funcs chunks blocks workers) f
        (Chan.init jobs (Sync.marchFloat1Parallel.spawned funcs chunks blocks workers)
          (Sync.marchFloat1Parallel.collects funcs chunks blocks workers)) c → 0 < c.toCollect →
      ∃ c', Chan.Step Sync.marchFloat1Parallel.mode (Sync.marchFloat1Parallel.jobsCap funcs chunks blocks workers)
        (Sync.marchFloat1Parallel.resCap funcs chunks blocks workers) f c c') := by
  refine ⟨fun c hr hgo => Chan.perWorker_progress hw hw hr hgo, fun hlen c hr hgo => ?_, fun hlen c hr hgo => ?_⟩
  · rw [(protocol_counts funcs chunks blocks workers).2.2.2.1, ← hlen] at hr
    refine Chan.perJob_progress hw (fun hne => ?_) hr hgo
    show 0 < Sync.AddFieldParallel2.resCap funcs chunks blocks workers
    have : Sync.AddFieldParallel2.resCap funcs chunks blocks workers = jobs.length := by
      rw [hlen]; simp only [Sync.AddFieldParallel2.resCap, Sync.AddFieldParallel2.sends]; exact Nat.mul_comm _ _
    rw [this]; exact List.length_pos_iff.mpr hne
  · rw [(protocol_counts funcs chunks blocks workers).2.2.2.2.2, ← hlen] at hr
    refine Chan.perJob_progress hw (fun hne => ?_) hr hgo
    show 0 < Sync.marchFloat1Parallel.resCap funcs chunks blocks workers
    have : Sync.marchFloat1Parallel.resCap funcs chunks blocks workers = jobs.length := by rw [hlen]; rfl
    rw [this]; exact List.length_pos_iff.mpr hne

/-- **producer_never_blocks** — `AddFieldParallel2` and `marchFloat1Parallel` size the jobs channel by the number of jobs sent, so
    in every reachable state the producer's next `jobs <- j` finds room: it cannot block before the collector starts
    (`AddFieldParallel` sizes it by `len(chunkSections)` while it sends `len(Float1Functions)·len(chunkSections)` jobs: there the
    producer may wait for a worker, which `no_deadlock` shows is harmless) -/
theorem producer_never_blocks {J R : Type} [DecidableEq J] (f : J → R) (funcs chunks blocks workers : Nat) (jobs : List J)
    (n expect : Nat) (c : Chan.Cfg J R) (j : J) (t : List J) (hs : c.toSend = j :: t) :
    (jobs.length = Sync.AddFieldParallel2.sends funcs chunks blocks workers →
      Chan.Reach Sync.AddFieldParallel2.mode (Sync.AddFieldParallel2.jobsCap funcs chunks blocks workers)
        (Sync.AddFieldParallel2.resCap funcs chunks blocks workers) f (Chan.init jobs n expect) c →
      c.jobsQ.length < Sync.AddFieldParallel2.jobsCap funcs chunks blocks workers) ∧
    (jobs.length = Sync.marchFloat1Parallel.sends funcs chunks blocks workers →
      Chan.Reach Sync.marchFloat1Parallel.mode (Sync.marchFloat1Parallel.jobsCap funcs chunks blocks workers)
        (Sync.marchFloat1Parallel.resCap funcs chunks blocks workers) f (Chan.init jobs n expect) c →
      c.jobsQ.length < Sync.marchFloat1Parallel.jobsCap funcs chunks blocks workers) := by
  constructor
  · intro hlen hr
    refine Chan.producer_never_blocks ?_ hr hs
    rw [hlen]; simp only [Sync.AddFieldParallel2.jobsCap, Sync.AddFieldParallel2.sends]
    exact Nat.le_of_eq (Nat.mul_comm _ _)
  · intro hlen hr
    refine Chan.producer_never_blocks ?_ hr hs
    rw [hlen]; exact Nat.le_refl _

/-- **single_cpu_delegation** (regenerated fact): with `runtime.NumCPU() == 1` `AddFieldParallel` is `AddField` and
    `marchFloat1Parallel` is `marchFloat1` — the sequential counterpart itself runs, nothing to compare; `AddFieldParallel2`
    has no such branch and runs the protocol with one goroutine (covered: the protocol theorems hold for every worker count ≥ 1) -/
theorem single_cpu_delegation :
    Sync.AddFieldParallel.delegate = some "AddField" ∧ Sync.marchFloat1Parallel.delegate = some "marchFloat1" ∧
    Sync.AddFieldParallel2.delegate = none := by decide

/-- regeneration pin: the critical-section facts the extractor established (it fails on any other shape) -/
theorem critical_sections_reported :
    Locks.allocIsOneCriticalSection = true ∧ Locks.sharedStoreSites = ["chunkIndex_atomic"] ∧
    Locks.workerReadUnderLock = true ∧ Locks.otherWorkersDoNotAllocate = true := by decide


end PolyVerif.C10
