/-
  C10 — parallel variants equal their sequential counterparts on every schedule.
  Property theorems only.  Part 1: the work partition (about the definitions regenerated from
  modeling/mesh.go into Gen/Partition.lean).  Part 2: schedules (write-log model).  Part 3: block jobs.
-/
import PolyVerif.Lemmas.Par
import PolyVerif.Gen.Partition

set_option linter.unusedSimpArgs false

namespace PolyVerif.C10
open PolyVerif.Par PolyVerif.Gen.Partition

/-! ## Part 1 — the partition is exact

`Exact P n size` : the visit lists of workers `0 … size-1`, concatenated in worker order, are exactly
`[0, 1, …, n-1]` (the sequential visit sequence).  Hence every index is visited exactly once, by
exactly one worker, with its own index — for every count `n` (including `n < size`, `size ∤ n`) and every pool
size `≥ 1`.  The statements are about the expressions extracted from the Go source on this run. -/

private theorem natdiv_fdiv (n s : Nat) : Int.fdiv (n : Int) (s : Int) = ((n / s : Nat) : Int) := by
  rw [Int.fdiv_eq_ediv_of_nonneg _ (by omega)]; simp
private theorem natdiv_tdiv (n s : Nat) : Int.tdiv (n : Int) (s : Int) = ((n / s : Nat) : Int) := by
  rw [Int.tdiv_eq_ediv_of_nonneg (by omega)]; simp
private theorem last_iff (i size : Nat) : ((i : Int) = (size : Int) - 1) ↔ (i + 1 = size) := by omega

theorem std_ScanFloat3 : IsStd ScanFloat3AttributeParallelWithPoolSize.spec := by
  constructor
  · intro n size; rfl
  · intro n size i _
    simp [ScanFloat3AttributeParallelWithPoolSize.spec, ScanFloat3AttributeParallelWithPoolSize.goStart, ScanFloat3AttributeParallelWithPoolSize.workSize, natdiv_fdiv, natdiv_tdiv]
  · intro n size i _
    simp only [ScanFloat3AttributeParallelWithPoolSize.spec, ScanFloat3AttributeParallelWithPoolSize.goSize, ScanFloat3AttributeParallelWithPoolSize.workSize, natdiv_fdiv, natdiv_tdiv, last_iff]
  · intro s z; rfl
  · intro s z; rfl
  · intro j; rfl

/-- `Mesh.ScanFloat3AttributeParallelWithPoolSize`: exact for every element count and every pool size ≥ 1 -/
theorem partition_exact_ScanFloat3 (n size : Nat) (h : 1 ≤ size) : Exact ScanFloat3AttributeParallelWithPoolSize.spec n size :=
  exact_of_std std_ScanFloat3 n size h
example : Exact ScanFloat3AttributeParallelWithPoolSize.spec 10 3 := partition_exact_ScanFloat3 10 3 (by decide)

theorem std_ScanFloat2 : IsStd ScanFloat2AttributeParallelWithPoolSize.spec := by
  constructor
  · intro n size; rfl
  · intro n size i _
    simp [ScanFloat2AttributeParallelWithPoolSize.spec, ScanFloat2AttributeParallelWithPoolSize.goStart, ScanFloat2AttributeParallelWithPoolSize.workSize, natdiv_fdiv, natdiv_tdiv]
  · intro n size i _
    simp only [ScanFloat2AttributeParallelWithPoolSize.spec, ScanFloat2AttributeParallelWithPoolSize.goSize, ScanFloat2AttributeParallelWithPoolSize.workSize, natdiv_fdiv, natdiv_tdiv, last_iff]
  · intro s z; rfl
  · intro s z; rfl
  · intro j; rfl

/-- `Mesh.ScanFloat2AttributeParallelWithPoolSize`: exact for every element count and every pool size ≥ 1 -/
theorem partition_exact_ScanFloat2 (n size : Nat) (h : 1 ≤ size) : Exact ScanFloat2AttributeParallelWithPoolSize.spec n size :=
  exact_of_std std_ScanFloat2 n size h
example : Exact ScanFloat2AttributeParallelWithPoolSize.spec 10 3 := partition_exact_ScanFloat2 10 3 (by decide)

theorem std_ScanFloat1 : IsStd ScanFloat1AttributeParallelWithPoolSize.spec := by
  constructor
  · intro n size; rfl
  · intro n size i _
    simp [ScanFloat1AttributeParallelWithPoolSize.spec, ScanFloat1AttributeParallelWithPoolSize.goStart, ScanFloat1AttributeParallelWithPoolSize.workSize, natdiv_fdiv, natdiv_tdiv]
  · intro n size i _
    simp only [ScanFloat1AttributeParallelWithPoolSize.spec, ScanFloat1AttributeParallelWithPoolSize.goSize, ScanFloat1AttributeParallelWithPoolSize.workSize, natdiv_fdiv, natdiv_tdiv, last_iff]
  · intro s z; rfl
  · intro s z; rfl
  · intro j; rfl

/-- `Mesh.ScanFloat1AttributeParallelWithPoolSize`: exact for every element count and every pool size ≥ 1 -/
theorem partition_exact_ScanFloat1 (n size : Nat) (h : 1 ≤ size) : Exact ScanFloat1AttributeParallelWithPoolSize.spec n size :=
  exact_of_std std_ScanFloat1 n size h
example : Exact ScanFloat1AttributeParallelWithPoolSize.spec 10 3 := partition_exact_ScanFloat1 10 3 (by decide)

theorem std_ModifyFloat3 : IsStd ModifyFloat3AttributeParallelWithPoolSize.spec := by
  constructor
  · intro n size; rfl
  · intro n size i _
    simp [ModifyFloat3AttributeParallelWithPoolSize.spec, ModifyFloat3AttributeParallelWithPoolSize.goStart, ModifyFloat3AttributeParallelWithPoolSize.workSize, natdiv_fdiv, natdiv_tdiv]
  · intro n size i _
    simp only [ModifyFloat3AttributeParallelWithPoolSize.spec, ModifyFloat3AttributeParallelWithPoolSize.goSize, ModifyFloat3AttributeParallelWithPoolSize.workSize, natdiv_fdiv, natdiv_tdiv, last_iff]
  · intro s z; rfl
  · intro s z; rfl
  · intro j; rfl

/-- `Mesh.ModifyFloat3AttributeParallelWithPoolSize`: exact for every element count and every pool size ≥ 1 -/
theorem partition_exact_ModifyFloat3 (n size : Nat) (h : 1 ≤ size) : Exact ModifyFloat3AttributeParallelWithPoolSize.spec n size :=
  exact_of_std std_ModifyFloat3 n size h
example : Exact ModifyFloat3AttributeParallelWithPoolSize.spec 10 3 := partition_exact_ModifyFloat3 10 3 (by decide)

theorem std_ModifyFloat2 : IsStd ModifyFloat2AttributeParallelWithPoolSize.spec := by
  constructor
  · intro n size; rfl
  · intro n size i _
    simp [ModifyFloat2AttributeParallelWithPoolSize.spec, ModifyFloat2AttributeParallelWithPoolSize.goStart, ModifyFloat2AttributeParallelWithPoolSize.workSize, natdiv_fdiv, natdiv_tdiv]
  · intro n size i _
    simp only [ModifyFloat2AttributeParallelWithPoolSize.spec, ModifyFloat2AttributeParallelWithPoolSize.goSize, ModifyFloat2AttributeParallelWithPoolSize.workSize, natdiv_fdiv, natdiv_tdiv, last_iff]
  · intro s z; rfl
  · intro s z; rfl
  · intro j; rfl

/-- `Mesh.ModifyFloat2AttributeParallelWithPoolSize`: exact for every element count and every pool size ≥ 1 -/
theorem partition_exact_ModifyFloat2 (n size : Nat) (h : 1 ≤ size) : Exact ModifyFloat2AttributeParallelWithPoolSize.spec n size :=
  exact_of_std std_ModifyFloat2 n size h
example : Exact ModifyFloat2AttributeParallelWithPoolSize.spec 10 3 := partition_exact_ModifyFloat2 10 3 (by decide)

theorem std_ModifyFloat1 : IsStd ModifyFloat1AttributeParallelWithPoolSize.spec := by
  constructor
  · intro n size; rfl
  · intro n size i _
    simp [ModifyFloat1AttributeParallelWithPoolSize.spec, ModifyFloat1AttributeParallelWithPoolSize.goStart, ModifyFloat1AttributeParallelWithPoolSize.workSize, natdiv_fdiv, natdiv_tdiv]
  · intro n size i _
    simp only [ModifyFloat1AttributeParallelWithPoolSize.spec, ModifyFloat1AttributeParallelWithPoolSize.goSize, ModifyFloat1AttributeParallelWithPoolSize.workSize, natdiv_fdiv, natdiv_tdiv, last_iff]
  · intro s z; rfl
  · intro s z; rfl
  · intro j; rfl

/-- `Mesh.ModifyFloat1AttributeParallelWithPoolSize`: exact for every element count and every pool size ≥ 1 -/
theorem partition_exact_ModifyFloat1 (n size : Nat) (h : 1 ≤ size) : Exact ModifyFloat1AttributeParallelWithPoolSize.spec n size :=
  exact_of_std std_ModifyFloat1 n size h
example : Exact ModifyFloat1AttributeParallelWithPoolSize.spec 10 3 := partition_exact_ModifyFloat1 10 3 (by decide)

theorem std_ScanPrimitives_Triangle : IsStd ScanPrimitivesParallelWithPoolSize.spec_TriangleTopology := by
  constructor
  · intro n size; rfl
  · intro n size i _
    simp [ScanPrimitivesParallelWithPoolSize.spec_TriangleTopology, ScanPrimitivesParallelWithPoolSize.goStart, ScanPrimitivesParallelWithPoolSize.workSize, natdiv_fdiv, natdiv_tdiv]
  · intro n size i _
    simp only [ScanPrimitivesParallelWithPoolSize.spec_TriangleTopology, ScanPrimitivesParallelWithPoolSize.goSize, ScanPrimitivesParallelWithPoolSize.workSize, natdiv_fdiv, natdiv_tdiv, last_iff]
  · intro s z; rfl
  · intro s z; rfl
  · intro j; rfl

/-- `Mesh.ScanPrimitivesParallelWithPoolSize` on TriangleTopology (worker body `scanTrisPrimitives`): exact for every primitive count and pool size ≥ 1 -/
theorem partition_exact_ScanPrimitives_Triangle (n size : Nat) (h : 1 ≤ size) : Exact ScanPrimitivesParallelWithPoolSize.spec_TriangleTopology n size :=
  exact_of_std std_ScanPrimitives_Triangle n size h
example : Exact ScanPrimitivesParallelWithPoolSize.spec_TriangleTopology 10 3 := partition_exact_ScanPrimitives_Triangle 10 3 (by decide)

/-- sequential `Mesh.ScanPrimitives` on TriangleTopology: the same helper with `(0, n)` visits `0 … n-1` in order -/
theorem sequential_exact_ScanPrimitives_Triangle (n : Nat) :
    (intRange (ScanPrimitives.lo_TriangleTopology n) (ScanPrimitives.hi_TriangleTopology n)).map ScanPrimitives.cbIndex_TriangleTopology
      = (List.range n).map Int.ofNat := by
  have : ScanPrimitives.cbIndex_TriangleTopology = fun j => j := rfl
  rw [this, List.map_id']
  simp only [ScanPrimitives.lo_TriangleTopology, ScanPrimitives.hi_TriangleTopology, scanTrisPrimitives.loopLo, scanTrisPrimitives.loopHi, Int.zero_add]
  exact intRange_zero n

theorem std_ScanPrimitives_Point : IsStd ScanPrimitivesParallelWithPoolSize.spec_PointTopology := by
  constructor
  · intro n size; rfl
  · intro n size i _
    simp [ScanPrimitivesParallelWithPoolSize.spec_PointTopology, ScanPrimitivesParallelWithPoolSize.goStart, ScanPrimitivesParallelWithPoolSize.workSize, natdiv_fdiv, natdiv_tdiv]
  · intro n size i _
    simp only [ScanPrimitivesParallelWithPoolSize.spec_PointTopology, ScanPrimitivesParallelWithPoolSize.goSize, ScanPrimitivesParallelWithPoolSize.workSize, natdiv_fdiv, natdiv_tdiv, last_iff]
  · intro s z; rfl
  · intro s z; rfl
  · intro j; rfl

/-- `Mesh.ScanPrimitivesParallelWithPoolSize` on PointTopology (worker body `scanPointPrimitives`): exact for every primitive count and pool size ≥ 1 -/
theorem partition_exact_ScanPrimitives_Point (n size : Nat) (h : 1 ≤ size) : Exact ScanPrimitivesParallelWithPoolSize.spec_PointTopology n size :=
  exact_of_std std_ScanPrimitives_Point n size h
example : Exact ScanPrimitivesParallelWithPoolSize.spec_PointTopology 10 3 := partition_exact_ScanPrimitives_Point 10 3 (by decide)

/-- sequential `Mesh.ScanPrimitives` on PointTopology: the same helper with `(0, n)` visits `0 … n-1` in order -/
theorem sequential_exact_ScanPrimitives_Point (n : Nat) :
    (intRange (ScanPrimitives.lo_PointTopology n) (ScanPrimitives.hi_PointTopology n)).map ScanPrimitives.cbIndex_PointTopology
      = (List.range n).map Int.ofNat := by
  have : ScanPrimitives.cbIndex_PointTopology = fun j => j := rfl
  rw [this, List.map_id']
  simp only [ScanPrimitives.lo_PointTopology, ScanPrimitives.hi_PointTopology, scanPointPrimitives.loopLo, scanPointPrimitives.loopHi, Int.zero_add]
  exact intRange_zero n

theorem std_ScanPrimitives_LineStrip : IsStd ScanPrimitivesParallelWithPoolSize.spec_LineStripTopology := by
  constructor
  · intro n size; rfl
  · intro n size i _
    simp [ScanPrimitivesParallelWithPoolSize.spec_LineStripTopology, ScanPrimitivesParallelWithPoolSize.goStart, ScanPrimitivesParallelWithPoolSize.workSize, natdiv_fdiv, natdiv_tdiv]
  · intro n size i _
    simp only [ScanPrimitivesParallelWithPoolSize.spec_LineStripTopology, ScanPrimitivesParallelWithPoolSize.goSize, ScanPrimitivesParallelWithPoolSize.workSize, natdiv_fdiv, natdiv_tdiv, last_iff]
  · intro s z; rfl
  · intro s z; rfl
  · intro j; rfl

/-- `Mesh.ScanPrimitivesParallelWithPoolSize` on LineStripTopology (worker body `scanLinePrimitives`): exact for every primitive count and pool size ≥ 1 -/
theorem partition_exact_ScanPrimitives_LineStrip (n size : Nat) (h : 1 ≤ size) : Exact ScanPrimitivesParallelWithPoolSize.spec_LineStripTopology n size :=
  exact_of_std std_ScanPrimitives_LineStrip n size h
example : Exact ScanPrimitivesParallelWithPoolSize.spec_LineStripTopology 10 3 := partition_exact_ScanPrimitives_LineStrip 10 3 (by decide)

/-- sequential `Mesh.ScanPrimitives` on LineStripTopology: the same helper with `(0, n)` visits `0 … n-1` in order -/
theorem sequential_exact_ScanPrimitives_LineStrip (n : Nat) :
    (intRange (ScanPrimitives.lo_LineStripTopology n) (ScanPrimitives.hi_LineStripTopology n)).map ScanPrimitives.cbIndex_LineStripTopology
      = (List.range n).map Int.ofNat := by
  have : ScanPrimitives.cbIndex_LineStripTopology = fun j => j := rfl
  rw [this, List.map_id']
  simp only [ScanPrimitives.lo_LineStripTopology, ScanPrimitives.hi_LineStripTopology, scanLinePrimitives.loopLo, scanLinePrimitives.loopHi, Int.zero_add]
  exact intRange_zero n

/-- the extractor found exactly these parallel methods (a new `*ParallelWithPoolSize` method breaks this) -/
theorem methods_covered : methodNames =
    ["ScanPrimitivesParallelWithPoolSize", "ScanFloat3AttributeParallelWithPoolSize",
     "ScanFloat2AttributeParallelWithPoolSize", "ScanFloat1AttributeParallelWithPoolSize",
     "ModifyFloat3AttributeParallelWithPoolSize", "ModifyFloat2AttributeParallelWithPoolSize",
     "ModifyFloat1AttributeParallelWithPoolSize"] := by decide

/-- the primitive scan handles the same topologies, with the same helpers, as the sequential scan -/
theorem topologies_covered : ScanPrimitivesParallelWithPoolSize.topologies = ScanPrimitives.topologies ∧
    ScanPrimitives.topologies = ["TriangleTopology", "PointTopology", "LineStripTopology"] := by decide

/-- every partition spec the extractor emitted (one per method, per topology) is exact: all counts, all pool sizes ≥ 1 -/
theorem all_specs_exact : ∀ p ∈ specs, ∀ n size : Nat, 1 ≤ size → Exact p.2 n size := by
  intro p hp
  simp only [specs, List.mem_cons, List.not_mem_nil, or_false] at hp
  rcases hp with rfl | rfl | rfl | rfl | rfl | rfl | rfl | rfl | rfl
  · exact partition_exact_ScanPrimitives_Triangle
  · exact partition_exact_ScanPrimitives_Point
  · exact partition_exact_ScanPrimitives_LineStrip
  · exact partition_exact_ScanFloat3
  · exact partition_exact_ScanFloat2
  · exact partition_exact_ScanFloat1
  · exact partition_exact_ModifyFloat3
  · exact partition_exact_ModifyFloat2
  · exact partition_exact_ModifyFloat1

/-- pool-size guards as extracted: every method panics exactly for `size < 1` and delegates to its sequential
    counterpart exactly for `size = 1` -/
theorem guards (size : Int) :
    (ScanPrimitivesParallelWithPoolSize.panics size ↔ size < 1) ∧ (ScanPrimitivesParallelWithPoolSize.delegates size ↔ size = 1) ∧
    (ScanFloat3AttributeParallelWithPoolSize.panics size ↔ size < 1) ∧ (ScanFloat3AttributeParallelWithPoolSize.delegates size ↔ size = 1) ∧
    (ScanFloat2AttributeParallelWithPoolSize.panics size ↔ size < 1) ∧ (ScanFloat2AttributeParallelWithPoolSize.delegates size ↔ size = 1) ∧
    (ScanFloat1AttributeParallelWithPoolSize.panics size ↔ size < 1) ∧ (ScanFloat1AttributeParallelWithPoolSize.delegates size ↔ size = 1) ∧
    (ModifyFloat3AttributeParallelWithPoolSize.panics size ↔ size < 1) ∧ (ModifyFloat3AttributeParallelWithPoolSize.delegates size ↔ size = 1) ∧
    (ModifyFloat2AttributeParallelWithPoolSize.panics size ↔ size < 1) ∧ (ModifyFloat2AttributeParallelWithPoolSize.delegates size ↔ size = 1) ∧
    (ModifyFloat1AttributeParallelWithPoolSize.panics size ↔ size < 1) ∧ (ModifyFloat1AttributeParallelWithPoolSize.delegates size ↔ size = 1) := by
  refine ⟨?_, ?_, ?_, ?_, ?_, ?_, ?_, ?_, ?_, ?_, ?_, ?_, ?_, ?_⟩ <;> exact Iff.rfl

end PolyVerif.C10
