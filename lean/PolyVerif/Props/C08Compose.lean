/-
  C08 — composed statements about reading a reference-encoded binary file.

  `PlyHeader.specHdr f` is the header `ReadHeader` returns for `specHeader f` (format, the vertex element with its scalar
  properties in file order, the face element with its list properties, the trimmed comment texts).  That is now a theorem
  (`ply_spec_header_parses`), so the statements below are also given from FILE BYTES (`…_bytes`).
-/
import PolyVerif.Model.Ply
import PolyVerif.Model.PlySpec
import PolyVerif.Lemmas.Ply
import PolyVerif.Lemmas.PlyCompose
import PolyVerif.Lemmas.PlyHeader

namespace PolyVerif
namespace C08
open Ply PlySpec PlyLemmas PlyCompose PlyHeader

variable {α : Type}

theorem scalarProps_spec (f : SpecFile α) :
    scalarProps (f.vprops.map (fun p => PProp.scalar p.name p.ty)) = some (specProps f) := by
  simp only [specProps]
  induction f.vprops with
  | nil => simp [scalarProps]
  | cons p ps ih => simp [scalarProps, ih]

theorem findElement_spec_vertex (f : SpecFile α) :
    findElement (specHdr f) (nm "vertex")
      = some ⟨nm "vertex", f.verts.length, f.vprops.map (fun p => .scalar p.name p.ty)⟩ := by
  have h1 : (nm "face" = nm "vertex") = False := by simp; decide
  cases hf : f.face <;> simp [findElement, specHdr, hf, h1]

theorem findElement_spec_face (f : SpecFile α) :
    findElement (specHdr f) (nm "face")
      = f.face.map (fun fe => ⟨nm "face", fe.faces.length, fe.lists.map (fun x => .list x.2.1 x.2.2.1 x.2.2.2.1)⟩) := by
  have h1 : (nm "vertex" = nm "face") = False := by simp; decide
  cases hf : f.face <;> simp [findElement, specHdr, hf, h1]

/-- STAGE 1 COMPOSED (binary, both byte orders): for ANY order / type mix of the vertex properties and any located
readers, `readBody` on the reference-encoded body is: the arrays `rowOf` (for every vertex the data of exactly the
components each reader claims) → the face stage on exactly the bytes that follow the vertex block → mesh assembly -/
theorem ply_spec_readback_vertex (c : Coding α) (f : SpecFile α) (hf : f.format ≠ .ascii)
    (htyped : ∀ r ∈ f.verts, r.map Datum.ty = f.vprops.map (·.ty))
    (bl : List (Built × List Nat))
    (hbuilt : bl.map (·.1) = buildAll true (specProps f) defaultReaders true)
    (hloc : ∀ p ∈ bl, Located (f.vprops.map (·.ty)) p.1 p.2) :
    ∃ rest, specBody c f = (f.verts.map (fun r => (r.map (Datum.bin c f.format.endian)).flatten)).flatten ++ rest ∧
      readBody c defaultReader (specHdr f) (specBody c f) = (do
        let idxUv ← faceStageBin c f.format.endian (findElement (specHdr f) (nm "face")) rest
        assemble (bl.map (·.1)) f.verts.length (f.verts.map (rowOf c bl)) idxUv) := by
  have hblock : ∃ rest, specBody c f = (f.verts.map (fun r => (r.map (Datum.bin c f.format.endian)).flatten)).flatten ++ rest ∧
      readVertsBin c f.format.endian (((f.vprops.map (·.ty)).map SType.size).sum) (bl.map (·.1)) f.verts.length
        (specBody c f) = .ok (f.verts.map (rowOf c bl), rest) := by
    cases hfmt : f.format with
    | ascii => exact absurd hfmt hf
    | le =>
      refine ⟨_, by simp only [specBody, hfmt]; rfl, ?_⟩
      simp only [specBody, hfmt]
      exact spec_vertex_block c _ _ bl hloc f.verts _ htyped
    | be =>
      refine ⟨_, by simp only [specBody, hfmt]; rfl, ?_⟩
      simp only [specBody, hfmt]
      exact spec_vertex_block c _ _ bl hloc f.verts _ htyped
  obtain ⟨rest, hbody, hvb⟩ := hblock
  refine ⟨rest, hbody, ?_⟩
  have hve : findElement (specHdr f) defaultReader.attributeElement = _ := findElement_spec_vertex f
  rw [readBody_bin c defaultReader (specHdr f) (specBody c f) _ (specProps f) hf hve (scalarProps_spec f) (by simp)]
  have hsum : ((specProps f).map (fun p => p.2.size)).sum = ((f.vprops.map (·.ty)).map SType.size).sum := by
    simp [specProps, Function.comp_def]
  have hfmt : (specHdr f).format = f.format := rfl
  simp only [hfmt, hsum, Int.toNat_natCast, defaultReader, ← hbuilt, hvb, bind, Except.bind]

/-- POINT-CLOUD FILES, composed to the mesh: a reference-encoded binary file without face element — vertex properties
in ANY permutation, any extra properties, any mix of uchar / int / float / double UNDER THE UNIFORM-TYPE GUARD ON RECOGNISED
GROUPS (`hloc`: every built reader is `Located`; since fix 8c2f8cb a differently-typed `alpha` next to `red green blue` is
handled by the IgnorableW fallback, a mixed-type `x y z` group is still not claimed) — reads without error to the point
cloud `0..n-1` whose attributes are the columns of the located readers.  `Located` says WHERE a reader reads and with
which type, not under which NAME: to know which property an attribute came from combine with `ply_group_reader_located`
(groups: the reader for names `ns` built on a header where `ns[k]` sits at position `idx[k]` is located at `idx`) and
`ply_unclaimed_property_gets_reader` / `ply_unclaimed_reader_located` (unrecognised scalars). -/
theorem ply_reads_spec_pointcloud (c : Coding α) (f : SpecFile α) (hf : f.format ≠ .ascii) (hface : f.face = none)
    (htyped : ∀ r ∈ f.verts, r.map Datum.ty = f.vprops.map (·.ty))
    (bl : List (Built × List Nat))
    (hbuilt : bl.map (·.1) = buildAll true (specProps f) defaultReaders true)
    (hloc : ∀ p ∈ bl, Located (f.vprops.map (·.ty)) p.1 p.2) :
    readBody c defaultReader (specHdr f) (specBody c f)
      = .ok (applyColumns ⟨.point, (List.range f.verts.length).map Int.ofNat, [], none⟩ (bl.map (·.1))
          (f.verts.map (rowOf c bl))) := by
  obtain ⟨rest, _, hread⟩ := ply_spec_readback_vertex c f hf htyped bl hbuilt hloc
  rw [hread, findElement_spec_face, hface]
  simp [faceStageBin, assemble, bind, Except.bind, pure, Except.pure]

/-- PARTIAL GROUPS stay scalars: a recognised group one of whose names is absent from the header (e.g. only `x`, `y`) is
NOT claimed as a vector (guards: distinct names, one scalar type among the group's properties that are present), so by
`ply_unclaimed_property_gets_reader` its members become scalar attributes -/
theorem ply_group_absent_not_built (binary : Bool) (props : List (Bytes × SType)) (attr : Bytes) (names : List Bytes)
    (hn : names.Nodup) (hnd : (props.map (·.1)).Nodup) (t : SType) (huni : ∀ p ∈ props, p.1 ∈ names → p.2 = t)
    (k : Nat) (hk : k < names.length) (habs : ∀ p ∈ props, p.1 ≠ names[k]) :
    buildVec binary props attr names = none :=
  buildVec_none binary props attr names hn hnd t huni k hk habs

example : buildVec true [(nm "x", .float), (nm "y", .float)] positionAttr [nm "x", nm "y", nm "z"] = none := by decide

/-- THE HEADER TEXT LAYER for foreign-tool files: `ReadHeader` on the reference encoder's header text — vertex properties in
any order, canonical or alias type spellings, comment / obj_info lines before, between and after the elements, LF or
CRLF line ends, optional face element with any of the list declarations of the grammar — followed by ANY body returns
`specHdr f` and leaves exactly the body unread -/
theorem ply_spec_header_parses (f : SpecFile α) (hok : SpecHeaderOK f) (body : Bytes) :
    parseHeader (specHeader f ++ body) = .ok (specHdr f, body) :=
  parse_specHeader f hok body

/-- POINT-CLOUD FILES FROM FILE BYTES: `readMesh (refEncode f)` — header text and body — reads without error to the
point cloud whose attributes are the columns of the located readers -/
theorem ply_reads_spec_pointcloud_bytes (c : Coding α) (f : SpecFile α) (hok : SpecHeaderOK f)
    (hf : f.format ≠ .ascii) (hface : f.face = none)
    (htyped : ∀ r ∈ f.verts, r.map Datum.ty = f.vprops.map (·.ty))
    (bl : List (Built × List Nat))
    (hbuilt : bl.map (·.1) = buildAll true (specProps f) defaultReaders true)
    (hloc : ∀ p ∈ bl, Located (f.vprops.map (·.ty)) p.1 p.2) :
    readMesh c defaultReader (refEncode c f)
      = .ok (applyColumns ⟨.point, (List.range f.verts.length).map Int.ofNat, [], none⟩ (bl.map (·.1))
          (f.verts.map (rowOf c bl))) := by
  simp only [readMesh, refEncode, parse_specHeader f hok, bind, Except.bind]
  exact ply_reads_spec_pointcloud c f hf hface htyped bl hbuilt hloc

/-! non-vacuity: a 2-vertex file `z float, q uchar, x float, y float` (permuted position group + extra 8-bit scalar) -/

def exFile : SpecFile Nat :=
  { format := .be, crlf := true, pre := [], mid := [], post := [],
    vprops := [⟨nm "z", .float, false⟩, ⟨nm "q", .uchar, true⟩, ⟨nm "x", .float, false⟩, ⟨nm "y", .float, true⟩],
    verts := [[.f32 3, .u8 255, .f32 1, .f32 2], [.f32 6, .u8 0, .f32 4, .f32 5]],
    face := none }

def exBl : List (Built × List Nat) :=
  [(⟨positionAttr, [nm "x", nm "y", nm "z"], [5, 9, 0], some .float⟩, [2, 3, 0]),
   (⟨nm "q", [nm "q"], [4], some .uchar⟩, [1])]

example : readBody toyCoding defaultReader (specHdr exFile) (specBody toyCoding exFile)
    = .ok (applyColumns ⟨.point, [0, 1], [], none⟩ (exBl.map (·.1)) (exFile.verts.map (rowOf toyCoding exBl))) :=
  ply_reads_spec_pointcloud toyCoding exFile (by decide) rfl (by decide) exBl (by decide)
    (by
      intro p hp
      simp only [exBl, List.mem_cons, List.not_mem_nil, or_false] at hp
      rcases hp with rfl | rfl
      · exact (locatedNamedB_sound (specProps exFile) _ _ (by decide)).loc
      · exact (locatedNamedB_sound (specProps exFile) _ _ (by decide)).loc)

/-- … and that mesh is what the file denotes: Position = (1,2,3),(4,5,6); `q` = 255/255, 0/255 -/
example : (readBody toyCoding defaultReader (specHdr exFile) (specBody toyCoding exFile)).toOption.map MeshVal.canon
    = (meaning toyCoding exFile).map MeshVal.canon := by rfl

instance (t : Bytes) : Decidable (Tok t) := by unfold Tok; infer_instance

example : SpecHeaderOK exFile where
  names := by decide
  items := by intro i hi; simp [exFile] at hi
  nverts := by decide
  nfaces := by intro fe h; simp [exFile] at h

/-- CRLF header with alias spellings, from bytes -/
example : (parseHeader (specHeader exFile ++ [1, 2, 3])).toOption.map (fun r => (r.1.elements.map (·.name), r.2))
    = some ([nm "vertex"], [1, 2, 3]) := by
  rw [ply_spec_header_parses exFile ⟨by decide, by intro i hi; simp [exFile] at hi, by decide, by intro fe h; simp [exFile] at h⟩]
  rfl

end C08
end PolyVerif
