/-
  C03 — LaplacianSmooth over ℝ (model `lapSweep` / `lapIter` of `Model/MeshTransforms.lean`, mirroring
  meshops/laplacian_smoothing.go:33-61 and modeling/vertex_lut.go).

  What the code does: `iterations` sweeps; in a sweep the vertices are visited in ascending index order and each
  vertex is overwritten IN PLACE by  v + factor · (mean(current values of its neighbours) − v),  so later vertices
  see the already-updated earlier ones (Gauss–Seidel, not Jacobi).  The neighbours of a vertex are a SET
  (`VertexLUT` = map of maps): the Go loop enumerates them in map order and adds them up one by one.
  Proved here: that enumeration order is irrelevant in exact arithmetic (`laplacian_order_independent`), the value
  written is the stated affine combination (`lapUpdate_value`), the neighbour list of the model is exactly the set
  of vertices sharing an edge, without repetition (`neighbours_mem`, `neighbours_nodup`).  What REMAINS order
  dependent is the vertex visiting order of the in-place sweep (fixed: ascending) — see the example at the end.
-/
import PolyVerif.Props.C03Normals

namespace PolyVerif.C03
open PolyVerif PolyVerif.Gen PolyVerif.Mesh PolyVerif.Mesh.MeshVal
open Classical

/-! ### the neighbour sum does not depend on the enumeration order -/

noncomputable def valOr0 (vs : List R3) (vn : Nat) : R3 := match vs[vn]? with | some x => x | none => ⟨0, 0, 0⟩

/-- the running sum of the Go loop `for vn := range lut.Lookup(vi) { sum = sum.Add(vertices[vn]) }`
    (a neighbour index without a vertex cannot occur on a well-formed mesh; it would add nothing) -/
noncomputable def nbSum (vs : List R3) (nb : List Nat) : R3 :=
  nb.foldl (fun acc vn => acc.Add (valOr0 vs vn)) V3.Zero

/-- any step function that adds the neighbour's value folds to `start + Σ` -/
theorem foldl_gen (vs : List R3) (g : R3 → Nat → R3) (hg : ∀ acc vn, g acc vn = acc.Add (valOr0 vs vn)) :
    ∀ (nb : List Nat) (a : R3), nb.foldl g a = a.Add (sumV (nb.map (valOr0 vs)))
  | [], a => by ext <;> simp [sumV, V3.Add]
  | vn :: nb, a => by
    simp only [List.foldl_cons, List.map_cons, sumV_cons]
    rw [foldl_gen vs g hg nb, hg]
    ext <;> simp [V3.Add] <;> ring

/-- the neighbour sum is the (order-free) sum of the neighbours' current values -/
theorem nbSum_eq (vs : List R3) (nb : List Nat) : nbSum vs nb = sumV (nb.map (valOr0 vs)) := by
  unfold nbSum; rw [foldl_gen vs _ (fun _ _ => rfl)]; ext <;> simp [V3.Add, V3.Zero]

theorem nbSum_perm (vs : List R3) {nb nb' : List Nat} (h : nb.Perm nb') : nbSum vs nb = nbSum vs nb' := by
  rw [nbSum_eq, nbSum_eq, sumV_perm (h.map _)]

/-! ### the sweep with an arbitrary enumeration of each neighbour set -/

/-- the value written for a vertex: `v + factor · (sum / count − v)` -/
noncomputable def lapUpdate (vs : List R3) (nb : List Nat) (factor : ℝ) (vertex : R3) : R3 :=
  vertex.Add ((((nbSum vs nb).DivByConstant ((nb.length : Nat) : ℝ)).Sub vertex).Scale factor)

/-- `lapSweep` with the neighbour list of vertex `v` given by `nbOf v` (any enumeration of the set) -/
noncomputable def lapSweepWith (nbOf : Nat → List Nat) (factor : ℝ) (vs : List R3) : Nat → List R3
  | 0 => vs
  | k + 1 =>
    let cur := lapSweepWith nbOf factor vs k
    match cur[k]? with
    | none => cur
    | some vertex => cur.set k (lapUpdate cur (nbOf k) factor vertex)

noncomputable def lapIterWith (nbOf : Nat → List Nat) (factor : ℝ) : Nat → List R3 → List R3
  | 0, vs => vs
  | n + 1, vs => lapIterWith nbOf factor n (lapSweepWith nbOf factor vs vs.length)

/-- the model's sweep is the sweep with the ascending enumeration `neighbours es` -/
theorem lapSweep_eq_with (es : List (Nat × Nat)) (factor : ℝ) (vs : List R3) :
    ∀ k, lapSweep es factor vs k = lapSweepWith (neighbours es) factor vs k
  | 0 => rfl
  | k + 1 => by
    simp only [lapSweep, lapSweepWith, lapSweep_eq_with es factor vs k]
    cases (lapSweepWith (neighbours es) factor vs k)[k]? with
    | none => rfl
    | some vertex =>
      simp only [lapUpdate, nbSum]
      congr! 7
      rename_i acc
      funext vn
      unfold valOr0
      generalize (lapSweepWith (neighbours es) factor vs k)[vn]? = o
      cases o
      · ext <;> simp [V3.Add]
      · rfl

theorem lapIter_eq_with (es : List (Nat × Nat)) (factor : ℝ) : ∀ (n : Nat) (vs : List R3),
    lapIter es factor n vs = lapIterWith (neighbours es) factor n vs
  | 0, _ => rfl
  | n + 1, vs => by simp only [lapIter, lapIterWith, lapSweep_eq_with, lapIter_eq_with es factor n]

theorem lapUpdate_perm (vs : List R3) {nb nb' : List Nat} (h : nb.Perm nb') (factor : ℝ) (vertex : R3) :
    lapUpdate vs nb factor vertex = lapUpdate vs nb' factor vertex := by
  unfold lapUpdate; rw [nbSum_perm vs h, h.length_eq]

theorem lapSweepWith_perm {nbOf nbOf' : Nat → List Nat} (h : ∀ v, (nbOf v).Perm (nbOf' v)) (factor : ℝ) (vs : List R3) :
    ∀ k, lapSweepWith nbOf factor vs k = lapSweepWith nbOf' factor vs k
  | 0 => rfl
  | k + 1 => by
    simp only [lapSweepWith, lapSweepWith_perm h factor vs k]
    cases (lapSweepWith nbOf' factor vs k)[k]? with
    | none => rfl
    | some vertex => simp only [lapUpdate_perm _ (h k)]

/-- **laplacian_order_independent**: however each vertex's neighbour set is enumerated (Go: map iteration order;
    model: ascending), every sweep and every number of iterations gives the same positions in exact arithmetic. -/
theorem laplacian_order_independent {nbOf nbOf' : Nat → List Nat} (h : ∀ v, (nbOf v).Perm (nbOf' v)) (factor : ℝ) :
    ∀ (n : Nat) (vs : List R3), lapIterWith nbOf factor n vs = lapIterWith nbOf' factor n vs
  | 0, _ => rfl
  | n + 1, vs => by
    simp only [lapIterWith, lapSweepWith_perm h, laplacian_order_independent h factor n]

/-- in particular for the model: any enumeration of `neighbours es v` -/
theorem lapIter_any_enumeration (es : List (Nat × Nat)) (factor : ℝ) (nbOf : Nat → List Nat)
    (h : ∀ v, (nbOf v).Perm (neighbours es v)) (n : Nat) (vs : List R3) :
    lapIter es factor n vs = lapIterWith nbOf factor n vs := by
  rw [lapIter_eq_with]; exact (laplacian_order_independent h factor n vs).symm

/-- the written value is the affine combination `(1 − factor)·v + factor·mean` of the vertex and the mean of the
    current values of its neighbours -/
theorem lapUpdate_value (vs : List R3) (nb : List Nat) (factor : ℝ) (vertex : R3) :
    lapUpdate vs nb factor vertex =
      (vertex.Scale (1 - factor)).Add (((sumV (nb.map (valOr0 vs))).DivByConstant (nb.length : ℝ)).Scale factor) := by
  unfold lapUpdate; rw [nbSum_eq]
  ext <;> simp [V3.Add, V3.Sub, V3.Scale, V3.DivByConstant] <;> ring

/-- **the Laplacian value as far as it transfers to the Go code**: for a vertex WITH at least one neighbour the written value
    is `(1 − f)·v + f·mean(neighbours)`. For a vertex without neighbours (an unreferenced vertex — explicitly inside the C03
    quantifier) NO claim is made here: Go computes `sum / 0 = NaN` and writes NaN (float only; covered by the correspondence
    and the corpus case `lap:neighbourless`), while over ℝ `x/0 = 0` would give `(1−f)·v`. -/
theorem lapUpdate_value_with_neighbours (vs : List R3) (nb : List Nat) (hnb : nb ≠ []) (factor : ℝ) (vertex : R3) :
    (nb.length : ℝ) ≠ 0 ∧
    lapUpdate vs nb factor vertex =
      (vertex.Scale (1 - factor)).Add (((sumV (nb.map (valOr0 vs))).DivByConstant (nb.length : ℝ)).Scale factor) := by
  refine ⟨?_, lapUpdate_value vs nb factor vertex⟩
  have : 0 < nb.length := List.length_pos_iff.mpr hnb
  exact_mod_cast this.ne'

/-! ### the recurrence, as the code runs it -/

/-- **laplacian_spec (recurrence)**: vertex `k` is replaced by `lapUpdate` evaluated on the list in which the
    vertices `0 … k-1` have ALREADY been replaced in this sweep; vertices `> k` still hold the values of the
    previous sweep -/
theorem lapSweepWith_succ (nbOf : Nat → List Nat) (factor : ℝ) (vs : List R3) (k : Nat) (hk : k < vs.length) :
    ∃ vertex, (lapSweepWith nbOf factor vs k)[k]? = some vertex ∧
      lapSweepWith nbOf factor vs (k + 1) =
        (lapSweepWith nbOf factor vs k).set k (lapUpdate (lapSweepWith nbOf factor vs k) (nbOf k) factor vertex) := by
  have hlen : ∀ j, (lapSweepWith nbOf factor vs j).length = vs.length := by
    intro j
    induction j with
    | zero => rfl
    | succ j ih =>
      simp only [lapSweepWith]
      cases (lapSweepWith nbOf factor vs j)[j]? <;> simp [ih]
  have : k < (lapSweepWith nbOf factor vs k).length := by rw [hlen]; exact hk
  refine ⟨_, List.getElem?_eq_getElem this, ?_⟩
  simp only [lapSweepWith, List.getElem?_eq_getElem this]

/-- vertices not yet visited in this sweep are untouched -/
theorem lapSweepWith_untouched (nbOf : Nat → List Nat) (factor : ℝ) (vs : List R3) :
    ∀ (k j : Nat), k ≤ j → (lapSweepWith nbOf factor vs k)[j]? = vs[j]?
  | 0, _, _ => rfl
  | k + 1, j, hkj => by
    simp only [lapSweepWith]
    have ih := lapSweepWith_untouched nbOf factor vs k
    cases hc : (lapSweepWith nbOf factor vs k)[k]? with
    | none => simp only []; exact ih j (by omega)
    | some vertex =>
      simp only []
      rw [List.getElem?_set_ne (by omega)]
      exact ih j (by omega)

/-! ### the neighbour set -/

theorem mem_insertSorted (x y : Nat) : ∀ (l : List Nat), x ∈ insertSorted y l ↔ x = y ∨ x ∈ l
  | [] => by simp [insertSorted]
  | z :: zs => by
    simp only [insertSorted]
    split
    · simp
    · split
      · rename_i h1 h2; subst h2; simp
      · simp only [List.mem_cons, mem_insertSorted x y zs]
        constructor
        · rintro (h | h | h) <;> simp [h]
        · rintro (h | h | h) <;> simp [h]

theorem insertSorted_sorted (y : Nat) : ∀ (l : List Nat), l.Pairwise (· < ·) → (insertSorted y l).Pairwise (· < ·)
  | [], _ => by simp [insertSorted]
  | z :: zs, h => by
    simp only [insertSorted]
    have hz := List.pairwise_cons.mp h
    split
    · rename_i hyz
      refine List.pairwise_cons.mpr ⟨?_, h⟩
      intro a ha
      rcases List.mem_cons.mp ha with rfl | ha
      · exact hyz
      · exact lt_trans hyz (hz.1 a ha)
    · split
      · exact h
      · rename_i h1 h2
        refine List.pairwise_cons.mpr ⟨?_, insertSorted_sorted y zs hz.2⟩
        intro a ha
        rcases (mem_insertSorted a y zs).mp ha with rfl | ha
        · omega
        · exact hz.1 a ha

/-- the model's neighbour list of `v`: exactly the vertices joined to `v` by an edge (in either direction) -/
theorem neighbours_mem (es : List (Nat × Nat)) (v vn : Nat) :
    vn ∈ neighbours es v ↔ ∃ e ∈ es, (e.1 = v ∧ e.2 = vn) ∨ (e.2 = v ∧ e.1 = vn) := by
  unfold neighbours
  suffices hgen : ∀ (l : List (Nat × Nat)) (acc : List Nat),
      vn ∈ l.foldl (fun acc e => if e.1 = v then insertSorted e.2 acc else if e.2 = v then insertSorted e.1 acc else acc) acc ↔
        vn ∈ acc ∨ ∃ e ∈ l, (e.1 = v ∧ e.2 = vn) ∨ (e.2 = v ∧ e.1 = vn) by
    simpa using hgen es []
  intro l
  induction l with
  | nil => intro acc; simp
  | cons e l ih =>
    intro acc
    simp only [List.foldl_cons, ih, List.mem_cons, exists_eq_or_imp]
    by_cases h1 : e.1 = v
    · simp only [h1, if_true, mem_insertSorted, true_and]
      constructor
      · rintro ((h | h) | h)
        · right; left; left; exact h.symm
        · left; exact h
        · right; right; exact h
      · rintro (h | (h | h) | h)
        · left; right; exact h
        · left; left; exact h.symm
        · left; left; omega
        · right; exact h
    · by_cases h2 : e.2 = v
      · simp only [h1, if_false, h2, if_true, mem_insertSorted, false_and, true_and, false_or]
        constructor
        · rintro ((h | h) | h)
          · right; left; exact h.symm
          · left; exact h
          · right; right; exact h
        · rintro (h | h | h)
          · left; right; exact h
          · left; left; exact h.symm
          · right; exact h
      · simp [h1, h2]

/-- … each exactly once: `lut.Count(v)` is the number of DISTINCT neighbours -/
theorem neighbours_nodup (es : List (Nat × Nat)) (v : Nat) : (neighbours es v).Nodup := by
  have : (neighbours es v).Pairwise (· < ·) := by
    unfold neighbours
    suffices hgen : ∀ (l : List (Nat × Nat)) (acc : List Nat), acc.Pairwise (· < ·) →
        (l.foldl (fun acc e => if e.1 = v then insertSorted e.2 acc else if e.2 = v then insertSorted e.1 acc else acc) acc).Pairwise (· < ·) from
      hgen es [] List.Pairwise.nil
    intro l
    induction l with
    | nil => intro acc h; exact h
    | cons e l ih =>
      intro acc h
      simp only [List.foldl_cons]
      apply ih
      split
      · exact insertSorted_sorted _ _ h
      · split
        · exact insertSorted_sorted _ _ h
        · exact h
  exact this.imp (fun h => Nat.ne_of_lt h)

/-- a vertex `v` that is a corner of an index triple has a neighbour; an index triple `(v, v, w)` makes `v` its OWN neighbour
    (Go's `Link(v, v)` and the model agree) -/
theorem neighbours_ne_nil_of_edge (es : List (Nat × Nat)) (v w : Nat) (h : (v, w) ∈ es ∨ (w, v) ∈ es) :
    neighbours es v ≠ [] := by
  have : w ∈ neighbours es v := by
    rw [neighbours_mem]
    rcases h with h | h
    · exact ⟨(v, w), h, Or.inl ⟨rfl, rfl⟩⟩
    · exact ⟨(w, v), h, Or.inr ⟨rfl, rfl⟩⟩
  intro hn; rw [hn] at this; simp at this

example : neighbours [(3, 3), (3, 5)] 3 = [3, 5] := by decide

/-! ### mesh level, and what stays order dependent -/

/-- **laplacian_spec**: the operation rewrites only the smoothed attribute (frame: `laplacian_frame`), and the new
    array is `lapIter` — `iterations` in-place ascending sweeps — of the old positions, for ANY enumeration of the
    neighbour sets (`lapIter_any_enumeration`). `none` = attribute missing or topology without a neighbour table. -/
theorem laplacian_spec {m m' : MeshVal (List ℝ)} {name : String} {iters : Nat} {factor : ℝ}
    (hm : m.laplacian name iters factor = some m') :
    ∃ es d, m.edges = some es ∧ m.attr? ⟨3, name⟩ = some d ∧
      (d.all (fun p => (v3? p).isSome) = true →
        m' = m.setAttr ⟨3, name⟩ ((lapIter es factor iters (d.filterMap v3?)).map ofV3)) := by
  unfold MeshVal.laplacian at hm
  split at hm
  · cases hm
  · rename_i es hes
    unfold MeshVal.modifyAttr at hm
    split at hm
    · cases hm
    · rename_i d hd
      cases hm
      refine ⟨es, d, hes, hd, ?_⟩
      intro hall
      simp [hall]

/-- the vertex visiting order DOES matter (in-place sweep): on the edge 0–1 with factor 1, vertex 0 moves onto
    vertex 1 and then vertex 1 "moves" onto the new vertex 0 — both end at (1,0,0); a simultaneous (Jacobi) update
    would have swapped them -/
example : lapSweepWith (fun v => if v = 0 then [1] else [0]) 1 [⟨0, 0, 0⟩, ⟨1, 0, 0⟩] 2 = [⟨1, 0, 0⟩, ⟨1, 0, 0⟩] := by
  simp [lapSweepWith, lapUpdate, nbSum, valOr0, V3.Add, V3.Sub, V3.Scale, V3.DivByConstant, V3.Zero]

end PolyVerif.C03
