/-
  C19 — rounded cone: exact distance attained at INTERIOR points, for all parameters.

  Round 1 proved, for the regenerated `Gen.sdf.RoundedCone`, the lower bound `|f p| ≤ dist(p, s)` for every zero-set
  point `s` (all parameters) and a zero-set point at distance exactly `f p` for `p` outside or on the shape.  This
  file adds the interior: for `f p < 0` some zero-set point is at distance exactly `−f p`.  So `|f p|` IS the Euclidean
  distance to the zero set everywhere (`roundedCone_exact_all`).

  Method: `f p = min_t |p − c(t)| − r(t)` (`roundedCone_attained_all`, `roundedCone_le_ball_all`).  At a minimiser `t*`
  the first-order condition `(t − t*)·(⟨u, b − a⟩ + (r2 − r1)) ≤ 0` holds for the unit direction `u` from `c(t*)` to `p`
  (`Cone.first_order`, no calculus), and then `c(t*) + r(t*) u` lies on the sphere of ball `t*` and, by the supporting
  line of the norm, outside every other open ball of the family (`cone_surface_point`).  On the axis (`p = c(t*)`) a
  unit `u` with `⟨u, b − a⟩ = r1 − r2` exists under the guard.  Outside the guard the field is a sphere's.
-/
import PolyVerif.Props.C19Cone
import PolyVerif.Props.C19Exact
import PolyVerif.Lemmas.ConeInterior

namespace PolyVerif
namespace C19
open Gen Gen.sdf Gen.geometry

theorem seg_toE (a b : P3) (t : ℝ) : toE (segPoint a b t) = toE a + t • (toE b - toE a) := by
  rw [segPoint, toE_add, toE_scale, toE_sub]

theorem norm_toE_unit (U : P3) (hU : U.Dot U = 1) : ‖toE U‖ = 1 := by
  rw [norm_toE]; simp only [V3.Length, V3.LengthSquared, RS.sqrt_eq]
  simp only [V3.Dot] at hU; rw [hU]; simp

/-- a point at distance `r(t*)` from the centre `c(t*)` in a unit direction `U` that satisfies the first-order
    condition at `t*` is on the zero set of the rounded cone -/
theorem cone_surface_point (a b : P3) (r1 r2 ts : ℝ) (h0 : 0 ≤ ts) (h1 : ts ≤ 1) (U : P3) (hU : U.Dot U = 1)
    (hR : 0 ≤ r1 + ts * (r2 - r1))
    (hfo : ∀ t, 0 ≤ t → t ≤ 1 → (t - ts) * (U.Dot (b.Sub a) + (r2 - r1)) ≤ 0) :
    RoundedCone a b r1 r2 ((segPoint a b ts).Add (U.Scale (r1 + ts * (r2 - r1)))) = 0 := by
  have hu := norm_toE_unit U hU
  rw [roundedCone_zero_iff_all]
  refine ⟨ts, h0, h1, ?_, ?_⟩
  · rw [← dist_toE, toE_add, toE_scale, add_sub_cancel_left, norm_smul, hu, mul_one, Real.norm_eq_abs,
      abs_of_nonneg hR]
  · intro t ht0 ht1
    rw [← dist_toE, toE_add, toE_scale, seg_toE, seg_toE]
    have e : toE a + ts • (toE b - toE a) + (r1 + ts * (r2 - r1)) • toE U - (toE a + t • (toE b - toE a))
        = (r1 + ts * (r2 - r1)) • toE U - (t - ts) • (toE b - toE a) := by module
    rw [e]
    have hs := Cone.support_line (toE U) (toE b - toE a) hu (r1 + ts * (r2 - r1)) (t - ts)
    rw [show inner ℝ (toE U) (toE b - toE a) = U.Dot (b.Sub a) by rw [← toE_sub, inner_toE]] at hs
    have := hfo t ht0 ht1
    nlinarith

/-- under the guard a unit direction with prescribed axial component `⟨U, b − a⟩ = r1 − r2` exists -/
theorem exists_unit_with_slope (a b : P3) (r1 r2 : ℝ) (hg : |r1 - r2| < a.Distance b) :
    ∃ U : P3, U.Dot U = 1 ∧ U.Dot (b.Sub a) + (r2 - r1) = 0 := by
  set w := b.Sub a with hw
  set N := w.Dot w with hN
  have hgN : (r1 - r2) ^ 2 < N := by
    have h1 : a.Distance b = Real.sqrt N := by
      rw [distance_eq_sqrt]; congr 1
    rw [h1] at hg
    have := (Real.lt_sqrt (abs_nonneg _)).mp hg
    rwa [sq_abs] at this
  have hN0 : 0 < N := lt_of_le_of_lt (sq_nonneg _) hgN
  obtain ⟨e, he1, he0⟩ := exists_perp_unit w
  have hκ : 0 ≤ 1 - (r1 - r2) ^ 2 / N := by
    rw [sub_nonneg, div_le_one hN0]; exact hgN.le
  set κ := Real.sqrt (1 - (r1 - r2) ^ 2 / N) with hκd
  have hκκ : κ * κ = 1 - (r1 - r2) ^ 2 / N := Real.mul_self_sqrt hκ
  refine ⟨(w.Scale ((r1 - r2) / N)).Add (e.Scale κ), ?_, ?_⟩
  · have e1 : ((w.Scale ((r1 - r2) / N)).Add (e.Scale κ)).Dot ((w.Scale ((r1 - r2) / N)).Add (e.Scale κ))
        = ((r1 - r2) / N) ^ 2 * w.Dot w + 2 * ((r1 - r2) / N) * κ * e.Dot w + κ * κ * e.Dot e := by
      simp only [V3.Dot, V3.Add, V3.Scale]; ring
    rw [e1, he1, he0, hκκ, ← hN]; field_simp; ring
  · have e2 : ((w.Scale ((r1 - r2) / N)).Add (e.Scale κ)).Dot w = ((r1 - r2) / N) * w.Dot w + κ * e.Dot w := by
      simp only [V3.Dot, V3.Add, V3.Scale]; ring
    rw [e2, he0, ← hN]; field_simp; ring

/-- squared distance from `p` to the segment point at parameter `ts + ε τ`, expanded around the point at `ts` -/
theorem distSq_seg_shift (a b p : P3) (ts x : ℝ) :
    p.DistanceSquared (segPoint a b (ts + x)) =
      p.DistanceSquared (segPoint a b ts) - 2 * x * (p.Sub (segPoint a b ts)).Dot (b.Sub a)
        + x ^ 2 * (b.Sub a).Dot (b.Sub a) := by
  simp only [V3.DistanceSquared, segPoint, V3.Add, V3.Sub, V3.Scale, V3.Dot]; ring

/-- exact distance, attained, INSIDE the shape, under the guard `|r1 − r2| < |b − a|` (no condition on the radii) -/
theorem roundedCone_exact_attained_inside (a b : P3) (r1 r2 : ℝ) (hg : |r1 - r2| < a.Distance b) (p : P3)
    (hp : RoundedCone a b r1 r2 p < 0) :
    ∃ s : P3, RoundedCone a b r1 r2 s = 0 ∧ p.Distance s = -RoundedCone a b r1 r2 p := by
  obtain ⟨ts, h0, h1, ht⟩ := roundedCone_attained_all a b r1 r2 p
  set c := segPoint a b ts with hc
  set R := r1 + ts * (r2 - r1) with hR
  set ρ := p.Distance c with hρ
  have hρ0 : 0 ≤ ρ := V3.distance_nonneg _ _
  have hρR : ρ < R := by linarith
  have hR0 : 0 < R := lt_of_le_of_lt hρ0 hρR
  have hmin : ∀ t, 0 ≤ t → t ≤ 1 → ρ - R ≤ p.Distance (segPoint a b t) - (r1 + t * (r2 - r1)) := by
    intro t ht0 ht1
    have := roundedCone_le_ball_all a b r1 r2 p t ht0 ht1
    linarith
  rcases hρ0.lt_or_eq with hρpos | hρz
  · -- p off the axis point c(t*): direction from c(t*) to p
    have hρρ : ρ ^ 2 = p.DistanceSquared c := by
      rw [hρ, distance_eq_sqrt, Real.sq_sqrt]
      simp only [V3.DistanceSquared]
      nlinarith [mul_self_nonneg (c.x - p.x), mul_self_nonneg (c.y - p.y), mul_self_nonneg (c.z - p.z)]
    have hvv : (p.Sub c).Dot (p.Sub c) = ρ ^ 2 := by
      rw [hρρ]; simp only [V3.DistanceSquared, V3.Sub, V3.Dot]; ring
    set U := (p.Sub c).Scale (1 / ρ) with hUd
    have hU : U.Dot U = 1 := by
      have : U.Dot U = (1 / ρ) ^ 2 * (p.Sub c).Dot (p.Sub c) := by
        simp only [hUd, V3.Dot, V3.Scale]; ring
      rw [this, hvv]; field_simp
    have hUw : U.Dot (b.Sub a) = (p.Sub c).Dot (b.Sub a) / ρ := by
      simp only [hUd, V3.Dot, V3.Scale]; ring
    have hfo : ∀ t, 0 ≤ t → t ≤ 1 → (t - ts) * (U.Dot (b.Sub a) + (r2 - r1)) ≤ 0 := by
      intro t ht0 ht1
      have key := Cone.first_order (ρ := ρ) (A := (t - ts) * ((p.Sub c).Dot (b.Sub a) / ρ))
        (B := (t - ts) * (r2 - r1)) (K := (t - ts) ^ 2 * (b.Sub a).Dot (b.Sub a)) hρpos
        (mul_nonneg (sq_nonneg _) (dot_self_nonneg _)) ?_
      · rw [hUw]; linarith
      · intro ε hε0 hε1
        have m0 : 0 ≤ ts + ε * (t - ts) := by nlinarith
        have m1 : ts + ε * (t - ts) ≤ 1 := by nlinarith
        have hm := hmin _ m0 m1
        rw [distance_eq_sqrt, distSq_seg_shift, ← hc, ← hρρ] at hm
        have e : ρ ^ 2 - 2 * (ε * (t - ts)) * (p.Sub c).Dot (b.Sub a) + (ε * (t - ts)) ^ 2 * (b.Sub a).Dot (b.Sub a)
            = ρ ^ 2 - 2 * ε * ρ * ((t - ts) * ((p.Sub c).Dot (b.Sub a) / ρ)) + ε ^ 2 * ((t - ts) ^ 2 * (b.Sub a).Dot (b.Sub a)) := by
          field_simp
        rw [e] at hm
        linarith
    refine ⟨c.Add (U.Scale R), cone_surface_point a b r1 r2 ts h0 h1 U hU hR0.le hfo, ?_⟩
    rw [ht, ← dist_toE, toE_add, toE_scale, hUd, toE_scale, toE_sub]
    have e : toE p - (toE c + R • (1 / ρ) • (toE p - toE c)) = (1 - R / ρ) • (toE p - toE c) := by module
    rw [e, norm_smul, dist_toE, ← hρ, Real.norm_eq_abs, abs_of_nonpos]
    · field_simp
    · rw [sub_nonpos, le_div_iff₀ hρpos]; linarith
  · -- p = c(t*) on the axis
    have hpc : p = c := V3.distance_eq_zero.mp hρz.symm
    obtain ⟨U, hU, hUs⟩ := exists_unit_with_slope a b r1 r2 hg
    refine ⟨c.Add (U.Scale R), cone_surface_point a b r1 r2 ts h0 h1 U hU hR0.le ?_, ?_⟩
    · intro t _ _; rw [hUs, mul_zero]
    · rw [ht, ← hρz, hpc, V3.distance_comm, ← dist_toE, toE_add, toE_scale, add_sub_cancel_left, norm_smul,
        norm_toE_unit U hU, Real.norm_eq_abs, abs_of_pos hR0]; ring

/-- exact distance, attained, INSIDE the shape, ALL parameters (nested / tangent balls and `a = b` included: there the
    field is the larger ball's) -/
theorem roundedCone_exact_attained_inside_all (a b : P3) (r1 r2 : ℝ) (p : P3)
    (hp : RoundedCone a b r1 r2 p < 0) :
    ∃ s : P3, RoundedCone a b r1 r2 s = 0 ∧ p.Distance s = -RoundedCone a b r1 r2 p := by
  by_cases hg : |r1 - r2| < a.Distance b
  · exact roundedCone_exact_attained_inside a b r1 r2 hg p hp
  · rw [roundedCone_nested a b r1 r2 hg] at hp ⊢
    split_ifs at hp ⊢
    · have hr : 0 ≤ r1 := ((V3.distance_nonneg p a).trans_lt ((sphere_neg_iff a r1 p).mp hp)).le
      obtain ⟨s, hs, hd⟩ := sphere_exact_attained_all a r1 hr p
      exact ⟨s, (sphere_zero_iff a r1 s).mpr hs, by rw [hd, abs_of_neg hp]⟩
    · have hr : 0 ≤ r2 := ((V3.distance_nonneg p b).trans_lt ((sphere_neg_iff b r2 p).mp hp)).le
      obtain ⟨s, hs, hd⟩ := sphere_exact_attained_all b r2 hr p
      exact ⟨s, (sphere_zero_iff b r2 s).mpr hs, by rw [hd, abs_of_neg hp]⟩

/-- rounded cone: `|f p|` IS the Euclidean distance from `p` to the zero set, for every `p` and all parameters with
    non-negative radii (the radii condition is needed only outside the shape) -/
theorem roundedCone_exact_all (a b : P3) (r1 r2 : ℝ) (hr1 : 0 ≤ r1) (hr2 : 0 ≤ r2) (p : P3) :
    (∀ s : P3, RoundedCone a b r1 r2 s = 0 → |RoundedCone a b r1 r2 p| ≤ p.Distance s) ∧
    (∃ s : P3, RoundedCone a b r1 r2 s = 0 ∧ p.Distance s = |RoundedCone a b r1 r2 p|) := by
  refine ⟨fun s hs => roundedCone_exact_le_all a b r1 r2 p s hs, ?_⟩
  rcases lt_or_ge (RoundedCone a b r1 r2 p) 0 with h | h
  · obtain ⟨s, hs, hd⟩ := roundedCone_exact_attained_inside_all a b r1 r2 p h
    exact ⟨s, hs, by rw [hd, abs_of_neg h]⟩
  · obtain ⟨s, hs, hd⟩ := roundedCone_exact_attained_outside_all a b r1 r2 hr1 hr2 p h
    exact ⟨s, hs, by rw [hd, abs_of_nonneg h]⟩

/-! ### non-vacuity -/

example : RoundedCone (⟨0, 0, 0⟩ : P3) ⟨4, 0, 0⟩ 2 1 ⟨0, 0, 0⟩ < 0 := by
  rw [roundedCone_neg_iff_all]
  refine ⟨0, le_rfl, by norm_num, ?_⟩
  have : (⟨0, 0, 0⟩ : P3).Distance (segPoint ⟨0, 0, 0⟩ ⟨4, 0, 0⟩ 0) = 0 :=
    V3.distance_eq_zero.mpr (by ext <;> simp [segPoint, V3.Add, V3.Sub, V3.Scale])
  rw [this]; norm_num

end C19
end PolyVerif
