/-
  C02 / C03 — the rejection branches of the mesh model are the `panic`s of the source (engine F tie, regenerated on every
  run).

  `PolyVerif/Gen/MeshGuards.lean` is regenerated from /repo/modeling/mesh.go and topology.go (go/facts mode c02.guards):
  every `panic` with the function it occurs in and the conditions under which it is reached.  The models of
  `PolyVerif/Model/Mesh*.lean` reject exactly on these guards (the "exact rejection iffs" of C03, the rejected operations that
  `ops_closed` of C02 excludes, the pool-size and topology guards C10 regenerates separately); `mesh_guards_from_source` pins
  the regenerated list, so a removed, weakened, inverted or added guard in the Go source breaks a named theorem before any
  sample runs.  (Core Lean only.)
-/
import PolyVerif.Model.Mesh
import PolyVerif.Gen.MeshGuards

namespace PolyVerif
namespace C02
open PolyVerif.Gen

/-- the complete list of rejections of the mesh core, as the model transcribes them:
    * `Append` rejects two meshes of different topology;
    * `requireTopology` / `requireV{1,2,3,4}Attribute` reject a wrong topology / a missing attribute — the guards behind every
      "requires …" operation of meshops;
    * the scans reject an unsupported topology and a pool size below one (C10);
    * an implied-index line strip needs at least two vertices;
    * `Transform` re-raises the first transformer error;
    * `PrimitiveCount`, `VertexNeighborTable`, `Topology.String`, `Topology.IndexSize` reject an undeclared topology value. -/
theorem mesh_guards_from_source :
    MeshGuards.guards =
      ["mesh.go newImpliedIndicesMesh: topo == LineStripTopology && attributeCount == 1",
       "mesh.go Mesh.Transform: range ops && err != nil",
       "mesh.go Mesh.PrimitiveCount: (fallthrough)",
       "mesh.go Mesh.Append: m.topology != other.topology",
       "mesh.go Mesh.ScanPrimitives: switch m.topology default",
       "mesh.go Mesh.ScanPrimitivesParallelWithPoolSize: size < 1",
       "mesh.go Mesh.ScanPrimitivesParallelWithPoolSize: switch m.topology default",
       "mesh.go Mesh.ScanPrimitivesParallelWithPoolSize: for && func literal && switch m.topology default",
       "mesh.go Mesh.ScanFloat3AttributeParallelWithPoolSize: size < 1",
       "mesh.go Mesh.ScanFloat2AttributeParallelWithPoolSize: size < 1",
       "mesh.go Mesh.ScanFloat1AttributeParallelWithPoolSize: size < 1",
       "mesh.go Mesh.ModifyFloat3AttributeParallelWithPoolSize: size < 1",
       "mesh.go Mesh.ModifyFloat2AttributeParallelWithPoolSize: size < 1",
       "mesh.go Mesh.ModifyFloat1AttributeParallelWithPoolSize: size < 1",
       "mesh.go Mesh.VertexNeighborTable: switch m.topology default",
       "mesh.go Mesh.requireTopology: m.topology != t",
       "mesh.go Mesh.requireV4Attribute: !m.HasFloat4Attribute(attr)",
       "mesh.go Mesh.requireV3Attribute: !m.HasFloat3Attribute(attr)",
       "mesh.go Mesh.requireV2Attribute: !m.HasFloat2Attribute(attr)",
       "mesh.go Mesh.requireV1Attribute: !m.HasFloat1Attribute(attr)",
       "topology.go Topology.String: (fallthrough)",
       "topology.go Topology.IndexSize: (fallthrough)"] := by decide

/-- the Go constant a model topology stands for -/
def topoConst : Mesh.Topology → String
  | .triangle => "TriangleTopology" | .point => "PointTopology" | .quad => "QuadTopology"
  | .line => "LineTopology" | .lineStrip => "LineStripTopology" | .lineLoop => "LineLoopTopology"

def allTopologies : List Mesh.Topology := [.triangle, .point, .quad, .line, .lineStrip, .lineLoop]

theorem allTopologies_complete (t : Mesh.Topology) : t ∈ allTopologies := by cases t <;> simp [allTopologies]

/-- the model's topologies are the `Topology` constants of the source in iota order: `toNat` is the Go value -/
theorem topologies_from_source :
    MeshGuards.topologies = allTopologies.map topoConst ∧
    ∀ t ∈ allTopologies, MeshGuards.topologies[t.toNat]? = some (topoConst t) := by decide

/-- `Topology.indexSize` — on which the "index count fits the topology" clause of `WF` rests — is the `return N` of the arm
    of `IndexSize()` that lists the constant; every constant is in exactly one arm -/
theorem indexSize_from_source :
    ∀ t ∈ allTopologies,
      (MeshGuards.indexSizeArms.filter (fun a => a.1.contains (topoConst t))).map (·.2) = [t.indexSize] := by decide

/-- the mesh core has no other way to refuse an operation: 22 guards in all -/
theorem mesh_guards_count : MeshGuards.guards.length = 22 := by decide

end C02
end PolyVerif
