/-
  C18 (round 2) — the per-vertex mesh operations behind the cap / quad placement, regenerated.

  `Cylinder.ToMesh` places its caps with `Mesh.Translate` (mesh.go) and `meshops.RotateAttribute3DTransformer`
  (→ `RotateAttribute3D`, meshops/rotate_attribute.go); `Model/SolidsAssembly.lean` interprets an extracted `Placement`
  as "`Quaternion.Rotate` per vector, then `Add` per vertex".  Engine F (`go/facts c18.meshops`) now reads the two Go
  functions, REFUSES them unless each is exactly one loop over ALL elements of one float3 attribute that writes one
  expression back to the same attribute, and regenerates that expression (`Gen/PrimMeshOps.lean`).  Here the interpreter's
  placement is proved to be the composition of the regenerated per-vertex operations, for every scalar.
-/
import PolyVerif.Model.SolidsAssembly
import PolyVerif.Gen.PrimMeshOps

namespace PolyVerif
namespace C18
open Solids LoopIR Gen
variable {α : Type} [Scalar α]

/-- mesh.go `Mesh.Translate`: the regenerated loop body `oldData[i].Add(v)` is the `Add` the interpreter uses; the
    attribute it rewrites is the position attribute -/
theorem translate_from_source (x v : V3 α) :
    Gen.PrimMeshOps.translateVertex x v = x.Add v ∧ Gen.PrimMeshOps.translateAttribute = "PositionAttribute" :=
  ⟨rfl, rfl⟩

/-- rotate_attribute.go `RotateAttribute3D`: the regenerated loop body `q.Rotate(oldData.At(i))` is the regenerated
    quaternion rotation the interpreter uses -/
theorem rotateAttribute_from_source (q : Gen.quaternion.Quaternion α) (x : V3 α) :
    Gen.PrimMeshOps.rotateVertex q x = q.Rotate x := rfl

/-- **placement of positions = regenerated `RotateAttribute3D` body, then regenerated `Mesh.Translate` body** (each only
    where the extracted `Placement` has that step) -/
theorem placePos_from_source (fpar fenv : Nat → α) (p : Placement) (x : V3 α) :
    placePos fpar fenv p x =
      (let x1 := match p.rotPos with
        | none => x
        | some (θ, ax) => Gen.PrimMeshOps.rotateVertex (quaternion.FromTheta (evalFE fpar fenv θ) (evalVE fpar fenv ax)) x
       match p.translate with
       | none => x1
       | some t => Gen.PrimMeshOps.translateVertex x1 (evalVE fpar fenv t)) := rfl

/-- placement of normals = regenerated `RotateAttribute3D` body (normals are never translated) -/
theorem placeNrm_from_source (fpar fenv : Nat → α) (p : Placement) (n : V3 α) :
    placeNrm fpar fenv p n =
      (match p.rotNrm with
       | none => n
       | some (θ, ax) => Gen.PrimMeshOps.rotateVertex (quaternion.FromTheta (evalFE fpar fenv θ) (evalVE fpar fenv ax)) n) := rfl

end C18
end PolyVerif
