/-
  C05, round 2 — the re-save clause in its literal, time-of-face form.

  `Obj.Resaves` (Model/Obj.lean) is the Bool the oracle `c05.holds.resave` evaluates: same face count; every
  face corner resolved against the `v / vt / vn` lines that PRECEDE the face; the input split at every `g`
  line; per stretch `keepComplete` (vt / vn kept iff every corner of the stretch has one).  Round 1 proved the
  final-pool form (`obj_resave_corners`); here the literal predicate itself is proved for every accepted input.
  Proofs: `PolyVerif/Lemmas/ObjResave.lean` (simulation of the reader fold by `resolveGroups`).
-/
import PolyVerif.Lemmas.ObjResave

namespace PolyVerif
namespace C05
open Obj ObjL

section s1
variable {τ α : Type} [DecidableEq τ] [DecidableEq α] (pc : τ → Except Err Corner)

/-- **Load → save loses or invents no face — the literal clause.**  For every input the reader accepts (any
    arrangement of `v / vt / vn / f / g / usemtl / mtllib` / comment lines, data lines between and after
    faces, any corner tokens, groups mixing corner shapes, empty groups, faces before any `g`), saving what
    was read succeeds and `Resaves pc pcId ls out` holds: the saved text has as many `f` lines as the input;
    every corner of both texts resolves against the pools AT THE TIME OF ITS FACE; and the faces of the saved
    text are, in order, the faces of the input, stretch by stretch between `g` lines, each corner with the
    same position, with its texture coordinate iff every corner of the stretch has one, its normal likewise. -/
theorem obj_resave_literal {ls : List (Line τ α)} {gs : List (Group τ α)} {libs : List String}
    (h : readObj pc ls = .ok (gs, libs)) (matFile : String) :
    ∃ out, writeObj matFile (gs.map toMesh) = .ok out ∧ Resaves pc pcId ls out = true :=
  ObjL.obj_resave_literal pc h matFile

omit [DecidableEq α] in
/-- what the reader accepts resolves at the time of the face: the reader's groups are the non-empty stretches
    of `resolveGroups`, every face of them resolved (helper, the simulation behind `obj_resave_literal`) -/
theorem readObj_resolves_at_face {ls : List (Line τ α)} {gs : List (Group τ α)} {libs : List String}
    (h : readObj pc ls = .ok (gs, libs)) :
    ∃ segs : List (List (RFace α)), resolveGroups pc [] [] [] [] ls = segs.map (·.map some) ∧
      (segs.map keepComplete).flatten =
        gs.flatMap (fun g => keepComplete (g.ftoks.filterMap (resFace pc (poolV ls) (poolN ls) (poolT ls)))) ∧
      ∀ g ∈ gs, ∀ f ∈ g.ftoks, (resFace pc (poolV ls) (poolN ls) (poolT ls) f).isSome :=
  ObjL.readObj_resolves_at_face pc h

end s1

/-! ### concrete instances (non-vacuity) -/

section instances

/-- an accepted text in which time-of-face matters: data lines after the first face, a group mixing corner
    shapes (`1//1` and `2`), an empty `g`, `usemtl` before and after `g` -/
def lateDataText : List (Line Corner Nat) :=
  [.v ⟨0, 0, 0⟩, .v ⟨1, 0, 0⟩, .v ⟨0, 1, 0⟩, .vn ⟨0, 0, 1⟩, .usemtl "red",
   .f ⟨1, none, some 1⟩ ⟨2, none, none⟩ ⟨3, none, some 1⟩, .g "empty", .g "b", .v ⟨5, 5, 5⟩, .vt ⟨7, 8⟩, .usemtl "blue",
   .f ⟨4, some 1, none⟩ ⟨2, some 1, none⟩ ⟨1, some 1, none⟩]

example : ∃ gs libs, readObj pcId lateDataText = .ok (gs, libs) ∧ gs.length = 2 := ⟨_, _, rfl, rfl⟩

/-- the predicate is not trivially true: a face referring to a `v` line that FOLLOWS it resolves in the final
    pool but not at the time of the face, and the reader rejects the text (panic) -/
def earlyFaceText : List (Line Corner Nat) :=
  [.v ⟨0, 0, 0⟩, .v ⟨1, 0, 0⟩, .f ⟨1, none, none⟩ ⟨2, none, none⟩ ⟨3, none, none⟩, .v ⟨0, 1, 0⟩]

example : readObj pcId earlyFaceText = .error .panic ∧ Resaves pcId pcId earlyFaceText earlyFaceText = false ∧
    (∀ o ∈ cornerAttrs pcId earlyFaceText, o.isSome) := by
  refine ⟨rfl, by decide, by decide⟩

/-- … and it distinguishes texts: dropping the normal of one corner of a complete group is seen -/
example : Resaves pcId pcId
    ([.v ⟨0, 0, 0⟩, .vn ⟨0, 0, 1⟩, .f ⟨1, none, some 1⟩ ⟨1, none, some 1⟩ ⟨1, none, some 1⟩] : List (Line Corner Nat))
    [.v ⟨0, 0, 0⟩, .f ⟨1, none, none⟩ ⟨1, none, none⟩ ⟨1, none, none⟩] = false := by decide

end instances

end C05
end PolyVerif
