/-
  C16, round 2 — `rendering.Tree.Hit` (octree over the bounding boxes of arbitrary hittables, tree.go) = `HitList.Hit`,
  for scenes of real primitives (contract proved in `Props/C16Prims.lean`).
-/
import PolyVerif.Props.C16Mesh
import PolyVerif.Model.RenderTree

namespace PolyVerif
namespace C16
open PolyVerif.Tree PolyVerif.RPrims Gen.geometry Gen.rendering Scalar

theorem listHit_map {H G K : Type} (P : G → K → K → Option K) (g : H → G) (l : List H) (mn mx : K) :
    listHit (fun h => P (g h)) l mn mx = listHit P (l.map g) mn mx := by
  simp only [listHit, List.foldl_map]

/-- the elements `NewBVH` creates carry the item's index: looking the items up again gives the item list back -/
theorem mkElems_lookup (objs : List (RPrim ℝ)) (F : RPrim ℝ → Prim ℝ) :
    (mkElems (objs.map F)).map (fun e => objs[e.id]?) = objs.map some := by
  apply List.ext_getElem?
  intro i
  simp only [mkElems, List.map_map, List.getElem?_map, List.length_map]
  by_cases hi : i < objs.length
  · simp [hi]
  · have : objs.length ≤ i := Nat.le_of_not_lt hi
    simp [this]

/-- **`rendering.Tree.Hit` = `HitList.Hit`** on the octree `NewBVH` builds (any depth, automatic included) over the
    boxes of ANY list of spheres / XY-rectangles / triangles: same flag and distance as the hit list over the items
    in their original order, for a unit-direction ray and every non-empty range (`mn = 0` if there is a triangle). -/
theorem tree_built_hit_eq_hitlist (objs : List (RPrim ℝ)) (depth : Nat) (t : Oct Box (Elem ℝ))
    (hb : treeOf objs depth = some t) (ray : TemporalRay ℝ) (hu : ray.direction.LengthSquared = 1)
    (mn mx : ℝ) (hlt : mn < mx) (hok : ∀ p ∈ objs, p.Ok ray mn) :
    treeHit objs t ray mn mx = listHit (RPrim.hitDist ray) objs mn mx := by
  classical
  unfold treeOf at hb
  have hwf : ∀ p ∈ objs.map (fun p => Prim.box p.box), BoxSub p.boundingBox p.boundingBox := by
    intro p hp
    obtain ⟨q, hq, rfl⟩ := List.mem_map.mp hp
    exact prim_box_wf' ray mn q (hok q hq)
  have h := build_covers _ depth hwf
  rw [hb] at h
  obtain ⟨hc, hperm⟩ := h
  -- guarded item function: admissible items only
  let g : Elem ℝ → ℝ → ℝ → Option ℝ := fun e lo hi =>
    (objs[e.id]?).bind (fun p => if p.Ok ray mn ∧ e.box = p.box then p.hitDist ray lo hi else none)
  let f : Elem ℝ → Option ℝ := fun e =>
    (objs[e.id]?).bind (fun p => if p.Ok ray mn ∧ e.box = p.box then RPrim.first ray mn p else none)
  have hcg : ∀ e hi, g e mn hi = (f e).bind (fun d => if d ≤ hi then some d else none) := by
    intro e hi
    simp only [g, f]
    cases objs[e.id]? with
    | none => rfl
    | some p =>
      simp only [Option.bind_some]
      by_cases hk : p.Ok ray mn ∧ e.box = p.box
      · simp only [hk, and_self, if_true]; exact prim_first_hit ray hu p mn hi hk.1
      · simp [hk]
  -- on elements of the built tree the guard is vacuous
  have hgood : ∀ e ∈ mkElems (objs.map (fun p => Prim.box p.box)), ∀ lo hi, itemHit objs ray e lo hi = g e lo hi := by
    intro e he lo hi
    simp only [mkElems, List.mem_map] at he
    obtain ⟨⟨p, i⟩, hpi, rfl⟩ := he
    have hz := List.mem_iff_getElem?.mp hpi
    obtain ⟨k, hk⟩ := hz
    rw [List.getElem?_zip_eq_some] at hk
    obtain ⟨hk1, hk2⟩ := hk
    rw [List.getElem?_map] at hk1
    have hik : i = k := by
      rw [List.getElem?_range] at hk2
      · simpa using hk2.symm
      · by_contra hlen
        rw [List.getElem?_eq_none (by simpa using Nat.le_of_not_lt hlen)] at hk2
        cases hk2
    subst hik
    cases ho : objs[i]? with
    | none => rw [ho] at hk1; simp at hk1
    | some q =>
      rw [ho] at hk1
      simp only [Option.map_some, Option.some.injEq] at hk1
      subst hk1
      have hq : q ∈ objs := List.mem_of_getElem? ho
      simp only [itemHit, g, ho, Option.bind_some, Prim.boundingBox, hok q hq, and_self, if_true]
  have hgoodT : ∀ e ∈ t.allElems, ∀ lo hi, itemHit objs ray e lo hi = g e lo hi :=
    fun e he => hgood e (hperm.mem_iff.mp he)
  have hsub : ∀ e ∈ t.pruned (fun b => !intersectsRayInRange b ray.Ray.Origin ray.Ray.Direction mn mx)
      (fun e => intersectsRayInRange e.box ray.Ray.Origin ray.Ray.Direction mn mx), e ∈ t.allElems := by
    intro e he
    rw [pruned_eq_scan (fun (b : Box) (e : Elem ℝ) => BoxSub e.box b) _ _ _ t hc] at he
    · exact (List.mem_filter.mp he).1
    · intro b e hsub hacc
      simp [Tree.slab_mono hsub _ _ mn mx hacc]
  unfold treeHit
  rw [listHit_congr_on (itemHit objs ray) g mn _ (fun e he hi => hgoodT e (hsub e he) mn hi)]
  -- octree path = all elements (needs the slab contract at THIS non-empty range only)
  have step1 : listHit g (t.pruned (fun b => !intersectsRayInRange b ray.Ray.Origin ray.Ray.Direction mn mx)
      (fun e => intersectsRayInRange e.box ray.Ray.Origin ray.Ray.Direction mn mx)) mn mx = listHit g t.allElems mn mx := by
    rw [pruned_eq_scan (fun (b : Box) (e : Elem ℝ) => BoxSub e.box b) _ _ _ t hc]
    · apply listHit_congr_hits f g mn hcg
      intro e dist hp
      simp only [List.mem_filter, and_iff_left_iff_imp]
      intro _
      simp only [g] at hp
      cases ho : objs[e.id]? with
      | none => rw [ho] at hp; cases hp
      | some p =>
        rw [ho] at hp
        simp only [Option.bind_some] at hp
        by_cases hk : p.Ok ray mn ∧ e.box = p.box
        · simp only [hk, and_self, if_true] at hp
          rw [hk.2]
          exact (prim_hit_slab ray hu p mn mx dist hk.1 hp).2 hlt
        · simp [hk] at hp
    · intro b e hsub hacc
      simp [Tree.slab_mono hsub _ _ mn mx hacc]
  rw [step1]
  -- any order
  rw [listHit_congr_mem f g mn hcg t.allElems (mkElems (objs.map (fun p => Prim.box p.box))) (fun e => hperm.mem_iff) mx]
  rw [← listHit_congr_on (itemHit objs ray) g mn _ (fun e he hi => hgood e he mn hi)]
  -- elements in input order = the items in input order
  have e1 : listHit (itemHit objs ray) (mkElems (objs.map (fun p => Prim.box p.box))) mn mx =
      listHit (fun (o : Option (RPrim ℝ)) lo hi => o.bind (fun p => p.hitDist ray lo hi))
        ((mkElems (objs.map (fun p => Prim.box p.box))).map (fun e => objs[e.id]?)) mn mx :=
    listHit_map (fun (o : Option (RPrim ℝ)) lo hi => o.bind (fun p => p.hitDist ray lo hi)) (fun (e : Elem ℝ) => objs[e.id]?) _ mn mx
  rw [e1, mkElems_lookup, ← listHit_map]
  rfl

end C16
end PolyVerif
