/-
  C03 — value clauses of the attribute transforms, stated independently of the model's own lambda.

  `Props/C03.lean` proves `Changed k f m m'` with `f` the function written in `Model/MeshTransforms.lean`
  (that half is definitional: it pins WHICH function is applied and that nothing else changes).  Here the
  functions themselves are characterised over ℝ by properties that do not mention how they are computed:
  translate keeps differences, scale-about-o fixes o and multiplies offsets, rotation keeps lengths and
  distances (scaled by |q|², 1 for a unit quaternion — the regenerated `Quaternion.Rotate` of C17), centring
  puts the bounding-box midpoint at the origin, normalising makes the longest vector have length 1.
  The same predicates are evaluated (at Float, with a tolerance) on the IMPLEMENTATION's output by the oracle
  `c03.holds.post_spec`.
-/
import PolyVerif.Props.C17
import PolyVerif.Model.MeshTransforms

namespace PolyVerif.C03
open PolyVerif PolyVerif.Gen PolyVerif.Gen.quaternion PolyVerif.Mesh PolyVerif.Mesh.MeshVal

abbrev R3 := V3 ℝ

/-! ### translate: `v ↦ v + t` -/

/-- differences of positions are unchanged, and every vertex moves by exactly `t` -/
theorem translate_post (t u v : R3) : (u.Add t).Sub (v.Add t) = u.Sub v ∧ (v.Add t).Sub v = t := by
  constructor <;> ext <;> simp [V3.Add, V3.Sub]

/-! ### scale about `o`: `v ↦ o + (v - o) ∘ a` -/

/-- `o` is a fixed point and offsets from `o` are multiplied component-wise by `a` -/
theorem scaleAbout_post (o a v : R3) :
    o.Add ((o.Sub o).MultByVector a) = o ∧
    (o.Add ((v.Sub o).MultByVector a)).Sub o = (v.Sub o).MultByVector a := by
  constructor <;> ext <;> simp [V3.Add, V3.Sub, V3.MultByVector]

/-! ### rotate: `v ↦ q.Rotate v` (the function C17 proves to be a rotation) -/

theorem rotate_sub (q : C17.Q) (u v : R3) : (q.Rotate u).Sub (q.Rotate v) = q.Rotate (u.Sub v) := by
  ext <;> simp [Quaternion.Rotate, V3.Scale, V3.Dot, V3.Add, V3.Sub, V3.Cross] <;> ring

/-- lengths and pairwise distances are multiplied by `|q|²`; for a unit quaternion they are preserved -/
theorem rotate_post (q : C17.Q) (u v : R3) :
    (q.Rotate v).Dot (q.Rotate v) = (C17.normSq q) ^ 2 * v.Dot v ∧
    ((q.Rotate u).Sub (q.Rotate v)).Dot ((q.Rotate u).Sub (q.Rotate v)) = (C17.normSq q) ^ 2 * (u.Sub v).Dot (u.Sub v) := by
  refine ⟨C17.quat_rotate_norm_general q v, ?_⟩
  rw [rotate_sub]; exact C17.quat_rotate_norm_general q (u.Sub v)

theorem rotate_unit_post (q : C17.Q) (hq : C17.normSq q = 1) (u v : R3) :
    (q.Rotate v).Length = v.Length ∧ ((q.Rotate u).Sub (q.Rotate v)).Length = (u.Sub v).Length := by
  refine ⟨C17.quat_rotate_norm q hq v, ?_⟩
  rw [rotate_sub]; exact C17.quat_rotate_norm q hq (u.Sub v)

example : C17.normSq (⟨⟨0, 0, 1⟩, 0⟩ : C17.Q) = 1 := by simp [C17.normSq, V3.Dot]

/-! ### apply TRS: rotate(scale ∘ v) + t -/

theorem applyTRS_post (t : trs.TRS ℝ) (u v : R3) :
    (t.Transform u).Sub (t.Transform v) = t.rotation.Rotate (t.scale.MultByVector (u.Sub v)) := by
  rw [C17.trs_transform, C17.trs_transform]
  ext <;> simp [Quaternion.Rotate, V3.Scale, V3.Dot, V3.Add, V3.Sub, V3.Cross, V3.MultByVector] <;> ring

/-! ### centre: `v ↦ v - midpoint(bounding box)`

The Go loop starts its running minimum / maximum at ±Inf; on a non-empty array that is the fold started at
the first element (IEEE: `min(+Inf, x) = x`), which is how it is stated over ℝ (ℝ has no infinity). -/

def lo1 (x : ℝ) (xs : List ℝ) : ℝ := xs.foldl min x
def hi1 (x : ℝ) (xs : List ℝ) : ℝ := xs.foldl max x

theorem foldl_min_sub (c : ℝ) : ∀ (xs : List ℝ) (x : ℝ), (xs.map (· - c)).foldl min (x - c) = xs.foldl min x - c
  | [], _ => rfl
  | y :: ys, x => by
    simp only [List.map_cons, List.foldl_cons]
    rw [min_sub_sub_right, foldl_min_sub c ys]

theorem foldl_max_sub (c : ℝ) : ∀ (xs : List ℝ) (x : ℝ), (xs.map (· - c)).foldl max (x - c) = xs.foldl max x - c
  | [], _ => rfl
  | y :: ys, x => by
    simp only [List.map_cons, List.foldl_cons]
    rw [max_sub_sub_right, foldl_max_sub c ys]

/-- per axis: after subtracting the bounding-interval midpoint `c = (lo + hi) / 2`, the bounding interval of the
    result is symmetric about 0 — its midpoint is 0 -/
theorem center_post (x : ℝ) (xs : List ℝ) :
    let c := (lo1 x xs + hi1 x xs) / 2
    (lo1 (x - c) (xs.map (· - c)) + hi1 (x - c) (xs.map (· - c))) / 2 = 0 := by
  intro c
  simp only [lo1, hi1, foldl_min_sub, foldl_max_sub]
  simp only [c, lo1, hi1]; ring

example : (lo1 1 [5, -3] + hi1 1 [5, -3]) / 2 = 1 := by norm_num [lo1, hi1]

/-! ### normalise: `v ↦ v / L`, `L` the longest length -/

theorem length_div (v : R3) {L : ℝ} (hL : 0 < L) : (v.DivByConstant L).Length = v.Length / L := by
  simp only [V3.Length, V3.LengthSquared, V3.DivByConstant, RS.sqrt_eq]
  have : v.x / L * (v.x / L) + v.y / L * (v.y / L) + v.z / L * (v.z / L) = (v.x * v.x + v.y * v.y + v.z * v.z) / (L * L) := by
    field_simp
  rw [this, Real.sqrt_div' _ (by positivity), Real.sqrt_mul_self hL.le]

/-- when `L > 0` is the longest length in the array (attained by `w`, an upper bound for every `v`), every
    normalised vector has length ≤ 1 and the longest one has length exactly 1 -/
theorem normalize_post (d : List R3) (w : R3) (hw : w ∈ d) (hpos : 0 < w.Length) (hmax : ∀ v ∈ d, v.Length ≤ w.Length) :
    (∀ v ∈ d, (v.DivByConstant w.Length).Length ≤ 1) ∧ (w.DivByConstant w.Length).Length = 1 := by
  constructor
  · intro v hv
    rw [length_div v hpos, div_le_one hpos]; exact hmax v hv
  · rw [length_div w hpos, div_self hpos.ne']

end PolyVerif.C03
