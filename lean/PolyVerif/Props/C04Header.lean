/-
  C04 — the header TEXT layer and the composed round trip from FILE BYTES.

  `Ply.parseHeader` is the byte-level model of `ply.ReadHeader` (one byte at a time up to LF, every CR dropped, magic
  line, format line with version, blank lines skipped, `strings.Fields`, `comment` / `element` / `property [list]` lines,
  `strconv.ParseInt` on counts, alias table, unknown type → panic, property before element → panic, everything else —
  obj_info included — ignored, exact `end_header`); `Ply.Header.render` is `Header.Write`.  Both are corresponded
  byte-for-byte with the Go code on every run (`c04.write`, `c04.header`, `c08.header` incl. mutations).
-/
import PolyVerif.Model.Ply
import PolyVerif.Lemmas.Ply
import PolyVerif.Lemmas.PlyHeader
import PolyVerif.Lemmas.PlyCompose
import PolyVerif.Lemmas.PlyNames
import PolyVerif.Props.C04Compose

namespace PolyVerif
namespace C04
open Ply PlyLemmas PlyHeader PlyCompose

variable {α : Type}

/-- `ReadHeader (Header.Write h ++ body) = (h, body)` for every header the writer can print such that the parser
gives it back unchanged (`HeaderOK`: no obj_info — the parser drops it —, comments without CR/LF and outer blanks,
names non-empty and free of white space, element and list-property names lower-case, counts in `0 … 2⁶³−1`) -/
theorem ply_header_text_roundtrip (h : Header) (hok : HeaderOK h) (body : Bytes) :
    parseHeader (h.render ++ body) = .ok (h, body) :=
  parse_render h hok body

/-- every STRICT PREFIX of a printed header is rejected with an error: a file cut anywhere inside the header text —
in the middle of a line, at a line boundary, before `end_header`, inside `end_header`, before its LF — does not load
(and does not panic).  [byte-level version of C14's `ply_header_cut`, with the real parser model] -/
theorem ply_header_cut_bytes (h : Header) (hok : HeaderOK h) (p t : Bytes) (hpt : p ++ t = h.render) (ht : t ≠ []) :
    parseHeader p = .error .err :=
  parse_cut h hok p t hpt ht

/-- the rejected branches of the well-formedness predicate are real: a property name with a blank does NOT come back
(`property float a b` has four fields: "ill-formatted scalar property") … -/
example : headerStep ⟨.body, .ascii, [⟨nm "vertex", 1, []⟩], []⟩ ((PProp.scalar (nm "a b") .float).render.dropLast)
    = .error .err := by rfl

/-- … an upper-case element name comes back lowered (so it is not the header that was printed), an obj_info line is
dropped, a property before any element panics, an unknown type panics -/
example : headerStep ⟨.body, .le, [], []⟩ (nm "element Vertex 0")
    = .ok (.inl ⟨.body, .le, [⟨nm "vertex", 0, []⟩], []⟩) := by rfl
example : headerStep ⟨.body, .le, [], []⟩ (nm "obj_info made by x") = .ok (.inl ⟨.body, .le, [], []⟩) := by rfl
example : headerStep ⟨.body, .le, [], []⟩ (nm "property float x") = .error .panic := by rfl
example : headerStep ⟨.body, .le, [⟨nm "vertex", 1, []⟩], []⟩ (nm "property half x") = .error .panic := by rfl

/-- the headers `MeshWriter.Write` emits are `HeaderOK` when the property names of the writers that fire are tokens
(non-empty, no white space), the texture URI (if any) is printable, and the counts fit int64 -/
theorem writeHeader_ok (cfg : WriterCfg) (m : MeshVal α)
    (hnames : ∀ w ∈ selectWriters cfg m, ∀ n ∈ w.names, Tok n)
    (huri : ∀ u, m.texURI = some u → CommentOK (nm "TextureFile " ++ u))
    (hsize : m.attrLen < 2 ^ 63) (hidx : m.indices.length < 2 ^ 63) : HeaderOK (writeHeader cfg m) := by
  have hcreated : CommentOK (nm "Created with github.com/EliCDavis/polyform") := ⟨by decide, by decide⟩
  have hvert : Tok (nm "vertex") ∧ lower (nm "vertex") = nm "vertex" := ⟨⟨by decide, by decide⟩, by decide⟩
  have hface : Tok (nm "face") ∧ lower (nm "face") = nm "face" := ⟨⟨by decide, by decide⟩, by decide⟩
  have hvi : Tok (nm "vertex_indices") ∧ lower (nm "vertex_indices") = nm "vertex_indices" := ⟨⟨by decide, by decide⟩, by decide⟩
  have htc : Tok (nm "texcoord") ∧ lower (nm "texcoord") = nm "texcoord" := ⟨⟨by decide, by decide⟩, by decide⟩
  have htri : triCount m < 2 ^ 63 := Nat.lt_of_le_of_lt (Nat.div_le_self _ _) hidx
  have hve : ElemOK ⟨nm "vertex", m.attrLen, ((selectWriters cfg m).map WProp.props).flatten⟩ := by
    refine ⟨hvert.1, hvert.2, by simp, by simp; omega, ?_⟩
    intro p hp
    simp only [List.mem_flatten, List.mem_map] at hp
    obtain ⟨ps, ⟨w, hw, rfl⟩, hp⟩ := hp
    simp only [WProp.props, List.mem_map] at hp
    obtain ⟨n, hn, rfl⟩ := hp
    exact hnames w hw n hn
  have hfe : ElemOK ⟨nm "face", triCount m, faceProps m⟩ := by
    refine ⟨hface.1, hface.2, by simp, by simp; omega, ?_⟩
    intro p hp
    simp only [faceProps, List.mem_append, List.mem_cons, List.not_mem_nil, or_false] at hp
    rcases hp with rfl | hp
    · exact hvi
    · split at hp
      · simp at hp; subst hp; exact htc
      · simp at hp
  refine ⟨rfl, ?_, ?_⟩
  · intro c hc
    simp only [writeHeader, List.mem_append, List.mem_cons, List.not_mem_nil, or_false] at hc
    rcases hc with hc | rfl
    · cases hu : m.texURI with
      | none => simp [hu] at hc
      | some u => simp [hu] at hc; subst hc; exact huri u hu
    · exact hcreated
  · intro e he
    simp only [writeHeader, List.mem_append, List.mem_cons, List.not_mem_nil, or_false] at he
    rcases he with rfl | he
    · exact hve
    · split at he
      · simp at he; subst he; exact hfe
      · simp at he

/-- `MeshWriter.Write` then `ReadHeader`, on the FILE BYTES: the header parses to exactly the header that was built from
the property writers, and what remains unread is exactly the body -/
theorem ply_written_header_parses (c : Coding α) (cfg : WriterCfg) (m : MeshVal α) (bytes : Bytes)
    (h : writeMesh c cfg m = .ok bytes)
    (huri : ∀ u, m.texURI = some u → CommentOK (nm "TextureFile " ++ u))
    (hsize : m.attrLen < 2 ^ 63) (hidx : m.indices.length < 2 ^ 63) :
    ∃ body, writeBody c cfg m = .ok body ∧ bytes = (writeHeader cfg m).render ++ body ∧
      parseHeader bytes = .ok (writeHeader cfg m, body) := by
  simp only [writeMesh] at h
  cases hb : writeBody c cfg m with
  | error e => simp [hb, bind, Except.bind] at h
  | ok body =>
    simp [hb, bind, Except.bind, pure, Except.pure] at h
    refine ⟨body, rfl, h.symm, ?_⟩
    rw [← h]
    exact parse_render _ (writeHeader_ok cfg m (names_of_writeBody_ok c cfg m body hb).1 huri hsize hidx) body

/-- THE COMPOSED ROUND TRIP FROM FILE BYTES (binary encodings): `readMesh (writeMesh cfg m)` satisfies `RoundTrips`.
Same guards as `ply_roundtrip_binary_partial` plus a printable texture URI; that the property names are single words and
pairwise distinct follows from `writeMesh … = .ok` (the writer rejects anything else, writer.go:144-158). -/
theorem ply_roundtrip_binary_bytes [BEq α] [LawfulBEq α] (c : Coding α) (cfg : WriterCfg) (m : MeshVal α) (bytes : Bytes)
    (hf : cfg.format ≠ .ascii) (hwf : m.WF = true) (h : writeMesh c cfg m = .ok bytes)
    (hpoint : m.topo = .point → m.indices = (List.range m.attrLen).map Int.ofNat)
    (hsize : m.attrLen ≤ 2 ^ 31) (hidx : m.indices.length < 2 ^ 63)
    (huri : ∀ u, m.texURI = some u → CommentOK (nm "TextureFile " ++ u))
    (bl : List (Built × List Nat)) (hcl : ClaimOK cfg m bl) :
    ∃ back, readMesh c defaultReader bytes = .ok back ∧ RoundTrips c cfg m back = true := by
  obtain ⟨body, hbody, _, hparse⟩ := ply_written_header_parses c cfg m bytes h huri
    (Nat.lt_of_le_of_lt hsize (by decide)) hidx
  obtain ⟨back, hread, hrt⟩ := ply_roundtrip_binary_partial c cfg m body hf hwf hbody hpoint hsize bl hcl
  exact ⟨back, by simp [readMesh, hparse, bind, Except.bind, hread], hrt⟩

/-- the same with the decidable claim certificate; the `example`s discharge every hypothesis by `decide` -/
theorem ply_roundtrip_binary_bytes_checked [BEq α] [LawfulBEq α] (c : Coding α) (cfg : WriterCfg) (m : MeshVal α)
    (bytes : Bytes) (hf : cfg.format ≠ .ascii) (hwf : m.WF = true) (h : writeMesh c cfg m = .ok bytes)
    (hpoint : m.topo = .point → m.indices = (List.range m.attrLen).map Int.ofNat)
    (hsize : m.attrLen ≤ 2 ^ 31) (hidx : m.indices.length < 2 ^ 63)
    (huri : ∀ u, m.texURI = some u → CommentOK (nm "TextureFile " ++ u))
    (hcheck : (claimCheck cfg m).isSome = true) :
    ∃ back, readMesh c defaultReader bytes = .ok back ∧ RoundTrips c cfg m back = true := by
  obtain ⟨bl, hbl⟩ := Option.isSome_iff_exists.mp hcheck
  exact ply_roundtrip_binary_bytes c cfg m bytes hf hwf h hpoint hsize hidx huri bl
    (claimCheck_sound cfg m bl hbl)

/-! non-vacuity: the welded triangle mesh and the custom-configuration point cloud of `C04Compose`, from file bytes -/

instance (t : Bytes) : Decidable (Tok t) := by unfold Tok; infer_instance

example : HeaderOK (writeHeader (defaultWriter .be) exMesh) :=
  writeHeader_ok _ _ (by decide) (by intro u hu; simp [exMesh] at hu) (by decide) (by decide)

example : ∃ back, readMesh toyCoding defaultReader ((writeMesh toyCoding (defaultWriter .be) exMesh).toOption.getD [])
      = .ok back ∧ RoundTrips toyCoding (defaultWriter .be) exMesh back = true :=
  ply_roundtrip_binary_bytes_checked toyCoding (defaultWriter .be) exMesh _ (by decide) (by decide) (by rfl)
    (by decide) (by decide) (by decide) (by intro u hu; simp [exMesh] at hu) (by decide)

example : ∃ back, readMesh toyCoding defaultReader ((writeMesh toyCoding exCfg exCloud).toOption.getD [])
      = .ok back ∧ RoundTrips toyCoding exCfg exCloud back = true :=
  ply_roundtrip_binary_bytes_checked toyCoding exCfg exCloud _ (by decide) (by decide) (by rfl)
    (by decide) (by decide) (by decide) (by intro u hu; simp [exCloud] at hu) (by decide)

/-- the UV-mapped welded quad of `C04Compose`, from file bytes -/
example : ∃ back, readMesh toyCoding defaultReader ((writeMesh toyCoding (defaultWriter .le) exUV).toOption.getD [])
      = .ok back ∧ RoundTrips toyCoding (defaultWriter .le) exUV back = true :=
  ply_roundtrip_binary_bytes_checked toyCoding (defaultWriter .le) exUV _ (by decide) (by decide) (by rfl)
    (by decide) (by decide) (by decide) (by intro u hu; simp [exUV] at hu) (by decide)

/-- a cut header: the first 40 bytes of that file -/
example : parseHeader (((writeHeader (defaultWriter .be) exMesh).render).take 40) = .error .err :=
  ply_header_cut_bytes _ (writeHeader_ok _ _ (by decide) (by intro u hu; simp [exMesh] at hu) (by decide) (by decide))
    _ (((writeHeader (defaultWriter .be) exMesh).render).drop 40) (List.take_append_drop 40 _) (by decide)

end C04
end PolyVerif
