/-
  C15 — Gaussian-splat codecs keep every splat's fields within one quantisation step.

  Part 1 (.splat, `Model/Splat.lean`): record layout round trip at the bit level,
  count/order, quantisation steps of colour, opacity, rotation (real-number
  meaning of the source's expressions; `trunc` is the integer part).
  Part 2 (SPZ, `Model/Spz.lean`): see below.

  Property theorems only; helper lemmas are named `*_aux` or are marked private.
-/
import PolyVerif.Model.Splat
import PolyVerif.Lemmas.Splat
import PolyVerif.Lemmas.RealScalar
import Mathlib.Analysis.SpecialFunctions.Log.Basic
import Mathlib.Tactic

namespace PolyVerif
namespace C15
open Splat Scalar

theorem splat_roundtrip_count_order {α : Type} [Scalar α] (E : Env α) (cloud : List (Splat α)) :
    Splat.read E (Splat.write E cloud) = (cloud.map (fun s => decSplat E (encSplat E s)), false) := by
  simp [Splat.read, Splat.write, readRecs_flatMap, List.map_map, Function.comp_def]

/-- trunc is the integer part -/
def FloorEnv (E : Env ℝ) : Prop := ∀ x : ℝ, 0 ≤ x → E.trunc x = ⌊x⌋₊

theorem byte_floor_err (t : ℝ) (h0 : 0 ≤ t) (h1 : t ≤ 255) :
    ((byteOf ⌊t⌋₊).toNat : ℝ) ≤ t ∧ t < ((byteOf ⌊t⌋₊).toNat : ℝ) + 1 := by
  have hn : ⌊t⌋₊ ≤ 255 := by
    have : ⌊t⌋₊ ≤ ⌊(255:ℝ)⌋₊ := Nat.floor_le_floor h1
    simpa using this
  have e : (byteOf ⌊t⌋₊).toNat = ⌊t⌋₊ := by
    simp only [byteOf, UInt8.toNat_ofNat']; omega
  rw [e]
  exact ⟨Nat.floor_le h0, Nat.lt_floor_add_one t⟩

theorem colStored_range (E : Env ℝ) (c : ℝ) : 0 ≤ colStored E c ∧ colStored E c ≤ 1 := by
  simp only [colStored, vclamp, Nat.cast_zero, Nat.cast_one]
  constructor
  · exact le_max_right _ _
  · exact max_le (min_le_right _ _) zero_le_one


theorem quant_err (s d n : ℝ) (hd : 0 < d) (ha : n ≤ s * d) (hb : s * d < n + 1) :
    |n / d - s| ≤ 1 / d := by
  rw [abs_le]
  constructor
  · rw [le_sub_iff_add_le, le_div_iff₀ hd]
    have : (-(1 / d) + s) * d = s * d - 1 := by field_simp; ring
    rw [this]; linarith
  · rw [sub_le_iff_le_add, div_le_iff₀ hd]
    have : (1 / d + s) * d = 1 + s * d := by field_simp
    rw [this]; linarith

theorem splat_color_step (E : Env ℝ) (hE : FloorEnv E) (c : ℝ) :
    |colUnit (colByte E c) - colStored E c| ≤ 1 / 255 := by
  obtain ⟨h0, h1⟩ := colStored_range E c
  have ht0 : 0 ≤ colStored E c * 255 := by positivity
  have ht1 : colStored E c * 255 ≤ 255 := by linarith
  obtain ⟨ha, hb⟩ := byte_floor_err _ ht0 ht1
  have key : colByte E c = byteOf ⌊colStored E c * 255⌋₊ := by
    simp only [colByte, Nat.cast_ofNat]; rw [hE _ ht0]
  rw [key]
  simp only [colUnit, byteF, Nat.cast_ofNat]
  exact quant_err _ 255 _ (by norm_num) ha hb

/-- in the SH-coefficient domain: an in-range colour comes back within `1/(255·SH_C0)` -/
theorem splat_color_step_fdc (E : Env ℝ) (hE : FloorEnv E) (hC : 0 < E.shC0) (c : ℝ)
    (h0 : 0 ≤ c * E.shC0 + 1 / 2) (h1 : c * E.shC0 + 1 / 2 ≤ 1) :
    |colDec E (colByte E c) - c| ≤ 1 / (255 * E.shC0) := by
  have hs : colStored E c = c * E.shC0 + 1 / 2 := by
    simp only [colStored, vclamp, half, RS.lit_eq, Nat.cast_zero, Nat.cast_one, Nat.cast_ofNat]
    rw [min_eq_left h1, max_eq_left h0]
  have h := splat_color_step E hE c
  rw [hs] at h
  have e : colDec E (colByte E c) - c = (colUnit (colByte E c) - (c * E.shC0 + 1 / 2)) / E.shC0 := by
    simp only [colDec, half, RS.lit_eq, Nat.cast_one, Nat.cast_ofNat]; field_simp; ring
  rw [e, abs_div, abs_of_pos hC, div_le_iff₀ hC]
  calc _ ≤ 1 / 255 := h
    _ = 1 / (255 * E.shC0) * E.shC0 := by field_simp

theorem alphaStored_range (E : Env ℝ) (o : ℝ) (he : 0 ≤ E.exp (-o)) :
    0 ≤ alphaStored E o ∧ alphaStored E o ≤ 1 := by
  simp only [alphaStored, Nat.cast_one]
  constructor
  · positivity
  · rw [div_le_one (by linarith)]; linarith

theorem splat_opacity_step (E : Env ℝ) (hE : FloorEnv E) (o : ℝ) (he : 0 ≤ E.exp (-o)) :
    |colUnit (alphaByte E o) - alphaStored E o| ≤ 1 / 255 := by
  obtain ⟨h0, h1⟩ := alphaStored_range E o he
  have ht0 : 0 ≤ alphaStored E o * 255 := by positivity
  have ht1 : alphaStored E o * 255 ≤ 255 := by linarith
  obtain ⟨ha, hb⟩ := byte_floor_err _ ht0 ht1
  have key : alphaByte E o = byteOf ⌊alphaStored E o * 255⌋₊ := by
    simp only [alphaByte, Nat.cast_ofNat]; rw [hE _ ht0]
  rw [key]
  simp only [colUnit, byteF, Nat.cast_ofNat]
  exact quant_err _ 255 _ (by norm_num) ha hb

theorem splat_rotation_step (E : Env ℝ) (hE : FloorEnv E) (r : ℝ) (hlo : -1 ≤ r) (hhi : r ≤ 1) :
    |rotDec (rotByte E r) - r| ≤ 1 / 128 := by
  have hs0 : (0:ℝ) ≤ rotStored r := by
    simp only [rotStored, vclamp, Nat.cast_zero]; exact le_max_right _ _
  have hs1 : rotStored r ≤ 255 := by
    simp only [rotStored, vclamp, Nat.cast_zero, Nat.cast_ofNat]
    exact max_le (min_le_right _ _) (by norm_num)
  obtain ⟨ha, hb⟩ := byte_floor_err _ hs0 hs1
  have key : rotByte E r = byteOf ⌊rotStored r⌋₊ := by
    simp only [rotByte]; rw [hE _ hs0]
  rw [key]
  simp only [rotDec, byteF, Nat.cast_ofNat]
  have hs : rotStored r = min (r * 128 + 128) 255 := by
    simp only [rotStored, vclamp, Nat.cast_zero, Nat.cast_ofNat]
    apply max_eq_left
    apply le_min <;> linarith
  generalize (byteOf ⌊rotStored r⌋₊).toNat = m at ha hb ⊢
  rw [hs] at ha hb
  rw [abs_le]
  rcases le_total (r * 128 + 128) 255 with h | h
  · rw [min_eq_left h] at ha hb
    constructor
    · rw [le_sub_iff_add_le, le_div_iff₀ (by norm_num)]; linarith
    · rw [sub_le_iff_le_add, div_le_iff₀ (by norm_num)]; linarith
  · rw [min_eq_right h] at ha hb
    have h1 : m ≤ 255 := by exact_mod_cast ha
    have h2 : 255 < m + 1 := by exact_mod_cast hb
    have hm : m = 255 := by omega
    subst hm
    constructor
    · rw [le_sub_iff_add_le, le_div_iff₀ (by norm_num)]; push_cast; linarith
    · rw [sub_le_iff_le_add, div_le_iff₀ (by norm_num)]; push_cast; linarith

/-- the pinned encoder (no clamp): a unit component decodes to −1 -/
theorem splat_rotation_wraps (E : Env ℝ) (hE : FloorEnv E) :
    rotDec (rotByteOld E (1:ℝ)) = (-1 : ℝ) ∧ rotDec (rotByte E (1:ℝ)) = (127 / 128 : ℝ) := by
  have h256 : E.trunc ((1:ℝ) * 128 + 128) = 256 := by
    rw [hE _ (by norm_num)]; norm_num
  have hst : rotStored (1:ℝ) = 255 := by
    simp only [rotStored, vclamp, Nat.cast_zero, Nat.cast_ofNat]; norm_num
  have h255 : E.trunc (rotStored (1:ℝ)) = 255 := by
    rw [hst, hE _ (by norm_num)]; norm_num
  constructor
  · simp only [rotDec, rotByteOld, byteF, Nat.cast_ofNat, h256, byteOf]; norm_num
  · simp only [rotDec, rotByte, byteF, Nat.cast_ofNat, h255, byteOf]; norm_num

/-! ### positions and scales -/

/-- every 32-byte record survives `encRec`/`decRec` bit for bit: in particular the six float32
    words are returned with exactly the bits that were written -/
theorem splat_record_bits_exact (r : Rec) : decRec (encRec r) = some r := decRec_encRec r

/-- positions come back as the float32 value that was stored, exactly: no arithmetic touches them -/
theorem splat_position_exact {α : Type} [Scalar α] (E : Env α) (s : Splat α) :
    (decSplat E (encSplat E s)).px = E.of32 (E.to32 s.px) ∧
    (decSplat E (encSplat E s)).py = E.of32 (E.to32 s.py) ∧
    (decSplat E (encSplat E s)).pz = E.of32 (E.to32 s.pz) := ⟨rfl, rfl, rfl⟩

/-- a float32-representable coordinate is returned unchanged -/
theorem splat_position_exact_f32 {α : Type} [Scalar α] (E : Env α) (s : Splat α)
    (hx : E.of32 (E.to32 s.px) = s.px) : (decSplat E (encSplat E s)).px = s.px := hx

/-- scales: `log (float32 (exp s))` — equal to `s` up to the float32 rounding of `exp` and the
    rounding of `exp`/`log` themselves (those roundings are not modelled: residue) -/
theorem splat_scale_log_f32_exp {α : Type} [Scalar α] (E : Env α) (s : Splat α) :
    (decSplat E (encSplat E s)).sx = E.log (E.of32 (E.to32 (E.exp s.sx))) ∧
    (decSplat E (encSplat E s)).sy = E.log (E.of32 (E.to32 (E.exp s.sy))) ∧
    (decSplat E (encSplat E s)).sz = E.log (E.of32 (E.to32 (E.exp s.sz))) := ⟨rfl, rfl, rfl⟩

/-- with exact `exp`/`log` and a float32-representable `exp s`, the scale is returned unchanged -/
theorem splat_scale_exact (E : Env ℝ) (hexp : E.exp = Real.exp) (hlog : E.log = Real.log) (s : Splat ℝ)
    (h32 : E.of32 (E.to32 (E.exp s.sx)) = E.exp s.sx) : (decSplat E (encSplat E s)).sx = s.sx := by
  rw [(splat_scale_log_f32_exp E s).1, h32, hexp, hlog, Real.log_exp]

/-! ### non-vacuity -/

/-- a concrete real environment: integer part, real exp/log, (toy) float32 = identity on 0 -/
noncomputable def exEnv : Env ℝ :=
  { trunc := fun x => ⌊x⌋₊, exp := Real.exp, log := Real.log, to32 := fun _ => 0, of32 := fun _ => 0,
    shC0 := 28209479177387814 / 100000000000000000 }

example : FloorEnv exEnv := fun _ _ => rfl
example : 0 < exEnv.shC0 := by simp only [exEnv]; norm_num
example (o : ℝ) : 0 ≤ exEnv.exp (-o) := (Real.exp_pos _).le
example : ∃ c : ℝ, 0 ≤ c * exEnv.shC0 + 1 / 2 ∧ c * exEnv.shC0 + 1 / 2 ≤ 1 ∧ c ≠ 0 :=
  ⟨1, by simp only [exEnv]; norm_num⟩
example : (-1 : ℝ) ≤ 1 ∧ (1 : ℝ) ≤ 1 := by norm_num

end C15
end PolyVerif
