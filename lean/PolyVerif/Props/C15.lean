/-
  C15 — Gaussian-splat codecs keep every splat's fields within one quantisation step.

  Part 1 (.splat, `Model/Splat.lean`): record layout round trip at the bit level,
  count/order, quantisation steps of colour, opacity, rotation (real-number
  meaning of the source's expressions; `trunc` is the integer part).
  Part 2 (SPZ, `Model/Spz.lean`): see below.

  Property theorems only; helper lemmas are named `*_aux` or are marked private.
-/
import PolyVerif.Model.Splat
import PolyVerif.Lemmas.Splat
import PolyVerif.Lemmas.Spz
import PolyVerif.Gen.SplatPlyTable
import PolyVerif.Gen.SpzValidate
import PolyVerif.Lemmas.RealScalar
import Mathlib.Analysis.SpecialFunctions.Log.Basic
import Mathlib.Tactic

namespace PolyVerif
namespace C15
open Splat Scalar

theorem splat_roundtrip_count_order {α : Type} [Scalar α] (E : Env α) (cloud : List (Splat α)) :
    Splat.read E (Splat.write E cloud) = (cloud.map (fun s => decSplat E (encSplat E s)), false) := by
  simp [Splat.read, Splat.write, readRecs_flatMap, List.map_map, Function.comp_def]

/-- trunc is the integer part -/
def FloorEnv (E : Env ℝ) : Prop := ∀ x : ℝ, 0 ≤ x → E.trunc x = ⌊x⌋₊

theorem byte_floor_err (t : ℝ) (h0 : 0 ≤ t) (h1 : t ≤ 255) :
    ((byteOf ⌊t⌋₊).toNat : ℝ) ≤ t ∧ t < ((byteOf ⌊t⌋₊).toNat : ℝ) + 1 := by
  have hn : ⌊t⌋₊ ≤ 255 := by
    have : ⌊t⌋₊ ≤ ⌊(255:ℝ)⌋₊ := Nat.floor_le_floor h1
    simpa using this
  have e : (byteOf ⌊t⌋₊).toNat = ⌊t⌋₊ := by
    simp only [byteOf, UInt8.toNat_ofNat']; omega
  rw [e]
  exact ⟨Nat.floor_le h0, Nat.lt_floor_add_one t⟩

theorem colStored_range (E : Env ℝ) (c : ℝ) : 0 ≤ colStored E c ∧ colStored E c ≤ 1 := by
  simp only [colStored, vclamp, Nat.cast_zero, Nat.cast_one]
  constructor
  · exact le_max_right _ _
  · exact max_le (min_le_right _ _) zero_le_one


theorem quant_err (s d n : ℝ) (hd : 0 < d) (ha : n ≤ s * d) (hb : s * d < n + 1) :
    |n / d - s| ≤ 1 / d := by
  rw [abs_le]
  constructor
  · rw [le_sub_iff_add_le, le_div_iff₀ hd]
    have : (-(1 / d) + s) * d = s * d - 1 := by field_simp; ring
    rw [this]; linarith
  · rw [sub_le_iff_le_add, div_le_iff₀ hd]
    have : (1 / d + s) * d = 1 + s * d := by field_simp
    rw [this]; linarith

theorem splat_color_step (E : Env ℝ) (hE : FloorEnv E) (c : ℝ) :
    |colUnit (colByte E c) - colStored E c| ≤ 1 / 255 := by
  obtain ⟨h0, h1⟩ := colStored_range E c
  have ht0 : 0 ≤ colStored E c * 255 := by positivity
  have ht1 : colStored E c * 255 ≤ 255 := by linarith
  obtain ⟨ha, hb⟩ := byte_floor_err _ ht0 ht1
  have key : colByte E c = byteOf ⌊colStored E c * 255⌋₊ := by
    simp only [colByte, Nat.cast_ofNat]; rw [hE _ ht0]
  rw [key]
  simp only [colUnit, byteF, Nat.cast_ofNat]
  exact quant_err _ 255 _ (by norm_num) ha hb

/-- in the SH-coefficient domain: an in-range colour comes back within `1/(255·SH_C0)` -/
theorem splat_color_step_fdc (E : Env ℝ) (hE : FloorEnv E) (hC : 0 < E.shC0) (c : ℝ)
    (h0 : 0 ≤ c * E.shC0 + 1 / 2) (h1 : c * E.shC0 + 1 / 2 ≤ 1) :
    |colDec E (colByte E c) - c| ≤ 1 / (255 * E.shC0) := by
  have hs : colStored E c = c * E.shC0 + 1 / 2 := by
    simp only [colStored, vclamp, half, RS.lit_eq, Nat.cast_zero, Nat.cast_one, Nat.cast_ofNat]
    rw [min_eq_left h1, max_eq_left h0]
  have h := splat_color_step E hE c
  rw [hs] at h
  have e : colDec E (colByte E c) - c = (colUnit (colByte E c) - (c * E.shC0 + 1 / 2)) / E.shC0 := by
    simp only [colDec, half, RS.lit_eq, Nat.cast_one, Nat.cast_ofNat]; field_simp; ring
  rw [e, abs_div, abs_of_pos hC, div_le_iff₀ hC]
  calc _ ≤ 1 / 255 := h
    _ = 1 / (255 * E.shC0) * E.shC0 := by field_simp

theorem alphaStored_range (E : Env ℝ) (o : ℝ) (he : 0 ≤ E.exp (-o)) :
    0 ≤ alphaStored E o ∧ alphaStored E o ≤ 1 := by
  simp only [alphaStored, Nat.cast_one]
  constructor
  · positivity
  · rw [div_le_one (by linarith)]; linarith

theorem splat_opacity_step (E : Env ℝ) (hE : FloorEnv E) (o : ℝ) (he : 0 ≤ E.exp (-o)) :
    |colUnit (alphaByte E o) - alphaStored E o| ≤ 1 / 255 := by
  obtain ⟨h0, h1⟩ := alphaStored_range E o he
  have ht0 : 0 ≤ alphaStored E o * 255 := by positivity
  have ht1 : alphaStored E o * 255 ≤ 255 := by linarith
  obtain ⟨ha, hb⟩ := byte_floor_err _ ht0 ht1
  have key : alphaByte E o = byteOf ⌊alphaStored E o * 255⌋₊ := by
    simp only [alphaByte, Nat.cast_ofNat]; rw [hE _ ht0]
  rw [key]
  simp only [colUnit, byteF, Nat.cast_ofNat]
  exact quant_err _ 255 _ (by norm_num) ha hb

theorem splat_rotation_step (E : Env ℝ) (hE : FloorEnv E) (r : ℝ) (hlo : -1 ≤ r) (hhi : r ≤ 1) :
    |rotDec (rotByte E r) - r| ≤ 1 / 128 := by
  have hs0 : (0:ℝ) ≤ rotStored r := by
    simp only [rotStored, vclamp, Nat.cast_zero]; exact le_max_right _ _
  have hs1 : rotStored r ≤ 255 := by
    simp only [rotStored, vclamp, Nat.cast_zero, Nat.cast_ofNat]
    exact max_le (min_le_right _ _) (by norm_num)
  obtain ⟨ha, hb⟩ := byte_floor_err _ hs0 hs1
  have key : rotByte E r = byteOf ⌊rotStored r⌋₊ := by
    simp only [rotByte]; rw [hE _ hs0]
  rw [key]
  simp only [rotDec, byteF, Nat.cast_ofNat]
  have hs : rotStored r = min (r * 128 + 128) 255 := by
    simp only [rotStored, vclamp, Nat.cast_zero, Nat.cast_ofNat]
    apply max_eq_left
    apply le_min <;> linarith
  generalize (byteOf ⌊rotStored r⌋₊).toNat = m at ha hb ⊢
  rw [hs] at ha hb
  rw [abs_le]
  rcases le_total (r * 128 + 128) 255 with h | h
  · rw [min_eq_left h] at ha hb
    constructor
    · rw [le_sub_iff_add_le, le_div_iff₀ (by norm_num)]; linarith
    · rw [sub_le_iff_le_add, div_le_iff₀ (by norm_num)]; linarith
  · rw [min_eq_right h] at ha hb
    have h1 : m ≤ 255 := by exact_mod_cast ha
    have h2 : 255 < m + 1 := by exact_mod_cast hb
    have hm : m = 255 := by omega
    subst hm
    constructor
    · rw [le_sub_iff_add_le, le_div_iff₀ (by norm_num)]; push_cast; linarith
    · rw [sub_le_iff_le_add, div_le_iff₀ (by norm_num)]; push_cast; linarith

/-- the pinned encoder (no clamp): a unit component decodes to −1 -/
theorem splat_rotation_wraps (E : Env ℝ) (hE : FloorEnv E) :
    rotDec (rotByteOld E (1:ℝ)) = (-1 : ℝ) ∧ rotDec (rotByte E (1:ℝ)) = (127 / 128 : ℝ) := by
  have h256 : E.trunc ((1:ℝ) * 128 + 128) = 256 := by
    rw [hE _ (by norm_num)]; norm_num
  have hst : rotStored (1:ℝ) = 255 := by
    simp only [rotStored, vclamp, Nat.cast_zero, Nat.cast_ofNat]; norm_num
  have h255 : E.trunc (rotStored (1:ℝ)) = 255 := by
    rw [hst, hE _ (by norm_num)]; norm_num
  constructor
  · simp only [rotDec, rotByteOld, byteF, Nat.cast_ofNat, h256, byteOf]; norm_num
  · simp only [rotDec, rotByte, byteF, Nat.cast_ofNat, h255, byteOf]; norm_num

/-! ### positions and scales -/

/-- every 32-byte record survives `encRec`/`decRec` bit for bit: in particular the six float32
    words are returned with exactly the bits that were written -/
theorem splat_record_bits_exact (r : Rec) : decRec (encRec r) = some r := decRec_encRec r

/-- (unfolding) positions come back as the float32 value that was stored, exactly: no arithmetic touches
    them.  Holds by `rfl`: it records what `decSplat ∘ encSplat` IS on the position fields; the content is
    `splat_record_bits_exact` + `splat_roundtrip_count_order`. -/
theorem splat_position_exact {α : Type} [Scalar α] (E : Env α) (s : Splat α) :
    (decSplat E (encSplat E s)).px = E.of32 (E.to32 s.px) ∧
    (decSplat E (encSplat E s)).py = E.of32 (E.to32 s.py) ∧
    (decSplat E (encSplat E s)).pz = E.of32 (E.to32 s.pz) := ⟨rfl, rfl, rfl⟩

/-- (remark, not a property theorem: the conclusion is the hypothesis) a float32-representable coordinate is
    returned unchanged -/
theorem splat_position_exact_f32 {α : Type} [Scalar α] (E : Env α) (s : Splat α)
    (hx : E.of32 (E.to32 s.px) = s.px) : (decSplat E (encSplat E s)).px = s.px := hx

/-- (unfolding, `rfl`) scales: `log (float32 (exp s))` — equal to `s` up to the float32 rounding of `exp` and the
    rounding of `exp`/`log` themselves (those roundings are not modelled: residue) -/
theorem splat_scale_log_f32_exp {α : Type} [Scalar α] (E : Env α) (s : Splat α) :
    (decSplat E (encSplat E s)).sx = E.log (E.of32 (E.to32 (E.exp s.sx))) ∧
    (decSplat E (encSplat E s)).sy = E.log (E.of32 (E.to32 (E.exp s.sy))) ∧
    (decSplat E (encSplat E s)).sz = E.log (E.of32 (E.to32 (E.exp s.sz))) := ⟨rfl, rfl, rfl⟩

/-- (corollary of `Real.log_exp` under `h32`) with exact `exp`/`log` and a float32-representable `exp s`, the
    scale is returned unchanged -/
theorem splat_scale_exact (E : Env ℝ) (hexp : E.exp = Real.exp) (hlog : E.log = Real.log) (s : Splat ℝ)
    (h32 : E.of32 (E.to32 (E.exp s.sx)) = E.exp s.sx) : (decSplat E (encSplat E s)).sx = s.sx := by
  rw [(splat_scale_log_f32_exp E s).1, h32, hexp, hlog, Real.log_exp]

/-! ### non-vacuity -/

/-- a concrete real environment: integer part, real exp/log, (toy) float32 = identity on 0 -/
noncomputable def exEnv : Env ℝ :=
  { trunc := fun x => ⌊x⌋₊, exp := Real.exp, log := Real.log, to32 := fun _ => 0, of32 := fun _ => 0,
    shC0 := 28209479177387814 / 100000000000000000 }

example : FloorEnv exEnv := fun _ _ => rfl

/-- an environment whose toy float32 fixes 0 and 1: the hypotheses of `splat_position_exact_f32` /
    `splat_scale_exact` hold in it non-trivially (px = 1; sx = 0, exp 0 = 1) -/
noncomputable def exEnv32 : Env ℝ :=
  { exEnv with to32 := fun x => if x = 1 then 1 else 0, of32 := fun w => if w = 1 then 1 else 0 }

example : exEnv32.of32 (exEnv32.to32 (1 : ℝ)) = 1 := by simp [exEnv32]
example : exEnv32.exp = Real.exp ∧ exEnv32.log = Real.log ∧
    exEnv32.of32 (exEnv32.to32 (exEnv32.exp (0 : ℝ))) = exEnv32.exp 0 := by
  refine ⟨rfl, rfl, ?_⟩
  simp [exEnv32, exEnv]
example : 0 < exEnv.shC0 := by simp only [exEnv]; norm_num
example (o : ℝ) : 0 ≤ exEnv.exp (-o) := (Real.exp_pos _).le
example : ∃ c : ℝ, 0 ≤ c * exEnv.shC0 + 1 / 2 ∧ c * exEnv.shC0 + 1 / 2 ≤ 1 ∧ c ≠ 0 :=
  ⟨1, by simp only [exEnv]; norm_num⟩
example : (-1 : ℝ) ≤ 1 ∧ (1 : ℝ) ≤ 1 := by norm_num

/-! ### the composed `.splat` statement -/

theorem write_length {α : Type} [Scalar α] (E : Env α) (cloud : List (Splat α)) :
    (Splat.write E cloud).length = 32 * cloud.length := by
  simp only [Splat.write]
  induction cloud with
  | nil => simp
  | cons s cloud ih =>
    simp only [List.map_cons, List.flatMap_cons, List.length_append, encRec_length, List.length_cons, ih]; omega

/-- colour channel: stored value within one 8-bit step of the clamped original; in range, the coefficient itself
    within `1/(255·SH_C0)` -/
def ColOk (E : Env ℝ) (c c' : ℝ) : Prop :=
  |(c' * E.shC0 + 1 / 2) - colStored E c| ≤ 1 / 255 ∧
  (0 ≤ c * E.shC0 + 1 / 2 → c * E.shC0 + 1 / 2 ≤ 1 → |c' - c| ≤ 1 / (255 * E.shC0))

/-- rotation component after the 6751c33 clamp: within 1/128 on [−1, 1] (1 included), saturating outside -/
def RotOk (r r' : ℝ) : Prop :=
  (-1 ≤ r → r ≤ 1 → |r' - r| ≤ 1 / 128) ∧ (1 < r → r' = 127 / 128) ∧ (r < -1 → r' = -1)

/-- what `.splat` write → read does to one splat -/
structure SplatWithinStep (E : Env ℝ) (s t : Splat ℝ) : Prop where
  px : t.px = E.of32 (E.to32 s.px)
  py : t.py = E.of32 (E.to32 s.py)
  pz : t.pz = E.of32 (E.to32 s.pz)
  sx : t.sx = E.log (E.of32 (E.to32 (E.exp s.sx)))
  sy : t.sy = E.log (E.of32 (E.to32 (E.exp s.sy)))
  sz : t.sz = E.log (E.of32 (E.to32 (E.exp s.sz)))
  cx : ColOk E s.cx t.cx
  cy : ColOk E s.cy t.cy
  cz : ColOk E s.cz t.cz
  /-- opacity: decoded from a byte whose stored value is within one 8-bit step of `sigmoid(opacity)` -/
  op : ∃ b : UInt8, t.op = alphaDec E b ∧ |colUnit b - alphaStored E s.op| ≤ 1 / 255
  r0 : RotOk s.r0 t.r0
  r1 : RotOk s.r1 t.r1
  r2 : RotOk s.r2 t.r2
  r3 : RotOk s.r3 t.r3

theorem colOk_aux (E : Env ℝ) (hE : FloorEnv E) (hC : 0 < E.shC0) (c : ℝ) : ColOk E c (colDec E (colByte E c)) := by
  have e : colDec E (colByte E c) * E.shC0 + 1 / 2 = colUnit (colByte E c) := by
    simp only [colDec, half, RS.lit_eq, Nat.cast_one, Nat.cast_ofNat]; field_simp; ring
  exact ⟨by rw [e]; exact splat_color_step E hE c, fun h0 h1 => splat_color_step_fdc E hE hC c h0 h1⟩

theorem rotOk_aux (E : Env ℝ) (hE : FloorEnv E) (r : ℝ) : RotOk r (rotDec (rotByte E r)) := by
  refine ⟨fun h0 h1 => splat_rotation_step E hE r h0 h1, ?_, ?_⟩
  · intro hr
    have hst : rotStored r = 255 := by
      simp only [rotStored, vclamp, Nat.cast_zero, Nat.cast_ofNat]
      rw [min_eq_right (by linarith), max_eq_left (by norm_num)]
    have h255 : E.trunc (rotStored r) = 255 := by rw [hst, hE _ (by norm_num)]; norm_num
    simp only [rotDec, rotByte, byteF, Nat.cast_ofNat, h255, byteOf]; norm_num
  · intro hr
    have hst : rotStored r = 0 := by
      simp only [rotStored, vclamp, Nat.cast_zero, Nat.cast_ofNat]
      rw [min_eq_left (by linarith), max_eq_right (by linarith)]
    have h0 : E.trunc (rotStored r) = 0 := by rw [hst, hE _ (le_refl _)]; norm_num
    simp only [rotDec, rotByte, byteF, Nat.cast_ofNat, h0, byteOf]; norm_num

/-- **`.splat`, composed**: for EVERY cloud (any number of splats, any real attribute values), writing produces
    exactly `32·n` bytes and reading them back returns, without error, `n` splats in the same order, splat `i`
    related to the original splat `i` by `SplatWithinStep`: float32 positions exactly, scale = log(float32(exp s)),
    colours / opacity within one 8-bit step in the stored domain (colours clamped to the displayable range),
    rotation within 1/128 on [−1, 1] including 1 and saturating outside (the 6751c33 clamp). -/
theorem splat_write_read (E : Env ℝ) (hE : FloorEnv E) (hexp : ∀ x, 0 ≤ E.exp x) (hC : 0 < E.shC0)
    (cloud : List (Splat ℝ)) :
    (Splat.write E cloud).length = 32 * cloud.length ∧
    ∃ cloud' : List (Splat ℝ),
      Splat.read E (Splat.write E cloud) = (cloud', false) ∧ cloud'.length = cloud.length ∧
      ∀ i (hi : i < cloud.length) (hi' : i < cloud'.length), SplatWithinStep E cloud[i] cloud'[i] := by
  refine ⟨write_length E cloud, cloud.map (fun s => decSplat E (encSplat E s)), splat_roundtrip_count_order E cloud,
    by simp, ?_⟩
  intro i hi hi'
  simp only [List.getElem_map]
  generalize cloud[i] = s
  exact
    { px := rfl, py := rfl, pz := rfl, sx := rfl, sy := rfl, sz := rfl,
      cx := colOk_aux E hE hC s.cx, cy := colOk_aux E hE hC s.cy, cz := colOk_aux E hE hC s.cz,
      op := ⟨alphaByte E s.op, rfl, splat_opacity_step E hE s.op (hexp _)⟩,
      r0 := rotOk_aux E hE s.r0, r1 := rotOk_aux E hE s.r1, r2 := rotOk_aux E hE s.r2, r3 := rotOk_aux E hE s.r3 }

example : FloorEnv exEnv ∧ (∀ x, 0 ≤ exEnv.exp x) ∧ 0 < exEnv.shC0 :=
  ⟨fun _ _ => rfl, fun x => (Real.exp_pos x).le, by simp only [exEnv]; norm_num⟩

/-! ### opacity through the logit -/

/-- `logit x = log (x / (1 - x))` -/
noncomputable def logit (x : ℝ) : ℝ := Real.log (x / (1 - x))

theorem logit_mono {x y : ℝ} (hx : 0 < x) (hxy : x ≤ y) (hy : y < 1) : logit x ≤ logit y := by
  unfold logit
  apply Real.log_le_log (by apply div_pos hx; linarith)
  rw [div_le_div_iff₀ (by linarith) (by linarith)]
  nlinarith

theorem logit_strict_mono {x y : ℝ} (hx : 0 < x) (hxy : x < y) (hy : y < 1) : logit x < logit y := by
  unfold logit
  apply Real.log_lt_log (by apply div_pos hx; linarith)
  rw [div_lt_div_iff₀ (by linarith) (by linarith)]
  nlinarith

/-- **opacity in the LOGIT domain** (the domain the attribute lives in), where it is finite: if the stored byte
    `b` is neither 0 nor ≥ 254, the value read back is `logit(b/255)` and the original opacity lies in the half-open
    interval from it to the value the NEXT byte would decode to: `logit(b/255) ≤ o < logit((b+1)/255)` — one 8-bit
    step.  (For b = 0 the reader returns −∞, for b = 255 +∞, and above b = 254 there is no next finite value: there
    the step is unbounded in this domain, which is why the property's "within one 8-bit step" is the stored-domain
    statement `splat_opacity_step`.) -/
theorem splat_opacity_step_logit (E : Env ℝ) (hE : FloorEnv E) (hexp : E.exp = Real.exp) (hlog : E.log = Real.log)
    (o : ℝ) (hb1 : 1 ≤ (alphaByte E o).toNat) (hb2 : (alphaByte E o).toNat ≤ 253) :
    alphaDec E (alphaByte E o) = logit (((alphaByte E o).toNat : ℝ) / 255) ∧
    logit (((alphaByte E o).toNat : ℝ) / 255) ≤ o ∧
    o < logit ((((alphaByte E o).toNat : ℝ) + 1) / 255) := by
  have hpos : 0 < Real.exp (-o) := Real.exp_pos _
  obtain ⟨h0, h1⟩ := alphaStored_range E o (by rw [hexp]; exact hpos.le)
  have ht0 : 0 ≤ alphaStored E o * 255 := by positivity
  have ht1 : alphaStored E o * 255 ≤ 255 := by linarith
  obtain ⟨ha, hb⟩ := byte_floor_err _ ht0 ht1
  have key : alphaByte E o = byteOf ⌊alphaStored E o * 255⌋₊ := by
    simp only [alphaByte, Nat.cast_ofNat]; rw [hE _ ht0]
  rw [← key] at ha hb
  set b : ℝ := ((alphaByte E o).toNat : ℝ) with hbdef
  have hb1' : (1 : ℝ) ≤ b := by rw [hbdef]; exact_mod_cast hb1
  have hb2' : b ≤ 253 := by rw [hbdef]; exact_mod_cast hb2
  -- a = sigmoid o, o = logit a
  have hadef : alphaStored E o = 1 / (1 + Real.exp (-o)) := by
    simp only [alphaStored, Nat.cast_one, hexp]
  have ha1 : alphaStored E o < 1 := by
    rw [hadef, div_lt_one (by linarith)]; linarith
  have ha0 : 0 < alphaStored E o := by rw [hadef]; positivity
  have hlogit : logit (alphaStored E o) = o := by
    unfold logit
    have : alphaStored E o / (1 - alphaStored E o) = Real.exp o := by
      rw [hadef, Real.exp_neg]
      have := Real.exp_pos o
      field_simp
      ring
    rw [this, Real.log_exp]
  refine ⟨?_, ?_, ?_⟩
  · simp only [alphaDec, colUnit, byteF, Nat.cast_ofNat, Nat.cast_one, hlog, logit]
    rw [← Real.log_inv]
    congr 1
    rw [← hbdef]
    have : b ≠ 0 := by linarith
    field_simp
  · rw [← hlogit]
    apply logit_mono (by positivity) _ ha1
    rw [div_le_iff₀ (by norm_num)]; exact ha
  · rw [← hlogit]
    apply logit_strict_mono ha0
    · rw [lt_div_iff₀ (by norm_num)]; exact hb
    · rw [div_lt_one (by norm_num)]; linarith


/-- non-vacuity: opacity 0 is stored as byte 127 -/
example : (alphaByte exEnv (0 : ℝ)).toNat = 127 := by
  have h : alphaStored exEnv (0 : ℝ) * 255 = 127.5 := by
    simp only [alphaStored, exEnv, Nat.cast_one, neg_zero, Real.exp_zero]; norm_num
  have hf : ⌊(127.5 : ℝ)⌋₊ = 127 := by
    rw [Nat.floor_eq_iff (by norm_num)]; norm_num
  have hk : alphaByte exEnv (0 : ℝ) = byteOf ⌊alphaStored exEnv (0 : ℝ) * 255⌋₊ := by
    simp only [alphaByte, Nat.cast_ofNat]; rfl
  rw [hk, h, hf]; decide

/-! ## Part 2 — SPZ -/

section spz
open Spz

/-- header.go:254-262: the assembled and sign-extended word, read as `int32`, is the two's-complement
    value of the three bytes (little endian) — for all 2^24 byte triples -/
theorem sign_extend_24 (b0 b1 b2 : BitVec 8) :
    (fixed24Word b0 b1 b2).toInt =
      let v : Int := b0.toNat + 256 * b1.toNat + 65536 * b2.toNat
      if v < 2 ^ 23 then v else v - 2 ^ 24 :=
  Spz.sign_extend_24 b0 b1 b2

/-- version-2 positions over the reals: for every fractional-bit count up to 62 (where Go's
    `1 << fractionalBits` is the positive power of two) the coordinate is `value / 2^fb` -/
theorem spz_fixed_point_value (E : Spz.Env ℝ) (hE : ∀ z : Int, E.ofInt z = (z : ℝ)) (fb : Nat) (hfb : fb ≤ 62)
    (b0 b1 b2 : UInt8) :
    fixedCoord E fb b0 b1 b2 =
      (let v : Int := b0.toNat + 256 * b1.toNat + 65536 * b2.toNat
       ((if v < 2 ^ 23 then v else v - 2 ^ 24 : Int) : ℝ)) / 2 ^ fb := by
  have hs := Spz.sign_extend_24 b0.toBitVec b1.toBitVec b2.toBitVec
  simp only [fixedCoord, fixed24, posScale, hE, shl1, natF, if_pos (show fb < 63 by omega)]
  simp only [UInt8.toNat_toBitVec] at hs
  rw [hs]
  push_cast
  rw [mul_one_div]

/-- SPZ decode of a stream built to the published layout: for every header in range that `Validate`
    accepts (version 1–2, any point count up to the limit, SH degree 0–3, ANY fractional-bit count and
    flags) and every byte pattern in the records, attribute `X` of splat `i` of the result is the
    dequantisation of record `i`; every attribute array has one entry per record and there is one SH
    array per coefficient.  Trailing bytes after the last array are ignored. -/
theorem spz_decode_refEncode {α : Type} [Scalar α] (E : Spz.Env α) (h : Header) (hr : h.inRange)
    (hv : h.valid = true) (ps : List Packed) (hn : ps.length = h.numPoints) (hf : ∀ p ∈ ps, p.fits h)
    (extra : List UInt8) :
    ∃ c, Spz.read E (refEncode h ps ++ extra) = .ok c ∧
      c.positions = ps.map (fun p => (dequant E h p).pos) ∧
      c.alphas = ps.map (fun p => (dequant E h p).alpha) ∧
      c.colors = ps.map (fun p => (dequant E h p).color) ∧
      c.scales = ps.map (fun p => (dequant E h p).scale) ∧
      c.rotations = ps.map (fun p => (dequant E h p).rot) ∧
      c.sh = (List.range (shDim h.shDegree)).map (fun d => ps.map fun p => shCoef p d) ∧
      (∀ p ∈ ps, (dequant E h p).sh = (List.range (shDim h.shDegree)).map (shCoef p)) := by
  refine ⟨decode E ⟨h, ps.flatMap (·.pos), ps.map (·.alpha), ps.flatMap (·.color), ps.flatMap (·.scale),
    ps.flatMap (·.rot), ps.flatMap (·.sh)⟩, ?_, ?_, ?_, ?_, ?_, ?_, ?_, fun _ _ => rfl⟩
  · simp only [Spz.read, readRaw_refEncode h hr hv ps hn hf extra, Except.map]
  · exact decodePositions_eq E h ps hn (fun p hp => (hf p hp).1)
  · simp only [decode, ← hn]; exact decodeAlphas_eq ps
  · simp only [decode, ← hn]; exact decodeColors_eq ps (fun p hp => (hf p hp).2.1)
  · simp only [decode, ← hn]; exact decodeScales_eq ps (fun p hp => (hf p hp).2.2.1)
  · simp only [decode, ← hn]; exact decodeRotations_eq ps (fun p hp => (hf p hp).2.2.2.1)
  · simp only [decode, ← hn]; exact decodeSh_eq ps _ (fun p hp => (hf p hp).2.2.2.2)

/-- payload length formula: `16 + n·(9|6 + 1 + 3 + 3 + 3 + 3·dim)`, and the decoder accepts exactly
    streams at least that long -/
theorem spz_lengths (h : Header) (ps : List Packed) (hn : ps.length = h.numPoints) (hf : ∀ p ∈ ps, p.fits h) :
    (refEncode h ps).length = payloadLength h ∧
    payloadLength h = 16 + h.numPoints * (posBytes h + 1 + 3 + 3 + 3 + 3 * shDim h.shDegree) := by
  constructor
  · simp only [refEncode, List.length_append, encHeader_length, List.length_flatten, List.map_cons, List.map_nil,
      List.length_map, List.sum_cons, List.sum_nil, payloadLength, arraySizes,
      flatMap_length_const ps (·.pos) (posBytes h) (fun p hp => (hf p hp).1),
      flatMap_length_const ps (·.color) 3 (fun p hp => (hf p hp).2.1),
      flatMap_length_const ps (·.scale) 3 (fun p hp => (hf p hp).2.2.1),
      flatMap_length_const ps (·.rot) 3 (fun p hp => (hf p hp).2.2.2.1),
      flatMap_length_const ps (·.sh) (3 * shDim h.shDegree) (fun p hp => (hf p hp).2.2.2.2), hn, Nat.mul_assoc]
  · simp only [payloadLength, arraySizes, List.sum_cons, List.sum_nil]; ring

/-- a version-2, degree-1 header with 12 fractional bits and one record of arbitrary bytes -/
def exHeader : Header := ⟨magicNum, 2, 1, 1, 12, 0, 0⟩
def exPacked : Packed := ⟨[1, 2, 3, 4, 5, 6, 7, 8, 0x80], 9, [10, 11, 12], [13, 14, 15], [16, 17, 18],
  [19, 20, 21, 22, 23, 24, 25, 26, 27]⟩

example : exHeader.inRange ∧ exHeader.valid = true ∧ [exPacked].length = exHeader.numPoints ∧
    ∀ p ∈ [exPacked], p.fits exHeader := by
  refine ⟨by simp [Header.inRange, exHeader, magicNum], by decide, rfl, ?_⟩
  intro p hp; simp only [List.mem_singleton] at hp; subst hp
  simp [Packed.fits, exHeader, exPacked, posBytes, shDim]

end spz

section spzspec
open Spz

/-! ## Part 2b — the published SPZ decoder as an independent specification (over ℝ)

  Written from the reference decoder of github.com/nianticlabs/spz (`unpackGaussian` in load-spz.cc, quoted in the
  comments of formats/spz/header.go), NOT from the model: plain real-number formulas on the byte values. -/

namespace Published

/-- two's-complement value of a 24-bit little-endian triple -/
def fixed24 (b0 b1 b2 : UInt8) : Int :=
  let v : Int := b0.toNat + 256 * b1.toNat + 65536 * b2.toNat
  if v < 2 ^ 23 then v else v - 2 ^ 24

/-- `position[i] = fixed32 * (1 / (1 << fractionalBits))` -/
noncomputable def position (fb : Nat) (b0 b1 b2 : UInt8) : ℝ := (fixed24 b0 b1 b2 : ℝ) / 2 ^ fb
/-- `scale[i] = scale[i] / 16.0f - 10.0f` -/
noncomputable def scale (b : UInt8) : ℝ := (b.toNat : ℝ) / 16 - 10
/-- `color[i] = (color[i] / 255.0f - 0.5f) / colorScale`, `colorScale = 0.15` -/
noncomputable def color (b : UInt8) : ℝ := ((b.toNat : ℝ) / 255 - 0.5) / 0.15
/-- `xyz = r * (1.0f / 127.5f) + (-1, -1, -1)` -/
noncomputable def rotation (b : UInt8) : ℝ := (b.toNat : ℝ) * (1 / 127.5) - 1
/-- `w = sqrt(max(0, 1 - squaredNorm(xyz)))` -/
noncomputable def rotationW (x y z : ℝ) : ℝ := Real.sqrt (max 0 (1 - (x ^ 2 + y ^ 2 + z ^ 2)))
/-- `unquantizeSH(x) = (x - 128) / 128` -/
noncomputable def sh (b : UInt8) : ℝ := ((b.toNat : ℝ) - 128) / 128
/-- `alpha = invSigmoid(alpha / 255.0f)`, `invSigmoid(x) = log(x / (1 - x))` -/
noncomputable def alpha (b : UInt8) : ℝ := Real.log (((b.toNat : ℝ) / 255) / (1 - (b.toNat : ℝ) / 255))
/-- `sigmoid(x) = 1 / (1 + exp(-x))` -/
noncomputable def sigmoid (x : ℝ) : ℝ := 1 / (1 + Real.exp (-x))

end Published

/-- the decoder's arithmetic at ℝ: `ofInt` is the cast (`float64(int32)`) -/
def RealEnv (E : Spz.Env ℝ) : Prop := ∀ z : Int, E.ofInt z = (z : ℝ)

theorem spz_position_is_published (E : Spz.Env ℝ) (hE : RealEnv E) (fb : Nat) (hfb : fb ≤ 62) (b0 b1 b2 : UInt8) :
    fixedCoord E fb b0 b1 b2 = Published.position fb b0 b1 b2 := by
  rw [spz_fixed_point_value E hE fb hfb]; rfl

theorem spz_scale_is_published (b : UInt8) : (scaleDec b : ℝ) = Published.scale b := by
  simp [scaleDec, Published.scale, Spz.byteF, natF]

theorem spz_color_is_published (b : UInt8) : (colorDec b : ℝ) = Published.color b := by
  simp only [colorDec, Published.color, Spz.byteF, natF, RS.lit_eq]
  norm_num

theorem spz_rotation_is_published (b : UInt8) : (Spz.rotDec b : ℝ) = Published.rotation b := by
  simp only [Spz.rotDec, Published.rotation, Spz.byteF, natF, RS.lit_eq]
  norm_num

theorem spz_rotationW_is_published (x y z : ℝ) : rotW x y z = Published.rotationW x y z := by
  simp only [rotW, Published.rotationW, natF, RS.sqrt_eq]
  norm_num [_root_.sq]

theorem spz_sh_is_published (b : UInt8) : (shDec b : ℝ) = Published.sh b := by
  simp [shDec, Published.sh, Spz.byteF, natF]

theorem toNat51_aux : ((51 : UInt8).toNat : ℝ) = 51 := by
  have h : (51 : UInt8).toNat = 51 := by decide
  rw [h]; norm_num

/-- DELIBERATE deviation of the repository (header.go:183-203, the `invSigmoid` line is commented out):
    `spz.Read` stores `alpha/255`, the SIGMOID-domain value, not the published logit.  For every byte that
    has a logit (0 < b < 255) the stored value is exactly the sigmoid of the published one — and it is not
    the published value itself (witness b = 51: 0.2 vs log(1/4) < 0). -/
theorem spz_alpha_is_sigmoid_domain :
    (∀ b : UInt8, (Spz.alphaDec b : ℝ) = (b.toNat : ℝ) / 255) ∧
    (∀ b : UInt8, 0 < b.toNat → b.toNat < 255 → Published.sigmoid (Published.alpha b) = Spz.alphaDec b) ∧
    (Spz.alphaDec (51 : UInt8) : ℝ) ≠ Published.alpha 51 := by
  refine ⟨fun b => by simp [Spz.alphaDec, Spz.byteF, natF], ?_, ?_⟩
  · intro b h0 h255
    have hx0 : (0 : ℝ) < (b.toNat : ℝ) / 255 := by positivity
    have hx1 : (b.toNat : ℝ) / 255 < 1 := by
      rw [div_lt_one (by norm_num)]; exact_mod_cast h255
    simp only [Published.sigmoid, Published.alpha, Spz.alphaDec, Spz.byteF, natF]
    generalize (b.toNat : ℝ) / 255 = x at hx0 hx1
    have h1 : 0 < 1 - x := by linarith
    rw [← Real.log_inv, Real.exp_log (by positivity)]
    field_simp
    ring
  · have hlog : Published.alpha 51 < 0 := by
      simp only [Published.alpha]
      have e := toNat51_aux
      rw [e]
      apply Real.log_neg <;> norm_num
    have hpos : (0 : ℝ) < Spz.alphaDec (51 : UInt8) := by
      have e := toNat51_aux
      simp only [Spz.alphaDec, Spz.byteF, natF, e]; norm_num
    linarith

/-- the dequantisation of one record, field by field, is the published decoder's (version 2, fractional
    bits ≤ 62) — except alpha (`spz_alpha_is_sigmoid_domain`).  Together with `spz_decode_refEncode`
    (layout): splat `i` of `spz.Read`'s result carries the published values of record `i`. -/
theorem spz_dequant_is_published (E : Spz.Env ℝ) (hE : RealEnv E) (h : Header) (hv : h.version ≠ 1)
    (hfb : h.fractionalBits ≤ 62) (p : Packed) :
    (dequant E h p).pos = ⟨Published.position h.fractionalBits (byteAt p.pos 0) (byteAt p.pos 1) (byteAt p.pos 2),
      Published.position h.fractionalBits (byteAt p.pos 3) (byteAt p.pos 4) (byteAt p.pos 5),
      Published.position h.fractionalBits (byteAt p.pos 6) (byteAt p.pos 7) (byteAt p.pos 8)⟩ ∧
    (dequant E h p).scale = ⟨Published.scale (byteAt p.scale 0), Published.scale (byteAt p.scale 1),
      Published.scale (byteAt p.scale 2)⟩ ∧
    (dequant E h p).color = ⟨Published.color (byteAt p.color 0), Published.color (byteAt p.color 1),
      Published.color (byteAt p.color 2)⟩ ∧
    (dequant E h p).rot = ⟨Published.rotation (byteAt p.rot 0), Published.rotation (byteAt p.rot 1),
      Published.rotation (byteAt p.rot 2),
      Published.rotationW (Published.rotation (byteAt p.rot 0)) (Published.rotation (byteAt p.rot 1))
        (Published.rotation (byteAt p.rot 2))⟩ ∧
    (∀ d, (shCoef p d : V3 ℝ) = ⟨Published.sh (byteAt p.sh (d * 3 + 0)), Published.sh (byteAt p.sh (d * 3 + 1)),
      Published.sh (byteAt p.sh (d * 3 + 2))⟩) ∧
    (dequant E h p).alpha = (p.alpha.toNat : ℝ) / 255 := by
  refine ⟨?_, ?_, ?_, ?_, ?_, ?_⟩
  · simp only [dequant, if_neg hv, spz_position_is_published E hE _ hfb]
  · simp only [dequant, spz_scale_is_published]
  · simp only [dequant, spz_color_is_published]
  · simp only [dequant, spz_rotation_is_published, spz_rotationW_is_published]
  · intro d; simp only [shCoef, spz_sh_is_published]
  · simp only [dequant]; exact spz_alpha_is_sigmoid_domain.1 p.alpha

example : RealEnv ⟨fun z => (z : ℝ), fun k => (2 : ℝ) ^ k, 0, 0⟩ := fun _ => rfl

end spzspec

/-! ## Part 2c — `Header.Validate` against the source (guards regenerated on every run) -/

section spzvalidate
open Spz

/-- value of a header field by its Go name -/
def fieldOf (h : Header) : String → Nat
  | "Magic" => h.magic
  | "Version" => h.version
  | "NumPoints" => h.numPoints
  | "ShDegree" => h.shDegree
  | "FractionalBits" => h.fractionalBits
  | "Flags" => h.flags
  | _ => h.reserved

/-- one extracted guard `field op value` -/
def guardHolds (h : Header) (g : String × String × Nat) : Bool :=
  let x := fieldOf h g.1
  match g.2.1 with
  | "<" => x < g.2.2
  | ">" => x > g.2.2
  | "<=" => x ≤ g.2.2
  | ">=" => x ≥ g.2.2
  | "!=" => x != g.2.2
  | _ => x == g.2.2

/-- `Header.Validate` as the source has it NOW (guards regenerated from formats/spz/header.go on every run): the
    model's `Header.valid` accepts exactly the headers no extracted guard rejects — in particular the point limit is
    the source's constant with the source's comparison (`NumPoints > 10000000`: exactly 10 000 000 points are allowed) -/
theorem spz_validate_matches_source (h : Header) :
    h.valid = !(Gen.SpzValidate.guards.any (guardHolds h)) := by
  simp only [Gen.SpzValidate.guards, List.any_cons, List.any_nil, guardHolds, fieldOf, Header.valid, Bool.or_false]
  rw [Bool.eq_iff_iff]
  simp only [Bool.and_eq_true, Bool.not_eq_true', Bool.or_eq_false_iff, decide_eq_true_eq, decide_eq_false_iff_not,
    beq_iff_eq, bne_eq_false_iff_eq]
  have hm : maxPoints = 10000000 := rfl
  have hg : magicNum = 1347635022 := rfl
  rw [hm, hg]
  omega

/-- the boundary: 10 000 000 points pass the limit, 10 000 001 do not -/
example : (⟨magicNum, 2, 10000000, 0, 0, 0, 0⟩ : Header).valid = true ∧
    (⟨magicNum, 2, 10000001, 0, 0, 0, 0⟩ : Header).valid = false := by decide

end spzvalidate

/-! ## Part 3 — PLY splat export (tables regenerated from formats/ply/types.go and reader.go on every run) -/

section splatply
open Gen.SplatPlyTable

/-- every one of the five splat attributes is written by `SplatPly.Write` as a float32 property group whose
    names are exactly a group under which `ply.ReadMesh`'s default reader loads that same attribute, and no two
    written properties share a name -/
theorem splatply_table_matches :
    (∀ a ∈ splatAttributes, ∃ w ∈ writer, w.1 = a ∧ w.2.1 = "float" ∧ (a, w.2.2) ∈ reader) ∧
    (writer.flatMap (·.2.2)).Nodup := by
  decide

/-- the higher-order harmonics: the export loop offers all 45 = 3·15 coefficients of SH degree 3 (hence every
    `f_rest_k` a cloud of degree 1, 2 or 3 carries: k < 9, 24, 45), each as a float32 property named exactly
    like its attribute, and the default reader loads a property no reader claims under its own name -/
theorem splatply_rest_table :
    restCount = 45 ∧ restAttrFormat = "f_rest_%d" ∧ restPropFormat = restAttrFormat ∧ restType = "float" ∧
    readerLoadsUnspecified = true ∧
    (∀ a ∈ reader, ∀ nm ∈ a.2, nm.toList.take 7 ≠ "f_rest_".toList) := by
  decide

end splatply

end C15
end PolyVerif
