/-
  C04 — the composed round trip for the ASCII encoding, from FILE BYTES, and the clause "ASCII, little-endian and
  big-endian encodings of one mesh decode to the same result" on the guarded class.

  ONE trusted law enters: `PlyAscii.GoFloatText c` (what Go's strconv does to the number texts the writer prints; see its
  docstring in Lemmas/PlyAscii.lean).  Lines (`bufio.ScanLines`), tokens (`strings.Fields`), integers (`ParseInt ∘
  AppendInt`), header text, positions, face lines and mesh assembly are proved.

  The two known findings are mirrored by explicit guards, i.e. the theorems say what the code DOES:
  * the ASCII scalar reader never learns the property type, so an 8-bit SCALAR property is not normalised: `ClaimOKA`
    (field `located`, `LocatedA.inr`) requires "a reader normalises exactly when its properties are uchar", which FAILS
    for a `uchar` float1 writer — such configurations are outside the theorem (and `claimCheckA` returns `none` for them);
  * every ASCII vertex scalar is parsed with bit size 32 whatever its declared type: `RoundTrips` is stated with
    `quant c .ascii`, i.e. with exactly that 32-bit parse of the printed text (`quantA`: float AND double →
    `GoFloatText.imgF`, integers → `GoFloatText.imgI`); the agreement corollary therefore has the explicit guards
    `AgreeGuards`: float where `imgF` is the float32 image, double / int only where representable.
-/
import PolyVerif.Model.Ply
import PolyVerif.Lemmas.Ply
import PolyVerif.Lemmas.PlyHeader
import PolyVerif.Lemmas.PlyCompose
import PolyVerif.Lemmas.PlyNames
import PolyVerif.Lemmas.PlyUV
import PolyVerif.Lemmas.PlyAscii
import PolyVerif.Props.C04Compose
import PolyVerif.Props.C04Header

namespace PolyVerif
namespace C04
open Ply PlyLemmas PlyHeader PlyCompose PlyAscii

variable {α : Type}

/-- THE COMPOSED ROUND TRIP, ASCII, at the parsed-header interface: every writer configuration, every well-formed point
cloud or triangle mesh (with or without per-corner texture coordinates).  Guards: ASCII; `m.WF`; `writeBody` ok; at
least one property is printed for a non-empty mesh (`htys`: otherwise the writer prints no vertex line at all and the
reader rejects the file); point clouds with the identity index buffer (known finding); < 2³¹ vertices; the law of the float
text `L`; `InRangeMesh`: every value prints to a text `ParseFloat(·, 32)` accepts (for Go: not a finite value of
magnitude ≥ 2¹²⁸ − 2¹⁰³ — such a value is printed in full and the reader then fails with "value out of range":
observation "ascii out of float32 range", op `c04.holds.ascii_out_of_range_witness`); the ASCII claim stage as witnesses `ClaimOKA` (which includes: no 8-bit scalar property — known finding). -/
theorem ply_roundtrip_ascii_partial [BEq α] [LawfulBEq α] (c : Coding α) (L : GoFloatText c) (cfg : WriterCfg)
    (m : MeshVal α) (body : Bytes) (hf : cfg.format = .ascii) (hwf : m.WF = true) (h : writeBody c cfg m = .ok body)
    (htys : m.attrLen = 0 ∨ writerTypes (selectWriters cfg m) ≠ [])
    (hpoint : m.topo = .point → m.indices = (List.range m.attrLen).map Int.ofNat)
    (hsize : m.attrLen ≤ 2 ^ 31) (hrange : InRangeMesh L m)
    (bl : List (Built × List Nat)) (hcl : ClaimOKA cfg m bl) :
    ∃ back, readBody c defaultReader (writeHeader cfg m) body = .ok back ∧ RoundTrips c cfg m back = true :=
  readback_ascii c L cfg m body hf hwf h htys hpoint hsize hrange bl hcl

/-- … FROM FILE BYTES: `readMesh (writeMesh cfg m)` for the ASCII encoding -/
theorem ply_roundtrip_ascii_bytes_partial [BEq α] [LawfulBEq α] (c : Coding α) (L : GoFloatText c) (cfg : WriterCfg)
    (m : MeshVal α) (bytes : Bytes) (hf : cfg.format = .ascii) (hwf : m.WF = true) (h : writeMesh c cfg m = .ok bytes)
    (htys : m.attrLen = 0 ∨ writerTypes (selectWriters cfg m) ≠ [])
    (hpoint : m.topo = .point → m.indices = (List.range m.attrLen).map Int.ofNat)
    (hsize : m.attrLen ≤ 2 ^ 31) (hidx : m.indices.length < 2 ^ 63)
    (huri : ∀ u, m.texURI = some u → CommentOK (nm "TextureFile " ++ u)) (hrange : InRangeMesh L m)
    (bl : List (Built × List Nat)) (hcl : ClaimOKA cfg m bl) :
    ∃ back, readMesh c defaultReader bytes = .ok back ∧ RoundTrips c cfg m back = true := by
  obtain ⟨body, hbody, _, hparse⟩ := ply_written_header_parses c cfg m bytes h huri
    (Nat.lt_of_le_of_lt hsize (by decide)) hidx
  obtain ⟨back, hread, hrt⟩ := ply_roundtrip_ascii_partial c L cfg m body hf hwf hbody htys hpoint hsize hrange bl hcl
  exact ⟨back, by simp [readMesh, hparse, bind, Except.bind, hread], hrt⟩

/-- the same with the decidable ASCII claim certificate -/
theorem ply_roundtrip_ascii_bytes_checked [BEq α] [LawfulBEq α] (c : Coding α) (L : GoFloatText c) (cfg : WriterCfg)
    (m : MeshVal α) (bytes : Bytes) (hf : cfg.format = .ascii) (hwf : m.WF = true) (h : writeMesh c cfg m = .ok bytes)
    (htys : m.attrLen = 0 ∨ writerTypes (selectWriters cfg m) ≠ [])
    (hpoint : m.topo = .point → m.indices = (List.range m.attrLen).map Int.ofNat)
    (hsize : m.attrLen ≤ 2 ^ 31) (hidx : m.indices.length < 2 ^ 63)
    (huri : ∀ u, m.texURI = some u → CommentOK (nm "TextureFile " ++ u)) (hrange : InRangeMesh L m)
    (hcheck : (claimCheckA cfg m).isSome = true) :
    ∃ back, readMesh c defaultReader bytes = .ok back ∧ RoundTrips c cfg m back = true := by
  obtain ⟨bl, hbl⟩ := Option.isSome_iff_exists.mp hcheck
  exact ply_roundtrip_ascii_bytes_partial c L cfg m bytes hf hwf h htys hpoint hsize hidx huri hrange bl
    (claimCheckA_sound cfg m bl hbl)

/-! non-vacuity: the welded colour mesh, the UV-mapped welded quad and the custom-configuration point cloud, ASCII, from bytes;
the law bundle is inhabited (`toyLaw`) -/

example : ∃ back, readMesh toyCodingA defaultReader ((writeMesh toyCodingA (defaultWriter .ascii) exMesh).toOption.getD [])
      = .ok back ∧ RoundTrips toyCodingA (defaultWriter .ascii) exMesh back = true :=
  ply_roundtrip_ascii_bytes_checked toyCodingA toyLaw (defaultWriter .ascii) exMesh _ rfl (by decide) (by rfl)
    (by decide) (by decide) (by decide) (by decide) (by intro u hu; simp [exMesh] at hu)
    (fun _ _ _ _ _ _ => trivial) (by decide)

example : ∃ back, readMesh toyCodingA defaultReader ((writeMesh toyCodingA (defaultWriter .ascii) exUV).toOption.getD [])
      = .ok back ∧ RoundTrips toyCodingA (defaultWriter .ascii) exUV back = true :=
  ply_roundtrip_ascii_bytes_checked toyCodingA toyLaw (defaultWriter .ascii) exUV _ rfl (by decide) (by rfl)
    (by decide) (by decide) (by decide) (by decide) (by intro u hu; simp [exUV] at hu)
    (fun _ _ _ _ _ _ => trivial) (by decide)

/-- the guard that mirrors the known finding is real: for an 8-bit SCALAR writer the ASCII certificate fails -/
example : claimCheckA ⟨.ascii, [⟨nm "q", [nm "q"], .uchar⟩], false⟩
    (⟨.point, [0], [⟨1, nm "q", [[1]]⟩], none⟩ : MeshVal Nat) = none := by decide

/-! ## the three encodings of one mesh -/

/-- ASCII, LITTLE-ENDIAN AND BIG-ENDIAN FILES OF ONE MESH LOAD TO THE SAME CONTENT, on the guarded class: all three files
load, each read-back satisfies `RoundTrips` for its encoding, and the three read-backs have the same topology, the same
primitive count and — at every primitive corner, for every written attribute the reader recognises, and for the per-corner
texture coordinates — the SAME values (`SameContent`).  Guards: those of the three round-trip theorems (`m.WF`, the three
writes succeed, some property printed, identity index buffer for point clouds, sizes, texture comment, the claim stages
`ClaimOKA` / `ClaimOK`), the law of the float text `L`, and `AgreeGuards` (mirrors the known findings). -/
theorem ply_encodings_agree_partial [BEq α] [LawfulBEq α] (c : Coding α) (L : GoFloatText c) (props : List WProp)
    (wu : Bool) (m : MeshVal α) (ba bl bb : Bytes) (hwf : m.WF = true)
    (ha : writeMesh c ⟨.ascii, props, wu⟩ m = .ok ba) (hl : writeMesh c ⟨.le, props, wu⟩ m = .ok bl)
    (hb : writeMesh c ⟨.be, props, wu⟩ m = .ok bb)
    (htys : m.attrLen = 0 ∨ writerTypes (selectWriters ⟨.ascii, props, wu⟩ m) ≠ [])
    (hpoint : m.topo = .point → m.indices = (List.range m.attrLen).map Int.ofNat)
    (hsize : m.attrLen ≤ 2 ^ 31) (hidx : m.indices.length < 2 ^ 63)
    (huri : ∀ u, m.texURI = some u → CommentOK (nm "TextureFile " ++ u)) (hrange : InRangeMesh L m)
    (blA : List (Built × List Nat)) (hclA : ClaimOKA ⟨.ascii, props, wu⟩ m blA)
    (blB : List (Built × List Nat)) (hclB : ClaimOK ⟨.le, props, wu⟩ m blB)
    (hg : AgreeGuards c L props wu m) :
    ∃ ma ml mb, readMesh c defaultReader ba = .ok ma ∧ readMesh c defaultReader bl = .ok ml ∧
      readMesh c defaultReader bb = .ok mb ∧
      RoundTrips c ⟨.ascii, props, wu⟩ m ma = true ∧ RoundTrips c ⟨.le, props, wu⟩ m ml = true ∧
      RoundTrips c ⟨.be, props, wu⟩ m mb = true ∧
      SameContent ⟨.ascii, props, wu⟩ m ma ml ∧ SameContent ⟨.le, props, wu⟩ m ml mb := by
  obtain ⟨ma, hra, hta⟩ := ply_roundtrip_ascii_bytes_partial c L ⟨.ascii, props, wu⟩ m ba rfl hwf ha htys hpoint hsize
    hidx huri hrange blA hclA
  obtain ⟨ml, hrl, htl⟩ := ply_roundtrip_binary_bytes c ⟨.le, props, wu⟩ m bl (by simp) hwf hl hpoint hsize hidx huri
    blB hclB
  have hclB' : ClaimOK ⟨.be, props, wu⟩ m blB := ⟨hclB.built, hclB.located, hclB.demanded⟩
  obtain ⟨mb, hrb, htb⟩ := ply_roundtrip_binary_bytes c ⟨.be, props, wu⟩ m bb (by simp) hwf hb hpoint hsize hidx huri
    blB hclB'
  refine ⟨ma, ml, mb, hra, hrl, hrb, hta, htl, htb, ?_, ?_⟩
  · apply sameContent_of_roundTrips c ⟨.ascii, props, wu⟩ ⟨.le, props, wu⟩ m ma ml rfl hta htl
    · intro w hw hcb a hfa comps hc v hv
      obtain ⟨h1, h2, h3⟩ := find_mem' m _ _ a hfa
      exact quant_ascii_le c L w.dim w.ty v (hrange a h1 comps hc v hv) (hg.scalars w hw hcb a h1 h2 h3 comps hc v hv)
    · intro htri a hfa comps hc v hv
      obtain ⟨h1, h2, h3⟩ := find_mem' m _ _ a hfa
      simp [quantUV, L.parse64_showF, hg.uvs htri a h1 h2 h3 comps hc v hv]
  · apply sameContent_of_roundTrips c ⟨.le, props, wu⟩ ⟨.be, props, wu⟩ m ml mb rfl htl htb
    · intro w _ _ a _ comps _ v _
      exact quant_le_be c w.dim w.ty v
    · intro _ a _ comps _ v _
      rfl

/-- the same with the two decidable claim certificates -/
theorem ply_encodings_agree_checked [BEq α] [LawfulBEq α] (c : Coding α) (L : GoFloatText c) (props : List WProp)
    (wu : Bool) (m : MeshVal α) (ba bl bb : Bytes) (hwf : m.WF = true)
    (ha : writeMesh c ⟨.ascii, props, wu⟩ m = .ok ba) (hl : writeMesh c ⟨.le, props, wu⟩ m = .ok bl)
    (hb : writeMesh c ⟨.be, props, wu⟩ m = .ok bb)
    (htys : m.attrLen = 0 ∨ writerTypes (selectWriters ⟨.ascii, props, wu⟩ m) ≠ [])
    (hpoint : m.topo = .point → m.indices = (List.range m.attrLen).map Int.ofNat)
    (hsize : m.attrLen ≤ 2 ^ 31) (hidx : m.indices.length < 2 ^ 63)
    (huri : ∀ u, m.texURI = some u → CommentOK (nm "TextureFile " ++ u)) (hrange : InRangeMesh L m)
    (hcA : (claimCheckA ⟨.ascii, props, wu⟩ m).isSome = true) (hcB : (claimCheck ⟨.le, props, wu⟩ m).isSome = true)
    (hg : AgreeGuards c L props wu m) :
    ∃ ma ml mb, readMesh c defaultReader ba = .ok ma ∧ readMesh c defaultReader bl = .ok ml ∧
      readMesh c defaultReader bb = .ok mb ∧
      RoundTrips c ⟨.ascii, props, wu⟩ m ma = true ∧ RoundTrips c ⟨.le, props, wu⟩ m ml = true ∧
      RoundTrips c ⟨.be, props, wu⟩ m mb = true ∧
      SameContent ⟨.ascii, props, wu⟩ m ma ml ∧ SameContent ⟨.le, props, wu⟩ m ml mb := by
  obtain ⟨blA, hA⟩ := Option.isSome_iff_exists.mp hcA
  obtain ⟨blB, hB⟩ := Option.isSome_iff_exists.mp hcB
  exact ply_encodings_agree_partial c L props wu m ba bl bb hwf ha hl hb htys hpoint hsize hidx huri hrange blA
    (claimCheckA_sound _ m blA hA) blB (claimCheck_sound _ m blB hB) hg

/-! non-vacuity: the UV-mapped quad under the default writers; the point cloud with an `int` and a `double` writer -/

example : ∃ ma ml mb,
    readMesh toyCodingA defaultReader ((writeMesh toyCodingA (defaultWriter .ascii) exUV).toOption.getD []) = .ok ma ∧
    readMesh toyCodingA defaultReader ((writeMesh toyCodingA (defaultWriter .le) exUV).toOption.getD []) = .ok ml ∧
    readMesh toyCodingA defaultReader ((writeMesh toyCodingA (defaultWriter .be) exUV).toOption.getD []) = .ok mb ∧
    RoundTrips toyCodingA (defaultWriter .ascii) exUV ma = true ∧ RoundTrips toyCodingA (defaultWriter .le) exUV ml = true ∧
    RoundTrips toyCodingA (defaultWriter .be) exUV mb = true ∧
    SameContent (defaultWriter .ascii) exUV ma ml ∧ SameContent (defaultWriter .le) exUV ml mb :=
  ply_encodings_agree_checked toyCodingA toyLaw defaultProps true exUV _ _ _ (by decide) (by rfl) (by rfl) (by rfl)
    (by decide) (by decide) (by decide) (by decide) (by intro u hu; simp [exUV] at hu)
    (fun _ _ _ _ _ _ => trivial) (by decide) (by decide) ⟨by decide, by decide⟩

example : ∃ ma ml mb,
    readMesh toyCodingA defaultReader ((writeMesh toyCodingA ⟨.ascii, exCfg.props, false⟩ exCloud).toOption.getD []) = .ok ma ∧
    readMesh toyCodingA defaultReader ((writeMesh toyCodingA ⟨.le, exCfg.props, false⟩ exCloud).toOption.getD []) = .ok ml ∧
    readMesh toyCodingA defaultReader ((writeMesh toyCodingA ⟨.be, exCfg.props, false⟩ exCloud).toOption.getD []) = .ok mb ∧
    RoundTrips toyCodingA ⟨.ascii, exCfg.props, false⟩ exCloud ma = true ∧
    RoundTrips toyCodingA ⟨.le, exCfg.props, false⟩ exCloud ml = true ∧
    RoundTrips toyCodingA ⟨.be, exCfg.props, false⟩ exCloud mb = true ∧
    SameContent ⟨.ascii, exCfg.props, false⟩ exCloud ma ml ∧ SameContent ⟨.le, exCfg.props, false⟩ exCloud ml mb :=
  ply_encodings_agree_checked toyCodingA toyLaw exCfg.props false exCloud _ _ _ (by decide) (by rfl) (by rfl) (by rfl)
    (by decide) (by decide) (by decide) (by decide) (by intro u hu; simp [exCloud] at hu)
    (fun _ _ _ _ _ _ => trivial) (by decide) (by decide) ⟨by decide, by decide⟩

/-- the guard is needed: a `double` value beyond float32 precision is stored differently by ASCII and binary
(toy coding: float32 keeps the value mod 2³², float64 mod 2⁶⁴) -/
example : quant toyCodingA .ascii 3 .double (2 ^ 32 + 1) ≠ quant toyCodingA .le 3 .double (2 ^ 32 + 1) := by decide

/-! ## the two name-capture configurations (known findings, witnesses `c04.holds.w_name_before_group_witness`,
`c04.holds.w_name_captured_by_group_witness`) are outside the composed theorems: the claim certificates reject them -/

def exNameMesh (scalar : Bytes) : MeshVal Nat :=
  ⟨.point, [0, 1], [⟨3, positionAttr, [[1, 2, 3], [4, 5, 6]]⟩, ⟨3, colorAttr, [[1, 0, 0], [0, 1, 0]]⟩, ⟨1, scalar, [[5], [7]]⟩], none⟩

/-- scalar `a` (float) BEFORE `Color r g b` (double): no reader for Color is built -/
example : claimCheck ⟨.le, [⟨nm "a", [nm "a"], .float⟩, ⟨colorAttr, [nm "r", nm "g", nm "b"], .double⟩,
    ⟨positionAttr, [nm "x", nm "y", nm "z"], .float⟩], false⟩ (exNameMesh (nm "a")) = none := by decide

/-- `Color red green blue` (float) and the unspecified scalar `alpha` (float): claimed together as one 4-vector -/
example : claimCheck ⟨.le, [⟨positionAttr, [nm "x", nm "y", nm "z"], .float⟩,
    ⟨colorAttr, [nm "red", nm "green", nm "blue"], .float⟩], true⟩ (exNameMesh (nm "alpha")) = none := by decide
example : claimCheckA ⟨.ascii, [⟨positionAttr, [nm "x", nm "y", nm "z"], .float⟩,
    ⟨colorAttr, [nm "red", nm "green", nm "blue"], .float⟩], true⟩ (exNameMesh (nm "alpha")) = none := by decide

end C04
end PolyVerif
