/-
  C18 (round 2) — `Mesh.Append`'s index shift inside the regenerated model.

  The capped cylinder (side strip, then each cap) and the six-quad box (six quads) are assembled with `Mesh.Append`
  (modeling/mesh.go).  `Model/Solids.lean` writes that as `ts ++ shift k us` with `k` the vertex count so far; until now
  "Append concatenates the index buffers and adds the receiver's vertex count to the appended indices" was a hand reading of
  mesh.go (corresponded).  Engine F (`go/facts c18.append`) now extracts what `Append`'s body does to its index buffer
  (`Gen/PrimAppend.lean`: append `m.indices...`, append `other.indices...`, then the in-place loop
  `for i := len(m.indices); i < len(finalTris); i++ { finalTris[i] += mAtrLength }`), `Model/AppendIR.lean` executes the loop
  step by step, and here the result is proved to be `a ++ b.map (· + nₐ)` for ALL index buffers, and the models' index
  lists are proved to be exactly iterated applications of it.
-/
import PolyVerif.Props.C18
import PolyVerif.Lemmas.SolidsAppend
import PolyVerif.Gen.PrimAppend

namespace PolyVerif
namespace C18
open Solids AppendIR

/-- **`Mesh.Append`, index buffer, all inputs**: the extracted statements (two appends and the in-place `+=` loop run
    step by step) yield the receiver's indices followed by the other mesh's indices, each increased by the RECEIVER's
    vertex count -/
theorem meshAppend_indices_from_source (a b : List Nat) (na nb : Nat) :
    run Gen.PrimAppend.meshAppendIndices ⟨a, b, na, nb⟩ = a ++ b.map (· + na) := by
  simp only [run, Gen.PrimAppend.meshAppendIndices, List.foldl_cons, List.foldl_nil, step, List.nil_append]
  exact addLoop_append na a b

/-- that is the model's `shift`: appending a triangle list `us` to `ts` whose mesh has `k` vertices -/
theorem append_is_shift (ts us : List Tri) (k nb : Nat) :
    run Gen.PrimAppend.meshAppendIndices ⟨flat ts, flat us, k, nb⟩ = flat (ts ++ shift k us) := by
  rw [meshAppend_indices_from_source]
  simp only [flat, shift, List.flatMap_append, List.flatMap_map, List.map_flatMap, List.map_cons, List.map_nil]

/-- **the capped cylinder's index buffer = the regenerated `Append` applied twice** to the regenerated parts (side strip
    `cylinderSide_indices_from_source`, circle `circle_indices_from_source`), in the extracted order top, bottom
    (`cylinder_caps_from_source`), with the vertex counts `2·sides+2` and `sides+1` of the parts -/
theorem cylinder_indices_via_append (sides : Nat) :
    flat (cylinderTris sides false false) =
      run Gen.PrimAppend.meshAppendIndices
        ⟨run Gen.PrimAppend.meshAppendIndices
            ⟨flat (cylinderSideTris sides), flat (circleTris sides), cylinderSideNV sides, circleNV sides⟩,
         flat (circleTris sides), cylinderSideNV sides + circleNV sides, circleNV sides⟩ := by
  rw [append_is_shift, append_is_shift]
  simp [cylinderTris]

/-- **the six-quad box's index buffer = the regenerated `Append` applied five times**, as in
    `top.Append(bottom).Append(left).Append(right).Append(front).Append(back)` (cube.go; the order of the faces is the
    extracted `cubeFaces`): each quad mesh has 4 vertices, so the receiver of the `q`-th `Append` has `4·(q+1)` -/
theorem cubeQuads_indices_via_append :
    flat cubeQuadsTris =
      (List.range 5).foldl (fun acc q => run Gen.PrimAppend.meshAppendIndices ⟨acc, flat quadTris, 4 * (q + 1), 4⟩)
        (flat quadTris) := by
  simp only [meshAppend_indices_from_source]
  decide

example : run Gen.PrimAppend.meshAppendIndices ⟨[0, 1, 2], [0, 2, 1, 1, 2, 3], 3, 4⟩ = [0, 1, 2, 3, 5, 4, 4, 5, 6] := by
  decide

end C18
end PolyVerif
