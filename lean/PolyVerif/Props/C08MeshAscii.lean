/-
  C08 (round 2) — ASCII files of the reference ("spec") encoding, from FILE BYTES, under the NAMED LAW BUNDLE
  `GoFloatText` (what strconv does to the float texts; hypothesis, not an axiom — see Lemmas/PlyAscii.lean) plus
  `SpecIntText` (`strconv.ParseFloat(s, 32)` accepts the decimal text of a PLY `int`).  No float-text law is needed for the
  face lines (integers only).  Same reader model as the driver's `c08.read` (`Ply.readMesh`), same `refEncode`.
-/
import PolyVerif.Props.C08Mesh
import PolyVerif.Lemmas.PlyFacesAscii
import PolyVerif.Lemmas.PlyFacesTexAscii

namespace PolyVerif
namespace C08
open Ply PlySpec PlyLemmas PlyCompose PlyHeader PlyAscii PlyFaces PlyFacesAscii PlyFacesTexAscii

variable {α : Type}

theorem specBody_ascii_lines (c : Coding α) (f : SpecFile α) (hf : f.format = .ascii) :
    specBody c f = flatLines (vertLines c f.verts ++
      (match f.face with | none => [] | some fe => PlyFacesAscii.faceLines c fe fe.faces)) := by
  cases hface : f.face <;>
    simp [specBody, hf, hface, flatLines, vertLines, PlyFacesAscii.faceLines, faceToksRef, joinWords, sp, List.map_map,
      Function.comp_def]

theorem faceStageAscii_spec (c : Coding α) (f : SpecFile α) (fe : SpecFaceElem α) (hface : f.face = some fe)
    (rest : List Bytes) :
    faceStageAscii c (findElement (specHdr f) (nm "face")) rest
      = if (findFaceProps (lpOf fe)).idxProp.isNone then .error .err else (do
          let r ← readFacesAscii c (lpOf fe) (findFaceProps (lpOf fe)) fe.faces.length
            ⟨[0, 0, 0, 0], List.replicate 8 (c.ofInt 0)⟩ rest
          pure (some r)) := by
  rw [findElement_spec_face, hface]
  simp only [Option.map_some, faceStageAscii, listProps_lists, Int.toNat_natCast]

/-- STAGE 1 COMPOSED (ASCII): the vertex loop on the reference text body decodes the data of exactly the components each
located reader claims and hands exactly the face lines to the face stage -/
theorem ply_spec_readback_vertex_ascii (c : Coding α) (L : GoFloatText c) (Z : SpecIntText c) (f : SpecFile α)
    (hf : f.format = .ascii) (hprops : f.vprops ≠ [])
    (htyped : ∀ r ∈ f.verts, r.map Datum.ty = f.vprops.map (·.ty))
    (hrange : ∀ r ∈ f.verts, ∀ d ∈ r, Datum.InRange c L Z d)
    (bl : List (Built × List Nat))
    (hbuilt : bl.map (·.1) = buildAll false (specProps f) defaultReaders true)
    (hloc : ∀ p ∈ bl, LocatedA (f.vprops.map (·.ty)) p.1 p.2) :
    readBody c defaultReader (specHdr f) (specBody c f) = (do
      let idxUv ← faceStageAscii c (findElement (specHdr f) (nm "face"))
        (match f.face with | none => [] | some fe => PlyFacesAscii.faceLines c fe fe.faces)
      assemble (bl.map (·.1)) f.verts.length (f.verts.map (rowOfS c L Z bl)) idxUv) := by
  have htys : f.vprops.map (·.ty) ≠ [] := by simpa using hprops
  have hvne : ∀ r ∈ f.verts, r ≠ [] := by
    intro r hr h0
    have := htyped r hr
    rw [h0] at this
    exact htys this.symm
  have hfl : ∀ l ∈ (match f.face with | none => [] | some fe => PlyFacesAscii.faceLines c fe fe.faces), PLine l := by
    cases hface : f.face with
    | none => intro l hl; simp at hl
    | some fe => exact faceLines_plineL c L fe fe.faces
  have hpl : ∀ l ∈ vertLines c f.verts ++ (match f.face with | none => [] | some fe => PlyFacesAscii.faceLines c fe fe.faces),
      PLine l := by
    intro l hl
    rcases List.mem_append.mp hl with h | h
    · exact vertLines_pline c L f.verts hvne l h
    · exact hfl l h
  have hve : findElement (specHdr f) defaultReader.attributeElement = _ := findElement_spec_vertex f
  have hfmt : (specHdr f).format = .ascii := hf
  rw [readBody_ascii c defaultReader (specHdr f) (specBody c f) _ (specProps f) hfmt hve (scalarProps_spec f) (by simp),
    specBody_ascii_lines c f hf, scanLines_flat _ hpl, filter_nonempty_plines _ hpl]
  have hlen : (specProps f).length = (f.vprops.map (·.ty)).length := by simp [specProps]
  have hvb := spec_vertex_block_ascii c L Z (f.vprops.map (·.ty)) htys bl hloc f.verts
    (match f.face with | none => [] | some fe => PlyFacesAscii.faceLines c fe fe.faces) htyped hrange
  simp only [Int.toNat_natCast, defaultReader, ← hbuilt, hlen, hvb, bind, Except.bind]

/-- ASCII POINT-CLOUD FILES FROM FILE BYTES (any property order / type mix / extra properties, located readers) -/
theorem ply_reads_spec_pointcloud_ascii_bytes (c : Coding α) (L : GoFloatText c) (Z : SpecIntText c) (f : SpecFile α)
    (hok : SpecHeaderOK f) (hf : f.format = .ascii) (hprops : f.vprops ≠ []) (hface : f.face = none)
    (htyped : ∀ r ∈ f.verts, r.map Datum.ty = f.vprops.map (·.ty))
    (hrange : ∀ r ∈ f.verts, ∀ d ∈ r, Datum.InRange c L Z d)
    (bl : List (Built × List Nat))
    (hbuilt : bl.map (·.1) = buildAll false (specProps f) defaultReaders true)
    (hloc : ∀ p ∈ bl, LocatedA (f.vprops.map (·.ty)) p.1 p.2) :
    readMesh c defaultReader (refEncode c f)
      = .ok (applyColumns ⟨.point, (List.range f.verts.length).map Int.ofNat, [], none⟩ (bl.map (·.1))
          (f.verts.map (rowOfS c L Z bl))) := by
  simp only [readMesh, refEncode, parse_specHeader f hok, bind, Except.bind]
  rw [ply_spec_readback_vertex_ascii c L Z f hf hprops htyped hrange bl hbuilt hloc,
    findElement_spec_face, hface]
  simp [faceStageAscii, assemble, bind, Except.bind, pure, Except.pure]

/-- ASCII MESH FILES FROM FILE BYTES: the ASCII variant of `ply_reads_spec_mesh_bytes` — index list `vertex_indices` /
`vertex_index` declared with ANY count and index type (ASCII tokens do not depend on them), optional unrecognised list
before / after, no texcoord, triangles and quads → triangle mesh with the fan triangles in file order; the vertex side
as in the ASCII point-cloud theorem -/
theorem ply_reads_spec_mesh_ascii_bytes (c : Coding α) (L : GoFloatText c) (Z : SpecIntText c) (f : SpecFile α)
    (fe : SpecFaceElem α) (hok : SpecHeaderOK f) (hf : f.format = .ascii) (hprops : f.vprops ≠ [])
    (hface : f.face = some fe) (htex : fe.tex = none)
    (henc : ∀ fc ∈ fe.faces, FaceEncOK fe fc) (hsize : ∀ fc ∈ fe.faces, TriOrQuad fc)
    (htyped : ∀ r ∈ f.verts, r.map Datum.ty = f.vprops.map (·.ty))
    (hrange : ∀ r ∈ f.verts, ∀ d ∈ r, Datum.InRange c L Z d)
    (bl : List (Built × List Nat))
    (hbuilt : bl.map (·.1) = buildAll false (specProps f) defaultReaders true)
    (hloc : ∀ p ∈ bl, LocatedA (f.vprops.map (·.ty)) p.1 p.2) :
    readMesh c defaultReader (refEncode c f)
      = .ok (applyColumns ⟨.triangle, fanIdx fe.faces, [], none⟩ (bl.map (·.1)) (f.verts.map (rowOfS c L Z bl))) := by
  simp only [readMesh, refEncode, parse_specHeader f hok, bind, Except.bind]
  have hfaces := readFacesAscii_ref c fe htex fe.faces (fun fc h => ⟨henc fc h, hsize fc h⟩)
    ⟨[0, 0, 0, 0], List.replicate 8 (c.ofInt 0)⟩ ⟨rfl, by simp⟩
  rw [ply_spec_readback_vertex_ascii c L Z f hf hprops htyped hrange bl hbuilt hloc,
    faceStageAscii_spec c f fe hface, hface]
  simp only []
  rw [hfaces, findFaceProps_ref fe htex]
  simp [assemble, bind, Except.bind, pure, Except.pure]

/-- ASCII: A FACE OF ANOTHER SIZE IS REJECTED (0, 1, 2 indices: the size check; ≥ 5: the ASCII list reader's `Int` fails —
an error here, not ignored as in binary) -/
theorem ply_spec_mesh_other_size_rejected_ascii (c : Coding α) (L : GoFloatText c) (Z : SpecIntText c) (f : SpecFile α)
    (fe : SpecFaceElem α) (hok : SpecHeaderOK f) (hf : f.format = .ascii) (hprops : f.vprops ≠ [])
    (hface : f.face = some fe) (htex : fe.tex = none) (henc : ∀ fc ∈ fe.faces, FaceEncOK fe fc)
    (pre : List (SpecFace α)) (bad : SpecFace α) (post : List (SpecFace α)) (hfaces : fe.faces = pre ++ bad :: post)
    (hpre : ∀ fc ∈ pre, TriOrQuad fc) (hbad : ¬ TriOrQuad bad)
    (htyped : ∀ r ∈ f.verts, r.map Datum.ty = f.vprops.map (·.ty))
    (hrange : ∀ r ∈ f.verts, ∀ d ∈ r, Datum.InRange c L Z d)
    (bl : List (Built × List Nat))
    (hbuilt : bl.map (·.1) = buildAll false (specProps f) defaultReaders true)
    (hloc : ∀ p ∈ bl, LocatedA (f.vprops.map (·.ty)) p.1 p.2) :
    readMesh c defaultReader (refEncode c f) = .error .err := by
  simp only [readMesh, refEncode, parse_specHeader f hok, bind, Except.bind]
  have henc' : ∀ fc ∈ pre ++ bad :: post, FaceEncOK fe fc := by rw [← hfaces]; exact henc
  have hrej := readFacesAscii_ref_reject c fe htex pre bad post
    (fun fc h => ⟨henc' fc (by simp [h]), hpre fc h⟩) (henc' bad (by simp)) hbad
    ⟨[0, 0, 0, 0], List.replicate 8 (c.ofInt 0)⟩ ⟨rfl, by simp⟩
  rw [← hfaces] at hrej
  rw [ply_spec_readback_vertex_ascii c L Z f hf hprops htyped hrange bl hbuilt hloc,
    faceStageAscii_spec c f fe hface, hface]
  simp only []
  rw [hrej, findFaceProps_ref fe htex]
  simp [bind, Except.bind]

/-! ### non-vacuity: the mesh of `exMesh`, ASCII, with non-negative data (the toy coding parses digits only) -/

def toyIntLaw : SpecIntText toyCodingA where
  inRangeZ := fun i => 0 ≤ i
  imgZ := fun i => i.toNat % 2 ^ 32
  parse32_showInt := by
    intro i hi
    obtain ⟨n, rfl⟩ := Int.eq_ofNat_of_zero_le hi
    obtain ⟨ds, hds, _, hp⟩ := showNat_spec n
    show (parseDigits (showInt (n : Int)) 0).map (fun n => n % 2 ^ 32) = some ((n : Int).toNat % 2 ^ 32)
    rw [showInt_nat, hds, hp]; rfl

def exMeshA : SpecFile Nat :=
  { exMesh with
    format := .ascii,
    vprops := [⟨nm "z", .float, false⟩, ⟨nm "q", .double, true⟩, ⟨nm "x", .float, false⟩, ⟨nm "y", .float, true⟩],
    verts := [[.f32 3, .f64 255, .f32 1, .f32 2], [.f32 6, .f64 0, .f32 4, .f32 5], [.f32 9, .f64 51, .f32 7, .f32 8],
      [.f32 12, .f64 102, .f32 10, .f32 11]] }

def exBlA : List (Built × List Nat) :=
  [(⟨positionAttr, [nm "x", nm "y", nm "z"], [2, 3, 0], some .float⟩, [2, 3, 0]),
   (⟨nm "q", [nm "q"], [1], none⟩, [1])]

example : readMesh toyCodingA defaultReader (refEncode toyCodingA exMeshA)
    = .ok (applyColumns ⟨.triangle, [0, 1, 2, 3, 2, 1, 3, 1, 0], [], none⟩ (exBlA.map (·.1))
        (exMeshA.verts.map (rowOfS toyCodingA toyLaw toyIntLaw exBlA))) :=
  ply_reads_spec_mesh_ascii_bytes toyCodingA toyLaw toyIntLaw exMeshA exMesh.exFaces
    ⟨by decide, by intro i hi; simp [exMeshA, exMesh, exFile] at hi, by decide,
      by intro fe h; simp only [exMeshA, exMesh, Option.some.injEq] at h; subst h; decide⟩
    rfl (by decide) rfl rfl exMesh_ok.enc
    (by
      intro fc hfc
      simp only [exMesh.exFaces, List.mem_cons, List.not_mem_nil, or_false] at hfc
      rcases hfc with rfl | rfl
      · exact Or.inl rfl
      · exact Or.inr rfl)
    (by decide)
    (by
      intro r hr d hd
      simp only [exMeshA, List.mem_cons, List.not_mem_nil, or_false] at hr
      rcases hr with rfl | rfl | rfl | rfl <;>
        (simp only [List.mem_cons, List.not_mem_nil, or_false] at hd
         rcases hd with rfl | rfl | rfl | rfl <;> trivial))
    exBlA (by decide)
    (by
      intro p hp
      simp only [exBlA, List.mem_cons, List.not_mem_nil, or_false] at hp
      rcases hp with rfl | rfl
      · exact (locatedNamedAB_sound (specProps exMeshA) _ _ (by decide)).loc
      · exact (locatedNamedAB_sound (specProps exMeshA) _ _ (by decide)).loc)

/-- the same vertex data as an ASCII point cloud -/
example : ∃ m, readMesh toyCodingA defaultReader (refEncode toyCodingA { exMeshA with face := none }) = .ok m :=
  ⟨_, ply_reads_spec_pointcloud_ascii_bytes toyCodingA toyLaw toyIntLaw { exMeshA with face := none }
    ⟨by decide, by intro i hi; simp [exMeshA, exMesh, exFile] at hi, by decide, by intro fe h; simp at h⟩
    rfl (by decide) rfl (by decide)
    (by
      intro r hr d hd
      simp only [exMeshA, List.mem_cons, List.not_mem_nil, or_false] at hr
      rcases hr with rfl | rfl | rfl | rfl <;>
        (simp only [List.mem_cons, List.not_mem_nil, or_false] at hd
         rcases hd with rfl | rfl | rfl | rfl <;> trivial))
    exBlA (by decide)
    (by
      intro p hp
      simp only [exBlA, List.mem_cons, List.not_mem_nil, or_false] at hp
      rcases hp with rfl | rfl
      · exact (locatedNamedAB_sound (specProps exMeshA) _ _ (by decide)).loc
      · exact (locatedNamedAB_sound (specProps exMeshA) _ _ (by decide)).loc)⟩

/-- the ASCII file with a pentagon in second place is rejected -/
example : readMesh toyCodingA defaultReader (refEncode toyCodingA
      { exMeshA with face := some { exMesh.exFaces with faces := [⟨[0, 1, 2], [], []⟩, ⟨[0, 1, 2, 3, 0], [], [5]⟩, ⟨[1, 2, 3], [], []⟩] } })
    = .error .err :=
  ply_spec_mesh_other_size_rejected_ascii toyCodingA toyLaw toyIntLaw _ _
    ⟨by decide, by intro i hi; simp [exMeshA, exMesh, exFile] at hi, by decide,
      by intro fe h; simp only [Option.some.injEq] at h; subst h; decide⟩
    rfl (by decide) rfl rfl
    (by
      intro fc hfc
      simp only [List.mem_cons, List.not_mem_nil, or_false] at hfc
      rcases hfc with rfl | rfl | rfl <;> exact ⟨by decide, by decide, by decide, by decide⟩)
    [⟨[0, 1, 2], [], []⟩] ⟨[0, 1, 2, 3, 0], [], [5]⟩ [⟨[1, 2, 3], [], []⟩] rfl
    (by intro fc hfc; simp only [List.mem_cons, List.not_mem_nil, or_false] at hfc; subst hfc; exact Or.inl rfl)
    (by simp [TriOrQuad])
    (by decide)
    (by
      intro r hr d hd
      simp only [exMeshA, List.mem_cons, List.not_mem_nil, or_false] at hr
      rcases hr with rfl | rfl | rfl | rfl <;>
        (simp only [List.mem_cons, List.not_mem_nil, or_false] at hd
         rcases hd with rfl | rfl | rfl | rfl <;> trivial))
    exBlA (by decide)
    (by
      intro p hp
      simp only [exBlA, List.mem_cons, List.not_mem_nil, or_false] at hp
      rcases hp with rfl | rfl
      · exact (locatedNamedAB_sound (specProps exMeshA) _ _ (by decide)).loc
      · exact (locatedNamedAB_sound (specProps exMeshA) _ _ (by decide)).loc)

end C08
end PolyVerif
