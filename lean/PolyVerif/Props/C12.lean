/-
  C12 — a saved graph reloads to the same graph, artifacts and bytes.

  Theorems about `PolyVerif.Model.GraphIO` (model of /repo/generator/graph/instance.go, generator/app.go,
  nodes/struct_node.go SetInput/Dependencies, refutil/reflect.go, generator/sync/sync.go,
  generator/parameter/*.go), tied to the Go code by the `c12` correspondence stream.
  Helper lemmas are `private` or named `*_aux`.
-/
import PolyVerif.Model.GraphIO

namespace PolyVerif
namespace C12
open GraphIO

/-! ### the comparator: what the pinned (pre-5b98158) order does to ten or more array entries -/

/-- the lower-cased string order puts `Values.10` before `Values.2` … -/
theorem lexicographic_misorders : lexLess "Values.10".toList "Values.2".toList = true ∧
    depLess "Values.10".toList "Values.2".toList = false ∧ depLess "Values.2".toList "Values.10".toList = true := by
  decide

end C12
end PolyVerif
