/-
  C12 — a saved graph reloads to the same graph, artifacts and bytes.

  Theorems about `PolyVerif.Model.GraphIO` (model of /repo/generator/graph/instance.go, generator/app.go,
  nodes/struct_node.go SetInput/Dependencies, refutil/reflect.go, generator/sync/sync.go,
  generator/parameter/*.go), tied to the Go code by the `c12` correspondence stream.
  Property theorems only; helper lemmas live in `PolyVerif.Lemmas.GraphIO`.
-/
import PolyVerif.Model.GraphIO
import PolyVerif.Lemmas.GraphIO
import PolyVerif.Lemmas.DepOrder
import PolyVerif.Gen.DepOrderFacts

namespace PolyVerif
namespace C12
open GraphIO

variable {V J : Type}

/-! ### histories -/

/-- After ANY history of editing operations (create node, connect / disconnect scalar inputs, array add / remove /
    clear, set parameter value / name / description, designate producer, metadata set / delete, delete a node
    nothing depends on — failing operations leave the graph unchanged) started from the empty graph:
    ids are unique and non-empty, every node has a registered type, every reference (wiring and producers)
    resolves to a node of the graph whose output type matches, parameter payloads are re-readable. -/
theorem edit_history_wf {E : Env V J} (hE : EnvOK E) (h : Hdr) (ops : List (Op J)) :
    WF E (run E (Graph.init h) ops) :=
  run_wf hE ops (init_wf h)

/-- the bounded id search of the model never exhausts its fuel: among `len + 1` candidate names `Node-k` one is free
    (pigeonhole; `Node-k` is injective in k).  So the model's `fuel` error never occurs and `edit_history_wf` is not
    true of `create` by way of the failing-op no-op. -/
theorem firstFree_sufficient (ids : List Id) (k : Nat) : ∃ id, firstFree ids (ids.length + 1) k = some id :=
  firstFree_sufficient_aux k (Nat.lt_succ_self _)

/-- CreateNode of a registered type always succeeds, and the new node gets a fresh, non-empty id -/
theorem create_succeeds {E : Env V J} (g : Graph V) {ty : TyName} {T : NodeType} (hT : E.types ty = some T) :
    ∃ id, id ∉ g.ids ∧ id ≠ "" ∧
      step E g (.create ty) = .ok { g with nodes := g.nodes ++ [emptyNode id ty (freshParam E ty T)] } := by
  have hlen : g.ids.length = g.nodes.length := by simp [Graph.ids]
  obtain ⟨id, hid⟩ := firstFree_sufficient g.ids g.nodes.length
  rw [hlen] at hid
  obtain ⟨h1, h2⟩ := firstFree_fresh hid
  exact ⟨id, h1, h2, by simp [step, hT, hid]⟩

/-- the same from any well-formed start graph (an application that defines its graph in code — `App.Files` —
    starts from that graph instead of the empty one; per-node defaults are then arbitrary) -/
theorem edit_history_wf_from {E : Env V J} (hE : EnvOK E) {g : Graph V} (hw : WF E g) (ops : List (Op J)) :
    WF E (run E g ops) :=
  run_wf hE ops hw

/-! ### save → load -/

/-- For every well-formed graph — in particular (`edit_history_wf`) every graph reachable by editing —,
    if the comparator used by the save is, on each node's dependency names, a strict total order that puts
    `P.i` before `P.j` whenever i < j, and at most one File/Image parameter carries a payload:
    loading the saved file into a fresh application succeeds and yields the graph itself, up to `norm`
    (a parameter's applied value becomes its current `Value()`): same nodes, ids and types, same scalar wiring,
    the same array contents IN THE SAME ORDER, same parameters, producers, metadata and header. -/
theorem decode_encode {E : Env V J} (hE : EnvOK E) {cmp : Name → Name → Bool} {g : Graph V} (hw : WF E g)
    (hc : ∀ n ∈ g.nodes, ∀ T, E.types n.ty = some T → CmpOK cmp T n) (hf : FilePayloadLast E g) :
    decode E Hdr.empty (encode E cmp g) = .ok g.norm := by
  unfold decode encode
  simp only [bind, Except.bind]
  rw [decodeNodes_encode hE hw hc g.nodes (fun _ h => h) hf, decodeProds_encode hw g.prods hw.prods, applyHdr_empty]
  rfl

/-- what `norm` keeps: everything observable.  Ids, types, the wiring functions (array order included), name,
    description, `Value()`, default and CLI binding of every parameter; producers, metadata, header. -/
theorem norm_same (g : Graph V) :
    g.norm.nodes.map (·.id) = g.nodes.map (·.id) ∧ g.norm.nodes.map (·.ty) = g.nodes.map (·.ty) ∧
    g.norm.nodes.map (·.scal) = g.nodes.map (·.scal) ∧ g.norm.nodes.map (·.arrs) = g.nodes.map (·.arrs) ∧
    g.norm.nodes.map (fun n => n.par.map Param.view) = g.nodes.map (fun n => n.par.map Param.view) ∧
    g.norm.prods = g.prods ∧ g.norm.md = g.md ∧ g.norm.hdr = g.hdr := by
  refine ⟨?_, ?_, ?_, ?_, ?_, rfl, rfl, rfl⟩ <;> simp only [Graph.norm, List.map_map] <;> apply List.map_congr_left <;>
    intro n _ <;> simp only [Function.comp, Node.norm]
  cases n.par with
  | none => rfl
  | some p => simp [Param.view, Param.norm_value]; simp [Param.norm]

/-- Saving the reloaded graph reproduces the file, at schema level: `encode (decode (encode g)) = encode g`.
    (encoding/json writes object keys sorted and jbtf lays the buffer out from the same data, so equal schemas are
    equal bytes — that last step is the trusted one, observed by the `bytes_identical` oracle.) -/
theorem encode_idempotent {E : Env V J} (hE : EnvOK E) {cmp : Name → Name → Bool} {g : Graph V} (hw : WF E g)
    (hc : ∀ n ∈ g.nodes, ∀ T, E.types n.ty = some T → CmpOK cmp T n) (hf : FilePayloadLast E g) :
    (decode E Hdr.empty (encode E cmp g)).map (encode E cmp) = .ok (encode E cmp g) := by
  rw [decode_encode hE hw hc hf]
  simp only [Except.map, encode, Graph.norm, List.map_map]
  congr 2
  apply List.map_congr_left
  intro n _
  exact encodeNode_norm E cmp n

/-- Whatever order Go's `range i.nodeIDs` presents the nodes in at save time (the model's list order of a graph is that
    order; it also fixes the order of the payloads in the binary buffer): the save of ANY permutation `g'` of the graph
    reloads to `g'.norm`, whose nodes are a permutation of `g.norm`'s — the same set of identical nodes.
    (On the load side there is nothing to permute: `decodeNode` is a function of the file, the entry and the payloads
    that FOLLOW the entry's own in the buffer, not of the order in which ApplyAppSchema visits the entries.) -/
theorem decode_encode_perm {E : Env V J} (hE : EnvOK E) {cmp : Name → Name → Bool} {g g' : Graph V} (hw : WF E g)
    (hperm : g'.nodes.Perm g.nodes) (hprods : g'.prods = g.prods)
    (hc : ∀ n ∈ g.nodes, ∀ T, E.types n.ty = some T → CmpOK cmp T n) (hf : FilePayloadLast E g) :
    decode E Hdr.empty (encode E cmp g') = .ok g'.norm ∧ g'.norm.nodes.Perm g.norm.nodes := by
  have keep : ∀ s ∈ g.nodes, ∃ s' ∈ g'.nodes, s'.id = s.id ∧ s'.ty = s.ty :=
    fun s hs => ⟨s, hperm.mem_iff.mpr hs, rfl, rfl⟩
  have hw' : WF E g' := by
    refine ⟨(hperm.map _).nodup_iff.mpr hw.nodup, ?_, hprods ▸ hw.prodsNodup, ?_⟩
    · intro n hn; exact (hw.nodes n (hperm.mem_iff.mp hn)).mono keep
    · intro kv hkv; exact (hw.prods kv (hprods ▸ hkv)).mono keep
  have hf' : FilePayloadLast E g' := by
    unfold FilePayloadLast at hf ⊢
    rw [(hperm.filterMap _).length_eq]; exact hf
  exact ⟨decode_encode hE hw' (fun n hn => hc n (hperm.mem_iff.mp hn)) hf', hperm.map _⟩

/-- helper: encoding is per node, so permuting the nodes permutes the entries -/
theorem encode_nodes_perm (E : Env V J) (cmp : Name → Name → Bool) {g g' : Graph V} (h : g.nodes.Perm g'.nodes) :
    (encode E cmp g).nodes.Perm (encode E cmp g').nodes :=
  h.map _

/-- sort.Slice is trusted only to return SOME permutation that is sorted w.r.t. the comparator; under `CmpOK`
    that permutation is unique, so it is the list the model's insertion sort computes -/
theorem sorted_unique {E : Env V J} (hE : EnvOK E) {ty : TyName} {T : NodeType} (hT : E.types ty = some T)
    {cmp : Name → Name → Bool} {n : Node V} (hc : CmpOK cmp T n) {l : List Dep} (hperm : l.Perm (depsOf T n))
    (hsorted : l.Pairwise (fun a b => cmp a.name b.name = true)) :
    l = sortBy (fun a b => cmp a.name b.name) (depsOf T n) :=
  let ⟨hS, hN⟩ := depsOf_strict hE hT hc
  sorted_unique_aux hS hN hperm hsorted

/-! ### the comparator -/

/-- the skeleton of `dependencyNameLess` and of its call site that `depLess` / `encodeNode` transcribe:
    split both names at the LAST dot (`splitLast`), guard = both dots found and `EqualFold` of the prefixes
    (`lower ap = lower bp`), `strconv.Atoi` of both suffixes (`atoi`), both errors nil (`some x, some y`), numeric `<`,
    else `ToLower(a) < ToLower(b)` (`strLt (lower a) (lower b)`); `sort.Slice` of the dependencies by that on `.Name` -/
def expectedSkeleton : List String := [
  "split-a: v0 := strings.LastIndex(p0, \".\")",
  "split-b: v1 := strings.LastIndex(p1, \".\")",
  "same-port-guard: v0 != -1",
  "same-port-guard: v1 != -1",
  "same-port-guard: strings.EqualFold(p0[:v0], p1[:v1])",
  "parse-a: v2, v3 := strconv.Atoi(p0[v0+1:])",
  "parse-b: v4, v5 := strconv.Atoi(p1[v1+1:])",
  "numeric-guard: v3 == nil",
  "numeric-guard: v5 == nil",
  "numeric-result: v2 < v4",
  "fallback-result: strings.ToLower(p0) < strings.ToLower(p1)",
  "sort-call: sort.Slice(nodeInstance.Dependencies, func(i, j int) bool { return dependencyNameLess(nodeInstance.Dependencies[i].Name, nodeInstance.Dependencies[j].Name) })"]

/-- REGENERATED OBLIGATION (engine F, `go/facts` mode `c12.cmp`): the comparator in generator/graph/instance.go, as it is
    in the tree being checked, has exactly the statement / call skeleton the model transcribes -/
theorem dep_order_skeleton : Gen.depOrderFacts = expectedSkeleton := by decide +kernel

theorem name_code_aux {E : Env V J} (_hE : EnvOK E) {ty : TyName} {T : NodeType} (_hT : E.types ty = some T)
    {n : Node V} (hlen : ∀ p, (n.arrs p).length ≤ 2 ^ 63) {x : Name} (hx : x ∈ (depsOf T n).map (·.name)) :
    ∃ c : Code, c.Valid T ∧ c.render = x := by
  obtain ⟨d, hd, rfl⟩ := List.mem_map.mp hx
  unfold depsOf at hd
  rcases List.mem_append.mp hd with h | h
  · exact ⟨.s d.name, (mem_scalDeps h).1, rfl⟩
  · obtain ⟨p, hp, i, hi, hname, _⟩ := mem_arrDeps h
    exact ⟨.a p i, ⟨hp, Nat.lt_of_lt_of_le hi (hlen p)⟩, hname.symm⟩

/-- `dependencyNameLess` as it is now (numeric-suffix aware) satisfies the hypothesis of `decode_encode`, for every
    node of every type whose input names are dot-free and distinct up to case (Go field names), with any number of
    connections a Go slice can hold — any number of digits: it is a strict total order on the node's dependency
    names and orders `P.i` before `P.j` for all i < j. -/
theorem natural_order_ok {E : Env V J} (hE : EnvOK E) {ty : TyName} {T : NodeType} (hT : E.types ty = some T)
    (hP : PortsOK T) (n : Node V) (hlen : ∀ p, (n.arrs p).length ≤ 2 ^ 63) : CmpOK depLess T n := by
  have hdotS := hE.scalNoDot ty T hT
  have code := fun x hx => name_code_aux (n := n) hE hT hlen (x := x) hx
  refine ⟨⟨?_, ?_, ?_⟩, ?_⟩
  · intro a ha b hb h1 h2
    obtain ⟨ca, va, rfl⟩ := code a ha
    obtain ⟨cb, vb, rfl⟩ := code b hb
    have hS := codeLt_strict hP hdotS [ca, cb] (by intro c hc; simp at hc; rcases hc with rfl | rfl <;> assumption)
    exact hS.asymm ca (by simp) cb (by simp) h1 h2
  · intro a ha b hb c hc h1 h2
    obtain ⟨ca, va, rfl⟩ := code a ha
    obtain ⟨cb, vb, rfl⟩ := code b hb
    obtain ⟨cc, vc, rfl⟩ := code c hc
    have hS := codeLt_strict hP hdotS [ca, cb, cc]
      (by intro c hc; simp at hc; rcases hc with rfl | rfl | rfl <;> assumption)
    exact hS.trans ca (by simp) cb (by simp) cc (by simp) h1 h2
  · intro a ha b hb hne
    obtain ⟨ca, va, rfl⟩ := code a ha
    obtain ⟨cb, vb, rfl⟩ := code b hb
    have hS := codeLt_strict hP hdotS [ca, cb] (by intro c hc; simp at hc; rcases hc with rfl | rfl <;> assumption)
    exact hS.total ca (by simp) cb (by simp) (fun e => hne (e ▸ rfl))
  · intro p hp i j hij hj
    have hj' : j < 2 ^ 63 := Nat.lt_of_lt_of_le hj (hlen p)
    rw [depLess_same_port p i j (by omega) hj']
    simpa using hij

/-- the property's save → load clause for the code as it is: every graph reachable by editing, saved with
    `dependencyNameLess` and loaded into a fresh application, comes back as itself (array order included) -/
theorem decode_encode_natural {E : Env V J} (hE : EnvOK E) (hP : ∀ ty T, E.types ty = some T → PortsOK T)
    (h : Hdr) (ops : List (Op J)) (hlen : ∀ n ∈ (run E (Graph.init h) ops).nodes, ∀ p, (n.arrs p).length ≤ 2 ^ 63)
    (hf : FilePayloadLast E (run E (Graph.init h) ops)) :
    decode E Hdr.empty (encode E depLess (run E (Graph.init h) ops)) = .ok (run E (Graph.init h) ops).norm :=
  decode_encode hE (edit_history_wf hE h ops)
    (fun n hn T hT => natural_order_ok hE hT (hP _ T hT) n (hlen n hn)) hf

/-! ### what the pinned (pre-5b98158) order does to ten or more array entries; what jbtf does to a second payload -/

/-- the lower-cased string order puts `Values.10` before `Values.2`; the numeric-aware one does not -/
theorem lexicographic_misorders : lexLess "Values.10".toList "Values.2".toList = true ∧
    depLess "Values.10".toList "Values.2".toList = false ∧ depLess "Values.2".toList "Values.10".toList = true := by
  decide

/-- witness environment: `P` a value parameter (output type 1), `S` a struct with one array input `Values` (type 1) -/
def wEnv : Env Nat Nat :=
  { types := fun t => if t = "P" then some { out := 1, scal := [], arrs := [], param := some .value }
                      else if t = "S" then some { out := 1, scal := [], arrs := [("Values".toList, 1)], param := none }
                      else none,
    dflt := fun _ => some 0, toJ := id, fromJ := fun _ j => some j, cat := fun a b => a + b }

/-- the 11-connection graph: create `S`, then eleven times create a parameter and connect it to `Values` -/
def wGraph : Graph Nat :=
  run wEnv (Graph.init Hdr.empty)
    (.create "S" :: ((List.range 11).flatMap fun i =>
      [.create "P", .connect (nodeIdOf (i + 1)) "Out" (nodeIdOf 0) "Values.0".toList]))

def valuesOf (g : Graph Nat) : List (List Id) :=
  (g.nodes.filter (fun n => n.ty = "S")).map (fun n => (n.arrs "Values".toList).map (·.node))

def reloadValues (cmp : Name → Name → Bool) (g : Graph Nat) : Option (List (List Id)) :=
  match decode wEnv Hdr.empty (encode wEnv cmp g) with
  | .ok g' => some (valuesOf g')
  | .error _ => none

/-- with the old lower-cased string order, decode ∘ encode scrambles an array input with 11 connections
    (the eleventh, saved as `Values.10`, comes back third); with the repaired order it does not -/
theorem lexicographic_order_breaks :
    reloadValues lexLess wGraph = some [["Node-1", "Node-2", "Node-11", "Node-3", "Node-4", "Node-5", "Node-6",
      "Node-7", "Node-8", "Node-9", "Node-10"]] ∧
    reloadValues lexLess wGraph ≠ some (valuesOf wGraph) ∧
    reloadValues depLess wGraph = some (valuesOf wGraph) := by
  decide

/-- witness environment with one File-like parameter type whose payloads are strings -/
def fEnv : Env (List Char) (List Char) :=
  { types := fun t => if t = "F" then some { out := 2, scal := [], arrs := [], param := some .file } else none,
    dflt := fun _ => none, toJ := id, fromJ := fun _ j => some j, cat := fun a b => a ++ b }

def fGraph : Graph (List Char) :=
  run fEnv (Graph.init Hdr.empty)
    [.create "F", .create "F", .setValue "Node-0" "AAAA".toList, .setValue "Node-1" "BB".toList]

def payloadsOf (g : Graph (List Char)) : List (Option String) :=
  g.nodes.map (fun n => (n.par.bind Param.value).map String.ofList)

/-- KNOWN FINDING C12-file-param-not-last, as a closed term: with two File parameters `AAAA`, `BB`
    (so `FilePayloadLast` fails) the first one reloads as `AAAABB` -/
theorem file_payload_concatenated :
    ¬ FilePayloadLast fEnv fGraph ∧ payloadsOf fGraph = [some "AAAA", some "BB"] ∧
    (match decode fEnv Hdr.empty (encode fEnv depLess fGraph) with
     | .ok g' => some (payloadsOf g')
     | .error _ => none) = some [some "AAAABB", some "BB"] := by
  decide

/-! ### non-vacuity of the hypotheses -/

theorem wEnv_types_aux {ty : TyName} {T : NodeType} (hT : wEnv.types ty = some T) :
    (ty = "P" ∧ T = { out := 1, scal := [], arrs := [], param := some .value }) ∨
    (ty = "S" ∧ T = { out := 1, scal := [], arrs := [("Values".toList, 1)], param := none }) := by
  simp only [wEnv] at hT
  split at hT
  · rename_i h; cases hT; exact Or.inl ⟨h, rfl⟩
  · split at hT
    · rename_i h; cases hT; exact Or.inr ⟨h, rfl⟩
    · cases hT

example : EnvOK wEnv := by
  refine ⟨?_, ?_, ?_, ?_, ?_, ?_, ?_, ?_⟩
  · intro ty T hT; rcases wEnv_types_aux hT with ⟨_, rfl⟩ | ⟨_, rfl⟩ <;> simp
  · intro ty T hT; rcases wEnv_types_aux hT with ⟨_, rfl⟩ | ⟨_, rfl⟩ <;> simp
  · intro ty T hT; rcases wEnv_types_aux hT with ⟨_, rfl⟩ | ⟨_, rfl⟩ <;> simp
  · intro ty T hT; rcases wEnv_types_aux hT with ⟨_, rfl⟩ | ⟨_, rfl⟩ <;> simp <;> decide
  · intro ty T hT; rcases wEnv_types_aux hT with ⟨_, rfl⟩ | ⟨_, rfl⟩ <;> simp
  · intro ty j v h; simp only [wEnv, Option.some.injEq] at h; subst h; rfl
  · intro ty v h; rfl
  · intro ty T hT _; rfl

example : PortsOK ({ out := 1, scal := [], arrs := [("Values".toList, 1)], param := none } : NodeType) := by
  refine ⟨?_, ?_, ?_⟩ <;> simp <;> decide

example : FilePayloadLast wEnv wGraph := by decide

example : (wGraph.nodes.length = 12) ∧ valuesOf wGraph = [["Node-1", "Node-2", "Node-3", "Node-4", "Node-5", "Node-6",
    "Node-7", "Node-8", "Node-9", "Node-10", "Node-11"]] := by decide

end C12
end PolyVerif
