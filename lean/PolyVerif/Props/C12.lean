/-
  C12 — a saved graph reloads to the same graph, artifacts and bytes.

  Theorems about `PolyVerif.Model.GraphIO` (model of /repo/generator/graph/instance.go, generator/app.go,
  nodes/struct_node.go SetInput/Dependencies, refutil/reflect.go, generator/sync/sync.go,
  generator/parameter/*.go), tied to the Go code by the `c12` correspondence stream.
  Property theorems only; helper lemmas live in `PolyVerif.Lemmas.GraphIO`.
-/
import PolyVerif.Model.GraphIO
import PolyVerif.Lemmas.GraphIO
import PolyVerif.Lemmas.DepOrder

namespace PolyVerif
namespace C12
open GraphIO

variable {V J : Type}

/-! ### histories -/

/-- After ANY history of editing operations (create node, connect / disconnect scalar inputs, array add / remove /
    clear, set parameter value / name / description, designate producer, metadata set / delete, delete a node
    nothing depends on — failing operations leave the graph unchanged) started from the empty graph:
    ids are unique and non-empty, every node has a registered type, every reference (wiring and producers)
    resolves to a node of the graph whose output type matches, parameter payloads are re-readable. -/
theorem edit_history_wf {E : Env V J} (hE : EnvOK E) (h : Hdr) (ops : List (Op J)) :
    WF E (run E (Graph.init h) ops) :=
  run_wf hE ops (init_wf h)

/-- the same from any well-formed start graph (an application that defines its graph in code — `App.Files` —
    starts from that graph instead of the empty one; per-node defaults are then arbitrary) -/
theorem edit_history_wf_from {E : Env V J} (hE : EnvOK E) {g : Graph V} (hw : WF E g) (ops : List (Op J)) :
    WF E (run E g ops) :=
  run_wf hE ops hw

/-! ### save → load -/

/-- For every well-formed graph — in particular (`edit_history_wf`) every graph reachable by editing —,
    if the comparator used by the save is, on each node's dependency names, a strict total order that puts
    `P.i` before `P.j` whenever i < j, and at most one File/Image parameter carries a payload:
    loading the saved file into a fresh application succeeds and yields the graph itself, up to `norm`
    (a parameter's applied value becomes its current `Value()`): same nodes, ids and types, same scalar wiring,
    the same array contents IN THE SAME ORDER, same parameters, producers, metadata and header. -/
theorem decode_encode {E : Env V J} (hE : EnvOK E) {cmp : Name → Name → Bool} {g : Graph V} (hw : WF E g)
    (hc : ∀ n ∈ g.nodes, ∀ T, E.types n.ty = some T → CmpOK cmp T n) (hf : FilePayloadLast E g) :
    decode E Hdr.empty (encode E cmp g) = .ok g.norm := by
  unfold decode encode
  simp only [bind, Except.bind]
  rw [decodeNodes_encode hE hw hc g.nodes (fun _ h => h) hf, decodeProds_encode hw g.prods hw.prods, applyHdr_empty]
  rfl

/-- what `norm` keeps: everything observable.  Ids, types, the wiring functions (array order included), name,
    description, `Value()`, default and CLI binding of every parameter; producers, metadata, header. -/
theorem norm_same (g : Graph V) :
    g.norm.nodes.map (·.id) = g.nodes.map (·.id) ∧ g.norm.nodes.map (·.ty) = g.nodes.map (·.ty) ∧
    g.norm.nodes.map (·.scal) = g.nodes.map (·.scal) ∧ g.norm.nodes.map (·.arrs) = g.nodes.map (·.arrs) ∧
    g.norm.nodes.map (fun n => n.par.map Param.view) = g.nodes.map (fun n => n.par.map Param.view) ∧
    g.norm.prods = g.prods ∧ g.norm.md = g.md ∧ g.norm.hdr = g.hdr := by
  refine ⟨?_, ?_, ?_, ?_, ?_, rfl, rfl, rfl⟩ <;> simp only [Graph.norm, List.map_map] <;> apply List.map_congr_left <;>
    intro n _ <;> simp only [Function.comp, Node.norm]
  cases n.par with
  | none => rfl
  | some p => simp [Param.view, Param.norm_value]; simp [Param.norm]

/-- Saving the reloaded graph reproduces the file, at schema level: `encode (decode (encode g)) = encode g`.
    (encoding/json writes object keys sorted and jbtf lays the buffer out from the same data, so equal schemas are
    equal bytes — that last step is the trusted one, observed by the `bytes_identical` oracle.) -/
theorem encode_idempotent {E : Env V J} (hE : EnvOK E) {cmp : Name → Name → Bool} {g : Graph V} (hw : WF E g)
    (hc : ∀ n ∈ g.nodes, ∀ T, E.types n.ty = some T → CmpOK cmp T n) (hf : FilePayloadLast E g) :
    (decode E Hdr.empty (encode E cmp g)).map (encode E cmp) = .ok (encode E cmp g) := by
  rw [decode_encode hE hw hc hf]
  simp only [Except.map, encode, Graph.norm, List.map_map]
  congr 2
  apply List.map_congr_left
  intro n _
  exact encodeNode_norm E cmp n

/-- the order in which Go ranges over its node map does not matter: encoding is per node -/
theorem encode_nodes_perm (E : Env V J) (cmp : Name → Name → Bool) {g g' : Graph V} (h : g.nodes.Perm g'.nodes) :
    (encode E cmp g).nodes.Perm (encode E cmp g').nodes :=
  h.map _

/-- sort.Slice is trusted only to return SOME permutation that is sorted w.r.t. the comparator; under `CmpOK`
    that permutation is unique, so it is the list the model's insertion sort computes -/
theorem sorted_unique {E : Env V J} (hE : EnvOK E) {ty : TyName} {T : NodeType} (hT : E.types ty = some T)
    {cmp : Name → Name → Bool} {n : Node V} (hc : CmpOK cmp T n) {l : List Dep} (hperm : l.Perm (depsOf T n))
    (hsorted : l.Pairwise (fun a b => cmp a.name b.name = true)) :
    l = sortBy (fun a b => cmp a.name b.name) (depsOf T n) :=
  let ⟨hS, hN⟩ := depsOf_strict hE hT hc
  sorted_unique_aux hS hN hperm hsorted

/-! ### the comparator -/

theorem name_code_aux {E : Env V J} (_hE : EnvOK E) {ty : TyName} {T : NodeType} (_hT : E.types ty = some T)
    {n : Node V} (hlen : ∀ p, (n.arrs p).length ≤ 2 ^ 63) {x : Name} (hx : x ∈ (depsOf T n).map (·.name)) :
    ∃ c : Code, c.Valid T ∧ c.render = x := by
  obtain ⟨d, hd, rfl⟩ := List.mem_map.mp hx
  unfold depsOf at hd
  rcases List.mem_append.mp hd with h | h
  · exact ⟨.s d.name, (mem_scalDeps h).1, rfl⟩
  · obtain ⟨p, hp, i, hi, hname, _⟩ := mem_arrDeps h
    exact ⟨.a p i, ⟨hp, Nat.lt_of_lt_of_le hi (hlen p)⟩, hname.symm⟩

/-- `dependencyNameLess` as it is now (numeric-suffix aware) satisfies the hypothesis of `decode_encode`, for every
    node of every type whose input names are dot-free and distinct up to case (Go field names), with any number of
    connections a Go slice can hold — any number of digits: it is a strict total order on the node's dependency
    names and orders `P.i` before `P.j` for all i < j. -/
theorem natural_order_ok {E : Env V J} (hE : EnvOK E) {ty : TyName} {T : NodeType} (hT : E.types ty = some T)
    (hP : PortsOK T) (n : Node V) (hlen : ∀ p, (n.arrs p).length ≤ 2 ^ 63) : CmpOK depLess T n := by
  have hdotS := hE.scalNoDot ty T hT
  have code := fun x hx => name_code_aux (n := n) hE hT hlen (x := x) hx
  refine ⟨⟨?_, ?_, ?_⟩, ?_⟩
  · intro a ha b hb h1 h2
    obtain ⟨ca, va, rfl⟩ := code a ha
    obtain ⟨cb, vb, rfl⟩ := code b hb
    have hS := codeLt_strict hP hdotS [ca, cb] (by intro c hc; simp at hc; rcases hc with rfl | rfl <;> assumption)
    exact hS.asymm ca (by simp) cb (by simp) h1 h2
  · intro a ha b hb c hc h1 h2
    obtain ⟨ca, va, rfl⟩ := code a ha
    obtain ⟨cb, vb, rfl⟩ := code b hb
    obtain ⟨cc, vc, rfl⟩ := code c hc
    have hS := codeLt_strict hP hdotS [ca, cb, cc]
      (by intro c hc; simp at hc; rcases hc with rfl | rfl | rfl <;> assumption)
    exact hS.trans ca (by simp) cb (by simp) cc (by simp) h1 h2
  · intro a ha b hb hne
    obtain ⟨ca, va, rfl⟩ := code a ha
    obtain ⟨cb, vb, rfl⟩ := code b hb
    have hS := codeLt_strict hP hdotS [ca, cb] (by intro c hc; simp at hc; rcases hc with rfl | rfl <;> assumption)
    exact hS.total ca (by simp) cb (by simp) (fun e => hne (e ▸ rfl))
  · intro p hp i j hij hj
    have hj' : j < 2 ^ 63 := Nat.lt_of_lt_of_le hj (hlen p)
    rw [depLess_same_port p i j (by omega) hj']
    simpa using hij

/-- the property's save → load clause for the code as it is: every graph reachable by editing, saved with
    `dependencyNameLess` and loaded into a fresh application, comes back as itself (array order included) -/
theorem decode_encode_natural {E : Env V J} (hE : EnvOK E) (hP : ∀ ty T, E.types ty = some T → PortsOK T)
    (h : Hdr) (ops : List (Op J)) (hlen : ∀ n ∈ (run E (Graph.init h) ops).nodes, ∀ p, (n.arrs p).length ≤ 2 ^ 63)
    (hf : FilePayloadLast E (run E (Graph.init h) ops)) :
    decode E Hdr.empty (encode E depLess (run E (Graph.init h) ops)) = .ok (run E (Graph.init h) ops).norm :=
  decode_encode hE (edit_history_wf hE h ops)
    (fun n hn T hT => natural_order_ok hE hT (hP _ T hT) n (hlen n hn)) hf

/-! ### what the pinned (pre-5b98158) order does to ten or more array entries; what jbtf does to a second payload -/

/-- the lower-cased string order puts `Values.10` before `Values.2`; the numeric-aware one does not -/
theorem lexicographic_misorders : lexLess "Values.10".toList "Values.2".toList = true ∧
    depLess "Values.10".toList "Values.2".toList = false ∧ depLess "Values.2".toList "Values.10".toList = true := by
  decide

/-- witness environment: `P` a value parameter (output type 1), `S` a struct with one array input `Values` (type 1) -/
def wEnv : Env Nat Nat :=
  { types := fun t => if t = "P" then some { out := 1, scal := [], arrs := [], param := some .value }
                      else if t = "S" then some { out := 1, scal := [], arrs := [("Values".toList, 1)], param := none }
                      else none,
    dflt := fun _ => some 0, toJ := id, fromJ := fun _ j => some j, cat := fun a b => a + b }

/-- the 11-connection graph: create `S`, then eleven times create a parameter and connect it to `Values` -/
def wGraph : Graph Nat :=
  run wEnv (Graph.init Hdr.empty)
    (.create "S" :: ((List.range 11).flatMap fun i =>
      [.create "P", .connect (nodeIdOf (i + 1)) "Out" (nodeIdOf 0) "Values.0".toList]))

def valuesOf (g : Graph Nat) : List (List Id) :=
  (g.nodes.filter (fun n => n.ty = "S")).map (fun n => (n.arrs "Values".toList).map (·.node))

def reloadValues (cmp : Name → Name → Bool) (g : Graph Nat) : Option (List (List Id)) :=
  match decode wEnv Hdr.empty (encode wEnv cmp g) with
  | .ok g' => some (valuesOf g')
  | .error _ => none

/-- with the old lower-cased string order, decode ∘ encode scrambles an array input with 11 connections
    (the eleventh, saved as `Values.10`, comes back third); with the repaired order it does not -/
theorem lexicographic_order_breaks :
    reloadValues lexLess wGraph = some [["Node-1", "Node-2", "Node-11", "Node-3", "Node-4", "Node-5", "Node-6",
      "Node-7", "Node-8", "Node-9", "Node-10"]] ∧
    reloadValues lexLess wGraph ≠ some (valuesOf wGraph) ∧
    reloadValues depLess wGraph = some (valuesOf wGraph) := by
  decide

/-- witness environment with one File-like parameter type whose payloads are strings -/
def fEnv : Env (List Char) (List Char) :=
  { types := fun t => if t = "F" then some { out := 2, scal := [], arrs := [], param := some .file } else none,
    dflt := fun _ => none, toJ := id, fromJ := fun _ j => some j, cat := fun a b => a ++ b }

def fGraph : Graph (List Char) :=
  run fEnv (Graph.init Hdr.empty)
    [.create "F", .create "F", .setValue "Node-0" "AAAA".toList, .setValue "Node-1" "BB".toList]

def payloadsOf (g : Graph (List Char)) : List (Option String) :=
  g.nodes.map (fun n => (n.par.bind Param.value).map String.ofList)

/-- KNOWN FINDING C12-file-param-not-last, as a closed term: with two File parameters `AAAA`, `BB`
    (so `FilePayloadLast` fails) the first one reloads as `AAAABB` -/
theorem file_payload_concatenated :
    ¬ FilePayloadLast fEnv fGraph ∧ payloadsOf fGraph = [some "AAAA", some "BB"] ∧
    (match decode fEnv Hdr.empty (encode fEnv depLess fGraph) with
     | .ok g' => some (payloadsOf g')
     | .error _ => none) = some [some "AAAABB", some "BB"] := by
  decide

/-! ### non-vacuity of the hypotheses -/

theorem wEnv_types_aux {ty : TyName} {T : NodeType} (hT : wEnv.types ty = some T) :
    (ty = "P" ∧ T = { out := 1, scal := [], arrs := [], param := some .value }) ∨
    (ty = "S" ∧ T = { out := 1, scal := [], arrs := [("Values".toList, 1)], param := none }) := by
  simp only [wEnv] at hT
  split at hT
  · rename_i h; cases hT; exact Or.inl ⟨h, rfl⟩
  · split at hT
    · rename_i h; cases hT; exact Or.inr ⟨h, rfl⟩
    · cases hT

example : EnvOK wEnv := by
  refine ⟨?_, ?_, ?_, ?_, ?_, ?_, ?_, ?_⟩
  · intro ty T hT; rcases wEnv_types_aux hT with ⟨_, rfl⟩ | ⟨_, rfl⟩ <;> simp
  · intro ty T hT; rcases wEnv_types_aux hT with ⟨_, rfl⟩ | ⟨_, rfl⟩ <;> simp
  · intro ty T hT; rcases wEnv_types_aux hT with ⟨_, rfl⟩ | ⟨_, rfl⟩ <;> simp
  · intro ty T hT; rcases wEnv_types_aux hT with ⟨_, rfl⟩ | ⟨_, rfl⟩ <;> simp <;> decide
  · intro ty T hT; rcases wEnv_types_aux hT with ⟨_, rfl⟩ | ⟨_, rfl⟩ <;> simp
  · intro ty j v h; simp only [wEnv, Option.some.injEq] at h; subst h; rfl
  · intro ty v h; rfl
  · intro ty T hT _; rfl

example : PortsOK ({ out := 1, scal := [], arrs := [("Values".toList, 1)], param := none } : NodeType) := by
  refine ⟨?_, ?_, ?_⟩ <;> simp <;> decide

example : FilePayloadLast wEnv wGraph := by decide

example : (wGraph.nodes.length = 12) ∧ valuesOf wGraph = [["Node-1", "Node-2", "Node-3", "Node-4", "Node-5", "Node-6",
    "Node-7", "Node-8", "Node-9", "Node-10", "Node-11"]] := by decide

end C12
end PolyVerif
