/-
  C12 — a saved graph reloads to the same graph, artifacts and bytes.

  Theorems about `PolyVerif.Model.GraphIO` (model of /repo/generator/graph/instance.go, generator/app.go,
  nodes/struct_node.go SetInput/Dependencies, refutil/reflect.go, generator/sync/sync.go,
  generator/parameter/*.go), tied to the Go code by the `c12` correspondence stream.
  Property theorems only; helper lemmas live in `PolyVerif.Lemmas.GraphIO`.
-/
import PolyVerif.Model.GraphIO
import PolyVerif.Lemmas.GraphIO

namespace PolyVerif
namespace C12
open GraphIO

variable {V J : Type}

/-! ### histories -/

/-- After ANY history of editing operations (create node, connect / disconnect scalar inputs, array add / remove /
    clear, set parameter value / name / description, designate producer, metadata set / delete, delete a node
    nothing depends on — failing operations leave the graph unchanged) started from the empty graph:
    ids are unique and non-empty, every node has a registered type, every reference (wiring and producers)
    resolves to a node of the graph whose output type matches, parameter payloads are re-readable. -/
theorem edit_history_wf {E : Env V J} (hE : EnvOK E) (h : Hdr) (ops : List (Op J)) :
    WF E (run E (Graph.init h) ops) :=
  run_wf hE ops (init_wf h)

/-! ### save → load -/

/-- For every well-formed graph — in particular (`edit_history_wf`) every graph reachable by editing —,
    if the comparator used by the save is, on each node's dependency names, a strict total order that puts
    `P.i` before `P.j` whenever i < j, and at most one File/Image parameter carries a payload:
    loading the saved file into a fresh application succeeds and yields the graph itself, up to `norm`
    (a parameter's applied value becomes its current `Value()`): same nodes, ids and types, same scalar wiring,
    the same array contents IN THE SAME ORDER, same parameters, producers, metadata and header. -/
theorem decode_encode {E : Env V J} (hE : EnvOK E) {cmp : Name → Name → Bool} {g : Graph V} (hw : WF E g)
    (hc : ∀ n ∈ g.nodes, ∀ T, E.types n.ty = some T → CmpOK cmp T n) (hf : FilePayloadLast E g) :
    decode E Hdr.empty (encode E cmp g) = .ok g.norm := by
  unfold decode encode
  simp only [bind, Except.bind]
  rw [decodeNodes_encode hE hw hc g.nodes (fun _ h => h) hf, decodeProds_encode hw g.prods hw.prods, applyHdr_empty]
  rfl

/-- what `norm` keeps: everything observable.  Ids, types, the wiring functions (array order included), name,
    description, `Value()`, default and CLI binding of every parameter; producers, metadata, header. -/
theorem norm_same (g : Graph V) :
    g.norm.nodes.map (·.id) = g.nodes.map (·.id) ∧ g.norm.nodes.map (·.ty) = g.nodes.map (·.ty) ∧
    g.norm.nodes.map (·.scal) = g.nodes.map (·.scal) ∧ g.norm.nodes.map (·.arrs) = g.nodes.map (·.arrs) ∧
    g.norm.nodes.map (fun n => n.par.map Param.view) = g.nodes.map (fun n => n.par.map Param.view) ∧
    g.norm.prods = g.prods ∧ g.norm.md = g.md ∧ g.norm.hdr = g.hdr := by
  refine ⟨?_, ?_, ?_, ?_, ?_, rfl, rfl, rfl⟩ <;> simp only [Graph.norm, List.map_map] <;> apply List.map_congr_left <;>
    intro n _ <;> simp only [Function.comp, Node.norm]
  cases n.par with
  | none => rfl
  | some p => simp [Param.view, Param.norm_value]; simp [Param.norm]

/-- Saving the reloaded graph reproduces the file, at schema level: `encode (decode (encode g)) = encode g`.
    (encoding/json writes object keys sorted and jbtf lays the buffer out from the same data, so equal schemas are
    equal bytes — that last step is the trusted one, observed by the `bytes_identical` oracle.) -/
theorem encode_idempotent {E : Env V J} (hE : EnvOK E) {cmp : Name → Name → Bool} {g : Graph V} (hw : WF E g)
    (hc : ∀ n ∈ g.nodes, ∀ T, E.types n.ty = some T → CmpOK cmp T n) (hf : FilePayloadLast E g) :
    (decode E Hdr.empty (encode E cmp g)).map (encode E cmp) = .ok (encode E cmp g) := by
  rw [decode_encode hE hw hc hf]
  simp only [Except.map, encode, Graph.norm, List.map_map]
  congr 2
  apply List.map_congr_left
  intro n _
  exact encodeNode_norm E cmp n

/-- the order in which Go ranges over its node map does not matter: encoding is per node -/
theorem encode_nodes_perm (E : Env V J) (cmp : Name → Name → Bool) {g g' : Graph V} (h : g.nodes.Perm g'.nodes) :
    (encode E cmp g).nodes.Perm (encode E cmp g').nodes :=
  h.map _

/-- sort.Slice is trusted only to return SOME permutation that is sorted w.r.t. the comparator; under `CmpOK`
    that permutation is unique, so it is the list the model's insertion sort computes -/
theorem sorted_unique {E : Env V J} (hE : EnvOK E) {ty : TyName} {T : NodeType} (hT : E.types ty = some T)
    {cmp : Name → Name → Bool} {n : Node V} (hc : CmpOK cmp T n) {l : List Dep} (hperm : l.Perm (depsOf T n))
    (hsorted : l.Pairwise (fun a b => cmp a.name b.name = true)) :
    l = sortBy (fun a b => cmp a.name b.name) (depsOf T n) :=
  let ⟨hS, hN⟩ := depsOf_strict hE hT hc
  sorted_unique_aux hS hN hperm hsorted

/-! ### the comparator: what the pinned (pre-5b98158) order does to ten or more array entries -/

/-- the lower-cased string order puts `Values.10` before `Values.2`; the numeric-aware one does not -/
theorem lexicographic_misorders : lexLess "Values.10".toList "Values.2".toList = true ∧
    depLess "Values.10".toList "Values.2".toList = false ∧ depLess "Values.2".toList "Values.10".toList = true := by
  decide

end C12
end PolyVerif
