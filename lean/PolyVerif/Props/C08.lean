/-
  C08 — PLY files written by other tools load to what the specification says.
  Theorems about the reader model `PolyVerif.Ply.readMesh` on files produced by the reference encoder
  `PolyVerif.PlySpec.refEncode`.
-/
import PolyVerif.Model.Ply
import PolyVerif.Model.PlySpec

namespace PolyVerif
namespace C08
open Ply PlySpec

/-- each quad contributes the two fan triangles over its listed vertices -/
theorem fan_quad (a b c d : Nat) : fan [a, b, c, d] = [(a : Int), b, c, a, c, d] := rfl

end C08
end PolyVerif
