/-
  C08 — PLY files written by other tools load to what the specification says.

  `PlySpec.SpecFile` describes any file of the property's grammar (any permutation of the vertex properties, alias
  spellings, extra unrecognised scalars, comment / obj_info lines, LF / CRLF header lines, list count type
  uchar|int|uint, index type int|uint, triangles and quads, three encodings); `PlySpec.refEncode` is a reference
  encoder written from the specification and `PlySpec.meaning` the mesh the file denotes.  The `c08` stream checks on
  every run that (1) an independent Go reference encoder produces the same bytes as `refEncode`, (2) the real
  `ply.ReadMesh` and the model reader agree on those bytes, (3) the implementation's result equals `meaning f`.

  Proved here (for ALL inputs): the reader's location arithmetic — for ANY order of the header's properties the
  location computed for a property is the sum of the strides of the properties before it, and decoding there yields
  that property's stored value (binary, both byte orders; ASCII column = header index); header line reading under LF
  and CRLF; quad → fan; the mixed-type-group counterexample.  The composed statement `ply_reads_spec_full` is kept as
  a `def … : Prop` (residue).
-/
import PolyVerif.Model.Ply
import PolyVerif.Model.PlySpec
import PolyVerif.Lemmas.Ply

namespace PolyVerif
namespace C08
open Ply PlySpec PlyLemmas

variable {α : Type}

/-! ### offsets from header order, any permutation -/

/-- binary: the byte offset the reader computes for the property at header position `i` is the sum of the sizes of
the properties before it in HEADER order (whatever that order is) -/
theorem ply_offset_is_prefix_sum (attr name : Bytes) (props : List (Bytes × SType)) (i : Nat) (hi : i < props.length)
    (hname : props[i].1 = name) (hfirst : ∀ j (hj : j < i), (props[j]'(by omega)).1 ≠ name) :
    buildV1 true props attr name =
      some ⟨attr, [name], [((props.take i).map (fun p => p.2.size)).sum], some props[i].2⟩ := by
  have := buildV1_spec true attr name props i hi hname hfirst
  simpa [locOf, stride] using this

/-- ASCII: the column is the header position -/
theorem ply_column_is_header_index (attr name : Bytes) (props : List (Bytes × SType)) (i : Nat) (hi : i < props.length)
    (hname : props[i].1 = name) (hfirst : ∀ j (hj : j < i), (props[j]'(by omega)).1 ≠ name) :
    buildV1 false props attr name = some ⟨attr, [name], [i], none⟩ := by
  have := buildV1_spec false attr name props i hi hname hfirst
  simpa [locOf_ascii props i (by omega)] using this

example : buildV1 true [(nm "b", .uchar), (nm "w", .double), (nm "a", .int)] (nm "a") (nm "a")
    = some ⟨nm "a", [nm "a"], [9], some .int⟩ := by decide

/-- vertex `i` carries exactly the value of record `i`: whatever the order and types of the properties, decoding a
reference-encoded record at the offset computed from the header yields the stored value of that property -/
theorem ply_record_field_any_layout (c : Coding α) (e : Endian) (dim : Nat)
    (tys : List SType) (vals : List α) (rec pre post : Bytes) (i : Nat) (hi : i < tys.length)
    (hv : vals.length = tys.length) (henc : encRecordBin c e tys vals = .ok rec) :
    decScalarBin c e dim tys[i] (pre ++ rec ++ post) (pre.length + offsetOf tys i)
      = .ok (quantBin c dim tys[i] (vals[i]'(by omega))) :=
  field_at_offset c e dim tys vals rec pre post i hi hv henc

/-- an extra unrecognised scalar becomes a scalar attribute read from its own field (binary) -/
theorem ply_unclaimed_scalar_reads_own_field (c : Coding α) (e : Endian) (name : Bytes)
    (props : List (Bytes × SType)) (vals : List α) (rec post : Bytes) (i : Nat) (hi : i < props.length)
    (hname : props[i].1 = name) (hfirst : ∀ j (hj : j < i), (props[j]'(by omega)).1 ≠ name)
    (hv : vals.length = props.length) (henc : encRecordBin c e (props.map (·.2)) vals = .ok rec) :
    ∃ b, buildV1 true props name name = some b ∧ b.attr = name ∧
      b.readBin c e (rec ++ post) = .ok [quantBin c 1 props[i].2 (vals[i]'(by omega))] := by
  refine ⟨_, buildV1_spec true name name props i hi hname hfirst, rfl, ?_⟩
  have h := field_at_offset c e 1 (props.map (·.2)) vals rec [] post i (by simpa using hi) (by simpa using hv) henc
  simp only [List.nil_append, List.length_nil, Nat.zero_add, List.getElem_map] at h
  simp [Built.readBin, locOf_binary, h, pure, Except.pure, bind, Except.bind]

/-! ### header lines: LF and CRLF -/

/-- a header line ended by LF or by CRLF is read as the same line, and reading resumes right after it -/
theorem ply_header_line_lf_crlf (l rest : Bytes) (h : ∀ b ∈ l, b ≠ 10 ∧ b ≠ 13) :
    readLine (l ++ 10 :: rest) = some (l, rest) ∧ readLine (l ++ 13 :: 10 :: rest) = some (l, rest) :=
  ⟨readLine_lf l rest h, readLine_crlf l rest h⟩

/-! ### quads -/

/-- each quad contributes the two fan triangles over its listed vertices (specification side) … -/
theorem fan_quad (a b c d : Nat) : fan [a, b, c, d] = [(a : Int), b, c, a, c, d] := rfl

/-- … and the reader emits exactly those for a 4-entry index list (with the per-corner UVs of the same corners) -/
theorem ply_reader_quad_fan (i0 i1 i2 i3 : Int) (t : List α) (ht : t.length = 8) :
    ∃ uv, emitFace 4 false (⟨[i0, i1, i2, i3], t⟩ : FaceBufs α) = .ok ([i0, i1, i2, i0, i2, i3], uv) := by
  match t, ht with
  | [t0, t1, t2, t3, t4, t5, t6, t7], _ => exact ⟨[], by simp [emitFace]⟩

theorem ply_reader_triangle (i0 i1 i2 i3 : Int) (t : List α) (ht : t.length = 8) :
    ∃ uv, emitFace 3 false (⟨[i0, i1, i2, i3], t⟩ : FaceBufs α) = .ok ([i0, i1, i2], uv) := by
  match t, ht with
  | [t0, t1, t2, t3, t4, t5, t6, t7], _ => exact ⟨[], by simp [emitFace]⟩

/-! ### finding: a recognised group with mixed scalar types is not recognised -/

/-- `x float, y float, z double` (a layout the grammar allows): the position reader is not built, so the three
properties are loaded as three scalar attributes instead of `Position` -/
theorem ply_mixed_type_group_not_claimed (binary : Bool) :
    buildReader binary [(nm "x", .float), (nm "y", .float), (nm "z", .double)]
      ⟨positionAttr, [nm "x", nm "y", nm "z"], false⟩ = none := by
  cases binary <;> decide

/-- with one type the same layout is claimed, in any order of the three properties -/
example : (buildReader true [(nm "z", .float), (nm "x", .float), (nm "y", .float)]
      ⟨positionAttr, [nm "x", nm "y", nm "z"], false⟩).map (·.offs) = some [4, 8, 0] := by decide


/-! ### findings: the ASCII vertex readers do not carry the declared scalar type -/

theorem toInt32_ofInt32 (i : Int) (h : -(2 ^ 31 : Int) ≤ i ∧ i < 2 ^ 31) : toInt32 (ofInt32 i) = i := by
  simp only [toInt32, ofInt32, UInt32.toNat_ofNat']
  split <;> omega

/-- `property int id`: binary loads the stored integer exactly, ASCII loads `ParseFloat(token, 32)` — for
|i| > 2²⁴ that is a different number (witness `c08.holds.ascii_precision_witness`: 16777217 → 16777216) -/
theorem ply_ascii_int_through_float32 (c : Coding α) (e : Endian) (q : Bytes) (i : Int) (x : α)
    (hi : -(2 ^ 31 : Int) ≤ i ∧ i < 2 ^ 31) (hparse : c.parseF (showInt i) = some x) :
    ∃ ba bb, buildV1 false [(q, .int)] q q = some ba ∧ buildV1 true [(q, .int)] q q = some bb ∧
      ba.readAscii c [showInt i] = .ok [x] ∧
      bb.readBin c e (put32 e (ofInt32 i)) = .ok [c.ofInt i] := by
  refine ⟨⟨q, [q], [0], none⟩, ⟨q, [q], [0], some .int⟩, by simp [buildV1, buildV1.go], by simp [buildV1, buildV1.go], ?_, ?_⟩
  · simp [Built.readAscii, hparse, pure, Except.pure, bind, Except.bind]
  · have := put32_get32 e (ofInt32 i) []
    simp at this
    simp [Built.readBin, decScalarBin, this, toInt32_ofInt32 i hi, pure, Except.pure, bind, Except.bind]

/-- `property uchar intensity` (unrecognised scalar): binary loads `b/255`, ASCII loads the raw number
(same root cause as the C04 known finding; witness `c08.holds.uchar_scalar_ascii_witness`) -/
theorem ply_ascii_uchar_scalar_not_normalised (c : Coding α) (e : Endian) (q : Bytes) (k : UInt8) (x : α)
    (hparse : c.parseF (showNat k.toNat) = some x) :
    ∃ ba bb, buildV1 false [(q, .uchar)] q q = some ba ∧ buildV1 true [(q, .uchar)] q q = some bb ∧
      ba.readAscii c [showNat k.toNat] = .ok [x] ∧
      bb.readBin c e [k] = .ok [c.div255 (c.ofInt k.toNat)] := by
  refine ⟨⟨q, [q], [0], none⟩, ⟨q, [q], [0], some .uchar⟩, by simp [buildV1, buildV1.go], by simp [buildV1, buildV1.go], ?_, ?_⟩
  · simp [Built.readAscii, hparse, pure, Except.pure, bind, Except.bind]
  · simp [Built.readBin, decScalarBin, Coding.norm8, pure, Except.pure, bind, Except.bind]

/-! ### the composed statement (residue) -/

/-- representability of the stored values in their declared type and format (so that "the value of record i" is one
value): the theorem's hypothesis, and exactly what the generators guarantee -/
def SpecExact (c : Coding α) (f : SpecFile α) (valEq : α → α → Prop) : Prop :=
  ∀ r ∈ f.verts, ∀ d ∈ r, match f.format, d with
    | .ascii, .u8 b => ∃ x, c.parseF (showNat b.toNat) = some x ∧ valEq x (c.ofInt b.toNat)
    | .ascii, .i32 i => ∃ x, c.parseF (showInt i) = some x ∧ valEq x (c.ofInt i)
    | .ascii, .f32 x => ∃ y, c.parseF (c.showF x) = some y ∧ valEq y x
    | .ascii, .f64 x => ∃ y, c.parseF (c.showF x) = some y ∧ valEq y x
    | _, .f32 x => valEq (c.unf32 (c.f32 x)) x
    | _, .f64 x => valEq (c.unf64 (c.f64 x)) x
    | _, _ => True

/-- the guards of the composed statement, explicit: the class of files inside which the reader is right -/
structure SpecGuards (f : SpecFile α) : Prop where
  /-- property names are pairwise distinct -/
  distinctNames : (f.vprops.map (·.name)).Nodup
  /-- every record has one datum per property, of the property's type -/
  typed : ∀ r ∈ f.verts, r.map Datum.ty = f.vprops.map (·.ty)
  /-- only the scalar types of the grammar -/
  vertexTypes : ∀ p ∈ f.vprops, p.ty = .uchar ∨ p.ty = .int ∨ p.ty = .float ∨ p.ty = .double
  /-- GUARD (finding `ply_mixed_type_group_not_claimed`): one scalar type inside each recognised group -/
  uniformGroups : ∀ g ∈ groups, ∀ ns, groupNames (f.vprops.map (·.name)) g = some ns →
    ∃ t, ∀ p ∈ f.vprops, p.name ∈ ns → p.ty = t
  /-- GUARD (finding `ply_ascii_uchar_scalar_not_normalised`): in ASCII no 8-bit property outside a recognised group -/
  noUcharScalarAscii : f.format = .ascii → ∀ p ∈ f.vprops, p.ty = .uchar →
    ∃ g ∈ groups, ∃ ns, groupNames (f.vprops.map (·.name)) g = some ns ∧ p.name ∈ ns
  /-- `vector2.DivByConstant` multiplies by 1/255 (one ulp off b/255): no 8-bit `s`, `t` -/
  noUcharST : ∀ p ∈ f.vprops, p.name = nm "s" ∨ p.name = nm "t" → p.ty ≠ .uchar
  /-- faces: 3 or 4 vertex numbers, each a vertex of the file; two texture coordinates per listed vertex when
  `texcoord` is declared; list lengths fit the declared count type -/
  faces : ∀ fe, f.face = some fe →
    (fe.cntTy = .uchar ∨ fe.cntTy = .int ∨ fe.cntTy = .uint) ∧ (fe.idxTy = .int ∨ fe.idxTy = .uint) ∧
    ∀ fc ∈ fe.faces, (fc.verts.length = 3 ∨ fc.verts.length = 4) ∧ (∀ v ∈ fc.verts, v < f.verts.length) ∧
      (match fe.tex with | some _ => fc.uv.length = 2 * fc.verts.length | none => fc.uv = []) ∧
      fc.extra.length < 256

/-- every file of the grammar inside the guards, whose stored values are representable in their declared type
(GUARD, finding `ply_ascii_int_through_float32`: in ASCII, representable in float32), loads without error to the mesh
it denotes.  NOT a theorem here (residue); checked on the implementation by `c08.holds.meaning` on every run. -/
def ply_reads_spec_full (c : Coding α) (sameMesh : MeshVal α → MeshVal α → Prop) : Prop :=
  ∀ f : SpecFile α, SpecGuards f → SpecExact c f (· = ·) →
    ∃ m m', readMesh c defaultReader (refEncode c f) = .ok m ∧ meaning c f = some m' ∧ sameMesh m m'

end C08
end PolyVerif
