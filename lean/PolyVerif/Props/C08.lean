/-
  C08 — PLY files written by other tools load to what the specification says.

  `PlySpec.SpecFile` describes any file of the property's grammar (any permutation of the vertex properties, alias
  spellings, extra unrecognised scalars, comment / obj_info lines, LF / CRLF header lines, list count type
  uchar|int|uint, index type int|uint, triangles and quads, three encodings); `PlySpec.refEncode` is a reference
  encoder written from the specification and `PlySpec.meaning` the mesh the file denotes.  The `c08` stream checks on
  every run that (1) an independent Go reference encoder produces the same bytes as `refEncode`, (2) the real
  `ply.ReadMesh` and the model reader agree on those bytes, (3) the implementation's result equals `meaning f`.

  Proved here (for ALL inputs, ARBITRARY coding — the bundle has no laws, statements are about decode∘encode):
  * over the REFERENCE encoding (`Datum.bin`, `specBody`): decoding at the header-computed offset yields the i-th datum for
    any property order / type mix; for representable data that is `Datum.val`; the whole binary vertex block under the
    reader's vertex loop for any list of located readers; an unrecognised property gets its own located scalar reader
    through `addUnclaimed`;
  * scalar-reader location arithmetic (binary prefix sums / ASCII column), LF and CRLF header lines, quad / triangle
    emission with per-corner UVs, rejection of other list sizes;
  * counterexamples (general with `≠` under the stated inequality, and concrete instances): mixed-type group, ASCII `int`
    through float32, ASCII uchar scalar not normalised.
  * the vector claim scan `buildVec` (any permutation, uniform type): built, located at its components.
  NOT proved: the IgnorableW fallback and `buildAll` composition, header keyword parsing from bytes, the face
  loop, mesh assembly = `meaning`, ASCII; the composed statement `ply_reads_spec_full` stays a `def … : Prop`.
-/
import PolyVerif.Model.Ply
import PolyVerif.Model.PlySpec
import PolyVerif.Lemmas.Ply

namespace PolyVerif
namespace C08
open Ply PlySpec PlyLemmas

variable {α : Type}

/-! ### offsets from header order, any permutation -/

/-- binary: the byte offset the reader computes for the property at header position `i` is the sum of the sizes of
the properties before it in HEADER order (whatever that order is) -/
theorem ply_offset_is_prefix_sum (attr name : Bytes) (props : List (Bytes × SType)) (i : Nat) (hi : i < props.length)
    (hname : props[i].1 = name) (hfirst : ∀ j (hj : j < i), (props[j]'(by omega)).1 ≠ name) :
    buildV1 true props attr name =
      some ⟨attr, [name], [((props.take i).map (fun p => p.2.size)).sum], some props[i].2⟩ := by
  have := buildV1_spec true attr name props i hi hname hfirst
  simpa [locOf, stride] using this

/-- ASCII: the column is the header position -/
theorem ply_column_is_header_index (attr name : Bytes) (props : List (Bytes × SType)) (i : Nat) (hi : i < props.length)
    (hname : props[i].1 = name) (hfirst : ∀ j (hj : j < i), (props[j]'(by omega)).1 ≠ name) :
    buildV1 false props attr name = some ⟨attr, [name], [i], none⟩ := by
  have := buildV1_spec false attr name props i hi hname hfirst
  simpa [locOf_ascii props i (by omega)] using this

example : buildV1 true [(nm "b", .uchar), (nm "w", .double), (nm "a", .int)] (nm "a") (nm "a")
    = some ⟨nm "a", [nm "a"], [9], some .int⟩ := by decide

/-! ### the reference encoding under the reader (binary, both byte orders)

These are about `PlySpec.refEncode`'s own field layout (`Datum.bin`, `specBody`) — NOT about the library writer's model. -/

/-- vertex `i` carries exactly the value of record `i`, one field: whatever the order and types of the properties,
decoding the REFERENCE-encoded record at the offset computed from the header types yields the `i`-th datum -/
theorem ply_spec_field_any_layout (c : Coding α) (e : Endian) (dim : Nat) (r : List (Datum α)) (pre post : Bytes)
    (i : Nat) (hi : i < r.length) :
    decScalarBin c e dim r[i].ty (pre ++ (r.map (Datum.bin c e)).flatten ++ post)
      (pre.length + offsetOf (r.map Datum.ty) i) = .ok (datumRead c dim r[i]) :=
  spec_field_at_offset c e dim r pre post i hi

/-- … and for representable data (in-range integer, float32/float64 that survives its own coding; not through the
2-vector reader) the decoded value is the value the datum denotes (`Datum.val`: b/255, i, x) -/
theorem ply_spec_field_value (c : Coding α) (dim : Nat) (hdim : dim ≠ 2) (d : Datum α) (h : Datum.Exact c d) :
    datumRead c dim d = d.val c :=
  datumRead_eq_val c dim hdim d h

example : datumRead toyCoding 3 (.u8 255) = (Datum.u8 255).val toyCoding ∧ (Datum.u8 255).val toyCoding = 1 := by decide
example : Datum.Exact toyCoding (.f32 258) := by show toyCoding.unf32 (toyCoding.f32 258) = 258; decide

/-- THE WHOLE VERTEX BLOCK of a reference-encoded binary file: for any property order / type mix and any number of
records, the reader's vertex loop run on `specBody c f` decodes, record by record, exactly the data of the components
every located reader claims (`rowOf`), and stops exactly where the face data starts -/
theorem ply_spec_vertex_block (c : Coding α) (f : SpecFile α) (hf : f.format ≠ .ascii)
    (htyped : ∀ r ∈ f.verts, r.map Datum.ty = f.vprops.map (·.ty))
    (bl : List (Built × List Nat)) (hbl : ∀ p ∈ bl, Located (f.vprops.map (·.ty)) p.1 p.2) :
    ∃ rest, specBody c f = (f.verts.map (fun r => (r.map (Datum.bin c f.format.endian)).flatten)).flatten ++ rest ∧
      readVertsBin c f.format.endian (((f.vprops.map (·.ty)).map SType.size).sum) (bl.map (·.1)) f.verts.length
        (specBody c f) = .ok (f.verts.map (rowOf c bl), rest) := by
  cases hfmt : f.format with
  | ascii => exact absurd hfmt hf
  | le =>
    refine ⟨_, by simp only [specBody, hfmt]; rfl, ?_⟩
    simp only [specBody, hfmt]
    exact spec_vertex_block c _ _ bl hbl f.verts _ htyped
  | be =>
    refine ⟨_, by simp only [specBody, hfmt]; rfl, ?_⟩
    simp only [specBody, hfmt]
    exact spec_vertex_block c _ _ bl hbl f.verts _ htyped

/-- RECOGNISED GROUPS, any permutation of the header: the claim scan of a 2/3/4-vector reader (x y z, nx ny nz, red
green blue [alpha], s t, …) whose components are the header properties at positions `idx`, all of one scalar type
(GUARD — see `ply_mixed_type_group_not_claimed`), builds a reader located exactly at those properties; with
`ply_spec_vertex_block` its column is, record by record, the data of exactly those components -/
theorem ply_group_reader_located (props : List (Bytes × SType)) (attr : Bytes) (names : List Bytes)
    (hn : names.Nodup) (hne : names ≠ []) (hnd : (props.map (·.1)).Nodup) (t : SType) (idx : List Nat)
    (hlen : idx.length = names.length)
    (hidx : ∀ k (hk : k < names.length), ∃ hi : idx[k]'(by omega) < props.length, props[idx[k]'(by omega)] = (names[k], t)) :
    ∃ b, buildVec true props attr names = some b ∧ b.attr = attr ∧ b.names = names ∧ Located (props.map (·.2)) b idx :=
  buildVec_located props attr names hn hne hnd t idx hlen hidx

/-- the same for the ASCII columns -/
theorem ply_group_columns_any_permutation (props : List (Bytes × SType)) (attr : Bytes) (names : List Bytes)
    (hn : names.Nodup) (hne : names ≠ []) (hnd : (props.map (·.1)).Nodup) (t : SType) (idx : List Nat)
    (hlen : idx.length = names.length)
    (hidx : ∀ k (hk : k < names.length), ∃ hi : idx[k]'(by omega) < props.length, props[idx[k]'(by omega)] = (names[k], t)) :
    buildVec false props attr names = some ⟨attr, names, idx.map (locOf false props), some t⟩ :=
  buildVec_spec false props attr names hn hne hnd t idx hlen hidx

example : (buildVec false [(nm "blue", .uchar), (nm "x", .float), (nm "red", .uchar), (nm "green", .uchar)] colorAttr
    [nm "red", nm "green", nm "blue"]).map (·.offs) = some [2, 3, 0] := by decide

/-- AN UNRECOGNISED PROPERTY GETS A READER, THROUGH `addUnclaimed` (the reader.go:494-512 loop): if none of the readers
built from the configured groups claims the property at header position `i` (names pairwise distinct), the final reader
list contains the scalar reader named after the property, located at the sum of the strides before it … -/
theorem ply_unclaimed_property_gets_reader (binary : Bool) (props : List (Bytes × SType)) (built : List Built)
    (hnd : (props.map (·.1)).Nodup) (i : Nat) (hi : i < props.length)
    (hun : ∀ b ∈ built, b.claims props[i].1 = false) :
    (⟨props[i].1, [props[i].1], [locOf binary props i], if binary then some props[i].2 else none⟩ : Built)
      ∈ addUnclaimed binary props built :=
  addUnclaimed_adds binary props built hnd i hi hun

/-- … and that reader is located at the property's own field, so by `ply_spec_vertex_block` its column is
`datumRead` of the `i`-th datum of every record (an attribute of the property's own name) -/
theorem ply_unclaimed_reader_located (props : List (Bytes × SType)) (i : Nat) (hi : i < props.length) :
    Located (props.map (·.2)) ⟨props[i].1, [props[i].1], [locOf true props i], some props[i].2⟩ [i] where
  ty := ⟨props[i].2, rfl, by intro j hj; simp at hj; subst hj; exact ⟨by simpa using hi, by simp⟩⟩
  offs := by simp [locOf_binary]

example : (⟨nm "q", [nm "q"], [4], some .uchar⟩ : Built) ∈
    addUnclaimed true [(nm "x", .float), (nm "q", .uchar)] [] := by decide

/-! ### header lines: LF and CRLF -/

/-- a header line ended by LF or by CRLF is read as the same line, and reading resumes right after it -/
theorem ply_header_line_lf_crlf (l rest : Bytes) (h : ∀ b ∈ l, b ≠ 10 ∧ b ≠ 13) :
    readLine (l ++ 10 :: rest) = some (l, rest) ∧ readLine (l ++ 13 :: 10 :: rest) = some (l, rest) :=
  ⟨readLine_lf l rest h, readLine_crlf l rest h⟩

/-! ### quads -/

/-- (helper, `rfl` on the specification side) each quad contributes the two fan triangles over its listed vertices … -/
theorem fan_quad (a b c d : Nat) : fan [a, b, c, d] = [(a : Int), b, c, a, c, d] := rfl

/-- … and the reader emits exactly those for a 4-entry index list, with the per-corner texture coordinates of the same
corners: (0,1,2) and (0,2,3) -/
theorem ply_reader_quad_fan (i0 i1 i2 i3 : Int) (t0 t1 t2 t3 t4 t5 t6 t7 : α) :
    emitFace 4 true (⟨[i0, i1, i2, i3], [t0, t1, t2, t3, t4, t5, t6, t7]⟩ : FaceBufs α)
      = .ok ([i0, i1, i2, i0, i2, i3], [[t0, t1], [t2, t3], [t4, t5], [t0, t1], [t4, t5], [t6, t7]]) := by
  simp [emitFace]

theorem ply_reader_triangle (i0 i1 i2 i3 : Int) (t0 t1 t2 t3 t4 t5 t6 t7 : α) :
    emitFace 3 true (⟨[i0, i1, i2, i3], [t0, t1, t2, t3, t4, t5, t6, t7]⟩ : FaceBufs α)
      = .ok ([i0, i1, i2], [[t0, t1], [t2, t3], [t4, t5]]) := by
  simp [emitFace]

/-- without a `texcoord` property no UVs are produced; other list sizes are rejected -/
theorem ply_reader_face_other (points : Int) (b : FaceBufs α) (h : points < 3 ∨ points > 4) :
    emitFace points false b = .error .err ∧ emitFace points true b = .error .err := by
  simp [emitFace, h]

/-! ### finding: a recognised group with mixed scalar types is not recognised -/

/-- `x float, y float, z double` (a layout the grammar allows): the position reader is not built, so the three
properties are loaded as three scalar attributes instead of `Position` -/
theorem ply_mixed_type_group_not_claimed (binary : Bool) :
    buildReader binary [(nm "x", .float), (nm "y", .float), (nm "z", .double)]
      ⟨positionAttr, [nm "x", nm "y", nm "z"], false⟩ = none := by
  cases binary <;> decide

/-- with one type the same layout is claimed, in any order of the three properties -/
example : (buildReader true [(nm "z", .float), (nm "x", .float), (nm "y", .float)]
      ⟨positionAttr, [nm "x", nm "y", nm "z"], false⟩).map (·.offs) = some [4, 8, 0] := by decide


/-! ### findings: the ASCII vertex readers do not carry the declared scalar type -/

theorem toInt32_ofInt32 (i : Int) (h : -(2 ^ 31 : Int) ≤ i ∧ i < 2 ^ 31) : toInt32 (ofInt32 i) = i := by
  simp only [toInt32, ofInt32, UInt32.toNat_ofNat']
  split <;> omega

/-- `property int id`: binary loads the stored integer exactly, ASCII loads `ParseFloat(token, 32)` — for
|i| > 2²⁴ that is a different number (witness `c08.holds.ascii_precision_witness`: 16777217 → 16777216) -/
theorem ply_ascii_int_through_float32 (c : Coding α) (e : Endian) (q : Bytes) (i : Int) (x : α)
    (hi : -(2 ^ 31 : Int) ≤ i ∧ i < 2 ^ 31) (hparse : c.parseF (showInt i) = some x) :
    ∃ ba bb, buildV1 false [(q, .int)] q q = some ba ∧ buildV1 true [(q, .int)] q q = some bb ∧
      ba.readAscii c [showInt i] = .ok [x] ∧
      bb.readBin c e (put32 e (ofInt32 i)) = .ok [c.ofInt i] ∧
      (x ≠ c.ofInt i → ba.readAscii c [showInt i] ≠ bb.readBin c e (put32 e (ofInt32 i))) := by
  have hg := put32_get32 e (ofInt32 i) []
  simp at hg
  refine ⟨⟨q, [q], [0], none⟩, ⟨q, [q], [0], some .int⟩, by simp [buildV1, buildV1.go], by simp [buildV1, buildV1.go], ?_, ?_, ?_⟩
  · simp [Built.readAscii, hparse, pure, Except.pure, bind, Except.bind]
  · simp [Built.readBin, decScalarBin, hg, toInt32_ofInt32 i hi, pure, Except.pure, bind, Except.bind]
  · intro hne
    simp [Built.readAscii, Built.readBin, decScalarBin, hg, toInt32_ofInt32 i hi, hparse, pure, Except.pure, bind, Except.bind, hne]

/-- a real counterexample (concrete coding whose "float32" parser keeps 24 bits: 16777217 → 16777216): the ASCII and the
binary file of `property int id` with the value 16777217 load to different numbers -/
def narrowCoding : Coding Nat := { toyCoding with parseF := fun s => (parseDigits s 0).map (fun n => if n < 2 ^ 24 then n else n / 2 * 2) }

theorem ply_ascii_int_through_float32_concrete :
    ∃ ba bb, buildV1 false [(nm "id", .int)] (nm "id") (nm "id") = some ba ∧ buildV1 true [(nm "id", .int)] (nm "id") (nm "id") = some bb ∧
      ba.readAscii narrowCoding [showInt 16777217] = .ok [16777216] ∧
      bb.readBin narrowCoding .le (put32 .le (ofInt32 16777217)) = .ok [16777217] :=
  ⟨_, _, rfl, rfl, by decide, by decide⟩

/-- `property uchar intensity` (unrecognised scalar): binary loads `b/255`, ASCII loads the raw number
(same root cause as the C04 known finding; witness `c08.holds.uchar_scalar_ascii_witness`) -/
theorem ply_ascii_uchar_scalar_not_normalised (c : Coding α) (e : Endian) (q : Bytes) (k : UInt8) (x : α)
    (hparse : c.parseF (showNat k.toNat) = some x) :
    ∃ ba bb, buildV1 false [(q, .uchar)] q q = some ba ∧ buildV1 true [(q, .uchar)] q q = some bb ∧
      ba.readAscii c [showNat k.toNat] = .ok [x] ∧
      bb.readBin c e [k] = .ok [c.div255 (c.ofInt k.toNat)] ∧
      (x ≠ c.div255 (c.ofInt k.toNat) → ba.readAscii c [showNat k.toNat] ≠ bb.readBin c e [k]) := by
  refine ⟨⟨q, [q], [0], none⟩, ⟨q, [q], [0], some .uchar⟩, by simp [buildV1, buildV1.go], by simp [buildV1, buildV1.go], ?_, ?_, ?_⟩
  · simp [Built.readAscii, hparse, pure, Except.pure, bind, Except.bind]
  · simp [Built.readBin, decScalarBin, Coding.norm8, pure, Except.pure, bind, Except.bind]
  · intro hne
    simp [Built.readAscii, Built.readBin, decScalarBin, Coding.norm8, hparse, pure, Except.pure, bind, Except.bind, hne]

/-- a real counterexample: `property uchar intensity` = 255 loads as 255 from ASCII and as 1 from binary -/
theorem ply_ascii_uchar_scalar_not_normalised_concrete :
    ∃ ba bb, buildV1 false [(nm "intensity", .uchar)] (nm "intensity") (nm "intensity") = some ba ∧
      buildV1 true [(nm "intensity", .uchar)] (nm "intensity") (nm "intensity") = some bb ∧
      ba.readAscii toyCoding [showNat 255] = .ok [255] ∧ bb.readBin toyCoding .be [255] = .ok [1] :=
  ⟨_, _, rfl, rfl, by decide, by decide⟩

/-! ### the composed statement (residue) -/

/-- representability of the stored values in their declared type and format (so that "the value of record i" is one
value): the theorem's hypothesis, and exactly what the generators guarantee -/
def SpecExact (c : Coding α) (f : SpecFile α) (valEq : α → α → Prop) : Prop :=
  ∀ r ∈ f.verts, ∀ d ∈ r, match f.format, d with
    | .ascii, .u8 b => ∃ x, c.parseF (showNat b.toNat) = some x ∧ valEq x (c.ofInt b.toNat)
    | .ascii, .i32 i => ∃ x, c.parseF (showInt i) = some x ∧ valEq x (c.ofInt i)
    | .ascii, .f32 x => ∃ y, c.parseF (c.showF x) = some y ∧ valEq y x
    | .ascii, .f64 x => ∃ y, c.parseF (c.showF x) = some y ∧ valEq y x
    | _, .f32 x => valEq (c.unf32 (c.f32 x)) x
    | _, .f64 x => valEq (c.unf64 (c.f64 x)) x
    | _, _ => True

/-- the guards of the composed statement, explicit: the class of files inside which the reader is right -/
structure SpecGuards (f : SpecFile α) : Prop where
  /-- property names are pairwise distinct -/
  distinctNames : (f.vprops.map (·.name)).Nodup
  /-- every record has one datum per property, of the property's type -/
  typed : ∀ r ∈ f.verts, r.map Datum.ty = f.vprops.map (·.ty)
  /-- only the scalar types of the grammar -/
  vertexTypes : ∀ p ∈ f.vprops, p.ty = .uchar ∨ p.ty = .int ∨ p.ty = .float ∨ p.ty = .double
  /-- GUARD (finding `ply_mixed_type_group_not_claimed`): one scalar type inside each recognised group -/
  uniformGroups : ∀ g ∈ groups, ∀ ns, groupNames (f.vprops.map (·.name)) g = some ns →
    ∃ t, ∀ p ∈ f.vprops, p.name ∈ ns → p.ty = t
  /-- GUARD (finding `ply_ascii_uchar_scalar_not_normalised`): in ASCII no 8-bit property outside a recognised group -/
  noUcharScalarAscii : f.format = .ascii → ∀ p ∈ f.vprops, p.ty = .uchar →
    ∃ g ∈ groups, ∃ ns, groupNames (f.vprops.map (·.name)) g = some ns ∧ p.name ∈ ns
  /-- `vector2.DivByConstant` multiplies by 1/255 (one ulp off b/255): no 8-bit `s`, `t` -/
  noUcharST : ∀ p ∈ f.vprops, p.name = nm "s" ∨ p.name = nm "t" → p.ty ≠ .uchar
  /-- faces: 3 or 4 vertex numbers, each a vertex of the file; two texture coordinates per listed vertex when
  `texcoord` is declared; list lengths fit the declared count type -/
  faces : ∀ fe, f.face = some fe →
    (fe.cntTy = .uchar ∨ fe.cntTy = .int ∨ fe.cntTy = .uint) ∧ (fe.idxTy = .int ∨ fe.idxTy = .uint) ∧
    ∀ fc ∈ fe.faces, (fc.verts.length = 3 ∨ fc.verts.length = 4) ∧ (∀ v ∈ fc.verts, v < f.verts.length) ∧
      (match fe.tex with | some _ => fc.uv.length = 2 * fc.verts.length | none => fc.uv = []) ∧
      fc.extra.length < 256

/-- every file of the grammar inside the guards, whose stored values are representable in their declared type
(GUARD, finding `ply_ascii_int_through_float32`: in ASCII, representable in float32), loads without error to the mesh
it denotes.  NOT a theorem here (residue); checked on the implementation by `c08.holds.meaning` on every run. -/
def ply_reads_spec_full (c : Coding α) (sameMesh : MeshVal α → MeshVal α → Prop) : Prop :=
  ∀ f : SpecFile α, SpecGuards f → SpecExact c f (· = ·) →
    ∃ m m', readMesh c defaultReader (refEncode c f) = .ok m ∧ meaning c f = some m' ∧ sameMesh m m'

end C08
end PolyVerif
