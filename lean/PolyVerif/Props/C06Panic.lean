/-
  C06 (round 2) — where the writer can panic.  For a scene that exists in Go (`Representable`: every id is a pointer into
  its heap, except normal / occlusion texture ids, which may be nil), `writeSceneT s = .panic` only if some model's mesh has an
  undeclared topology value (`PrimitiveCount()`), or some model's material is a `PolyformNormal{}` / `PolyformOcclusion{}`
  literal with a nil embedded texture (`AddTexture(nil)`).  So on every other representable scene the writer returns: a file
  or an error.
-/
import PolyVerif.Props.C06Topo

namespace PolyVerif
namespace C06
open Gltf

theorem addTexOpt_error {th : Nat → Option PTexture} {w : W} {o : Option Nat} {e : Err}
    (h : addTexOpt th w o = .error e) : ∃ id, o = some id ∧ th id = none := by
  cases o with
  | none => simp [addTexOpt] at h
  | some id =>
    refine ⟨id, rfl, ?_⟩
    cases ht : th id with
    | none => rfl
    | some t => simp [addTexOpt, ht] at h

theorem addTexList_error {th : Nat → Option PTexture} : ∀ (l : List (String × Nat)) (w : W) (e : Err),
    addTexList th w l = .error e → ∃ kt ∈ l, th kt.2 = none
  | [], w, e, h => by simp [addTexList] at h
  | (k, id) :: r, w, e, h => by
    cases ht : th id with
    | none => exact ⟨(k, id), by simp, ht⟩
    | some t =>
      simp only [addTexList, ht] at h
      split at h
      · rename_i x hx
        obtain ⟨kt, hkt, hn⟩ := addTexList_error r _ x hx
        exact ⟨kt, by simp [hkt], hn⟩
      · cases h

theorem addMatExts_error {th : Nat → Option PTexture} : ∀ (l : List PMatExt) (w : W) (e : Err),
    addMatExts th w l = .error e → ∃ x ∈ l, ∃ kt ∈ x.texs, th kt.2 = none
  | [], w, e, h => by simp [addMatExts] at h
  | x :: r, w, e, h => by
    simp only [addMatExts] at h
    split at h
    · rename_i y hy
      obtain ⟨kt, hkt, hn⟩ := addTexList_error x.texs w y hy
      exact ⟨x, by simp, kt, hkt, hn⟩
    · rename_i w1 tis hy
      split at h
      · rename_i y hy2
        obtain ⟨x', hx', kt, hkt, hn⟩ := addMatExts_error r _ y hy2
        exact ⟨x', by simp [hx'], kt, hkt, hn⟩
      · cases h

/-- `AddMaterial` fails with `.badId` only when one of the texture ids it dereferences is outside the heap -/
theorem addMaterial_badId {th : Nat → Option PTexture} {w : W} {m : PMaterial} (h : addMaterial th w m = .error .badId) :
    (∃ id, (if m.hasPbr then m.baseColorTex else none) = some id ∧ th id = none)
    ∨ (∃ id, (if m.hasPbr then m.metalRoughTex else none) = some id ∧ th id = none)
    ∨ (∃ x ∈ m.exts, ∃ kt ∈ x.texs, th kt.2 = none)
    ∨ (∃ id sc, m.normalTex = some (id, sc) ∧ th id = none)
    ∨ (∃ id sc, m.occlusionTex = some (id, sc) ∧ th id = none) := by
  unfold addMaterial at h
  split at h
  · rename_i k hk
    split at h
    · cases h
    · rename_i hnone
      have := (findIdx_lt _ _ _ _ hk).2
      rw [List.getElem?_eq_none_iff] at hnone
      omega
  · split at h
    · rename_i e he; exact Or.inl (addTexOpt_error he)
    · split at h
      · rename_i e he; exact Or.inr (Or.inl (addTexOpt_error he))
      · split at h
        · rename_i e he; exact Or.inr (Or.inr (Or.inl (addMatExts_error _ _ _ he)))
        · split at h
          · cases h
          · split at h
            · rename_i e he
              obtain ⟨id, hid, hn⟩ := addTexOpt_error he
              cases hnt : m.normalTex with
              | none => simp [hnt] at hid
              | some p =>
                simp only [hnt, Option.map_some, Option.some.injEq] at hid
                exact Or.inr (Or.inr (Or.inr (Or.inl ⟨p.1, p.2, by simp, by rw [hid]; exact hn⟩)))
            · split at h
              · rename_i e he
                obtain ⟨id, hid, hn⟩ := addTexOpt_error he
                cases hnt : m.occlusionTex with
                | none => simp [hnt] at hid
                | some p =>
                  simp only [hnt, Option.map_some, Option.some.injEq] at hid
                  exact Or.inr (Or.inr (Or.inr (Or.inr ⟨p.1, p.2, by simp, by rw [hid]; exact hn⟩)))
              · cases h

/-- the material of model `md` is a nil-texture literal: its normal or occlusion texture id is outside the heap -/
def NilTexLiteral (s : Scene) (md : Model) : Prop :=
  ∃ k pm, md.material = some k ∧ s.matHeap[k]? = some pm
    ∧ ((∃ id sc, pm.normalTex = some (id, sc) ∧ s.texHeap.length ≤ id)
       ∨ (∃ id sc, pm.occlusionTex = some (id, sc) ∧ s.texHeap.length ≤ id))

theorem addModel_badId (s : Scene) (hr : Representable s = true) (w : W) (md : Model) (hmd : md ∈ s.models)
    (h : addModel s w md = .error .badId) : NilTexLiteral s md := by
  unfold Representable at hr
  simp only [Bool.and_eq_true, List.all_eq_true] at hr
  obtain ⟨hmodels, hmats⟩ := hr
  have hmdr := hmodels md hmd
  unfold addModel at h
  split at h
  · cases h
  · rename_i id hid
    split at h
    · rename_i hnone
      simp only [hid, decide_eq_true_eq] at hmdr
      rw [List.getElem?_eq_none_iff] at hnone
      omega
    · rename_i m hm
      split at h
      · cases h
      · split at h
        · rename_i e hg
          injection h with h; subst h
          unfold addModelGate at hg
          split at hg
          · unfold addModelMaterial at hg
            split at hg
            · cases hg
            · rename_i k hk
              split at hg
              · rename_i hnone
                simp only [hk, decide_eq_true_eq] at hmdr
                rw [List.getElem?_eq_none_iff] at hnone
                omega
              · rename_i pm hpm
                split at hg
                · rename_i e he
                  injection hg with hg; subst hg
                  have hpmr := hmats pm (List.mem_of_getElem? hpm)
                  simp only [List.mem_append, Option.mem_toList, List.mem_flatMap, List.mem_map,
                    decide_eq_true_eq] at hpmr
                  have hin : ∀ id, s.texHeap[id]? = none → s.texHeap.length ≤ id := fun id hn => by
                    rw [List.getElem?_eq_none_iff] at hn; exact hn
                  rcases addMaterial_badId he with ⟨id, h1, h2⟩ | ⟨id, h1, h2⟩ | ⟨x, hx, kt, hkt, h2⟩ | h4 | h5
                  · have : id < s.texHeap.length := hpmr id (Or.inl (Or.inl (by
                      by_cases hp : pm.hasPbr = true
                      · simpa [hp] using h1
                      · simp [hp] at h1)))
                    have := hin id h2; omega
                  · have : id < s.texHeap.length := hpmr id (Or.inl (Or.inr (by
                      by_cases hp : pm.hasPbr = true
                      · simpa [hp] using h1
                      · simp [hp] at h1)))
                    have := hin id h2; omega
                  · have : kt.2 < s.texHeap.length := hpmr kt.2 (Or.inr ⟨x, hx, kt, hkt, rfl⟩)
                    have := hin kt.2 h2; omega
                  · obtain ⟨id, sc, h1, h2⟩ := h4
                    exact ⟨k, pm, hk, hpm, Or.inl ⟨id, sc, h1, hin id h2⟩⟩
                  · obtain ⟨id, sc, h1, h2⟩ := h5
                    exact ⟨k, pm, hk, hpm, Or.inr ⟨id, sc, h1, hin id h2⟩⟩
                · cases hg
          · cases hg
        · dsimp only at h
          split at h <;> cases h

theorem addModelT_panic (s : Scene) (hr : Representable s = true) (w : W) (md : Model) (hmd : md ∈ s.models)
    (h : addModelT s w md = .panic) : (∃ m, s.meshOf md = some m ∧ 5 < m.topo) ∨ NilTexLiteral s md := by
  have hl : ∀ r, liftOutcome r = .panic → r = .error .badId := by
    intro r hr
    cases r with
    | ok w' => simp [liftOutcome] at hr
    | error e => cases e <;> simp [liftOutcome] at hr ⊢
  unfold addModelT at h
  split at h
  · rename_i m hm
    by_cases hk : m.topo ≤ 5
    · simp only [PMesh.topoKnown, hk, decide_true, if_true] at h
      exact Or.inr (addModel_badId s hr w md hmd (hl _ h))
    · exact Or.inl ⟨m, hm, by omega⟩
  · exact Or.inr (addModel_badId s hr w md hmd (hl _ h))

theorem addModelsT_panic (s : Scene) (hr : Representable s = true) : ∀ (l : List Model) (w : W),
    (∀ md ∈ l, md ∈ s.models) → addModelsT s w l = .panic →
    ∃ md ∈ l, (∃ m, s.meshOf md = some m ∧ 5 < m.topo) ∨ NilTexLiteral s md
  | [], w, _, h => by simp [addModelsT] at h
  | md :: r, w, hl, h => by
    simp only [addModelsT] at h
    split at h
    · rename_i w1 h1
      obtain ⟨x, hx, hc⟩ := addModelsT_panic s hr r w1 (fun y hy => hl y (by simp [hy])) h
      exact ⟨x, by simp [hx], hc⟩
    · cases h
    · rename_i h1
      exact ⟨md, by simp, addModelT_panic s hr w md (hl md (by simp)) h1⟩

/-- PANICS, characterised.  On a scene that exists in Go the writer panics only because of an undeclared topology value or
    a `PolyformNormal{}` / `PolyformOcclusion{}` literal with a nil embedded texture; on every other representable scene it
    returns (a file or an error). -/
theorem gltf_panic_only_if (s : Scene) (hr : Representable s = true) (h : writeSceneT s = .panic) :
    ∃ md ∈ s.models, (∃ m, s.meshOf md = some m ∧ 5 < m.topo) ∨ NilTexLiteral s md := by
  unfold writeSceneT at h
  split at h
  · split at h <;> cases h
  · cases h
  · rename_i hp
    exact addModelsT_panic s hr s.models {} (fun _ h => h) hp

/-- non-vacuity: the rich scene of `richScene_ok` and the line scene are representable; the nil-normal scene is, and panics -/
example : Representable richScene = true ∧ Representable lineScene = true ∧ Representable nilNormalScene = true := by
  refine ⟨?_, ?_, ?_⟩ <;> decide +kernel

end C06
end PolyVerif
