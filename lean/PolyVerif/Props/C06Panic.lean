/-
  C06 (round 2) — where the writer can panic.  For a scene that exists in Go (`Representable`: every id is a pointer into
  its heap, except normal / occlusion texture ids, which may be nil), `writeSceneT s = .panic` only if some model's mesh has an
  undeclared topology value (`PrimitiveCount()`), or some model's material is a `PolyformNormal{}` / `PolyformOcclusion{}`
  literal with a nil embedded texture (`AddTexture(nil)`).  So on every other representable scene the writer returns: a file
  or an error.
-/
import PolyVerif.Props.C06Topo

namespace PolyVerif
namespace C06
open Gltf

theorem addTexOpt_error {th : Nat → Option PTexture} {w : W} {o : Option Nat} {e : Err}
    (h : addTexOpt th w o = .error e) : ∃ id, o = some id ∧ th id = none := by
  cases o with
  | none => simp [addTexOpt] at h
  | some id =>
    refine ⟨id, rfl, ?_⟩
    cases ht : th id with
    | none => rfl
    | some t => simp [addTexOpt, ht] at h

theorem addTexList_error {th : Nat → Option PTexture} : ∀ (l : List (String × Nat)) (w : W) (e : Err),
    addTexList th w l = .error e → ∃ kt ∈ l, th kt.2 = none
  | [], w, e, h => by simp [addTexList] at h
  | (k, id) :: r, w, e, h => by
    cases ht : th id with
    | none => exact ⟨(k, id), by simp, ht⟩
    | some t =>
      simp only [addTexList, ht] at h
      split at h
      · rename_i x hx
        obtain ⟨kt, hkt, hn⟩ := addTexList_error r _ x hx
        exact ⟨kt, by simp [hkt], hn⟩
      · cases h

theorem addMatExts_error {th : Nat → Option PTexture} : ∀ (l : List PMatExt) (w : W) (e : Err),
    addMatExts th w l = .error e → ∃ x ∈ l, ∃ kt ∈ x.texs, th kt.2 = none
  | [], w, e, h => by simp [addMatExts] at h
  | x :: r, w, e, h => by
    simp only [addMatExts] at h
    split at h
    · rename_i y hy
      obtain ⟨kt, hkt, hn⟩ := addTexList_error x.texs w y hy
      exact ⟨x, by simp, kt, hkt, hn⟩
    · rename_i w1 tis hy
      split at h
      · rename_i y hy2
        obtain ⟨x', hx', kt, hkt, hn⟩ := addMatExts_error r _ y hy2
        exact ⟨x', by simp [hx'], kt, hkt, hn⟩
      · cases h

/-- `AddMaterial` fails with `.badId` only when one of the texture ids it dereferences is outside the heap -/
theorem addMaterial_badId {th : Nat → Option PTexture} {w : W} {m : PMaterial} (h : addMaterial th w m = .error .badId) :
    (∃ id, (if m.hasPbr then m.baseColorTex else none) = some id ∧ th id = none)
    ∨ (∃ id, (if m.hasPbr then m.metalRoughTex else none) = some id ∧ th id = none)
    ∨ (∃ x ∈ m.exts, ∃ kt ∈ x.texs, th kt.2 = none)
    ∨ (∃ id sc, m.normalTex = some (id, sc) ∧ th id = none)
    ∨ (∃ id sc, m.occlusionTex = some (id, sc) ∧ th id = none) := by
  unfold addMaterial at h
  split at h
  · rename_i k hk
    split at h
    · cases h
    · rename_i hnone
      have := (findIdx_lt _ _ _ _ hk).2
      rw [List.getElem?_eq_none_iff] at hnone
      omega
  · split at h
    · rename_i e he; exact Or.inl (addTexOpt_error he)
    · split at h
      · rename_i e he; exact Or.inr (Or.inl (addTexOpt_error he))
      · split at h
        · rename_i e he; exact Or.inr (Or.inr (Or.inl (addMatExts_error _ _ _ he)))
        · split at h
          · cases h
          · split at h
            · rename_i e he
              obtain ⟨id, hid, hn⟩ := addTexOpt_error he
              cases hnt : m.normalTex with
              | none => simp [hnt] at hid
              | some p =>
                simp only [hnt, Option.map_some, Option.some.injEq] at hid
                exact Or.inr (Or.inr (Or.inr (Or.inl ⟨p.1, p.2, by simp, by rw [hid]; exact hn⟩)))
            · split at h
              · rename_i e he
                obtain ⟨id, hid, hn⟩ := addTexOpt_error he
                cases hnt : m.occlusionTex with
                | none => simp [hnt] at hid
                | some p =>
                  simp only [hnt, Option.map_some, Option.some.injEq] at hid
                  exact Or.inr (Or.inr (Or.inr (Or.inr ⟨p.1, p.2, by simp, by rw [hid]; exact hn⟩)))
              · cases h

/-- the material of model `md` is a nil-texture literal: its normal or occlusion texture id is outside the heap -/
def NilTexLiteral (s : Scene) (md : Model) : Prop :=
  ∃ k pm, md.material = some k ∧ s.matHeap[k]? = some pm
    ∧ ((∃ id sc, pm.normalTex = some (id, sc) ∧ s.texHeap.length ≤ id)
       ∨ (∃ id sc, pm.occlusionTex = some (id, sc) ∧ s.texHeap.length ≤ id))

theorem addModel_badId (s : Scene) (hr : Representable s = true) (w : W) (md : Model) (hmd : md ∈ s.models)
    (h : addModel s w md = .error .badId) : NilTexLiteral s md := by
  unfold Representable at hr
  simp only [Bool.and_eq_true, List.all_eq_true] at hr
  obtain ⟨hmodels, hmats⟩ := hr
  have hmdr := hmodels md hmd
  unfold addModel at h
  split at h
  · cases h
  · rename_i id hid
    split at h
    · rename_i hnone
      simp only [hid, decide_eq_true_eq] at hmdr
      rw [List.getElem?_eq_none_iff] at hnone
      omega
    · rename_i m hm
      split at h
      · cases h
      · split at h
        · rename_i e hg
          injection h with h; subst h
          unfold addModelGate at hg
          split at hg
          · unfold addModelMaterial at hg
            split at hg
            · cases hg
            · rename_i k hk
              split at hg
              · rename_i hnone
                simp only [hk, decide_eq_true_eq] at hmdr
                rw [List.getElem?_eq_none_iff] at hnone
                omega
              · rename_i pm hpm
                split at hg
                · rename_i e he
                  injection hg with hg; subst hg
                  have hpmr := hmats pm (List.mem_of_getElem? hpm)
                  simp only [List.mem_append, Option.mem_toList, List.mem_flatMap, List.mem_map,
                    decide_eq_true_eq] at hpmr
                  have hin : ∀ id, s.texHeap[id]? = none → s.texHeap.length ≤ id := fun id hn => by
                    rw [List.getElem?_eq_none_iff] at hn; exact hn
                  rcases addMaterial_badId he with ⟨id, h1, h2⟩ | ⟨id, h1, h2⟩ | ⟨x, hx, kt, hkt, h2⟩ | h4 | h5
                  · have : id < s.texHeap.length := hpmr id (Or.inl (Or.inl (by
                      by_cases hp : pm.hasPbr = true
                      · simpa [hp] using h1
                      · simp [hp] at h1)))
                    have := hin id h2; omega
                  · have : id < s.texHeap.length := hpmr id (Or.inl (Or.inr (by
                      by_cases hp : pm.hasPbr = true
                      · simpa [hp] using h1
                      · simp [hp] at h1)))
                    have := hin id h2; omega
                  · have : kt.2 < s.texHeap.length := hpmr kt.2 (Or.inr ⟨x, hx, kt, hkt, rfl⟩)
                    have := hin kt.2 h2; omega
                  · obtain ⟨id, sc, h1, h2⟩ := h4
                    exact ⟨k, pm, hk, hpm, Or.inl ⟨id, sc, h1, hin id h2⟩⟩
                  · obtain ⟨id, sc, h1, h2⟩ := h5
                    exact ⟨k, pm, hk, hpm, Or.inr ⟨id, sc, h1, hin id h2⟩⟩
                · cases hg
          · cases hg
        · dsimp only at h
          split at h <;> cases h

theorem addModelT_panic (s : Scene) (hr : Representable s = true) (w : W) (md : Model) (hmd : md ∈ s.models)
    (h : addModelT s w md = .panic) : (∃ m, s.meshOf md = some m ∧ 5 < m.topo) ∨ NilTexLiteral s md := by
  have hl : ∀ r, liftOutcome r = .panic → r = .error .badId := by
    intro r hr
    cases r with
    | ok w' => simp [liftOutcome] at hr
    | error e => cases e <;> simp [liftOutcome] at hr ⊢
  unfold addModelT at h
  split at h
  · rename_i m hm
    by_cases hk : m.topo ≤ 5
    · simp only [PMesh.topoKnown, hk, decide_true, Bool.not_true, Bool.false_eq_true, if_false] at h
      split at h
      · cases h
      · exact Or.inr (addModel_badId s hr w md hmd (hl _ h))
    · exact Or.inl ⟨m, hm, by omega⟩
  · exact Or.inr (addModel_badId s hr w md hmd (hl _ h))

theorem addModelsT_panic (s : Scene) (hr : Representable s = true) : ∀ (l : List Model) (w : W),
    (∀ md ∈ l, md ∈ s.models) → addModelsT s w l = .panic →
    ∃ md ∈ l, (∃ m, s.meshOf md = some m ∧ 5 < m.topo) ∨ NilTexLiteral s md
  | [], w, _, h => by simp [addModelsT] at h
  | md :: r, w, hl, h => by
    simp only [addModelsT] at h
    split at h
    · rename_i w1 h1
      obtain ⟨x, hx, hc⟩ := addModelsT_panic s hr r w1 (fun y hy => hl y (by simp [hy])) h
      exact ⟨x, by simp [hx], hc⟩
    · cases h
    · rename_i h1
      exact ⟨md, by simp, addModelT_panic s hr w md (hl md (by simp)) h1⟩

/-- PANICS, characterised.  On a scene that exists in Go the writer panics only because of an undeclared topology value or
    a `PolyformNormal{}` / `PolyformOcclusion{}` literal with a nil embedded texture; on every other representable scene it
    returns (a file or an error). -/
theorem gltf_panic_only_if (s : Scene) (hr : Representable s = true) (h : writeSceneT s = .panic) :
    ∃ md ∈ s.models, (∃ m, s.meshOf md = some m ∧ 5 < m.topo) ∨ NilTexLiteral s md := by
  unfold writeSceneT at h
  split at h
  · split at h <;> cases h
  · cases h
  · rename_i hp
    exact addModelsT_panic s hr s.models {} (fun _ h => h) hp

theorem mem_zip_of_mem_left {α β} : ∀ {l : List α} {r : List β} {a : α}, l.length = r.length → a ∈ l → ∃ b, (a, b) ∈ l.zip r
  | [], _, _, _, h => by cases h
  | _ :: _, [], _, hl, _ => by simp at hl
  | x :: l, y :: r, a, hl, h => by
    simp only [List.mem_cons] at h
    rcases h with rfl | h
    · exact ⟨y, by simp⟩
    · obtain ⟨b, hb⟩ := mem_zip_of_mem_left (l := l) (r := r) (by simpa using hl) h
      exact ⟨b, by simp [hb]⟩

/-- NIL TEXTURE LITERALS ARE NEVER WRITTEN.  If a model that would produce a node (`visible`) has a material whose normal or
    occlusion texture is a literal with a nil embedded pointer, no file is written — whatever the order of the models, also
    when an equal-looking material was tracked before.  (By `gltf_panic_only_if` / the model: the writer panics in
    `AddTexture(nil)`, or an earlier model / the alphaCutoff check returns an error first.) -/
theorem gltf_nil_literal_rejected (s : Scene) (hs : SceneWFT s) (md : Model) (hmd : md ∈ s.visible)
    (hnil : NilTexLiteral s md) : ∀ w, writeSceneT s ≠ .ok w := by
  intro w hT
  have h := ((writeSceneT_ok_iff s w).mp hT).1
  have hd := gltf_dedup_ok s w hs.1 hs.2 h
  have hlen := zip_length (scene_zip_carries s w hs.1 h)
  obtain ⟨n, hn⟩ := mem_zip_of_mem_left (r := w.nodes.take s.visible.length) hlen hmd
  obtain ⟨k, pm, hk, hpm, hlit⟩ := hnil
  unfold dedupOK at hd
  simp only [Bool.and_eq_true] at hd
  have h1 := List.all_eq_true.mp hd.1.1.1.1 (md, n) hn
  have hmat : matOf s md = some pm := by simp [matOf, hk, hpm]
  simp only [hk, hmat] at h1
  split at h1
  · rename_i pm' gm hpm' hgm
    injection hpm' with hpm'; subst hpm'
    unfold matCarried at h1
    simp only [Bool.and_eq_true] at h1
    have hn' := h1.1.1.2
    have ho' := h1.1.2
    have hnone : ∀ id, s.texHeap.length ≤ id → s.texHeap[id]? = none := fun id hid => List.getElem?_eq_none_iff.mpr hid
    rcases hlit with ⟨id, sc, e, hid⟩ | ⟨id, sc, e, hid⟩
    · rw [e] at hn'
      cases hg : gm.normalTex with
      | none => rw [hg] at hn'; simp [scaledCarried] at hn'
      | some p => rw [hg] at hn'; simp [scaledCarried, optCarried, hnone id hid] at hn'
    · rw [e] at ho'
      cases hg : gm.occlusionTex with
      | none => rw [hg] at ho'; simp [scaledCarried] at ho'
      | some p => rw [hg] at ho'; simp [scaledCarried, optCarried, hnone id hid] at ho'
  · cases h1

/-- non-vacuity of `gltf_nil_literal_rejected`: the `PolyformNormal{}` scene satisfies its hypotheses -/
example : SceneWFT nilNormalScene ∧ (∃ md ∈ nilNormalScene.visible, NilTexLiteral nilNormalScene md) := by
  have hv : nilNormalScene.visible = nilNormalScene.models := by decide +kernel
  refine ⟨⟨⟨?_, ?_⟩, ?_⟩, ?_⟩
  · intro m hm; simp only [nilNormalScene, List.mem_singleton] at hm; subst hm; exact exMesh_wf
  · intro md hmd; simp only [nilNormalScene, List.mem_singleton] at hmd; subst hmd; intro t ht; cases ht
  · intro a ha b hb e he
    simp only [nilNormalScene, List.mem_singleton] at ha; subst ha; simp [nilNormalMat] at he
  · rw [hv]
    exact ⟨_, List.mem_singleton.mpr rfl, 0, nilNormalMat, rfl, rfl, Or.inl ⟨0, none, rfl, by simp [nilNormalScene]⟩⟩

/-- non-vacuity: the rich scene of `richScene_ok` and the line scene are representable; the nil-normal scene is, and panics -/
example : Representable richScene = true ∧ Representable lineScene = true ∧ Representable nilNormalScene = true := by
  refine ⟨?_, ?_, ?_⟩ <;> decide +kernel

end C06
end PolyVerif
