/-
  C08 (round 2) — binary MESH files of the reference encoding WITH per-corner texture coordinates (`texcoord` list), from
  FILE BYTES.  Same reader model (`Ply.readMesh`) and encoder (`refEncode`) as the driver's `c08.read` / `c08.encode`.
  Covered: `texcoord` with count type uchar | int | uint and item type float | double, declared before or after the index
  list (itself any of the 3 × 2 count / index types), optional unrecognised list first or last, triangles and quads with
  two coordinates per listed vertex.
-/
import PolyVerif.Props.C08Mesh
import PolyVerif.Lemmas.PlyFacesTex
import PolyVerif.Lemmas.PlyUnweld

namespace PolyVerif
namespace C08
open Ply PlySpec PlyLemmas PlyCompose PlyHeader PlyFaces PlyFacesTex PlyUnweld

variable {α : Type}

structure SpecMeshTexOK (f : SpecFile α) (fe : SpecFaceElem α) (tct tit : SType) : Prop where
  face : f.face = some fe
  tex : fe.tex = some (tct, tit)
  cnt : CountTyOK fe.cntTy
  idx : IndexTyOK fe.idxTy
  texCnt : CountTyOK tct
  texItem : TexTyOK tit
  enc : ∀ fc ∈ fe.faces, FaceTexOK fe fc

/-- TEXTURED MESH FILES FROM FILE BYTES: the reader returns the UNWELDED mesh — `unweld` (every corner of the fan triangles
becomes its own vertex: each attribute gathered through the fan indices, indices 0..k-1; the same expansion `meaning`
performs) of the triangle mesh of `ply_reads_spec_mesh_bytes`, plus `TexCoord` = the per-corner coordinates in file order
(triangle: its 3 corners; quad: the corners of (0,1,2), (0,2,3)), each the float32 (`float`) / float64 (`double`) image of
the stored number.  With `element face 0` the vertices are kept as they are. -/
theorem ply_reads_spec_mesh_tex_bytes (c : Coding α) (f : SpecFile α) (fe : SpecFaceElem α) (tct tit : SType)
    (hok : SpecHeaderOK f) (hf : f.format ≠ .ascii) (hm : SpecMeshTexOK f fe tct tit)
    (hsize : ∀ fc ∈ fe.faces, TriOrQuad fc)
    (htyped : ∀ r ∈ f.verts, r.map Datum.ty = f.vprops.map (·.ty))
    (bl : List (Built × List Nat))
    (hbuilt : bl.map (·.1) = buildAll true (specProps f) defaultReaders true)
    (hloc : ∀ p ∈ bl, Located (f.vprops.map (·.ty)) p.1 p.2) :
    readMesh c defaultReader (refEncode c f)
      = (let mesh := applyColumns ⟨.triangle, fanIdx fe.faces, [], none⟩ (bl.map (·.1)) (f.verts.map (rowOf c bl))
         if fe.faces.isEmpty then .ok mesh else do
           let u ← unweld mesh
           pure (u.set 2 texCoordAttr (texUV c tit fe.faces))) := by
  simp only [readMesh, refEncode, parse_specHeader f hok, bind, Except.bind]
  obtain ⟨rest, hbody, hread⟩ := ply_spec_readback_vertex c f hf htyped bl hbuilt hloc
  have hrest : rest = faceBytes c f.format.endian fe fe.faces := by
    rw [specBody_mesh c f fe hf hm.face] at hbody
    exact (List.append_cancel_left hbody).symm
  have hall : ∀ fc ∈ fe.faces, FaceTexOK fe fc ∧ TriOrQuad fc := fun fc h => ⟨hm.enc fc h, hsize fc h⟩
  have hfaces := readFacesBin_refT c f.format.endian fe tct tit hm.tex hm.cnt hm.idx hm.texCnt hm.texItem fe.faces hall
    ⟨[0, 0, 0, 0], List.replicate 8 (c.ofInt 0)⟩ ⟨rfl, by simp⟩
  have hlen := texUV_length c tit fe fe.faces hall
  rw [hread, faceStage_spec c f fe hm.face, hrest, hfaces, findFaceProps_refT fe _ hm.tex]
  cases hfs : fe.faces with
  | nil => simp [assemble, bind, Except.bind, pure, Except.pure, texUV, fanIdx]
  | cons fc faces =>
    have hpos : 0 < (fanIdx (fc :: faces)).length := fanIdx_pos fc faces (hsize fc (by rw [hfs]; simp))
    rw [hfs] at hlen
    have hcond : 0 < (texUV c tit (fc :: faces)).length ∧ (texUV c tit (fc :: faces)).length = (fanIdx (fc :: faces)).length :=
      ⟨by omega, hlen⟩
    simp only [Option.isNone_some, Bool.false_eq_true, if_false, assemble, bind, Except.bind, pure, Except.pure, hcond,
      List.isEmpty_cons]
    rw [if_pos ⟨hpos, trivial⟩]

/-- TEXTURED MESH FILES LOAD WITHOUT ERROR: when every face lists existing vertices (numbers < the vertex count) the
unweld step cannot fail, and the result is explicit — `corners`: indices 0..k-1, every attribute gathered through the fan
indices (one vertex per fan corner), plus `TexCoord` -/
theorem ply_reads_spec_mesh_tex_loads (c : Coding α) (f : SpecFile α) (fe : SpecFaceElem α) (tct tit : SType)
    (hok : SpecHeaderOK f) (hf : f.format ≠ .ascii) (hm : SpecMeshTexOK f fe tct tit)
    (hsize : ∀ fc ∈ fe.faces, TriOrQuad fc) (hvr : ∀ fc ∈ fe.faces, ∀ v ∈ fc.verts, v < f.verts.length)
    (htyped : ∀ r ∈ f.verts, r.map Datum.ty = f.vprops.map (·.ty))
    (bl : List (Built × List Nat))
    (hbuilt : bl.map (·.1) = buildAll true (specProps f) defaultReaders true)
    (hloc : ∀ p ∈ bl, Located (f.vprops.map (·.ty)) p.1 p.2) :
    readMesh c defaultReader (refEncode c f)
      = .ok (let mesh := applyColumns ⟨.triangle, fanIdx fe.faces, [], none⟩ (bl.map (·.1)) (f.verts.map (rowOf c bl))
             if fe.faces.isEmpty then mesh else (corners mesh).set 2 texCoordAttr (texUV c tit fe.faces)) := by
  have hu := unweld_assembled (bl.map (·.1)) (f.verts.map (rowOf c bl)) fe.faces (by simpa using hvr)
  rw [ply_reads_spec_mesh_tex_bytes c f fe tct tit hok hf hm hsize htyped bl hbuilt hloc]
  simp only [hu]
  cases fe.faces.isEmpty <;> rfl

/-- the specification side, textured: `meaning` performs the same per-corner expansion — whenever it is defined for a
file with at least one face, its indices are 0..k-1 for the k fan corners -/
theorem meaning_tex_indices (c : Coding α) (f : SpecFile α) (fe : SpecFaceElem α) (tt : SType × SType)
    (hface : f.face = some fe) (htex : fe.tex = some tt) (hne : (fanIdx fe.faces).isEmpty = false)
    (m : MeshVal α) (hmean : meaning c f = some m) :
    m.topo = .triangle ∧ m.indices = (List.range (fanIdx fe.faces).length).map Int.ofNat := by
  have hidx : (fe.faces.map (fun fc => fan fc.verts)).flatten = fanIdx fe.faces := rfl
  simp only [meaning, hface, htex, hidx, hne, Bool.false_eq_true, if_false, Option.bind_eq_bind, Option.bind_eq_some_iff,
    pure] at hmean
  obtain ⟨_, _, _, _, _, _, h⟩ := hmean
  injection h with h
  subst h
  exact ⟨rfl, by simp [MeshVal.set]⟩

/-! ### non-vacuity: `exMesh` with a `list uchar double texcoord` declared BEFORE the index list -/

def exTex : SpecFile Nat :=
  { exMesh with face := some exTexFaces }
where exTexFaces : SpecFaceElem Nat :=
  { idxNameShort := true, cntTy := .int, idxTy := .uint, idxAlias := true, tex := some (.uchar, .double), texFirst := true,
    extra := some true,
    faces := [⟨[0, 1, 2], [10, 11, 12, 13, 14, 15], [7, -1]⟩, ⟨[3, 2, 1, 0], [20, 21, 22, 23, 24, 25, 26, 27], []⟩] }

theorem exTex_ok : SpecMeshTexOK exTex exTex.exTexFaces .uchar .double where
  face := rfl
  tex := rfl
  cnt := by decide
  idx := by decide
  texCnt := by decide
  texItem := by decide
  enc := by
    intro fc hfc
    simp only [exTex.exTexFaces, List.mem_cons, List.not_mem_nil, or_false] at hfc
    rcases hfc with rfl | rfl <;> exact ⟨⟨by decide, by decide, by decide, by decide⟩, by decide⟩

/-- every hypothesis is satisfiable: the theorem instantiated on `exTex` -/
example : readMesh toyCoding defaultReader (refEncode toyCoding exTex)
    = (let mesh := applyColumns ⟨.triangle, fanIdx exTex.exTexFaces.faces, [], none⟩ (exBl.map (·.1)) (exTex.verts.map (rowOf toyCoding exBl))
       if exTex.exTexFaces.faces.isEmpty then .ok mesh else do
         let u ← unweld mesh
         pure (u.set 2 texCoordAttr (texUV toyCoding .double exTex.exTexFaces.faces))) :=
  (ply_reads_spec_mesh_tex_bytes toyCoding exTex exTex.exTexFaces .uchar .double
    ⟨by decide, by intro i hi; simp [exTex, exMesh, exFile] at hi, by decide,
      by intro fe h; simp only [exTex, Option.some.injEq] at h; subst h; decide⟩
    (by decide) exTex_ok
    (by
      intro fc hfc
      simp only [exTex.exTexFaces, List.mem_cons, List.not_mem_nil, or_false] at hfc
      rcases hfc with rfl | rfl
      · exact Or.inl rfl
      · exact Or.inr rfl)
    (by decide) exBl (by decide)
    (by
      intro p hp
      simp only [exBl, List.mem_cons, List.not_mem_nil, or_false] at hp
      rcases hp with rfl | rfl
      · exact (locatedNamedB_sound (specProps exTex) _ _ (by decide)).loc
      · exact (locatedNamedB_sound (specProps exTex) _ _ (by decide)).loc))

/-- … and it LOADS (every face of `exTex` lists existing vertices) -/
example : ∃ m, readMesh toyCoding defaultReader (refEncode toyCoding exTex) = .ok m :=
  ⟨_, ply_reads_spec_mesh_tex_loads toyCoding exTex exTex.exTexFaces .uchar .double
    ⟨by decide, by intro i hi; simp [exTex, exMesh, exFile] at hi, by decide,
      by intro fe h; simp only [exTex, Option.some.injEq] at h; subst h; decide⟩
    (by decide) exTex_ok
    (by
      intro fc hfc
      simp only [exTex.exTexFaces, List.mem_cons, List.not_mem_nil, or_false] at hfc
      rcases hfc with rfl | rfl
      · exact Or.inl rfl
      · exact Or.inr rfl)
    (by decide) (by decide) exBl (by decide)
    (by
      intro p hp
      simp only [exBl, List.mem_cons, List.not_mem_nil, or_false] at hp
      rcases hp with rfl | rfl
      · exact (locatedNamedB_sound (specProps exTex) _ _ (by decide)).loc
      · exact (locatedNamedB_sound (specProps exTex) _ _ (by decide)).loc)⟩

/-- `meaning_tex_indices` is not vacuous -/
example : ∃ m, meaning toyCoding exTex = some m ∧ m.indices = [0, 1, 2, 3, 4, 5, 6, 7, 8] := by
  cases h : meaning toyCoding exTex with
  | none => exact absurd h (by decide)
  | some m => exact ⟨m, rfl, (meaning_tex_indices toyCoding exTex exTex.exTexFaces _ rfl rfl rfl m h).2⟩

example : texUV toyCoding .double exTex.exTexFaces.faces
    = [[10, 11], [12, 13], [14, 15], [20, 21], [22, 23], [24, 25], [20, 21], [24, 25], [26, 27]] := by decide

set_option maxRecDepth 10000 in
/-- … and that mesh is what the file denotes (`meaning`), up to attribute order -/
example : (readBody toyCoding defaultReader (specHdr exTex) (specBody toyCoding exTex)).toOption.map MeshVal.canon
    = (meaning toyCoding exTex).map MeshVal.canon := by rfl

end C08
end PolyVerif
