/-
  C06 — glTF/GLB output is structurally loadable and carries exactly the scene data.

  Theorems about the writer model `PolyVerif/Model/Gltf.lean` and the reader-side predicates of
  `PolyVerif/Model/GltfSpec.lean` (the same predicates the driver evaluates on the implementation's output).
  Helper lemmas are `private` or named `*_aux`.
-/
import PolyVerif.Model.GltfSpec
import PolyVerif.Model.GltfDedup

namespace PolyVerif
namespace C06
open Gltf

/-! ### little-endian coding -/

theorem length_leBytes (k n : Nat) : (leBytes k n).length = k := by
  induction k generalizing n with
  | zero => rfl
  | succ k ih => simp [leBytes, ih]

theorem leVal_leBytes (k n : Nat) (h : n < 256 ^ k) : leVal (leBytes k n) = n := by
  induction k generalizing n with
  | zero => simp at h; simp [leBytes, leVal, h]
  | succ k ih =>
    have h2 : n / 256 < 256 ^ k := by
      apply Nat.div_lt_of_lt_mul; rw [Nat.pow_succ] at h; omega
    simp [leBytes, leVal, ih _ h2, UInt8.toNat_ofNat']
    omega

theorem leVal_lt (bs : List UInt8) : leVal bs < 256 ^ bs.length := by
  induction bs with
  | nil => simp [leVal]
  | cons b bs ih =>
    have := b.toNat_lt
    simp only [leVal, List.length_cons, Nat.pow_succ]
    omega

theorem length_encodeComps (s : Nat) (vals : List Nat) : (encodeComps s vals).length = vals.length * s := by
  induction vals with
  | nil => simp [encodeComps]
  | cons v vs ih =>
    simp only [encodeComps, List.flatMap_cons, List.length_append, length_leBytes, List.length_cons] at *
    rw [ih]; rw [Nat.add_mul]; omega

/-- reading back what was written: any component list whose values fit the component size -/
theorem decodeN_encodeComps (s : Nat) (vals : List Nat) (rest : List UInt8) (h : ∀ v ∈ vals, v < 256 ^ s) :
    decodeN s vals.length (encodeComps s vals ++ rest) = vals := by
  induction vals with
  | nil => simp [decodeN]
  | cons v vs ih =>
    have hv := h v (by simp)
    have hvs : ∀ x ∈ vs, x < 256 ^ s := fun x hx => h x (by simp [hx])
    simp only [encodeComps, List.flatMap_cons, List.length_cons, decodeN, List.append_assoc]
    rw [List.take_left' (length_leBytes s v), List.drop_left' (length_leBytes s v), leVal_leBytes s v hv]
    have := ih hvs
    simp only [encodeComps] at this
    rw [this]

end C06
end PolyVerif
