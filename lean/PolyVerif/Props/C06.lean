/-
  C06 — glTF/GLB output is structurally loadable and carries exactly the scene data.

  Theorems about the writer model `PolyVerif/Model/Gltf.lean` and the reader-side predicates of
  `PolyVerif/Model/GltfSpec.lean` (the same predicates the driver evaluates on the implementation's output).
  Helper lemmas are `private` or named `*_aux`.
-/
import PolyVerif.Model.GltfSpec
import PolyVerif.Model.GltfDedup

namespace PolyVerif
namespace C06
open Gltf

/-! ### little-endian coding -/

theorem length_leBytes (k n : Nat) : (leBytes k n).length = k := by
  induction k generalizing n with
  | zero => rfl
  | succ k ih => simp [leBytes, ih]

theorem leVal_leBytes (k n : Nat) (h : n < 256 ^ k) : leVal (leBytes k n) = n := by
  induction k generalizing n with
  | zero => simp at h; simp [leBytes, leVal, h]
  | succ k ih =>
    have h2 : n / 256 < 256 ^ k := by
      apply Nat.div_lt_of_lt_mul; rw [Nat.pow_succ] at h; omega
    simp [leBytes, leVal, ih _ h2, UInt8.toNat_ofNat']
    omega

theorem leVal_lt (bs : List UInt8) : leVal bs < 256 ^ bs.length := by
  induction bs with
  | nil => simp [leVal]
  | cons b bs ih =>
    have := b.toNat_lt
    simp only [leVal, List.length_cons, Nat.pow_succ]
    omega

theorem length_encodeComps (s : Nat) (vals : List Nat) : (encodeComps s vals).length = vals.length * s := by
  induction vals with
  | nil => simp [encodeComps]
  | cons v vs ih =>
    simp only [encodeComps, List.flatMap_cons, List.length_append, length_leBytes, List.length_cons] at *
    rw [ih]; rw [Nat.add_mul]; omega

/-- reading back what was written: any component list whose values fit the component size -/
theorem decodeN_encodeComps (s : Nat) (vals : List Nat) (rest : List UInt8) (h : ∀ v ∈ vals, v < 256 ^ s) :
    decodeN s vals.length (encodeComps s vals ++ rest) = vals := by
  induction vals with
  | nil => simp [decodeN]
  | cons v vs ih =>
    have hv := h v (by simp)
    have hvs : ∀ x ∈ vs, x < 256 ^ s := fun x hx => h x (by simp [hx])
    simp only [encodeComps, List.flatMap_cons, List.length_cons, decodeN, List.append_assoc]
    rw [List.take_left' (length_leBytes s v), List.drop_left' (length_leBytes s v), leVal_leBytes s v hv]
    have := ih hvs
    simp only [encodeComps] at this
    rw [this]

/-! ### GLB container -/

theorem pad4_lt (n : Nat) : pad4 n < 4 := by unfold pad4; omega
theorem pad4_mod (n : Nat) : (n + pad4 n) % 4 = 0 := by unfold pad4; omega

private theorem field_aux (pre x post : List UInt8) (o : Nat) (ho : pre.length = o) (hx : x.length = 4) :
    leVal (((pre ++ (x ++ post)).drop o).take 4) = leVal x := by
  rw [List.drop_left' ho, List.take_left' hx]

private theorem fields_aux (A B C D E R : List UInt8) (hA : A.length = 4) (hB : B.length = 4) (hC : C.length = 4)
    (hD : D.length = 4) (hE : E.length = 4) :
    let f := A ++ (B ++ (C ++ (D ++ (E ++ R))))
    leVal ((f.drop 0).take 4) = leVal A ∧ leVal ((f.drop 4).take 4) = leVal B ∧ leVal ((f.drop 8).take 4) = leVal C
    ∧ leVal ((f.drop 12).take 4) = leVal D ∧ leVal ((f.drop 16).take 4) = leVal E ∧ f.drop 20 = R := by
  intro f
  refine ⟨?_, ?_, ?_, ?_, ?_, ?_⟩
  · exact field_aux [] A _ 0 rfl hA
  · exact field_aux A B _ 4 hA hB
  · have := field_aux (A ++ B) C (D ++ (E ++ R)) 8 (by simp [hA, hB]) hC
    simpa [f, List.append_assoc] using this
  · have := field_aux (A ++ B ++ C) D (E ++ R) 12 (by simp [hA, hB, hC]) hD
    simpa [f, List.append_assoc] using this
  · have := field_aux (A ++ B ++ C ++ D) E R 16 (by simp [hA, hB, hC, hD]) hE
    simpa [f, List.append_assoc] using this
  · have : f = (A ++ B ++ C ++ D ++ E) ++ R := by simp [f, List.append_assoc]
    rw [this, List.drop_left' (by simp [hA, hB, hC, hD, hE])]

def glbTotal (json bin : List UInt8) : Nat :=
  (json.length + pad4 json.length) + (bin.length + pad4 bin.length) + 12 + 8 + (if bin.length + pad4 bin.length > 0 then 8 else 0)

def glbBinPart (bin : List UInt8) : List UInt8 :=
  if bin.length + pad4 bin.length = 0 then [] else
    leBytes 4 (bin.length + pad4 bin.length) ++ (leBytes 4 0x004E4942 ++ ((bin ++ List.replicate (pad4 bin.length) 0x00) ++ []))

/-- the five fixed header words and the JSON chunk, then the BIN part -/
private theorem glbFrame_shape (json bin : List UInt8) :
    glbFrame json bin =
      leBytes 4 0x46546C67 ++ (leBytes 4 2 ++ (leBytes 4 (glbTotal json bin)
        ++ (leBytes 4 (json.length + pad4 json.length) ++ (leBytes 4 0x4E4F534A ++ ((json ++ List.replicate (pad4 json.length) 0x20) ++ glbBinPart bin))))) := by
  simp only [glbFrame, glbTotal, glbBinPart, List.append_assoc]
  split <;> simp

theorem length_glbBinPart (bin : List UInt8) :
    (glbBinPart bin).length = if bin.length > 0 then 8 + (bin.length + pad4 bin.length) else 0 := by
  have := pad4_lt bin.length
  unfold glbBinPart
  by_cases hb : bin.length = 0
  · simp [hb, pad4]
  · have : ¬ (bin.length + pad4 bin.length = 0) := by omega
    rw [if_neg this, if_pos (Nat.pos_of_ne_zero hb)]
    simp [length_leBytes]; omega

/-- total length of a GLB file -/
theorem glb_frame_length (json bin : List UInt8) :
    (glbFrame json bin).length =
      12 + 8 + (json.length + pad4 json.length) + (if bin.length > 0 then 8 + (bin.length + pad4 bin.length) else 0) := by
  rw [glbFrame_shape]
  simp only [List.length_append, length_leBytes, length_glbBinPart, List.length_replicate]
  omega

private theorem glbTotal_eq (json bin : List UInt8) : glbTotal json bin = (glbFrame json bin).length := by
  rw [glb_frame_length]; unfold glbTotal
  have := pad4_lt bin.length
  by_cases hb : bin.length = 0
  · simp [hb, pad4]; omega
  · have h1 : bin.length + pad4 bin.length > 0 := by omega
    simp [h1, Nat.pos_of_ne_zero hb]; omega

/-- a 32-bit little-endian word read back from a file at byte offset `o` -/
def readWord (f : List UInt8) (o : Nat) : Nat := leVal ((f.drop o).take 4)

/-- the header a reader finds in `glbFrame json bin` (32-bit little-endian words read back from the bytes) is consistent
    with the payloads: magic, version 2, declared total = actual file length, JSON chunk length = padded JSON length (a
    multiple of 4) with type `JSON`, followed by the JSON text; the file ends there iff the buffer is empty; what follows is
    `glbBinPart bin`, of the length given; its words are read back from the bytes in `glb_frame_bin`.
    (`frameOK ∘ readFrame` of Model/GltfSpec states the same on a parsed header; it is what `c06.holds.frame` evaluates.) -/
theorem glb_frame (json bin : List UInt8) (hsz : (glbFrame json bin).length < 2 ^ 32) :
    readWord (glbFrame json bin) 0 = 0x46546C67 ∧ readWord (glbFrame json bin) 4 = 2
    ∧ readWord (glbFrame json bin) 8 = (glbFrame json bin).length
    ∧ readWord (glbFrame json bin) 12 = json.length + pad4 json.length ∧ (json.length + pad4 json.length) % 4 = 0
    ∧ readWord (glbFrame json bin) 16 = 0x4E4F534A
    ∧ ((glbFrame json bin).drop 20).take json.length = json
    ∧ (bin.length = 0 → (glbFrame json bin).length = 20 + (json.length + pad4 json.length))
    ∧ (glbFrame json bin).drop (20 + (json.length + pad4 json.length)) = glbBinPart bin
    ∧ (glbBinPart bin).length = (if bin.length > 0 then 8 + (bin.length + pad4 bin.length) else 0)
    ∧ (bin.length + pad4 bin.length) % 4 = 0 := by
  unfold readWord
  have hlen := glb_frame_length json bin
  have h := glbFrame_shape json bin
  have hT := glbTotal_eq json bin
  have hp := pad4_lt bin.length
  have hpj := pad4_lt json.length
  have hm := pad4_mod json.length
  have hmb := pad4_mod bin.length
  obtain ⟨e0, e4, e8, e12, e16, e20⟩ := fields_aux (leBytes 4 0x46546C67) (leBytes 4 2) (leBytes 4 (glbTotal json bin))
    (leBytes 4 (json.length + pad4 json.length)) (leBytes 4 0x4E4F534A)
    ((json ++ List.replicate (pad4 json.length) 0x20) ++ glbBinPart bin)
    (length_leBytes _ _) (length_leBytes _ _) (length_leBytes _ _) (length_leBytes _ _) (length_leBytes _ _)
  rw [← h] at e0 e4 e8 e12 e16 e20
  rw [leVal_leBytes 4 _ (by decide)] at e0 e4 e16
  rw [leVal_leBytes 4 _ (by rw [hT]; simpa using hsz), hT] at e8
  rw [leVal_leBytes 4 _ (by omega)] at e12
  have hdrop : (glbFrame json bin).drop (20 + (json.length + pad4 json.length)) = glbBinPart bin := by
    rw [← List.drop_drop, e20, List.drop_left' (by simp)]
  have hu : ∀ o, leVal (((glbFrame json bin).drop (20 + (json.length + pad4 json.length) + o)).take 4)
      = leVal (((glbBinPart bin).drop o).take 4) := by
    intro o; rw [← List.drop_drop, hdrop]
  refine ⟨e0, e4, e8, e12, hm, e16, ?_, ?_, hdrop, length_glbBinPart bin, hmb⟩
  · rw [e20, List.append_assoc, List.take_left' rfl]
  · intro hb
    rw [hlen, if_neg (by omega)]; omega

private theorem field_aux' (pre x post : List UInt8) (o : Nat) (ho : pre.length = o) (hx : x.length = 4) :
    leVal (((pre ++ (x ++ post)).drop o).take 4) = leVal x := by
  rw [List.drop_left' ho, List.take_left' hx]

private theorem field0_aux (x post : List UInt8) (hx : x.length = 4) :
    leVal (((x ++ post).drop 0).take 4) = leVal x := by
  rw [List.drop_zero, List.take_left' hx]

theorem binpart_words (bin : List UInt8) (hpos : bin.length > 0) (hsz : bin.length + pad4 bin.length < 4294967296) :
    readWord (glbBinPart bin) 0 = bin.length + pad4 bin.length
    ∧ readWord (glbBinPart bin) 4 = 0x004E4942
    ∧ ((glbBinPart bin).drop 8).take bin.length = bin
    ∧ (glbBinPart bin).drop (8 + bin.length) = List.replicate (pad4 bin.length) 0x00 := by
  have hne : ¬ (bin.length + pad4 bin.length = 0) := by omega
  have hval : leVal (leBytes 4 (bin.length + pad4 bin.length)) = bin.length + pad4 bin.length :=
    leVal_leBytes 4 (bin.length + pad4 bin.length) (by omega)
  have hval2 : leVal (leBytes 4 0x004E4942) = 0x004E4942 := leVal_leBytes 4 0x004E4942 (by decide)
  have hbp : glbBinPart bin = leBytes 4 (bin.length + pad4 bin.length) ++ (leBytes 4 0x004E4942 ++ ((bin ++ List.replicate (pad4 bin.length) 0x00) ++ [])) := by
    unfold glbBinPart; rw [if_neg hne]
  have h8 : (leBytes 4 (bin.length + pad4 bin.length) ++ leBytes 4 0x004E4942).length = 8 := by
    rw [List.length_append, length_leBytes, length_leBytes]
  have hbp2 : glbBinPart bin = (leBytes 4 (bin.length + pad4 bin.length) ++ leBytes 4 0x004E4942) ++ (bin ++ (List.replicate (pad4 bin.length) 0x00)) := by
    rw [hbp]; simp only [List.append_assoc, List.append_nil]
  refine ⟨?_, ?_, ?_, ?_⟩
  · unfold readWord
    rw [hbp, field0_aux _ _ (length_leBytes _ _)]
    exact hval
  · unfold readWord
    rw [hbp, field_aux' _ (leBytes 4 0x004E4942) _ 4 (length_leBytes _ _) (length_leBytes _ _)]
    exact hval2
  · rw [hbp2, List.drop_left' h8, List.take_left' rfl]
  · have h8b : ((leBytes 4 (bin.length + pad4 bin.length) ++ leBytes 4 0x004E4942) ++ bin).length = 8 + bin.length := by
      rw [List.length_append, h8]
    rw [hbp2, ← List.append_assoc, List.drop_left' h8b]

/-- BIN chunk of a GLB file with a non-empty buffer, read back from the bytes: directly after the JSON chunk comes the
    chunk length word = padded buffer length (a multiple of 4), the type word `BIN\0`, the buffer itself, then only
    zero padding up to the end of the file -/
theorem glb_frame_bin (json bin : List UInt8) (hsz : (glbFrame json bin).length < 2 ^ 32) (hpos : bin.length > 0) :
    readWord (glbFrame json bin) (20 + (json.length + pad4 json.length)) = bin.length + pad4 bin.length
    ∧ (bin.length + pad4 bin.length) % 4 = 0
    ∧ readWord (glbFrame json bin) (20 + (json.length + pad4 json.length) + 4) = 0x004E4942
    ∧ ((glbFrame json bin).drop (20 + (json.length + pad4 json.length) + 8)).take bin.length = bin
    ∧ (glbFrame json bin).drop (20 + (json.length + pad4 json.length) + (8 + bin.length)) = List.replicate (pad4 bin.length) 0x00
    ∧ (glbFrame json bin).length = 20 + (json.length + pad4 json.length) + 8 + (bin.length + pad4 bin.length) := by
  obtain ⟨_, _, _, _, _, _, _, _, hdrop, _, hmb⟩ := glb_frame json bin hsz
  have hlen := glb_frame_length json bin
  rw [if_pos hpos] at hlen
  have hsz' : (glbFrame json bin).length < 4294967296 := by simpa using hsz
  obtain ⟨w0, w4, w8, wz⟩ := binpart_words bin hpos (by omega)
  refine ⟨?_, hmb, ?_, ?_, ?_, by omega⟩
  · have : readWord (glbFrame json bin) (20 + (json.length + pad4 json.length)) = readWord (glbBinPart bin) 0 := by
      unfold readWord; rw [hdrop, List.drop_zero]
    rw [this, w0]
  · have : readWord (glbFrame json bin) (20 + (json.length + pad4 json.length) + 4) = readWord (glbBinPart bin) 4 := by
      unfold readWord; rw [← List.drop_drop, hdrop]
    rw [this, w4]
  · rw [← List.drop_drop, hdrop, w8]
  · rw [← List.drop_drop, hdrop, wz]

/-! ### min / max folds -/

private theorem foldl_bmin_some (c : Comp) (col : List Nat) (a : Nat) :
    ∃ m, col.foldl (bmin c) (some a) = some m ∧ m ∈ a :: col ∧ ∀ v ∈ a :: col, c.key m ≤ c.key v := by
  induction col generalizing a with
  | nil => exact ⟨a, rfl, by simp, by simp⟩
  | cons v col ih =>
    simp only [List.foldl_cons, bmin]
    by_cases h : c.key v < c.key a
    · rw [if_pos h]
      obtain ⟨m, h1, h2, h3⟩ := ih v
      refine ⟨m, h1, by simp only [List.mem_cons] at h2 ⊢; grind, ?_⟩
      intro x hx
      simp only [List.mem_cons] at hx
      rcases hx with rfl | rfl | hx
      · have := h3 v (by simp); omega
      · exact h3 _ (by simp)
      · exact h3 x (by simp [hx])
    · rw [if_neg h]
      obtain ⟨m, h1, h2, h3⟩ := ih a
      refine ⟨m, h1, by simp only [List.mem_cons] at h2 ⊢; grind, ?_⟩
      intro x hx
      simp only [List.mem_cons] at hx
      rcases hx with rfl | rfl | hx
      · exact h3 _ (by simp)
      · have := h3 a (by simp); omega
      · exact h3 x (by simp [hx])

private theorem foldl_bmax_some (c : Comp) (col : List Nat) (a : Nat) :
    ∃ m, col.foldl (bmax c) (some a) = some m ∧ m ∈ a :: col ∧ ∀ v ∈ a :: col, c.key v ≤ c.key m := by
  induction col generalizing a with
  | nil => exact ⟨a, rfl, by simp, by simp⟩
  | cons v col ih =>
    simp only [List.foldl_cons, bmax]
    by_cases h : c.key a < c.key v
    · rw [if_pos h]
      obtain ⟨m, h1, h2, h3⟩ := ih v
      refine ⟨m, h1, by simp only [List.mem_cons] at h2 ⊢; grind, ?_⟩
      intro x hx
      simp only [List.mem_cons] at hx
      rcases hx with rfl | rfl | hx
      · have := h3 v (by simp); omega
      · exact h3 _ (by simp)
      · exact h3 x (by simp [hx])
    · rw [if_neg h]
      obtain ⟨m, h1, h2, h3⟩ := ih a
      refine ⟨m, h1, by simp only [List.mem_cons] at h2 ⊢; grind, ?_⟩
      intro x hx
      simp only [List.mem_cons] at hx
      rcases hx with rfl | rfl | hx
      · exact h3 _ (by simp)
      · have := h3 a (by simp); omega
      · exact h3 x (by simp [hx])

/-- no infinity among binary32 values (with one, `encoding/json` refuses the document: see `marshalOK`) -/
def NoInf (c : Comp) (col : List Nat) : Prop := ∀ v ∈ col, ¬ (c = .f32 ∧ (v = posInf32 ∨ v = negInf32))

theorem isMinOf_fold (c : Comp) (col : List Nat) (h : NoInf c col) :
    isMinOf c (col.foldl (bmin c) none) col = true := by
  cases col with
  | nil => simp [isMinOf]
  | cons v col =>
    have hv := h v (by simp)
    have : bmin c none v = some v := by
      simp only [bmin]
      split
      · rename_i hc; simp at hc; exact absurd ⟨hc.1, Or.inl hc.2⟩ hv
      · rfl
    rw [List.foldl_cons, this]
    obtain ⟨m, h1, h2, h3⟩ := foldl_bmin_some c col v
    rw [h1]
    simp only [isMinOf, Bool.and_eq_true, List.contains_iff_mem, List.all_eq_true, decide_eq_true_eq]
    exact ⟨h2, h3⟩

theorem isMaxOf_fold (c : Comp) (col : List Nat) (h : NoInf c col) :
    isMaxOf c (col.foldl (bmax c) none) col = true := by
  cases col with
  | nil => simp [isMaxOf]
  | cons v col =>
    have hv := h v (by simp)
    have : bmax c none v = some v := by
      simp only [bmax]
      split
      · rename_i hc; simp at hc; exact absurd ⟨hc.1, Or.inr hc.2⟩ hv
      · rfl
    rw [List.foldl_cons, this]
    obtain ⟨m, h1, h2, h3⟩ := foldl_bmax_some c col v
    rw [h1]
    simp only [isMaxOf, Bool.and_eq_true, List.contains_iff_mem, List.all_eq_true, decide_eq_true_eq]
    exact ⟨h2, h3⟩


/-! ### buffer views tile the buffer -/

/-- the views are laid out back to back from `s` to `e` -/
def Tiles : Nat → List View → Nat → Prop
  | s, [], e => s = e
  | s, v :: vs, e => v.off = s ∧ Tiles (s + v.len) vs e

theorem tiles_append (s e l t : Nat) (vs : List View) (h : Tiles s vs e) :
    Tiles s (vs ++ [{ off := e, len := l, target := t }]) (e + l) := by
  induction vs generalizing s with
  | nil => simp [Tiles] at h ⊢; omega
  | cons v vs ih => exact ⟨h.1, ih _ h.2⟩

theorem tiles_le {s e : Nat} {vs : List View} (h : Tiles s vs e) : s ≤ e := by
  induction vs generalizing s with
  | nil => simp [Tiles] at h; omega
  | cons v vs ih => have := ih h.2; omega

theorem tiles_inside {s e : Nat} {vs : List View} (h : Tiles s vs e) : ∀ v ∈ vs, s ≤ v.off ∧ v.off + v.len ≤ e := by
  induction vs generalizing s with
  | nil => simp
  | cons v vs ih =>
    intro x hx
    simp only [List.mem_cons] at hx
    have hle := tiles_le h.2
    rcases hx with rfl | hx
    · have := h.1; omega
    · have := ih h.2 x hx; omega

theorem tiles_disjoint {s e : Nat} {vs : List View} (h : Tiles s vs e) : pairwiseB viewDisj vs = true := by
  induction vs generalizing s with
  | nil => rfl
  | cons v vs ih =>
    simp only [pairwiseB, Bool.and_eq_true, List.all_eq_true]
    refine ⟨?_, ih h.2⟩
    intro x hx
    have := tiles_inside h.2 x hx
    have := h.1
    simp [viewDisj]; omega

/-! ### reading earlier accessors is not disturbed by later writes -/

theorem decodeN_append (s c : Nat) (xs ys : List UInt8) (h : c * s ≤ xs.length) :
    decodeN s c (xs ++ ys) = decodeN s c xs := by
  induction c generalizing xs with
  | zero => rfl
  | succ c ih =>
    have hs : s ≤ xs.length := by rw [Nat.succ_mul] at h; omega
    simp only [decodeN]
    rw [List.take_append_of_le_length hs, List.drop_append_of_le_length hs]
    rw [ih (xs.drop s) (by rw [Nat.succ_mul] at h; simp; omega)]

theorem decodeAcc_append (buf b : List UInt8) (views vs : List View) (a : Accessor) (d : List Nat)
    (h : decodeAcc buf views a = some d) : decodeAcc (buf ++ b) (views ++ vs) a = some d := by
  unfold decodeAcc at h ⊢
  split at h
  · simp at h
  · rename_i v hv
    have hlt : a.view < views.length := by
      rcases Nat.lt_or_ge a.view views.length with h1 | h1
      · exact h1
      · rw [List.getElem?_eq_none h1] at hv; simp at hv
    rw [List.getElem?_append_left hlt, hv]
    split at h
    · rename_i hle
      simp only [List.length_append]
      rw [if_pos (by omega)]
      injection h with h
      rw [← h, List.drop_append_of_le_length (by omega)]
      congr 1
      apply decodeN_append
      simp only [List.length_drop]
      unfold Accessor.byteLen at hle
      omega
    · simp at h

theorem accOK_append (buf b : List UInt8) (views vs : List View) (a : Accessor)
    (h : accOK buf views a = true) : accOK (buf ++ b) (views ++ vs) a = true := by
  unfold accOK at h ⊢
  split at h
  · rename_i v d hv hd
    have hlt : a.view < views.length := by
      rcases Nat.lt_or_ge a.view views.length with h1 | h1
      · exact h1
      · rw [List.getElem?_eq_none h1] at hv; simp at hv
    rw [List.getElem?_append_left hlt, hv, decodeAcc_append buf b views vs a d hd]
    exact h
  · simp at h

/-! ### the accessor just written reads back exactly the data, and its bounds are the bounds of that data -/

theorem flatten_length_of (dim : Nat) (vecs : List (List Nat)) (h : ∀ v ∈ vecs, v.length = dim) :
    vecs.flatten.length = vecs.length * dim := by
  induction vecs with
  | nil => simp
  | cons v vs ih =>
    simp only [List.flatten_cons, List.length_append, List.length_cons]
    rw [ih (fun x hx => h x (by simp [hx])), h v (by simp), Nat.succ_mul]; omega

theorem chunkN_flatten (dim : Nat) (vecs : List (List Nat)) (h : ∀ v ∈ vecs, v.length = dim) :
    chunkN dim vecs.length vecs.flatten = vecs := by
  induction vecs with
  | nil => rfl
  | cons v vs ih =>
    simp only [List.length_cons, chunkN, List.flatten_cons]
    rw [List.take_left' (h v (by simp)), List.drop_left' (h v (by simp)), ih (fun x hx => h x (by simp [hx]))]

private theorem zip_all_aux (f : Nat → Bound) (p : Bound × Nat → Bool) (l : List Nat) :
    ((l.map f).zip l).all p = l.all (fun j => p (f j, j)) := by
  induction l with
  | nil => rfl
  | cons a l ih => simp [ih]

private theorem mem_column {us : List (List Nat)} {j x : Nat} (h : x ∈ column us j) : ∃ v ∈ us, x ∈ v := by
  simp only [column, List.mem_filterMap] at h
  obtain ⟨v, hv, hx⟩ := h
  exact ⟨v, hv, List.mem_of_getElem? hx⟩

/-- admissible vector data: every vector has `dim` components, every component fits the component type, no binary32
    infinity, and no NaN in a FLOAT VEC4 (the VEC4 loop does not skip NaNs: Go's `math.Min/Max` would make the bound NaN,
    which the model's order-based fold does not reproduce; `encoding/json` refuses such a document anyway) -/
def VecsOK (comp : Comp) (dim : Nat) (vecs : List (List Nat)) : Prop :=
  ∀ v ∈ vecs, v.length = dim ∧ ∀ x ∈ v, x < 256 ^ comp.size ∧ ¬ (comp = .f32 ∧ (x = posInf32 ∨ x = negInf32))
    ∧ ¬ (comp = .f32 ∧ dim = 4 ∧ isNaN32 x = true)

def vecAccessor (view : Nat) (comp : Comp) (dim : Nat) (vecs : List (List Nat)) : Accessor :=
  { view := view, comp := comp, dim := dim, count := vecs.length,
    min := boundsOf (bmin comp) dim (vecs.filter (usable comp dim)),
    max := boundsOf (bmax comp) dim (vecs.filter (usable comp dim)) }

theorem decodeAcc_new (buf bytes : List UInt8) (views : List View) (a : Accessor) (t : Nat) (vals : List Nat)
    (hview : a.view = views.length) (hcount : a.count * a.dim = vals.length)
    (hbytes : bytes = encodeComps a.comp.size vals) (hfit : ∀ v ∈ vals, v < 256 ^ a.comp.size) :
    decodeAcc (buf ++ bytes) (views ++ [{ off := buf.length, len := a.byteLen, target := t }]) a = some vals := by
  unfold decodeAcc
  rw [hview]
  simp only [List.getElem?_concat_length]
  have hl : bytes.length = a.byteLen := by
    rw [hbytes, length_encodeComps, Accessor.byteLen, hcount]
  rw [if_pos (by simp [hl])]
  rw [List.drop_left' rfl, hcount, hbytes]
  have := decodeN_encodeComps a.comp.size vals [] hfit
  simpa using this

theorem boundsOK_vec (view : Nat) (comp : Comp) (dim : Nat) (vecs : List (List Nat)) (h : VecsOK comp dim vecs) :
    boundsOK (vecAccessor view comp dim vecs) vecs.flatten = true := by
  unfold boundsOK
  split
  · rfl
  · simp only [vecAccessor, chunkN_flatten dim vecs (fun v hv => (h v hv).1), boundsOf, List.length_map, List.length_range,
      beq_self_eq_true, Bool.true_and, zip_all_aux, Bool.and_eq_true, List.all_eq_true]
    constructor
    · intro j _
      apply isMinOf_fold
      intro x hx
      obtain ⟨v, hv, hxv⟩ := mem_column hx
      exact ((h v (List.mem_filter.mp hv).1).2 x hxv).2.1
    · intro j _
      apply isMaxOf_fold
      intro x hx
      obtain ⟨v, hv, hxv⟩ := mem_column hx
      exact ((h v (List.mem_filter.mp hv).1).2 x hxv).2.1

theorem accOK_new_vec (buf : List UInt8) (views : List View) (comp : Comp) (dim : Nat) (vecs : List (List Nat))
    (hc : comp = .f32 ∨ comp = .u8) (h : VecsOK comp dim vecs) :
    accOK (buf ++ vecBytes comp vecs)
      (views ++ [{ off := buf.length, len := vecs.length * dim * comp.size, target := 34962 }])
      (vecAccessor views.length comp dim vecs) = true := by
  have hd := decodeAcc_new buf (vecBytes comp vecs) views (vecAccessor views.length comp dim vecs) 34962 vecs.flatten rfl
    (by simp [vecAccessor, flatten_length_of dim vecs (fun v hv => (h v hv).1)])
    (by simp [vecBytes, hc, vecAccessor])
    (by intro x hx
        obtain ⟨v, hv, hxv⟩ := List.mem_flatten.mp hx
        exact ((h v hv).2 x hxv).1)
  have hbl : (vecAccessor views.length comp dim vecs).byteLen = vecs.length * dim * comp.size := rfl
  rw [hbl] at hd
  unfold accOK
  rw [hd]
  have : (vecAccessor views.length comp dim vecs).view = views.length := rfl
  rw [this]
  simp only [List.getElem?_concat_length, hbl, beq_self_eq_true, Bool.true_and]
  exact boundsOK_vec _ comp dim vecs h

/-! ### any sequence of the exported low-level writes -/

inductive Op where
  | vec (comp : Comp) (dim : Nat) (vecs : List (List Nat))     -- WriteVector2/3/4
  | idx (idx : List Nat) (attrSize : Nat)                      -- WriteIndices

def step (w : W) : Op → W
  | .vec c d v => writeVec w c d v
  | .idx i n => writeIndices w i n

def run (w : W) (ops : List Op) : W := ops.foldl step w

/-- the guard under which the writer is used by `AddScene`: vectors are FLOAT or UNSIGNED_BYTE with admissible data,
    indices are smaller than the attribute size they are declared against (well-formed mesh) -/
def OpOK : Op → Prop
  | .vec comp dim vecs => (comp = .f32 ∨ comp = .u8) ∧ VecsOK comp dim vecs
  | .idx idx n => (∀ i ∈ idx, i < n) ∧ n ≤ 2 ^ 32

structure Inv (w : W) : Prop where
  bytes : w.bytesWritten = w.buf.length
  tiles : Tiles 0 w.views w.buf.length
  len : w.accessors.length = w.views.length
  own : ∀ k (h : k < w.accessors.length), w.accessors[k].view = k
  accs : ∀ a ∈ w.accessors, accOK w.buf w.views a = true

theorem inv_empty : Inv {} := ⟨rfl, rfl, rfl, by simp, by simp⟩

private theorem own_append (accs : List Accessor) (a : Accessor) (n : Nat) (hn : accs.length = n) (ha : a.view = n)
    (h : ∀ k (h : k < accs.length), accs[k].view = k) :
    ∀ k (hk : k < (accs ++ [a]).length), (accs ++ [a])[k].view = k := by
  intro k hk
  rw [List.getElem_append]
  split
  · exact h k _
  · simp at hk ⊢; omega

/-- no truncation: the index values fit the width `WriteIndices` chooses (uint16 iff attributeSize ≤ 65535) -/
theorem index_fits (idx : List Nat) (n : Nat) (h : (∀ i ∈ idx, i < n) ∧ n ≤ 2 ^ 32) :
    ∀ i ∈ idx, i < 256 ^ (indexComp n).size := by
  intro i hi
  have := h.1 i hi
  unfold indexComp
  split <;> simp [Comp.size] <;> omega

theorem inv_step (w : W) (op : Op) (hw : Inv w) (hop : OpOK op) : Inv (step w op) := by
  cases op with
  | vec comp dim vecs =>
    obtain ⟨hc, hv⟩ := hop
    have hnew := accOK_new_vec w.buf w.views comp dim vecs hc hv
    have hbl : (vecBytes comp vecs).length = vecs.length * dim * comp.size := by
      simp [vecBytes, hc, length_encodeComps, flatten_length_of dim vecs (fun v h => (hv v h).1)]
    refine ⟨?_, ?_, ?_, ?_, ?_⟩
    · simp [step, writeVec, hw.bytes, hbl]
    · simp only [step, writeVec, List.length_append, hbl, hw.bytes]
      exact tiles_append 0 _ _ _ _ hw.tiles
    · simp [step, writeVec, hw.len]
    · exact own_append _ _ _ hw.len rfl hw.own
    · intro a ha
      simp only [step, writeVec, List.mem_append, List.mem_singleton] at ha
      rcases ha with ha | rfl
      · exact accOK_append _ _ _ _ a (hw.accs a ha)
      · simp only [step, writeVec, hw.bytes]; exact hnew
  | idx idx n =>
    have hfit := index_fits idx n hop
    let a : Accessor := { view := w.views.length, comp := indexComp n, dim := 1, count := idx.length, min := [], max := [] }
    have hd := decodeAcc_new w.buf (encodeComps (indexComp n).size idx) w.views a 34963 idx rfl (by simp [a]) rfl hfit
    have hbl : a.byteLen = idx.length * (indexComp n).size := by simp [a, Accessor.byteLen]
    rw [hbl] at hd
    refine ⟨?_, ?_, ?_, ?_, ?_⟩
    · simp [step, writeIndices, hw.bytes, length_encodeComps]
    · simp only [step, writeIndices, List.length_append, length_encodeComps, hw.bytes]
      exact tiles_append 0 _ _ _ _ hw.tiles
    · simp [step, writeIndices, hw.len]
    · exact own_append _ _ _ hw.len rfl hw.own
    · intro x hx
      simp only [step, writeIndices, List.mem_append, List.mem_singleton] at hx
      rcases hx with hx | rfl
      · exact accOK_append _ _ _ _ x (hw.accs x hx)
      · simp only [step, writeIndices, hw.bytes]
        unfold accOK
        rw [hd]
        simp [boundsOK, Accessor.byteLen]

theorem inv_run (w : W) (ops : List Op) (hw : Inv w) (hops : ∀ op ∈ ops, OpOK op) : Inv (run w ops) := by
  induction ops generalizing w with
  | nil => exact hw
  | cons op ops ih =>
    exact ih (step w op) (inv_step w op hw (hops op (by simp))) (fun o ho => hops o (by simp [ho]))

/-! ### property theorems: any admissible sequence of low-level writes -/

/-- the running offset equals the buffer length -/
theorem gltf_bytesWritten_eq_len (ops : List Op) (h : ∀ op ∈ ops, OpOK op) :
    (run {} ops).bytesWritten = (run {} ops).buf.length := (inv_run {} ops inv_empty h).bytes

/-- buffer views are contiguous from 0 to the end of the buffer, hence pairwise disjoint and inside the buffer -/
theorem gltf_views_tile (ops : List Op) (h : ∀ op ∈ ops, OpOK op) :
    Tiles 0 (run {} ops).views (run {} ops).buf.length
    ∧ pairwiseB viewDisj (run {} ops).views = true
    ∧ ∀ v ∈ (run {} ops).views, viewInside (run {} ops).buf.length v = true := by
  have hi := inv_run {} ops inv_empty h
  refine ⟨hi.tiles, tiles_disjoint hi.tiles, ?_⟩
  intro v hv
  have := tiles_inside hi.tiles v hv
  simp [viewInside]; omega

/-- accessor `k` reads view `k`, and `count · elemSize` is exactly that view's byte length -/
theorem gltf_accessor_fits (ops : List Op) (h : ∀ op ∈ ops, OpOK op) (k : Nat) (hk : k < (run {} ops).accessors.length) :
    ∃ v, (run {} ops).views[k]? = some v ∧ (run {} ops).accessors[k].view = k
      ∧ (run {} ops).accessors[k].count * (run {} ops).accessors[k].dim * (run {} ops).accessors[k].comp.size = v.len := by
  have hi := inv_run {} ops inv_empty h
  have hok := hi.accs _ (List.getElem_mem hk)
  have hown := hi.own k hk
  unfold accOK at hok
  rw [hown] at hok
  split at hok
  · rename_i v d hv hd
    refine ⟨v, hv, hown, ?_⟩
    simp only [Bool.and_eq_true, beq_iff_eq] at hok
    exact hok.1
  · simp at hok

/-- every accessor can be read (its data lie inside the buffer) and its declared min/max are the component-wise
    bounds of the STORED values it reads (vectors containing a NaN excluded in the VEC2/VEC3 float case) -/
theorem gltf_minmax (ops : List Op) (h : ∀ op ∈ ops, OpOK op) (a : Accessor) (ha : a ∈ (run {} ops).accessors) :
    ∃ d, decodeAcc (run {} ops).buf (run {} ops).views a = some d ∧ boundsOK a d = true := by
  have hok := (inv_run {} ops inv_empty h).accs a ha
  unfold accOK at hok
  split at hok
  · rename_i v d hv hd
    simp only [Bool.and_eq_true] at hok
    exact ⟨d, hd, hok.2⟩
  · simp at hok

private theorem run_extends (w : W) (ops : List Op) :
    ∃ b vs as, (run w ops).buf = w.buf ++ b ∧ (run w ops).views = w.views ++ vs ∧ (run w ops).accessors = w.accessors ++ as := by
  induction ops generalizing w with
  | nil => exact ⟨[], [], [], by simp [run]⟩
  | cons op ops ih =>
    obtain ⟨b, vs, as, h1, h2, h3⟩ := ih (step w op)
    cases op with
    | vec c d v => exact ⟨_, _, _, by rw [run, List.foldl_cons, ← run, h1]; simp [step, writeVec, List.append_assoc]; rfl,
        by rw [run, List.foldl_cons, ← run, h2]; simp [step, writeVec, List.append_assoc]; rfl,
        by rw [run, List.foldl_cons, ← run, h3]; simp [step, writeVec, List.append_assoc]; rfl⟩
    | idx i n => exact ⟨_, _, _, by rw [run, List.foldl_cons, ← run, h1]; simp [step, writeIndices, List.append_assoc]; rfl,
        by rw [run, List.foldl_cons, ← run, h2]; simp [step, writeIndices, List.append_assoc]; rfl,
        by rw [run, List.foldl_cons, ← run, h3]; simp [step, writeIndices, List.append_assoc]; rfl⟩

/-- decoding: after `WriteVectorN(comp, data)` — and after ANY further writes — the accessor it created is at the
    position recorded by the caller (`len(w.accessors)` before the call) and reads back exactly the stored image of
    `data` (binary32 patterns / bytes, in order) -/
theorem gltf_decode_image (w : W) (hw : Inv w) (comp : Comp) (dim : Nat) (vecs : List (List Nat))
    (hop : OpOK (.vec comp dim vecs)) (later : List Op) :
    (run (step w (.vec comp dim vecs)) later).accessors[w.accessors.length]? = some (vecAccessor w.views.length comp dim vecs)
    ∧ decodeAcc (run (step w (.vec comp dim vecs)) later).buf (run (step w (.vec comp dim vecs)) later).views
        (vecAccessor w.views.length comp dim vecs) = some vecs.flatten := by
  obtain ⟨b, vs, as, h1, h2, h3⟩ := run_extends (step w (.vec comp dim vecs)) later
  rw [h1, h2, h3]
  constructor
  · simp [step, writeVec, vecAccessor]
  · apply decodeAcc_append
    have hnew := accOK_new_vec w.buf w.views comp dim vecs hop.1 hop.2
    simp only [step, writeVec, hw.bytes]
    unfold accOK at hnew
    split at hnew
    · rename_i v d hv hd
      have hd2 := decodeAcc_new w.buf (vecBytes comp vecs) w.views (vecAccessor w.views.length comp dim vecs) 34962 vecs.flatten rfl
        (by simp [vecAccessor, flatten_length_of dim vecs (fun v hv => (hop.2 v hv).1)])
        (by simp [vecBytes, hop.1, vecAccessor])
        (by intro x hx
            obtain ⟨v, hv, hxv⟩ := List.mem_flatten.mp hx
            exact ((hop.2 v hv).2 x hxv).1)
      exact hd2
    · simp at hnew

/-- decoding of indices: after `WriteIndices(idx, attributeSize)` with every index `< attributeSize ≤ 2³²` — and after any
    further writes — the index accessor reads back exactly `idx` (no truncation in either width) -/
theorem gltf_decode_indices (w : W) (hw : Inv w) (idx : List Nat) (n : Nat) (hop : OpOK (.idx idx n)) (later : List Op) :
    let a : Accessor := { view := w.views.length, comp := indexComp n, dim := 1, count := idx.length, min := [], max := [] }
    (run (step w (.idx idx n)) later).accessors[w.accessors.length]? = some a
    ∧ decodeAcc (run (step w (.idx idx n)) later).buf (run (step w (.idx idx n)) later).views a = some idx := by
  intro a
  obtain ⟨b, vs, as, h1, h2, h3⟩ := run_extends (step w (.idx idx n)) later
  rw [h1, h2, h3]
  constructor
  · simp [step, writeIndices, a]
  · apply decodeAcc_append
    have hd := decodeAcc_new w.buf (encodeComps (indexComp n).size idx) w.views a 34963 idx rfl (by simp [a]) rfl (index_fits idx n hop)
    have hbl : a.byteLen = idx.length * (indexComp n).size := by simp [a, Accessor.byteLen]
    rw [hbl] at hd
    simp only [step, writeIndices, hw.bytes]
    exact hd

/-- index width: uint16 is chosen exactly when the attribute size is at most 65535, and then (indices of a well-formed
    mesh being smaller than the attribute size) every index is `< 65536` -/
theorem gltf_index_width (idx : List Nat) (n : Nat) (hwf : ∀ i ∈ idx, i < n) :
    (indexComp n = .u16 ↔ n ≤ 65535) ∧ (indexComp n = .u16 → ∀ i ∈ idx, i < 65536) := by
  unfold indexComp
  constructor
  · split <;> simp <;> omega
  · split
    · simp
    · intro _ i hi; have := hwf i hi; omega

/-! ### component alignment: false in general, true under a guard -/

/-- the full alignment clause of the property, for any admissible sequence of writes (FALSE of the code and of the
    model: `gltf_alignment_counterexample`) -/
def C06_alignment : Prop := ∀ ops : List Op, (∀ op ∈ ops, OpOK op) → aligned (run {} ops).doc = true

/-- what `AddScene` does for two models with one triangle each: 36 bytes of positions, 6 bytes of uint16 indices — the
    second mesh's float data start at byte 42 -/
def alignmentWitness : List Op :=
  [.vec .f32 3 [[0, 0, 0], [0, 0x3f800000, 0], [0x3f800000, 0, 0]], .idx [0, 1, 2] 3,
   .vec .f32 3 [[0, 0, 0x3f800000], [0, 0x3f800000, 0x3f800000], [0x3f800000, 0, 0x3f800000]], .idx [0, 1, 2] 3]

theorem alignmentWitness_offsets : (run {} alignmentWitness).views.map (·.off) = [0, 36, 42, 78] := by
  simp [alignmentWitness, run, step, writeVec, writeIndices, indexComp, Comp.size]

theorem alignmentWitness_ok : ∀ op ∈ alignmentWitness, OpOK op := by
  intro op hop
  simp only [alignmentWitness, List.mem_cons, List.mem_nil_iff, or_false] at hop
  rcases hop with rfl | rfl | rfl | rfl <;>
    simp [OpOK, VecsOK, Comp.size, posInf32, negInf32, isNaN32]

theorem gltf_alignment_counterexample : ¬ C06_alignment := by
  intro h
  have := h alignmentWitness alignmentWitness_ok
  simp [alignmentWitness, run, step, writeVec, writeIndices, indexComp, Comp.size, aligned, W.doc] at this


def alignedAcc (views : List View) (a : Accessor) : Bool :=
  match views[a.view]? with
  | none => false
  | some v => v.off % a.comp.size == 0
      && (v.target != 34962 || (v.off % 4 == 0 && (a.dim * a.comp.size) % 4 == 0))

theorem aligned_eq (d : Doc) : aligned d = d.accessors.all (alignedAcc d.views) := rfl

/-- the exact guard of the partial theorem: no byte-typed vectors, and every index block has a byte length divisible
    by 4 (an even number of uint16 indices, or uint32 indices) -/
def AlignedOp : Op → Prop
  | .vec comp _ _ => comp = .f32
  | .idx idx n => (idx.length * (indexComp n).size) % 4 = 0

private structure AInv (w : W) : Prop where
  bw : w.bytesWritten % 4 = 0
  accs : ∀ a ∈ w.accessors, alignedAcc w.views a = true

private theorem alignedAcc_append (views vs : List View) (a : Accessor) (h : alignedAcc views a = true) :
    alignedAcc (views ++ vs) a = true := by
  unfold alignedAcc at h ⊢
  split at h
  · simp at h
  · rename_i v hv
    have hlt : a.view < views.length := by
      rcases Nat.lt_or_ge a.view views.length with h1 | h1
      · exact h1
      · rw [List.getElem?_eq_none h1] at hv; simp at hv
    rw [List.getElem?_append_left hlt, hv]
    exact h

private theorem ainv_step (w : W) (op : Op) (hw : AInv w) (hop : AlignedOp op) : AInv (step w op) := by
  cases op with
  | vec comp dim vecs =>
    have hc : comp = .f32 := hop
    subst hc
    refine ⟨?_, ?_⟩
    · have := hw.bw
      simp only [step, writeVec, Comp.size]; omega
    · intro a ha
      simp only [step, writeVec, List.mem_append, List.mem_singleton] at ha
      rcases ha with ha | rfl
      · exact alignedAcc_append _ _ a (hw.accs a ha)
      · have := hw.bw
        simp only [step, writeVec, alignedAcc, List.getElem?_concat_length, Comp.size]
        simp; omega
  | idx idx n =>
    have hlen : (idx.length * (indexComp n).size) % 4 = 0 := hop
    refine ⟨?_, ?_⟩
    · have := hw.bw
      simp only [step, writeIndices]; omega
    · intro a ha
      simp only [step, writeIndices, List.mem_append, List.mem_singleton] at ha
      rcases ha with ha | rfl
      · exact alignedAcc_append _ _ a (hw.accs a ha)
      · have := hw.bw
        simp only [step, writeIndices, alignedAcc, List.getElem?_concat_length]
        unfold indexComp
        split <;> simp [Comp.size] <;> omega

/-- alignment holds for every sequence of writes in which all vectors are FLOAT and every index block has a byte length
    divisible by 4 -/
theorem gltf_alignment_partial (ops : List Op) (h : ∀ op ∈ ops, AlignedOp op) : aligned (run {} ops).doc = true := by
  have key : ∀ (w : W), AInv w → ∀ ops : List Op, (∀ op ∈ ops, AlignedOp op) → AInv (run w ops) := by
    intro w hw ops
    induction ops generalizing w with
    | nil => intro _; exact hw
    | cons op ops ih =>
      intro hops
      exact ih (step w op) (ainv_step w op hw (hops op (by simp))) (fun o ho => hops o (by simp [ho]))
  have hi := key {} ⟨rfl, by simp⟩ ops h
  rw [aligned_eq]
  simp only [W.doc, List.all_eq_true]
  exact hi.accs

example : ∀ op ∈ ([.vec .f32 3 [[0, 0, 0], [0, 1, 0]], .idx [0, 1, 1, 0] 2, .idx [0] 70000] : List Op), AlignedOp op := by
  intro op hop
  simp only [List.mem_cons, List.mem_nil_iff, or_false] at hop
  rcases hop with rfl | rfl | rfl <;> simp [AlignedOp, indexComp, Comp.size]

/-! ### non-vacuity: concrete admissible writes -/

example : ∀ op ∈ ([.vec .f32 3 [[0, 0x3f800000, 0xbf800000], [0x3f333333, 0, 0x80000000]], .vec .u8 4 [[1, 2, 3, 255]],
    .idx [0, 1, 1] 2, .idx [65535, 3] 65536] : List Op), OpOK op := by
  intro op hop
  simp only [List.mem_cons, List.mem_nil_iff, or_false] at hop
  rcases hop with rfl | rfl | rfl | rfl <;> simp [OpOK, VecsOK, Comp.size, posInf32, negInf32, isNaN32]

example : (glbFrame [0x7b, 0x7d] [1, 2, 3]).length < 2 ^ 32 := by
  rw [glb_frame_length]; simp [pad4]

end C06
end PolyVerif
