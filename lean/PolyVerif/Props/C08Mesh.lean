/-
  C08 (round 2) — MESH files of the reference ("spec") encoding, binary (both byte orders), from FILE BYTES.

  The reader model is `Ply.readMesh` / `Ply.readBody` (`Model/Ply.lean`) — the very definition `Driver/C08.lean` answers
  `c08.read` with; `refEncode` is the definition it answers `c08.encode` with, `meaning` the one behind
  `c08.holds.meaning`.  Covered face elements (`SpecMeshOK`): index list named `vertex_indices` or `vertex_index`,
  count type uchar | int | uint × index type int | uint (canonical or alias spelling) — ALL SIX combinations the
  reader's `Count` / `Int` implement —, an optional unrecognised `list uchar int` property declared before or after the
  index list (≤ 255 entries per face), NO `texcoord` list; vertex numbers < 2³¹.  Faces with 3 and 4 indices
  (4 → the two fan triangles); a face of any other size is REJECTED by the reader (`ply_spec_mesh_other_size_rejected`).
-/
import PolyVerif.Props.C08Compose
import PolyVerif.Lemmas.PlyFaces

namespace PolyVerif
namespace C08
open Ply PlySpec PlyLemmas PlyCompose PlyHeader PlyFaces

variable {α : Type}

/-- the face element of `f` is inside the covered part of the reference grammar (binary) -/
structure SpecMeshOK (f : SpecFile α) (fe : SpecFaceElem α) : Prop where
  face : f.face = some fe
  noTex : fe.tex = none
  cnt : CountTyOK fe.cntTy
  idx : IndexTyOK fe.idxTy
  enc : ∀ fc ∈ fe.faces, FaceEncOK fe fc

/-- the face records are exactly what follows the vertex block -/
theorem specBody_mesh (c : Coding α) (f : SpecFile α) (fe : SpecFaceElem α) (hf : f.format ≠ .ascii)
    (hface : f.face = some fe) :
    specBody c f = (f.verts.map (fun r => (r.map (Datum.bin c f.format.endian)).flatten)).flatten
      ++ faceBytes c f.format.endian fe fe.faces := by
  cases hfmt : f.format with
  | ascii => exact absurd hfmt hf
  | le => simp only [specBody, hfmt, hface, faceBytes]
  | be => simp only [specBody, hfmt, hface, faceBytes]

theorem faceStage_spec (c : Coding α) (f : SpecFile α) (fe : SpecFaceElem α) (hface : f.face = some fe) (rest : Bytes) :
    faceStageBin c f.format.endian (findElement (specHdr f) (nm "face")) rest
      = if (findFaceProps (lpOf fe)).idxProp.isNone then .error .err else (do
          let r ← readFacesBin c f.format.endian (lpOf fe) (findFaceProps (lpOf fe)) fe.faces.length
            ⟨[0, 0, 0, 0], List.replicate 8 (c.ofInt 0)⟩ rest
          pure (some r)) := by
  rw [findElement_spec_face, hface]
  simp only [Option.map_some, faceStageBin, listProps_lists, Int.toNat_natCast]

/-- MESH FILES, parsed-header interface: a reference-encoded binary file with a face element of the covered grammar,
every face a triangle or a quad, reads without error to the TRIANGLE mesh whose indices are the fan triangles of the
faces in file order and whose attributes are the columns of the located readers (the vertex side is exactly that of
`ply_reads_spec_pointcloud`) -/
theorem ply_reads_spec_mesh (c : Coding α) (f : SpecFile α) (fe : SpecFaceElem α) (hf : f.format ≠ .ascii)
    (hm : SpecMeshOK f fe) (hsize : ∀ fc ∈ fe.faces, TriOrQuad fc)
    (htyped : ∀ r ∈ f.verts, r.map Datum.ty = f.vprops.map (·.ty))
    (bl : List (Built × List Nat))
    (hbuilt : bl.map (·.1) = buildAll true (specProps f) defaultReaders true)
    (hloc : ∀ p ∈ bl, Located (f.vprops.map (·.ty)) p.1 p.2) :
    readBody c defaultReader (specHdr f) (specBody c f)
      = .ok (applyColumns ⟨.triangle, fanIdx fe.faces, [], none⟩ (bl.map (·.1)) (f.verts.map (rowOf c bl))) := by
  obtain ⟨rest, hbody, hread⟩ := ply_spec_readback_vertex c f hf htyped bl hbuilt hloc
  have hrest : rest = faceBytes c f.format.endian fe fe.faces := by
    rw [specBody_mesh c f fe hf hm.face] at hbody
    exact (List.append_cancel_left hbody).symm
  have hfaces := readFacesBin_ref c f.format.endian fe hm.noTex hm.cnt hm.idx
    (fun fc h => ⟨hm.enc fc h, hsize fc h⟩) ⟨[0, 0, 0, 0], List.replicate 8 (c.ofInt 0)⟩ ⟨rfl, by simp⟩
  rw [hread, faceStage_spec c f fe hm.face, hrest, hfaces, findFaceProps_ref fe hm.noTex]
  simp [assemble, bind, Except.bind, pure, Except.pure]

/-- MESH FILES FROM FILE BYTES: `readMesh (refEncode f)` — header text (any property order, aliases, comments, CRLF)
and body -/
theorem ply_reads_spec_mesh_bytes (c : Coding α) (f : SpecFile α) (fe : SpecFaceElem α) (hok : SpecHeaderOK f)
    (hf : f.format ≠ .ascii) (hm : SpecMeshOK f fe) (hsize : ∀ fc ∈ fe.faces, TriOrQuad fc)
    (htyped : ∀ r ∈ f.verts, r.map Datum.ty = f.vprops.map (·.ty))
    (bl : List (Built × List Nat))
    (hbuilt : bl.map (·.1) = buildAll true (specProps f) defaultReaders true)
    (hloc : ∀ p ∈ bl, Located (f.vprops.map (·.ty)) p.1 p.2) :
    readMesh c defaultReader (refEncode c f)
      = .ok (applyColumns ⟨.triangle, fanIdx fe.faces, [], none⟩ (bl.map (·.1)) (f.verts.map (rowOf c bl))) := by
  simp only [readMesh, refEncode, parse_specHeader f hok, bind, Except.bind]
  exact ply_reads_spec_mesh c f fe hf hm hsize htyped bl hbuilt hloc

/-- A FACE OF ANOTHER SIZE IS REJECTED: a file of the same grammar in which, after a run of triangles / quads, a face
lists 0, 1, 2 or ≥ 5 vertices is not loaded: `readMesh` returns an error (the reader neither triangulates polygons nor
skips degenerate faces) -/
theorem ply_spec_mesh_other_size_rejected (c : Coding α) (f : SpecFile α) (fe : SpecFaceElem α) (hok : SpecHeaderOK f)
    (hf : f.format ≠ .ascii) (hm : SpecMeshOK f fe)
    (pre : List (SpecFace α)) (bad : SpecFace α) (post : List (SpecFace α)) (hfaces : fe.faces = pre ++ bad :: post)
    (hpre : ∀ fc ∈ pre, TriOrQuad fc) (hbad : ¬ TriOrQuad bad)
    (htyped : ∀ r ∈ f.verts, r.map Datum.ty = f.vprops.map (·.ty))
    (bl : List (Built × List Nat))
    (hbuilt : bl.map (·.1) = buildAll true (specProps f) defaultReaders true)
    (hloc : ∀ p ∈ bl, Located (f.vprops.map (·.ty)) p.1 p.2) :
    readMesh c defaultReader (refEncode c f) = .error .err := by
  simp only [readMesh, refEncode, parse_specHeader f hok, bind, Except.bind]
  obtain ⟨rest, hbody, hread⟩ := ply_spec_readback_vertex c f hf htyped bl hbuilt hloc
  have hrest : rest = faceBytes c f.format.endian fe fe.faces := by
    rw [specBody_mesh c f fe hf hm.face] at hbody
    exact (List.append_cancel_left hbody).symm
  have henc : ∀ fc ∈ pre ++ bad :: post, FaceEncOK fe fc := by rw [← hfaces]; exact hm.enc
  have hrej := readFacesBin_ref_reject c f.format.endian fe hm.noTex hm.cnt hm.idx pre bad post
    (fun fc h => ⟨henc fc (by simp [h]), hpre fc h⟩) (henc bad (by simp)) hbad
    ⟨[0, 0, 0, 0], List.replicate 8 (c.ofInt 0)⟩ ⟨rfl, by simp⟩ []
  rw [List.append_nil, ← hfaces] at hrej
  rw [hread, faceStage_spec c f fe hm.face, hrest, hrej, findFaceProps_ref fe hm.noTex]
  simp [bind, Except.bind]

/-- an index-list count type the reader does not implement (char, short, ushort, float, double) is an error at the
first face (`Count`: "unimplemented list property count type") -/
theorem ply_list_count_type_unimplemented (e : Endian) (ct it : SType) (hct : ¬ CountTyOK ct) (bs : Bytes) :
    readListBin e ct it bs = .error .err :=
  readListBin_badCount e ct it hct bs

/-- THE ATTRIBUTE ENTRIES ARE THE STORED VALUES: for representable data (`Datum.Exact`: 32-bit ints, floats that survive
their coding) and readers other than the 2-vector one (`s`,`t` with uchar: one ulp, finding 6), the row the located readers
produce for a record consists of `Datum.val` of the components they claim — the function `meaning` builds its columns with -/
theorem ply_spec_rows_are_values (c : Coding α) (bl : List (Built × List Nat)) (r : List (Datum α))
    (hdim : ∀ p ∈ bl, p.1.names.length ≠ 2) (hex : ∀ d ∈ r, Datum.Exact c d) :
    rowOf c bl r = bl.map (fun p => p.2.filterMap (fun i => (r[i]?).map (Datum.val c))) := by
  simp only [rowOf]
  apply List.map_congr_left
  intro p hp
  have hfun : (fun (i : Nat) => (r[i]?).map (datumRead c p.1.names.length)) = (fun (i : Nat) => (r[i]?).map (Datum.val c)) := by
    funext i
    cases hri : r[i]? with
    | none => rfl
    | some d =>
      have hd : d ∈ r := List.mem_of_getElem? hri
      simp only [Option.map_some, datumRead_eq_val c _ (hdim p hp) d (hex d hd)]
  rw [hfun]

/-! ### the result and `meaning` -/

/-- the specification side: whenever `meaning` is defined for a file with a `texcoord`-free face element, it is a
triangle mesh with the same indices the reader returns — the fan triangles in file order -/
theorem meaning_mesh_indices (c : Coding α) (f : SpecFile α) (fe : SpecFaceElem α) (hface : f.face = some fe)
    (htex : fe.tex = none) (m : MeshVal α) (hmean : meaning c f = some m) :
    m.topo = .triangle ∧ m.indices = fanIdx fe.faces := by
  have hnone : ∀ (p : Prop) [Decidable p], (if p then (none : Option (SType × SType)) else none) = none := by
    intro p _; split <;> rfl
  simp only [meaning, hface, htex, hnone, Option.bind_eq_bind, Option.bind_eq_some_iff, pure] at hmean
  obtain ⟨_, _, _, _, h⟩ := hmean
  injection h with h
  subst h
  exact ⟨rfl, rfl⟩

/-! ### non-vacuity: a big-endian CRLF file `z float, q uint8, x float, y float32`, faces `list int uint32 vertex_index`
preceded by an unrecognised `flags` list: one triangle, one quad -/

def exMesh : SpecFile Nat :=
  { exFile with
    verts := [[.f32 3, .u8 255, .f32 1, .f32 2], [.f32 6, .u8 0, .f32 4, .f32 5], [.f32 9, .u8 51, .f32 7, .f32 8],
      [.f32 12, .u8 102, .f32 10, .f32 11]],
    face := some exFaces }
where exFaces : SpecFaceElem Nat :=
  { idxNameShort := true, cntTy := .int, idxTy := .uint, idxAlias := true, tex := none, texFirst := false,
    extra := some true, faces := [⟨[0, 1, 2], [], [7, -1]⟩, ⟨[3, 2, 1, 0], [], []⟩] }

theorem exMesh_ok : SpecMeshOK exMesh exMesh.exFaces where
  face := rfl
  noTex := rfl
  cnt := by decide
  idx := by decide
  enc := by
    intro fc hfc
    simp only [exMesh.exFaces, List.mem_cons, List.not_mem_nil, or_false] at hfc
    rcases hfc with rfl | rfl <;> exact ⟨by decide, by decide, by decide, by decide⟩

theorem exMesh_hdr : SpecHeaderOK exMesh where
  names := by decide
  items := by intro i hi; simp [exMesh, exFile] at hi
  nverts := by decide
  nfaces := by intro fe h; simp only [exMesh, Option.some.injEq] at h; subst h; decide

example : readMesh toyCoding defaultReader (refEncode toyCoding exMesh)
    = .ok (applyColumns ⟨.triangle, [0, 1, 2, 3, 2, 1, 3, 1, 0], [], none⟩ (exBl.map (·.1))
        (exMesh.verts.map (rowOf toyCoding exBl))) :=
  ply_reads_spec_mesh_bytes toyCoding exMesh exMesh.exFaces exMesh_hdr (by decide) exMesh_ok
    (by
      intro fc hfc
      simp only [exMesh.exFaces, List.mem_cons, List.not_mem_nil, or_false] at hfc
      rcases hfc with rfl | rfl
      · exact Or.inl rfl
      · exact Or.inr rfl)
    (by decide) exBl (by decide)
    (by
      intro p hp
      simp only [exBl, List.mem_cons, List.not_mem_nil, or_false] at hp
      rcases hp with rfl | rfl
      · exact (locatedNamedB_sound (specProps exMesh) _ _ (by decide)).loc
      · exact (locatedNamedB_sound (specProps exMesh) _ _ (by decide)).loc)

example : rowOf toyCoding exBl [.f32 3, .u8 255, .f32 1, .f32 2]
    = exBl.map (fun p => p.2.filterMap (fun i => ([Datum.f32 3, .u8 255, .f32 1, .f32 2][i]?).map (Datum.val toyCoding))) :=
  ply_spec_rows_are_values toyCoding exBl _ (by decide)
    (by
      intro d hd
      simp only [List.mem_cons, List.not_mem_nil, or_false] at hd
      rcases hd with rfl | rfl | rfl | rfl <;> simp [Datum.Exact, toyCoding])

/-- … and that mesh is what the file denotes (`meaning`) -/
example : (readBody toyCoding defaultReader (specHdr exMesh) (specBody toyCoding exMesh)).toOption.map MeshVal.canon
    = (meaning toyCoding exMesh).map MeshVal.canon := by rfl

/-- `meaning_mesh_indices` is not vacuous: `meaning exMesh` is defined -/
example : ∃ m, meaning toyCoding exMesh = some m ∧ m.indices = [0, 1, 2, 3, 2, 1, 3, 1, 0] := by
  cases h : meaning toyCoding exMesh with
  | none => exact absurd h (by decide)
  | some m => exact ⟨m, rfl, (meaning_mesh_indices toyCoding exMesh exMesh.exFaces rfl rfl m h).2⟩

/-- the same file with a pentagon in second place is rejected -/
def exPenta : SpecFile Nat :=
  { exMesh with face := some { exMesh.exFaces with faces := [⟨[0, 1, 2], [], []⟩, ⟨[0, 1, 2, 3, 0], [], [5]⟩, ⟨[1, 2, 3], [], []⟩] } }

example : readMesh toyCoding defaultReader (refEncode toyCoding exPenta) = .error .err :=
  ply_spec_mesh_other_size_rejected toyCoding exPenta _ ⟨by decide, by intro i hi; simp [exPenta, exMesh, exFile] at hi, by decide,
      by intro fe h; simp only [exPenta, Option.some.injEq] at h; subst h; decide⟩ (by decide)
    ⟨rfl, rfl, by decide, by decide, by
      intro fc hfc
      simp only [List.mem_cons, List.not_mem_nil, or_false] at hfc
      rcases hfc with rfl | rfl | rfl <;> exact ⟨by decide, by decide, by decide, by decide⟩⟩
    [⟨[0, 1, 2], [], []⟩] ⟨[0, 1, 2, 3, 0], [], [5]⟩ [⟨[1, 2, 3], [], []⟩] rfl
    (by intro fc hfc; simp only [List.mem_cons, List.not_mem_nil, or_false] at hfc; subst hfc; exact Or.inl rfl)
    (by simp [TriOrQuad])
    (by decide) exBl (by decide)
    (by
      intro p hp
      simp only [exBl, List.mem_cons, List.not_mem_nil, or_false] at hp
      rcases hp with rfl | rfl
      · exact (locatedNamedB_sound (specProps exPenta) _ _ (by decide)).loc
      · exact (locatedNamedB_sound (specProps exPenta) _ _ (by decide)).loc)

end C08
end PolyVerif
