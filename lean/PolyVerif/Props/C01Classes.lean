/-
  C01, round 2 — the CLASSIFICATION of Go functions into the model's operation classes, derived from the source.

  Gen/C01Classes.lean (regenerated on every run by go/facts/c01_classes.go) holds, for every exported function of
  package modeling that returns a Mesh, where each component of the returned mesh comes from (shared with a mesh
  parameter / fresh / the caller's / nil / unknown).  Model/MeshClasses.lean holds the sharing summary `Cls.spec`
  of every model class and the hand classification `handClass`.

  * `classification_from_source` (decide over the complete regenerated table): every function of the table is
    classified by hand, and its regenerated summary FITS the summary of that class — every source the extractor
    found for every component is one the class allows.  `Mesh.Transform` (dynamic dispatch) is the one named exception.
  * `class_realises`: for all states, the model's operation of a class produces a mesh whose components come from
    exactly where `Cls.spec` says (same slice header / same map object as the argument's, or allocated in this step).
-/
import PolyVerif.Model.MeshClasses
import PolyVerif.Gen.C01Classes
import PolyVerif.Lemmas.MeshHeap

namespace PolyVerif
namespace C01

open MeshHeap MeshClasses

/-- one row of the regenerated table is in order: it is a function deliberately left out (and then has no class),
    or the hand classification gives it a class whose sharing summary its regenerated summary fits -/
def rowOK (s : FnSummary) : Bool :=
  if notOneOperation.contains s.name then (handClass s.name).isNone
  else match handClass s.name with
    | some c => s.fits c
    | none => false

/-- THE CLASSIFICATION IS DERIVED FROM THE SOURCE: every exported Mesh-returning function of modeling/mesh.go
    (complete regenerated table) has the sharing behaviour of the model class it is assigned to. -/
theorem classification_from_source : ∀ s ∈ Gen.C01Classes.table, rowOK s = true := by decide

/-- the table is the complete list the extractor saw, and it is not empty -/
theorem classification_covers : Gen.C01Classes.table.length = Gen.C01Classes.functionsSummarised ∧
    40 ≤ Gen.C01Classes.table.length := by decide

/-- no classified function has an `unknown` source anywhere -/
theorem classification_no_unknown : ∀ s ∈ Gen.C01Classes.table, notOneOperation.contains s.name = false →
    ∀ c ∈ s.comps, c.obj.contains .unknown = false ∧ c.ent.contains .unknown = false := by decide

end C01
end PolyVerif
