/-
  C01, round 2 — the CLASSIFICATION of Go functions into the model's operation classes, derived from the source.

  Gen/C01Classes.lean (regenerated on every run by go/facts/c01_classes.go) holds, for every exported function of
  package modeling that returns a Mesh, where each component of the returned mesh comes from (shared with a mesh
  parameter / fresh / the caller's / nil / unknown).  Model/MeshClasses.lean holds the sharing summary `Cls.spec`
  of every model class and the hand classification `handClass`.

  * `classification_from_source` (decide over the complete regenerated table): every function of the table is
    classified by hand, and its regenerated summary FITS the summary of that class — every source the extractor
    found for every component is one the class allows.  `Mesh.Transform` and two transformers (dynamic dispatch / two-result callee) are the named exceptions.
  * `class_realises`: for all states, the model's operation of a class produces a mesh whose components come from
    exactly where `Cls.spec` says (same slice header / same map object as the argument's, or allocated in this step).
-/
import PolyVerif.Model.MeshClasses
import PolyVerif.Gen.C01Classes
import PolyVerif.Lemmas.MeshHeapFresh

namespace PolyVerif
namespace C01

open MeshHeap MeshClasses

/-- one row of the regenerated table is in order: it is a function deliberately left out (and then has no class),
    or the hand classification gives it a class whose sharing summary its regenerated summary fits -/
def rowOK (s : FnSummary) : Bool :=
  if notOneOperation.contains s.name then (handClass s.name).isNone
  else match handClass s.name, handTwoClasses s.name with
    | some c, none => s.fits c
    | none, some (c, d) => s.fitsEither c d
    | _, _ => false

/-- THE CLASSIFICATION IS DERIVED FROM THE SOURCE: every exported Mesh-returning function of modeling/mesh.go
    (complete regenerated table) has the sharing behaviour of the model class it is assigned to. -/
theorem classification_from_source : ∀ s ∈ Gen.C01Classes.table, rowOK s = true := by decide +kernel

/-- the table is the complete list the extractor saw, and it is not empty -/
theorem classification_covers : Gen.C01Classes.table.length = Gen.C01Classes.functionsSummarised ∧
    100 ≤ Gen.C01Classes.table.length := by decide

/-- no classified function has an `unknown` source anywhere -/
theorem classification_no_unknown : ∀ s ∈ Gen.C01Classes.table, notOneOperation.contains s.name = false →
    ∀ c ∈ s.comps, c.obj.contains .unknown = false ∧ c.ent.contains .unknown = false := by decide +kernel

/-- closed witnesses that the comparison discriminates: an `Append` whose indices are the receiver's slice (what
    `append(m.indices, …)` amounts to when the extractor can see through it; otherwise it reports `unknown`) or are `unknown`
    does not fit the class `append`; a `SetIndices` that hands back the receiver's indices does not fit `setIndices`;
    a weld that keeps the receiver's materials does not fit `rebuild drop` -/
theorem aliasing_summaries_rejected :
    (⟨"Mesh.Append", 2, [shared 0, ⟨[.recv 0 1], []⟩, ⟨[.fresh], []⟩, ⟨[.fresh], [.fresh]⟩, ⟨[.fresh], [.fresh]⟩,
        ⟨[.fresh], [.fresh]⟩, ⟨[.fresh], [.fresh]⟩]⟩ : FnSummary).fits .append = false ∧
    (⟨"Mesh.Append", 2, [shared 0, ⟨[.unknown], []⟩, ⟨[.fresh], []⟩, ⟨[.fresh], [.fresh]⟩, ⟨[.fresh], [.fresh]⟩,
        ⟨[.fresh], [.fresh]⟩, ⟨[.fresh], [.fresh]⟩]⟩ : FnSummary).fits .append = false ∧
    (⟨"Mesh.SetIndices", 1, (List.range 7).map shared⟩ : FnSummary).fits .setIndices = false ∧
    (⟨"Mesh.WeldByFloat3Attribute", 1, [shared 0, ⟨[.fresh], []⟩, shared 2, ⟨[.fresh], [.fresh]⟩, ⟨[.fresh], [.fresh]⟩,
        ⟨[.fresh], [.fresh]⟩, ⟨[.fresh], [.fresh]⟩]⟩ : FnSummary).fits (.rebuild .drop) = false := by decide

/-! ### what the model's operation of each class does with memory -/

section realises
set_option linter.unusedSectionVars false
variable {κ α : Type} [DecidableEq κ]

/-- the class (and the pool positions of the mesh parameters, receiver first) of a model operation;
    `shareMaterials` is the composition `m.SetMaterials(src.Materials())` of two Go functions and `appendOld` is not in the tree -/
def opClass : Op κ α → Option (Cls × List Nat)
  | .newMesh .. => some (.newMesh, [])
  | .setIndices m .. => some (.setIndices, [m])
  | .setMaterials m .. => some (.setMaterials, [m])
  | .toPointCloud m .. => some (.toPointCloud, [m])
  | .clearAttrs m => some (.clearAttrs, [m])
  | .setData m k _ => some (.setData k, [m])
  | .setAttr m k .. => some (.setAttr k, [m])
  | .copyAttr m src k _ => some (.copyAttr k, [m, src])
  | .rebuild m _ _ _ _ mm => some (.rebuild mm, [m])
  | .readOnly m => some (.readOnly, [m])
  | .append m o .. => some (.append, [m, o])
  | .shareMaterials .. => none
  | .appendOld .. => none

/-- the map of attribute kind `k` (0..3 = v1Data..v4Data) of a mesh -/
def kindOf (a : MeshRep) (k : Nat) : Option Nat := (a.maps[k]?).getD none

def specObj (spec : List Comp) (i : Nat) : List Src := ((spec[i]?).map Comp.obj).getD []
def specEnt (spec : List Comp) (i : Nat) : List Src := ((spec[i]?).map Comp.ent).getD []

def TopoFrom (args : List MeshRep) (t : Nat) : Src → Prop
  | .recv i f => f = 0 ∧ ∃ a, args[i]? = some a ∧ t = a.topo
  | .val => True
  | _ => False

/-- the slice (component `fld`: 1 indices, 2 materials) comes from source `x`: it IS the argument's slice header,
    or it points into an array allocated by this operation (or has no cell at all) -/
def SliceFrom (h : Heap κ α) (args : List MeshRep) (fld : Nat) (s : Slice) : Src → Prop
  | .recv i f => f = fld ∧ ∃ a, args[i]? = some a ∧ s = (if fld = 1 then a.indices else a.materials)
  | .fresh => Fresh h.arrays.length s
  | .nil => s.cap = 0
  | _ => False

/-- an entry of a new map comes from source `x`: its slice header is one stored in the argument's map of that kind,
    or points into an array allocated by this operation -/
def EntFrom (h : Heap κ α) (args : List MeshRep) (e : κ × Slice) : Src → Prop
  | .elem i f => ∃ a, args[i]? = some a ∧ 3 ≤ f ∧ ∃ e' ∈ h.mapEntries (kindOf a (f - 3)), e'.2 = e.2
  | .fresh => Fresh h.arrays.length e.2
  | .nil => e.2.cap = 0
  | _ => False

/-- the map of kind `k` comes from source `x`: it IS the argument's map object, it is the nil map, or it is a map
    object allocated by this operation all of whose entries come from the sources `ent` -/
def MapFrom (h h' : Heap κ α) (args : List MeshRep) (k : Nat) (ent : List Src) (m : Option Nat) : Src → Prop
  | .recv i f => f = 3 + k ∧ ∃ a, args[i]? = some a ∧ m = kindOf a k
  | .nil => m = none
  | .fresh => ∃ id, m = some id ∧ h.maps.length ≤ id ∧ ∀ e ∈ h'.mapEntries (some id), ∃ x ∈ ent, EntFrom h args e x
  | _ => False

/-- mesh `r` in heap `h'` has the sharing summary `spec` relative to the argument meshes `args` in heap `h` -/
def Realises (spec : List Comp) (h : Heap κ α) (args : List MeshRep) (h' : Heap κ α) (r : MeshRep) : Prop :=
  (∃ x ∈ specObj spec 0, TopoFrom args r.topo x) ∧
  (∃ x ∈ specObj spec 1, SliceFrom h args 1 r.indices x) ∧
  (∃ x ∈ specObj spec 2, SliceFrom h args 2 r.materials x) ∧
  ∀ k, k < 4 → ∃ x ∈ specObj spec (3 + k), MapFrom h h' args k (specEnt spec (3 + k)) (kindOf r k) x

theorem sharedExcept_get (f : Nat) (c : Comp) (g : Nat) (hg : g < 7) :
    (sharedExcept f c)[g]? = some (if g = f then c else shared g) := by
  simp [sharedExcept, List.getElem?_map, List.getElem?_range hg]

theorem kindOf_setKind (maps : List (Option Nat)) (r : MeshRep) (k id k' : Nat) (hk : k < maps.length) :
    kindOf { r with maps := setKind maps k id } k' = if k' = k then some id else (maps[k']?).getD none := by
  simp only [kindOf, setKind, List.getElem?_set]
  by_cases h : k = k'
  · subst h; simp [hk]
  · have : ¬ k' = k := fun e => h e.symm
    simp [h, this]

theorem specObj_sharedExcept (f : Nat) (c : Comp) (g : Nat) (hg : g < 7) :
    specObj (sharedExcept f c) g = if g = f then c.obj else [.recv 0 g] := by
  simp only [specObj, sharedExcept_get f c g hg]; split <;> simp [shared]

theorem specEnt_sharedExcept (f : Nat) (c : Comp) (g : Nat) (hg : g < 7) :
    specEnt (sharedExcept f c) g = if g = f then c.ent else [] := by
  simp only [specEnt, sharedExcept_get f c g hg]; split <;> simp [shared]

theorem map_shared (h h' : Heap κ α) (a : MeshRep) (rest : List MeshRep) (k : Nat) (ent : List Src) :
    MapFrom h h' (a :: rest) k ent (kindOf a k) (.recv 0 (3 + k)) := ⟨rfl, a, rfl, rfl⟩

/-- everything shared with the receiver except component `f`, which comes from where `c` says -/
theorem realises_sharedExcept (f : Nat) (c : Comp) (h h' : Heap κ α) (a : MeshRep) (rest : List MeshRep) (r : MeshRep)
    (h0 : r.topo = a.topo)
    (h1 : if f = 1 then ∃ x ∈ c.obj, SliceFrom h (a :: rest) 1 r.indices x else r.indices = a.indices)
    (h2 : if f = 2 then ∃ x ∈ c.obj, SliceFrom h (a :: rest) 2 r.materials x else r.materials = a.materials)
    (h3 : ∀ k, k < 4 → if 3 + k = f then ∃ x ∈ c.obj, MapFrom h h' (a :: rest) k c.ent (kindOf r k) x
        else kindOf r k = kindOf a k) (hf : f ≠ 0) :
    Realises (sharedExcept f c) h (a :: rest) h' r := by
  refine ⟨?_, ?_, ?_, ?_⟩
  · rw [specObj_sharedExcept f c 0 (by omega), if_neg (fun e => hf e.symm)]
    exact ⟨_, List.mem_singleton.mpr rfl, rfl, a, rfl, h0⟩
  · rw [specObj_sharedExcept f c 1 (by omega)]
    by_cases e : f = 1
    · rw [if_pos e.symm]; rw [if_pos e] at h1; exact h1
    · rw [if_neg (fun x => e x.symm)]; rw [if_neg e] at h1
      exact ⟨_, List.mem_singleton.mpr rfl, rfl, a, rfl, by simp [h1]⟩
  · rw [specObj_sharedExcept f c 2 (by omega)]
    by_cases e : f = 2
    · rw [if_pos e.symm]; rw [if_pos e] at h2; exact h2
    · rw [if_neg (fun x => e x.symm)]; rw [if_neg e] at h2
      exact ⟨_, List.mem_singleton.mpr rfl, rfl, a, rfl, by simp [h2]⟩
  · intro k hk
    rw [specObj_sharedExcept f c (3 + k) (by omega), specEnt_sharedExcept f c (3 + k) (by omega)]
    have := h3 k hk
    by_cases e : 3 + k = f
    · rw [if_pos e] at this ⊢; rw [if_pos e]; exact this
    · rw [if_neg e] at this ⊢; rw [if_neg e]
      exact ⟨_, List.mem_singleton.mpr rfl, by rw [this]; exact map_shared h h' a rest k []⟩

theorem readOnly_spec_eq : Cls.readOnly.spec = sharedExcept 7 ⟨[], []⟩ := by decide

/-- a mesh realises "everything shared with the receiver" relative to itself -/
theorem realises_self (h h' : Heap κ α) (a : MeshRep) (rest : List MeshRep) :
    Realises Cls.readOnly.spec h (a :: rest) h' a := by
  rw [readOnly_spec_eq]
  apply realises_sharedExcept <;> first | rfl | (intro k hk; rw [if_neg (by omega)]) | simp

theorem real_setIndices (E : Env α) (s : State κ α) (m : Nat) (idx : List α) (sp : Nat) (h' : Heap κ α) (rs : List MeshRep)
    (ha : (Op.setIndices m idx sp : Op κ α).apply E s = some (h', rs)) :
    ∃ a, s.pool[m]? = some a ∧ ∃ r, rs = [r] ∧ Realises (Cls.setIndices).spec s.heap [a] h' r := by
  simp only [Op.apply, Option.bind_eq_bind, Option.bind_eq_some_iff, Option.pure_def, Option.some.injEq, Prod.mk.injEq] at ha
  obtain ⟨a, hr, rfl, rfl⟩ := ha
  refine ⟨a, hr, _, rfl, ?_⟩
  apply realises_sharedExcept <;> simp [SliceFrom, allocSlice, Fresh, kindOf]
  intros; omega

theorem real_setMaterials (E : Env α) (s : State κ α) (m : Nat) (idx : List α) (sp : Nat) (h' : Heap κ α) (rs : List MeshRep)
    (ha : (Op.setMaterials m idx sp : Op κ α).apply E s = some (h', rs)) :
    ∃ a, s.pool[m]? = some a ∧ ∃ r, rs = [r] ∧ Realises (Cls.setMaterials).spec s.heap [a] h' r := by
  simp only [Op.apply, Option.bind_eq_bind, Option.bind_eq_some_iff, Option.pure_def, Option.some.injEq, Prod.mk.injEq] at ha
  obtain ⟨a, hr, rfl, rfl⟩ := ha
  refine ⟨a, hr, _, rfl, ?_⟩
  apply realises_sharedExcept <;> simp [SliceFrom, allocSlice, Fresh, kindOf]
  intros; omega

theorem real_clearAttrs (E : Env α) (s : State κ α) (m : Nat) (h' : Heap κ α) (rs : List MeshRep)
    (ha : (Op.clearAttrs m : Op κ α).apply E s = some (h', rs)) :
    ∃ a, s.pool[m]? = some a ∧ ∃ r, rs = [r] ∧ Realises (Cls.clearAttrs).spec s.heap [a] h' r := by
  simp only [Op.apply, Option.bind_eq_bind, Option.bind_eq_some_iff, Option.pure_def, Option.some.injEq, Prod.mk.injEq] at ha
  obtain ⟨a, hr, rfl, rfl⟩ := ha
  refine ⟨a, hr, _, rfl, ?_, ?_, ?_, ?_⟩
  · exact ⟨.recv 0 0, by simp [specObj, Cls.spec, shared], rfl, a, rfl, rfl⟩
  · exact ⟨.recv 0 1, by simp [specObj, Cls.spec, shared], rfl, a, rfl, rfl⟩
  · exact ⟨.recv 0 2, by simp [specObj, Cls.spec, shared], rfl, a, rfl, rfl⟩
  · intro k hk
    refine ⟨.nil, ?_, ?_⟩
    · have : k = 0 ∨ k = 1 ∨ k = 2 ∨ k = 3 := by omega
      rcases this with rfl | rfl | rfl | rfl <;> simp [specObj, Cls.spec]
    · simp only [MapFrom, kindOf, List.getElem?_map]
      cases a.maps[k]? <;> rfl

theorem real_toPointCloud (E : Env α) (s : State κ α) (m pt n : Nat) (h' : Heap κ α) (rs : List MeshRep)
    (ha : (Op.toPointCloud m pt n : Op κ α).apply E s = some (h', rs)) :
    ∃ a, s.pool[m]? = some a ∧ ∃ r, rs = [r] ∧ Realises (Cls.toPointCloud).spec s.heap [a] h' r := by
  simp only [Op.apply, Option.bind_eq_bind, Option.bind_eq_some_iff, Option.pure_def] at ha
  obtain ⟨a, hr, ha⟩ := ha
  refine ⟨a, hr, ?_⟩
  have hm : ∀ (r : MeshRep), r.maps = a.maps → ∀ k, k < 4 → ∃ x ∈ specObj Cls.toPointCloud.spec (3 + k),
      MapFrom s.heap h' [a] k (specEnt Cls.toPointCloud.spec (3 + k)) (kindOf r k) x := by
    intro r er k hk
    refine ⟨.recv 0 (3 + k), ?_, rfl, a, rfl, by simp [kindOf, er]⟩
    have : k = 0 ∨ k = 1 ∨ k = 2 ∨ k = 3 := by omega
    rcases this with rfl | rfl | rfl | rfl <;> simp [specObj, Cls.spec, shared]
  split at ha
  · simp only [Option.some.injEq, Prod.mk.injEq] at ha
    obtain ⟨rfl, rfl⟩ := ha
    refine ⟨_, rfl, ?_, ?_, ?_, hm a rfl⟩
    · exact ⟨.recv 0 0, by simp [specObj, Cls.spec], rfl, a, rfl, rfl⟩
    · exact ⟨.recv 0 1, by simp [specObj, Cls.spec], rfl, a, rfl, rfl⟩
    · exact ⟨.recv 0 2, by simp [specObj, Cls.spec, shared], rfl, a, rfl, rfl⟩
  · simp only [Option.some.injEq, Prod.mk.injEq] at ha
    obtain ⟨rfl, rfl⟩ := ha
    refine ⟨_, rfl, ?_, ?_, ?_, hm _ rfl⟩
    · exact ⟨.val, by simp [specObj, Cls.spec], trivial⟩
    · exact ⟨.fresh, by simp [specObj, Cls.spec], Or.inl (by simp [allocSlice])⟩
    · exact ⟨.recv 0 2, by simp [specObj, Cls.spec, shared], rfl, a, rfl, rfl⟩

/-- reading the entries of a map object just allocated -/
theorem mapEntries_allocMap (h : Heap κ α) (es : List (κ × Slice)) :
    (h.allocMap es).1.mapEntries (some (h.allocMap es).2) = es := by
  simp [Heap.mapEntries, Heap.allocMap]

theorem fresh_of_freshMap {base mbase : Nat} {h h' : Heap κ α} {args : List MeshRep} {k : Nat} {m : Option Nat} {ent : List Src}
    (hb : base = h.arrays.length) (hm : mbase = h.maps.length) (he : Src.fresh ∈ ent) (fm : FreshMap base mbase h' m) :
    MapFrom h h' args k ent m .fresh := by
  obtain ⟨id, rfl, h1, _, h3⟩ := fm
  subst hb hm
  exact ⟨id, rfl, h1, fun e he' => ⟨.fresh, he, h3 e he'⟩⟩

theorem real_setData (E : Env α) (s : State κ α) (m k : Nat) (es : List (κ × List α × Nat)) (h' : Heap κ α) (rs : List MeshRep)
    (ha : (Op.setData m k es : Op κ α).apply E s = some (h', rs)) :
    ∃ a, s.pool[m]? = some a ∧ ∃ r, rs = [r] ∧ (k < a.maps.length → Realises (Cls.setData k).spec s.heap [a] h' r) := by
  simp only [Op.apply, Option.bind_eq_bind, Option.bind_eq_some_iff, Option.pure_def, Option.some.injEq, Prod.mk.injEq] at ha
  obtain ⟨a, hr, rfl, rfl⟩ := ha
  refine ⟨a, hr, _, rfl, fun hk => ?_⟩
  apply realises_sharedExcept (f := 3 + k) <;> try (first | rfl | (rw [if_neg (by omega)]) | omega)
  intro k' hk'
  rw [kindOf_setKind a.maps a k _ k' hk]
  by_cases e : k' = k
  · subst e
    rw [if_pos rfl, if_pos rfl]
    exact ⟨.fresh, by simp, fresh_of_freshMap rfl rfl (by simp) (allocMapOf_fresh E es (Nat.le_refl _))⟩
  · rw [if_neg (by omega), if_neg e]; rfl

theorem real_setAttr (E : Env α) (s : State κ α) (m k : Nat) (name : κ) (data : List α) (sp : Nat) (h' : Heap κ α) (rs : List MeshRep)
    (ha : (Op.setAttr m k name data sp : Op κ α).apply E s = some (h', rs)) :
    ∃ a, s.pool[m]? = some a ∧ ∃ r, rs = [r] ∧ (k < a.maps.length → Realises (Cls.setAttr k).spec s.heap [a] h' r) := by
  simp only [Op.apply, Option.bind_eq_bind, Option.bind_eq_some_iff, Option.pure_def, Option.some.injEq, Prod.mk.injEq] at ha
  obtain ⟨a, hr, rfl, rfl⟩ := ha
  refine ⟨a, hr, _, rfl, fun hk => ?_⟩
  apply realises_sharedExcept (f := 3 + k) <;> try (first | rfl | (rw [if_neg (by omega)]) | omega)
  intro k' hk'
  rw [kindOf_setKind a.maps a k _ k' hk]
  by_cases e : k' = k
  · subst e
    rw [if_pos rfl, if_pos rfl]
    refine ⟨.fresh, by simp, _, rfl, by simp [Heap.allocMap, allocSlice, Heap.alloc], ?_⟩
    rw [mapEntries_allocMap]
    intro e he
    have he' : e ∈ insert (s.heap.mapEntries ((a.maps[k']?).getD none)) name (allocSlice E s.heap data sp).2 := by
      split at he
      · exact mem_erase he
      · exact he
    rcases mem_insert he' with h1 | h1
    · exact ⟨.elem 0 (3 + k'), by simp, a, rfl, by omega, e, by simpa [kindOf] using h1, rfl⟩
    · subst h1
      exact ⟨.fresh, by simp, Or.inl (by simp [allocSlice])⟩
  · rw [if_neg (by omega), if_neg e]; rfl

theorem real_copyAttr (E : Env α) (s : State κ α) (m src k : Nat) (name : κ) (h' : Heap κ α) (rs : List MeshRep)
    (ha : (Op.copyAttr m src k name : Op κ α).apply E s = some (h', rs)) :
    ∃ a q, s.pool[m]? = some a ∧ s.pool[src]? = some q ∧ ∃ r, rs = [r] ∧
      (k < a.maps.length → Realises (Cls.copyAttr k).spec s.heap [a, q] h' r) := by
  simp only [Op.apply, Option.bind_eq_bind, Option.bind_eq_some_iff, Option.pure_def, Option.some.injEq, Prod.mk.injEq] at ha
  obtain ⟨a, hr, q, hq, rfl, rfl⟩ := ha
  refine ⟨a, q, hr, hq, _, rfl, fun hk => ?_⟩
  apply realises_sharedExcept (f := 3 + k) <;> try (first | rfl | (rw [if_neg (by omega)]) | omega)
  intro k' hk'
  rw [kindOf_setKind a.maps a k _ k' hk]
  by_cases e : k' = k
  · subst e
    rw [if_pos rfl, if_pos rfl]
    refine ⟨.fresh, by simp, _, rfl, by simp [Heap.allocMap], ?_⟩
    rw [mapEntries_allocMap]
    intro e he
    generalize hd : (lookup (s.heap.mapEntries ((q.maps[k']?).getD none)) name).getD Slice.nil = d at he
    have he' : e ∈ insert (s.heap.mapEntries ((a.maps[k']?).getD none)) name d := by
      split at he
      · exact mem_erase he
      · exact he
    rcases mem_insert he' with h1 | h1
    · exact ⟨.elem 0 (3 + k'), by simp, a, rfl, by omega, e, by simpa [kindOf] using h1, rfl⟩
    · subst h1
      cases hl : lookup (s.heap.mapEntries ((q.maps[k']?).getD none)) name with
      | none =>
        rw [hl] at hd; simp only [Option.getD_none] at hd; subst hd
        exact ⟨.nil, by simp, rfl⟩
      | some c =>
        rw [hl] at hd; simp only [Option.getD_some] at hd; subst hd
        obtain ⟨e', he1, he2⟩ := lookup_mem hl
        exact ⟨.elem 1 (3 + k'), by simp, q, rfl, by omega, e', by simpa [kindOf] using he1, he2⟩
  · rw [if_neg (by omega), if_neg e]; rfl

/-- a list of maps all allocated by this operation: each kind is such a map, or absent (the nil map) -/
theorem maps_fresh_or_nil {h h' : Heap κ α} {args : List MeshRep} {ms : List (Option Nat)} {ent : List Src} (he : Src.fresh ∈ ent)
    (fm : ∀ m ∈ ms, FreshMap h.arrays.length h.maps.length h' m) (k : Nat) :
    MapFrom h h' args k ent ((ms[k]?).getD none) .fresh ∨ (MapFrom h h' args k ent ((ms[k]?).getD none) .nil ∧ ms.length ≤ k) := by
  cases hk : ms[k]? with
  | none => exact Or.inr ⟨rfl, by simpa using hk⟩
  | some m => exact Or.inl (fresh_of_freshMap rfl rfl he (fm m (List.mem_of_getElem? hk)))

theorem real_rebuild (E : Env α) (s : State κ α) (m topo : Nat) (idx : List α) (isp : Nat) (attrs : List (List (κ × List α × Nat)))
    (mm : MatMode) (h' : Heap κ α) (rs : List MeshRep)
    (ha : (Op.rebuild m topo idx isp attrs mm : Op κ α).apply E s = some (h', rs)) :
    ∃ a, s.pool[m]? = some a ∧ ∃ r, rs = [r] ∧ Realises (Cls.rebuild mm).spec s.heap [a] h' r := by
  simp only [Op.apply, Option.bind_eq_bind, Option.bind_eq_some_iff, Option.pure_def, Option.some.injEq, Prod.mk.injEq] at ha
  obtain ⟨a, hr, rfl, rfl⟩ := ha
  obtain ⟨f1, _, _⟩ := allocSlice_spec (κ := κ) E (Nat.le_refl s.heap.arrays.length) idx isp
  have fm := allocMaps_fresh (mbase := s.heap.maps.length) E attrs f1.base_le' f1.msize_le
  refine ⟨a, hr, _, rfl, ?_, ?_, ?_, ?_⟩
  · exact ⟨.val, by simp [specObj, Cls.spec], trivial⟩
  · exact ⟨.fresh, by simp [specObj, Cls.spec], Or.inl (by simp [allocSlice])⟩
  · cases mm with
    | share => exact ⟨.recv 0 2, by simp [specObj, Cls.spec, shared], rfl, a, rfl, rfl⟩
    | drop => exact ⟨.nil, by simp [specObj, Cls.spec], rfl⟩
  · intro k hk
    have hs : specObj (Cls.rebuild mm).spec (3 + k) = [.fresh, .nil] ∧ specEnt (Cls.rebuild mm).spec (3 + k) = [.fresh] := by
      have : k = 0 ∨ k = 1 ∨ k = 2 ∨ k = 3 := by omega
      rcases this with rfl | rfl | rfl | rfl <;> simp [specObj, specEnt, Cls.spec]
    rw [hs.1, hs.2]
    rcases maps_fresh_or_nil (args := [a]) (ent := [.fresh]) (by simp) fm k with h1 | h1
    · exact ⟨.fresh, by simp, h1⟩
    · exact ⟨.nil, by simp, h1.1⟩

theorem real_newMesh (E : Env α) (s : State κ α) (topo : Nat) (idx : List α) (isp : Nat) (mats : List α) (msp : Nat)
    (attrs : List (List (κ × List α × Nat))) (h' : Heap κ α) (rs : List MeshRep)
    (ha : (Op.newMesh topo idx isp mats msp attrs : Op κ α).apply E s = some (h', rs)) :
    ∃ r, rs = [r] ∧ Realises (Cls.newMesh).spec s.heap [] h' r := by
  simp only [Op.apply, Option.some.injEq, Prod.mk.injEq] at ha
  obtain ⟨rfl, rfl⟩ := ha
  obtain ⟨f1, _, _⟩ := allocSlice_spec (κ := κ) E (Nat.le_refl s.heap.arrays.length) idx isp
  obtain ⟨f2, fr2, _⟩ := allocSlice_spec (κ := κ) E f1.base_le' mats msp
  have fm := allocMaps_fresh (mbase := s.heap.maps.length) E attrs (f1.trans f2).base_le' (f1.trans f2).msize_le
  refine ⟨_, rfl, ?_, ?_, ?_, ?_⟩
  · exact ⟨.val, by simp [specObj, Cls.spec], trivial⟩
  · exact ⟨.fresh, by simp [specObj, Cls.spec], Or.inl (by simp [allocSlice])⟩
  · exact ⟨.fresh, by simp [specObj, Cls.spec], fr2⟩
  · intro k hk
    have hs : specObj (Cls.newMesh).spec (3 + k) = [.fresh, .nil] ∧ specEnt (Cls.newMesh).spec (3 + k) = [.fresh, .nil] := by
      have : k = 0 ∨ k = 1 ∨ k = 2 ∨ k = 3 := by omega
      rcases this with rfl | rfl | rfl | rfl <;> simp [specObj, specEnt, Cls.spec]
    rw [hs.1, hs.2]
    rcases maps_fresh_or_nil (args := []) (ent := [.fresh, .nil]) (by simp) fm k with h1 | h1
    · exact ⟨.fresh, by simp, h1⟩
    · exact ⟨.nil, by simp, h1.1⟩

theorem real_append (E : Env α) (s : State κ α) (m o aLen bLen : Nat) (h' : Heap κ α) (rs : List MeshRep)
    (ha : (Op.append m o aLen bLen : Op κ α).apply E s = some (h', rs)) :
    ∃ a q, s.pool[m]? = some a ∧ s.pool[o]? = some q ∧ ∃ r, rs = [r] ∧
      (4 ≤ a.maps.length → Realises (Cls.append).spec s.heap [a, q] h' r) := by
  simp only [Op.apply, Option.bind_eq_bind, Option.bind_eq_some_iff, Option.pure_def, Option.some.injEq, Prod.mk.injEq] at ha
  obtain ⟨a, hr, q, hq, x, hx, rfl, rfl⟩ := ha
  obtain ⟨t0, fi, fmat, lm, fm⟩ := appendCopy_fresh E (h' := x.1) (r := x.2) hx
  refine ⟨a, q, hr, hq, _, rfl, fun h4 => ⟨?_, ?_, ?_, ?_⟩⟩
  · exact ⟨.recv 0 0, by simp [specObj, Cls.spec, shared], rfl, a, rfl, t0⟩
  · exact ⟨.fresh, by simp [specObj, Cls.spec], fi⟩
  · exact ⟨.fresh, by simp [specObj, Cls.spec], fmat⟩
  · intro k hk
    have hs : specObj (Cls.append).spec (3 + k) = [.fresh] ∧ specEnt (Cls.append).spec (3 + k) = [.fresh] := by
      have : k = 0 ∨ k = 1 ∨ k = 2 ∨ k = 3 := by omega
      rcases this with rfl | rfl | rfl | rfl <;> simp [specObj, specEnt, Cls.spec]
    rw [hs.1, hs.2]
    rcases maps_fresh_or_nil (args := [a, q]) (ent := [.fresh]) (by simp) fm k with h1 | h1
    · exact ⟨.fresh, by simp, h1⟩
    · omega

/-! ### the theorem -/

theorem real_readOnly (E : Env α) (s : State κ α) (m : Nat) (h' : Heap κ α) (rs : List MeshRep)
    (ha : (Op.readOnly m : Op κ α).apply E s = some (h', rs)) :
    ∃ a, s.pool[m]? = some a ∧ h' = s.heap ∧ rs = [] := by
  simp only [Op.apply, Option.bind_eq_bind, Option.bind_eq_some_iff, Option.pure_def, Option.some.injEq, Prod.mk.injEq] at ha
  obtain ⟨a, hr, rfl, rfl⟩ := ha
  exact ⟨a, hr, rfl, rfl⟩

/-- the meshes at pool positions `ps` -/
def argsOf (s : State κ α) : List Nat → Option (List MeshRep)
  | [] => some []
  | p :: ps => match s.pool[p]?, argsOf s ps with
    | some a, some as => some (a :: as)
    | _, _ => none

/-- the attribute kind of a class is one of v1Data..v4Data -/
def _root_.PolyVerif.MeshClasses.Cls.kindOK : Cls → Bool
  | .setData k | .setAttr k | .copyAttr k => decide (k < 4)
  | _ => true

/-- THE MODEL'S OPERATION OF A CLASS SHARES / ALLOCATES EXACTLY WHAT THE CLASS SUMMARY SAYS, in every state:
    whenever an operation of class `c` succeeds, its mesh arguments exist and the mesh it returns `Realises c.spec` — each
    component is the very slice header / map object of the argument the summary names, or lies in memory allocated by this
    operation (and, for new maps, every entry is one of the argument's entries or new memory, as the summary says).
    A read-only operation returns no new mesh and leaves the heap as it is; the Go function returns its receiver, which
    realises "everything shared" trivially. -/
theorem class_realises (E : Env α) (s : State κ α) (op : Op κ α) (c : Cls) (ps : List Nat)
    (hc : opClass op = some (c, ps)) (h' : Heap κ α) (rs : List MeshRep) (ha : op.apply E s = some (h', rs))
    (h4 : ∀ a ∈ s.pool, a.maps.length = 4) (hk : c.kindOK = true) :
    ∃ args, argsOf s ps = some args ∧
      if c = .readOnly then h' = s.heap ∧ rs = [] ∧ ∀ a ∈ args.head?, Realises c.spec s.heap args h' a
      else ∃ r, rs = [r] ∧ Realises c.spec s.heap args h' r := by
  cases op with
  | newMesh topo idx isp mats msp attrs =>
    simp only [opClass, Option.some.injEq, Prod.mk.injEq] at hc
    obtain ⟨rfl, rfl⟩ := hc
    exact ⟨[], rfl, by simpa using real_newMesh E s topo idx isp mats msp attrs h' rs ha⟩
  | setIndices m idx sp =>
    simp only [opClass, Option.some.injEq, Prod.mk.injEq] at hc
    obtain ⟨rfl, rfl⟩ := hc
    obtain ⟨a, hr, r, e, hR⟩ := real_setIndices E s m idx sp h' rs ha
    exact ⟨[a], by simp [argsOf, hr], by simpa using ⟨r, e, hR⟩⟩
  | setMaterials m mats sp =>
    simp only [opClass, Option.some.injEq, Prod.mk.injEq] at hc
    obtain ⟨rfl, rfl⟩ := hc
    obtain ⟨a, hr, r, e, hR⟩ := real_setMaterials E s m mats sp h' rs ha
    exact ⟨[a], by simp [argsOf, hr], by simpa using ⟨r, e, hR⟩⟩
  | shareMaterials m src => simp [opClass] at hc
  | toPointCloud m pt n =>
    simp only [opClass, Option.some.injEq, Prod.mk.injEq] at hc
    obtain ⟨rfl, rfl⟩ := hc
    obtain ⟨a, hr, r, e, hR⟩ := real_toPointCloud E s m pt n h' rs ha
    exact ⟨[a], by simp [argsOf, hr], by simpa using ⟨r, e, hR⟩⟩
  | clearAttrs m =>
    simp only [opClass, Option.some.injEq, Prod.mk.injEq] at hc
    obtain ⟨rfl, rfl⟩ := hc
    obtain ⟨a, hr, r, e, hR⟩ := real_clearAttrs E s m h' rs ha
    exact ⟨[a], by simp [argsOf, hr], by simpa using ⟨r, e, hR⟩⟩
  | setData m k es =>
    simp only [opClass, Option.some.injEq, Prod.mk.injEq] at hc
    obtain ⟨rfl, rfl⟩ := hc
    obtain ⟨a, hr, r, e, hR⟩ := real_setData E s m k es h' rs ha
    have hk' : k < a.maps.length := by rw [h4 a (List.mem_of_getElem? hr)]; simpa [Cls.kindOK] using hk
    exact ⟨[a], by simp [argsOf, hr], by simpa using ⟨r, e, hR hk'⟩⟩
  | setAttr m k name data sp =>
    simp only [opClass, Option.some.injEq, Prod.mk.injEq] at hc
    obtain ⟨rfl, rfl⟩ := hc
    obtain ⟨a, hr, r, e, hR⟩ := real_setAttr E s m k name data sp h' rs ha
    have hk' : k < a.maps.length := by rw [h4 a (List.mem_of_getElem? hr)]; simpa [Cls.kindOK] using hk
    exact ⟨[a], by simp [argsOf, hr], by simpa using ⟨r, e, hR hk'⟩⟩
  | copyAttr m src k name =>
    simp only [opClass, Option.some.injEq, Prod.mk.injEq] at hc
    obtain ⟨rfl, rfl⟩ := hc
    obtain ⟨a, q, hr, hq, r, e, hR⟩ := real_copyAttr E s m src k name h' rs ha
    have hk' : k < a.maps.length := by rw [h4 a (List.mem_of_getElem? hr)]; simpa [Cls.kindOK] using hk
    exact ⟨[a, q], by simp [argsOf, hr, hq], by simpa using ⟨r, e, hR hk'⟩⟩
  | rebuild m topo idx isp attrs mm =>
    simp only [opClass, Option.some.injEq, Prod.mk.injEq] at hc
    obtain ⟨rfl, rfl⟩ := hc
    obtain ⟨a, hr, r, e, hR⟩ := real_rebuild E s m topo idx isp attrs mm h' rs ha
    exact ⟨[a], by simp [argsOf, hr], by simpa using ⟨r, e, hR⟩⟩
  | readOnly m =>
    simp only [opClass, Option.some.injEq, Prod.mk.injEq] at hc
    obtain ⟨rfl, rfl⟩ := hc
    obtain ⟨a, hr, e1, e2⟩ := real_readOnly E s m h' rs ha
    refine ⟨[a], by simp [argsOf, hr], ?_⟩
    simp only [if_true]
    refine ⟨e1, e2, ?_⟩
    intro b hb
    simp only [List.head?_cons, Option.mem_def, Option.some.injEq] at hb
    subst hb
    exact realises_self s.heap h' _ []
  | append m o aLen bLen =>
    simp only [opClass, Option.some.injEq, Prod.mk.injEq] at hc
    obtain ⟨rfl, rfl⟩ := hc
    obtain ⟨a, q, hr, hq, r, e, hR⟩ := real_append E s m o aLen bLen h' rs ha
    have h4' : 4 ≤ a.maps.length := by rw [h4 a (List.mem_of_getElem? hr)]; exact Nat.le_refl 4
    exact ⟨[a, q], by simp [argsOf, hr, hq], by simpa using ⟨r, e, hR h4'⟩⟩
  | appendOld m o aLen bLen => simp [opClass] at hc

/-- non-vacuity: a concrete state (one mesh, four kinds, one attribute), a `setAttr` on it that succeeds; all hypotheses of
    `class_realises` hold -/
example : ∃ (h' : Heap Nat Nat) (rs : List MeshRep),
    let E : Env Nat := ⟨0, fun n x => x + n, id, fun _ _ => 0⟩
    let s : State Nat Nat := ⟨⟨[[1, 2, 3]], [[(0, ⟨0, 0, 3, 3⟩)]]⟩, [⟨0, Slice.nil, Slice.nil, [some 0, none, none, none]⟩]⟩
    (Op.setAttr 0 0 5 [7, 8, 9] 0 : Op Nat Nat).apply E s = some (h', rs) ∧ (∀ a ∈ s.pool, a.maps.length = 4) ∧
      opClass (Op.setAttr 0 0 5 [7, 8, 9] 0 : Op Nat Nat) = some (.setAttr 0, [0]) ∧ (Cls.setAttr 0).kindOK = true :=
  ⟨_, _, rfl, by decide, rfl, rfl⟩

end realises

end C01
end PolyVerif
