/-
  C19 — what the combinators of math/sdf/operators.go and translate.go do to EXACTNESS.

  Round 1: `Union`/`Intersect`/`Subtract` are negative exactly on the union / intersection / difference and
  preserve the 1-Lipschitz bound; `Translate` moves the field.  This file adds the exact-distance side:

  * a union (min) of 1-Lipschitz fields that are exact OUTSIDE is exact outside (`union_exactOutside`);
  * an intersection (max) of 1-Lipschitz fields that are exact INSIDE is exact inside (`intersect_exactInside`);
  * `Subtract a b` is exact inside when `a` is exact inside and `b` exact outside (`subtract_exactInside`);
  * `Translate` preserves exactness at corresponding points (`translate_exactAt`);
  * and the converse really fails: inside the union of two overlapping unit balls the field is only a BOUND —
    at the midpoint every zero-set point is farther than `|f p|` (`union_not_exact_inside`, a closed witness).
  * `VarryingThicknessLine` (union of rounded cones) with radii ≥ 0 is exact outside (`varLine_exactOutside`).

  `Subtract`/`Translate` are the regenerated closures (Gen/Sdf.lean); `Union`/`Intersect` the hand model
  `SdfOps` (variadic; corresponded bit for bit by the c19 stream).
-/
import PolyVerif.Props.C19ConeInterior

namespace PolyVerif
namespace C19
open Gen Gen.sdf Gen.geometry

/-- `|f p|` is attained as the distance from `p` to a zero-set point of `f` -/
def ExactAt (f : Field) (p : P3) : Prop := ∃ s : P3, f s = 0 ∧ p.Distance s = |f p|
def ExactOutside (f : Field) : Prop := ∀ p, 0 ≤ f p → ExactAt f p
def ExactInside (f : Field) : Prop := ∀ p, f p ≤ 0 → ExactAt f p

theorem min_exactOutside {f g : Field} (hf : Lipschitz1 f) (hg : Lipschitz1 g)
    (ef : ExactOutside f) (eg : ExactOutside g) : ExactOutside (fun q => min (f q) (g q)) := by
  intro p hp
  have hfp : 0 ≤ f p := le_trans hp (min_le_left _ _)
  have hgp : 0 ≤ g p := le_trans hp (min_le_right _ _)
  rcases le_total (f p) (g p) with h | h
  · obtain ⟨s, hs, hd⟩ := ef p hfp
    refine ⟨s, ?_, ?_⟩
    · show min (f s) (g s) = 0
      have := (abs_le.mp (hg p s)).2
      rw [hd, abs_of_nonneg hfp] at this
      rw [hs]; exact min_eq_left (by linarith)
    · show p.Distance s = |min (f p) (g p)|
      rw [min_eq_left h]; exact hd
  · obtain ⟨s, hs, hd⟩ := eg p hgp
    refine ⟨s, ?_, ?_⟩
    · show min (f s) (g s) = 0
      have := (abs_le.mp (hf p s)).2
      rw [hd, abs_of_nonneg hgp] at this
      rw [hs]; exact min_eq_right (by linarith)
    · show p.Distance s = |min (f p) (g p)|
      rw [min_eq_right h]; exact hd

theorem max_exactInside {f g : Field} (hf : Lipschitz1 f) (hg : Lipschitz1 g)
    (ef : ExactInside f) (eg : ExactInside g) : ExactInside (fun q => max (f q) (g q)) := by
  intro p hp
  have hfp : f p ≤ 0 := le_trans (le_max_left _ _) hp
  have hgp : g p ≤ 0 := le_trans (le_max_right _ _) hp
  rcases le_total (f p) (g p) with h | h
  · obtain ⟨s, hs, hd⟩ := eg p hgp
    refine ⟨s, ?_, ?_⟩
    · show max (f s) (g s) = 0
      have := (abs_le.mp (hf p s)).1
      rw [hd, abs_of_nonpos hgp] at this
      rw [hs]; exact max_eq_right (by linarith)
    · show p.Distance s = |max (f p) (g p)|
      rw [max_eq_right h]; exact hd
  · obtain ⟨s, hs, hd⟩ := ef p hfp
    refine ⟨s, ?_, ?_⟩
    · show max (f s) (g s) = 0
      have := (abs_le.mp (hg p s)).1
      rw [hd, abs_of_nonpos hfp] at this
      rw [hs]; exact max_eq_left (by linarith)
    · show p.Distance s = |max (f p) (g p)|
      rw [max_eq_left h]; exact hd

theorem neg_exactInside {b : Field} (eb : ExactOutside b) : ExactInside (fun q => -(b q)) := by
  intro p hp
  obtain ⟨s, hs, hd⟩ := eb p (by linarith)
  exact ⟨s, by show -(b s) = 0; rw [hs, neg_zero], by show p.Distance s = |-(b p)|; rw [abs_neg]; exact hd⟩

theorem neg_lipschitz {b : Field} (hb : Lipschitz1 b) : Lipschitz1 (fun q => -(b q)) := by
  intro p q
  have := hb p q
  rwa [show -(b p) - -(b q) = -(b p - b q) by ring, abs_neg]

/-- `Subtract a b = max a (−b)`: exact inside the difference when `a` is exact inside and `b` is exact outside -/
theorem subtract_exactInside {a b : Field} (ha : Lipschitz1 a) (hb : Lipschitz1 b)
    (ea : ExactInside a) (eb : ExactOutside b) : ExactInside (Subtract a b) :=
  max_exactInside ha (neg_lipschitz hb) ea (neg_exactInside eb)

private theorem foldl_min_exact (fs : List Field) (hl : ∀ f ∈ fs, Lipschitz1 f) (he : ∀ f ∈ fs, ExactOutside f)
    (g : Field) (hg : Lipschitz1 g) (eg : ExactOutside g) :
    ExactOutside (fun p => fs.foldl (fun m f => min m (f p)) (g p)) := by
  induction fs generalizing g with
  | nil => simpa using eg
  | cons f fs ih =>
    simp only [List.foldl_cons]
    exact ih (fun f' hf' => hl f' (List.mem_cons_of_mem _ hf')) (fun f' hf' => he f' (List.mem_cons_of_mem _ hf'))
      (fun p => min (g p) (f p)) (lipschitz_min hg (hl f List.mem_cons_self))
      (min_exactOutside hg (hl f List.mem_cons_self) eg (he f List.mem_cons_self))

private theorem foldl_max_exact (fs : List Field) (hl : ∀ f ∈ fs, Lipschitz1 f) (he : ∀ f ∈ fs, ExactInside f)
    (g : Field) (hg : Lipschitz1 g) (eg : ExactInside g) :
    ExactInside (fun p => fs.foldl (fun m f => max m (f p)) (g p)) := by
  induction fs generalizing g with
  | nil => simpa using eg
  | cons f fs ih =>
    simp only [List.foldl_cons]
    exact ih (fun f' hf' => hl f' (List.mem_cons_of_mem _ hf')) (fun f' hf' => he f' (List.mem_cons_of_mem _ hf'))
      (fun p => max (g p) (f p)) (lipschitz_max hg (hl f List.mem_cons_self))
      (max_exactInside hg (hl f List.mem_cons_self) eg (he f List.mem_cons_self))

/-- `Union` of any number (≥ 1) of 1-Lipschitz fields, each an exact distance outside its shape, is an exact distance
    outside the union -/
theorem union_exactOutside (fs : List Field) (u : Field) (h : SdfOps.Union fs = some u)
    (hl : ∀ f ∈ fs, Lipschitz1 f) (he : ∀ f ∈ fs, ExactOutside f) : ExactOutside u := by
  match fs, h with
  | [f], h => simp only [SdfOps.Union, Option.some.injEq] at h; subst h; exact he _ (by simp)
  | [a, b], h =>
    simp only [SdfOps.Union, Option.some.injEq] at h; subst h
    exact min_exactOutside (hl a (by simp)) (hl b (by simp)) (he a (by simp)) (he b (by simp))
  | f0 :: f1 :: f2 :: rest, h =>
    simp only [SdfOps.Union, Option.some.injEq] at h; subst h
    exact foldl_min_exact _ (fun f hf => hl f (List.mem_cons_of_mem _ hf)) (fun f hf => he f (List.mem_cons_of_mem _ hf))
      f0 (hl f0 List.mem_cons_self) (he f0 List.mem_cons_self)

/-- `Intersect` of any number (≥ 1) of 1-Lipschitz fields, each an exact distance inside its shape, is an exact
    distance inside the intersection -/
theorem intersect_exactInside (fs : List Field) (u : Field) (h : SdfOps.Intersect fs = some u)
    (hl : ∀ f ∈ fs, Lipschitz1 f) (he : ∀ f ∈ fs, ExactInside f) : ExactInside u := by
  match fs, h with
  | [f], h => simp only [SdfOps.Intersect, Option.some.injEq] at h; subst h; exact he _ (by simp)
  | f0 :: f1 :: rest, h =>
    simp only [SdfOps.Intersect, Option.some.injEq] at h; subst h
    exact foldl_max_exact _ (fun f hf => hl f (List.mem_cons_of_mem _ hf)) (fun f hf => he f (List.mem_cons_of_mem _ hf))
      f0 (hl f0 List.mem_cons_self) (he f0 List.mem_cons_self)

/-- `Translate` carries exactness along: exact at `p − t` for `f` means exact at `p` for the translated field -/
theorem translate_exactAt (f : Field) (t p : P3) (h : ExactAt f (p.Sub t)) : ExactAt (Translate f t) p := by
  obtain ⟨s, hs, hd⟩ := h
  refine ⟨s.Add t, by rw [translate_moves]; exact hs, ?_⟩
  rw [translate_spec, ← hd]
  simp only [V3.Distance, V3.DistanceSquared, V3.Add, V3.Sub, RS.sqrt_eq]
  congr 1; ring

theorem translate_exactOutside (f : Field) (t : P3) (h : ExactOutside f) : ExactOutside (Translate f t) :=
  fun p hp => translate_exactAt f t p (h _ hp)

theorem translate_exactInside (f : Field) (t : P3) (h : ExactInside f) : ExactInside (Translate f t) :=
  fun p hp => translate_exactAt f t p (h _ hp)

/-! ### the primitives as instances -/

theorem sphere_exactOutside (c : P3) (r : ℝ) (hr : 0 ≤ r) : ExactOutside (Sphere c r) := fun p _ => by
  obtain ⟨s, hs, hd⟩ := sphere_exact_attained_all c r hr p
  exact ⟨s, (sphere_zero_iff c r s).mpr hs, hd⟩

theorem sphere_exactInside (c : P3) (r : ℝ) (hr : 0 ≤ r) : ExactInside (Sphere c r) := fun p _ => by
  obtain ⟨s, hs, hd⟩ := sphere_exact_attained_all c r hr p
  exact ⟨s, (sphere_zero_iff c r s).mpr hs, hd⟩

theorem roundedCone_exactOutside (a b : P3) (r1 r2 : ℝ) (hr1 : 0 ≤ r1) (hr2 : 0 ≤ r2) :
    ExactOutside (RoundedCone a b r1 r2) := fun p hp => by
  obtain ⟨s, hs, hd⟩ := roundedCone_exact_attained_outside_all a b r1 r2 hr1 hr2 p hp
  exact ⟨s, hs, by rw [hd, abs_of_nonneg hp]⟩

theorem roundedCone_exactInside (a b : P3) (r1 r2 : ℝ) : ExactInside (RoundedCone a b r1 r2) := fun p hp => by
  rcases hp.lt_or_eq with h | h
  · obtain ⟨s, hs, hd⟩ := roundedCone_exact_attained_inside_all a b r1 r2 p h
    exact ⟨s, hs, by rw [hd, abs_of_neg h]⟩
  · exact ⟨p, h, by rw [h, abs_zero]; exact V3.distance_eq_zero.mpr rfl⟩

/-- `VarryingThicknessLine` with radii ≥ 0: outside the shape the field IS the Euclidean distance to the zero set -/
theorem varLine_exactOutside (pts : List (P3 × ℝ)) (hr : ∀ pr ∈ pts, 0 ≤ pr.2) (u : Field)
    (h : SdfOps.Union (varLineCones pts) = some u) : ExactOutside u := by
  refine union_exactOutside _ u h ?_ ?_
  · intro f hf
    obtain ⟨se, -, rfl⟩ := List.mem_map.mp hf
    exact roundedCone_lipschitz_all _ _ _ _
  · intro f hf
    obtain ⟨se, hse, rfl⟩ := List.mem_map.mp hf
    have h1 := (List.of_mem_zip hse).1
    have h2 := List.mem_of_mem_tail (List.of_mem_zip hse).2
    exact roundedCone_exactOutside _ _ _ _ (hr _ h1) (hr _ h2)

/-! ### inside a union the field is only a bound -/

/-- two overlapping unit balls centred `(0,0,0)` and `(1,0,0)`; at the midpoint `p = (1/2,0,0)` the union field is
    `−1/2` but every zero-set point is at distance `≥ √3/2 > 1/2` (squared distance ≥ 3/4): inside a union the
    field is a lower bound of the distance, not the distance -/
theorem union_not_exact_inside :
    ∃ u : Field, SdfOps.Union [Sphere (⟨0, 0, 0⟩ : P3) 1, Sphere ⟨1, 0, 0⟩ 1] = some u ∧
      u ⟨1/2, 0, 0⟩ = -(1/2) ∧ ∀ s : P3, u s = 0 → (3 : ℝ) / 4 ≤ (⟨1/2, 0, 0⟩ : P3).DistanceSquared s := by
  refine ⟨_, rfl, ?_, ?_⟩
  · show min (Sphere (⟨0, 0, 0⟩ : P3) 1 ⟨1/2, 0, 0⟩) (Sphere (⟨1, 0, 0⟩ : P3) 1 ⟨1/2, 0, 0⟩) = -(1/2)
    simp only [sphere_eq, V3.Distance, V3.DistanceSquared, RS.sqrt_eq]
    rw [show ((0 : ℝ) - 1/2) * (0 - 1/2) + (0 - 0) * (0 - 0) + (0 - 0) * (0 - 0) = (1/2) ^ 2 by norm_num,
      show ((1 : ℝ) - 1/2) * (1 - 1/2) + (0 - 0) * (0 - 0) + (0 - 0) * (0 - 0) = (1/2) ^ 2 by norm_num,
      Real.sqrt_sq (by norm_num)]
    norm_num
  · intro s hs
    have hs' : min (Sphere (⟨0, 0, 0⟩ : P3) 1 s) (Sphere (⟨1, 0, 0⟩ : P3) 1 s) = 0 := hs
    have h1 : 0 ≤ Sphere (⟨0, 0, 0⟩ : P3) 1 s := le_of_eq_of_le hs'.symm (min_le_left _ _)
    have h2 : 0 ≤ Sphere (⟨1, 0, 0⟩ : P3) 1 s := le_of_eq_of_le hs'.symm (min_le_right _ _)
    rw [sphere_eq, distance_eq_sqrt] at h1 h2
    have k1 : (1 : ℝ) ≤ s.DistanceSquared ⟨0, 0, 0⟩ := by
      have := (Real.le_sqrt' (by norm_num : (0 : ℝ) < 1)).mp (by linarith : (1 : ℝ) ≤ Real.sqrt (s.DistanceSquared ⟨0, 0, 0⟩))
      linarith
    have k2 : (1 : ℝ) ≤ s.DistanceSquared ⟨1, 0, 0⟩ := by
      have := (Real.le_sqrt' (by norm_num : (0 : ℝ) < 1)).mp (by linarith : (1 : ℝ) ≤ Real.sqrt (s.DistanceSquared ⟨1, 0, 0⟩))
      linarith
    simp only [V3.DistanceSquared] at k1 k2 ⊢
    nlinarith

/-- …so the exact-distance clause cannot hold there: `|u p| = 1/2` is strictly below the distance to every zero-set point -/
theorem union_not_exactAt_inside :
    ¬ ExactAt (fun q => min (Sphere (⟨0, 0, 0⟩ : P3) 1 q) (Sphere (⟨1, 0, 0⟩ : P3) 1 q)) ⟨1/2, 0, 0⟩ := by
  obtain ⟨u, hu, hval, hfar⟩ := union_not_exact_inside
  have hu' : u = fun q => min (Sphere (⟨0, 0, 0⟩ : P3) 1 q) (Sphere (⟨1, 0, 0⟩ : P3) 1 q) := by
    simp only [SdfOps.Union, Option.some.injEq] at hu; exact hu.symm
  subst hu'
  rintro ⟨s, hs, hd⟩
  have h34 := hfar s hs
  rw [hval, abs_neg, abs_of_pos (by norm_num : (0 : ℝ) < 1/2), distance_eq_sqrt] at hd
  have : Real.sqrt ((⟨1/2, 0, 0⟩ : P3).DistanceSquared s) ^ 2 = (⟨1/2, 0, 0⟩ : P3).DistanceSquared s :=
    Real.sq_sqrt (by linarith)
  rw [hd] at this
  norm_num at this
  linarith


/-! ### outside an intersection the field is only a bound -/

/-- two balls of radius 5 centred `(∓3,0,0)` (their intersection is a lens with tip `(0,4,0)`); at `p = (0, 35/4, 0)` the
    intersection field is `17/4` but every zero-set point is at distance `≥ 19/4`: outside an intersection the field is
    a lower bound of the distance, not the distance -/
theorem intersect_not_exact_outside :
    ∃ u : Field, SdfOps.Intersect [Sphere (⟨-3, 0, 0⟩ : P3) 5, Sphere ⟨3, 0, 0⟩ 5] = some u ∧
      u ⟨0, 35/4, 0⟩ = 17/4 ∧ ∀ s : P3, u s = 0 → ((19 : ℝ) / 4) ^ 2 ≤ (⟨0, 35/4, 0⟩ : P3).DistanceSquared s := by
  refine ⟨_, rfl, ?_, ?_⟩
  · show max (Sphere (⟨-3, 0, 0⟩ : P3) 5 ⟨0, 35/4, 0⟩) (Sphere (⟨3, 0, 0⟩ : P3) 5 ⟨0, 35/4, 0⟩) = 17/4
    simp only [sphere_eq, V3.Distance, V3.DistanceSquared, RS.sqrt_eq]
    rw [show ((-3 : ℝ) - 0) * (-3 - 0) + (0 - 35/4) * (0 - 35/4) + (0 - 0) * (0 - 0) = (37/4) ^ 2 by norm_num,
      show ((3 : ℝ) - 0) * (3 - 0) + (0 - 35/4) * (0 - 35/4) + (0 - 0) * (0 - 0) = (37/4) ^ 2 by norm_num,
      Real.sqrt_sq (by norm_num)]
    norm_num
  · intro s hs
    have hs' : max (Sphere (⟨-3, 0, 0⟩ : P3) 5 s) (Sphere (⟨3, 0, 0⟩ : P3) 5 s) = 0 := hs
    have h1 : Sphere (⟨-3, 0, 0⟩ : P3) 5 s ≤ 0 := le_of_le_of_eq (le_max_left _ _) hs'
    have h2 : Sphere (⟨3, 0, 0⟩ : P3) 5 s ≤ 0 := le_of_le_of_eq (le_max_right _ _) hs'
    rw [sphere_eq, distance_eq_sqrt] at h1 h2
    have k1 : s.DistanceSquared ⟨-3, 0, 0⟩ ≤ 5 ^ 2 :=
      (Real.sqrt_le_iff.mp (by linarith : Real.sqrt (s.DistanceSquared ⟨-3, 0, 0⟩) ≤ 5)).2
    have k2 : s.DistanceSquared ⟨3, 0, 0⟩ ≤ 5 ^ 2 :=
      (Real.sqrt_le_iff.mp (by linarith : Real.sqrt (s.DistanceSquared ⟨3, 0, 0⟩) ≤ 5)).2
    simp only [V3.DistanceSquared] at k1 k2 ⊢
    have hy : s.y ≤ 4 := by nlinarith [sq_nonneg s.x, sq_nonneg s.z, sq_nonneg (s.y + 4)]
    nlinarith [sq_nonneg s.x, sq_nonneg s.z, sq_nonneg (s.y - 4)]

/-! ### non-vacuity -/

example : ExactOutside (Sphere (⟨0, 0, 0⟩ : P3) 1) := sphere_exactOutside _ _ (by norm_num)
example : ∀ pr ∈ [((⟨0, 0, 0⟩ : P3), (1 : ℝ)), (⟨3, 0, 0⟩, 2), (⟨3, 4, 0⟩, 0)], 0 ≤ pr.2 := by
  intro pr h; simp at h; rcases h with rfl | rfl | rfl <;> norm_num

end C19
end PolyVerif
